#!/usr/bin/env python3
"""setup_cmd: verify the tools are present and /repo has its generated config.h."""
import os, shutil, subprocess, sys
ok = True
for t in ("cbmc", "goto-cc", "goto-instrument", "gcc"):
    if not shutil.which(t):
        print("missing tool:", t); ok = False
if not os.path.exists("/repo/include/config.h"):
    if os.path.exists("/repo/config.status"):
        subprocess.call(["./config.status", "include/config.h"], cwd="/repo")
    if not os.path.exists("/repo/include/config.h"):
        subprocess.call("./configure -q", shell=True, cwd="/repo")
if not os.path.exists("/repo/include/config.h"):
    print("cannot create /repo/include/config.h"); ok = False
for d in ("evidence", "replays"):
    os.makedirs(os.path.join("/verif", d), exist_ok=True)
print("setup", "ok" if ok else "FAILED")
sys.exit(0 if ok else 1)
