#!/bin/sh
# usage: mkworktree.sh <dir>   -- scratch git worktree of /repo HEAD, configured and built (about 25 s)
set -e
d="$1"
git -C /repo worktree add --detach "$d" HEAD >/dev/null 2>&1
rsync -a --exclude .git --exclude '*.o' --exclude '*.lo' --exclude '.libs' --exclude '*.la' --exclude '*.log' --exclude '*.trs' --exclude '*.test' /repo/ "$d"/
cd "$d"
./configure -q >/dev/null 2>&1
make clean >/dev/null 2>&1 || true
make -j8 >/dev/null 2>&1
git status --short | grep -v '^??' || true
echo "worktree ready: $d"
