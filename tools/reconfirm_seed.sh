#!/bin/sh
# usage: reconfirm_seed.sh <worktree> <seed-id>
# Re-confirms a kept seed against /repo's CURRENT HEAD in a scratch worktree (created by tools/mkworktree.sh):
# the patch applies, the tree builds, the 11 tests pass with it, the demo fails with it and passes without it.
# Result goes to seeded/<seed-id>/meta.json ("reconfirmed") and one line on stdout.
W=$1; S=$2; D=/verif/seeded/$S
LOG=/tmp/reconfirm.$S.log
head=$(git -C /repo rev-parse --short HEAD)
cd $W || exit 9
git checkout -q -- . 
git checkout -q --detach $head 2>/dev/null
st=ok
if ! git apply $D/patch.diff 2>/dev/null; then
  patch -p1 -s --no-backup-if-mismatch < $D/patch.diff >/dev/null 2>&1 || st=patch-does-not-apply
fi
sp=0; sf=0; with=-; without=-
if [ $st = ok ]; then
  make -j8 >/dev/null 2>&1 || st=build-failed
fi
if [ $st = ok ]; then
  make -j8 check > $LOG 2>&1
  sp=$(grep -E "^# PASS:" $LOG | awk '{print $3}'); sf=$(grep -E "^# FAIL:" $LOG | awk '{print $3}')
  (cd $D && timeout 300 sh ./run.sh $W >/dev/null 2>&1); with=$?
fi
git checkout -q -- . ; find . -name '*.rej' -o -name '*.orig' | xargs rm -f
if [ $st = ok ]; then
  make -j8 >/dev/null 2>&1
  (cd $D && timeout 300 sh ./run.sh $W >/dev/null 2>&1); without=$?
  if [ "$sp" = 11 ] && [ "$sf" = 0 ] && [ $with -ne 0 ] && [ $without -eq 0 ]; then st=confirmed; else st=not-confirmed; fi
fi
python3 - "$D/meta.json" "$head" "$st" "$sp" "$sf" "$with" "$without" <<'PY'
import json,sys,time
p,head,st,sp,sf,w,wo=sys.argv[1:8]
try: m=json.load(open(p))
except Exception: m={}
m['reconfirmed']={'repo_head':head,'result':st,'suite_pass':sp,'suite_fail':sf,'demo_exit_with_change':w,'demo_exit_without_change':wo,'when':time.strftime('%Y-%m-%dT%H:%MZ',time.gmtime())}
json.dump(m,open(p,'w'),indent=1)
PY
echo "$S $st suite=$sp/$sf with=$with without=$without $(grep -E '^FAIL' $LOG 2>/dev/null | tr '\n' ' ')"
[ "$st" = confirmed ] && rm -f $LOG
