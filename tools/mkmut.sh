#!/bin/sh
# usage: mkmut.sh <PROP> <name> <repo-relative-file> <sed -E expr>   -> /verif/selftest/<PROP>/<name>.patch
set -e
P=$1; N=$2; F=$3; E=$4
T=$(mktemp -d /tmp/verif-mk-XXXXXX); trap 'rm -rf $T' EXIT
mkdir -p $T/a/$(dirname $F) $T/b/$(dirname $F) /verif/selftest/$P
cp /repo/$F $T/a/$F; cp /repo/$F $T/b/$F
sed -i -E "$E" $T/b/$F
(cd $T && diff -u a/$F b/$F > /verif/selftest/$P/$N.patch) || true
[ -s /verif/selftest/$P/$N.patch ] || { echo "EMPTY mutant $N"; rm -f /verif/selftest/$P/$N.patch; exit 1; }
echo "ok $P/$N ($(grep -c '^[-+][^-+]' /verif/selftest/$P/$N.patch) lines)"
