#!/bin/sh
# usage: confirm_seed.sh <PROP> <mk>   (uses worktree /tmp/seed/<PROP>, candidate in /tmp/seedout/<PROP>/<mk>)
# confirms: applies, builds, test suite passes with the change, demo fails with / passes without; then stores in /verif/seeded/
P=$1; K=$2; W=/tmp/seed/$P; C=/tmp/seedout/$P/$K; OUT=/verif/seeded/$P-$K
LOG=/tmp/seedout/$P/$K/confirm.log
exec > $LOG 2>&1
cd $W || exit 9
git checkout -- . ; git status --short | grep -v '^??'
git apply $C/patch.diff || { echo APPLY-FAILED; exit 1; }
make -j8 >/dev/null 2>&1 || { echo BUILD-FAILED; git checkout -- .; exit 1; }
make -j8 check > $C/confirm.check.log 2>&1
grep -E "^# (PASS|FAIL|ERROR)" $C/confirm.check.log
suite_fail=$(grep -E "^# FAIL:" $C/confirm.check.log | awk '{print $3}')
suite_pass=$(grep -E "^# PASS:" $C/confirm.check.log | awk '{print $3}')
(cd $C && timeout 300 sh ./run.sh $W > $C/confirm.demo.with.log 2>&1); with=$?
git checkout -- . ; make -j8 >/dev/null 2>&1
(cd $C && timeout 300 sh ./run.sh $W > $C/confirm.demo.without.log 2>&1); without=$?
echo "suite_pass=$suite_pass suite_fail=$suite_fail demo_with=$with demo_without=$without"
if [ "$suite_pass" = "11" ] && [ "$suite_fail" = "0" ] && [ $with -ne 0 ] && [ $without -eq 0 ]; then
  mkdir -p $OUT
  cp $C/patch.diff $C/demo.c $C/run.sh $OUT/ 2>/dev/null
  python3 - "$C/meta.json" "$OUT/meta.json" "$suite_pass" "$with" "$without" <<'PY'
import json,sys
try: m=json.load(open(sys.argv[1]))
except Exception as e: m={"note":"agent meta.json unreadable: %s"%e}
m["confirmed_by_me"]={"worktree":"scratch git worktree of /repo HEAD under /tmp/seed (removed afterwards)",
  "ran":["git apply patch.diff; make -j8; make -j8 check -> %s PASS 0 FAIL"%sys.argv[3],
         "sh run.sh <tree> with the change -> exit %s"%sys.argv[4],
         "git checkout -- .; make -j8; sh run.sh <tree> without the change -> exit %s"%sys.argv[5]]}
json.dump(m,open(sys.argv[2],"w"),indent=1)
PY
  echo CONFIRMED
else
  echo NOT-CONFIRMED
fi
