#!/bin/sh
# usage: adopt_seed.sh <candidate-dir> <seed-id> <worktree>
# Copies a candidate (patch.diff, demo.c, run.sh, meta.json) produced by a seeding sub-agent into seeded/<seed-id>
# and confirms it against /repo HEAD with tools/reconfirm_seed.sh; an unconfirmed candidate is removed again.
C=$1; S=$2; W=$3; D=/verif/seeded/$S
[ -f $C/patch.diff ] || { echo "$S no-candidate"; exit 1; }
mkdir -p $D && cp $C/patch.diff $C/run.sh $C/meta.json $D/ 2>/dev/null; cp $C/*.c $C/*.h $D/ 2>/dev/null
out=$(/verif/tools/reconfirm_seed.sh $W $S)
echo "$out"
case "$out" in *" confirmed "*) exit 0;; *) mv $D /tmp/p1/rejected-$S 2>/dev/null; exit 1;; esac
