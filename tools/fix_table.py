#!/usr/bin/env python3
"""Print the markdown table of fix: commits (DESIGN.md 10.2) from known_findings.json and /repo's git log."""
import json, subprocess, os
root = os.path.dirname(os.path.dirname(os.path.abspath(__file__)))
k = json.load(open(os.path.join(root, 'known_findings.json')))['findings']
log = subprocess.run(['git', '-C', os.environ.get('VERIF_REPO', '/repo'), 'log', '--format=%h %s'],
                     capture_output=True, text=True).stdout.splitlines()
subj = {l.split()[0]: l.split(' ', 1)[1] for l in log if ' fix:' in ' ' + l.split(' ', 1)[1][:5] or l.split(' ', 1)[1].startswith('fix:')}
by = {}
for f in k:
    if f.get('status') == 'fixed':
        by.setdefault(f['commit'][:7], []).append(f)
print('| commit | property | subject | failing input (obligation that failed on the unchanged tree) |')
print('|---|---|---|---|')
for h in reversed([l.split()[0] for l in log if l.split(' ', 1)[1].startswith('fix:')]):
    fs = by.get(h[:7], [])
    props = '/'.join(sorted({f['property'] for f in fs})) or '?'
    what = '; '.join('%s — "%s" (`%s`)' % (f['what'], f['key'], f['unit']) for f in fs) or '(no entry)'
    print('| %s | %s | %s | %s |' % (h, props, subj[h][5:], what.replace('|', '\\|')))
