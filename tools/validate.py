#!/usr/bin/env python3
"""validate MANIFEST.json and evidence files against the schemas (uses the tooling venv's jsonschema)"""
import json, glob, sys, jsonschema
ok = True
try:
    jsonschema.validate(json.load(open('/verif/MANIFEST.json')), json.load(open('/root/.vp/MANIFEST.schema.json')))
    print('MANIFEST ok')
except Exception as e:
    print('MANIFEST INVALID', e); ok = False
es = json.load(open('/root/.vp/EVIDENCE.schema.json'))
for f in sorted(glob.glob('/verif/evidence/*.json')):
    try:
        ev = json.load(open(f)); jsonschema.validate(ev, es)
        c = ev['coverage']
        print(f, 'ok', ev['level'], c.get('obligations'), c.get('discharged'), 'viol', ev.get('violations'), '%.0fs' % ev['wall_s'])
    except Exception as e:
        print(f, 'INVALID', str(e)[:300]); ok = False
sys.exit(0 if ok else 1)
