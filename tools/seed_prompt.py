#!/usr/bin/env python3
"""print the prompt given to a mutant-seeding sub-agent for property <id> (property text + worktree only)"""
import json, sys
pid = sys.argv[1]
n = sys.argv[2] if len(sys.argv) > 2 else '2'
for l in open('/verif/properties.jsonl'):
    p = json.loads(l)
    if p['id'] == pid:
        break
rec = {k: p[k] for k in ('id', 'title', 'statement', 'quantifier', 'why_tests_cant', 'anchors')}
print(f"""You are helping to evaluate a verification effort for the C library libqb (ClusterLabs/libqb). Your job is to play the part of a developer who introduces a subtle regression.

You have your own scratch git worktree of the library at /tmp/seed/{pid} (already configured and built in-tree with autotools: `make -j8` rebuilds, `make -j8 check` runs the existing 11-program test suite and takes about 2-3 minutes; results are in tests/*.log and the summary at the end of the make output). Work ONLY inside /tmp/seed/{pid} and /tmp/seedout/{pid}. Do NOT read or write /repo or /verif (they are off limits), and do not touch other directories under /tmp/seed.

Here is a semantic property that libqb is supposed to satisfy (JSON record):

{json.dumps(rec, indent=1)}

Task: produce {n} DIFFERENT source changes to the library (files under lib/ or include/), each of which
  1. still compiles without new warnings being fatal (`make -j8` succeeds),
  2. still passes the whole existing test suite (`make -j8 check` reports 11 PASS, 0 FAIL) -- you must actually run it with the change applied,
  3. BREAKS the property above, and
  4. needs something specific to manifest: a particular interleaving, a fault or failure at a particular point, a multi-step sequence of operations, an unusual input or size, or two cooperating sites that each look fine alone. Do NOT propose changes that ordinary use would expose immediately. Realistic slips are ideal (an off-by-one in a boundary test, a dropped or reordered statement, a check moved after its use, a wrong constant, a missed state update on one path, mishandled wrap-around/overflow), i.e. the kind of change that could plausibly get through code review. Keep each change small (a few lines). The changes should hit different mechanisms of the property if possible.

For each change k = 1..{n} create the directory /tmp/seedout/{pid}/m<k>/ containing:
  - patch.diff : the change as a unified diff produced by `git diff` in the worktree (so that `git apply patch.diff` applies it at the repository root),
  - a demonstration: a small C program demo.c (plus a run.sh that compiles it against the worktree build, e.g. `gcc -I$ROOT/include demo.c $ROOT/lib/.libs/libqb.so -Wl,-rpath,$ROOT/lib/.libs -lpthread -o demo && ./demo`, taking the tree root as its first argument) that exits 0 on the unmodified library and non-zero (or crashes) with the change applied. The demo may call static/internal functions by #including the .c file if that is the only way. You must actually run it both ways and confirm.
  - meta.json : {{"property": "{pid}", "summary": "<one sentence: what was changed>", "needs": "<what specific situation is needed for the breakage to show>", "files": [...], "ran": ["commands you ran and their outcome, incl. the make check summary"]}}

Procedure hints: make the change, `make -j8 && make -j8 check 2>&1 | tail -20`, run the demo; then `git diff > /tmp/seedout/{pid}/m<k>/patch.diff`, then `git checkout -- .` to restore the tree, rebuild, and confirm the demo passes on the unmodified tree. If the test suite fails with a change, discard it and try a different one. The test suite has some timing-sensitive IPC tests; if a failure looks unrelated to your change, re-run once before discarding. Leave the worktree clean (`git status` shows no modifications) when you finish.

Finish with a short report: for each change, the summary, the needs, and the confirmed outcomes (suite pass, demo fail with / pass without).""")
