#!/bin/sh
# usage: mut.sh <patch-file | -e 'sed-expr' file> -- <check args...>
# runs ./check against a scratch copy of /repo's lib+include with the change applied
set -e
M=$(mktemp -d /tmp/verif-mut-XXXXXX)
trap 'rm -rf "$M"' EXIT
mkdir -p $M/lib $M/include
rsync -a --include '*.c' --include '*.h' --exclude '*' /repo/lib/ $M/lib/
rsync -a /repo/include/ $M/include/
if [ "$1" = "-e" ]; then
  sed -i -E "$2" "$M/$3"
  (cd $M && diff -u /repo/$3 $3 | head -20) || true
  shift 3
else
  (cd $M && patch -p1 -s < "$1"); shift
fi
[ "$1" = "--" ] && shift
VERIF_REPO=$M VERIF_NO_EVIDENCE=1 /verif/check "$@"
