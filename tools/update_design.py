#!/usr/bin/env python3
"""Regenerate the generated tables of DESIGN.md (between <!-- GEN:x --> and <!-- /GEN:x --> markers):
   fixes   - fix: commits in /repo with the failing input each repaired (tools/fix_table.py)
   seeds   - seeded changes kept under seeded/ and the obligation that reports each (seeded/*/caught.json)
   summary - what the committed evidence files say (tools/summary.py)"""
import subprocess, json, glob, os, re, sys
root = os.path.dirname(os.path.dirname(os.path.abspath(__file__)))
def run(t): return subprocess.run([sys.executable, os.path.join(root, 'tools', t)], capture_output=True, text=True).stdout.strip()
def seeds():
    rows = ['| seed | change (one line) | reported by (first failed obligations) | native replay | checked at /repo |', '|---|---|---|---|---|']
    for d in sorted(glob.glob(os.path.join(root, 'seeded', 'C*-m*'))):
        sid = os.path.basename(d)
        try: m = json.load(open(os.path.join(d, 'meta.json')))
        except Exception: m = {}
        try: c = json.load(open(os.path.join(d, 'caught.json')))
        except Exception: c = None
        summ = re.sub(r'\s+', ' ', str(m.get('summary', '?'))).replace('|', '\\|')
        if len(summ) > 230: summ = summ[:227] + '…'
        if c is None: rep, nat, at = '(not run)', '', ''
        elif c['caught']:
            rep = '<br>'.join(o.replace('|', '\\|')[:200] for o in c['failed_obligations'][:2]); at = c['repo_head']
            nat = 'reproduced' if c['native_replay_reproduced'] else 'no-failing-input-found'
        else: rep, nat, at = '**not reported** (exit %d)' % c['exit'], '', c['repo_head']
        rows.append('| %s | %s | %s | %s | %s |' % (sid, summ, rep, nat, at))
    return '\n'.join(rows)
gen = {'fixes': lambda: run('fix_table.py'), 'summary': lambda: run('summary.py'), 'seeds': seeds}
p = os.path.join(root, 'DESIGN.md'); s = open(p).read()
for k, f in gen.items():
    pat = re.compile(r'(<!-- GEN:%s -->\n).*?(<!-- /GEN:%s -->)' % (k, k), re.S)
    if not pat.search(s): print('marker missing:', k); continue
    s = pat.sub(lambda m: m.group(1) + f() + '\n' + m.group(2), s)
open(p, 'w').write(s)
