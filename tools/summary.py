#!/usr/bin/env python3
"""print a markdown table of what the committed evidence files say (for DESIGN.md section 10.5)"""
import json, glob, os
rows = []
for f in sorted(glob.glob('/verif/evidence/C*.json')):
    e = json.load(open(f)); c = e['coverage']
    units = c.get('units', [])
    proved = [u for u in units if u['label'] == 'proved']
    bounded = [u for u in units if u['label'] != 'proved']
    dfcc = [u for u in units if u['mode'] == 'dfcc']
    rows.append('| %s | %s | %d (%d dfcc) | %d | %d / %d | %d / %d | %.0f | %.0f | %s |' % (
        e['property_id'], e['level'], len(proved), len(dfcc), len(bounded), c['discharged'], c['obligations'],
        c.get('bounded_discharged', 0), c.get('bounded_obligations', 0), c.get('solver_s_total', 0), e['wall_s'],
        '; '.join(c.get('known_findings_hit', []))[:60]))
print('| prop | level | proved units | bounded units | proved obligations (discharged/total) | bounded obligations | solver s | wall s | known findings |')
print('|---|---|---|---|---|---|---|---|---|')
print('\n'.join(rows))
