#!/bin/sh
# usage: seedrun.sh <seed-id> [check args]   e.g. seedrun.sh C07-m1 -j 4
# Runs the property's registered quick check against a scratch copy of /repo with seeded/<seed-id>/patch.diff applied
# and records what it reported in seeded/<seed-id>/caught.json (read by tools/update_design.py).
S=$1; shift
D=/verif/seeded/$S; P=${S%%-*}
[ -f $D/patch.diff ] || { echo "no such seed $S"; exit 2; }
out=$(/verif/tools/mut.sh $D/patch.diff -- $P "$@" 2>&1); rc=$?
printf '%s\n' "$out" > /tmp/seedrun.$S.log
python3 - "$S" "$rc" /tmp/seedrun.$S.log "$D/caught.json" <<'PY'
import json, sys, re, subprocess, time
s, rc, log, out = sys.argv[1:5]
txt = open(log).read()
obl = re.findall(r'^failed obligation: (.*)$', txt, re.M)
vio = re.findall(r'^VIOLATION .*$', txt, re.M)
head = subprocess.run(['git', '-C', '/repo', 'rev-parse', '--short', 'HEAD'], capture_output=True, text=True).stdout.strip()
vhead = subprocess.run(['git', '-C', '/verif', 'rev-parse', '--short', 'HEAD'], capture_output=True, text=True).stdout.strip()
json.dump({"seed": s, "repo_head": head, "verif_head": vhead, "exit": int(rc), "caught": int(rc) == 1 and bool(vio),
           "failed_obligations": obl[:6], "violation_lines": [re.sub(r'replay=\S+', 'replay=…', v) for v in vio[:3]],
           "native_replay_reproduced": sum(1 for v in vio if not v.rstrip().endswith('no-failing-input-found')),
           "when": time.strftime('%Y-%m-%dT%H:%MZ', time.gmtime())}, open(out, 'w'), indent=1)
print(s, 'exit', rc, '|', (obl or ['-'])[0][:160])
PY
rm -f /tmp/seedrun.$S.log
