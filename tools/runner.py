#!/usr/bin/env python3
"""Runner for the contract-based checks (DESIGN.md 3.4, 5).

  ./check <PROP> [--tier quick|thorough] [--only unit-substring] [--keep] [-v]
  ./check --replay <file>
  ./check --unit <unit-name> [-v]        (debugging: one unit, verbose)

Exit 0: every obligation of every unit discharged (or listed as a known finding)
Exit 1: a failed obligation that is not a known finding -> VIOLATION line
Exit 2: tool trouble (timeout, splice rule did not fire, vacuity guard, ...)
"""
import argparse
import concurrent.futures as cf
import glob
import hashlib
import json
import os
import re
import resource
import shutil
import subprocess
import sys
import tempfile
import time

VERIF = os.path.dirname(os.path.dirname(os.path.abspath(__file__)))
REPO = os.environ.get('VERIF_REPO', '/repo')
sys.path.insert(0, os.path.join(VERIF, 'tools'))
import splice as SP  # noqa: E402

CBMC_CHECKS = ['--bounds-check', '--pointer-check', '--pointer-overflow-check',
               '--signed-overflow-check', '--div-by-zero-check', '--undefined-shift-check',
               '--no-pointer-primitive-check']
INCLUDES = ['-I', os.path.join(VERIF, 'include'), '-I', os.path.join(VERIF, 'stubs'),
            '-I', os.path.join(REPO, 'include'), '-I', os.path.join(REPO, 'include/qb'),
            '-I', os.path.join(REPO, 'lib')]
AUX_CLASSES = ('loop_invariant_base', 'loop_invariant_step', 'loop_decreases',
               'loop_assigns', 'loop_step_unwinding')
MEM_LIMIT = 12 * 1024 * 1024 * 1024


class ToolError(Exception):
    pass


# --------------------------------------------------------------------------
# unit loading

def load_units():
    units = {}
    for path in sorted(glob.glob(os.path.join(VERIF, 'units', '**', '*.c'), recursive=True)):
        txt = open(path).read()
        m = re.search(r'/\*UNIT\s*(\{.*?\})\s*\*/', txt, re.S)
        if not m:
            continue
        try:
            meta = json.loads(m.group(1))
        except Exception as e:
            print('TOOL: skipping %s: bad UNIT json: %s' % (path, e), file=sys.stderr)
            continue
        base = os.path.splitext(os.path.relpath(path, os.path.join(VERIF, 'units')))[0].replace('/', '.')
        variants = meta.pop('variants', None) or [{}]
        for v in variants:
            u = dict(meta)
            u.update(v)
            u['path'] = path
            u['name'] = base + ('.' + v['vname'] if 'vname' in v else '')
            u['cover_points'] = len(re.findall(r'\bCOVER\s*\(', txt))
            u['assume_count'] = len(re.findall(r'\bASSUME\s*\(|__CPROVER_assume\s*\(', txt))
            units[u['name']] = u
    return units


def limit():
    resource.setrlimit(resource.RLIMIT_AS, (MEM_LIMIT, MEM_LIMIT))


def run(cmd, timeout, cwd=None, stdout_path=None):
    t0 = time.time()
    try:
        if stdout_path:
            with open(stdout_path, 'w') as fo:
                p = subprocess.run(cmd, cwd=cwd, stdout=fo, stderr=subprocess.PIPE, timeout=timeout,
                                   preexec_fn=limit, text=True)
            out = ''
        else:
            p = subprocess.run(cmd, cwd=cwd, stdout=subprocess.PIPE, stderr=subprocess.PIPE, timeout=timeout,
                               preexec_fn=limit, text=True)
            out = p.stdout
        return p.returncode, out, p.stderr, time.time() - t0
    except subprocess.TimeoutExpired:
        return None, '', 'TIMEOUT after %ss' % timeout, time.time() - t0


# --------------------------------------------------------------------------
# splice stage

def splice_sources(u, sdir):
    """copy+splice every source of the unit into sdir; -> report dict"""
    rep = {'files': [], 'added_chars': 0, 'rules': [], 'drops': []}
    specs = u.get('spec', [])
    if isinstance(specs, str):
        specs = [specs]
    rules_by_file = {}
    for sp in specs:
        # spec file "contracts/<x>.spec" begins with a line "@file lib/x.c"
        txt = open(os.path.join(VERIF, 'contracts', sp)).read()
        m = re.search(r'(?m)^@file\s+(\S+)', txt)
        if not m:
            raise ToolError('spec %s lacks @file' % sp)
        rules_by_file.setdefault(m.group(1), []).extend(SP.parse_spec(txt))
    srcs = u.get('src', [])
    if isinstance(srcs, str):
        srcs = [srcs]
    for rel in srcs:
        src = open(os.path.join(REPO, rel)).read()
        rules = list(rules_by_file.get(rel, []))
        tags = list(u.get('tags', []))
        if u.get('drop_diag'):
            tags.append('drop_diag')
        try:
            new, fired, added = SP.splice(src, rules, tags, rel)
        except SP.SpliceError as e:
            raise ToolError('extraction break: %s' % e)
        if not SP.check_add_only(src, new):
            raise ToolError('splice of %s is not add-only' % rel)
        sub = 'qb' if rel.startswith('include/qb/') else ''
        os.makedirs(os.path.join(sdir, sub), exist_ok=True)
        out = os.path.join(sdir, sub, os.path.basename(rel))
        open(out, 'w').write(new)
        rep['files'].append(rel)
        rep['added_chars'] += added
        rep['rules'] += fired
    for rel in rules_by_file:
        if rel not in srcs:
            raise ToolError('spec for %s given but %s is not in src' % (rel, rel))
    return rep


DROP_DIAG = '''
/* declared extraction drop (DESIGN.md 3.1): diagnostic emission compiled out */
#undef qb_util_perror
#define qb_util_perror(...) ((void)0)
#undef qb_util_log
#define qb_util_log(...) ((void)0)
#undef qb_util_set_log_function
'''


# --------------------------------------------------------------------------
# one unit

def build_unit(u, wdir, extra_defs=()):
    sdir = os.path.join(wdir, 'src')
    os.makedirs(sdir, exist_ok=True)
    rep = splice_sources(u, sdir)
    gb = os.path.join(wdir, 'u.gb')
    defs = ['-DHAVE_CONFIG_H', '-DVERIF_CBMC'] + list(u.get('defines', [])) + list(extra_defs)
    cmd = ['goto-cc'] + defs + ['-I', sdir] + INCLUDES + ['--function', 'harness', u['path'], '-o', gb]
    rc, out, err, dt = run(cmd, 120)
    if rc != 0:
        raise ToolError('goto-cc failed for %s:\n%s' % (u['name'], (out + err)[-3000:]))
    if u.get('pre_unwindset'):
        # do { } while (0) macros count as loops: unwind them (once, with unwinding assertions) before
        # loop contracts are applied to an enclosing loop
        gb0 = os.path.join(wdir, 'u0.gb')
        rc, out, err, dt = run(['goto-instrument', '--unwindset', ','.join(u['pre_unwindset']), '--unwinding-assertions',
                                gb, gb0], 120)
        if rc != 0:
            raise ToolError('goto-instrument (pre-unwind) failed for %s:\n%s' % (u['name'], (out + err)[-2000:]))
        gb = gb0
    gi = ['goto-instrument']
    for r in u.get('restrict_fp', []):
        gi += ['--restrict-function-pointer', r]
    need_gi = bool(u.get('restrict_fp'))
    mode = u.get('mode', 'dfcc')
    if mode == 'dfcc':
        gi += ['--dfcc', 'harness']
        for f in u.get('enforce', []):
            gi += ['--enforce-contract', f]
        for f in u.get('replace', []):
            gi += ['--replace-call-with-contract', f]
        if u.get('loop_contracts'):
            gi += ['--apply-loop-contracts']
        need_gi = True
    else:
        if u.get('loop_contracts'):
            gi += ['--apply-loop-contracts']
            need_gi = True
        if u.get('replace'):
            for f in u.get('replace', []):
                gi += ['--replace-call-with-contract', f]
            need_gi = True
    gb2 = gb
    gi_log = ''
    if need_gi:
        gb2 = os.path.join(wdir, 'u2.gb')
        rc, out, err, dt = run(gi + [gb, gb2], u.get('gi_timeout', 300))
        gi_log = out + err
        if rc is None:
            raise ToolError('goto-instrument timeout for %s' % u['name'])
        if rc != 0 and u.get('restrict_fp') and 'not found in the symbol table' in gi_log:
            # the code no longer has an indirect call site that a pin names (a call was removed or added): the pins
            # are only a speed-up -- drop them all and let CBMC resolve the function pointers by type and value
            gi = [x for i, x in enumerate(gi) if x != '--restrict-function-pointer' and (i == 0 or gi[i - 1] != '--restrict-function-pointer')]
            rc, out, err, dt = run(gi + [gb, gb2], u.get('gi_timeout', 300)) if len(gi) > 1 else (0, '', '', 0)
            if len(gi) == 1:
                gb2 = gb
            gi_log = 'NOTE: function-pointer pins dropped (call sites changed)\n' + out + err
            if rc is None:
                raise ToolError('goto-instrument timeout for %s' % u['name'])
        if rc != 0:
            raise ToolError('goto-instrument failed for %s:\n%s' % (u['name'], gi_log[-3000:]))
    return gb2, rep, ' '.join(gi) if need_gi else '', gi_log


def cbmc_flags(u):
    fl = list(CBMC_CHECKS)
    if u.get('unwind'):
        fl += ['--unwind', str(u['unwind']), '--unwinding-assertions']
    if u.get('unwindset'):
        fl += ['--unwindset', ','.join(u['unwindset'])]
    if u.get('unwindset') and not u.get('unwind'):
        fl += ['--unwinding-assertions']
    fl += ['--object-bits', str(u.get('object_bits', 10))]
    fl += ['--sat-solver', u.get('sat_solver', 'cadical')]
    fl += u.get('cbmc_flags', [])
    return fl


def parse_cbmc_json(path):
    try:
        data = json.load(open(path))
    except Exception as e:
        raise ToolError('cannot parse cbmc output %s: %s' % (path, e))
    results, goals, status, msgs = [], None, None, []
    for o in data:
        if 'result' in o:
            results = o['result']
        if 'goals' in o:
            goals = o
        if 'cProverStatus' in o:
            status = o['cProverStatus']
        if 'messageText' in o:
            msgs.append(o['messageText'])
    return results, goals, status, msgs


def run_unit(u, root, tier, verbose=False):
    """-> result dict (never raises; tool problems are reported in res['error'])"""
    t0 = time.time()
    res = {'unit': u['name'], 'kind': u.get('kind', 'proved'), 'mode': u.get('mode', 'dfcc'),
           'obligations': 0, 'discharged': 0, 'failed': [], 'error': None, 'cover': None,
           'solver_s': 0.0, 'functions': u.get('functions', u.get('enforce', [])),
           'bound': u.get('bound'), 'replaced': u.get('replace', []), 'stubs': u.get('stubs', []),
           'props': u.get('props', [])}
    wdir = os.path.join(root, u['name'])
    os.makedirs(wdir, exist_ok=True)
    try:
        gb, rep, gi_cmd, gi_log = build_unit(u, wdir)
        res['splice'] = rep
        res['gi_cmd'] = gi_cmd
        if u.get('loop_contracts') and 'loop' not in gi_log.lower() and False:
            pass
        fl = cbmc_flags(u)
        out_json = os.path.join(wdir, 'out.json')
        cmd = ['cbmc', gb] + fl + ['--trace', '--json-ui']
        res['checker_cmd'] = ' '.join([gi_cmd, '&&'] + cmd if gi_cmd else cmd).replace(root, '$SCRATCH')
        tmo = u.get('timeout', 300) * (3 if tier == 'thorough' else 1)
        # main run and cover run side by side
        with cf.ThreadPoolExecutor(2) as ex:
            f_main = ex.submit(run, cmd, tmo, None, out_json)
            f_cov = None
            if u['cover_points'] > 0:
                cov_json = os.path.join(wdir, 'cov.json')
                cfl = [f for f in fl if f != '--unwinding-assertions']
                cdir = os.path.join(wdir, 'cov')
                os.makedirs(cdir, exist_ok=True)
                gbc, _, _, _ = build_unit(u, cdir, ['-DVERIF_COVER'])
                f_cov = ex.submit(run, ['cbmc', gbc] + fl, tmo, None, cov_json)   # text UI: --json-ui would build a trace per reached cover
            rc, _, err, dt = f_main.result()
            res['solver_s'] = round(dt, 2)
            if rc is None:
                raise ToolError('cbmc timeout (%ds) on %s' % (tmo, u['name']))
            if rc not in (0, 10):
                tail = ''
                try:
                    tail = open(out_json).read()[-1500:]
                except Exception:
                    pass
                raise ToolError('cbmc exit %s on %s: %s %s' % (rc, u['name'], err[-1500:], tail))
            results, _, status, msgs = parse_cbmc_json(out_json)
            bad_msgs = [m for m in msgs if re.search(r'ignoring|unsound|no body for', m)]
            res['warnings'] = bad_msgs[:10]
            if not results:
                raise ToolError('vacuous: cbmc produced no obligations for %s' % u['name'])
            res['obligations'] = len(results)
            res['discharged'] = sum(1 for r in results if r['status'] == 'SUCCESS')
            classes = {}
            for r in results:
                c = obl_class(r)
                classes[c] = classes.get(c, 0) + 1
            res['classes'] = classes
            for need in u.get('expect_classes', []):
                if not any(need in c for c in classes):
                    raise ToolError('vacuity guard: unit %s generated no "%s" obligations' % (u['name'], need))
            if u.get('loop_contracts') and not any('loop_invariant' in c for c in classes):
                raise ToolError('vacuity guard: loop contracts requested but no loop_invariant obligations in %s'
                                % u['name'])
            allowed_nobody = set(u.get('allow_no_body', []))
            res['unknown'] = sum(1 for r in results if r['status'] not in ('SUCCESS', 'FAILURE'))
            for r in results:
                if r['status'] != 'FAILURE':
                    continue
                f = {'property': r.get('property', ''), 'description': r.get('description', ''),
                     'function': r.get('sourceLocation', {}).get('function', ''),
                     'file': os.path.basename(r.get('sourceLocation', {}).get('file', '')),
                     'line': r.get('sourceLocation', {}).get('line', ''),
                     'class': obl_class(r), 'inputs': extract_inputs(r.get('trace', [])),
                     'trace_tail': trace_tail(r.get('trace', []))}
                if f['class'] == 'no-body':
                    fn = re.sub(r'.*no body for (callee|function) ', '', f['description']).strip()
                    if fn in allowed_nobody:
                        res['discharged'] += 0
                        res['obligations'] -= 1
                        continue
                res['failed'].append(f)
            if res['unknown'] and not res['failed']:
                raise ToolError('%d obligations undecided (status UNKNOWN) in %s' % (res['unknown'], u['name']))
            res['samples'] = [{'obligation': r.get('property'), 'description': r.get('description'),
                               'status': r['status']} for r in results[:: max(1, len(results) // 4)]][:5]
            if f_cov is not None:
                rc2, _, err2, dt2 = f_cov.result()
                if rc2 is None:
                    raise ToolError('cbmc --cover timeout on %s' % u['name'])
                goals = []
                for ln in open(cov_json, errors='replace'):
                    mm = re.match(r'^\[[^\]]*\] line (\d+) (COVER: .*): (SUCCESS|FAILURE|UNKNOWN)\s*$', ln)
                    if mm:
                        goals.append({'description': mm.group(2), 'status': mm.group(3), 'sourceLocation': {'line': mm.group(1)}})
                if not goals:
                    raise ToolError('cover run gave no goals for %s (%s)' % (u['name'], err2[-500:]))
                unsat = [g for g in goals if g['status'] != 'FAILURE']
                res['cover'] = {'total': len(goals), 'covered': len(goals) - len(unsat)}
                if unsat:
                    raise ToolError('vacuity guard: cover point(s) unreachable in %s: %s' % (
                        u['name'], '; '.join('%s@%s' % (g.get('description'), g.get('sourceLocation', {}).get('line'))
                                             for g in unsat[:5])))
    except ToolError as e:
        res['error'] = str(e)
    res['wall_s'] = round(time.time() - t0, 2)
    return res


def obl_class(r):
    p = r.get('property', '')
    d = r.get('description', '')
    if d.startswith('Check loop invariant before entry'):
        return 'loop_invariant_base'
    if d.startswith('Check that loop invariant is preserved'):
        return 'loop_invariant_step'
    if d.startswith('Check decreases clause'):
        return 'loop_decreases'
    if d.startswith('Check that loop instrumentation'):
        return 'loop_step_unwinding'
    parts = p.split('.')
    if len(parts) >= 3:
        return parts[-2]
    return p


def extract_inputs(trace):
    ins = []
    for s in trace:
        if s.get('stepType') != 'assignment' or s.get('hidden'):
            continue
        lhs = s.get('lhs', '')
        if not re.match(r'^nd_\w+$', lhs):
            continue
        v = s.get('value', {})
        b = v.get('binary')
        if b is not None and re.match(r'^[01]+$', b):
            val = int(b, 2)
        else:
            try:
                val = int(re.sub(r'[uUlL]+$', '', str(v.get('data', '0'))))
                if val < 0:
                    val += 1 << 64
            except Exception:
                continue
        ins.append([lhs, val])
    return ins


def trace_tail(trace, n=25):
    out = []
    for s in trace:
        st = s.get('stepType')
        loc = s.get('sourceLocation', {})
        if st == 'assignment' and not s.get('hidden'):
            v = s.get('value', {})
            out.append('%s:%s %s = %s' % (loc.get('function', ''), loc.get('line', ''), s.get('lhs'), v.get('data', v.get('name', '?'))))
        elif st == 'failure':
            out.append('FAILURE %s:%s %s' % (loc.get('function', ''), loc.get('line', ''), s.get('reason', '')))
    return out[-n:]


# --------------------------------------------------------------------------
# native replay

def lib_rest_objects(root, exclude):
    """compile the current tree's lib/*.c (the ones libqb is built from) except `exclude`"""
    odir = os.path.join(root, 'librest')
    os.makedirs(odir, exist_ok=True)
    names = sorted(set(re.sub(r'^libqb_la-', '', os.path.basename(p))[:-2]
                       for p in glob.glob(os.path.join(REPO, 'lib', 'libqb_la-*.o'))))
    if not names:
        names = [os.path.basename(p)[:-2] for p in glob.glob(os.path.join(REPO, 'lib', '*.c'))
                 if os.path.basename(p) not in ('loop_poll_kqueue.c', 'loop_poll_poll.c', 'rpl_sem.c',
                                                'strlcpy.c', 'strlcat.c', 'strchrnul.c')]
    objs = []
    procs = []
    for n in names:
        if ('lib/%s.c' % n) in exclude:
            continue
        o = os.path.join(odir, n + '.o')
        objs.append(o)
        procs.append(subprocess.Popen(['gcc', '-c', '-g', '-O0', '-DHAVE_CONFIG_H', '-w', '-I', REPO + '/include',
                                       '-I', REPO + '/include/qb', '-I', REPO + '/lib',
                                       os.path.join(REPO, 'lib', n + '.c'), '-o', o],
                                      stderr=subprocess.DEVNULL))
    for p in procs:
        p.wait()
    objs = [o for o in objs if os.path.exists(o)]
    for extra in ('strlcpy', 'strlcat'):
        src = os.path.join(REPO, 'lib', extra + '.c')
        if os.path.exists(src):
            o = os.path.join(odir, extra + '.o')
            subprocess.call(['gcc', '-c', '-w', '-DHAVE_CONFIG_H', '-I', REPO + '/include', '-I', REPO + '/include/qb',
                             '-I', REPO + '/lib', src, '-o', o], stderr=subprocess.DEVNULL)
            if os.path.exists(o):
                objs.append(o)
    ar = os.path.join(odir, 'librest.a')
    subprocess.call(['ar', 'rcs', ar] + objs)
    return [ar]


def native_replay(u, inputs, root, tag='r'):
    """-> (reproduced: bool|None, output)"""
    if u.get('native') is False:
        return None, 'unit is marked not natively replayable'
    wdir = os.path.join(root, u['name'] + '.native.' + tag)
    sdir = os.path.join(wdir, 'src')
    os.makedirs(sdir, exist_ok=True)
    try:
        splice_sources(u, sdir)
    except ToolError as e:
        return None, str(e)
    srcs = u.get('src', [])
    if isinstance(srcs, str):
        srcs = [srcs]
    objs = lib_rest_objects(wdir, set(srcs))
    exe = os.path.join(wdir, 'replay')
    cmd = ['gcc', '-g', '-O0', '-w', '-fsanitize=address,undefined', '-fno-sanitize-recover=undefined',
           '-DVERIF_NATIVE', '-DHAVE_CONFIG_H'] + list(u.get('defines', [])) + ['-I', sdir] + INCLUDES + \
          [u['path'], os.path.join(VERIF, 'include', 'verif_native.c')] + objs + ['-o', exe, '-lpthread', '-ldl', '-lrt']
    rc, out, err, _ = run(cmd, 180)
    if rc != 0:
        return None, 'native build failed:\n' + (out + err)[-2000:]
    inp = os.path.join(wdir, 'inputs.txt')
    with open(inp, 'w') as f:
        for n, v in inputs:
            f.write('%s %d\n' % (n, v))
    env = dict(os.environ, ASAN_OPTIONS='detect_leaks=0:abort_on_error=0', UBSAN_OPTIONS='print_stacktrace=1')
    try:
        p = subprocess.run([exe, inp], stdout=subprocess.PIPE, stderr=subprocess.STDOUT, timeout=60, text=True, env=env)
        rc, out = p.returncode, p.stdout
    except subprocess.TimeoutExpired:
        return True, 'native run did not terminate within 60 s (hang)'
    if rc == 77:
        return False, 'native run: harness assumption not met by the replayed inputs\n' + out[-1500:]
    if rc == 0:
        return False, 'native run completed without failure\n' + out[-800:]
    return True, 'native run failed (exit %d)\n%s' % (rc, out[-2500:])


# --------------------------------------------------------------------------
# known findings

def load_known():
    p = os.path.join(VERIF, 'known_findings.json')
    if not os.path.exists(p):
        return []
    return json.load(open(p)).get('findings', [])


def obl_key(unit, f):
    desc = re.sub(r'\s+', ' ', f['description']).strip()
    return '%s|%s|%s|%s' % (unit, f['function'], f['class'], desc)


def match_known(known, prop, unit, f):
    k = obl_key(unit, f)
    for e in known:
        if e.get('status') != 'known' or e.get('property') != prop:
            continue
        if e.get('unit') and e['unit'] != unit:
            continue
        if re.search(e['key'], k):
            return e
    return None


# --------------------------------------------------------------------------
# property-level driver

def select_units(units, prop, tier, only=None):
    sel = []
    for u in units.values():
        if prop not in u.get('props', []):
            continue
        t = u.get('tier', 'quick')
        if t == 'off':
            # kept for the record (tool limit reached, see the unit's comment); only runnable with --unit
            continue
        if tier == 'quick' and t != 'quick':
            continue
        if only and only not in u['name']:
            continue
        sel.append(u)
    # self-test runs only: a mutant that touches nothing but lib/*.c files cannot change the verdict of a unit
    # that does not compile any of them, so those units (identical to the baseline run) are skipped
    touched = [x for x in os.environ.get('VERIF_TOUCHED_SRC', '').split(',') if x]
    if touched:
        def cincs(path, seen):
            if path in seen or not os.path.exists(path):
                return set()
            seen.add(path)
            txt = open(path).read()
            out = set(os.path.basename(x) for x in re.findall(r'#\s*include "([^"]+\.c)"', txt))
            for h in re.findall(r'#\s*include "([^"]+\.h)"', txt):
                for d in (os.path.dirname(path), os.path.join(VERIF, 'include'), os.path.join(VERIF, 'stubs')):
                    out |= cincs(os.path.join(d, h), seen)
            return out
        tb = set(os.path.basename(t) for t in touched)
        sel2 = [u for u in sel
                if tb & (set(os.path.basename(x) for x in u.get('src', [])) | cincs(u['path'], set()))]
        if sel2:
            sel = sel2
    return sel


def check_property(prop, tier, only=None, keep=False, verbose=False, jobs=None):
    t0 = time.time()
    seed = int(os.environ.get('VERIF_SEED', '0') or 0)
    units = load_units()
    sel = select_units(units, prop, tier, only)
    if not sel:
        print('no units for', prop)
        return 2
    root = tempfile.mkdtemp(prefix='verif-%s-' % prop)
    known = load_known()
    results = []
    try:
        jobs = jobs or min(16, max(1, (os.cpu_count() or 4)) // 2)
        with cf.ThreadPoolExecutor(jobs) as ex:
            futs = {ex.submit(run_unit, u, root, tier, verbose): u for u in sel}
            for fu in cf.as_completed(futs):
                r = fu.result()
                results.append(r)
                if verbose:
                    print('[%s] %s: %d/%d obligations, %.1fs%s' % (
                        r['kind'], r['unit'], r['discharged'], r['obligations'], r['wall_s'],
                        ' ERROR ' + r['error'] if r['error'] else ''), flush=True)
        # DESIGN 5.4 rule 4: a unit whose only failures are auxiliary (loop invariants, decreases, ...)
        # is re-decided without loop contracts, loops unwound to the unit's stated fallback bound.
        fb = []
        for r in results:
            u = units[r['unit']]
            if r['error'] or not r['failed'] or not u.get('fallback_unwind'):
                continue
            aux = tuple(u.get('aux_classes', AUX_CLASSES))
            if all(f['class'] in aux or f['description'].startswith('AUX:') for f in r['failed']):
                k = int(u['fallback_unwind'])
                u2 = dict(u)
                u2['name'] = u['name'] + '.fallback'
                u2['loop_contracts'] = False
                u2['unwind'] = k + 1
                u2['unwindset'] = []
                u2['defines'] = list(u.get('defines', [])) + ['-DVERIF_FALLBACK=%d' % k]
                u2['kind'] = 'bounded'
                u2['bound'] = 'loops unwound %d times (fallback after an auxiliary obligation failed)' % k
                u2['expect_classes'] = []
                units[u2['name']] = u2
                fb.append((r, u2))
        for r, u2 in fb:
            r2 = run_unit(u2, root, tier, verbose)
            if verbose:
                print('[fallback] %s: %d/%d obligations%s' % (r2['unit'], r2['discharged'], r2['obligations'],
                                                             ' ERROR ' + r2['error'] if r2['error'] else ''), flush=True)
            r['fallback'] = r2['unit']
            results.append(r2)
        results.sort(key=lambda r: r['unit'])
        violations, known_hits, errors = [], [], []
        nrep = 0
        for r in results:
            u = units[r['unit']]
            if r['error']:
                errors.append('%s: %s' % (r['unit'], r['error']))
            aux = tuple(u.get('aux_classes', AUX_CLASSES))
            pin_fail = [f for f in r['failed'] if f['description'].startswith('dereferenced function pointer must be')]
            for f in pin_fail:
                errors.append('%s: indirect call sites changed, function-pointer pin no longer matches: %s in %s'
                              % (r['unit'], f['description'], f['function']))
            prop_fail = [f for f in r['failed'] if f['class'] not in aux and not f['description'].startswith('AUX:')
                         and f['class'] not in ('no-body', 'unwind') and f not in pin_fail]
            if pin_fail:
                prop_fail = []   # everything after a mis-resolved indirect call is meaningless
            aux_fail = [f for f in r['failed'] if f not in prop_fail and f not in pin_fail]
            for f in aux_fail:
                if f['class'] == 'no-body':
                    errors.append('%s: body-less function not on the stub list: %s' % (r['unit'], f['description']))
                elif f['class'] == 'unwind':
                    errors.append('%s: unwinding bound too small: %s' % (r['unit'], f['description']))
                else:
                    e = match_known(known, prop, r['unit'], f)
                    if e:
                        known_hits.append((e, r['unit'], f))
                    else:
                        fbr = [x for x in results if x['unit'] == r.get('fallback')]
                        if fbr and fbr[0]['failed'] and not fbr[0]['error']:
                            continue   # decided by the bounded fallback run (reported there)
                        errors.append('%s: auxiliary obligation undecided (not reported as a violation): %s %s'
                                      % (r['unit'], f['property'], f['description']))
            seen = set()
            prio = {'assertion': 0, 'postcondition': 1, 'assigns': 2, 'frees': 2}
            prop_fail.sort(key=lambda f: prio.get(f['class'], 5))
            per_unit = 0
            for f in prop_fail:
                e = match_known(known, prop, r['unit'], f)
                if e:
                    known_hits.append((e, r['unit'], f))
                    continue
                k = obl_key(r['unit'], f)
                if k in seen:
                    continue
                seen.add(k)
                per_unit += 1
                if per_unit > 3:
                    continue   # consequences of the same failing run; the evidence file lists them all
                nrep += 1
                violations.append((r, u, f, nrep))
        # report
        printed = set()
        for e, unit, f in known_hits:
            line = 'KNOWN-FINDING: property=%s %s' % (prop, e['what'])
            if line not in printed:
                print(line)
                printed.add(line)
        vio_out = []
        rdir = os.path.join(VERIF, 'replays') if not os.environ.get('VERIF_NO_EVIDENCE') else os.path.join(root, 'replays')
        os.makedirs(rdir, exist_ok=True)
        for r, u, f, n in violations[:8]:
            rp = os.path.join(rdir, '%s-%s-%d.json' % (prop, r['unit'], n))
            reproduced, out = native_replay(u, f['inputs'], root, str(n))
            json.dump({'property': prop, 'unit': r['unit'], 'obligation': f['property'],
                       'description': f['description'], 'function': f['function'], 'key': obl_key(r['unit'], f),
                       'location': '%s:%s' % (f['file'], f['line']),
                       'inputs': f['inputs'], 'native_reproduced': reproduced, 'native_output': out,
                       'cbmc_trace_tail': f['trace_tail'], 'checker_cmd': r.get('checker_cmd')},
                      open(rp, 'w'), indent=1)
            line = 'VIOLATION property=%s replay=%s' % (prop, rp)
            if not reproduced:
                line += ' no-failing-input-found'
            print('failed obligation: [%s] %s in %s (%s)' % (r['unit'], f['description'], f['function'], f['property']))
            print(line)
            vio_out.append(line)
        for e in errors:
            print('TOOL:', e)
        st = None
        if tier == 'thorough' and not os.environ.get('VERIF_NO_EVIDENCE') and not violations and not errors:
            rc_st, st = selftest(prop, verbose)
            if rc_st:
                errors.append('self-test: the check did not catch mutant(s): %s' % [x['mutant'] for x in st if x['result'] != 'caught'])
                for e in errors[-1:]:
                    print('TOOL:', e)
        if not os.environ.get('VERIF_NO_EVIDENCE'):
            write_evidence(prop, tier, seed, results, units, known_hits, len(violations), errors, time.time() - t0, st)
        if violations:
            return 1
        if errors:
            return 2
        return 0
    finally:
        if keep:
            print('scratch kept at', root)
        else:
            shutil.rmtree(root, ignore_errors=True)


TRUSTED_COMMON = [
    'CBMC 6.11.0 (goto-cc front end, goto-instrument --dfcc contract instrumentation, SAT back end cadical)',
    'machine model: LP64, two\'s complement, CBMC byte-level memory model',
    'the splicer (tools/splice.py): add-only insertion of contract clauses into a scratch copy of the real source',
]


def write_evidence(prop, tier, seed, results, units, known_hits, nviol, errors, wall, st=None):
    man = {}
    try:
        for c in json.load(open(os.path.join(VERIF, 'MANIFEST.json')))['checks']:
            man[c['property_id']] = c
    except Exception:
        pass
    level = man.get(prop, {}).get('level_claimed', {}).get('category', 'proof')
    proved = [r for r in results if r['kind'] == 'proved' and not r['error']]
    bounded = [r for r in results if r['kind'] != 'proved' and not r['error']]
    obligations = sum(r['obligations'] for r in proved)
    discharged = sum(r['discharged'] for r in proved)
    fns = []
    assumed = set()
    stubs = set()
    enforced = set()
    for r in results:
        u = units[r['unit']]
        for f in u.get('enforce', []):
            enforced.add(f)
    for r in results:
        u = units[r['unit']]
        for f in r['functions']:
            if f not in fns:
                fns.append(f)
        for f in u.get('replace', []):
            if f not in enforced and f not in u.get('replace_proved_elsewhere', []):
                assumed.add(f)
        for s in u.get('stubs', []):
            stubs.add(s)
    samples = []
    for r in results:
        for s in r.get('samples', [])[:2]:
            samples.append(dict(s, unit=r['unit']))
    ev = {
        'property_id': prop, 'tier': tier, 'seed': seed, 'level': level,
        'coverage': {
            'obligations': obligations, 'discharged': discharged,
            'checker_cmd': (proved or results)[0].get('checker_cmd', 'cbmc') if results else 'cbmc',
            'trusted_base': TRUSTED_COMMON + sorted('stub (assumed contract): ' + s for s in stubs),
            'evaluations': len(results),
            'distinct_nontrivial': len([r for r in results if r['obligations'] > 0 and not r['error']]),
            'rule': 'one evaluation = one proof unit (real function(s) + spliced contracts + harness) run through '
                    'goto-cc/goto-instrument/cbmc; non-trivial = generated at least one obligation and passed the '
                    'vacuity guards (cover points reachable, expected obligation classes present)',
            'samples': samples[:12],
            'functions_under_contract': fns,
            'units': [{'name': r['unit'], 'label': r['kind'], 'mode': r['mode'], 'back_end': 'cbmc SAT (%s)' % units[r['unit']].get('sat_solver', 'cadical'),
                       'obligations': r['obligations'], 'discharged': r['discharged'], 'solver_s': r['solver_s'],
                       'cover': r['cover'], 'classes': r.get('classes'), 'error': r['error'],
                       'replaced_by_contract': r['replaced'],
                       'splice_added_chars': (r.get('splice') or {}).get('added_chars'),
                       'failed': [f['property'] + ': ' + f['description'] for f in r['failed']][:10]}
                      for r in results],
            'bounded_units': [{'name': r['unit'], 'bound': r['bound'], 'obligations': r['obligations'],
                               'discharged': r['discharged']} for r in bounded],
            'bounded_obligations': sum(r['obligations'] for r in bounded),
            'bounded_discharged': sum(r['discharged'] for r in bounded),
            'assumed_contracts': sorted(assumed),
            'known_findings_hit': sorted(set(e['what'] for e, _, _ in known_hits)),
            'tool_errors': errors,
            'selftest_mutants': st,
            'solver_s_total': round(sum(r['solver_s'] for r in results), 1),
            'explanation': 'contract-based deductive verification with CBMC code contracts; "proved" units have no '
                           'unwinding bound (loop contracts or loop-free / constant-trip-count code), "bounded" units '
                           'are stand-ins and are not counted in obligations/discharged',
        },
        'assumptions': man.get(prop, {}).get('assumptions', []) + sorted('stub: ' + s for s in stubs)
        + sorted('assumed contract (replaced, not enforced in this property\'s units): ' + a for a in assumed),
        'wall_s': round(wall, 1),
        'violations': nviol,
    }
    if level == 'model_checking':
        ev['coverage'].pop('states', None)
    os.makedirs(os.path.join(VERIF, 'evidence'), exist_ok=True)
    json.dump(ev, open(os.path.join(VERIF, 'evidence', prop + '.json'), 'w'), indent=1)


def selftest(prop, verbose=False):
    """apply each stored self-test mutant to a scratch copy of the sources; the quick check must report a violation"""
    pats = sorted(glob.glob(os.path.join(VERIF, 'selftest', prop, '*.patch')))
    if not pats:
        print('no self-test mutants for', prop)
        return 0, []
    missed = []
    out = []

    def one(pt):
        m = tempfile.mkdtemp(prefix='verif-selftest-')
        try:
            for d in ('lib', 'include'):
                shutil.copytree(os.path.join(REPO, d), os.path.join(m, d),
                                ignore=shutil.ignore_patterns('*.o', '*.lo', '.libs', '.deps', '*.la'))
            pr = subprocess.run(['patch', '-p1', '-s', '-i', pt], cwd=m, stdout=subprocess.PIPE, stderr=subprocess.STDOUT, text=True)
            if pr.returncode != 0:
                return {'mutant': os.path.basename(pt), 'result': 'MISSED (patch does not apply)', 'first_failed_obligation': None}
            env = dict(os.environ, VERIF_REPO=m, VERIF_NO_EVIDENCE='1')
            files = re.findall(r'^\+\+\+ (?:b/)?(\S+)', open(pt).read(), re.M)
            if files and all(f.startswith('lib/') and f.endswith('.c') for f in files):
                env['VERIF_TOUCHED_SRC'] = ','.join(files)
            r = subprocess.run([sys.executable, os.path.abspath(__file__), prop, '--tier', 'quick', '-j', '4'], env=env,
                               stdout=subprocess.PIPE, stderr=subprocess.STDOUT, text=True)
            caught = r.returncode == 1 and 'VIOLATION' in r.stdout
            first = [l for l in r.stdout.split('\n') if l.startswith('failed obligation')][:1]
            return {'mutant': os.path.basename(pt), 'result': 'caught' if caught else 'MISSED (exit %d)' % r.returncode,
                    'first_failed_obligation': first[0] if first else None}
        finally:
            shutil.rmtree(m, ignore_errors=True)

    with cf.ThreadPoolExecutor(3) as ex:
        for res in ex.map(one, pats):
            out.append(res)
            if verbose:
                print('selftest %s: %s %s' % (res['mutant'], res['result'], res['first_failed_obligation'] or ''), flush=True)
            if res['result'] != 'caught':
                missed.append(res['mutant'])
    return (2 if missed else 0), out


def replay_file(path):
    d = json.load(open(path))
    units = load_units()
    u = units.get(d['unit'])
    if not u:
        print('unknown unit', d['unit'])
        return 2
    root = tempfile.mkdtemp(prefix='verif-replay-')
    try:
        rep, out = native_replay(u, d['inputs'], root)
        print('obligation:', d['obligation'], '-', d['description'])
        print(out)
        if rep:
            print('VIOLATION property=%s replay=%s' % (d['property'], path))
            return 1
        print('replay did not reproduce a failure natively')
        return 0
    finally:
        shutil.rmtree(root, ignore_errors=True)


def main():
    ap = argparse.ArgumentParser()
    ap.add_argument('prop', nargs='?')
    ap.add_argument('--tier', default=os.environ.get('VERIF_TIER', 'quick'))
    ap.add_argument('--only')
    ap.add_argument('--unit')
    ap.add_argument('--replay')
    ap.add_argument('--selftest', action='store_true')
    ap.add_argument('--keep', action='store_true')
    ap.add_argument('-v', action='store_true')
    ap.add_argument('-j', type=int)
    a = ap.parse_args()
    if a.replay:
        sys.exit(replay_file(a.replay))
    if a.unit:
        units = load_units()
        us = [u for n, u in units.items() if a.unit in n]
        root = tempfile.mkdtemp(prefix='verif-unit-')
        rc = 0
        for u in us:
            r = run_unit(u, root, a.tier, True)
            print('%s: %d/%d obligations discharged, solver %.1fs, cover %s' % (
                r['unit'], r['discharged'], r['obligations'], r['solver_s'], r['cover']))
            if r['error']:
                print('  ERROR:', r['error'])
                rc = 2
            for f in r['failed']:
                print('  FAILED %s [%s:%s %s] %s' % (f['property'], f['file'], f['line'], f['function'], f['description']))
                if a.v:
                    print('     inputs:', f['inputs'])
                    for l in f['trace_tail']:
                        print('       ', l)
                rc = rc or 1
        if a.keep:
            print('scratch kept at', root)
        else:
            shutil.rmtree(root, ignore_errors=True)
        sys.exit(rc)
    if not a.prop:
        ap.error('property id required')
    if a.selftest:
        rc, out = selftest(a.prop, True)
        sys.exit(rc)
    sys.exit(check_property(a.prop, a.tier, a.only, a.keep, a.v, a.j))


if __name__ == '__main__':
    main()
