#!/usr/bin/env python3
"""Mechanical, add-only contract splicer (DESIGN.md 3.1).

spec syntax (one rule per block, '#' comment lines allowed between blocks):

  @fn NAME [tag,tag]
  <clauses inserted between ')' of the parameter list and '{' of the definition>
  @end

  @loop NAME #K /header-regex/ [tags]
  <clauses inserted between the loop header and the loop body
   (for `do` loops: right after `do`; CBMC supports them only in --dfcc mode)>
  @end

  @after NAME /statement-regex/ [tags]      (also @before)
  <statements inserted after (before) the unique statement of NAME whose text matches>
  @end

  @top [tags]
  <text inserted at the top of the file (after nothing: first line)>
  @end

  @afterline /regex/ [tags]
  <text inserted after the unique source line matching regex (file scope)>
  @end

Rules without tags always apply; a tagged rule applies iff one of its tags is
selected.  Every applicable rule must fire exactly once, otherwise SpliceError
(-> exit 2 in the runner: extraction break, never a violation).
The output differs from the input by added text only (checked by the caller).
"""
import re
import sys

LOOP_KW = re.compile(r'\b(for|while|do|qb_list_for_each\w*|qb_map_foreach)\b')


class SpliceError(Exception):
    pass


def parse_spec(text):
    rules = []
    lines = text.split('\n')
    i = 0
    while i < len(lines):
        ln = lines[i].strip()
        if ln.startswith('@file'):
            i += 1
            continue
        if ln.startswith('@') and not ln.startswith('@end'):
            hdr = ln
            body = []
            i += 1
            while i < len(lines) and lines[i].strip() != '@end':
                body.append(lines[i])
                i += 1
            if i >= len(lines):
                raise SpliceError('spec: missing @end for ' + hdr)
            rules.append(_parse_hdr(hdr, '\n'.join(body)))
        i += 1
    return rules


def _parse_hdr(hdr, body):
    tags = []
    m = re.search(r'\[([\w,\- ]*)\]\s*$', hdr)
    if m:
        tags = [t.strip() for t in m.group(1).split(',') if t.strip()]
        hdr = hdr[:m.start()].strip()
    rx = None
    m = re.search(r'/(.*)/\s*$', hdr)
    if m:
        rx = m.group(1)
        hdr = hdr[:m.start()].strip()
    parts = hdr.split()
    kind = parts[0][1:]
    r = {'kind': kind, 'tags': tags, 'regex': rx, 'body': body, 'hdr': hdr}
    if kind in ('fn', 'after', 'before'):
        r['fn'] = parts[1]
    elif kind == 'loop':
        r['fn'] = parts[1]
        r['k'] = int(parts[2].lstrip('#'))
    elif kind in ('top', 'afterline'):
        pass
    else:
        raise SpliceError('spec: unknown rule ' + hdr)
    return r


def mask(src):
    """Return src with comments, string/char literals and preprocessor lines
    replaced by spaces (same length, newlines kept)."""
    out = list(src)
    n = len(src)
    i = 0
    bol = True
    while i < n:
        c = src[i]
        if bol and c in ' \t':
            i += 1
            continue
        if bol and c == '#':
            j = i
            while j < n:
                if src[j] == '\n' and src[j - 1] != '\\':
                    break
                # comments inside a pp line
                j += 1
            for k in range(i, j):
                if out[k] != '\n':
                    out[k] = ' '
            i = j
            continue
        if c == '\n':
            bol = True
            i += 1
            continue
        bol = False
        if src.startswith('/*', i):
            j = src.find('*/', i + 2)
            j = n if j < 0 else j + 2
            for k in range(i, j):
                if out[k] != '\n':
                    out[k] = ' '
            i = j
            continue
        if src.startswith('//', i):
            j = src.find('\n', i)
            j = n if j < 0 else j
            for k in range(i, j):
                out[k] = ' '
            i = j
            continue
        if c in '"\'':
            q = c
            j = i + 1
            while j < n and src[j] != q:
                if src[j] == '\\':
                    j += 1
                j += 1
            for k in range(i + 1, min(j, n)):
                if out[k] != '\n':
                    out[k] = ' '
            i = j + 1
            continue
        i += 1
    return ''.join(out)


def match_paren(m, i, open_c='(', close_c=')'):
    depth = 0
    n = len(m)
    while i < n:
        if m[i] == open_c:
            depth += 1
        elif m[i] == close_c:
            depth -= 1
            if depth == 0:
                return i
        i += 1
    raise SpliceError('unbalanced ' + open_c)


def find_function(m, name):
    """-> (index of ')' closing the parameter list, index of '{', index of matching '}')"""
    hits = []
    for mo in re.finditer(r'(?m)^(?:[\w\*\s]*?[\s\*])??(' + re.escape(name) + r')\s*\(', m):
        # the name must be a whole token
        s = mo.start(1)
        if s > 0 and (m[s - 1].isalnum() or m[s - 1] == '_'):
            continue
        # must be at file scope: brace depth 0
        if m.count('{', 0, s) != m.count('}', 0, s):
            continue
        op = m.index('(', mo.end(1) - 0)
        cp = match_paren(m, op)
        j = cp + 1
        while j < len(m) and m[j] in ' \t\n':
            j += 1
        if j < len(m) and m[j] == '{':
            hits.append((cp, j, match_paren(m, j, '{', '}')))
    if len(hits) != 1:
        raise SpliceError('function %s: %d definitions found' % (name, len(hits)))
    return hits[0]


def find_loops(m, b0, b1):
    """loops inside m[b0:b1], in textual order.
    -> list of dict(kw, start, hdr_end, insert) ; `insert` is where clauses go."""
    loops = []
    do_stack = []
    i = b0
    for mo in LOOP_KW.finditer(m, b0, b1):
        kw = mo.group(1)
        s = mo.start()
        if kw == 'do':
            j = mo.end()
            while m[j] in ' \t\n':
                j += 1
            if m[j] != '{':
                raise SpliceError('do without block at %d' % s)
            e = match_paren(m, j, '{', '}')
            # the closing while(...)
            k = e + 1
            while m[k] in ' \t\n':
                k += 1
            if not m.startswith('while', k):
                raise SpliceError('do without while')
            op = m.index('(', k)
            cp = match_paren(m, op)
            # CBMC accepts loop clauses on do-while loops only right after `do` (and only with --dfcc)
            loops.append({'kw': 'do', 'start': s, 'hdr_end': cp + 1, 'insert': mo.end(),
                          'hdr': (s, mo.end()), 'hdr2': (k, cp + 1), 'closing_while': k})
            continue
        if kw == 'while':
            # is this the closing while of a do?
            if any(l.get('closing_while') == s for l in loops):
                continue
        op = mo.end()
        while m[op] in ' \t\n':
            op += 1
        if m[op] != '(':
            continue
        cp = match_paren(m, op)
        loops.append({'kw': kw, 'start': s, 'hdr_end': cp + 1, 'insert': cp + 1, 'hdr': (s, cp + 1)})
    # closing whiles of do loops appear after nested loops textually; filter late
    closing = {l['closing_while'] for l in loops if 'closing_while' in l}
    loops = [l for l in loops if not (l['kw'] == 'while' and l['start'] in closing)]
    loops.sort(key=lambda l: l['start'])
    return loops


def find_statement(src, m, b0, b1, rx):
    """unique statement (text between ';' / '{' / '}' boundaries) in the body matching rx.
    -> (start, end) with end just after the terminating ';'"""
    hits = []
    i = b0 + 1
    start = i
    depth_paren = 0
    while i < b1:
        c = m[i]
        if c == '(':
            depth_paren += 1
        elif c == ')':
            depth_paren -= 1
        elif c in '{}' and depth_paren == 0:
            start = i + 1
        elif c == ';' and depth_paren == 0:
            txt = src[start:i + 1].strip()
            if re.search(rx, txt):
                hits.append((start, i + 1))
            start = i + 1
        i += 1
    if len(hits) != 1:
        raise SpliceError('statement /%s/: %d matches' % (rx, len(hits)))
    return hits[0]


def splice(src, rules, tags, fname='<src>'):
    """-> (new_text, report) ; report lists fired rules"""
    tags = set(tags or [])
    m = mask(src)
    inserts = []  # (pos, order, text)
    fired = []
    order = 0
    for r in rules:
        if r['tags'] and not (set(r['tags']) & tags):
            continue
        order += 1
        kind = r['kind']
        try:
            if kind == 'top':
                inserts.append((0, order, r['body'] + '\n'))
            elif kind == 'afterline':
                hits = [mo for mo in re.finditer(r'(?m)^.*$', src) if re.search(r['regex'], mo.group(0))]
                if len(hits) != 1:
                    raise SpliceError('afterline /%s/: %d matches' % (r['regex'], len(hits)))
                inserts.append((hits[0].end(), order, '\n' + r['body']))
            else:
                cp, ob, cb = find_function(m, r['fn'])
                if kind == 'fn':
                    inserts.append((cp + 1, order, '\n' + r['body'] + '\n'))
                elif kind == 'loop':
                    loops = find_loops(m, ob, cb)
                    if r['k'] < 1 or r['k'] > len(loops):
                        raise SpliceError('loop #%d of %s: only %d loops' % (r['k'], r['fn'], len(loops)))
                    l = loops[r['k'] - 1]
                    hdr = src[l['hdr'][0]:l['hdr'][1]]
                    if 'hdr2' in l:
                        hdr += ' ... ' + src[l['hdr2'][0]:l['hdr2'][1]]
                    hdr1 = ' '.join(hdr.split())
                    if r['regex'] and not re.search(r['regex'], hdr1):
                        raise SpliceError('loop #%d of %s: header "%s" does not match /%s/'
                                          % (r['k'], r['fn'], hdr1, r['regex']))
                    inserts.append((l['insert'], order, '\n' + r['body'] + '\n'))
                elif kind in ('after', 'before'):
                    s, e = find_statement(src, m, ob, cb, r['regex'])
                    if kind == 'after':
                        inserts.append((e, order, ' ' + r['body'].strip() + ' '))
                    else:
                        # skip leading whitespace so the insert lands right before the statement text
                        while src[s] in ' \t\n':
                            s += 1
                        inserts.append((s, order, r['body'].strip() + ' '))
            fired.append(r['hdr'] + (' /' + r['regex'] + '/' if r['regex'] else ''))
        except SpliceError as e:
            raise SpliceError('%s: rule "%s": %s' % (fname, r['hdr'], e))
    inserts.sort(key=lambda t: (t[0], t[1]))
    out = []
    last = 0
    for pos, _, text in inserts:
        out.append(src[last:pos])
        out.append(text)
        last = pos
    out.append(src[last:])
    new = ''.join(out)
    # add-only check: removing the inserted texts must give back the source
    added_chars = sum(len(t[2]) for t in inserts)
    if len(new) - len(src) != added_chars:
        raise SpliceError('internal: size mismatch')
    return new, fired, added_chars


def check_add_only(src, new):
    """src must be a subsequence of new obtained by deleting whole inserted runs."""
    i = 0
    for ch in new:
        if i < len(src) and ch == src[i]:
            i += 1
    return i == len(src)


if __name__ == '__main__':
    import argparse
    ap = argparse.ArgumentParser()
    ap.add_argument('src')
    ap.add_argument('spec')
    ap.add_argument('--tags', default='')
    ap.add_argument('-o', default='-')
    a = ap.parse_args()
    s = open(a.src).read()
    rules = parse_spec(open(a.spec).read())
    try:
        new, fired, added = splice(s, rules, a.tags.split(','), a.src)
    except SpliceError as e:
        print('SPLICE-ERROR:', e, file=sys.stderr)
        sys.exit(2)
    if a.o == '-':
        sys.stdout.write(new)
    else:
        open(a.o, 'w').write(new)
    print('fired %d rules, %d chars added' % (len(fired), added), file=sys.stderr)
