#!/usr/bin/env python3
"""Regenerates /verif/MANIFEST.json from tools/manifest_src.json (per-property texts)."""
import json, os
V = '/verif'
src = json.load(open(os.path.join(V, 'tools', 'manifest_src.json')))
props = [json.loads(l)['id'] for l in open(os.path.join(V, 'properties.jsonl'))]
checks = []
na = []
for pid in props:
    c = src['checks'].get(pid)
    if c:
        checks.append({
            'property_id': pid,
            'quick_cmd': './check %s --tier quick' % pid,
            'thorough_cmd': './check %s --tier thorough' % pid,
            'evidence_file': '/verif/evidence/%s.json' % pid,
            'replay_cmd_template': './check --replay {path}',
            'engine': 'cbmc-contracts',
            'level_claimed': {'category': c.get('category', 'proof'), 'text': c['level_text'], 'design_ref': c.get('design_ref', 'DESIGN.md section 6, ' + pid)},
            'level_note': c['level_note'],
            'technique': c.get('technique', 'contract-based deductive verification: CBMC code contracts (goto-instrument --dfcc) spliced into the real source'),
        })
    else:
        na.append({'property_id': pid, 'reason': src['not_applicable'].get(pid, 'check not built yet (work in progress)')})
import subprocess
fixes = [l for l in subprocess.run(['git', '-C', '/repo', 'log', '--reverse', '--format=%h %s'], capture_output=True, text=True).stdout.splitlines() if l.split(' ', 1)[1].startswith('fix:')]
m = {
    'version': 1,
    'setup_cmd': 'python3 /verif/tools/setup.py',
    'hooks': {'guard': 'LIBQB_VERIF',
              'enable': 'no hooks in /repo: contract clauses and ghost observers are spliced into a scratch copy of the real lib/*.c on every run (DESIGN.md 3.1)',
              'baseline_off_cmd': 'make -C /repo -j8 check', 'source_commits': [], 'add_only': True},
    'engines': [{'name': 'cbmc-contracts', 'path': '/verif/tools/runner.py', 'serves_properties': [c['property_id'] for c in checks],
                 'kind_free_text': 'splice contracts into the real C source, goto-cc, goto-instrument --dfcc (enforce/replace/loop contracts), cbmc SAT; native ASan replay of counterexamples'}],
    'checks': checks,
    'not_applicable': na,
    'notes': src.get('notes', '') + ' No hook commits exist in /repo (guard unused). Unguarded fix: commits in /repo (genuine defects repaired, see known_findings.json and DESIGN.md 10.2): ' + '; '.join(fixes),
}
json.dump(m, open(os.path.join(V, 'MANIFEST.json'), 'w'), indent=1)
print('MANIFEST: %d checks, %d not_applicable' % (len(checks), len(na)))
