/* Harness vocabulary shared by the CBMC build and the native replay build. */
#ifndef VERIF_H
#define VERIF_H
#include <stdint.h>
#include <stddef.h>

#ifdef VERIF_NATIVE
#include <stdio.h>
#include <stdlib.h>
#include <string.h>
uint64_t verif_nd_get(const char *name, unsigned size);
void verif_fail(const char *msg);
#define VERIF_ND(type, name) type name = (type)verif_nd_get(#name, sizeof(type))
#define VERIF_ND_SET(type, lhs, name) (lhs) = (type)verif_nd_get(#name, sizeof(type))
#define ASSUME(c) do { if (!(c)) { fprintf(stderr, "REPLAY-ASSUME-NOT-MET: %s\n", #c); exit(77); } } while (0)
#define POST(c, msg) do { if (!(c)) { verif_fail(msg); } } while (0)
#define COVER(c) ((void)0)
#define __CPROVER_requires(...)
#define __CPROVER_ensures(...)
#define __CPROVER_assigns(...)
#define __CPROVER_frees(...)
#define __CPROVER_loop_invariant(...)
#define __CPROVER_decreases(...)
#define __CPROVER_assume(c) ASSUME(c)
#define __CPROVER_assert(c, msg) POST(c, msg)
#define __CPROVER_r_ok(...) 1
#define __CPROVER_w_ok(...) 1
#define __CPROVER_rw_ok(...) 1
#define __CPROVER_havoc_slice(p, n) ((void)0)
#define __CPROVER_cover(c) ((void)0)
#define __CPROVER_same_object(a, b) ((const void *)(a) == (const void *)(b))
#define __CPROVER_POINTER_OBJECT(a) ((uintptr_t)(a))
#define __CPROVER_POINTER_OFFSET(a) 0
#define __CPROVER_OBJECT_SIZE(a) ((size_t)-1)
#else
uint64_t nondet_u64(void);
extern int __CPROVER_errno;
#define VERIF_ND(type, name) type name = (type)nondet_u64()
#define VERIF_ND_SET(type, lhs, name) { type name = (type)nondet_u64(); (lhs) = name; }
#define ASSUME(c) __CPROVER_assume(c)
#define POST(c, msg) __CPROVER_assert(c, msg)
#ifdef VERIF_COVER
#define COVER(c) __CPROVER_assert(!(c), "COVER: " #c)
#else
#define COVER(c) ((void)0)
#endif
#endif

#endif
