/* Native replay support: feeds the harness's named nondet inputs from a replay
 * file (lines "name value", consumed in order of appearance per name). */
#include <stdio.h>
#include <stdlib.h>
#include <string.h>
#include <stdint.h>

#define MAXV 4096
static struct { char name[64]; uint64_t val; int used; } vals[MAXV];
static int nvals;
static int failures;

uint64_t verif_nd_get(const char *name, unsigned size)
{
	for (int i = 0; i < nvals; i++) {
		if (!vals[i].used && strcmp(vals[i].name, name) == 0) {
			vals[i].used = 1;
			return vals[i].val;
		}
	}
	fprintf(stderr, "REPLAY-NOTE: no value for %s, using 0\n", name);
	return 0;
}

void verif_fail(const char *msg)
{
	fprintf(stderr, "REPLAY-FAIL: %s\n", msg);
	failures++;
}

extern void harness(void);

int main(int argc, char **argv)
{
	if (argc > 1) {
		FILE *f = fopen(argv[1], "r");
		char line[256];
		if (!f) { perror(argv[1]); return 3; }
		while (fgets(line, sizeof line, f) && nvals < MAXV) {
			char nm[64]; unsigned long long v;
			if (sscanf(line, "%63s %llu", nm, &v) == 2) {
				strcpy(vals[nvals].name, nm);
				vals[nvals].val = v;
				nvals++;
			}
		}
		fclose(f);
	}
	harness();
	if (failures) {
		fprintf(stderr, "REPLAY-RESULT: %d failed assertion(s)\n", failures);
		return 1;
	}
	fprintf(stderr, "REPLAY-RESULT: ok\n");
	return 0;
}
