/*UNIT
{"props": ["C20"], "src": ["lib/hdb.c"], "spec": ["hdb.spec"], "mode": "dfcc",
 "enforce": ["qb_hdb_handle_put"], "kind": "proved", "functions": ["qb_hdb_handle_put"],
 "stubs": ["qb_array_index (C19 contract over the slot model)", "qb_atomic_int_* (sequential)", "destructor callback (ghost monitor)"],
 "restrict_fp": ["qb_hdb_handle_put.function_pointer_call.1/verif_destructor"],
 "expect_classes": ["postcondition"], "timeout": 120, "cbmc_flags": ["--no-malloc-may-fail"]}
*/
/* qb_hdb_handle_put for every handle value and slot state: rejected (nothing changes) unless the slot
 * is in use and the check matches; otherwise exactly one reference is dropped, and exactly at zero the
 * destructor runs once on the still-allocated object, the object is freed and the slot becomes all-zero. */
#include "common.h"

void harness(void)
{
	struct qb_hdb *hdb = verif_build_hdb();
	VERIF_ND(uint64_t, nd_handle);
	verif_Tidx = (int32_t)(nd_handle & UINT32_MAX);
	verif_build_T();
	struct qb_hdb_handle t0 = verif_T;
	uint32_t count0 = hdb->handle_count;
	int32_t check = (int32_t)(nd_handle >> 32);
	int have_dtor = hdb->destructor != NULL;

	int32_t rc = qb_hdb_handle_put(hdb, nd_handle);

	int ok = verif_Tidx >= 0 && (uint32_t)verif_Tidx < count0 && t0.state != QB_HDB_HANDLE_STATE_EMPTY
		&& (check == -1 || check == t0.check);
	POST((rc == 0) == ok, "put is accepted exactly for an in-use slot whose check matches (stale and never-issued handles are rejected)");
	if (rc != 0) {
		COVER(t0.state == QB_HDB_HANDLE_STATE_EMPTY && verif_Tidx >= 0 && (uint32_t)verif_Tidx < count0);
		COVER(t0.state == QB_HDB_HANDLE_STATE_ACTIVE);
		POST(rc == -EBADF, "rejected put reports EBADF");
		POST(verif_T.state == t0.state && verif_T.check == t0.check && verif_T.ref_count == t0.ref_count
		     && verif_T.instance == t0.instance, "rejected put changes nothing");
		POST(verif_dtor_calls == 0, "rejected put never runs the destructor");
	} else if (t0.ref_count != 1) {
		COVER(t0.state == QB_HDB_HANDLE_STATE_PENDINGREMOVAL);
		COVER(t0.state == QB_HDB_HANDLE_STATE_ACTIVE);
		POST(verif_T.ref_count == t0.ref_count - 1, "put drops exactly one reference");
		POST(verif_T.state == t0.state && verif_T.check == t0.check && verif_T.instance == t0.instance, "object stays while references remain");
		POST(verif_dtor_calls == 0, "destructor does not run before the count reaches zero");
	} else {
		COVER(have_dtor);
		COVER(!have_dtor);
		POST(verif_dtor_calls == (have_dtor ? 1 : 0), "destructor runs exactly once when the count reaches zero");
		POST(!have_dtor || verif_dtor_arg == t0.instance, "destructor receives the object of this handle");
		POST(verif_T.state == QB_HDB_HANDLE_STATE_EMPTY, "slot is EMPTY after the last put, so every copy of the old handle is rejected from now on");
		POST(verif_instance_live == 0, "the object is freed when the count reaches zero");
	}
	POST(hdb->handle_count == count0, "put never changes the handle count");
}
