/*UNIT
{"props": ["C20"], "src": ["lib/hdb.c"], "spec": ["hdb.spec"], "mode": "plain", "kind": "proved",
 "functions": ["qb_hdb_create", "qb_hdb_create_first_run", "qb_hdb_iterator_reset"],
 "stubs": ["qb_array_create (C19 contract over the slot model: an array of the requested capacity)", "qb_atomic_init (no-op)", "memset (CBMC built-in model, constant length)"],
 "expect_classes": ["assertion"], "timeout": 120, "cbmc_flags": ["--no-malloc-may-fail"]}
*/
/* qb_hdb_create on a struct with arbitrary previous content establishes the database state every other
 * hdb unit starts from (the premise of verif_build_hdb): no slot is in use (handle_count 0, so every handle
 * value - never issued or left over from an earlier life of the struct - is refused and iteration visits
 * nothing), the slot array exists with room for the count, iteration starts at the first slot and no stale
 * destructor is left behind. qb_hdb_iterator_reset moves the iteration back to the first slot and changes
 * nothing else, so that a full iteration visits every object that has not been destroyed. */
#include "common.h"

void harness(void)
{
	struct qb_hdb *hdb = malloc(sizeof(*hdb));
	VERIF_ND(uint32_t, nd_old_count);
	VERIF_ND(uint32_t, nd_old_iter);
	VERIF_ND(uint32_t, nd_old_first_run);
	VERIF_ND(uint8_t, nd_old_dtor);
	VERIF_ND(uint64_t, nd_handle);
	VERIF_ND(uint32_t, nd_iter);
	VERIF_ND(uint32_t, nd_count);
	void *inst = (void *)1;
	ASSUME(hdb != NULL);
	/* whatever an earlier life of the struct (or the stack) left in it */
	hdb->handle_count = nd_old_count;
	hdb->iterator = nd_old_iter;
	hdb->first_run = nd_old_first_run;
	hdb->destructor = nd_old_dtor ? verif_destructor : NULL;
	hdb->handles = NULL;
	verif_arr_max = 0; verif_dtor_calls = 0; verif_dtor_arg = NULL; verif_grow_may_fail = 1;
	verif_last_other_idx = -1; verif_Widx = -1;
	verif_Tidx = (int32_t)(nd_handle & UINT32_MAX);
	verif_build_T();

	qb_hdb_create(hdb);

	COVER(nd_old_count > 0 && nd_old_dtor);
	COVER(nd_old_first_run == QB_FALSE);
	POST(hdb->handle_count == 0, "a new database has no slot in use");
	POST(hdb->iterator == 0, "iteration of a new database starts at the first slot");
	POST(hdb->first_run == QB_TRUE || (hdb->handles == (qb_array_t *)&verif_arr_token && verif_arr_max >= 1),
	     "a new database has its slot array (or still creates it on first use)");
	POST(hdb->destructor == NULL, "a new database has no destructor until one is set");
	{
		struct qb_hdb_handle t0 = verif_T;
		int32_t rc = qb_hdb_handle_get(hdb, nd_handle, &inst);
		POST(rc == -EBADF && inst == NULL, "a never-issued handle value is refused by a new database");
		POST(verif_T.state == t0.state && verif_T.ref_count == t0.ref_count, "a refused get changes nothing");
		rc = qb_hdb_handle_put(hdb, nd_handle);
		POST(rc == -EBADF, "a never-issued handle value cannot be put");
		rc = qb_hdb_handle_destroy(hdb, nd_handle);
		POST(rc == -EBADF && verif_dtor_calls == 0, "a never-issued handle value cannot be destroyed and runs no destructor");
	}

	/* iterator reset from any position of any well-formed database */
	hdb->handle_count = nd_count; hdb->iterator = nd_iter;
	hdb->destructor = nd_old_dtor ? verif_destructor : NULL;
	{
		qb_array_t *h0 = hdb->handles;
		qb_hdb_iterator_reset(hdb);
		COVER(nd_iter > 0 && nd_count > 0);
		POST(hdb->iterator == 0, "a reset iteration starts at the first slot again");
		POST(hdb->handle_count == nd_count && hdb->handles == h0 &&
		     hdb->destructor == (nd_old_dtor ? verif_destructor : NULL), "resetting the iteration changes nothing else");
	}
	free(hdb);
}
