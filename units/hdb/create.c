/*UNIT
{"props": ["C20"], "src": ["lib/hdb.c"], "spec": ["hdb.spec"], "mode": "plain", "loop_contracts": true, "kind": "proved", "functions": ["qb_hdb_handle_create"],
 "stubs": ["qb_array_index/grow (C19 contract over the slot model)", "qb_atomic_int_* (sequential)", "malloc (fresh or NULL)", "random() > 0 on the first try"],
 "unwindset": ["qb_hdb_handle_create.0:2"], "bound": "none: the only unwound loop is the 200-try PRNG retry, which the random() stub leaves after one iteration",
 "defines": ["-DVERIF_OTHER_SLOT_OK(idx,slot)=((idx)>verif_Tidx||(slot).state!=0)"],
 "expect_classes": ["loop_invariant_step"], "timeout": 180, "fallback_unwind": 5, "cbmc_flags": ["--no-malloc-may-fail"]}
*/
/* qb_hdb_handle_create: T is the first EMPTY slot (every slot scanned before it is in use: prophecy
 * witness) or the appended slot.  The new handle names exactly that slot with a positive check, the
 * object is fresh and zeroed with reference count 1, no other slot is written (frame witness W: an
 * arbitrary other slot keeps its content; plain mode because --dfcc does not terminate here), and the slot
 * count grows by one exactly when appending. */
#include "os_base.h"
#include "alloc.h"
#include "common.h"

void harness(void)
{
	struct qb_hdb *hdb = verif_build_hdb();
	VERIF_ND(int32_t, nd_tidx);
	VERIF_ND(int32_t, nd_size);
	VERIF_ND(size_t, nd_zero_off);
	qb_handle_t h = 0;
	ASSUME(nd_tidx >= 0 && (uint32_t)nd_tidx <= hdb->handle_count);
	ASSUME(nd_size >= 0 && nd_size <= 256);
	verif_Tidx = nd_tidx;
#ifdef VERIF_FALLBACK
	ASSUME(hdb->handle_count <= VERIF_FALLBACK);   /* bounded re-check: at most VERIF_FALLBACK slots to scan */
#endif
	verif_T.state = QB_HDB_HANDLE_STATE_EMPTY;
	VERIF_ND(int32_t, nd_t_stale_check);
	VERIF_ND(int32_t, nd_t_stale_ref);
	verif_T.check = nd_t_stale_check; verif_T.ref_count = nd_t_stale_ref; verif_T.instance = NULL;   /* an EMPTY slot: no object; other fields don't-care */
	verif_T0 = verif_T;
	/* frame witness: an arbitrary other slot with arbitrary (in-use, if scanned before T) content */
	VERIF_ND(int32_t, nd_widx);
	VERIF_ND(int32_t, nd_w_state);
	VERIF_ND(int32_t, nd_w_check);
	VERIF_ND(int32_t, nd_w_ref);
	ASSUME(nd_widx >= 0 && nd_widx != nd_tidx && nd_w_state >= 0 && nd_w_state <= 2 && (nd_widx > nd_tidx || nd_w_state != 0));
	verif_Widx = nd_widx;
	verif_W.state = nd_w_state; verif_W.check = nd_w_check; verif_W.ref_count = nd_w_ref; verif_W.instance = NULL;
	struct qb_hdb_handle w0 = verif_W;
	verif_alloc_calls = 0; verif_alloc_never_fails = 0;
	uint32_t count0 = hdb->handle_count;

	int32_t rc = qb_hdb_handle_create(hdb, nd_size, &h);

	if (rc == 0) {
		COVER((uint32_t)nd_tidx < count0);
		COVER((uint32_t)nd_tidx == count0);
		POST((uint32_t)(h & UINT32_MAX) == (uint32_t)nd_tidx, "new handle names the slot that was taken");
		POST((int32_t)(h >> 32) == verif_T.check && verif_T.check > 0, "new handle carries the slot's positive check value");
		POST(verif_T.state == QB_HDB_HANDLE_STATE_ACTIVE && verif_T.ref_count == 1, "new object is live with reference count 1");
		POST(verif_T.instance != NULL, "new object allocated");
		if (nd_zero_off < (size_t)nd_size) {
			POST(((char *)verif_T.instance)[nd_zero_off] == 0, "new object is zero-initialised");
		}
		POST(hdb->handle_count == ((uint32_t)nd_tidx == count0 ? count0 + 1 : count0), "slot count grows exactly when appending");
	} else {
		COVER(rc == -ENOMEM);
		POST(hdb->handle_count == count0 || hdb->handle_count == count0 + 1, "failed create leaves the slot count consistent");
		POST(verif_T.state == QB_HDB_HANDLE_STATE_EMPTY, "a failed create issues no handle: its slot stays unused (no handle value resolves to it, iteration does not visit it)");
	}
	POST(hdb->handle_count <= verif_arr_max, "handle count never exceeds the array size");
	POST(verif_W.state == w0.state && verif_W.check == w0.check && verif_W.ref_count == w0.ref_count && verif_W.instance == w0.instance,
	     "create writes no slot other than the one it hands out");
}
