/*UNIT
{"props": ["C20"], "src": ["lib/hdb.c"], "spec": ["hdb.spec"], "mode": "dfcc",
 "enforce": ["qb_hdb_handle_get"], "kind": "proved", "functions": ["qb_hdb_handle_get"],
 "stubs": ["qb_array_index/grow/create (contract proved in C19, over a ghost slot model)", "qb_atomic_int_* (sequential)"],
 "expect_classes": ["postcondition"], "timeout": 120, "cbmc_flags": ["--no-malloc-may-fail"]}
*/
/* qb_hdb_handle_get for every handle value (issued, stale, never issued, no-check form) and every
 * slot state: succeeds exactly for an ACTIVE slot below handle_count whose check matches, takes one
 * reference; otherwise -EBADF, *instance NULL and nothing changes (frame: no other slot is written). */
#include "common.h"

void harness(void)
{
	struct qb_hdb *hdb = verif_build_hdb();
	VERIF_ND(uint64_t, nd_handle);
	void *inst = (void *)1;
	verif_Tidx = (int32_t)(nd_handle & UINT32_MAX);
	verif_build_T();
	struct qb_hdb_handle t0 = verif_T;
	uint32_t count0 = hdb->handle_count;
	int32_t check = (int32_t)(nd_handle >> 32);

	int32_t rc = qb_hdb_handle_get(hdb, nd_handle, &inst);

	int ok = verif_Tidx >= 0 && (uint32_t)verif_Tidx < count0 && t0.state == QB_HDB_HANDLE_STATE_ACTIVE
		&& (check == -1 || check == t0.check);
	POST((rc == 0) == ok, "get succeeds exactly for a live (ACTIVE) object whose check matches");
	if (t0.state == QB_HDB_HANDLE_STATE_PENDINGREMOVAL) {
		POST(rc == -EBADF, "a destroyed object refuses new gets");
	}
	if (rc == 0) {
		COVER(check == -1);
		COVER(check != -1);
		POST(inst == t0.instance, "get returns the object the handle was created for");
		POST(verif_T.ref_count == t0.ref_count + 1, "get takes exactly one reference");
	} else {
		COVER(t0.state == QB_HDB_HANDLE_STATE_EMPTY);
		COVER(t0.state == QB_HDB_HANDLE_STATE_ACTIVE && check != t0.check);
		COVER(verif_Tidx < 0);
		POST(rc == -EBADF && inst == NULL, "refused get reports EBADF and returns no object");
		POST(verif_T.ref_count == t0.ref_count, "refused get takes no reference");
	}
	POST(verif_T.state == t0.state && verif_T.check == t0.check && verif_T.instance == t0.instance, "get never changes slot identity");
	POST(hdb->handle_count == count0, "get never changes the handle count");
}
