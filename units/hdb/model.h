/* Slot model for the handle database units (C20).
 * qb_array_* is replaced by stubs that implement the CONTRACT proved for lib/array.c in C19
 * (stable element addresses, distinct storage per index, range errors), over ghost slots:
 *   verif_T      the slot with index verif_Tidx (the slot an operation on a handle touches)
 *   verif_O      stands for every other slot; its content is re-drawn (havocked) each time a
 *                different index is looked up, constrained by the hook verif_other_slot_ok().
 * Any write of the code under test that lands in verif_O is caught by the frame (assigns) check. */
#ifndef VERIF_HDB_MODEL_H
#define VERIF_HDB_MODEL_H
#include "verif.h"
#include <qb/qbhdb.h>
#include <qb/qbarray.h>

struct qb_hdb_handle verif_W;   /* frame witness: an arbitrary other slot (index verif_Widx) that must stay unchanged */
int32_t verif_Widx;
uint32_t verif_iter0;            /* ghost: iterator position on entry of iterator_next */
struct qb_hdb_handle verif_T, verif_O, verif_T0;   /* verif_T0: harness copy of T's entry state */
int32_t verif_Tidx;
size_t verif_arr_max;          /* ghost: max_elements of the handles array */
int verif_arr_token;
int verif_dtor_calls;          /* ghost: destructor invocations */
void *verif_dtor_arg;
int verif_instance_live;       /* ghost: 1 while T's instance is allocated */
int verif_grow_may_fail;
int32_t verif_last_other_idx;

#ifndef VERIF_OTHER_SLOT_OK
#define VERIF_OTHER_SLOT_OK(idx, slot) 1
#endif

static int32_t verif_qb_array_index(qb_array_t *a, int32_t idx, void **element_out)
{
	POST(a == (qb_array_t *)&verif_arr_token, "array handle passed through unchanged");
	if (idx < 0 || (size_t)idx >= verif_arr_max) {
		return -ERANGE;
	}
	if (idx == verif_Tidx) {
		*element_out = &verif_T;
		return 0;
	}
	if (idx == verif_Widx) {
		*element_out = &verif_W;
		return 0;
	}
	if (idx != verif_last_other_idx) {
		VERIF_ND(int32_t, nd_o_state);
		VERIF_ND(int32_t, nd_o_check);
		VERIF_ND(int32_t, nd_o_ref);
		verif_O.state = nd_o_state;
		verif_O.check = nd_o_check;
		verif_O.ref_count = nd_o_ref;
		verif_O.instance = NULL;
		ASSUME(nd_o_state >= 0 && nd_o_state <= 2);
		ASSUME(VERIF_OTHER_SLOT_OK(idx, verif_O));
		verif_last_other_idx = idx;
	}
	*element_out = &verif_O;
	return 0;
}

static int32_t verif_qb_array_grow(qb_array_t *a, size_t max_elements)
{
	VERIF_ND(uint8_t, nd_grow_fails);
	if (max_elements > 65536) {
		return -EINVAL;
	}
	if (nd_grow_fails && verif_grow_may_fail) {
		return -ENOMEM;
	}
	if (max_elements > verif_arr_max) {
		verif_arr_max = max_elements;
	}
	return 0;
}

static qb_array_t *verif_qb_array_create(size_t max_elements, size_t element_size)
{
	verif_arr_max = max_elements;
	return (qb_array_t *)&verif_arr_token;
}

static long verif_random(void)
{
	/* assumed: random() yields a positive value on the first try (the code retries up to 200 times on 0) */
	VERIF_ND(int32_t, nd_random);
	ASSUME(nd_random > 0);
	return nd_random;
}

static void verif_free(void *p)
{
	if (p != NULL && p == verif_T.instance) {
		POST(verif_instance_live, "object freed at most once");
		verif_instance_live = 0;
	}
	free(p);
}

static void verif_destructor(void *p)
{
	verif_dtor_calls++;
	verif_dtor_arg = p;
	POST(verif_instance_live, "destructor runs on a live (not yet freed) object");
}

#define qb_array_index verif_qb_array_index
#define qb_array_grow verif_qb_array_grow
#define qb_array_create verif_qb_array_create
#define random verif_random
#define free verif_free
#endif
