/*UNIT
{"props": ["C20"], "src": ["lib/hdb.c"], "spec": ["hdb.spec"], "mode": "plain", "loop_contracts": true, "kind": "proved",
 "functions": ["qb_hdb_iterator_next", "qb_hdb_handle_get (inlined)"],
 "stubs": ["qb_array_index (C19 contract over the slot model)", "qb_atomic_int_* (sequential)"],
 "defines": ["-DVERIF_OTHER_SLOT_OK(idx,slot)=((idx)>verif_Tidx||(slot).state!=2)"],
 "expect_classes": ["loop_invariant_step"], "timeout": 180, "fallback_unwind": 5, "cbmc_flags": ["--no-malloc-may-fail"]}
*/
/* qb_hdb_iterator_next: from any iterator position it returns the FIRST object that has not been
 * destroyed (state ACTIVE) at or after that position, with a reference taken and the matching handle,
 * and moves just past it; EMPTY and PENDINGREMOVAL slots are skipped without being touched (frame
 * witness W); with no live object left it reports failure and parks at the end. */
#include "common.h"

void harness(void)
{
	struct qb_hdb *hdb = verif_build_hdb();
	VERIF_ND(int32_t, nd_tidx);
	VERIF_ND(int32_t, nd_widx);
	VERIF_ND(int32_t, nd_w_state);
	VERIF_ND(int32_t, nd_w_check);
	VERIF_ND(int32_t, nd_w_ref);
	void *inst = (void *)1;
	qb_handle_t h = 0;
	uint32_t count0 = hdb->handle_count;
	uint32_t i0 = hdb->iterator;
	ASSUME(nd_tidx >= 0 && (uint32_t)nd_tidx <= count0 && i0 <= (uint32_t)nd_tidx);
	verif_Tidx = nd_tidx;
	verif_iter0 = i0;
#ifdef VERIF_FALLBACK
	ASSUME(count0 <= i0 + VERIF_FALLBACK);   /* bounded re-check: at most VERIF_FALLBACK slots left to visit */
#endif
	verif_build_T();
	if ((uint32_t)nd_tidx < count0) {
		ASSUME(verif_T.state == QB_HDB_HANDLE_STATE_ACTIVE);
	}
	verif_T0 = verif_T;
	ASSUME(nd_widx >= 0 && nd_widx != nd_tidx && nd_w_state >= 0 && nd_w_state <= 2 && (nd_widx > nd_tidx || nd_w_state != 2));
	verif_Widx = nd_widx;
	verif_W.state = nd_w_state; verif_W.check = nd_w_check; verif_W.ref_count = nd_w_ref; verif_W.instance = NULL;
	struct qb_hdb_handle w0 = verif_W;

	int32_t rc = qb_hdb_iterator_next(hdb, &inst, &h);

	if ((uint32_t)nd_tidx < count0) {
		COVER(i0 < (uint32_t)nd_tidx);
		COVER(i0 == (uint32_t)nd_tidx);
		POST(rc == 0, "iteration finds the next live object");
		POST(inst == verif_T0.instance, "iteration returns the first object at or after the position that has not been destroyed");
		POST(h == ((((uint64_t)(uint32_t)verif_T0.check) << 32) | (uint32_t)nd_tidx), "iteration returns that object's handle");
		POST(verif_T.ref_count == verif_T0.ref_count + 1, "iteration takes one reference on the returned object");
		POST(hdb->iterator == (uint32_t)nd_tidx + 1, "iterator moves just past the returned object");
	} else {
		COVER(i0 < count0);
		COVER(i0 >= count0);
		POST(rc != 0, "iteration reports the end when no live object is left");
		POST(hdb->iterator >= count0 || i0 >= count0, "iterator is exhausted");
	}
	POST(verif_W.state == w0.state && verif_W.check == w0.check && verif_W.ref_count == w0.ref_count && verif_W.instance == w0.instance,
	     "skipped (destroyed or empty) slots are not touched");
	POST(hdb->handle_count == count0, "iteration never changes the handle count");
}
