/* common prelude of the hdb units: build an arbitrary database state satisfying the slot invariant */
#include "os_base.h"
#include <qb/qbhdb.h>
#include <qb/qbatomic.h>
#include "verif.h"
#include "model.h"
#include "atomic.h"
#include "hdb.c"

/* slot invariant: EMPTY => no object attached (check and count fields are don't-care: every operation
 * rejects an EMPTY slot by its state); ACTIVE / PENDINGREMOVAL => ref_count >= 1, check > 0, instance allocated */
static void verif_build_T(void)
{
	VERIF_ND(int32_t, nd_t_state);
	VERIF_ND(int32_t, nd_t_check);
	VERIF_ND(int32_t, nd_t_ref);
	ASSUME(nd_t_state >= 0 && nd_t_state <= 2);
	verif_T.state = nd_t_state;
	if (nd_t_state == QB_HDB_HANDLE_STATE_EMPTY) {
		VERIF_ND(int32_t, nd_t_stale_check);
		VERIF_ND(int32_t, nd_t_stale_ref);
		verif_T.check = nd_t_stale_check;
		verif_T.ref_count = nd_t_stale_ref;
		verif_T.instance = NULL;
		verif_instance_live = 0;
	} else {
		ASSUME(nd_t_check > 0 && nd_t_ref >= 1 && nd_t_ref < (1 << 30)); /* range assumption: fewer than 2^30 references */
		verif_T.check = nd_t_check;
		verif_T.ref_count = nd_t_ref;
		verif_T.instance = malloc(8);
		ASSUME(verif_T.instance != NULL);
		verif_instance_live = 1;
	}
}

static struct qb_hdb *verif_build_hdb(void)
{
	VERIF_ND(uint32_t, nd_count);
	VERIF_ND(size_t, nd_arrmax);
	VERIF_ND(uint32_t, nd_iter);
	VERIF_ND(uint8_t, nd_have_dtor);
	struct qb_hdb *hdb = malloc(sizeof(*hdb));
	ASSUME(hdb != NULL);
	ASSUME(nd_arrmax >= 32 && nd_arrmax <= 65536 && nd_count <= nd_arrmax);
	hdb->handle_count = nd_count;
	hdb->handles = (qb_array_t *)&verif_arr_token;
	hdb->iterator = nd_iter;
	hdb->destructor = nd_have_dtor ? verif_destructor : NULL;
	hdb->first_run = QB_FALSE;
	verif_arr_max = nd_arrmax;
	verif_dtor_calls = 0;
	verif_dtor_arg = NULL;
	verif_grow_may_fail = 1;
	verif_last_other_idx = -1;
	verif_Widx = -1;   /* units that use the frame witness set it */
	return hdb;
}
