/*UNIT
{"props": ["C20"], "src": ["lib/hdb.c"], "spec": ["hdb.spec"], "mode": "dfcc",
 "enforce": ["qb_hdb_handle_refcount_get"], "kind": "proved", "functions": ["qb_hdb_handle_refcount_get"],
 "stubs": ["qb_array_index (C19 contract over the slot model)"],
 "expect_classes": ["postcondition"], "timeout": 120, "cbmc_flags": ["--no-malloc-may-fail"]}
*/
/* qb_hdb_handle_refcount_get: reports the slot's count for a valid handle, -EBADF for stale / never-issued
 * ones; changes nothing.  Together with create (count 1), get (+1), put/destroy (-1) this is
 * "count = 1 + gets - puts". */
#include "common.h"

void harness(void)
{
	struct qb_hdb *hdb = verif_build_hdb();
	VERIF_ND(uint64_t, nd_handle);
	verif_Tidx = (int32_t)(nd_handle & UINT32_MAX);
	verif_build_T();
	struct qb_hdb_handle t0 = verif_T;
	uint32_t count0 = hdb->handle_count;
	int32_t check = (int32_t)(nd_handle >> 32);

	int32_t rc = qb_hdb_handle_refcount_get(hdb, nd_handle);

	int ok = verif_Tidx >= 0 && (uint32_t)verif_Tidx < count0 && t0.state != QB_HDB_HANDLE_STATE_EMPTY
		&& (check == -1 || check == t0.check);
	if (ok) {
		COVER(1);
		POST(rc == t0.ref_count, "refcount_get reports the current reference count");
	} else {
		COVER(t0.state == QB_HDB_HANDLE_STATE_EMPTY && verif_Tidx >= 0 && (uint32_t)verif_Tidx < count0);
		POST(rc == -EBADF, "refcount_get rejects stale and never-issued handles");
	}
	POST(verif_T.state == t0.state && verif_T.check == t0.check && verif_T.ref_count == t0.ref_count && verif_T.instance == t0.instance,
	     "refcount_get changes nothing");
}
