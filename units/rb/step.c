/*UNIT
{"props": ["C07", "C01", "C11"], "src": ["lib/ringbuffer.c"], "spec": ["ringbuffer.spec"], "tags": ["nooverwrite"], "mode": "dfcc",
 "enforce": ["qb_rb_chunk_step"], "kind": "proved", "functions": ["qb_rb_chunk_step"],
 "drops": ["qb_util_log/qb_util_perror diagnostics compiled out (stubs/nolog.h)"],
 "expect_classes": ["postcondition"], "timeout": 200}
*/
/* qb_rb_chunk_step(p) == (p + 2 + ceil(size(p)/4)) mod word_size, for every word_size, position and
 * chunk size up to the capacity (sizes not divisible by 4 included); reads only. */
#include "common.h"

void harness(void)
{
	struct qb_ringbuffer_s *rb = verif_build_rb(0, 0);
	VERIF_ND(uint32_t, nd_p);
	VERIF_ND(uint32_t, nd_size);
	uint32_t ws = rb->shared_hdr->word_size;
	ASSUME(nd_p < ws && nd_size <= 4 * ws - 12);   /* any chunk the ring can hold */
	rb->shared_data[nd_p] = nd_size;
	uint32_t n = qb_rb_chunk_step(rb, nd_p);
	COVER(nd_size % 4 != 0); COVER(nd_size % 4 == 0); COVER(nd_size == 0);
	COVER((uint64_t)nd_p + spec_chunk_words(nd_size) >= ws);
	POST(n == spec_step(ws, nd_p, nd_size), "chunk step = header + payload rounded up to a word, modulo the capacity");
	POST(n < ws, "stepped position stays inside the ring");
}
