/*UNIT
{"props": ["C01"], "src": ["lib/ringbuffer.c"], "spec": ["ringbuffer.spec"], "tags": ["c01order"], "mode": "plain",
 "kind": "proved", "functions": ["qb_rb_chunk_commit (per-store observers)", "_rb_chunk_reclaim (per-store observers)"],
 "restrict_fp": ["qb_rb_chunk_commit.function_pointer_call.1/verif_post_fn", "_rb_chunk_reclaim.function_pointer_call.1/verif_reclaim_fn"],
 "drops": ["qb_util_log/qb_util_perror diagnostics compiled out (stubs/nolog.h)"],
 "expect_classes": ["assertion"], "timeout": 300,
 "variants": [{"vname": "commit", "defines": ["-DV_COMMIT"]}, {"vname": "reclaim", "defines": ["-DV_RECLAIM"]}]}
*/
/* C01, publication and consumption order (sequential consistency assumed).  A ghost observer runs after
 * every store to shared state and checks what the OTHER party could see at that instant:
 *  writer (commit):  until the store that publishes the chunk, the slot at the old write position never
 *                    looks published; at the publishing store the length word already holds the final
 *                    length -> a reader never gets a partly written chunk;
 *  reader (reclaim): read_pt does not move before the consumed header is dead -> the writer is never
 *                    told "this space is free" while the reader still has stores to it pending, and a
 *                    chunk is never returned twice. */
#include "os_base.h"
#include "verif.h"
struct qb_ringbuffer_s;
static void verif_after_store(struct qb_ringbuffer_s *rb, int k);
#include "common.h"

uint32_t g_ws, g_r0, g_w0, g_len;
int g_published_seen, g_stores;

static void verif_after_store(struct qb_ringbuffer_s *rb, int k)
{
	uint32_t magic_w0 = rb->shared_data[wrap(g_ws, g_w0 + 1)];
	uint32_t magic_r0 = rb->shared_data[wrap(g_ws, g_r0 + 1)];
	g_stores++;
	if (k >= 1 && k <= 3) {
		POST(rb->shared_hdr->read_pt == g_r0, "the writer never moves read_pt");
		if (magic_w0 == MAGIC) {
			POST(rb->shared_data[g_w0] == g_len, "a chunk that looks published already carries its final length (never partly written)");
			g_published_seen = 1;
		}
	} else {
		POST(rb->shared_hdr->write_pt == g_w0, "the reader never moves write_pt");
		if (rb->shared_hdr->read_pt != g_r0) {
			POST(magic_r0 == MAGIC_DEAD && rb->shared_data[g_r0] == 0, "read_pt moves only after the consumed header is dead");
		}
	}
}

void harness(void)
{
	struct qb_ringbuffer_s *rb = verif_build_rb(0, 0);
	uint32_t ws = rb->shared_hdr->word_size, r = rb->shared_hdr->read_pt, w = rb->shared_hdr->write_pt;
	g_ws = ws; g_r0 = r; g_w0 = w; g_published_seen = 0; g_stores = 0;
#ifdef V_COMMIT
	VERIF_ND(size_t, nd_len);
	uint64_t freeb = spec_space_free_bytes(ws, r, w);
	ASSUME(nd_len <= (size_t)4 * VERIF_WS_MAX && freeb >= nd_len + 12);
	g_len = (uint32_t)nd_len;
	/* state left by alloc */
	rb->shared_data[w] = 0;
	rb->shared_data[wrap(ws, w + 1)] = MAGIC_ALLOC;
	(void)qb_rb_chunk_commit(rb, nd_len);
	COVER(g_stores == 3);
	POST(g_published_seen, "commit publishes the chunk");
	POST(g_stores >= 3, "every shared store of commit was observed");
#else
	VERIF_ND(uint32_t, nd_size);
	ASSUME(nd_size <= 4 * ws - 12);
	rb->shared_data[r] = nd_size;
	rb->shared_data[wrap(ws, r + 1)] = MAGIC;
	ASSUME(r != w);
	(void)_rb_chunk_reclaim(rb);
	COVER(g_stores == 3);
	POST(g_stores >= 3, "every shared store of reclaim was observed");
	POST(rb->shared_hdr->read_pt == spec_step(ws, r, nd_size), "reclaim consumes the chunk");
#endif
}
