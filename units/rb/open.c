/*UNIT
{"props": ["C07", "C11"], "src": ["lib/ringbuffer.c"], "spec": ["ringbuffer.spec"], "tags": ["nooverwrite"], "mode": "plain",
 "kind": "proved", "functions": ["qb_rb_open_2 (create path)"],
 "restrict_fp": ["qb_rb_open_2.function_pointer_call.1/verif_destroy_fn"],
 "stubs": ["sysconf(_SC_PAGESIZE) in {4096, 16384, 65536}", "qb_sys_mmap_file_open / mmap / qb_sys_circular_mmap (fresh mappings of the requested length, mapped twice) / qb_rb_sem_create / close / unlink / munmap / snprintf / strlcpy"],
 "drops": ["qb_util_log/qb_util_perror diagnostics compiled out (stubs/nolog.h)"],
 "expect_classes": ["assertion"], "timeout": 300, "sat_solver": "minisat2", "cbmc_flags": ["--no-malloc-may-fail"]}
*/
/* qb_rb_open_2(name, S, CREATE...): the capacity in bytes is S + 13 rounded up to the page size, so
 * S + 13 <= 4 * word_size ("size" means the largest single write); both positions start at 0 and the
 * first slot does not look published: the created ring satisfies the invariant every other unit assumes. */
#include "os_base.h"
#include <sys/mman.h>
#include "verif.h"
size_t verif_hdr_bytes, verif_data_bytes;
int verif_open_files;
static long verif_sysconf(int name)
{
	VERIF_ND(uint8_t, nd_page_sel);
	return nd_page_sel == 0 ? 4096 : (nd_page_sel == 1 ? 16384 : 65536);
}
static int verif_snprintf(char *str, size_t size, const char *fmt, ...) { if (size > 0) str[0] = 0; return 0; }
static void *verif_mmap(void *addr, size_t length, int prot, int flags, int fd, off_t offset)
{
	VERIF_ND(uint8_t, nd_mmap_fails);
	void *p;
	if (nd_mmap_fails) { errno = ENOMEM; return MAP_FAILED; }
	p = malloc(length);
	__CPROVER_assume(p != NULL);
	verif_hdr_bytes = length;
	return p;
}
static int verif_munmap(void *addr, size_t length) { return 0; }
static int verif_close(int fd) { verif_open_files--; return 0; }
static int verif_unlink(const char *path) { return 0; }
static size_t verif_strlcpy(char *dest, const char *src, size_t maxlen) { if (maxlen > 0) dest[0] = 0; return 0; }
#define sysconf verif_sysconf
#define snprintf verif_snprintf
#define mmap verif_mmap
#define munmap verif_munmap
#define close verif_close
#define unlink verif_unlink
#define strlcpy verif_strlcpy
#include "ringbuffer_int.h"
static int32_t verif_qb_sys_mmap_file_open(char *path, const char *file, size_t bytes, uint32_t file_flags)
{
	VERIF_ND(int32_t, nd_fd);
	ASSUME(nd_fd >= -4095);   /* a descriptor or -errno */
	path[0] = 0;
	if (nd_fd >= 0) { verif_open_files++; }
	return nd_fd;
}
static int32_t verif_qb_sys_circular_mmap(int32_t fd, void **buf, size_t bytes)
{
	VERIF_ND(uint8_t, nd_circ_fails);
	verif_open_files--;   /* "this function closes fd_data" */
	if (nd_circ_fails) { *buf = NULL; return -ENOMEM; }
	size_t twice = bytes + bytes;          /* the data file is mapped twice, back to back */
	*buf = malloc(twice);
	__CPROVER_assume(*buf != NULL);
	verif_data_bytes = bytes;
	return 0;
}
static int32_t verif_qb_rb_sem_create(struct qb_ringbuffer_s *rb, uint32_t flags)
{
	VERIF_ND(int32_t, nd_sem_rc);
	ASSUME(nd_sem_rc <= 0 && nd_sem_rc >= -4095);   /* 0 or -errno */
	return nd_sem_rc;
}

#define qb_sys_mmap_file_open verif_qb_sys_mmap_file_open
#define qb_sys_circular_mmap verif_qb_sys_circular_mmap
#define qb_rb_sem_create verif_qb_rb_sem_create
#include "common.h"

static int32_t verif_destroy_fn(void *inst) { return 0; }
int32_t (*verif_keep_destroy_fn)(void *) = verif_destroy_fn;   /* address taken so the pin target exists */

void harness(void)
{
	VERIF_ND(size_t, nd_S);
	VERIF_ND(size_t, nd_user);
	VERIF_ND(uint32_t, nd_flags);
	ASSUME(nd_S <= (1u << 17) && nd_user <= 64);   /* range: sizes up to 128 KiB around every page multiple */
	ASSUME(nd_flags & QB_RB_FLAG_CREATE);
	verif_open_files = 0;

	struct qb_ringbuffer_s *rb = qb_rb_open_2("x", nd_S, nd_flags, nd_user, NULL);

	if (rb != NULL) {
		uint32_t ws = rb->shared_hdr->word_size;
		COVER(nd_S + 13 == 4096); COVER(nd_S + 13 == 4097); COVER(nd_S == 0);
		POST((size_t)ws * 4 == verif_data_bytes, "capacity words = mapped bytes / 4");
		POST((size_t)ws * 4 >= nd_S + 13, "capacity covers the requested size plus margin plus the gap word: an empty ring accepts a chunk of the requested size");
		POST((size_t)ws * 4 < nd_S + 13 + 65536 && ((size_t)ws * 4) % 4096 == 0, "capacity is the requested size rounded up to the page size, no more");
		POST(rb->shared_hdr->read_pt == 0 && rb->shared_hdr->write_pt == 0, "a new ring is empty");
		POST(rb->shared_data[0] == 0 && rb->shared_data[1] != MAGIC, "the first slot of a new ring does not look published");
		POST(rb->flags == nd_flags, "flags recorded");
		POST(verif_open_files == 0, "no descriptor left open after a successful open");
	} else {
		COVER(1);
		POST(verif_open_files == 0, "no descriptor left open after a failed open");
	}
}
