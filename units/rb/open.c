/*UNIT
{"props": ["C07", "C11"], "src": ["lib/ringbuffer.c"], "spec": ["ringbuffer.spec"], "tags": ["nooverwrite"], "mode": "plain",
 "kind": "proved", "functions": ["qb_rb_open_2 (create path)"],
 "restrict_fp": ["qb_rb_open_2.function_pointer_call.1/verif_destroy_fn"],
 "stubs": ["sysconf(_SC_PAGESIZE) in {4096, 16384, 65536}", "qb_sys_mmap_file_open / mmap / qb_sys_circular_mmap (fresh mappings of the requested length, mapped twice) / qb_rb_sem_create / close / unlink / munmap / snprintf / strlcpy"],
 "drops": ["qb_util_log/qb_util_perror diagnostics compiled out (stubs/nolog.h)"],
 "expect_classes": ["assertion"], "timeout": 300, "sat_solver": "minisat2", "cbmc_flags": ["--no-malloc-may-fail"]}
*/
/* qb_rb_open_2(name, S, CREATE...): the capacity in bytes is S + 13 rounded up to the page size, so
 * S + 13 <= 4 * word_size ("size" means the largest single write); both positions start at 0 and the
 * first slot does not look published: the created ring satisfies the invariant every other unit assumes. */
#include "os_stubs.h"
#include "common.h"

static int32_t verif_destroy_fn(void *inst) { return 0; }
int32_t (*verif_keep_destroy_fn)(void *) = verif_destroy_fn;   /* address taken so the pin target exists */

void harness(void)
{
	VERIF_ND(size_t, nd_S);
	VERIF_ND(size_t, nd_user);
	VERIF_ND(uint32_t, nd_flags);
	ASSUME(nd_S <= (1u << 17) && nd_user <= 64);   /* range: sizes up to 128 KiB around every page multiple */
	ASSUME(nd_flags & QB_RB_FLAG_CREATE);
	verif_open_files = 0;

	struct qb_ringbuffer_s *rb = qb_rb_open_2("x", nd_S, nd_flags, nd_user, NULL);

	if (rb != NULL) {
		uint32_t ws = rb->shared_hdr->word_size;
		COVER(nd_S + 13 == 4096); COVER(nd_S + 13 == 4097); COVER(nd_S == 0);
		POST((size_t)ws * 4 == verif_data_bytes, "capacity words = mapped bytes / 4");
		POST((size_t)ws * 4 >= nd_S + 13, "capacity covers the requested size plus margin plus the gap word: an empty ring accepts a chunk of the requested size");
		POST((size_t)ws * 4 < nd_S + 13 + 65536 && ((size_t)ws * 4) % 4096 == 0, "capacity is the requested size rounded up to the page size, no more");
		POST(rb->shared_hdr->read_pt == 0 && rb->shared_hdr->write_pt == 0, "a new ring is empty");
		POST(rb->shared_data[0] == 0 && rb->shared_data[1] != MAGIC, "the first slot of a new ring does not look published");
		POST(rb->flags == nd_flags, "flags recorded");
		POST(verif_open_files == 0, "no descriptor left open after a successful open");
	} else {
		COVER(1);
		POST(verif_open_files == 0, "no descriptor left open after a failed open");
	}
}
