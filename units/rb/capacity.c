/*UNIT
{"props": ["C07"], "src": ["lib/ringbuffer.c"], "spec": ["ringbuffer.spec"], "tags": ["nooverwrite"], "mode": "plain",
 "kind": "proved", "functions": ["qb_rb_chunk_alloc", "qb_rb_space_free (inlined)"],
 "restrict_fp": ["qb_rb_space_free.function_pointer_call.1/verif_q_len_fn", "qb_rb_space_free.function_pointer_call.2/verif_q_len_fn",
                 "_rb_chunk_reclaim.function_pointer_call.1/verif_reclaim_fn"],
 "drops": ["qb_util_log/qb_util_perror diagnostics compiled out (stubs/nolog.h)"],
 "expect_classes": ["assertion"], "timeout": 300}
*/
/* Capacity contract on the real qb_rb_chunk_alloc.  Ghost quantities: S = the size the ring was created
 * for, with S + 13 <= 4 * word_size (what qb_rb_open_2 establishes, unit rb.open); U = used words;
 * sum16 = sum over the unread chunks of (length + 16).  Hypothesis 4 * U <= sum16 is the sum of the
 * per-chunk lemma 4 * footprint(len) <= len + 16 (asserted below).  Then:
 *   (a) unread chunks plus the new one, each counted with 16 bytes, fit in S  =>  the write is accepted;
 *   (b) the ring is empty and len <= S                                          =>  the write is accepted. */
#include "common.h"

void harness(void)
{
	struct qb_ringbuffer_s *rb = verif_build_rb(0, 0);
	VERIF_ND(size_t, nd_S);
	VERIF_ND(uint64_t, nd_sum16);
	VERIF_ND(size_t, nd_len);
	VERIF_ND(uint32_t, nd_anylen);
	uint32_t ws = rb->shared_hdr->word_size, r = rb->shared_hdr->read_pt, w = rb->shared_hdr->write_pt;
	uint32_t U = spec_used_words(ws, r, w);
	ASSUME(nd_S <= (size_t)4 * VERIF_WS_MAX && nd_S + 13 <= (size_t)4 * ws);
	ASSUME(nd_len <= nd_S);
	ASSUME(nd_sum16 <= (uint64_t)8 * VERIF_WS_MAX && (uint64_t)4 * U <= nd_sum16);
	ASSUME(U == 0 ? 1 : nd_sum16 + nd_len + 16 <= nd_S);

	/* per-chunk lemma, all 32-bit lengths */
	ASSUME(nd_anylen <= 0x7fffffffu);
	POST((uint64_t)4 * spec_chunk_words(nd_anylen) <= (uint64_t)nd_anylen + 16, "a chunk occupies at most its length plus 16 bytes of the ring");

	void *p = qb_rb_chunk_alloc(rb, nd_len);

	COVER(U == 0 && nd_len == nd_S);
	COVER(U > 0 && nd_sum16 + nd_len + 16 == nd_S);
	POST(p != NULL, "a chunk is never refused while the unread chunks plus the new one (16 bytes overhead each) fit in the requested size; an empty ring accepts any chunk up to that size");
}
