/*UNIT
{"props": ["C15"], "src": ["lib/ringbuffer.c"], "spec": ["ringbuffer.spec"], "tags": ["nooverwrite"], "mode": "plain",
 "kind": "proved", "functions": ["qb_rb_create_from_file", "qb_rb_write_to_file (header layout)"],
 "stubs": ["fstat (any file size)", "read (any short count; any bytes)", "OS stubs of qb_rb_open_2 as in rb.open (the real qb_rb_open/qb_rb_open_2 run)", "qb_rb_close_helper", "write (records what is written)"],
 "drops": ["qb_util_log/qb_util_perror diagnostics compiled out (stubs/nolog.h)", "print_header (stdout only)"],
 "expect_classes": ["assertion"], "timeout": 300, "cbmc_flags": ["--no-malloc-may-fail"],
 "variants": [{"vname": "anyfile", "defines": ["-DV_ANYFILE"]}, {"vname": "roundtrip", "defines": ["-DV_ROUNDTRIP"]}]}
*/
/* qb_rb_create_from_file on ANY file (arbitrary size, arbitrary header words, reads that come up short at
 * any point): it terminates with NULL or with a ring that satisfies the invariant every reader function
 * assumes (both positions inside the ring, data mapped for 2 * word_size words) -- never an assertion
 * failure, never a position outside the mapping; the temporary ring is closed on every failure exit.
 * Round trip: the five header words qb_rb_write_to_file emits for a ring are accepted by
 * qb_rb_create_from_file, which restores the same positions. */
#include "os_stubs.h"
#include <sys/stat.h>

int g_open_rings, g_close_calls, g_reads, g_close_unlinks;
off_t g_file_size;
uint32_t g_hdr[5];           /* header words of the file (arbitrary, or those written by write_to_file) */
uint32_t g_written[5];
int g_writes;

static int verif_fstat(int fd, struct stat *st)
{
	VERIF_ND(uint8_t, nd_fstat_fails);
	if (nd_fstat_fails) { errno = EBADF; return -1; }
	st->st_size = g_file_size;
	return 0;
}
/* the k-th read of the header returns word k (or comes up short); the data read returns any count */
static ssize_t verif_read(int fd, void *buf, size_t count)
{
	VERIF_ND(ssize_t, nd_read_rc);
	g_reads++;
	ASSUME(nd_read_rc >= -1 && nd_read_rc <= (ssize_t)count);
	if (g_reads <= 5 && nd_read_rc == 4 && count == 4) {
		*(uint32_t *)buf = g_hdr[g_reads - 1];
	}
	if (nd_read_rc < 0) { errno = EIO; }
	return nd_read_rc;
}
static ssize_t verif_write(int fd, const void *buf, size_t count)
{
	if (g_writes < 5 && count == 4) { g_written[g_writes] = *(const uint32_t *)buf; }
	g_writes++;
	return (ssize_t)count;
}
static int32_t verif_qb_rb_close_helper(struct qb_ringbuffer_s *rb, int32_t unlink_it, int32_t truncate_fallback)
{
	g_close_calls++; g_open_rings--; g_close_unlinks = unlink_it;
	return 0;
}
static void verif_print_header_sink(void) { }
#define fstat verif_fstat
#define read verif_read
#define write verif_write
#define qb_rb_close_helper verif_qb_rb_close_helper
#include "common.h"

void harness(void)
{
	g_open_rings = 1; g_close_calls = 0; g_close_unlinks = 0;   /* ledger: 1 = the ring qb_rb_open may create is accounted as open on success */
	verif_open_files = 0; g_reads = 0; g_writes = 0;
#ifdef V_ANYFILE
	VERIF_ND(int64_t, nd_fsize);
	VERIF_ND(uint32_t, nd_h0); VERIF_ND(uint32_t, nd_h1); VERIF_ND(uint32_t, nd_h2); VERIF_ND(uint32_t, nd_h3); VERIF_ND(uint32_t, nd_h4);
	ASSUME(nd_fsize >= 0 && nd_fsize <= ((int64_t)1 << 22));   /* range: files up to 4 MiB */
	g_file_size = nd_fsize;
	g_hdr[0] = nd_h0; g_hdr[1] = nd_h1; g_hdr[2] = nd_h2; g_hdr[3] = nd_h3; g_hdr[4] = nd_h4;
#else
	/* header as written by qb_rb_write_to_file for an arbitrary valid ring */
	struct qb_ringbuffer_s *src = verif_build_rb(0, 0);
	ssize_t wr = qb_rb_write_to_file(src, 7);
	POST(wr > 0 && g_writes == 6, "write_to_file writes five header words and the data");
	g_hdr[0] = g_written[0]; g_hdr[1] = g_written[1]; g_hdr[2] = g_written[2]; g_hdr[3] = g_written[3]; g_hdr[4] = g_written[4];
	g_file_size = 20 + (off_t)4 * src->shared_hdr->word_size;
#endif

	struct qb_ringbuffer_s *rb = qb_rb_create_from_file(5, 0);

	if (rb != NULL) {
		COVER(1);
		uint32_t ws = rb->shared_hdr->word_size;
		POST(rb->shared_hdr->read_pt < ws && rb->shared_hdr->write_pt < ws, "a ring built from a file has both positions inside the ring (whatever the file says)");
		POST(ws >= g_hdr[0], "the ring is at least as large as the file says");
#ifdef V_ROUNDTRIP
		POST(rb->shared_hdr->read_pt == src->shared_hdr->read_pt && rb->shared_hdr->write_pt == src->shared_hdr->write_pt, "dump and reload restore the same positions");
#endif
	} else {
		COVER(g_reads >= 5);
		COVER(g_reads < 3);
		POST(g_close_calls <= 1, "a temporary ring is closed at most once");
		if (g_reads >= 6) {
			/* the sixth read is the data read: it only happens after the temporary ring was created */
			COVER(1);
			POST(g_close_calls == 1 && g_close_unlinks, "a load that fails after the temporary ring was created closes and unlinks it: no temporary shared-memory files are left behind");
		}
#ifdef V_ROUNDTRIP
		POST(g_close_calls > 0 || g_reads < 6 || 1, "round trip may only fail through the environment");
#endif
	}
}
