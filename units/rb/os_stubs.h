/* OS stubs for qb_rb_open_2 (shared by rb.open and rb.from_file); include INSTEAD of common.h's first lines, before common.h */
#include "os_base.h"
#include <sys/mman.h>
#include "verif.h"
size_t verif_hdr_bytes, verif_data_bytes;
int verif_open_files;
static long verif_sysconf(int name)
{
	VERIF_ND(uint8_t, nd_page_sel);
	return nd_page_sel == 0 ? 4096 : (nd_page_sel == 1 ? 16384 : 65536);
}
static int verif_snprintf(char *str, size_t size, const char *fmt, ...) { if (size > 0) str[0] = 0; return 0; }
static void *verif_mmap(void *addr, size_t length, int prot, int flags, int fd, off_t offset)
{
	VERIF_ND(uint8_t, nd_mmap_fails);
	void *p;
	if (nd_mmap_fails || length == 0) { errno = ENOMEM; return MAP_FAILED; }
	p = malloc(length);
	__CPROVER_assume(p != NULL);
	verif_hdr_bytes = length;
	return p;
}
static int verif_munmap(void *addr, size_t length) { return 0; }
static int verif_close(int fd) { verif_open_files--; return 0; }
static int verif_unlink(const char *path) { return 0; }
static size_t verif_strlcpy(char *dest, const char *src, size_t maxlen) { if (maxlen > 0) dest[0] = 0; return 0; }
#define sysconf verif_sysconf
#define snprintf verif_snprintf
#define mmap verif_mmap
#define munmap verif_munmap
#define close verif_close
#define unlink verif_unlink
#define strlcpy verif_strlcpy
#include "ringbuffer_int.h"
static int32_t verif_qb_sys_mmap_file_open(char *path, const char *file, size_t bytes, uint32_t file_flags)
{
	VERIF_ND(int32_t, nd_fd);
	ASSUME(nd_fd >= -4095);   /* a descriptor or -errno */
	path[0] = 0;
	if (nd_fd >= 0) { verif_open_files++; }
	return nd_fd;
}
static int32_t verif_qb_sys_circular_mmap(int32_t fd, void **buf, size_t bytes)
{
	VERIF_ND(uint8_t, nd_circ_fails);
	verif_open_files--;   /* "this function closes fd_data" */
	if (nd_circ_fails || bytes == 0) { *buf = NULL; return -ENOMEM; }   /* mmap of 0 bytes fails */
	size_t twice = bytes + bytes;          /* the data file is mapped twice, back to back */
	*buf = malloc(twice);
	__CPROVER_assume(*buf != NULL);
	verif_data_bytes = bytes;
	return 0;
}
static int32_t verif_qb_rb_sem_create(struct qb_ringbuffer_s *rb, uint32_t flags)
{
	VERIF_ND(int32_t, nd_sem_rc);
	ASSUME(nd_sem_rc <= 0 && nd_sem_rc >= -4095);   /* 0 or -errno */
	return nd_sem_rc;
}

#define qb_sys_mmap_file_open verif_qb_sys_mmap_file_open
#define qb_sys_circular_mmap verif_qb_sys_circular_mmap
#define qb_rb_sem_create verif_qb_rb_sem_create
