/*UNIT
{
 "props": [
  "C07",
  "C01"
 ],
 "src": [
  "lib/ringbuffer.c"
 ],
 "spec": [
  "ringbuffer.spec"
 ],
 "tags": [
  "nooverwrite"
 ],
 "mode": "plain",
 "kind": "proved",
 "functions": [
  "qb_rb_chunk_alloc"
 ],
 "restrict_fp": [],
 "drops": [
  "qb_util_log/qb_util_perror diagnostics compiled out (stubs/nolog.h)"
 ],
 "expect_classes": [
  "assertion"
 ],
 "timeout": 300,
 "note": "plain mode (pre/postconditions asserted around the real function, callees inlined): --dfcc needs >200 s per unit on the ring code"
}
*/
/* qb_rb_chunk_alloc, non-overwrite ring, every word_size / positions / length:
 *  - whatever is accepted fits (footprint plus gap word inside the free region);
 *  - a refusal reports EAGAIN and changes nothing in the ring (frame: only errno);
 *  - on success only the two header words at write_pt are written, the returned payload area starts
 *    two words after write_pt, lies inside the mapping and inside the writer-owned free region
 *    (it ends before the gap word in front of read_pt): a successful write never damages an unread chunk. */
#include "common.h"

void harness(void)
{
	struct qb_ringbuffer_s *rb = verif_build_rb(0, 0);
	VERIF_ND(size_t, nd_len);
	VERIF_ND(uint32_t, nd_wit);
	VERIF_ND(uint32_t, nd_witval);
	uint32_t ws = rb->shared_hdr->word_size, r = rb->shared_hdr->read_pt, w = rb->shared_hdr->write_pt;
	ASSUME(nd_len <= (size_t)4 * VERIF_WS_MAX);
	/* frame witness: an arbitrary data word */
	ASSUME(nd_wit < 2 * ws);
	rb->shared_data[nd_wit] = nd_witval;
	uint64_t freeb = spec_space_free_bytes(ws, r, w);
	errno = 0;

	char *p = qb_rb_chunk_alloc(rb, nd_len);

	/* acceptance is decided against the property in rb.capacity (never refused while the chunks fit);
	 * here: whatever is accepted is safe, whatever is refused changes nothing */
	POST(rb->shared_hdr->read_pt == r && rb->shared_hdr->write_pt == w, "alloc moves neither position");
	if (p == NULL) {
		COVER(freeb < nd_len + 12);
		POST(freeb < nd_len + 16, "a refusal happens only when the chunk plus 16 bytes does not fit the free space");
		POST(errno == EAGAIN, "refused write reports 'try again'");
		POST(rb->shared_data[nd_wit] == nd_witval, "refused write changes no data word");
	} else {
		COVER(w + 2 >= ws);
		COVER(nd_len == 0);
		COVER(nd_len % 4 != 0);
		COVER(freeb == nd_len + 12);
		POST(p == (char *)&rb->shared_data[wrap(ws, w + 2)], "payload area starts two words after write_pt");
		POST(rb->shared_data[w] == 0 && rb->shared_data[wrap(ws, w + 1)] == MAGIC_ALLOC, "chunk header marked allocated, not published");
		POST(nd_len == 0 || __CPROVER_rw_ok(p, nd_len), "payload area lies inside the mapping");
		/* the chunk's words [w, w + 2 + ceil(len/4)) stay within the writer-owned free region of
		 * freeb/4 words starting at w: they end before the gap word preceding read_pt */
		POST((uint64_t)spec_chunk_words((uint32_t)nd_len) + 1 <= freeb / 4, "chunk footprint plus the gap word fits the free region: no unread chunk is overwritten");
		if (nd_wit != w && nd_wit != wrap(ws, w + 1)) {
			POST(rb->shared_data[nd_wit] == nd_witval, "alloc writes only the two header words");
		}
	}
}
