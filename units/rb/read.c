/*UNIT
{
 "props": [
  "C07",
  "C01",
  "C15"
 ],
 "src": [
  "lib/ringbuffer.c"
 ],
 "spec": [
  "ringbuffer.spec"
 ],
 "tags": [
  "nooverwrite"
 ],
 "mode": "plain",
 "kind": "proved",
 "functions": [
  "qb_rb_chunk_read",
  "_rb_chunk_reclaim (inlined)",
  "qb_rb_chunk_step (inlined)"
 ],
 "restrict_fp": [
  "qb_rb_chunk_read.function_pointer_call.1/verif_timedwait_fn",
  "qb_rb_chunk_read.function_pointer_call.2/verif_post_fn",
  "qb_rb_chunk_read.function_pointer_call.3/verif_post_fn",
  "_rb_chunk_reclaim.function_pointer_call.1/verif_reclaim_fn"
 ],
 "stubs": [
  "memcpy (witness form: bounds asserted, one arbitrary byte copied)"
 ],
 "drops": [
  "qb_util_log/qb_util_perror diagnostics compiled out (stubs/nolog.h)"
 ],
 "expect_classes": [
  "assertion"
 ],
 "timeout": 300,
 "variants": [
  {
   "vname": "chain",
   "defines": [
    "-DV_CHAIN"
   ]
  },
  {
   "vname": "anydata",
   "defines": [
    "-DV_ANYDATA"
   ]
  }
 ]
}
*/
/* qb_rb_chunk_read(buf, len) with no notifier, arbitrary ring contents at read_pt:
 *  - nothing published at read_pt (empty ring, allocated-not-committed, consumed) -> -ETIMEDOUT, nothing changes;
 *  - buffer smaller than the chunk -> -ENOBUFS and the chunk stays in place (positions and header unchanged);
 *  - otherwise exactly size(r) bytes are copied from the chunk's payload address (inside the mapping, for
 *    every size the header can hold up to the capacity), into the caller's buffer only, the chunk is
 *    consumed (header dead, read_pt advanced by its footprint) and its length returned. */
#include "common.h"

void harness(void)
{
	struct qb_ringbuffer_s *rb = verif_build_rb(0, 0);
	VERIF_ND(uint32_t, nd_size);
	VERIF_ND(uint32_t, nd_magic);
	VERIF_ND(size_t, nd_buflen);
	VERIF_ND(size_t, nd_off);
	VERIF_ND(uint8_t, nd_byte);
	VERIF_ND(int32_t, nd_timeout);
	uint32_t ws = rb->shared_hdr->word_size, r = rb->shared_hdr->read_pt, w = rb->shared_hdr->write_pt;
	ASSUME(nd_buflen <= (size_t)4 * VERIF_WS_MAX);
	char *buf = malloc(nd_buflen);
	ASSUME(buf != NULL);
	rb->shared_data[r] = nd_size;
	rb->shared_data[wrap(ws, r + 1)] = nd_magic;
#ifdef V_CHAIN
	/* chunk validity (instance of the chain invariant at read_pt): a published chunk fits the ring */
	ASSUME(nd_magic != MAGIC || nd_size <= 4 * ws - 12);
#else
	/* C15: ring contents come from an arbitrary file: NO validity assumption on the header words; the
	 * ring is at least one page (1024 words) and the caller's buffer at most 4096 bytes (the blackbox
	 * printer uses 1024): every size the header can claim is either refused or copied from inside the mapping */
	ASSUME(ws >= 1024 && nd_buflen <= 4096);
#endif
	/* witness payload byte */
	char *payload = (char *)&rb->shared_data[wrap(ws, r + 2)];
#ifdef V_CHAIN
	if (nd_magic == MAGIC && nd_off < nd_size) {
		payload[nd_off] = (char)nd_byte;
	}
#endif
	verif_memcpy_wit = nd_off;

	ssize_t rc = qb_rb_chunk_read(rb, buf, nd_buflen, nd_timeout);

	if (nd_magic != MAGIC) {
		COVER(nd_magic == MAGIC_ALLOC); COVER(r == w);
		POST(rc == -ETIMEDOUT, "read finds no chunk unless one is published at read_pt");
		POST(rb->shared_hdr->read_pt == r && rb->shared_data[r] == nd_size && rb->shared_data[wrap(ws, r + 1)] == nd_magic, "empty read changes nothing");
		POST(verif_memcpy_calls == 0, "empty read copies nothing");
	} else if (nd_buflen < nd_size) {
		COVER(1);
		POST(rc == -ENOBUFS, "read into a too-small buffer reports the problem");
		POST(rb->shared_hdr->read_pt == r && rb->shared_data[r] == nd_size && rb->shared_data[wrap(ws, r + 1)] == MAGIC, "too-small buffer leaves the chunk in place");
		POST(verif_memcpy_calls == 0, "too-small buffer: nothing copied");
	} else {
		COVER(nd_size == 0); COVER(nd_size % 4 != 0); COVER((uint64_t)r + spec_chunk_words(nd_size) >= ws); COVER(nd_buflen == nd_size);
#ifdef V_CHAIN
		POST(rc == (ssize_t)nd_size, "read returns the committed length");
		if (nd_off < nd_size) {
			POST(buf[nd_off] == (char)nd_byte, "read returns the chunk's bytes (witness byte)");
		}
		POST(rb->shared_hdr->read_pt == spec_step(ws, r, nd_size), "read consumes exactly one chunk");
		POST(rb->shared_data[r] == 0 && rb->shared_data[wrap(ws, r + 1)] == MAGIC_DEAD, "a consumed chunk cannot be read again");
#else
		POST(rc >= 0 && (size_t)rc <= nd_buflen, "whatever the file's chunk header claims, read returns at most the caller's buffer length");
		POST(rb->shared_hdr->read_pt < ws, "read_pt stays inside the ring for any chunk header");
#endif
	}
	POST(rb->shared_hdr->write_pt == w, "read never moves write_pt");
}
