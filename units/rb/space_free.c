/*UNIT
{"props": ["C07", "C01"], "src": ["lib/ringbuffer.c"], "spec": ["ringbuffer.spec"], "tags": ["nooverwrite"], "mode": "dfcc",
 "enforce": ["qb_rb_space_free"], "kind": "proved", "functions": ["qb_rb_space_free"],
 "restrict_fp": ["qb_rb_space_free.function_pointer_call.1/verif_q_len_fn", "qb_rb_space_free.function_pointer_call.2/verif_q_len_fn"],
 "drops": ["qb_util_log/qb_util_perror diagnostics compiled out (stubs/nolog.h)"],
 "expect_classes": ["postcondition"], "timeout": 200}
*/
/* qb_rb_space_free == 4 * (U == 0 ? word_size : word_size - U - 1) for every word_size and every pair
 * of positions (U = used words); reads only. */
#include "common.h"

void harness(void)
{
	struct qb_ringbuffer_s *rb = verif_build_rb(0, 0);
	uint32_t ws = rb->shared_hdr->word_size, r = rb->shared_hdr->read_pt, w = rb->shared_hdr->write_pt;
	ssize_t f = qb_rb_space_free(rb);
	COVER(w > r); COVER(w < r); COVER(w == r);
	POST(f == (ssize_t)spec_space_free_bytes(ws, r, w), "free space = capacity minus used words minus the gap word");
	POST(rb->shared_hdr->read_pt == r && rb->shared_hdr->write_pt == w, "space_free changes nothing");
}
