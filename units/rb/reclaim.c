/*UNIT
{
 "props": [
  "C07",
  "C01",
  "C11"
 ],
 "src": [
  "lib/ringbuffer.c"
 ],
 "spec": [
  "ringbuffer.spec"
 ],
 "tags": [
  "nooverwrite"
 ],
 "mode": "plain",
 "kind": "proved",
 "functions": [
  "_rb_chunk_reclaim",
  "qb_rb_chunk_reclaim"
 ],
 "restrict_fp": [
  "_rb_chunk_reclaim.function_pointer_call.1/verif_reclaim_fn"
 ],
 "drops": [
  "qb_util_log/qb_util_perror diagnostics compiled out (stubs/nolog.h)"
 ],
 "expect_classes": [
  "assertion"
 ],
 "timeout": 300,
 "note": "plain mode (pre/postconditions asserted around the real function, callees inlined): --dfcc needs >200 s per unit on the ring code"
}
*/
/* _rb_chunk_reclaim: consumes exactly the chunk at read_pt if (and only if) it is published: header
 * cleared (length 0, magic DEAD), read_pt advanced by the chunk's footprint, nothing else written;
 * an unpublished / empty slot is left alone with -EINVAL (reclaim on an empty ring is a no-op). */
#include "common.h"

void harness(void)
{
	struct qb_ringbuffer_s *rb = verif_build_rb(0, 0);
	VERIF_ND(uint32_t, nd_size);
	VERIF_ND(uint32_t, nd_magic);
	VERIF_ND(uint32_t, nd_wit);
	VERIF_ND(uint32_t, nd_witval);
	uint32_t ws = rb->shared_hdr->word_size, r = rb->shared_hdr->read_pt, w = rb->shared_hdr->write_pt;
	ASSUME(nd_wit < ws);
	rb->shared_data[nd_wit] = nd_witval;
	rb->shared_data[r] = nd_size;
	rb->shared_data[wrap(ws, r + 1)] = nd_magic;
	/* chunk validity (an instance of the chain invariant): a published chunk's size fits the ring */
	ASSUME(nd_magic != MAGIC || nd_size <= 4 * ws - 12);
	uint32_t witval0 = rb->shared_data[nd_wit];

	int rc = _rb_chunk_reclaim(rb);

	if (nd_magic != MAGIC) {
		COVER(nd_magic == MAGIC_ALLOC); COVER(nd_magic == MAGIC_DEAD);
		POST(rc == -EINVAL, "reclaim of an unpublished slot is refused");
		POST(rb->shared_hdr->read_pt == r, "refused reclaim does not move read_pt");
		POST(rb->shared_data[nd_wit] == witval0, "refused reclaim changes no data word");
	} else {
		COVER(nd_size % 4 != 0); COVER((uint64_t)r + spec_chunk_words(nd_size) >= ws);
		POST(rc == 0, "reclaim of a published chunk succeeds");
		POST(rb->shared_hdr->read_pt == spec_step(ws, r, nd_size), "read_pt advances by the consumed chunk's footprint");
		POST(rb->shared_data[r] == 0 && rb->shared_data[wrap(ws, r + 1)] == MAGIC_DEAD, "consumed header is dead (cannot be read twice)");
		if (nd_wit != r && nd_wit != wrap(ws, r + 1)) {
			POST(rb->shared_data[nd_wit] == witval0, "reclaim writes only the consumed chunk's header");
		}
	}
	POST(rb->shared_hdr->write_pt == w, "reclaim never moves write_pt");
}
