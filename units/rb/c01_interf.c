/*UNIT
{"props": ["C01"], "src": ["lib/ringbuffer.c"], "spec": ["ringbuffer.spec"], "tags": ["c01interf"], "mode": "plain",
 "kind": "proved", "functions": ["qb_rb_chunk_read (under writer interference)", "qb_rb_chunk_alloc (under reader interference)"],
 "restrict_fp": ["qb_rb_chunk_read.function_pointer_call.1/verif_timedwait_fn", "qb_rb_chunk_read.function_pointer_call.2/verif_post_fn",
                 "qb_rb_chunk_read.function_pointer_call.3/verif_post_fn", "_rb_chunk_reclaim.function_pointer_call.1/verif_reclaim_fn",
                 "qb_rb_space_free.function_pointer_call.1/verif_q_len_fn", "qb_rb_space_free.function_pointer_call.2/verif_q_len_fn"],
 "stubs": ["memcpy (witness form)"],
 "drops": ["qb_util_log/qb_util_perror diagnostics compiled out (stubs/nolog.h)"],
 "expect_classes": ["assertion"], "timeout": 600,
 "variants": [{"vname": "read", "defines": ["-DV_READ"]}, {"vname": "alloc", "defines": ["-DV_ALLOC"]}]}
*/
/* C01, correctness of each party under interference by the other (rely/guarantee, SC assumed).
 * Between the statements of the function under test the other party takes any number of steps its
 * guarantee allows (proved per store in rb.c01_order and by the frame facts of the C07 units):
 *  writer steps (seen by the reader): write_pt advances inside the free region; any word of the free
 *      region / gap word changes; published, unread chunks (header and payload) are never touched;
 *  reader steps (seen by the writer): read_pt advances towards write_pt; words of consumed chunks change.
 * Then: read still returns exactly the published chunk at read_pt (length and witness byte) or nothing;
 * alloc still hands out an area inside the region that is free NOW (stale read_pt is conservative). */
#include "os_base.h"
#include "verif.h"
struct qb_ringbuffer_s;
static void verif_writer_interferes(struct qb_ringbuffer_s *rb);
static void verif_reader_interferes(struct qb_ringbuffer_s *rb);
#include "common.h"

uint32_t g_chunk_words;   /* footprint of the published chunk at read_pt (0 if none) */

static void verif_writer_interferes(struct qb_ringbuffer_s *rb)
{
	uint32_t ws = rb->shared_hdr->word_size, r = rb->shared_hdr->read_pt, w = rb->shared_hdr->write_pt;
	VERIF_ND(uint32_t, nd_wi_w);
	VERIF_ND(uint32_t, nd_wi_idx);
	VERIF_ND(uint32_t, nd_wi_val);
	uint32_t U = spec_used_words(ws, r, w);
	/* write_pt moves forward but never reaches read_pt (gap word) */
	ASSUME(nd_wi_w < ws && spec_used_words(ws, r, nd_wi_w) >= U && spec_used_words(ws, r, nd_wi_w) <= ws - 1);
	/* any word outside the published region [r, w) may change (free region, gap word) */
	ASSUME(nd_wi_idx < ws && spec_used_words(ws, r, nd_wi_idx) >= U);
	rb->shared_data[nd_wi_idx] = nd_wi_val;
	rb->shared_hdr->write_pt = nd_wi_w;
}

static void verif_reader_interferes(struct qb_ringbuffer_s *rb)
{
	uint32_t ws = rb->shared_hdr->word_size, r = rb->shared_hdr->read_pt, w = rb->shared_hdr->write_pt;
	VERIF_ND(uint32_t, nd_ri_r);
	VERIF_ND(uint32_t, nd_ri_idx);
	VERIF_ND(uint32_t, nd_ri_val);
	uint32_t U = spec_used_words(ws, r, w);
	/* read_pt moves forward, at most up to write_pt */
	ASSUME(nd_ri_r < ws && spec_used_words(ws, nd_ri_r, w) <= U);
	/* header words of chunks consumed meanwhile change: any word in [r, r_new) */
	ASSUME(nd_ri_idx < ws && spec_used_words(ws, r, nd_ri_idx) < U - spec_used_words(ws, nd_ri_r, w));
	if (U - spec_used_words(ws, nd_ri_r, w) > 0) {
		rb->shared_data[nd_ri_idx] = nd_ri_val;
	}
	rb->shared_hdr->read_pt = nd_ri_r;
}

void harness(void)
{
	struct qb_ringbuffer_s *rb = verif_build_rb(0, 0);
	uint32_t ws = rb->shared_hdr->word_size, r = rb->shared_hdr->read_pt, w = rb->shared_hdr->write_pt;
	uint32_t U = spec_used_words(ws, r, w);
#ifdef V_READ
	VERIF_ND(uint32_t, nd_size);
	VERIF_ND(uint32_t, nd_magic);
	VERIF_ND(size_t, nd_buflen);
	VERIF_ND(size_t, nd_off);
	VERIF_ND(uint8_t, nd_byte);
	ASSUME(nd_buflen <= (size_t)4 * VERIF_WS_MAX);
	char *buf = malloc(nd_buflen);
	ASSUME(buf != NULL);
	/* either a published chunk lies at read_pt inside the used region, or the slot is not published
	 * (empty ring / chunk being written: the slot then belongs to the writer and may change) */
	if (nd_magic == MAGIC) {
		ASSUME(nd_size <= 4 * ws - 12 && spec_chunk_words(nd_size) <= U);
		rb->shared_data[r] = nd_size;
		rb->shared_data[wrap(ws, r + 1)] = MAGIC;
		if (nd_off < nd_size) {
			((char *)&rb->shared_data[wrap(ws, r + 2)])[nd_off] = (char)nd_byte;
		}
	} else {
		ASSUME(U == 0);
		rb->shared_data[wrap(ws, r + 1)] = nd_magic;
	}
	verif_memcpy_wit = nd_off;

	ssize_t rc = qb_rb_chunk_read(rb, buf, nd_buflen, 0);

	if (nd_magic == MAGIC && nd_buflen >= nd_size) {
		COVER(rb->shared_hdr->write_pt != w);
		POST(rc == (ssize_t)nd_size, "reader gets the committed length although the writer keeps writing");
		if (nd_off < nd_size) {
			POST(buf[nd_off] == (char)nd_byte, "reader gets the committed bytes although the writer keeps writing");
		}
		POST(rb->shared_hdr->read_pt == spec_step(ws, r, nd_size), "exactly one chunk consumed");
	} else if (nd_magic != MAGIC) {
		COVER(1);
		POST(rc < 0, "nothing is returned unless a chunk was published at read_pt when the reader looked");
	}
#else
	VERIF_ND(size_t, nd_len);
	ASSUME(nd_len <= (size_t)4 * VERIF_WS_MAX);
	char *p = qb_rb_chunk_alloc(rb, nd_len);
	uint32_t r2 = rb->shared_hdr->read_pt;
	if (p != NULL) {
		COVER(r2 != r);
		uint64_t free_now = spec_space_free_bytes(ws, r2, w);
		POST(rb->shared_hdr->write_pt == w, "alloc does not move write_pt");
		POST((uint64_t)4 * spec_chunk_words((uint32_t)nd_len) + 4 <= free_now, "the chunk handed out fits the region that is free now: no unread chunk is damaged");
		POST(p == (char *)&rb->shared_data[wrap(ws, w + 2)], "payload area starts two words after write_pt");
	} else {
		COVER(1);
	}
#endif
}
