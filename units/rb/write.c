/*UNIT
{"props": ["C07", "C01"], "src": ["lib/ringbuffer.c"], "spec": ["ringbuffer.spec"], "tags": ["nooverwrite"], "mode": "plain",
 "kind": "proved", "functions": ["qb_rb_chunk_write", "qb_rb_chunk_alloc (inlined)", "qb_rb_chunk_commit (inlined)"],
 "restrict_fp": ["qb_rb_chunk_commit.function_pointer_call.1/verif_post_fn", "qb_rb_space_free.function_pointer_call.1/verif_q_len_fn",
                 "qb_rb_space_free.function_pointer_call.2/verif_q_len_fn", "_rb_chunk_reclaim.function_pointer_call.1/verif_reclaim_fn"],
 "stubs": ["memcpy (witness form: bounds asserted, one arbitrary byte copied)"],
 "drops": ["qb_util_log/qb_util_perror diagnostics compiled out (stubs/nolog.h)"],
 "expect_classes": ["assertion"], "timeout": 700}
*/
/* qb_rb_chunk_write(data, len), non-overwrite ring: returns len and publishes a chunk of exactly that
 * length holding the caller's bytes (witness byte) at write_pt, or returns -EAGAIN and changes nothing;
 * never refused while it fits with 16 bytes of overhead; never accepted unless footprint + gap word fit. */
#include "common.h"

void harness(void)
{
	struct qb_ringbuffer_s *rb = verif_build_rb(0, 0);
	VERIF_ND(size_t, nd_len);
	VERIF_ND(size_t, nd_off);
	VERIF_ND(uint8_t, nd_byte);
	VERIF_ND(uint32_t, nd_wit);
	VERIF_ND(uint32_t, nd_witval);
	uint32_t ws = rb->shared_hdr->word_size, r = rb->shared_hdr->read_pt, w = rb->shared_hdr->write_pt;
	ASSUME(nd_len <= (size_t)4 * VERIF_WS_MAX);
	char *src = malloc(nd_len);
	ASSUME(src != NULL);
	if (nd_off < nd_len) {
		src[nd_off] = (char)nd_byte;
	}
	verif_memcpy_wit = nd_off;
	ASSUME(nd_wit < ws);
	rb->shared_data[nd_wit] = nd_witval;
	uint64_t freeb = spec_space_free_bytes(ws, r, w);

	ssize_t rc = qb_rb_chunk_write(rb, src, nd_len);

	POST(rc >= 0 || freeb < nd_len + 16, "a chunk is refused only when it does not fit the free space with 16 bytes of overhead");
	POST(rc < 0 || (uint64_t)4 * spec_chunk_words((uint32_t)nd_len) + 4 <= freeb, "an accepted chunk fits the free region together with the gap word");
	if (rc < 0) {
		COVER(1);
		POST(rc == -EAGAIN, "refused write reports 'try again'");
		POST(rb->shared_hdr->write_pt == w && rb->shared_hdr->read_pt == r && rb->shared_data[nd_wit] == nd_witval, "refused write changes nothing");
	} else {
		COVER(nd_len == 0); COVER(nd_len % 4 != 0); COVER(w + 2 >= ws); COVER((uint64_t)w + spec_chunk_words((uint32_t)nd_len) >= ws);
		POST(rc == (ssize_t)nd_len, "successful write reports the length");
		POST(rb->shared_data[w] == (uint32_t)nd_len && rb->shared_data[wrap(ws, w + 1)] == MAGIC, "written chunk is published with its length");
		if (nd_off < nd_len) {
			POST(((char *)&rb->shared_data[wrap(ws, w + 2)])[nd_off] == (char)nd_byte, "written chunk holds the caller's bytes (witness byte)");
		}
		POST(rb->shared_hdr->write_pt == spec_step(ws, w, (uint32_t)nd_len), "write_pt advances by the chunk's footprint");
		POST(rb->shared_hdr->read_pt == r, "write never moves read_pt");
	}
}
