/*UNIT
{
 "props": [
  "C07",
  "C01"
 ],
 "src": [
  "lib/ringbuffer.c"
 ],
 "spec": [
  "ringbuffer.spec"
 ],
 "tags": [
  "nooverwrite"
 ],
 "mode": "plain",
 "kind": "proved",
 "functions": [
  "qb_rb_chunk_peek"
 ],
 "restrict_fp": [
  "qb_rb_chunk_peek.function_pointer_call.1/verif_timedwait_fn",
  "qb_rb_chunk_peek.function_pointer_call.2/verif_post_fn"
 ],
 "drops": [
  "qb_util_log/qb_util_perror diagnostics compiled out (stubs/nolog.h)"
 ],
 "expect_classes": [
  "assertion"
 ],
 "timeout": 300,
 "note": "plain mode (pre/postconditions asserted around the real function, callees inlined): --dfcc needs >200 s per unit on the ring code"
}
*/
/* qb_rb_chunk_peek: returns length and payload address of the chunk at read_pt exactly when that chunk
 * is published (magic), never for an allocated-but-uncommitted, consumed or empty slot; changes nothing. */
#include "common.h"

void harness(void)
{
	struct qb_ringbuffer_s *rb = verif_build_rb(0, 0);
	VERIF_ND(uint32_t, nd_size);
	VERIF_ND(uint32_t, nd_magic);
	VERIF_ND(int32_t, nd_timeout);
	uint32_t ws = rb->shared_hdr->word_size, r = rb->shared_hdr->read_pt, w = rb->shared_hdr->write_pt;
	void *data = NULL;
	rb->shared_data[r] = nd_size;
	rb->shared_data[wrap(ws, r + 1)] = nd_magic;
	ASSUME(nd_size <= 0x7fffffff);

	ssize_t rc = qb_rb_chunk_peek(rb, &data, nd_timeout);

	if (nd_magic == MAGIC) {
		COVER(r + 2 >= ws);
		POST(rc == (ssize_t)nd_size, "peek reports the committed length");
		POST(data == (void *)&rb->shared_data[wrap(ws, r + 2)], "peek returns the address the chunk was written at");
	} else {
		COVER(nd_magic == MAGIC_ALLOC);
		POST(rc < 0, "peek never returns an unpublished, consumed or unwritten chunk");
	}
	POST(rb->shared_hdr->read_pt == r && rb->shared_hdr->write_pt == w, "peek moves no position");
	POST(rb->shared_data[r] == nd_size && rb->shared_data[wrap(ws, r + 1)] == nd_magic, "peek leaves the chunk in place");
}
