/*UNIT
{"props": ["C11"], "src": ["lib/ringbuffer.c"], "spec": ["ringbuffer.spec"], "tags": ["overwrite"], "mode": "plain", "loop_contracts": true,
 "kind": "proved", "functions": ["qb_rb_chunk_alloc (overwrite path)", "_rb_chunk_reclaim (inlined)", "qb_rb_space_free (inlined)"],
 "restrict_fp": ["qb_rb_space_free.function_pointer_call.1/verif_q_len_fn", "qb_rb_space_free.function_pointer_call.2/verif_q_len_fn",
                 "_rb_chunk_reclaim.function_pointer_call.1/verif_reclaim_fn"],
 "drops": ["qb_util_log/qb_util_perror diagnostics compiled out (stubs/nolog.h)"],
 "pre_unwindset": ["qb_rb_chunk_step.0:1"],
 "expect_classes": ["loop_invariant_step", "assertion"], "timeout": 900, "fallback_unwind": 4,
 "variants": [{"vname": "plain", "defines": ["-DV_NOTIFIER=0"]},
              {"vname": "semaphore", "defines": ["-DV_NOTIFIER=1"]}]}
*/
/* qb_rb_chunk_alloc in OVERWRITE mode, loop contract on the reclaim loop (any number of iterations):
 * given chain validity at each chunk it visits (hypothesis instantiated by verif_chain_hypothesis: the
 * oldest chunk is published and its footprint does not reach past write_pt), every write of at most
 * the requested size S (S + 13 <= capacity) SUCCEEDS, reclaiming oldest-first, never moving write_pt,
 * never stepping read_pt past write_pt (so the newest chunk is never reclaimed by a later write's
 * loop before older ones), and leaves at least len + 12 bytes free.
 *  plain    : ring without notifier (QB_RB_FLAG_NO_SEMAPHORE);
 *  semaphore: ring with the notification semaphore -- the default, and what the logging blackbox opens.  The writer's own
 *             reclaim does not consume semaphore tokens, so the token count (q_len) is ANY value >= the number of
 *             unread chunks; the write must succeed all the same, also when it has to reclaim every unread chunk. */
#include "os_base.h"
#include "verif.h"
uint32_t verif_w0, verif_U0;
unsigned verif_reclaims;
struct qb_ringbuffer_s;
static void verif_chain_hypothesis(struct qb_ringbuffer_s *rb);
#include "common.h"

static void verif_chain_hypothesis(struct qb_ringbuffer_s *rb)
{
	uint32_t ws = rb->shared_hdr->word_size, r = rb->shared_hdr->read_pt, w = rb->shared_hdr->write_pt;
	uint32_t U = spec_used_words(ws, r, w);
	VERIF_ND(uint32_t, nd_oldest_size);
#ifdef VERIF_FALLBACK
	ASSUME(verif_reclaims < VERIF_FALLBACK);
#endif
	verif_reclaims++;
	if (U > 0) {
		/* chain validity at read_pt: a published chunk that ends at or before write_pt */
		ASSUME(nd_oldest_size <= 4 * ws && spec_chunk_words(nd_oldest_size) <= U);
		rb->shared_data[r] = nd_oldest_size;
		rb->shared_data[wrap(ws, r + 1)] = MAGIC;
	}
}

void harness(void)
{
	struct qb_ringbuffer_s *rb = verif_build_rb(QB_RB_FLAG_OVERWRITE, V_NOTIFIER);
#if V_NOTIFIER
	VERIF_ND(uint32_t, nd_tokens);
	ASSUME(nd_tokens <= 0x7fffffff);
	verif_qlen = nd_tokens;   /* tokens posted by commits and never consumed by the writer's own reclaim */
	rb->notifier.reclaim_fn = NULL;   /* as qb_rb_sem_create leaves it for the semaphore notifiers */
#endif
	VERIF_ND(size_t, nd_S);
	VERIF_ND(size_t, nd_len);
	uint32_t ws = rb->shared_hdr->word_size, r = rb->shared_hdr->read_pt, w = rb->shared_hdr->write_pt;
	ASSUME(nd_S <= (size_t)4 * VERIF_WS_MAX && nd_S + 13 <= (size_t)4 * ws && nd_len <= nd_S);
	verif_w0 = w;
	verif_U0 = spec_used_words(ws, r, w);
	verif_reclaims = 0;

	char *p = qb_rb_chunk_alloc(rb, nd_len);

	uint32_t r2 = rb->shared_hdr->read_pt;
	COVER(verif_reclaims == 0);
	COVER(verif_reclaims > 0);
	COVER(r2 == w);
	POST(p != NULL, "in overwrite mode every write of at most the requested size succeeds");
	POST(rb->shared_hdr->write_pt == w, "reclaiming never moves write_pt");
	POST(r2 < ws && spec_used_words(ws, r2, w) <= verif_U0, "read_pt only moves forward, never past write_pt");
	POST(spec_space_free_bytes(ws, r2, w) >= nd_len + 12, "enough room was reclaimed for the chunk plus margin");
	POST(p == (char *)&rb->shared_data[wrap(ws, w + 2)], "payload area starts two words after write_pt");
	POST(rb->shared_data[w] == 0 && rb->shared_data[wrap(ws, w + 1)] == MAGIC_ALLOC, "new chunk header marked allocated");
}
