/*UNIT
{
 "props": [
  "C07",
  "C01",
  "C11"
 ],
 "src": [
  "lib/ringbuffer.c"
 ],
 "spec": [
  "ringbuffer.spec"
 ],
 "tags": [
  "nooverwrite"
 ],
 "mode": "plain",
 "kind": "proved",
 "functions": [
  "qb_rb_chunk_commit"
 ],
 "restrict_fp": [
  "qb_rb_chunk_commit.function_pointer_call.1/verif_post_fn"
 ],
 "drops": [
  "qb_util_log/qb_util_perror diagnostics compiled out (stubs/nolog.h)"
 ],
 "expect_classes": [
  "assertion"
 ],
 "timeout": 300,
 "note": "plain mode (pre/postconditions asserted around the real function, callees inlined): --dfcc needs >200 s per unit on the ring code"
}
*/
/* qb_rb_chunk_commit(len) after a successful alloc(len' >= len): records the length, advances write_pt
 * by exactly the chunk's footprint, publishes the chunk (magic), writes nothing else; and the slot at
 * the NEW write position does not look like a published chunk, whatever stale payload bytes lie there
 * (a reader of an empty ring decides "empty" by that word). */
#include "common.h"

void harness(void)
{
	struct qb_ringbuffer_s *rb = verif_build_rb(0, 0);
	VERIF_ND(size_t, nd_len);
	VERIF_ND(uint32_t, nd_wit);
	VERIF_ND(uint32_t, nd_witval);
	uint32_t ws = rb->shared_hdr->word_size, r = rb->shared_hdr->read_pt, w = rb->shared_hdr->write_pt;
	uint64_t freeb = spec_space_free_bytes(ws, r, w);
	/* precondition established by alloc: the chunk plus margin fits */
	ASSUME(nd_len <= (size_t)4 * VERIF_WS_MAX && freeb >= nd_len + 12);
	ASSUME(nd_wit < ws);
	rb->shared_data[nd_wit] = nd_witval;
	rb->shared_data[w] = 0;
	rb->shared_data[wrap(ws, w + 1)] = MAGIC_ALLOC;

	int32_t rc = qb_rb_chunk_commit(rb, nd_len);

	uint32_t w2 = rb->shared_hdr->write_pt;
	COVER(w2 < w);
	COVER(nd_len % 4 != 0);
	COVER(nd_len == 0);
	POST(rc == 0, "commit succeeds");
	POST(rb->shared_data[w] == (uint32_t)nd_len, "committed chunk carries its length");
	POST(rb->shared_data[wrap(ws, w + 1)] == MAGIC, "committed chunk is published");
	POST(w2 == spec_step(ws, w, (uint32_t)nd_len), "write_pt advances by the chunk's footprint");
	POST(rb->shared_hdr->read_pt == r, "commit never moves read_pt");
	POST(w2 != r, "write_pt never catches read_pt (gap word)");
	POST(rb->shared_data[wrap(ws, w2 + 1)] != MAGIC, "the slot at the new write position does not look published (stale payload cannot become a phantom chunk)");
	if (nd_wit != w && nd_wit != wrap(ws, w + 1) && nd_wit != wrap(ws, w2 + 1)) {
		POST(rb->shared_data[nd_wit] == nd_witval, "commit writes only the chunk header (and the next slot's marker)");
	}
}
