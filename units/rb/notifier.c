/*UNIT
{"props": ["C01", "C07"], "src": ["lib/ringbuffer.c"], "spec": ["ringbuffer.spec"], "tags": ["nooverwrite"], "mode": "plain",
 "kind": "proved", "functions": ["qb_rb_chunk_commit", "qb_rb_chunk_read", "_rb_chunk_reclaim", "qb_rb_chunk_peek (with notifier)"],
 "restrict_fp": ["qb_rb_chunk_commit.function_pointer_call.1/verif_post_fn", "_rb_chunk_reclaim.function_pointer_call.1/verif_reclaim_fn",
                 "qb_rb_chunk_read.function_pointer_call.1/verif_timedwait_fn", "qb_rb_chunk_read.function_pointer_call.2/verif_post_fn",
                 "qb_rb_chunk_read.function_pointer_call.3/verif_post_fn", "qb_rb_chunk_peek.function_pointer_call.1/verif_timedwait_fn",
                 "qb_rb_chunk_peek.function_pointer_call.2/verif_post_fn"],
 "stubs": ["notifier callbacks post/timedwait/reclaim/q_len (the semaphore): any result, calls recorded", "memcpy (witness form)"],
 "drops": ["qb_util_log/qb_util_perror diagnostics compiled out (stubs/nolog.h)"],
 "expect_classes": ["assertion"], "timeout": 300,
 "variants": [{"vname": "commit", "defines": ["-DV_COMMIT"]}, {"vname": "read", "defines": ["-DV_READ"]}, {"vname": "peek", "defines": ["-DV_PEEK"]}]}
*/
/* The same ring functions WITH the notification semaphore (notifier callbacks as stubs, any result):
 *  commit: the semaphore is posted exactly once per committed chunk, after the chunk is published, and its
 *          result is what commit returns;
 *  read/peek: nothing is returned unless the wait succeeded AND a chunk is published at read_pt; when the
 *          wait succeeded but no chunk can be handed out (slot not published / buffer too small) the
 *          semaphore is given back exactly once, so the count stays equal to the number of unread chunks;
 *          a successful read takes exactly one count per chunk (reclaim notifies once with the chunk size). */
#include "common.h"

void harness(void)
{
	struct qb_ringbuffer_s *rb = verif_build_rb(0, 1);
	uint32_t ws = rb->shared_hdr->word_size, r = rb->shared_hdr->read_pt, w = rb->shared_hdr->write_pt;
	VERIF_ND(int32_t, nd_post_rc); VERIF_ND(int32_t, nd_wait_rc); VERIF_ND(int32_t, nd_reclaim_rc);
	ASSUME(nd_post_rc <= 0 && nd_post_rc >= -133 && nd_wait_rc <= 0 && nd_wait_rc >= -133 && nd_reclaim_rc <= 0 && nd_reclaim_rc >= -133);
	verif_post_rc = nd_post_rc; verif_wait_rc = nd_wait_rc; verif_reclaim_rc = nd_reclaim_rc; verif_qlen = 1;
#ifdef V_COMMIT
	VERIF_ND(size_t, nd_len);
	uint64_t freeb = spec_space_free_bytes(ws, r, w);
	ASSUME(r != w);   /* with a q_len notifier "read_pt == write_pt" is decided by the notifier; not this unit's subject */
	ASSUME(nd_len <= (size_t)4 * VERIF_WS_MAX && freeb >= nd_len + 12);
	rb->shared_data[w] = 0; rb->shared_data[wrap(ws, w + 1)] = MAGIC_ALLOC;
	int32_t rc = qb_rb_chunk_commit(rb, nd_len);
	COVER(nd_post_rc < 0); COVER(nd_post_rc == 0);
	POST(verif_post_calls == 1 && verif_post_arg == nd_len, "the semaphore is posted exactly once per committed chunk");
	POST(rc == nd_post_rc, "commit reports the notifier's result");
	POST(rb->shared_data[wrap(ws, w + 1)] == MAGIC && rb->shared_data[w] == (uint32_t)nd_len, "the chunk is published whatever the notifier says");
#else
	VERIF_ND(uint32_t, nd_size); VERIF_ND(uint32_t, nd_magic); VERIF_ND(size_t, nd_buflen);
	ASSUME(nd_buflen <= 4096);
	char *buf = malloc(nd_buflen);
	ASSUME(buf != NULL);
	rb->shared_data[r] = nd_size; rb->shared_data[wrap(ws, r + 1)] = nd_magic;
	ASSUME(nd_magic != MAGIC || nd_size <= 4 * ws - 12);
	verif_memcpy_wit = 0;
#ifdef V_READ
	ssize_t rc = qb_rb_chunk_read(rb, buf, nd_buflen, 5);
	int waited_ok = (nd_wait_rc == 0 || nd_wait_rc == -EIDRM);
	COVER(!waited_ok); COVER(waited_ok && nd_magic != MAGIC); COVER(waited_ok && nd_magic == MAGIC && nd_buflen < nd_size); COVER(rc >= 0);
	POST(verif_wait_calls == 1, "read waits on the semaphore once");
	if (!waited_ok) {
		POST(rc == nd_wait_rc && verif_post_calls == 0 && rb->shared_hdr->read_pt == r && verif_memcpy_calls == 0, "a failed wait returns the error and touches nothing");
	} else if (nd_magic != MAGIC) {
		POST(rc < 0 && verif_post_calls == 1 && rb->shared_hdr->read_pt == r, "count taken but no published chunk: the count is given back, nothing consumed");
	} else if (nd_buflen < nd_size) {
		POST(rc == -ENOBUFS && verif_post_calls == 1 && rb->shared_hdr->read_pt == r && rb->shared_data[wrap(ws, r + 1)] == MAGIC, "buffer too small: the chunk stays and the count is given back");
	} else {
		POST(rc == (ssize_t)nd_size && verif_post_calls == 0, "a successful read keeps the count it took");
		POST(verif_reclaim_calls == 1 && verif_reclaim_arg == nd_size, "the consumer notifies the reclaim once with the chunk's size");
		POST(rb->shared_hdr->read_pt == spec_step(ws, r, nd_size), "exactly one chunk consumed");
	}
#else
	void *p = NULL;
	ssize_t rc = qb_rb_chunk_peek(rb, &p, 5);
	int waited_ok = (nd_wait_rc == 0 || nd_wait_rc == -EIDRM);
	COVER(!waited_ok); COVER(waited_ok && nd_magic != MAGIC); COVER(waited_ok && nd_magic == MAGIC);
	ASSUME(nd_size <= 0x7fffffff);
	if (!waited_ok) {
		POST((nd_wait_rc == -ETIMEDOUT ? rc == 0 : rc == nd_wait_rc) && verif_post_calls == 0, "a failed wait yields no chunk and gives nothing back");
	} else if (nd_magic != MAGIC) {
		POST(rc < 0 && verif_post_calls == 1, "count taken but no published chunk: the count is given back");
	} else {
		POST(rc == (ssize_t)nd_size && p == (void *)&rb->shared_data[wrap(ws, r + 2)] && verif_post_calls == 0, "peek returns the published chunk and keeps the count until reclaim");
	}
	POST(rb->shared_hdr->read_pt == r, "peek consumes nothing");
#endif
#endif
}
