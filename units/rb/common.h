/* common prelude of the ring buffer units: an arbitrary ring satisfying the index invariant
 *   16 <= word_size <= VERIF_WS_MAX, read_pt < word_size, write_pt < word_size,
 *   shared_data mapped for 2 * word_size words (the circular mmap maps the data twice; the units never
 *   rely on the aliasing of the two halves, only on the mapping length). */
#include "os_base.h"
#include "ringbuffer_int.h"
#include <qb/qbdefs.h>
#include "atomic_int.h"
#include "verif.h"
#include "nolog.h"
#include "mem.h"
#include "atomic.h"

#ifndef VERIF_WS_MAX
#define VERIF_WS_MAX (1u << 20)
#endif
#define MAGIC 0xA1A1A1A1u
#define MAGIC_DEAD 0xD0D0D0D0u
#define MAGIC_ALLOC 0xA110CED0u

/* ghost notifier state (used when the unit runs with notifier stubs) */
int verif_post_calls, verif_reclaim_calls, verif_wait_calls;
size_t verif_post_arg, verif_reclaim_arg;
int32_t verif_post_rc, verif_wait_rc, verif_reclaim_rc;
ssize_t verif_qlen;
int verif_ring_observed;   /* ghost hook for C01 observers */

#include "ringbuffer.c"

static int32_t verif_post_fn(void *inst, size_t sz) { verif_post_calls++; verif_post_arg = sz; return verif_post_rc; }
static ssize_t verif_q_len_fn(void *inst) { return verif_qlen; }
static int32_t verif_timedwait_fn(void *inst, int32_t ms) { verif_wait_calls++; return verif_wait_rc; }
static int32_t verif_reclaim_fn(void *inst, size_t sz) { verif_reclaim_calls++; verif_reclaim_arg = sz; return verif_reclaim_rc; }

static struct qb_ringbuffer_s *verif_build_rb(uint32_t flags, int with_notifier)
{
	VERIF_ND(uint32_t, nd_ws);
	VERIF_ND(uint32_t, nd_r);
	VERIF_ND(uint32_t, nd_w);
	struct qb_ringbuffer_s *rb = malloc(sizeof(*rb));
	ASSUME(rb != NULL);
	ASSUME(nd_ws >= 16 && nd_ws <= VERIF_WS_MAX && nd_r < nd_ws && nd_w < nd_ws);
#ifdef VERIF_WS_FIXED
	nd_ws = VERIF_WS_FIXED;
	ASSUME(nd_r < nd_ws && nd_w < nd_ws);
#endif
	rb->flags = flags;
	rb->sem_id = 0;
	rb->shared_hdr = malloc(sizeof(struct qb_ringbuffer_shared_s));
	ASSUME(rb->shared_hdr != NULL);
	rb->shared_hdr->word_size = nd_ws;
	rb->shared_hdr->read_pt = nd_r;
	rb->shared_hdr->write_pt = nd_w;
	rb->shared_hdr->ref_count = 1;
	size_t nd_words2 = (size_t)2 * nd_ws;   /* computed first: CBMC mis-sizes malloc(2 * n * sizeof(T)) */
	rb->shared_data = malloc(nd_words2 * sizeof(uint32_t));
	ASSUME(rb->shared_data != NULL);
	rb->notifier.post_fn = with_notifier ? verif_post_fn : NULL;
	rb->notifier.q_len_fn = with_notifier ? verif_q_len_fn : NULL;
	rb->notifier.space_used_fn = NULL;
	rb->notifier.timedwait_fn = with_notifier ? verif_timedwait_fn : NULL;
	rb->notifier.reclaim_fn = with_notifier ? verif_reclaim_fn : NULL;
	rb->notifier.destroy_fn = NULL;
	rb->notifier.instance = NULL;
	verif_post_calls = 0; verif_reclaim_calls = 0; verif_wait_calls = 0; verif_memcpy_calls = 0;
	return rb;
}

/* specification functions (quantifier-free arithmetic, taken from the property statement) */
static inline uint32_t spec_used_words(uint32_t ws, uint32_t r, uint32_t w) { return w >= r ? w - r : w + ws - r; }
static inline uint64_t spec_space_free_bytes(uint32_t ws, uint32_t r, uint32_t w)
{
	uint32_t u = spec_used_words(ws, r, w);
	return 4ull * (u == 0 ? ws : ws - u - 1);
}
static inline uint32_t spec_chunk_words(uint32_t len) { return 2 + len / 4 + ((len % 4) ? 1 : 0); }
/* positions wrap by conditional subtraction (no division): valid for x < 2 * ws, i.e. chunk footprints <= ws */
static inline uint32_t wrap(uint32_t ws, uint32_t x) { return x >= ws ? x - ws : x; }
static inline uint32_t spec_step(uint32_t ws, uint32_t p, uint32_t len) { return wrap(ws, p + spec_chunk_words(len)); }
