/*UNIT
{"props": ["C15"], "src": ["lib/log_blackbox.c"], "spec": ["log_blackbox.spec"], "mode": "plain",
 "kind": "bounded", "bound": "at most 2 records per file (the record loop is unwound 3 times); record bytes fully arbitrary",
 "loop_contracts": true, "unwindset": ["qb_log_blackbox_print_from_file.0:3"],
 "functions": ["qb_log_blackbox_print_from_file"],
 "stubs": ["open/read/lseek/close (any outcome)", "qb_rb_create_from_file (NULL or a ring; decided in unit rb.from_file)",
           "qb_rb_chunk_read (any result code; arbitrary record bytes, at most the buffer length: contract of rb.read)",
           "qb_rb_close (ledger)", "qb_vsnprintf_deserialize (any length result; assumed to stay inside the NUL-terminated record it is given: decided in C14)",
           "localtime/strftime/snprintf/printf/perror/qb_log_priority2str (bounded writers / no-ops)"],
 "drops": ["qb_util_log/qb_util_perror diagnostics compiled out (stubs/nolog.h)"],
 "expect_classes": ["assertion"], "timeout": 300, "cbmc_flags": ["--no-malloc-may-fail"]}
*/
/* qb_log_blackbox_print_from_file on arbitrary record bytes: every field it reads lies inside the bytes
 * qb_rb_chunk_read just returned, message[] and time_buf[] are never over-run, no assert() fires, it
 * terminates with a result code, the ring is closed exactly once and the record buffer is released. */
#include "os_base.h"
#include <qb/qbrb.h>
#include "atomic.h"
#include "util_int.h"
#include "log_int.h"
#include "ringbuffer_int.h"
#include "verif.h"
#include "nolog.h"

int g_ring_open, g_close_calls, g_fd_open, g_records;
ssize_t g_bytes_read;
char *g_chunk;
size_t g_chunk_len;
struct qb_ringbuffer_s g_ring;
struct tm g_tm;

static int verif_open(const char *path, int flags, ...) { VERIF_ND(int, nd_open_fd); ASSUME(nd_open_fd >= -1); if (nd_open_fd >= 0) g_fd_open++; else errno = ENOENT; return nd_open_fd; }
static int verif_close(int fd) { g_fd_open--; return 0; }
static ssize_t verif_read(int fd, void *buf, size_t count)
{
	VERIF_ND(ssize_t, nd_hdr_rc);
	VERIF_ND(uint32_t, nd_h0); VERIF_ND(uint32_t, nd_h1); VERIF_ND(uint32_t, nd_h2); VERIF_ND(uint32_t, nd_h3); VERIF_ND(uint32_t, nd_h4);
	ASSUME(nd_hdr_rc >= -1 && nd_hdr_rc <= (ssize_t)count);
	if (count == 20) { uint32_t *w = buf; w[0] = nd_h0; w[1] = nd_h1; w[2] = nd_h2; w[3] = nd_h3; w[4] = nd_h4; }
	if (nd_hdr_rc < 0) errno = EIO;
	return nd_hdr_rc;
}
static off_t verif_lseek(int fd, off_t off, int whence) { return 0; }
static qb_ringbuffer_t *verif_qb_rb_create_from_file(int32_t fd, uint32_t flags)
{
	VERIF_ND(uint8_t, nd_create_fails);
	if (nd_create_fails) return NULL;
	g_ring_open++;
	return &g_ring;
}
static void verif_qb_rb_close(qb_ringbuffer_t *rb) { g_close_calls++; g_ring_open--; }
static ssize_t verif_qb_rb_chunk_read(qb_ringbuffer_t *rb, void *data_out, size_t len, int32_t ms_timeout)
{
	VERIF_ND(ssize_t, nd_chunk_rc);
	POST(rb == &g_ring && g_ring_open == 1, "records are read from the ring that was opened");
	ASSUME(nd_chunk_rc >= -4095 && nd_chunk_rc <= (ssize_t)len);
	g_records++;
	ASSUME(g_records <= 2 || nd_chunk_rc < 0);   /* bound: the file holds at most 2 readable records */
	g_chunk = data_out; g_chunk_len = len; g_bytes_read = nd_chunk_rc;
	if (nd_chunk_rc > 0) { __CPROVER_havoc_slice(data_out, (size_t)nd_chunk_rc); }
	return nd_chunk_rc;
}
static size_t verif_qb_vsnprintf_deserialize(char *string, size_t str_len, const char *buf)
{
	VERIF_ND(size_t, nd_deser_len);
	POST(buf >= g_chunk && buf < g_chunk + g_bytes_read, "the message decoder starts inside the bytes just read");
	ASSUME(nd_deser_len <= 4096);
	return nd_deser_len;
}
static struct tm *verif_localtime(const time_t *t) { VERIF_ND(uint8_t, nd_lt_fails); return nd_lt_fails ? NULL : &g_tm; }
static size_t verif_strftime(char *s, size_t max, const char *fmt, const struct tm *tm) { VERIF_ND(size_t, nd_strf); ASSUME(nd_strf < max); s[nd_strf] = 0; return nd_strf; }
static int verif_snprintf(char *str, size_t size, const char *fmt, ...) { if (size > 0) { POST(__CPROVER_w_ok(str, size), "time text is written inside time_buf"); str[0] = 0; } return 0; }
static int verif_printf(const char *fmt, ...) { return 0; }
static void verif_perror(const char *s) { }
static const char *verif_qb_log_priority2str(uint8_t priority) { return "info"; }
#define open(...) verif_open(__VA_ARGS__)
#define close(...) verif_close(__VA_ARGS__)
#define read(...) verif_read(__VA_ARGS__)
#define lseek(...) verif_lseek(__VA_ARGS__)
#define qb_rb_create_from_file(...) verif_qb_rb_create_from_file(__VA_ARGS__)
#define qb_rb_close(...) verif_qb_rb_close(__VA_ARGS__)
#define qb_rb_chunk_read(...) verif_qb_rb_chunk_read(__VA_ARGS__)
#define qb_vsnprintf_deserialize(...) verif_qb_vsnprintf_deserialize(__VA_ARGS__)
#define localtime(...) verif_localtime(__VA_ARGS__)
#define strftime(...) verif_strftime(__VA_ARGS__)
#define snprintf(...) verif_snprintf(__VA_ARGS__)
#define printf(...) verif_printf(__VA_ARGS__)
#define perror(...) verif_perror(__VA_ARGS__)
#define qb_log_priority2str(...) verif_qb_log_priority2str(__VA_ARGS__)
#include "log_blackbox.c"

void harness(void)
{
	g_ring_open = 0; g_close_calls = 0; g_fd_open = 0; g_chunk = NULL; g_bytes_read = 0; g_records = 0;
	int rc = qb_log_blackbox_print_from_file("bb");
	COVER(rc == 0);
	COVER(rc == -EIO);
	COVER(g_records == 3);
	POST(g_ring_open == 0, "the ring built from the file is closed on every exit (no temporary shared-memory files left)");
	POST(g_close_calls <= 1, "the ring is closed at most once");
	POST(g_fd_open == 0, "the file descriptor is closed on every exit");
}
