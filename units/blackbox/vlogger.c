/*UNIT
{"props": ["C11", "C14"], "src": ["lib/log_blackbox.c"], "spec": ["log_blackbox.spec"], "mode": "plain",
 "kind": "proved", "functions": ["_blackbox_vlogger"],
 "stubs": ["qb_rb_chunk_alloc (contract of C07/C11: returns a writable area of exactly the requested length, or NULL)",
           "qb_rb_chunk_commit (records the committed length)", "qb_rb_close", "qb_log_target_get",
           "qb_vsnprintf_serialize (assumed contract, decided in C14: writes at most max_len bytes, returns at most max_len)",
           "strlen (function name of arbitrary length < 200)", "memcpy (witness form)"],
 "drops": ["qb_util_log/qb_util_perror diagnostics compiled out (stubs/nolog.h)"],
 "expect_classes": ["assertion"], "timeout": 200, "cbmc_flags": ["--no-malloc-may-fail"]}
*/
/* _blackbox_vlogger for every function-name length, every configured line limit and every result of
 * the serializer: it reserves header + function name + max_line_length bytes, every byte it writes
 * lies inside that reservation (the area handed out has exactly the reserved length, so CBMC's bounds
 * checks decide this), the serializer is never offered more room than is left, and the committed
 * length is the number of bytes actually used and never exceeds the reservation. */
#include "os_base.h"
#include <qb/qbrb.h>
#include "atomic.h"
#include "util_int.h"
#include "log_int.h"
#include "ringbuffer_int.h"
#include "verif.h"
#include "nolog.h"
#include "mem.h"

struct qb_log_target g_target;
char *g_area;
size_t g_reserved, g_committed, g_fn_len;
int g_alloc_calls, g_commit_calls, g_close_calls, g_ser_calls;
struct qb_ringbuffer_s g_ring;
struct qb_ringbuffer_shared_s g_ring_hdr;

static struct qb_log_target *verif_qb_log_target_get(int32_t pos) { return &g_target; }
static void *verif_qb_rb_chunk_alloc(qb_ringbuffer_t *rb, size_t len)
{
	VERIF_ND(uint8_t, nd_alloc_fails);
	g_alloc_calls++;
	g_reserved = len;
	if (nd_alloc_fails) { errno = EAGAIN; return NULL; }
	ASSUME(len <= (1u << 20));
	g_area = malloc(len);
	ASSUME(g_area != NULL);
	return g_area;
}
static int32_t verif_qb_rb_chunk_commit(qb_ringbuffer_t *rb, size_t len) { g_commit_calls++; g_committed = len; return 0; }
static void verif_qb_rb_close(qb_ringbuffer_t *rb) { g_close_calls++; }
static size_t verif_strlen(const char *s) { return g_fn_len; }
static size_t g_ser1_max, g_ser1_len, g_ser2_len; static const char *g_ser1_fmt, *g_ser2_fmt;
static size_t verif_qb_vsnprintf_serialize(char *serialize, size_t max_len, const char *fmt, va_list ap)
{
	VERIF_ND(size_t, nd_ser_len);
	g_ser_calls++;
	if (g_ser_calls == 1) { g_ser1_max = max_len; g_ser1_fmt = fmt; } else { g_ser2_fmt = fmt; }
	/* the serializer may write anywhere in [serialize, serialize + max_len): that range must be reserved */
	POST(max_len == 0 || __CPROVER_w_ok(serialize, max_len), "the serializer is offered only room that was reserved for the record");
	ASSUME(nd_ser_len <= max_len);
	if (nd_ser_len > 0) { serialize[nd_ser_len - 1] = 0; }
	if (g_ser_calls == 1) { g_ser1_len = nd_ser_len; } else { g_ser2_len = nd_ser_len; }
	return nd_ser_len;
}
#define qb_log_target_get verif_qb_log_target_get
#define qb_rb_chunk_alloc verif_qb_rb_chunk_alloc
#define qb_rb_chunk_commit verif_qb_rb_chunk_commit
#define qb_rb_close verif_qb_rb_close
#define strlen verif_strlen
#define qb_vsnprintf_serialize verif_qb_vsnprintf_serialize
#include "log_blackbox.c"

static void call_vlogger(struct qb_log_callsite *cs, struct timespec *ts, ...)
{
	va_list ap;
	va_start(ap, ts);
	_blackbox_vlogger(0, cs, ts, ap);
	va_end(ap);
}

void harness(void)
{
	VERIF_ND(size_t, nd_fn_len);
	VERIF_ND(size_t, nd_max_line);
	struct qb_log_callsite cs;
	struct timespec ts;
	ASSUME(nd_fn_len < 200 && nd_max_line <= 4096);
	g_fn_len = nd_fn_len;
	char *fn = malloc(nd_fn_len + 1);
	ASSUME(fn != NULL);
	cs.function = fn; cs.filename = "f.c"; cs.format = "%s"; cs.priority = 6; cs.lineno = 10; cs.targets = 0; cs.tags = 0;
	ts.tv_sec = 1; ts.tv_nsec = 2;
	g_ring.shared_hdr = &g_ring_hdr;
	g_target.instance = &g_ring;
	g_target.max_line_length = nd_max_line;
	g_alloc_calls = 0; g_commit_calls = 0; g_close_calls = 0; g_ser_calls = 0; g_ser1_max = 0; g_ser1_len = 0; g_ser2_len = 0; g_ser1_fmt = NULL; g_ser2_fmt = NULL; g_reserved = 0; g_committed = 0; g_area = NULL;
	verif_memcpy_wit = 0;

	call_vlogger(&cs, &ts, "x");

	size_t hdr = 4 * sizeof(uint32_t) + sizeof(uint8_t) + (nd_fn_len + 1) + sizeof(struct timespec);
	POST(g_alloc_calls == 1, "one reservation per record");
	POST(g_reserved == hdr + nd_max_line, "the record reserves its header, the function name and the maximum line length");
	if (g_area != NULL) {
		COVER(g_ser_calls == 1);
		COVER(g_ser_calls == 2);
		POST(g_commit_calls == 1, "a stored record is committed exactly once");
		POST(g_committed <= g_reserved, "the committed length never exceeds the reservation");
		POST(g_committed >= hdr, "the committed length covers the record header");
		POST(g_ser1_max == nd_max_line && g_ser1_fmt == cs.format, "the message is encoded under the target's line limit");
		if (g_ser1_len >= nd_max_line) {
			/* the encoder reports the limit itself when the message did not fit (C14 units) */
			POST(g_ser_calls == 2 && g_ser2_fmt != cs.format, "a message that does not fit the line limit is replaced by the fixed notice, never stored as a cut-off encoding (a cut-off record is decoded with arguments taken from beyond it)");
			POST(g_committed == hdr + g_ser2_len, "the record's length is its header plus the encoding that was stored");
		} else {
			POST(g_ser_calls == 1 && g_committed == hdr + g_ser1_len, "the record's length is its header plus the encoding that was stored");
		}
	} else {
		COVER(1);
		POST(g_commit_calls == 0, "nothing is committed when the reservation fails");
	}
}
