/*UNIT
{"props": ["C03"], "src": ["lib/ipcc.c"], "mode": "plain", "kind": "proved",
 "functions": ["qb_ipcc_event_recv", "qb_ipcc_recv", "_check_connection_state_with (inlined)"],
 "stubs": ["transport recv (any result)", "qb_ipc_us_ready on the setup socket (any result)", "qb_ipc_us_recv (all-or-error)"],
 "drops": ["qb_util_log/qb_util_perror diagnostics compiled out (stubs/nolog.h)"],
 "expect_classes": ["assertion"], "timeout": 120, "cbmc_flags": ["--no-malloc-may-fail"],
 "variants": [{"vname": "event", "defines": ["-DV_EVENT"]}, {"vname": "recv", "defines": ["-DV_RECV"]}]}
*/
/* qb_ipcc_event_recv / qb_ipcc_recv when the server is gone: the liveness poll covers the setup socket
 * (the stub stands for poll(2) on both descriptors); whenever it reports hang-up or an error that means
 * "disconnected", the call returns that error -- also when asked to wait for ever -- and the connection is
 * flagged disconnected; event_recv does not even try the transport then. */
#include "os_base.h"
#include "verif.h"
int g_hup_seen; int g_recv_calls;
#define VERIF_C03_READY 1
#include "../ipc/ipcc_common.h"

static ssize_t verif_c03_recv(struct qb_ipc_one_way *ow, void *buf, size_t buf_size, int32_t timeout)
{
	VERIF_ND(int32_t, nd_recv_rc);
	g_recv_calls++;
	ASSUME(nd_recv_rc >= -133 && nd_recv_rc <= 64);
	return nd_recv_rc;
}
static int32_t verif_c03_ready(struct qb_ipc_one_way *a, struct qb_ipc_one_way *b, int32_t ms, int32_t ev)
{
	VERIF_ND(int32_t, nd_ready_rc);
	ASSUME(nd_ready_rc <= 0 && nd_ready_rc >= -133);
	POST(b != NULL, "the liveness poll includes the setup socket");
	if (verif_sock_error_is_disconnected(nd_ready_rc)) { g_hup_seen = 1; }
	return nd_ready_rc;
}

void harness(void)
{
	VERIF_ND(int32_t, nd_ms_timeout);
	VERIF_ND(uint8_t, nd_shm);
	struct qb_ipcc_connection *c = verif_build_client(nd_shm != 0, 4096);
	char buf[64];
	ASSUME(nd_ms_timeout >= -1);
	c->funcs.recv = verif_c03_recv;
	g_hup_seen = 0; g_recv_calls = 0;
#ifdef V_EVENT
	ssize_t rc = qb_ipcc_event_recv(c, buf, sizeof(buf), nd_ms_timeout);
	if (g_hup_seen) {
		POST(g_recv_calls == 0, "event_recv does not wait on the transport once the peer is known to be gone");
	}
#else
	ssize_t rc = qb_ipcc_recv(c, buf, sizeof(buf), nd_ms_timeout);
#endif
	COVER(g_hup_seen); COVER(rc >= 0); COVER(rc == -ETIMEDOUT);
	if (g_hup_seen) {
		POST(rc < 0 && verif_sock_error_is_disconnected((int)rc), "a dead server is reported as a disconnect error");
		POST(c->is_connected == QB_FALSE, "the connection is flagged disconnected so later calls fail immediately");
	}
}
