/*UNIT
{"props": ["C03"], "src": ["lib/ipcc.c"], "mode": "plain", "kind": "proved",
 "functions": ["qb_ipcc_disconnect", "_check_connection_state_with (inlined)", "_event_sock_one_way_get (inlined)"],
 "stubs": ["funcs.disconnect of the transport (records what it sees)", "qb_ipc_us_ready on the setup socket (any result)", "free (CBMC built-in)"],
 "drops": ["qb_util_log/qb_util_perror diagnostics compiled out (stubs/nolog.h)"],
 "restrict_fp": ["qb_ipcc_disconnect.function_pointer_call.1/verif_c03_disconnect"],
 "expect_classes": ["assertion"], "timeout": 120, "cbmc_flags": ["--no-malloc-may-fail"]}
*/
/* qb_ipcc_disconnect as the FIRST call a client makes after its server died (no send/receive noticed the death
 * before): the function itself probes the setup socket without waiting, and when the probe says the peer is gone
 * the transport's disconnect already sees the connection flagged as disconnected -- that flag is what makes
 * qb_ipcc_shm_disconnect remove the dead server's ring files (qb_rb_force_close, unit ipc3.shm_disconnect) instead
 * of leaving them behind.  For every outcome of the probe: the transport is torn down exactly once, a live
 * connection is not flagged, the probe never blocks, and the connection object is released afterwards. */
#include "os_base.h"
#include "verif.h"
int g_hup_seen, g_ready_calls, g_disc_calls, g_flag_at_disc, g_ready_before_disc;
#define VERIF_C03_READY 1
#include "../ipc/ipcc_common.h"

static int32_t verif_c03_ready(struct qb_ipc_one_way *a, struct qb_ipc_one_way *b, int32_t ms, int32_t ev)
{
	VERIF_ND(int32_t, nd_ready_rc);
	ASSUME(nd_ready_rc <= 0 && nd_ready_rc >= -133);
	g_ready_calls++;
	POST(b != NULL, "the liveness poll includes the setup socket");
	POST(ms == 0, "the liveness probe of a disconnect does not wait");
	POST(g_disc_calls == 0, "the peer is probed before the transport is torn down");
	if (verif_sock_error_is_disconnected(nd_ready_rc)) { g_hup_seen = 1; }
	return nd_ready_rc;
}
static void verif_c03_disconnect(struct qb_ipcc_connection *c)
{
	g_disc_calls++;
	g_flag_at_disc = c->is_connected;
	g_ready_before_disc = g_ready_calls;
}

void harness(void)
{
	VERIF_ND(uint8_t, nd_shm);
	VERIF_ND(uint8_t, nd_was_connected);
	struct qb_ipcc_connection *c = verif_build_client(nd_shm != 0, 4096);
	c->funcs.disconnect = verif_c03_disconnect;
	c->is_connected = nd_was_connected ? QB_TRUE : QB_FALSE;
	c->receive_buf = malloc(16);
	g_hup_seen = g_ready_calls = g_disc_calls = g_ready_before_disc = 0; g_flag_at_disc = -1;

	qb_ipcc_disconnect(c);

	COVER(g_hup_seen && nd_was_connected);
	COVER(!g_hup_seen && nd_was_connected);
	POST(g_disc_calls == 1, "the transport is torn down exactly once");
	POST(g_ready_before_disc == 1, "qb_ipcc_disconnect probes the peer itself before tearing the transport down (a client that was idle when its server died has no other way to find out)");
	if (g_hup_seen) {
		POST(g_flag_at_disc == QB_FALSE, "a dead server: the transport's disconnect sees the connection flagged disconnected (so it removes the dead server's files)");
	} else if (nd_was_connected) {
		POST(g_flag_at_disc == QB_TRUE, "a live server: the connection is not flagged disconnected (the server cleans up its own files)");
	}
}
