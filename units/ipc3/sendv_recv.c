/*UNIT
{"props": ["C03"], "src": ["lib/ipcc.c"], "spec": ["ipcc.spec"], "tags": ["c03"], "mode": "dfcc", "loop_contracts": true, "kind": "proved",
 "functions": ["qb_ipcc_sendv_recv", "qb_ipcc_recv (inlined)", "_check_connection_state_with (inlined)", "qb_ipcc_sendv (inlined)"],
 "stubs": ["transport recv (any result per call: message, -ETIMEDOUT, -EAGAIN, other errors; records the wait it was asked for)",
           "qb_ipc_us_ready on the setup socket (any result: ready, timeout, hang-up/error)", "transport sendv / fc_get", "qb_ipc_us_send (all-or-error)"],
 "drops": ["qb_util_log/qb_util_perror diagnostics compiled out (stubs/nolog.h)"],
 "unwindset": ["qb_ipcc_sendv.0:4", "qb_ipcc_sendv.1:3"],
 "expect_classes": ["loop_invariant_step", "assertion"], "timeout": 300, "cbmc_flags": ["--no-malloc-may-fail"], "fallback_unwind": 4}
*/
/* qb_ipcc_sendv_recv when the server may be gone (loop contract on the wait loop, any number of rounds):
 *  - every blocking step asks for at most QB_IPC_MAX_WAIT_MS, also when the caller waits for ever, and
 *    between the steps the setup socket is polled for liveness;
 *  - as soon as that poll reports the peer gone (hang-up / error) the call returns a disconnect error and
 *    the connection is flagged disconnected, so later calls fail immediately;
 *  - with a finite timeout the waits that ran out add up to at most that timeout, after which the call
 *    returns -ETIMEDOUT ("return by the deadline", up to the stub clock). */
#include "os_base.h"
#include "verif.h"
long g_to_sum; int32_t g_max_wait; unsigned g_recv_calls; int g_hup_seen, g_finite; int32_t g_last_rc;
#define VERIF_C03_READY 1
#include "../ipc/ipcc_common.h"

static ssize_t verif_c03_recv(struct qb_ipc_one_way *ow, void *buf, size_t buf_size, int32_t timeout)
{
	VERIF_ND(int32_t, nd_recv_rc);
	g_recv_calls++;
	if (timeout > g_max_wait) { g_max_wait = timeout; }
	ASSUME(nd_recv_rc >= -133 && nd_recv_rc <= 64);
	if (nd_recv_rc == -ETIMEDOUT && timeout >= 0 && g_finite) { g_to_sum += timeout; }   /* this wait ran to its time-out */
	g_last_rc = nd_recv_rc;
	return nd_recv_rc;
}
static int32_t verif_c03_ready(struct qb_ipc_one_way *a, struct qb_ipc_one_way *b, int32_t ms, int32_t ev)
{
	VERIF_ND(int32_t, nd_ready_rc);
	ASSUME(nd_ready_rc <= 0 && nd_ready_rc >= -133);
	if (ms > g_max_wait) { g_max_wait = ms; }
	if (nd_ready_rc == -ETIMEDOUT && ms >= 0 && g_finite) { g_to_sum += ms; }   /* the liveness poll itself ran to its time-out */
	if (verif_sock_error_is_disconnected(nd_ready_rc)) { g_hup_seen = 1; }
	return nd_ready_rc;
}

void harness(void)
{
	VERIF_ND(int32_t, nd_ms_timeout);
	VERIF_ND(int64_t, nd_send_rc);
	struct qb_ipcc_connection *c = verif_build_client(1, 4096);
	struct iovec iov[1];
	char msg[16], resp[64];
	ASSUME(nd_ms_timeout >= -1);
	ASSUME(nd_send_rc >= -133 && nd_send_rc <= 16);
	c->funcs.recv = verif_c03_recv;
	verif_csend_result = nd_send_rc;
	verif_eagain_budget = 1;
	iov[0].iov_base = msg; iov[0].iov_len = 16;
	g_finite = nd_ms_timeout >= 0;
	g_to_sum = 0; g_max_wait = 0; g_recv_calls = 0; g_hup_seen = 0; g_last_rc = 0;

	ssize_t rc = qb_ipcc_sendv_recv(c, iov, 1, resp, sizeof(resp), nd_ms_timeout);

	COVER(g_recv_calls > 0 && rc >= 0);
	COVER(rc == -ETIMEDOUT);
	COVER(g_hup_seen);
	POST(g_max_wait <= QB_IPC_MAX_WAIT_MS, "no single blocking step exceeds the liveness interval, even when asked to wait for ever");
	if (g_hup_seen) {
		POST(rc < 0 && verif_sock_error_is_disconnected((int)rc), "a peer that is gone is reported as a disconnect error, not waited for");
		POST(c->is_connected == QB_FALSE, "the connection is flagged disconnected so later calls fail immediately");
	}
	if (nd_ms_timeout >= 0) {
		POST(g_to_sum <= nd_ms_timeout, "with a finite timeout the waits that ran out never add up to more than the timeout");
	}
	if (rc == -EAGAIN && g_recv_calls > 0) {
		POST(c->is_connected == QB_FALSE, "the wait loop only gives up with 'try again' when the peer is gone");
	}
}
