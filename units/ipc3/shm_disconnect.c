/*UNIT
{"props": ["C03"], "src": ["lib/ipc_shm.c"], "mode": "plain", "kind": "proved",
 "functions": ["qb_ipcc_shm_disconnect"],
 "stubs": ["kill(pid, 0) (any result/errno per call)", "nanosleep (no-op)", "qb_rb_close / qb_rb_force_close (ghost ledger per ring)", "qb_ipcc_us_sock_close (counted)"],
 "unwindset": ["qb_ipcc_shm_disconnect.0:6"],
 "drops": ["qb_util_log/qb_util_perror diagnostics compiled out (stubs/nolog.h)"],
 "expect_classes": ["assertion"], "timeout": 120, "cbmc_flags": ["--no-malloc-may-fail"]}
*/
/* qb_ipcc_shm_disconnect (the client's disconnect, shm transport): whatever the state, the setup socket
 * and all three rings are released exactly once; when the connection was already flagged disconnected
 * and the server process is gone (kill(pid,0) reports ESRCH within the 4 probes) -- or no server pid is
 * known -- the rings are FORCE-closed, i.e. the client removes the shared-memory files the dead server
 * left behind; a live connection is closed normally (the files belong to the server). */
#include "../ipc/prelude.h"
#include "ringbuffer_int.h"

int g_close[3], g_force[3], g_sock_close, g_kill_calls, g_esrch_seen;
struct qb_ringbuffer_s g_rb[3];
struct qb_ringbuffer_shared_s g_hdr[3];

static int ring_index(struct qb_ringbuffer_s *rb) { return rb == &g_rb[0] ? 0 : (rb == &g_rb[1] ? 1 : 2); }
static void verif_rb_close(struct qb_ringbuffer_s *rb) { if (rb) g_close[ring_index(rb)]++; }
static void verif_rb_force_close(struct qb_ringbuffer_s *rb) { if (rb) g_force[ring_index(rb)]++; }
static int verif_kill(pid_t pid, int sig)
{
	VERIF_ND(int8_t, nd_kill_rc); VERIF_ND(int32_t, nd_kill_errno);
	g_kill_calls++;
	POST(sig == 0, "the server is only probed, never signalled");
	ASSUME(nd_kill_rc == 0 || nd_kill_rc == -1);
	ASSUME(nd_kill_errno >= 1 && nd_kill_errno <= 133);
	if (nd_kill_rc == -1) { errno = nd_kill_errno; if (nd_kill_errno == ESRCH) g_esrch_seen = 1; }
	return nd_kill_rc;
}
static void verif_us_sock_close(int32_t sock) { g_sock_close++; }
#define qb_rb_close verif_rb_close
#define qb_rb_force_close verif_rb_force_close
#undef kill
#define kill(p, s) verif_kill(p, s)
#undef qb_ipcc_us_sock_close
#define qb_ipcc_us_sock_close verif_us_sock_close
#include "ipc_shm.c"

void harness(void)
{
	VERIF_ND(uint8_t, nd_connected);
	VERIF_ND(int32_t, nd_server_pid);
	struct qb_ipcc_connection *c = calloc(1, sizeof(*c));
	int i;
	ASSUME(c != NULL && nd_server_pid >= 0);
	for (i = 0; i < 3; i++) { g_close[i] = g_force[i] = 0; g_rb[i].shared_hdr = &g_hdr[i]; }
	g_sock_close = g_kill_calls = g_esrch_seen = 0;
	c->is_connected = nd_connected ? QB_TRUE : QB_FALSE;
	c->server_pid = nd_server_pid;
	c->request.u.shm.rb = &g_rb[0]; c->response.u.shm.rb = &g_rb[1]; c->event.u.shm.rb = &g_rb[2];

	qb_ipcc_shm_disconnect(c);

	COVER(g_force[0] == 1 && nd_server_pid > 0);
	COVER(g_close[0] == 1);
	COVER(g_kill_calls == 4);
	POST(g_sock_close == 1, "the setup socket is closed exactly once");
	for (i = 0; i < 3; i++) {
		POST(g_close[i] + g_force[i] == 1, "each of the three rings is released exactly once");
	}
	POST(g_force[0] == g_force[1] && g_force[1] == g_force[2], "all three rings are treated alike");
	POST(c->request.u.shm.rb == NULL && c->response.u.shm.rb == NULL && c->event.u.shm.rb == NULL, "no ring pointer is left dangling");
	if (!nd_connected && (g_esrch_seen || nd_server_pid == 0)) {
		POST(g_force[0] == 1, "a client that lost a dead server removes the shared-memory files the server left behind");
	}
	if (nd_connected) {
		POST(g_force[0] == 0 && g_kill_calls == 0, "a live connection is closed normally");
	}
	POST(g_kill_calls <= 4, "the liveness probe is bounded");
}
