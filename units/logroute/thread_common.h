/* common prelude of the log_thread.c units (C16, sequential facts only).
 * The real lib/log_thread.c is #included; stubs (assumed contracts):
 *   qb_thread_lock_create/lock/unlock/destroy   sequential; lock()/unlock() ASSERT that the lock exists and has not been
 *                                               destroyed ("control operations are safe in every module state")
 *   sem_* / pthread_create/join/exit            stubs/log_os.h (ghost counter; no thread is run)
 *   qb_log_thread_log_write                     (log.c, unit thread_write) records the sequence of records written
 *   malloc / free, strlen (ghost length of the message), memcpy (witness form, stubs/mem.h), printf (no effect) */
#include "os_base.h"
#include <pthread.h>
#include <semaphore.h>
#include <qb/qbdefs.h>
#include <qb/qblist.h>
#include <qb/qbutil.h>
#include "log_int.h"
#include "verif.h"
#include "mem.h"
#include "log_os.h"

/* ---- lock model ---- */
int verif_lock_depth;               /* lock() minus unlock() */
int verif_lock_token;
int verif_lock_destroyed;           /* the (single) logging-thread lock has been destroyed */
unsigned verif_lock_creates, verif_lock_destroys;
unsigned verif_lock_misuse;         /* lock()/unlock() on a NULL or destroyed lock */
static qb_thread_lock_t *verif_lt_lock_create(qb_thread_lock_type_t type)
{
	verif_lock_creates++;
	verif_lock_destroyed = 0;
	return (qb_thread_lock_t *)&verif_lock_token;
}
static int32_t verif_lt_lock(qb_thread_lock_t *tl)
{
	POST(tl != NULL, "the logging thread's lock exists when it is taken (control operations are safe in every module state)");
	POST(tl == NULL || !verif_lock_destroyed, "a destroyed lock is not taken");
	if (tl == NULL || verif_lock_destroyed) { verif_lock_misuse++; }
	verif_lock_depth++;
	return 0;
}
static int32_t verif_lt_unlock(qb_thread_lock_t *tl)
{
	POST(tl != NULL, "the logging thread's lock exists when it is released");
	POST(tl == NULL || !verif_lock_destroyed, "a destroyed lock is not released");
	if (tl == NULL || verif_lock_destroyed) { verif_lock_misuse++; }
	verif_lock_depth--;
	return 0;
}
static int32_t verif_lt_lock_destroy(qb_thread_lock_t *tl)
{
	verif_lock_destroys++;
	if (tl != NULL) { verif_lock_destroyed = 1; }
	return 0;
}
#define qb_thread_lock_create verif_lt_lock_create
#define qb_thread_lock verif_lt_lock
#define qb_thread_unlock verif_lt_unlock
#define qb_thread_lock_destroy verif_lt_lock_destroy

/* ---- the writer (log.c side) ---- */
#define VERIF_MAX_WRITTEN 4
unsigned verif_written;                                  /* number of qb_log_thread_log_write calls */
struct qb_log_callsite *verif_written_cs[VERIF_MAX_WRITTEN];
const char *verif_written_buf[VERIF_MAX_WRITTEN];
int verif_written_lock_depth[VERIF_MAX_WRITTEN];
static void verif_thread_log_write(struct qb_log_callsite *cs, struct timespec *ts, const char *buffer)
{
	if (verif_written < VERIF_MAX_WRITTEN) {
		verif_written_cs[verif_written] = cs;
		verif_written_buf[verif_written] = buffer;
		verif_written_lock_depth[verif_written] = verif_lock_depth;
	}
	verif_written++;
}
#define qb_log_thread_log_write verif_thread_log_write

unsigned verif_printf_calls;
static int verif_printf(const char *fmt, ...) { verif_printf_calls++; return 0; }
#define printf verif_printf

unsigned verif_frees;
static void verif_free(void *p)
{
	verif_frees++;
	free(p);
}
#define free verif_free

#include "log_thread.c"

static void verif_thread_reset(void)
{
	verif_log_os_reset();
	verif_lock_depth = 0; verif_lock_destroyed = 0; verif_lock_creates = 0; verif_lock_destroys = 0; verif_lock_misuse = 0;
	verif_written = 0; verif_printf_calls = 0; verif_frees = 0;
	verif_memcpy_wit = 0; verif_memcpy_calls = 0;
	verif_alloc_calls = 0; verif_alloc_never_fails = 0;
	verif_sem_counted = &logt_print_finished;
	wthread_active = QB_FALSE; wthread_should_exit = QB_FALSE; logt_wthread_lock = NULL;
	qb_list_init(&logt_print_finished_records);
	logt_memory_used = 0; logt_dropped_messages = 0; logt_sched_param_queued = QB_FALSE; logt_thread_id = 0;
}

/* a queued record as qb_log_thread_log_post builds it; the text has length len (<= 7 here) */
static struct qb_log_record *verif_new_record(struct qb_log_callsite *cs, size_t len)
{
	struct qb_log_record *r = verif_new(sizeof(*r));
	size_t i;
	r->cs = cs;
	r->buffer = verif_new(len + 1);
	for (i = 0; i < len; i++) {
		r->buffer[i] = 'x';
	}
	r->buffer[len] = 0;
	r->timestamp.tv_sec = 1; r->timestamp.tv_nsec = 0;
	qb_list_init(&r->list);
	return r;
}
#define VERIF_REC_BYTES(len) ((int)(sizeof(struct qb_log_record) + (len) + 1))
