/*UNIT
{"props": ["C12"], "src": ["lib/log.c"], "mode": "plain", "kind": "bounded", "unwind": 4,
 "bound": "target slots 4 and 31 (accepted calls; the refusal table is proved for every slot number), one registered call-site section with 2 entries, <= 2 filters already stored, filter texts of <= 2 characters (or \"*\"), types FORMAT and the three regex types",
 "functions": ["qb_log_filter_ctl2", "_log_filter_store", "_log_filter_exists", "_log_filter_apply", "_log_filter_apply_to_cs", "_cs_matches_filter_"],
 "stubs": ["calloc / strdup (fresh or NULL)", "regcomp (may fail)", "regexec / strstr (any result, fixed for the call)", "pthread_rwlock_* (sequential no-ops)"],
 "expect_classes": ["assertion"], "timeout": 300,
 "drops": ["pointer-overflow check switched off inside log.c (-DVERIF_LIST_IDIOM): qb_list_for_each_entry computes container_of(list head), a pointer outside the head object that is never dereferenced; pointer dereference and bounds checks stay on"],
 "variants": [{"vname": "refuse_anyslot", "defines": ["-DV_VALID", "-DV_MODE=0", "-DVERIF_SLOT=4", "-DVERIF_LIST_IDIOM"]},
              {"vname": "refuse_args", "defines": ["-DV_VALID", "-DV_MODE=2", "-DVERIF_SLOT=4", "-DVERIF_LIST_IDIOM"]},
              {"vname": "add4", "defines": ["-DV_ADD", "-DVERIF_SLOT=4", "-DVERIF_LIST_IDIOM"]}, {"vname": "add31", "defines": ["-DV_ADD", "-DVERIF_SLOT=31", "-DVERIF_LIST_IDIOM"]},
              {"vname": "clear4", "defines": ["-DV_CLEAR", "-DVERIF_SLOT=4", "-DVERIF_LIST_IDIOM"]}, {"vname": "clear31", "defines": ["-DV_CLEAR", "-DVERIF_SLOT=31", "-DVERIF_LIST_IDIOM"]}]}
*/
/* qb_log_filter_ctl2(t, c, type, text, high, low)
 *  validation  the argument table for ALL argument values: logging not initialised -> -EINVAL; a target operation on a slot
 *              number outside 0..31 or on an unused slot -> -EBADF; no text, low < high, unknown type or unknown operation
 *              -> -EINVAL; every refused call leaves the stored filters and every call site as they were
 *  add         ADD / TAG_SET on a valid target: the filter is stored at the TAIL of the target's (resp. the tag) list with
 *              exactly the given parameters and a private copy of the text, and the SAME filter is applied to every
 *              registered call site (witness site: selected iff it was selected before or the filter matches; unused
 *              section entries are skipped); a duplicate is refused with -EEXIST; allocation / regcomp failures
 *              (-ENOMEM / -EINVAL) store nothing and select nothing
 *  clear       CLEAR_ALL: the target's stored filters are all dropped and no registered call site selects the target any more */
#include "log_common.h"

struct callsite_section verif_sect;
struct qb_log_callsite verif_sites[2];

void harness(void)
{
	verif_log_reset();
	VERIF_ND(int32_t, nd_t);
	VERIF_ND(uint32_t, nd_c);
	VERIF_ND(uint32_t, nd_type);
	VERIF_ND(uint8_t, nd_high);
	VERIF_ND(uint8_t, nd_low);
	VERIF_ND(uint8_t, nd_text_kind);      /* 0: NULL, 1: "*", 2: two arbitrary characters */
	VERIF_ND(uint8_t, nd_c0);
	VERIF_ND(uint8_t, nd_c1);
	VERIF_ND(uint8_t, nd_inited);
	VERIF_ND(uint8_t, nd_state);
	VERIF_ND(uint8_t, nd_nstored);
	VERIF_ND(uint8_t, nd_wsite);
	VERIF_ND(uint8_t, nd_lineno0);
	VERIF_ND(int, nd_regex_rc);
	VERIF_ND(uint8_t, nd_strstr);
	int i;
	char text[3];
	struct qb_log_filter *f1 = NULL, *f2 = NULL;
	struct qb_list_head *head;
	ASSUME(nd_state >= QB_LOG_STATE_UNUSED && nd_state <= QB_LOG_STATE_ENABLED);
	ASSUME(nd_text_kind <= 2 && nd_nstored <= 2 && nd_wsite <= 1 && nd_inited <= 1 && nd_strstr <= 1);
	ASSUME(!(nd_text_kind == 2 && nd_c0 == '*' && nd_c1 == 0));
	ASSUME(nd_c <= 255 && nd_type <= 255);     /* enum arguments: CBMC compares enums as signed int, GCC as unsigned; values >= 2^31 are left out */
	text[0] = nd_text_kind == 1 ? '*' : (char)nd_c0; text[1] = nd_text_kind == 1 ? 0 : (char)nd_c1; text[2] = 0;
	/* (only the addressed slot matters to the code under test; it is set up below, the others stay zero-initialised) */
	logger_inited = nd_inited;
	verif_regex_default = nd_regex_rc; verif_regex_default_set = 1;
	verif_strstr_mode = nd_strstr;
	/* one registered section with two entries; entry 0 may be an unused one (lineno 0) */
	for (i = 0; i < 2; i++) {
		VERIF_ND(uint8_t, nd_cs_priority);
		VERIF_ND(uint32_t, nd_cs_targets);
		VERIF_ND(uint32_t, nd_cs_tags);
		verif_sites[i].function = "fn"; verif_sites[i].filename = "a.c"; verif_sites[i].format = "fmt";
		verif_sites[i].priority = nd_cs_priority; verif_sites[i].lineno = 10 + i;
		verif_sites[i].targets = nd_cs_targets; verif_sites[i].tags = nd_cs_tags; verif_sites[i].message_id = NULL;
	}
	if (nd_lineno0 == 0) { verif_sites[0].lineno = 0; }
	verif_sect.start = &verif_sites[0]; verif_sect.stop = &verif_sites[2];
	qb_list_init(&verif_sect.list);
	qb_list_add(&verif_sect.list, &callsite_sections);
	struct qb_log_callsite cs0 = verif_sites[nd_wsite];

#ifdef V_VALID
	/* V_MODE 0 (refuse_anyslot): EVERY slot number (any int32), no text -> the initialised / range / unused checks for all t
	 * V_MODE 2 (refuse_args):  slot 4, text given, every other argument   -> the remaining rows of the table
	 * (a symbolic slot number on a path that reaches the filter store costs minutes of symex; see log_common.h) */
	const int nd_mode = V_MODE;
	int32_t t = nd_mode == 0 ? nd_t : VERIF_SLOT;
	int t_ok = t >= 0 && t < QB_LOG_TARGET_MAX;
	ASSUME(nd_mode != 0 || nd_text_kind == 0);
	ASSUME(nd_mode == 0 || nd_text_kind != 0);
	/* slots 4 and 7 carry the arbitrary state; the other entries of conf[] stay zero-initialised (not UNUSED) */
	conf[4].pos = 4; conf[4].state = (enum qb_log_target_state)nd_state; qb_list_init(&conf[4].filter_head);
	conf[7].pos = 7; conf[7].state = (enum qb_log_target_state)nd_state; qb_list_init(&conf[7].filter_head);
	int t_unused = (t == 4 || t == 7) && nd_state == QB_LOG_STATE_UNUSED;
	int target_op = nd_c == QB_LOG_FILTER_ADD || nd_c == QB_LOG_FILTER_REMOVE || nd_c == QB_LOG_FILTER_CLEAR_ALL;
	int bad_args = nd_text_kind == 0 || nd_low < nd_high || nd_type > QB_LOG_FILTER_FORMAT_REGEX || nd_c > QB_LOG_TAG_CLEAR_ALL;
	int refused = !nd_inited || (target_op && (!t_ok || t_unused)) || bad_args;
	ASSUME(refused);           /* accepted calls: variants add / clear */
	int32_t rc;

#if V_MODE == 0
	rc = qb_log_filter_ctl2(nd_t, (enum qb_log_filter_conf)nd_c, (enum qb_log_filter_type)nd_type, NULL, nd_high, nd_low);
#else
	rc = qb_log_filter_ctl2(VERIF_SLOT, (enum qb_log_filter_conf)nd_c, (enum qb_log_filter_type)nd_type, text, nd_high, nd_low);
#endif

#if V_MODE == 0
	COVER(!nd_inited); COVER(nd_inited && target_op && nd_t > QB_LOG_TARGET_MAX); COVER(nd_inited && target_op && nd_t < -1);
	COVER(nd_inited && target_op && t == 7 && t_unused);
	COVER(nd_inited && target_op && t == 8);
	COVER(nd_inited && !target_op);
	COVER(nd_inited && nd_c == QB_LOG_FILTER_CLEAR_ALL && t_ok && !t_unused);
#elif V_MODE == 1
	COVER(nd_inited && target_op && !bad_args); COVER(nd_inited && !target_op && bad_args);
#else
	COVER(nd_inited && target_op && t_unused && !bad_args);
	COVER(nd_inited && nd_low < nd_high && !t_unused);
	COVER(nd_inited && nd_type == QB_LOG_FILTER_FORMAT_REGEX + 1 && nd_low >= nd_high && !target_op);
	COVER(nd_inited && nd_c == QB_LOG_TAG_CLEAR_ALL + 1);
	COVER(!nd_inited);
#endif
	if (!nd_inited) {
		POST(rc == -EINVAL, "filter control before initialisation is refused with EINVAL");
	} else if (target_op && (!t_ok || t_unused)) {
		POST(rc == -EBADF, "a target filter operation on a slot that is out of range or unused is refused with EBADF");
	} else {
		POST(rc == -EINVAL, "missing text, inverted priority window, unknown type or unknown operation are refused with EINVAL");
	}
	POST(verif_sites[nd_wsite].targets == cs0.targets && verif_sites[nd_wsite].tags == cs0.tags, "a refused filter call changes no call site");
	POST(qb_list_empty(&tags_head) && qb_list_empty(&conf[4].filter_head) && qb_list_empty(&conf[7].filter_head) && verif_alloc_calls == 0, "a refused filter call stores nothing");
	POST(verif_rwlock_depth == 0, "list lock released on every exit");
#else
	/* accepted calls on slot VERIF_SLOT (4 or 31, a compile-time constant of the variant) */
	nd_t = VERIF_SLOT;
	ASSUME(nd_state != QB_LOG_STATE_UNUSED && nd_inited && nd_text_kind != 0 && nd_low >= nd_high);
	ASSUME(nd_type >= QB_LOG_FILTER_FORMAT && nd_type <= QB_LOG_FILTER_FORMAT_REGEX);     /* file/function lists: units match.tokens */
#ifdef V_ADD
	ASSUME(nd_c == QB_LOG_FILTER_ADD || nd_c == QB_LOG_TAG_SET);
#else
	ASSUME(nd_c == QB_LOG_FILTER_CLEAR_ALL);
#endif
	int is_tag = nd_c == QB_LOG_TAG_SET;
	/* already stored: nd_nstored filters of another kind (so no duplicate) or, for f1, possibly the very same one */
	VERIF_ND(uint8_t, nd_dup);
	int32_t rc = 0;
	conf[VERIF_SLOT].pos = VERIF_SLOT; conf[VERIF_SLOT].state = (enum qb_log_target_state)nd_state; qb_list_init(&conf[VERIF_SLOT].filter_head);
	head = is_tag ? &tags_head : &conf[VERIF_SLOT].filter_head;
	if (nd_nstored >= 1) {
		if (nd_dup) {
			f1 = verif_new_filter((enum qb_log_filter_conf)nd_c, (enum qb_log_filter_type)nd_type, nd_text_kind == 1, (char)nd_c0, (char)nd_c1,
					      nd_high, nd_low, (uint32_t)nd_t, -1);
		} else {
			f1 = verif_new_filter((enum qb_log_filter_conf)nd_c, QB_LOG_FILTER_FORMAT, 0, 'x', 'y', 0, 0, (uint32_t)nd_t + 100, -1);
		}
		qb_list_add_tail(&f1->list, head);
	}
	if (nd_nstored >= 2) {
		f2 = verif_new_filter((enum qb_log_filter_conf)nd_c, QB_LOG_FILTER_FORMAT, 0, 'p', 'q', 0, 0, (uint32_t)nd_t + 200, -1);
		qb_list_add_tail(&f2->list, head);
	}
	rc = qb_log_filter_ctl2(VERIF_SLOT, (enum qb_log_filter_conf)nd_c, (enum qb_log_filter_type)nd_type, text, nd_high, nd_low);
	struct qb_log_callsite *w = &verif_sites[nd_wsite];
	int skipped = (nd_wsite == 0 && nd_lineno0 == 0);          /* unused section entry */
	int is_regex = nd_type >= QB_LOG_FILTER_FILE_REGEX;
	int in_window = cs0.priority >= nd_high && cs0.priority <= nd_low;
	int match = in_window && (nd_text_kind == 1 || (is_regex ? nd_regex_rc == 0 : nd_strstr != 0));
	uint32_t bit = 1u << nd_t;
#ifdef V_ADD
	int dup = nd_nstored >= 1 && nd_dup;
	if (rc == 0) {
		struct qb_log_filter *n = qb_list_entry(head->prev, struct qb_log_filter, list);
		COVER(nd_nstored == 0); COVER(nd_nstored == 2); COVER(is_tag); COVER(is_regex && match); COVER(!is_regex && !match && in_window);
		COVER(skipped); COVER(!skipped && match && !(cs0.targets & bit) && !is_tag);
		POST(!dup, "an identical filter is not stored twice");
		POST(head->prev != head && n != f1 && n != f2, "an accepted filter is stored");
		POST(n->list.next == head && n->list.prev == (nd_nstored == 0 ? head : nd_nstored == 1 ? &f1->list : &f2->list), "the new filter is stored at the tail of the list");
		POST(nd_nstored == 0 ? head->next == &n->list : (head->next == &f1->list && (nd_nstored == 1 ? f1->list.next == &n->list : (f1->list.next == &f2->list && f2->list.next == &n->list))),
		     "filters stored earlier keep their place and order");
		POST(n->conf == (enum qb_log_filter_conf)nd_c && n->type == (enum qb_log_filter_type)nd_type && n->high_priority == nd_high &&
		     n->low_priority == nd_low && n->new_value == (uint32_t)nd_t, "the stored filter carries exactly the given operation, type, priority window and target/tag value");
		POST(n->text != text && n->text[0] == text[0] && (text[0] == 0 || (n->text[1] == text[1] && (text[1] == 0 || n->text[2] == 0))), "the stored filter owns a copy of the given text");
		POST((n->regex != NULL) == is_regex, "a regex filter is stored with its compiled regex, others without");
		if (skipped) {
			POST(w->targets == cs0.targets && w->tags == cs0.tags, "unused call-site entries are not touched");
		} else if (is_tag) {
			POST(w->tags == (match ? (uint32_t)nd_t : cs0.tags) && w->targets == cs0.targets, "the stored tag filter is the one applied to every known call site");
		} else {
			POST(w->targets == (match ? (cs0.targets | bit) : cs0.targets) && w->tags == cs0.tags, "the stored filter is the one applied to every known call site");
		}
	} else {
		COVER(rc == -EEXIST); COVER(rc == -ENOMEM); COVER(rc == -EINVAL && is_regex);
		POST(rc == -EEXIST || rc == -ENOMEM || (rc == -EINVAL && is_regex), "an acceptable filter fails only as duplicate, for lack of memory or for a bad regex");
		POST((rc == -EEXIST) == dup, "EEXIST exactly for a filter that is already stored");
		POST(w->targets == cs0.targets && w->tags == cs0.tags, "a failed filter call changes no call site");
		POST(nd_nstored == 0 ? qb_list_empty(head) : (head->next == &f1->list && head->prev == (nd_nstored == 1 ? &f1->list : &f2->list)), "a failed filter call stores nothing");
	}
#else
	COVER(nd_nstored == 2); COVER(nd_nstored == 0 && (cs0.targets & bit)); COVER(skipped);
	POST(rc == 0, "clear-all on a valid target succeeds");
	POST(qb_list_empty(head), "clear-all drops every stored filter of the target");
	if (skipped) {
		POST(w->targets == cs0.targets, "unused call-site entries are not touched");
	} else {
		POST(w->targets == (cs0.targets & ~bit), "after clear-all no known call site selects the target; other targets' bits stay");
	}
	POST(w->tags == cs0.tags, "target filter operations leave the tags alone");
#endif
	POST(verif_rwlock_depth == 0, "list lock released on every exit");
#endif
}
