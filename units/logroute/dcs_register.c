/*UNIT
{"props": ["C12"], "src": ["lib/log_dcs.c"], "mode": "plain", "kind": "proved",
 "functions": ["_log_register_callsites"],
 "stubs": ["qb_array_index (C19 contract: address of the first element of the bin, or an error)", "qb_log_callsites_register (records the section it is given)"],
 "drops": ["qb_util_log/qb_util_perror diagnostics compiled out (stubs/nolog.h)"],
 "expect_classes": ["assertion"], "timeout": 120, "cbmc_flags": ["--no-malloc-may-fail"]}
*/
/* _log_register_callsites(array, bin): when the array of dynamic call sites gets a new bin, the WHOLE bin --
 * every one of its callsite_elems_per_bin slots, for every bin number and bin size -- is registered as a call
 * site section, so that a filter change is applied to every known dynamic call site (also the last slot of
 * each bin). */
#include "os_base.h"
#include <qb/qbdefs.h>
#include <qb/qblog.h>
#include <qb/qbutil.h>
#include <qb/qbarray.h>
#include "log_int.h"
#include "verif.h"
#include "nolog.h"

struct qb_log_callsite *g_bin_start;
struct qb_log_callsite *g_reg_start, *g_reg_stop;
int g_reg_calls, g_index_calls;
int32_t g_index_arg, g_index_rc;

static int32_t verif_array_index(qb_array_t *a, int32_t idx, void **out)
{
	g_index_calls++; g_index_arg = idx;
	if (g_index_rc == 0) { *out = g_bin_start; }
	return g_index_rc;
}
static int32_t verif_callsites_register(struct qb_log_callsite *start, struct qb_log_callsite *stop)
{
	g_reg_calls++; g_reg_start = start; g_reg_stop = stop;
	return 0;
}
#define qb_array_index verif_array_index
#define qb_log_callsites_register verif_callsites_register
#include "log_dcs.c"

void harness(void)
{
	VERIF_ND(uint32_t, nd_bin);
	VERIF_ND(uint32_t, nd_per_bin);
	VERIF_ND(int32_t, nd_index_rc);
	ASSUME(nd_per_bin >= 1 && nd_per_bin <= 64 && nd_bin <= 4096);
	ASSUME(nd_index_rc <= 0 && nd_index_rc >= -133);
	size_t n = nd_per_bin;
	g_bin_start = malloc(n * sizeof(struct qb_log_callsite));
	ASSUME(g_bin_start != NULL);
	callsite_elems_per_bin = nd_per_bin;
	g_index_rc = nd_index_rc; g_reg_calls = 0; g_index_calls = 0;

	_log_register_callsites(NULL, nd_bin);

	COVER(g_reg_calls == 1); COVER(g_reg_calls == 0);
	POST(g_index_calls == 1 && (uint32_t)g_index_arg == nd_bin * nd_per_bin, "the bin is located by its first element");
	if (nd_index_rc == 0) {
		POST(g_reg_calls == 1 && g_reg_start == g_bin_start, "a new bin of dynamic call sites is registered from its first slot");
		POST(g_reg_stop == g_bin_start + nd_per_bin, "a new bin of dynamic call sites is registered up to and including its last slot (filter changes reach every known call site)");
	} else {
		POST(g_reg_calls == 0, "nothing is registered for a bin that does not exist");
	}
}
