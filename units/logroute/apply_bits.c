/*UNIT
{"props": ["C12"], "src": ["lib/log.c"], "mode": "plain", "kind": "proved",
 "functions": ["_log_filter_apply_to_cs", "_cs_matches_filter_ (inlined; regex / '*' / window branches)"],
 "defines": ["-DVERIF_STRCMP_PREFIX2"],
 "stubs": ["regexec (any result, a function of the regex object)", "strcmp (loop-free over-approximation, exact against one-character strings such as \"*\")"],
 "unwind": 2, "expect_classes": ["assertion"], "timeout": 120}
*/
/* _log_filter_apply_to_cs(cs, t, c, ...) for EVERY operation c, every target bit t (0..31) resp. every tag value,
 * arbitrary previous targets/tags words, and both outcomes of the match (decided by the real matcher from the
 * priority window, the "*" text, a NULL regex, or the regexec stub):
 *   ADD sets bit t iff the filter matches, REMOVE clears it iff it matches, CLEAR_ALL clears it regardless,
 *   TAG_SET stores the tag value iff it matches, TAG_CLEAR zeroes the tags iff it matches, TAG_CLEAR_ALL regardless;
 *   no other bit of cs->targets changes, tags are untouched by target operations and vice versa, and no other
 *   field of the call site is written. */
#include "log_common.h"

void harness(void)
{
	verif_log_reset();
	VERIF_ND(uint32_t, nd_t);
	VERIF_ND(uint8_t, nd_c);
	VERIF_ND(uint8_t, nd_type);
	VERIF_ND(uint8_t, nd_high);
	VERIF_ND(uint8_t, nd_low);
	VERIF_ND(uint8_t, nd_star);
	VERIF_ND(uint8_t, nd_have_regex);
	VERIF_ND(int, nd_regex_rc);
	VERIF_ND(uint8_t, nd_t0);
	VERIF_ND(uint8_t, nd_t1);
	char text[3];
	regex_t re;
	struct qb_log_callsite *cs = verif_build_cs("fn", "file.c", "fmt");
	struct qb_log_callsite cs0;

	ASSUME(nd_c <= QB_LOG_TAG_CLEAR_ALL);
	ASSUME(nd_c > QB_LOG_FILTER_CLEAR_ALL || nd_t < QB_LOG_TARGET_MAX);      /* target operations name a slot */
	ASSUME(nd_type >= QB_LOG_FILTER_FILE_REGEX && nd_type <= QB_LOG_FILTER_FORMAT_REGEX);
	if (nd_star) {
		text[0] = '*'; text[1] = 0;
	} else {
		ASSUME(!(nd_t0 == '*' && nd_t1 == 0));
		text[0] = (char)nd_t0; text[1] = (char)nd_t1;
	}
	text[2] = 0;
	verif_regex_obj[0] = &re;
	verif_regex_result[0] = nd_regex_rc;
	cs0 = *cs;

	_log_filter_apply_to_cs(cs, nd_t, (enum qb_log_filter_conf)nd_c, (enum qb_log_filter_type)nd_type, text,
				nd_have_regex ? &re : NULL, nd_high, nd_low);

	/* the specification of "the filter selects the call site" for this class of filters */
	int in_window = cs0.priority >= nd_high && cs0.priority <= nd_low;
	int match = in_window && (nd_star || (nd_have_regex && nd_regex_rc == 0));
	uint32_t bit = (nd_c <= QB_LOG_FILTER_CLEAR_ALL) ? (1u << nd_t) : 0;

	COVER(match && nd_c == QB_LOG_FILTER_ADD);
	COVER(!match && nd_c == QB_LOG_FILTER_ADD);
	COVER(match && nd_c == QB_LOG_FILTER_REMOVE && (cs0.targets & bit));
	COVER(!match && nd_c == QB_LOG_FILTER_CLEAR_ALL && (cs0.targets & bit));
	COVER(match && nd_c == QB_LOG_TAG_SET);
	COVER(!match && nd_c == QB_LOG_TAG_CLEAR_ALL);
	COVER(match && !nd_star);
	COVER(in_window && !nd_star && nd_have_regex && nd_regex_rc != 0);
	COVER(nd_t == 31 && nd_c == QB_LOG_FILTER_ADD);

	switch (nd_c) {
	case QB_LOG_FILTER_ADD:
		POST(((cs->targets & bit) != 0) == (match || (cs0.targets & bit) != 0), "filter add selects the call site for the target iff the filter matches");
		break;
	case QB_LOG_FILTER_REMOVE:
		POST(((cs->targets & bit) != 0) == (!match && (cs0.targets & bit) != 0), "filter remove deselects the call site iff the filter matches");
		break;
	case QB_LOG_FILTER_CLEAR_ALL:
		POST((cs->targets & bit) == 0, "filter clear-all deselects the call site regardless of the match");
		break;
	case QB_LOG_TAG_SET:
		POST(cs->tags == (match ? nd_t : cs0.tags), "tag set stores the tag value iff the filter matches");
		break;
	case QB_LOG_TAG_CLEAR:
		POST(cs->tags == (match ? 0 : cs0.tags), "tag clear zeroes the tags iff the filter matches");
		break;
	case QB_LOG_TAG_CLEAR_ALL:
		POST(cs->tags == 0, "tag clear-all zeroes the tags regardless of the match");
		break;
	}
	POST((cs->targets & ~bit) == (cs0.targets & ~bit), "a filter operation touches only its own target's bit");
	if (nd_c <= QB_LOG_FILTER_CLEAR_ALL) {
		POST(cs->tags == cs0.tags, "target filter operations leave the tags alone");
	}
	POST(cs->priority == cs0.priority && cs->lineno == cs0.lineno && cs->function == cs0.function &&
	     cs->filename == cs0.filename && cs->format == cs0.format, "a filter operation writes only targets/tags of the call site");
}
