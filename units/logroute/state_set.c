/*UNIT
{"props": ["C12"], "src": ["lib/log.c"], "mode": "plain", "kind": "proved", "unwind": 33,
 "bound": "none: the loops over the 32 target slots have a constant trip count and are fully unwound",
 "functions": ["_log_target_state_set", "qb_log_target_alloc", "_log_target_enable / _log_target_disable (via qb_log_ctl2)", "qb_log_ctl2 (QB_LOG_CONF_ENABLED, QB_LOG_CONF_STATE_GET)"],
 "restrict_fp": ["_log_target_disable.function_pointer_call.1/verif_close_fn", "qb_log_ctl2.function_pointer_call.1/verif_reload_fn"],
 "stubs": ["qb_log_syslog_open / qb_log_stderr_open / qb_log_blackbox_open (any result)", "qb_log_thread_pause / resume (recorded)"],
 "expect_classes": ["assertion"], "timeout": 200,
 "variants": [{"vname": "set", "defines": ["-DV_SET"]}, {"vname": "ctl_enable", "defines": ["-DV_CTL"]}, {"vname": "alloc", "defines": ["-DV_ALLOC"]}]}
*/
/* The delivery loops visit slots 0..conf_active_max only, so "an enabled target receives the message" needs:
 * after every state change EVERY enabled slot index is <= conf_active_max (witness slot w, arbitrary states in all
 * 32 slots, arbitrary previous conf_active_max).
 *  set         _log_target_state_set(t, s) for every slot and every state
 *  ctl_enable  qb_log_ctl2(t, QB_LOG_CONF_ENABLED, on/off): the target ends up enabled iff asked to (and its open
 *              function succeeded), no other slot changes state, call-site selections are not touched, the
 *              invariant holds afterwards; a disabled target's close callback runs with in_logger raised and released
 *  alloc       qb_log_target_alloc: hands out the lowest unused slot in state DISABLED, or NULL/EMFILE when all are used */
#include "log_common.h"

#define VERIF_STATES_AFTER() for (i = 0; i < QB_LOG_TARGET_MAX; i++) { st1[i] = (int32_t)conf[i].state; }

void harness(void)
{
	verif_log_reset();
	VERIF_ND(uint8_t, nd_t);
	VERIF_ND(uint8_t, nd_w);
	VERIF_ND(uint32_t, nd_active_max);
	VERIF_ND(uint8_t, nd_have_close);
	int i;
	int32_t st0[QB_LOG_TARGET_MAX], st1[QB_LOG_TARGET_MAX];
	ASSUME(nd_t < QB_LOG_TARGET_MAX && nd_w < QB_LOG_TARGET_MAX && nd_active_max < QB_LOG_TARGET_MAX);
	for (i = 0; i < QB_LOG_TARGET_MAX; i++) {
		VERIF_ND(uint8_t, nd_state);
		ASSUME(nd_state >= QB_LOG_STATE_UNUSED && nd_state <= QB_LOG_STATE_ENABLED);
		verif_build_slot(i, nd_state, 0, 1, 512);
		st0[i] = nd_state;
	}
	conf_active_max = nd_active_max;
	VERIF_FOR_SLOT(k, nd_t) { conf[k].close = nd_have_close ? verif_close_fn : NULL; }
#ifdef V_SET
	VERIF_ND(uint8_t, nd_s);
	ASSUME(nd_s >= QB_LOG_STATE_UNUSED && nd_s <= QB_LOG_STATE_ENABLED);

	VERIF_FOR_SLOT(k, nd_t) { _log_target_state_set(&conf[k], (enum qb_log_target_state)nd_s); }
	VERIF_STATES_AFTER();

	COVER(nd_s == QB_LOG_STATE_ENABLED && nd_t > nd_active_max);
	COVER(nd_s == QB_LOG_STATE_DISABLED && nd_t == nd_active_max && conf_active_max < nd_active_max);
	COVER(st1[nd_w] == QB_LOG_STATE_ENABLED && nd_w != nd_t && nd_w > nd_active_max);
	POST(st1[nd_t] == nd_s, "the target takes the requested state");
	POST(nd_w == nd_t || st1[nd_w] == st0[nd_w], "no other target changes state");
#endif
#ifdef V_CTL
	VERIF_ND(int32_t, nd_arg);
	VERIF_ND(int32_t, nd_open_rc);
	VERIF_ND(uint8_t, nd_get);
	/* the module invariant before the call (established by every state change, see variant "set") */
	ASSUME(st0[nd_w] != QB_LOG_STATE_ENABLED || nd_w <= nd_active_max);
	ASSUME(st0[nd_t] != QB_LOG_STATE_ENABLED || nd_t <= nd_active_max);
	ASSUME(nd_open_rc <= 0);
	verif_open_rc = nd_open_rc;
	struct qb_log_callsite *cs = verif_build_cs("f", "a.c", "m");
	uint32_t targets0 = cs->targets;

	int32_t rc = 0;
	VERIF_FOR_SLOT(k, nd_t) {
		if (nd_get) {
			rc = qb_log_ctl2(k, QB_LOG_CONF_STATE_GET, QB_LOG_CTL2_I32(nd_arg));
		} else {
			rc = qb_log_ctl2(k, QB_LOG_CONF_ENABLED, QB_LOG_CTL2_I32(nd_arg));
		}
	}
	VERIF_STATES_AFTER();

	if (st0[nd_t] == QB_LOG_STATE_UNUSED) {
		COVER(1);
		POST(rc == -EBADF, "control of an unused target is refused with EBADF");
		POST(st1[nd_t] == QB_LOG_STATE_UNUSED, "refused control changes nothing");
	} else if (nd_get) {
		COVER(rc == QB_LOG_STATE_ENABLED);
		POST(rc == st0[nd_t] && st1[nd_t] == st0[nd_t], "state query reports the state and changes nothing");
	} else if (nd_arg) {
		COVER(rc == 0 && st0[nd_t] == QB_LOG_STATE_DISABLED && nd_t >= QB_LOG_TARGET_DYNAMIC_START);
		COVER(rc != 0);
		COVER(rc == 0 && st0[nd_t] == QB_LOG_STATE_ENABLED);
		POST(rc == 0 || (nd_t < QB_LOG_TARGET_STATIC_MAX && rc == nd_open_rc), "enabling fails only when a built-in target cannot be opened");
		POST((st1[nd_t] == QB_LOG_STATE_ENABLED) == (rc == 0 || st0[nd_t] == QB_LOG_STATE_ENABLED), "a target is enabled exactly when enabling succeeded");
		POST(rc == 0 || st1[nd_t] == st0[nd_t], "failed enable changes nothing");
	} else {
		COVER(st0[nd_t] == QB_LOG_STATE_ENABLED && nd_have_close);
		COVER(st0[nd_t] == QB_LOG_STATE_DISABLED);
		POST(rc == 0 && st1[nd_t] == QB_LOG_STATE_DISABLED, "disabling leaves the target disabled");
		POST(verif_close_calls == ((st0[nd_t] == QB_LOG_STATE_ENABLED && nd_have_close) ? 1u : 0u), "close callback runs once when an enabled target is disabled");
		POST(verif_close_calls == 0 || verif_close_arg == nd_t, "close callback is told its own target");
	}
	POST(nd_w == nd_t || st1[nd_w] == st0[nd_w], "no other target changes state");
	POST(cs->targets == targets0, "enable/disable never touches a call site's selection");
	POST(in_logger == QB_FALSE, "in_logger is released on every exit");
	POST(verif_pause_depth == 0, "logging thread pause/resume balanced on every exit");
#endif
#ifdef V_ALLOC
	VERIF_ND(uint8_t, nd_lower);
	ASSUME(st0[nd_w] != QB_LOG_STATE_ENABLED || nd_w <= nd_active_max);     /* module invariant before the call */
	struct qb_log_target *t = qb_log_target_alloc();
	VERIF_STATES_AFTER();

	if (t != NULL) {
		uint32_t p = t->pos;
		COVER(p == 0); COVER(p == QB_LOG_TARGET_MAX - 1);
		POST(p < QB_LOG_TARGET_MAX && t == &conf[p], "alloc hands out one of the 32 slots");
		POST(st0[p] == QB_LOG_STATE_UNUSED && st1[p] == QB_LOG_STATE_DISABLED, "alloc hands out an unused slot, now disabled");
		POST(nd_lower >= p || st0[nd_lower] != QB_LOG_STATE_UNUSED, "alloc hands out the lowest unused slot");
		POST(nd_w == p || st1[nd_w] == st0[nd_w], "no other target changes state");
	} else {
		COVER(1);
		POST(st0[nd_w] != QB_LOG_STATE_UNUSED, "alloc fails only when every slot is in use");
		POST(errno == EMFILE, "alloc failure reports EMFILE");
		POST(st1[nd_w] == st0[nd_w], "failed alloc changes nothing");
	}
#endif
	POST(conf_active_max < QB_LOG_TARGET_MAX, "conf_active_max stays a valid slot index");
	POST(st1[nd_w] != QB_LOG_STATE_ENABLED || nd_w <= conf_active_max, "every enabled target is within conf_active_max (the delivery loop reaches it)");
}
