/* common prelude of the log.c units (C12, and the log.c side of C16).
 * The real lib/log.c is #included; everything it calls in OTHER files is a stub that records the call:
 *   qb_log_thread_log_post / _pause / _resume / _stop   (log_thread.c: has its own units)
 *   qb_log_dcs_get / _init / _fini                      (call-site store: a fresh or known call site, chosen by the harness)
 *   qb_log_format_init / _fini / qb_log_format_set, qb_log_syslog_open / _stderr_open / _blackbox_open (any result)
 *   qb_util_timespec_from_epoch_get (any time), strlcpy (bounded copy)
 * Target model: the 32 slots of conf[] with arbitrary state in {UNUSED, DISABLED, ENABLED}, pos == index
 * (established by qb_log_init), arbitrary threaded flag, logger/vlogger = recording stubs. */
#include "os_base.h"
/* declared extraction drop: PATH_MAX (size of the name[] / filename[] members of struct qb_log_target, 2 x 4096 bytes
 * in each of the 32 slots) is reduced to 16 for the verification build -- no function under contract here reads them;
 * with the real size every counterexample trace lists 262144 initial array elements (2.6 GB of JSON). */
#undef PATH_MAX
#ifndef VERIF_PATH_MAX
#define VERIF_PATH_MAX 16
#endif
#define PATH_MAX VERIF_PATH_MAX
#include <pthread.h>
#include <regex.h>
#include <qb/qbdefs.h>
#include <qb/qblist.h>
#include <qb/qblog.h>
#include <qb/qbutil.h>
#include <qb/qbarray.h>
#include <qb/qbatomic.h>
#include "log_int.h"
#include "util_int.h"
#include "verif.h"
#include "atomic.h"
#include "log_os.h"

/* ---- ghost state of the cross-file stubs ---- */
unsigned verif_post_calls;                 /* qb_log_thread_log_post */
struct qb_log_callsite *verif_post_cs;
const char *verif_post_buf;
int verif_pause_depth;                     /* pause() minus resume() */
unsigned verif_pause_calls, verif_resume_calls;
struct qb_log_target *verif_pause_target;
unsigned verif_thread_stop_calls;
struct qb_log_callsite *verif_dcs_cs;      /* what qb_log_dcs_get returns */
int32_t verif_dcs_new;                     /* ... and whether it reports it as newly created */
unsigned verif_dcs_calls;
unsigned verif_format_set_calls;
int32_t verif_open_rc;                     /* result of the static targets' open functions */

static void verif_qb_log_thread_log_post(struct qb_log_callsite *cs, struct timespec *ts, const char *buffer)
{
	verif_post_calls++;
	verif_post_cs = cs;
	verif_post_buf = buffer;
}
static void verif_qb_log_thread_pause(struct qb_log_target *t) { verif_pause_depth++; verif_pause_calls++; verif_pause_target = t; }
static void verif_qb_log_thread_resume(struct qb_log_target *t) { verif_pause_depth--; verif_resume_calls++; }
static void verif_qb_log_thread_stop(void) { verif_thread_stop_calls++; }
static struct qb_log_callsite *verif_qb_log_dcs_get(int32_t *newly_created, const char *message_id, const char *function,
						  const char *filename, const char *format, uint8_t priority,
						  uint32_t lineno, uint32_t tags)
{
	verif_dcs_calls++;
	if (verif_dcs_cs != NULL && verif_dcs_new) {
		*newly_created = QB_TRUE;
	}
	return verif_dcs_cs;
}
static void verif_qb_log_dcs_init(void) { }
static void verif_qb_log_dcs_fini(void) { }
static void verif_qb_log_format_init(void) { }
static void verif_qb_log_format_fini(void) { }
static void verif_qb_log_format_set(int32_t t, const char *format) { verif_format_set_calls++; }
static int32_t verif_qb_log_open(struct qb_log_target *t) { return verif_open_rc; }
static void verif_timespec_from_epoch_get(struct timespec *ts)
{
	VERIF_ND(int32_t, nd_now_sec);
	ts->tv_sec = nd_now_sec;
	ts->tv_nsec = 0;
}
static size_t verif_strlcpy(char *dest, const char *src, size_t maxlen)
{
	size_t n = 0;
	while (src[n] != 0) {
		if (n + 1 < maxlen) {
			dest[n] = src[n];
		}
		n++;
	}
	if (maxlen > 0) {
		dest[n < maxlen ? n : maxlen - 1] = 0;
	}
	return n;
}
#define qb_log_thread_log_post verif_qb_log_thread_log_post
#define qb_log_thread_pause verif_qb_log_thread_pause
#define qb_log_thread_resume verif_qb_log_thread_resume
#define qb_log_thread_stop verif_qb_log_thread_stop
#define qb_log_dcs_get verif_qb_log_dcs_get
#define qb_log_dcs_init verif_qb_log_dcs_init
#define qb_log_dcs_fini verif_qb_log_dcs_fini
#define qb_log_format_init verif_qb_log_format_init
#define qb_log_format_fini verif_qb_log_format_fini
#define qb_log_format_set verif_qb_log_format_set
#define qb_log_syslog_open verif_qb_log_open
#define qb_log_stderr_open verif_qb_log_open
#define qb_log_blackbox_open verif_qb_log_open
#define qb_util_timespec_from_epoch_get verif_timespec_from_epoch_get
#define strlcpy verif_strlcpy

/* -DVERIF_LIST_IDIOM (declared drop of the units that walk libqb lists): qb_list_for_each_entry() ends by computing
 * container_of(list head) -- a pointer outside the head object that is compared, never dereferenced.  CBMC's
 * pointer-overflow check flags that arithmetic; it is switched off inside log.c for these units (dereference and
 * bounds checks stay on). */
#ifdef VERIF_LIST_IDIOM
#pragma CPROVER check push
#pragma CPROVER check disable "pointer-overflow"
#endif
#include "log.c"
#ifdef VERIF_LIST_IDIOM
#pragma CPROVER check pop
#endif

/* ---- recording target callbacks ---- */
int32_t verif_wit_slot;                    /* the witness slot (chosen freely by the harness) */
unsigned verif_wit_logger_calls;           /* logger invocations for the witness slot */
unsigned verif_wit_vlogger_calls;
unsigned verif_all_logger_calls;           /* logger + vlogger invocations, all slots */
unsigned verif_bad_logger_args;            /* a callback saw a wrong call site / target id / message */
struct qb_log_callsite *verif_expect_cs;
int32_t verif_in_logger_seen;              /* value of in_logger observed inside a callback */
unsigned verif_close_calls, verif_reload_calls;
int32_t verif_close_arg;

static void verif_logger(int32_t t, struct qb_log_callsite *cs, struct timespec *ts, const char *msg)
{
	verif_all_logger_calls++;
	if (t == verif_wit_slot) {
		verif_wit_logger_calls++;
	}
	if (cs != verif_expect_cs || t < 0 || t >= QB_LOG_TARGET_MAX || msg == NULL || ts == NULL) {
		verif_bad_logger_args++;
	}
	verif_in_logger_seen = in_logger;
}
static void verif_vlogger(int32_t t, struct qb_log_callsite *cs, struct timespec *ts, va_list ap)
{
	verif_all_logger_calls++;
	if (t == verif_wit_slot) {
		verif_wit_vlogger_calls++;
	}
	if (cs != verif_expect_cs || t < 0 || t >= QB_LOG_TARGET_MAX || ts == NULL) {
		verif_bad_logger_args++;
	}
	verif_in_logger_seen = in_logger;
}
static void verif_close_fn(int32_t t) { verif_close_calls++; verif_close_arg = t; }
static void verif_reload_fn(int32_t t) { verif_reload_calls++; }
static void verif_old_log_fn(const char *file_name, int32_t file_line, int32_t severity, const char *msg) { }

/* ---- module state builders ---- */
void (*verif_keep_fp[8])(void);   /* the address of every restrict_fp target must be taken somewhere */
static void verif_log_reset(void)
{
	verif_keep_fp[0] = (void (*)(void))verif_logger; verif_keep_fp[1] = (void (*)(void))verif_vlogger;
	verif_keep_fp[2] = (void (*)(void))verif_close_fn; verif_keep_fp[3] = (void (*)(void))verif_reload_fn;
	verif_keep_fp[4] = (void (*)(void))verif_old_log_fn;
	verif_log_os_reset();
	verif_post_calls = 0; verif_post_cs = NULL; verif_post_buf = NULL;
	verif_pause_depth = 0; verif_pause_calls = 0; verif_resume_calls = 0; verif_pause_target = NULL;
	verif_thread_stop_calls = 0;
	verif_dcs_cs = NULL; verif_dcs_new = 0; verif_dcs_calls = 0; verif_format_set_calls = 0; verif_open_rc = 0;
	verif_wit_slot = -1; verif_wit_logger_calls = 0; verif_wit_vlogger_calls = 0; verif_all_logger_calls = 0;
	verif_bad_logger_args = 0; verif_expect_cs = NULL; verif_in_logger_seen = -1;
	verif_close_calls = 0; verif_reload_calls = 0; verif_close_arg = -1;
	verif_alloc_calls = 0; verif_alloc_never_fails = 0;
	in_logger = QB_FALSE;
	logger_inited = QB_TRUE;
	old_internal_log_fn = NULL;
	_custom_filter_fn = NULL;
	qb_list_init(&tags_head);
	qb_list_init(&callsite_sections);
}

/* Symbolic slot numbers: indexing conf[] (32 large structs) with a symbolic index, or handing the real code a symbolic
 * slot number, makes symex 100x slower (measured: 70 s vs 0.6 s).  The harnesses therefore case-split on the slot:
 * VERIF_FOR_SLOT(k, idx) { ... conf[k] ... } runs its body once, with k a CONSTANT equal to idx (all 32 cases). */
#define VERIF_FOR_SLOT(k, idx) for (int k = 0; k < QB_LOG_TARGET_MAX; k++) if (k == (int)(idx))

/* one slot with arbitrary state / threaded flag / callback kind; filter list empty */
static void verif_build_slot(int i, int32_t state, int32_t threaded, int kind, size_t max_line)
{
	conf[i].pos = (uint32_t)i;
	conf[i].state = (enum qb_log_target_state)state;
	conf[i].threaded = threaded;
	conf[i].extended = QB_TRUE;
	conf[i].max_line_length = max_line;
	conf[i].logger = (kind & 1) ? verif_logger : NULL;
	conf[i].vlogger = (kind & 2) ? verif_vlogger : NULL;
	conf[i].close = NULL;
	conf[i].reload = NULL;
	qb_list_init(&conf[i].filter_head);
}

/* a call site with arbitrary scalar fields; the strings are supplied by the caller */
static struct qb_log_callsite *verif_build_cs(const char *function, const char *filename, const char *format)
{
	VERIF_ND(uint8_t, nd_cs_priority);
	VERIF_ND(uint32_t, nd_cs_lineno);
	VERIF_ND(uint32_t, nd_cs_targets);
	VERIF_ND(uint32_t, nd_cs_tags);
	struct qb_log_callsite *cs = verif_new(sizeof(*cs));
	ASSUME(nd_cs_lineno > 0);
	cs->function = function;
	cs->filename = filename;
	cs->format = format;
	cs->priority = nd_cs_priority;
	cs->lineno = nd_cs_lineno;
	cs->targets = nd_cs_targets;
	cs->tags = nd_cs_tags;
	cs->message_id = NULL;
	return cs;
}

/* a stored filter (heap objects throughout, as _log_filter_store creates them, so the real code may free them).
 * text is "*" (star != 0) or the two-character string {c0, c1}; regex_slot >= 0 attaches a compiled regex whose
 * regexec result is verif_regex_result[regex_slot]. */
static struct qb_log_filter *verif_new_filter(enum qb_log_filter_conf c, enum qb_log_filter_type type, int star, char c0, char c1,
					     uint8_t high, uint8_t low, uint32_t new_value, int regex_slot)
{
	struct qb_log_filter *f = verif_new(sizeof(*f));
	f->conf = c;
	f->type = type;
	f->text = verif_new(3);
	f->text[0] = star ? '*' : c0;
	f->text[1] = star ? 0 : c1;
	f->text[2] = 0;
	f->high_priority = high;
	f->low_priority = low;
	f->new_value = new_value;
	f->regex = NULL;
	if (regex_slot >= 0) {
		f->regex = verif_new(sizeof(regex_t));
		verif_regex_obj[regex_slot] = f->regex;
	}
	qb_list_init(&f->list);
	return f;
}
