/*UNIT
{"props": ["C12"], "src": ["lib/log.c"], "mode": "plain",
 "functions": ["_cs_matches_filter_"],
 "expect_classes": ["assertion"], "timeout": 200,
 "variants": [
  {"vname": "rules", "kind": "proved", "unwind": 2, "defines": ["-DV_RULES", "-DVERIF_STRCMP_PREFIX2"],
   "stubs": ["regexec (any result)", "strstr (any result, arguments recorded)", "strcmp (loop-free over-approximation, exact against \"*\")"]},
  {"vname": "tokens", "kind": "bounded", "bound": "filter text <= 7 characters, call-site file/function name <= 3 characters", "unwind": 9, "defines": ["-DV_TOKENS"],
   "stubs": ["strchrnul, strcmp (reference loops)", "snprintf(\"%.*s\") (reference implementation)"]}
 ]}
*/
/* _cs_matches_filter_: "a filter selects by priority window plus exact file name, exact function name
 * (comma-separated alternatives allowed), format substring, or the corresponding regular expression, and '*'
 * selects everything".
 *  rules  (unbounded): the window is tested first (outside => no match, whatever the rest); "*" matches everything
 *         inside the window; FORMAT matches iff strstr(call site's format, text) finds it; the regex types match iff
 *         regexec says so, applied to the call site's file name / function name / format resp.; no regex => no match.
 *  tokens (bounded): FILE / FUNCTION match iff one of the comma-separated alternatives equals the call site's
 *         file resp. function name -- against an independently written reference splitter. */
#include "log_common.h"

#ifdef V_TOKENS
#define TLEN 8
#define NLEN 4
/* reference: does the comma-separated list `text` contain `name` as one complete alternative?
 * returns 1 yes, 0 no, 2 "only as the empty alternative after a trailing comma" (left open by the statement) */
static int ref_list_contains(const char *text, const char *name)
{
	int i = 0, start = 0, res = 0;
	for (i = 0; i < TLEN; i++) {
		if (text[i] == ',' || text[i] == 0) {
			/* alternative text[start..i) */
			int len = i - start, k, eq = 1;
			for (k = 0; k < NLEN; k++) {
				if (k < len) {
					if (name[k] != text[start + k]) { eq = 0; }
				} else if (k == len) {
					if (name[k] != 0) { eq = 0; }
				}
			}
			if (len >= NLEN) { eq = 0; }
			if (eq) {
				if (text[i] == 0 && len == 0 && i > 0) {
					if (res == 0) { res = 2; }
				} else {
					res = 1;
				}
			}
			start = i + 1;
			if (text[i] == 0) {
				break;
			}
		}
	}
	return res;
}
#endif

void harness(void)
{
	verif_log_reset();
	VERIF_ND(uint8_t, nd_type);
	VERIF_ND(uint8_t, nd_high);
	VERIF_ND(uint8_t, nd_low);
	const char *fn = "function_name", *file = "file_name.c", *fmt = "format %d";
#ifdef V_RULES
	VERIF_ND(uint8_t, nd_star);
	VERIF_ND(uint8_t, nd_have_regex);
	VERIF_ND(int, nd_regex_rc);
	VERIF_ND(uint8_t, nd_t0);
	VERIF_ND(uint8_t, nd_t1);
	char text[3];
	regex_t re;
	struct qb_log_callsite *cs = verif_build_cs(fn, file, fmt);
	ASSUME(nd_type >= QB_LOG_FILTER_FORMAT && nd_type <= QB_LOG_FILTER_FORMAT_REGEX);
	if (nd_star) {
		text[0] = '*'; text[1] = 0;
	} else {
		ASSUME(!(nd_t0 == '*' && nd_t1 == 0));
		text[0] = (char)nd_t0; text[1] = (char)nd_t1;
	}
	text[2] = 0;
	verif_regex_obj[0] = &re;
	verif_regex_result[0] = nd_regex_rc;

	int32_t m = _cs_matches_filter_(cs, (enum qb_log_filter_type)nd_type, text, nd_have_regex ? &re : NULL, nd_high, nd_low);

	int in_window = cs->priority >= nd_high && cs->priority <= nd_low;
	POST(m == QB_TRUE || m == QB_FALSE, "match result is a truth value");
	if (!in_window) {
		COVER(nd_star); COVER(cs->priority > nd_low); COVER(cs->priority < nd_high);
		POST(m == QB_FALSE, "a call site outside the priority window is never selected");
		POST(verif_regexec_calls == 0 && verif_strstr_calls == 0, "the priority window is tested first");
	} else if (nd_star) {
		COVER(nd_type == QB_LOG_FILTER_FILE_REGEX && !nd_have_regex);
		POST(m == QB_TRUE, "'*' selects everything inside the priority window");
	} else if (nd_type == QB_LOG_FILTER_FORMAT) {
		COVER(m == QB_TRUE); COVER(m == QB_FALSE);
		POST(verif_strstr_calls == 1 && verif_strstr_hay == fmt && verif_strstr_needle == text, "format filter looks for its text inside the call site's format");
		POST((m == QB_TRUE) == (verif_strstr_found != 0), "format filter selects iff its text is a substring of the format");
	} else if (!nd_have_regex) {
		COVER(1);
		POST(m == QB_FALSE, "a regex filter without a compiled regex selects nothing");
		POST(verif_regexec_calls == 0, "no regex => regexec is not called");
	} else {
		COVER(m == QB_TRUE && nd_type == QB_LOG_FILTER_FILE_REGEX);
		COVER(m == QB_FALSE && nd_type == QB_LOG_FILTER_FUNCTION_REGEX);
		COVER(nd_type == QB_LOG_FILTER_FORMAT_REGEX);
		POST(verif_regexec_calls == 1 && verif_regexec_regex == &re, "regex filter consults its own compiled regex once");
		POST(verif_regexec_subject == (nd_type == QB_LOG_FILTER_FILE_REGEX ? file : nd_type == QB_LOG_FILTER_FUNCTION_REGEX ? fn : fmt),
		     "regex filter is applied to the corresponding call-site field (file / function / format)");
		POST((m == QB_TRUE) == (nd_regex_rc == 0), "regex filter selects iff the regular expression matches");
	}
#else
	char text[TLEN], name[NLEN];
	int i;
	for (i = 0; i < TLEN - 1; i++) {
		VERIF_ND(uint8_t, nd_text_ch);
		text[i] = (char)nd_text_ch;
	}
	text[TLEN - 1] = 0;
	for (i = 0; i < NLEN - 1; i++) {
		VERIF_ND(uint8_t, nd_name_ch);
		ASSUME(nd_name_ch != ',');
		name[i] = (char)nd_name_ch;
	}
	name[NLEN - 1] = 0;
	ASSUME(!(text[0] == '*' && text[1] == 0));
	ASSUME(nd_type == QB_LOG_FILTER_FILE || nd_type == QB_LOG_FILTER_FUNCTION);
	struct qb_log_callsite *cs = verif_build_cs(nd_type == QB_LOG_FILTER_FUNCTION ? name : "other_fn",
						   nd_type == QB_LOG_FILTER_FILE ? name : "other_file.c", fmt);
	ASSUME(cs->priority >= nd_high && cs->priority <= nd_low);

	int32_t m = _cs_matches_filter_(cs, (enum qb_log_filter_type)nd_type, text, NULL, nd_high, nd_low);

	int ref = ref_list_contains(text, name);
	COVER(ref == 1 && nd_type == QB_LOG_FILTER_FILE);
	COVER(ref == 1 && nd_type == QB_LOG_FILTER_FUNCTION && text[0] != name[0]);      /* second or later alternative */
	COVER(ref == 0 && name[0] == text[0] && name[0] != 0);                           /* proper prefix is not a match */
	COVER(ref == 2);
	COVER(text[0] == 0);
	COVER(text[1] == ',' && text[2] == ',' );
	POST(m == QB_TRUE || m == QB_FALSE, "match result is a truth value");
	if (ref == 1) {
		POST(m == QB_TRUE, "file/function filter selects a call site whose name equals one of the comma-separated alternatives");
	} else if (ref == 0) {
		POST(m == QB_FALSE, "file/function filter selects only exact names (no prefix, no substring, no other field)");
	}
#endif
}
