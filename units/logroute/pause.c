/*UNIT
{"props": ["C16"], "src": ["lib/log_thread.c"], "mode": "plain", "kind": "proved", "unwind": 3,
 "functions": ["qb_log_thread_pause", "qb_log_thread_resume", "qb_log_thread_stop (as the way into the stopped state)"],
 "stubs": ["qb_thread_lock_* (sequential; use of a missing or destroyed lock is flagged)", "sem_* / pthread_join (ghost)"],
 "expect_classes": ["assertion"], "timeout": 120,
 "variants": [{"vname": "running", "defines": ["-DV_RUNNING"]},
              {"vname": "unthreaded", "defines": ["-DV_UNTHREADED"]},
              {"vname": "never_started", "defines": ["-DV_NEVER"]},
              {"vname": "after_stop", "defines": ["-DV_RUNNING", "-DV_AFTER_STOP"]}]}
*/
/* qb_log_thread_pause / qb_log_thread_resume bracket every control operation on a target (qb_log_ctl2).  "Control
 * operations on targets are safe whether they happen before the thread is started, while it is busy, or after it was
 * stopped": in every module state the API can reach, pause + resume take and release a LIVE lock or none at all, and
 * leave the lock depth balanced.
 *  running        thread started, target threaded or not
 *  unthreaded     any module state, target not threaded: the lock is not touched
 *  never_started  target already switched to threaded mode, qb_log_thread_start() not called yet (logt_wthread_lock == NULL)
 *                 [isolated: qb_thread_lock(NULL) -- genuine defect #24]
 *  after_stop     thread started and stopped again (qb_log_fini), target still threaded
 *                 [isolated: the destroyed lock is taken -- genuine defect #18] */
#include "thread_common.h"

void harness(void)
{
	verif_thread_reset();
	VERIF_ND(uint8_t, nd_threaded);
	VERIF_ND(uint8_t, nd_state);
	struct qb_log_target tgt;
	ASSUME(nd_threaded <= 1 && nd_state <= 2);
	tgt.threaded = nd_threaded;
#ifdef V_RUNNING
	logt_wthread_lock = verif_lt_lock_create(QB_THREAD_LOCK_SHORT);
	wthread_active = QB_TRUE;
#endif
#ifdef V_UNTHREADED
	tgt.threaded = QB_FALSE;
	if (nd_state == 1) { logt_wthread_lock = verif_lt_lock_create(QB_THREAD_LOCK_SHORT); wthread_active = QB_TRUE; }
	if (nd_state == 2) { logt_wthread_lock = verif_lt_lock_create(QB_THREAD_LOCK_SHORT); wthread_active = QB_TRUE; qb_log_thread_stop(); }
#endif
#ifdef V_NEVER
	tgt.threaded = QB_TRUE;
#endif
#ifdef V_AFTER_STOP
	tgt.threaded = QB_TRUE;
	qb_log_thread_stop();
#endif
	int depth0 = verif_lock_depth;
	unsigned misuse0 = verif_lock_misuse;

	qb_log_thread_pause(&tgt);
	int depth1 = verif_lock_depth;
	qb_log_thread_resume(&tgt);

#ifndef V_UNTHREADED
	COVER(tgt.threaded);
#endif
#ifdef V_RUNNING
#ifndef V_AFTER_STOP
	COVER(!tgt.threaded);
#endif
#endif
#ifdef V_UNTHREADED
	COVER(nd_state == 2); COVER(nd_state == 0);
#endif
	POST(verif_lock_misuse == misuse0, "pause/resume never use a missing or destroyed lock, in any module state");
	POST(depth1 == depth0 || (depth1 == depth0 + 1 && tgt.threaded), "pause takes the lock at most once, and only for threaded targets");
#if defined(V_RUNNING) && !defined(V_AFTER_STOP)
	POST(depth1 == depth0 + (tgt.threaded ? 1 : 0), "while the logging thread runs, pause holds it off exactly for threaded targets");
#endif
	POST(verif_lock_depth == depth0, "pause/resume are balanced");
}
