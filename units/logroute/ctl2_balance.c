/*UNIT
{"props": ["C16"], "src": ["lib/log.c"], "mode": "plain", "kind": "proved", "unwind": 6, "unwindset": ["_log_target_state_set.0:33"],
 "bound": "none for the claim; the identifier string of QB_LOG_CONF_IDENT is <= 4 characters; the slot number is a compile-time constant per variant",
 "functions": ["qb_log_ctl2", "_log_target_enable", "_log_target_disable"],
 "restrict_fp": ["_log_target_disable.function_pointer_call.1/verif_close_fn", "qb_log_ctl2.function_pointer_call.1/verif_reload_fn"],
 "stubs": ["qb_log_thread_pause / qb_log_thread_resume (recorded; their own safety is unit pause)", "qb_log_*_open (any result <= 0)", "strlcpy (reference loop)"],
 "expect_classes": ["assertion"], "timeout": 200,
 "variants": [{"vname": "custom", "defines": ["-DVERIF_SLOT=4"]}, {"vname": "syslog", "defines": ["-DVERIF_SLOT=0"]}, {"vname": "blackbox", "defines": ["-DVERIF_SLOT=2"]}]}
*/
/* qb_log_ctl2(t, c, arg) for EVERY configuration directive c (also unknown ones) and argument, target in any state:
 * the logging thread is paused and resumed in matching pairs on every exit path, including the -EINVAL / -ENOSYS / -EBADF
 * exits (ghost depth back to 0, pause and resume name the same target), QB_LOG_CONF_THREADED neither pauses nor resumes,
 * a refused call (unused target / not initialised) pauses nothing, and in_logger is released on every exit. */
#include "log_common.h"

void harness(void)
{
	verif_log_reset();
	VERIF_ND(uint8_t, nd_c);
	VERIF_ND(int32_t, nd_arg);
	VERIF_ND(uint8_t, nd_state);
	VERIF_ND(uint8_t, nd_threaded);
	VERIF_ND(uint8_t, nd_inited);
	VERIF_ND(int32_t, nd_open_rc);
	VERIF_ND(uint8_t, nd_have_cb);
	VERIF_ND(uint8_t, nd_i0); VERIF_ND(uint8_t, nd_i1);
	char ident[5] = { 'a', 'b', 'c', 'd', 0 };
	ASSUME(nd_state >= QB_LOG_STATE_UNUSED && nd_state <= QB_LOG_STATE_ENABLED && nd_threaded <= 1 && nd_inited <= 1);
	ASSUME(nd_open_rc <= 0 && nd_c <= QB_LOG_CONF_USE_JOURNAL + 2);
	ident[0] = (char)nd_i0; ident[1] = (char)nd_i1;
	verif_build_slot(VERIF_SLOT, nd_state, nd_threaded, 1, QB_LOG_MAX_LEN);
	conf[VERIF_SLOT].close = nd_have_cb ? verif_close_fn : NULL;
	conf[VERIF_SLOT].reload = nd_have_cb ? verif_reload_fn : NULL;
	conf_active_max = VERIF_SLOT;
	logger_inited = nd_inited;
	verif_open_rc = nd_open_rc;
	qb_log_ctl2_arg_t arg;
	if (nd_c == QB_LOG_CONF_IDENT) {
		arg.s = ident;
	} else {
		arg.s = NULL;          /* clear all bytes of the union */
		arg.i32 = nd_arg;
	}

	int32_t rc = qb_log_ctl2(VERIF_SLOT, (enum qb_log_conf)nd_c, arg);

	int refused = !nd_inited || nd_state == QB_LOG_STATE_UNUSED;
	COVER(refused); COVER(!refused && nd_c == QB_LOG_CONF_THREADED); COVER(!refused && rc == -EINVAL); COVER(!refused && rc == -ENOSYS);
	COVER(!refused && nd_c == QB_LOG_CONF_ENABLED && nd_arg && rc == 0); COVER(!refused && nd_c == QB_LOG_CONF_IDENT);
#if VERIF_SLOT == 0 || VERIF_SLOT == 2
	COVER(!refused && verif_reload_calls == 1);
#endif
#if VERIF_SLOT == 2
	COVER(!refused && nd_c == QB_LOG_CONF_SIZE && rc == 0);
#endif
	POST(verif_pause_depth == 0, "pause/resume of the logging thread are balanced on every exit path");
	POST(verif_pause_calls == verif_resume_calls && verif_pause_calls <= 1, "at most one pause per control call, each followed by its resume");
	if (refused) {
		POST(rc == (nd_inited ? -EBADF : -EINVAL), "control of an unused target / before initialisation is refused");
		POST(verif_pause_calls == 0, "a refused control call does not pause the logging thread");
	} else if (nd_c == QB_LOG_CONF_THREADED) {
		POST(verif_pause_calls == 0, "switching threaded mode neither pauses nor resumes (the flag decides whether the lock is used)");
		POST(conf[VERIF_SLOT].threaded == nd_arg && rc == 0, "threaded mode is stored");
	} else {
		POST(verif_pause_calls == 1 && verif_pause_target == &conf[VERIF_SLOT], "a control call holds the logging thread off while it reconfigures its target");
		POST(conf[VERIF_SLOT].threaded == (int32_t)nd_threaded, "threaded mode is not changed between pause and resume");
	}
	POST(in_logger == QB_FALSE, "in_logger is released on every exit");
}
