/*UNIT
{"props": ["C12"], "src": ["lib/log.c"], "mode": "plain", "kind": "bounded", "unwind": 4, "unwindset": ["_log_target_state_set.0:33", "harness.0:33"],
 "bound": "custom target in slot 4 with one stored filter, one registered call-site section with one entry; the scan over the 32 slots is fully unwound",
 "functions": ["qb_log_custom_close", "qb_log_target_free", "qb_log_filter_ctl2 (as called by qb_log_target_free)"],
 "restrict_fp": ["qb_log_custom_close.function_pointer_call.1/verif_close_fn"],
 "stubs": ["qb_log_format_set (recorded)", "pthread_rwlock_* (sequential no-ops)"],
 "drops": ["pointer-overflow check switched off inside log.c (-DVERIF_LIST_IDIOM), see log_common.h"],
 "expect_classes": ["assertion"], "timeout": 300,
 "variants": [{"vname": "state", "defines": ["-DVERIF_LIST_IDIOM", "-DV_STATEPART"]},
              {"vname": "filters", "defines": ["-DVERIF_LIST_IDIOM", "-DV_FILTERPART"]}]}
*/
/* qb_log_custom_close(t): closing a target ("target open/close" in the property's histories).
 *  state    the close callback runs once (with in_logger raised, released afterwards), the slot becomes UNUSED and can be
 *           handed out again, no other slot changes, every enabled slot stays within conf_active_max
 *  filters  the closed target's stored filters are gone and no known call site selects the slot any more -- otherwise the
 *           NEXT target opened in this slot receives messages its own filters never selected
 *           [isolated: qb_log_target_free passes text == NULL to qb_log_filter_ctl, which refuses it -- genuine defect] */
#include "log_common.h"

struct callsite_section verif_sect;
struct qb_log_callsite verif_sites[1];

void harness(void)
{
	verif_log_reset();
	VERIF_ND(uint8_t, nd_state);
	VERIF_ND(uint8_t, nd_have_close);
	VERIF_ND(uint8_t, nd_other_state);
	VERIF_ND(uint32_t, nd_cs_targets);
	VERIF_ND(uint8_t, nd_h1); VERIF_ND(uint8_t, nd_l1);
	struct qb_log_filter *f1;
	ASSUME(nd_state == QB_LOG_STATE_DISABLED || nd_state == QB_LOG_STATE_ENABLED);
	ASSUME(nd_other_state >= QB_LOG_STATE_UNUSED && nd_other_state <= QB_LOG_STATE_ENABLED);
	int i;
	for (i = 0; i < QB_LOG_TARGET_MAX; i++) {
		verif_build_slot(i, QB_LOG_STATE_UNUSED, 0, 1, QB_LOG_MAX_LEN);
	}
	conf[4].state = (enum qb_log_target_state)nd_state;
	conf[4].close = nd_have_close ? verif_close_fn : NULL;
	conf[9].state = (enum qb_log_target_state)nd_other_state;
	conf_active_max = 9;
	f1 = verif_new_filter(QB_LOG_FILTER_ADD, QB_LOG_FILTER_FILE, 1, 0, 0, nd_h1, nd_l1, 4, -1);
	qb_list_add_tail(&f1->list, &conf[4].filter_head);
	verif_sites[0].function = "fn"; verif_sites[0].filename = "a.c"; verif_sites[0].format = "fmt";
	verif_sites[0].priority = 6; verif_sites[0].lineno = 10; verif_sites[0].targets = nd_cs_targets; verif_sites[0].tags = 0;
	verif_sites[0].message_id = NULL;
	verif_sect.start = &verif_sites[0]; verif_sect.stop = &verif_sites[1];
	qb_list_init(&verif_sect.list);
	qb_list_add(&verif_sect.list, &callsite_sections);

	qb_log_custom_close(4);

	COVER(nd_state == QB_LOG_STATE_ENABLED && nd_have_close); COVER(nd_cs_targets & (1u << 4));
#ifdef V_STATEPART
	COVER(nd_other_state == QB_LOG_STATE_ENABLED);
	POST(conf[4].state == QB_LOG_STATE_UNUSED, "a closed target's slot is unused again");
	POST(verif_close_calls == (nd_have_close ? 1u : 0u) && (verif_close_calls == 0 || verif_close_arg == 4), "the close callback runs once, for its own target");
	POST(in_logger == QB_FALSE, "in_logger is released on every exit");
	POST(conf[9].state == (enum qb_log_target_state)nd_other_state && conf[3].state == QB_LOG_STATE_UNUSED, "no other target changes state");
	POST(conf_active_max < QB_LOG_TARGET_MAX && (conf[9].state != QB_LOG_STATE_ENABLED || conf_active_max >= 9), "every enabled target is within conf_active_max (the delivery loop reaches it)");
	POST(verif_rwlock_depth == 0, "list lock released on every exit");
#else
	POST(qb_list_empty(&conf[4].filter_head), "a closed target's stored filters are dropped (the next target opened in the slot starts without filters)");
	POST((verif_sites[0].targets & (1u << 4)) == 0, "after close no known call site selects the slot (the next target opened in it is not sent old selections)");
	POST((verif_sites[0].targets & ~(1u << 4)) == (nd_cs_targets & ~(1u << 4)), "closing a target leaves other targets' selections alone");
#endif
}
