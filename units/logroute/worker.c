/*UNIT
{"props": ["C16"], "src": ["lib/log_thread.c"], "mode": "plain", "kind": "proved", "unwind": 9,
 "bound": "none for the claim: ONE iteration of the worker's for(;;) body from an arbitrary queue state (head record + arbitrary rest); text of the head record <= 7 characters",
 "functions": ["qb_logt_worker_thread (one iteration of the loop body, and its exit path)"],
 "stubs": ["sem_wait / sem_getvalue (ghost counter)", "pthread_exit (ends the path after the observer ran)", "qb_log_thread_log_write (recorded)", "qb_thread_lock/unlock (sequential)", "free (counted)", "printf (counted)"],
 "expect_classes": ["assertion"], "timeout": 200}
*/
/* The dequeue code of the logging thread, one iteration, sequential model (tokens of the semaphore == queued records,
 * plus one when qb_log_thread_stop asked the thread to exit):
 *   - it takes the HEAD of the queue (FIFO), subtracts exactly what post added for that record
 *     (sizeof(record) + strlen + 1), writes the record once -- under the lock -- and frees record and text;
 *   - a non-zero drop counter is reported once and reset;
 *   - it ends only when asked to AND nothing is queued any more (everything queued is written before fini returns). */
#include "os_base.h"
static void verif_worker_hook(void);
static void verif_worker_exit_hook(void);
#define VERIF_SEM_WAIT_HOOK verif_worker_hook
#define VERIF_PTHREAD_EXIT_HOOK verif_worker_exit_hook
#include "thread_common.h"

static int g_waits, g_used0, g_dropped0, g_should_exit, g_q0, g_len;
static struct qb_log_record *g_head, *g_second;
static struct qb_log_callsite g_site1, g_site2;
static const char *g_head_buf;

static void verif_worker_hook(void)
{
	g_waits++;
	if (g_waits == 2) {
		/* one full iteration done */
		COVER(g_q0 == 1); COVER(g_q0 == 2); COVER(g_dropped0 > 0); COVER(g_should_exit); COVER(g_len == 0); COVER(g_len == 7);
		POST(verif_written == 1 && verif_written_cs[0] == &g_site1 && verif_written_buf[0] == g_head_buf, "the worker writes the record at the head of the queue, once");
		POST(verif_written_lock_depth[0] == 1, "the record is written under the queue lock");
		POST(logt_memory_used == g_used0 - VERIF_REC_BYTES(g_len), "the worker subtracts exactly what post added for the record");
		POST(g_q0 == 1 ? qb_list_empty(&logt_print_finished_records)
			       : (logt_print_finished_records.next == &g_second->list && g_second->list.prev == &logt_print_finished_records),
		     "the written record leaves the queue, the next one becomes the head");
		POST(verif_frees == 2, "record and text are released after writing");
		POST(verif_lock_depth == 0, "queue lock released after each record");
		POST(logt_dropped_messages == 0 && verif_printf_calls == (g_dropped0 > 0 ? 1u : 0u), "a non-zero drop count is reported once and reset");
		POST(verif_lock_misuse == 0, "the worker only uses a live lock");
		ASSUME(0);
	}
}
static void verif_worker_exit_hook(void)
{
	COVER(g_waits == 1);
	POST(g_should_exit, "the worker ends only when asked to");
	POST(qb_list_empty(&logt_print_finished_records), "the worker ends only when nothing is queued any more");
	POST(verif_lock_depth == 0, "the worker ends without holding the queue lock");
	POST(verif_written == 0 || g_waits == 2, "(bookkeeping)");
}

void harness(void)
{
	verif_thread_reset();
	VERIF_ND(uint8_t, nd_q);
	VERIF_ND(uint8_t, nd_len);
	VERIF_ND(int32_t, nd_rest);
	VERIF_ND(int32_t, nd_dropped);
	VERIF_ND(uint8_t, nd_should_exit);
	ASSUME(nd_q <= 2 && nd_len <= 7 && nd_rest >= 0 && nd_rest <= 512000 && nd_dropped >= 0 && nd_should_exit <= 1);
	ASSUME(nd_q >= 1 || nd_should_exit);          /* sequential model: the thread is only woken by a record or by stop */
	logt_wthread_lock = verif_lt_lock_create(QB_THREAD_LOCK_SHORT);
	wthread_active = QB_TRUE;
	wthread_should_exit = nd_should_exit;
	g_waits = 0; g_q0 = nd_q; g_len = nd_len; g_should_exit = nd_should_exit; g_dropped0 = nd_dropped;
	g_head = NULL; g_second = NULL; g_head_buf = NULL;
	if (nd_q >= 1) {
		g_head = verif_new_record(&g_site1, 7);
		g_head->buffer[nd_len] = 0;
		g_head_buf = g_head->buffer;
		verif_msg_buf = g_head->buffer; verif_msg_len = nd_len;
		qb_list_add_tail(&g_head->list, &logt_print_finished_records);
	}
	if (nd_q >= 2) {
		g_second = verif_new_record(&g_site2, 3);
		qb_list_add_tail(&g_second->list, &logt_print_finished_records);
	}
	g_used0 = (nd_q >= 1 ? VERIF_REC_BYTES(nd_len) : 0) + nd_rest;
	logt_memory_used = g_used0;
	logt_dropped_messages = nd_dropped;
	verif_sem_value = nd_q + (nd_should_exit ? 1 : 0);
	verif_frees = 0;

	qb_logt_worker_thread(NULL);
}
