/*UNIT
{"props": ["C16"], "src": ["lib/log_thread.c"], "mode": "plain", "kind": "proved", "unwind": 2,
 "functions": ["qb_log_thread_log_post"],
 "stubs": ["malloc (fresh or NULL)", "strlen (ghost length of the message, <= 4095 = QB_LOG_ABSOLUTE_MAX_LEN - 1)", "memcpy (witness form: bounds asserted, one arbitrary byte copied)",
           "qb_thread_lock/unlock (sequential, assert the lock exists)", "sem_post (ghost counter)"],
 "expect_classes": ["assertion"], "timeout": 200}
*/
/* qb_log_thread_log_post(cs, ts, text) on an ARBITRARY queue (witness form: list head + its last record; everything in
 * between is untouched by construction of the list operations and checked through the two neighbours), arbitrary
 * backlog counter, arbitrary text length:
 *   queued:   the record is appended at the TAIL (FIFO), carries this call site, this time stamp and a private copy of
 *             the text, logt_memory_used grows by exactly sizeof(record) + strlen + 1, the semaphore is posted once;
 *   dropped:  (backlog would exceed 512000) nothing is queued, logt_memory_used is unchanged,
 *             logt_dropped_messages grows by one, the semaphore is not posted;
 *   no memory: nothing is queued, nothing is counted, nothing is posted;
 * the queue lock is released on every exit. */
#include "thread_common.h"

void harness(void)
{
	verif_thread_reset();
	VERIF_ND(uint8_t, nd_empty);
	VERIF_ND(int32_t, nd_used);
	VERIF_ND(int32_t, nd_dropped);
	VERIF_ND(uint16_t, nd_len);
	VERIF_ND(uint16_t, nd_off);
	VERIF_ND(uint8_t, nd_byte);
	VERIF_ND(int32_t, nd_sec);
	struct qb_log_callsite site;
	struct qb_log_record *last = NULL, *first = NULL;
	struct timespec ts;
	static char text[4096];
	ASSUME(nd_used >= 0 && nd_used <= 512000 && nd_dropped >= 0 && nd_dropped < 1000000);
	ASSUME(nd_len <= 4095 && nd_off <= nd_len && nd_byte != 0);
	ts.tv_sec = nd_sec; ts.tv_nsec = 7;
	text[nd_off] = (char)nd_byte;
	text[nd_len] = 0;              /* (nd_off == nd_len: the witness byte is the terminator) */
	verif_msg_buf = text; verif_msg_len = nd_len;
	verif_memcpy_wit = nd_off;
	logt_wthread_lock = verif_lt_lock_create(QB_THREAD_LOCK_SHORT);
	wthread_active = QB_TRUE;
	logt_memory_used = nd_used;
	logt_dropped_messages = nd_dropped;
	if (!nd_empty) {
		/* queue: head <-> first ... last <-> head   (first == last allowed) */
		VERIF_ND(uint8_t, nd_single);
		last = verif_new_record(&site, 1);
		first = nd_single ? last : verif_new_record(&site, 1);
		logt_print_finished_records.next = &first->list; first->list.prev = &logt_print_finished_records;
		logt_print_finished_records.prev = &last->list; last->list.next = &logt_print_finished_records;
		if (!nd_single) {
			/* the records in between are not modelled: first's successor and last's predecessor are some other nodes */
			first->list.next = NULL; last->list.prev = NULL;
		}
	}
	unsigned frees0 = verif_frees;

	qb_log_thread_log_post(&site, &ts, text);

	int total = VERIF_REC_BYTES(nd_len);
	struct qb_list_head *tail = logt_print_finished_records.prev;
	POST(verif_lock_depth == 0, "queue lock released on every exit");
	if (verif_alloc_calls < 2) {
		COVER(verif_alloc_calls == 0); COVER(verif_alloc_calls == 1);
		POST(tail == (nd_empty ? &logt_print_finished_records : &last->list), "allocation failure queues nothing");
		POST(logt_memory_used == nd_used && logt_dropped_messages == nd_dropped, "allocation failure counts nothing");
		POST(verif_sem_posts == 0, "allocation failure posts nothing");
		POST(verif_frees == frees0 + verif_alloc_calls, "allocation failure releases what was allocated");
	} else if (nd_used + total > 512000) {
		COVER(1);
		POST(tail == (nd_empty ? &logt_print_finished_records : &last->list), "over the backlog limit nothing is queued");
		POST(logt_memory_used == nd_used, "a dropped message leaves the backlog counter unchanged");
		POST(logt_dropped_messages == nd_dropped + 1, "a dropped message is counted");
		POST(verif_sem_posts == 0, "a dropped message does not wake the logging thread");
		POST(verif_frees == frees0 + 2, "a dropped message's record is released");
	} else {
		struct qb_log_record *rec = qb_list_entry(tail, struct qb_log_record, list);
		COVER(nd_empty); COVER(!nd_empty && first != last); COVER(nd_len == 0); COVER(nd_len == 4095); COVER(nd_used + total == 512000);
		POST(tail != &logt_print_finished_records && (nd_empty || tail != &last->list), "an accepted message is queued");
		POST(rec->list.next == &logt_print_finished_records, "the new record is appended at the tail of the queue");
		POST(rec->list.prev == (nd_empty ? &logt_print_finished_records : &last->list), "the new record follows the previously last one");
		POST(nd_empty ? logt_print_finished_records.next == &rec->list : (last->list.next == &rec->list && logt_print_finished_records.next == &first->list),
		     "records queued earlier stay ahead of the new one (FIFO)");
		POST(rec->cs == &site, "the record carries the call site of the call");
		if (nd_off < sizeof(struct timespec)) {
			POST(((char *)&rec->timestamp)[nd_off] == ((char *)&ts)[nd_off], "the record carries the time stamp of the call (witness byte)");
		}
		POST(rec->buffer != text && rec->buffer[nd_off] == text[nd_off], "the record carries a private copy of the message text (witness byte)");
		POST(__CPROVER_r_ok(rec->buffer, (size_t)nd_len + 1), "the copy holds the whole text including its terminator");
		POST(logt_memory_used == nd_used + total, "the backlog counter grows by exactly sizeof(record) + strlen + 1");
		POST(logt_dropped_messages == nd_dropped, "an accepted message is not counted as dropped");
		POST(verif_sem_posts == 1, "the logging thread is woken exactly once per queued message");
		POST(verif_frees == frees0, "a queued record is not released");
	}
}
