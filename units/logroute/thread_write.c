/*UNIT
{"props": ["C12", "C16"], "src": ["lib/log.c"], "mode": "plain", "kind": "proved", "unwind": 33,
 "bound": "none: the loop over the 32 target slots has a constant trip count and is fully unwound",
 "functions": ["qb_log_thread_log_write"],
 "restrict_fp": ["qb_log_thread_log_write.function_pointer_call.1/verif_logger", "qb_log_thread_log_write.function_pointer_call.2/verif_logger"],
 "stubs": ["strchr (marker position from the ghost message)"],
 "expect_classes": ["assertion"], "timeout": 300, "cbmc_flags": ["--slice-formula"]}
*/
/* qb_log_thread_log_write (what the logging thread does with one dequeued record): arbitrary configuration of all 32
 * slots; witness slot w: its logger runs exactly once iff the slot is ENABLED, threaded and selected by the call site,
 * otherwise not at all; the total number of logger invocations equals the number of such slots.  Non-threaded targets
 * already got the message synchronously (deliver units) and must not get it a second time.
 * (Documented exception as in deliver.c: only-extended-information message and extended flag off.) */
#include "log_common.h"

void harness(void)
{
	verif_log_reset();
	VERIF_ND(uint8_t, nd_w);
	VERIF_ND(uint32_t, nd_active_max);
	VERIF_ND(int8_t, nd_xc);
	int i;
	int32_t st0[QB_LOG_TARGET_MAX], thr0[QB_LOG_TARGET_MAX], ext0[QB_LOG_TARGET_MAX];
	char msg[4] = { 'a', 'b', 'c', 0 };
	struct timespec ts = { 1, 2 };
	ASSUME(nd_w < QB_LOG_TARGET_MAX && nd_active_max < QB_LOG_TARGET_MAX);
	ASSUME(nd_xc >= -1 && nd_xc <= 2);
	if (nd_xc == 0) { msg[0] = QB_XC; }
	if (nd_xc == 1) { msg[1] = QB_XC; }
	if (nd_xc == 2) { msg[2] = QB_XC; }
	struct qb_log_callsite *cs = verif_build_cs("f", "a.c", "m");
	uint32_t targets0 = cs->targets;
	unsigned expect_total = 0;
	for (i = 0; i < QB_LOG_TARGET_MAX; i++) {
		VERIF_ND(uint8_t, nd_state);
		VERIF_ND(uint8_t, nd_threaded);
		VERIF_ND(uint8_t, nd_extended);
		ASSUME(nd_state >= QB_LOG_STATE_UNUSED && nd_state <= QB_LOG_STATE_ENABLED);
		ASSUME(nd_threaded <= 1 && nd_extended <= 1);
		ASSUME(nd_state != QB_LOG_STATE_ENABLED || (uint32_t)i <= nd_active_max);      /* module invariant */
		verif_build_slot(i, nd_state, nd_threaded, 1, QB_LOG_MAX_LEN);
		conf[i].extended = nd_extended;
		st0[i] = nd_state; thr0[i] = nd_threaded; ext0[i] = nd_extended;
		if (nd_state == QB_LOG_STATE_ENABLED && nd_threaded && (targets0 & (1u << i)) && !(nd_xc == 0 && !nd_extended)) {
			expect_total++;
		}
	}
	conf_active_max = nd_active_max;
	verif_wit_slot = nd_w;
	verif_expect_cs = cs;
	verif_msg_buf = msg; verif_msg_len = 3; verif_xc_pos = nd_xc;

	qb_log_thread_log_write(cs, &ts, msg);

	int selected = st0[nd_w] == QB_LOG_STATE_ENABLED && thr0[nd_w] && (targets0 & (1u << nd_w)) != 0;
	int only_extended_info = (nd_xc == 0 && !ext0[nd_w]);
	COVER(selected && !only_extended_info);
	COVER(selected && nd_w == QB_LOG_TARGET_MAX - 1);
	COVER(!selected && st0[nd_w] == QB_LOG_STATE_ENABLED && !thr0[nd_w] && (targets0 & (1u << nd_w)));
	COVER(!selected && thr0[nd_w] && st0[nd_w] == QB_LOG_STATE_DISABLED && (targets0 & (1u << nd_w)));
	COVER(expect_total >= 2);
	COVER(selected && nd_xc == 2);
	if (selected) {
		if (!only_extended_info) {
			POST(verif_wit_logger_calls == 1, "a threaded, enabled, selected target gets the queued message exactly once");
		} else {
			POST(verif_wit_logger_calls <= 1, "a threaded, enabled, selected target gets the queued message at most once");
		}
	} else {
		POST(verif_wit_logger_calls == 0, "the logging thread writes only to threaded, enabled, selected targets");
	}
	POST(verif_all_logger_calls == expect_total, "the logging thread writes the record to exactly the threaded enabled selected targets, once each");
	POST(verif_bad_logger_args == 0, "each target callback is told its own slot, the record's call site and message");
	POST(msg[0] == (nd_xc == 0 ? QB_XC : 'a') && msg[1] == (nd_xc == 1 ? QB_XC : 'b') && msg[2] == (nd_xc == 2 ? QB_XC : 'c') && msg[3] == 0,
	     "the queued message text is left as it was");
	POST(cs->targets == targets0, "writing does not change the call site's selection");
}
