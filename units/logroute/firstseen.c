/*UNIT
{"props": ["C12"], "src": ["lib/log.c"], "mode": "plain", "kind": "bounded", "unwind": 4, "unwindset": ["qb_log_callsite_get2.1:33", "harness.0:33"],
 "bound": "target slot 4 with <= 2 stored filters ('*' and a regex filter, arbitrary priority windows), <= 1 stored tag filter; the scan over the 32 slots is fully unwound",
 "functions": ["qb_log_callsite_get2", "_log_filter_apply_to_cs", "_cs_matches_filter_"],
 "defines": ["-DVERIF_LIST_IDIOM", "-DVERIF_STRCMP_PREFIX2"],
 "stubs": ["qb_log_dcs_get (hands out a fresh or an already known call site)", "regexec (any result, a function of the regex object)", "pthread_rwlock_* (sequential no-ops)"],
 "drops": ["pointer-overflow check switched off inside log.c (-DVERIF_LIST_IDIOM), see log_common.h"],
 "expect_classes": ["assertion"], "timeout": 300,
 "variants": [{"vname": "enabled", "defines": ["-DVERIF_LIST_IDIOM", "-DVERIF_STRCMP_PREFIX2", "-DV_STATE=QB_LOG_STATE_ENABLED"]},
              {"vname": "disabled", "defines": ["-DVERIF_LIST_IDIOM", "-DVERIF_STRCMP_PREFIX2", "-DV_STATE=QB_LOG_STATE_DISABLED"]},
              {"vname": "known", "defines": ["-DVERIF_LIST_IDIOM", "-DVERIF_STRCMP_PREFIX2", "-DV_STATE=QB_LOG_STATE_ENABLED", "-DV_KNOWN"]}]}
*/
/* "The outcome does not depend on whether the call site was first executed before or after the filter was added or the
 * target was enabled": a call site seen for the FIRST time gets the target's stored filters replayed onto it, so that
 * afterwards   bit t of cs->targets  ==  OR over the stored ADD filters f of the target: f matches cs
 * -- the same value qb_log_filter_ctl2 would have given a site that already existed (unit filter_ctl2.add*) -- and
 * the tags word is the stored tag filter's value when that matches and the call carries no tag of its own.
 *  enabled   the target is ENABLED when the site is first seen
 *  disabled  the target is DISABLED when the site is first seen   [isolated: stored filters are not replayed -- genuine defect #17]
 *  known     the call site already exists: nothing is replayed, only an explicit tag of the call is taken over */
#include "log_common.h"

void harness(void)
{
	verif_log_reset();
	VERIF_ND(uint8_t, nd_nstored);
	VERIF_ND(uint8_t, nd_h1); VERIF_ND(uint8_t, nd_l1);
	VERIF_ND(uint8_t, nd_h2); VERIF_ND(uint8_t, nd_l2);
	VERIF_ND(int, nd_regex_rc);
	VERIF_ND(uint8_t, nd_have_tagflt);
	VERIF_ND(uint8_t, nd_h3); VERIF_ND(uint8_t, nd_l3);
	VERIF_ND(uint32_t, nd_tagval);
	VERIF_ND(uint32_t, nd_tags_arg);
	VERIF_ND(uint8_t, nd_prio);
	VERIF_ND(uint32_t, nd_active_max);
	struct qb_log_filter *f1, *f2, *f3;
	ASSUME(nd_nstored <= 2 && nd_have_tagflt <= 1);
	ASSUME(nd_active_max < QB_LOG_TARGET_MAX);
	ASSUME(V_STATE != QB_LOG_STATE_ENABLED || nd_active_max >= 4);     /* module invariant: an enabled slot is <= conf_active_max */
	for (int i = 0; i < QB_LOG_TARGET_MAX; i++) {
		/* as qb_log_init leaves the slots (their empty filter lists are left out: 32 self-pointing list heads in
		 * the points-to set of every list pointer made the solver run out of memory; an unused slot's list is never walked) */
		conf[i].pos = (uint32_t)i; conf[i].state = QB_LOG_STATE_UNUSED;
	}
	verif_build_slot(4, V_STATE, 0, 1, QB_LOG_MAX_LEN);
	conf_active_max = nd_active_max;
	if (nd_nstored >= 1) {
		f1 = verif_new_filter(QB_LOG_FILTER_ADD, QB_LOG_FILTER_FILE, 1, 0, 0, nd_h1, nd_l1, 4, -1);
		qb_list_add_tail(&f1->list, &conf[4].filter_head);
	}
	if (nd_nstored >= 2) {
		f2 = verif_new_filter(QB_LOG_FILTER_ADD, QB_LOG_FILTER_FORMAT_REGEX, 0, 'a', 'b', nd_h2, nd_l2, 4, 0);
		verif_regex_result[0] = nd_regex_rc;
		qb_list_add_tail(&f2->list, &conf[4].filter_head);
	}
	if (nd_have_tagflt) {
		f3 = verif_new_filter(QB_LOG_TAG_SET, QB_LOG_FILTER_FILE, 1, 0, 0, nd_h3, nd_l3, nd_tagval, -1);
		qb_list_add_tail(&f3->list, &tags_head);
	}
	/* what the call-site store hands back: a fresh entry (targets 0, tags as given) or a known one */
	struct qb_log_callsite *cs = verif_build_cs("fn", "a.c", "fmt");
	cs->priority = nd_prio;
#ifdef V_KNOWN
	verif_dcs_new = 0;
#else
	verif_dcs_new = 1;
	cs->targets = 0;
	cs->tags = nd_tags_arg;
#endif
	verif_dcs_cs = cs;
	uint32_t targets0 = cs->targets, tags0 = cs->tags;

	struct qb_log_callsite *r = qb_log_callsite_get2(NULL, "fn", "a.c", "fmt", nd_prio, cs->lineno, nd_tags_arg);

	int m1 = nd_nstored >= 1 && nd_prio >= nd_h1 && nd_prio <= nd_l1;
	int m2 = nd_nstored >= 2 && nd_prio >= nd_h2 && nd_prio <= nd_l2 && nd_regex_rc == 0;
	int m3 = nd_have_tagflt && nd_prio >= nd_h3 && nd_prio <= nd_l3;
	POST(r == cs, "the call site of the store is returned");
	POST(verif_rwlock_depth == 0, "list lock released on every exit");
#ifdef V_KNOWN
	COVER(nd_tags_arg != 0 && nd_tags_arg != tags0); COVER(nd_tags_arg == 0 && tags0 != 0);
	POST(cs->targets == targets0, "a known call site keeps its selection");
	POST(cs->tags == (nd_tags_arg ? nd_tags_arg : tags0), "an explicit tag of the call replaces the stored one, no tag leaves it");
#else
	COVER(m1 && !m2); COVER(!m1 && m2); COVER(!m1 && !m2 && nd_nstored == 2); COVER(nd_nstored == 0);
	COVER(m3 && nd_tags_arg == 0); COVER(nd_tags_arg != 0 && m3); COVER(nd_active_max == QB_LOG_TARGET_MAX - 1); COVER(V_STATE == QB_LOG_STATE_ENABLED || nd_active_max < 4);
	POST(((cs->targets >> 4) & 1u) == (uint32_t)(m1 || m2), "a call site first seen now is selected for the target iff one of the target's stored filters matches it (whether or not the target is enabled yet)");
	POST((cs->targets & ~(1u << 4)) == 0, "targets without stored filters do not select a new call site");
	if (nd_tags_arg != 0) {
		POST(cs->tags == nd_tags_arg, "a call that carries its own tag keeps it");
	} else {
		POST(cs->tags == (m3 ? nd_tagval : 0), "a new untagged call site gets the matching stored tag filter's value");
	}
#endif
}
