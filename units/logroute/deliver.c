/*UNIT
{"props": ["C12"], "src": ["lib/log.c"], "mode": "plain", "kind": "proved", "unwind": 33,
 "bound": "none: the loops over the 32 target slots have a constant trip count and are fully unwound",
 "functions": ["qb_log_real_va_ (through qb_log_real_)", "cs_format (inlined)"],
 "restrict_fp": ["qb_log_real_va_.function_pointer_call.1/verif_old_log_fn", "qb_log_real_va_.function_pointer_call.2/verif_old_log_fn",
                 "qb_log_real_va_.function_pointer_call.3/verif_vlogger",
                 "qb_log_real_va_.function_pointer_call.4/verif_logger", "qb_log_real_va_.function_pointer_call.5/verif_logger"],
 "stubs": ["vsnprintf (variants main/longline/oom: the empty message, returns 0; variant marker: three arbitrary characters, QB_XC marker absent/first/middle/last, returns 3)", "strchr (marker position from the ghost message)",
           "malloc (fresh or NULL)", "qb_log_thread_log_post (recorded)", "qb_util_timespec_from_epoch_get (any time)", "qb_atomic_int_* (sequential)"],
 "expect_classes": ["assertion"], "timeout": 300, "cbmc_flags": ["--slice-formula"],
 "variants": [{"vname": "main", "defines": ["-DV_MAIN", "-DVERIF_MALLOC_ALWAYS_FAILS", "-DVERIF_MSG_EMPTY"]},
              {"vname": "marker", "defines": ["-DV_MAIN", "-DV_MARKER", "-DVERIF_MALLOC_ALWAYS_FAILS"]},
              {"vname": "longline", "defines": ["-DV_LONG", "-DVERIF_MSG_EMPTY"]},
              {"vname": "oom", "defines": ["-DV_LONG", "-DV_OOM", "-DVERIF_MSG_EMPTY"]},
              {"vname": "nullcs", "defines": ["-DV_NULLCS"]}]}
*/
/* One log call, arbitrary configuration of all 32 target slots (state, threaded flag, callback kind, extended flag),
 * arbitrary selection word of the call site; module invariant "every enabled slot <= conf_active_max" (state_set units).
 * Witness slot w:
 *   - its logger (or vlogger) is invoked EXACTLY ONCE iff the slot is ENABLED and its bit is set in cs->targets
 *     (and it is not threaded), otherwise NOT AT ALL; the callback is told its own slot number and this call site;
 *   - the total number of callback invocations equals the number of selected, enabled, non-threaded slots
 *     (so nobody else receives the message);
 *   - a threaded selected slot gets the message through exactly one qb_log_thread_log_post for the whole call;
 *   - in_logger is released on every exit (otherwise every later log call is dropped).
 * Documented exception kept out of the claim: a message consisting only of extended information (QB_XC first) is not
 * handed to a target whose extended flag is off.
 *  main      all targets' line limits <= QB_LOG_MAX_LEN (stack buffer); empty message text
 *  marker    as main, message with the extended-information marker in every position, targets 0..3 only (the others unused)
 *  longline  some selected target has a longer line limit (heap buffer), allocation succeeds
 *  oom       ... allocation fails             [isolated: in_logger stays set -- genuine defect]
 *  nullcs    the call has no call site (NULL)   [isolated: in_logger stays set -- genuine defect] */
#include "log_common.h"

void harness(void)
{
	verif_log_reset();
	VERIF_ND(uint8_t, nd_w);
	VERIF_ND(uint32_t, nd_active_max);
	int i;
	int32_t st0[QB_LOG_TARGET_MAX], thr0[QB_LOG_TARGET_MAX], kind0[QB_LOG_TARGET_MAX], ext0[QB_LOG_TARGET_MAX];
	ASSUME(nd_w < QB_LOG_TARGET_MAX && nd_active_max < QB_LOG_TARGET_MAX);
#ifdef V_MARKER
	ASSUME(nd_active_max < 4);
#endif
	struct qb_log_callsite *cs = verif_build_cs("f", "a.c", "m");
	uint32_t targets0 = cs->targets, tags0 = cs->tags;
	unsigned expect_total = 0;
	int any_threaded = 0, any_long = 0;
	for (i = 0; i < QB_LOG_TARGET_MAX; i++) {
		VERIF_ND(uint8_t, nd_state);
		VERIF_ND(uint8_t, nd_threaded);
		VERIF_ND(uint8_t, nd_kind);
		VERIF_ND(uint8_t, nd_extended);
		size_t max_line = QB_LOG_MAX_LEN;
		ASSUME(nd_state >= QB_LOG_STATE_UNUSED && nd_state <= QB_LOG_STATE_ENABLED);
		ASSUME(nd_threaded <= 1 && nd_kind <= 3 && nd_extended <= 1);
		ASSUME(nd_state != QB_LOG_STATE_ENABLED || (uint32_t)i <= nd_active_max);      /* module invariant */
		ASSUME(!nd_threaded || (nd_kind & 1));          /* a threaded target has a logger (qb_log_thread_log_write calls it) */
#ifdef V_LONG
		if (i == 5) { max_line = 2048; }
#endif
		verif_build_slot(i, nd_state, nd_threaded, nd_kind, max_line);
		conf[i].extended = nd_extended;
		st0[i] = nd_state; thr0[i] = nd_threaded; kind0[i] = nd_kind; ext0[i] = nd_extended;
		if (nd_state == QB_LOG_STATE_ENABLED && (targets0 & (1u << i))) {
			if (nd_threaded) {
				any_threaded = 1;
			}
			if (max_line > QB_LOG_MAX_LEN) {
				any_long = 1;
			}
		}
	}
	conf_active_max = nd_active_max;
	verif_wit_slot = nd_w;
	verif_expect_cs = cs;
#ifdef V_LONG
	ASSUME(any_long);
#endif
#ifdef V_OOM
	verif_alloc_never_fails = 0;
#else
	verif_alloc_never_fails = 1;
#endif

#ifdef V_NULLCS
	qb_log_real_(NULL);

	COVER(1);
	POST(verif_all_logger_calls == 0 && verif_post_calls == 0, "a log call without a call site is delivered nowhere");
	POST(in_logger == QB_FALSE, "in_logger is released on every exit");
#else
	unsigned allocs0 = verif_alloc_calls;
	qb_log_real_(cs);

	/* who should have received it (fold over the slots with the message the formatter produced) */
	for (i = 0; i < QB_LOG_TARGET_MAX; i++) {
		if (st0[i] == QB_LOG_STATE_ENABLED && (targets0 & (1u << i)) && !thr0[i] && kind0[i] != 0) {
			if ((kind0[i] & 2) || !(verif_xc_pos == 0 && !ext0[i])) {
				expect_total++;
			}
		}
	}
	int selected = st0[nd_w] == QB_LOG_STATE_ENABLED && (targets0 & (1u << nd_w)) != 0;
	int only_extended_info = (verif_xc_pos == 0 && !ext0[nd_w]);
#ifdef V_OOM
	if (any_long && verif_alloc_calls == allocs0) {
		COVER(1);
		POST(verif_all_logger_calls == 0, "a log call that cannot get its line buffer delivers nothing");
		POST(in_logger == QB_FALSE, "in_logger is released on every exit");
	}
	/* the successful allocation is variant longline */
#else
	COVER(selected && !thr0[nd_w] && (kind0[nd_w] & 2));
#ifndef VERIF_MSG_EMPTY
	COVER(selected && !thr0[nd_w] && kind0[nd_w] == 1 && verif_xc_pos > 0);
	COVER(selected && only_extended_info && kind0[nd_w] == 1);
#else
	COVER(selected && !thr0[nd_w] && kind0[nd_w] == 1);
#endif
	COVER(selected && thr0[nd_w]);
	COVER(!selected && st0[nd_w] == QB_LOG_STATE_ENABLED);
	COVER(!selected && st0[nd_w] == QB_LOG_STATE_DISABLED && (targets0 & (1u << nd_w)));
#ifndef V_MARKER
	COVER(selected && nd_w == QB_LOG_TARGET_MAX - 1);
#endif
	COVER(selected && nd_w == nd_active_max);
	COVER(expect_total >= 3);
	if (selected && !thr0[nd_w]) {
		if (kind0[nd_w] & 2) {
			POST(verif_wit_vlogger_calls == 1 && verif_wit_logger_calls == 0, "an enabled selected target receives the message exactly once");
		} else if (kind0[nd_w] & 1) {
			if (!only_extended_info) {
				POST(verif_wit_logger_calls == 1 && verif_wit_vlogger_calls == 0, "an enabled selected target receives the message exactly once");
			} else {
				POST(verif_wit_logger_calls <= 1 && verif_wit_vlogger_calls == 0, "an enabled selected target receives the message at most once");
			}
		}
	} else {
		POST(verif_wit_logger_calls == 0 && verif_wit_vlogger_calls == 0, "a target that is not enabled or not selected receives nothing");
	}
	POST(verif_all_logger_calls == expect_total, "exactly the enabled selected targets receive the message, once each");
	POST(verif_bad_logger_args == 0, "each target callback is told its own slot, this call site and a message");
	POST(verif_post_calls == (any_threaded ? 1u : 0u), "the message is queued once for the logging thread iff a threaded target is selected");
	POST(verif_post_calls == 0 || verif_post_cs == cs, "the queued record names this call site");
	POST(cs->targets == targets0 && cs->tags == tags0, "a log call does not change the call site's selection");
	POST(in_logger == QB_FALSE, "in_logger is released on every exit");
#ifdef V_LONG
	COVER(verif_alloc_calls == allocs0 + 1);
#endif
#endif
#endif
}
