/*UNIT
{"props": ["C16"], "src": ["lib/log_thread.c"], "mode": "plain", "unwind": 9,
 "functions": ["qb_log_thread_stop", "qb_log_thread_start"],
 "stubs": ["sem_* (ghost counter)", "pthread_create / pthread_join (no thread is run; the worker's behaviour is unit worker)", "qb_log_thread_log_write (recorded)",
           "qb_thread_lock_* (sequential; use of a missing or destroyed lock is flagged)", "free (counted)"],
 "expect_classes": ["assertion"], "timeout": 200,
 "variants": [{"vname": "drain", "kind": "bounded", "bound": "<= 2 queued records, texts <= 7 characters", "defines": ["-DV_DRAIN"]},
              {"vname": "running", "kind": "proved", "defines": ["-DV_RUNNING"]},
              {"vname": "idle", "kind": "proved", "defines": ["-DV_IDLE"]},
              {"vname": "restart", "kind": "proved", "defines": ["-DV_RUNNING", "-DV_RESTART"]},
              {"vname": "restart_drained", "kind": "bounded", "bound": "<= 2 queued records", "defines": ["-DV_DRAIN", "-DV_RESTART"]}]}
*/
/* qb_log_thread_stop (called by qb_log_fini):
 *  drain    thread not active but the queue machinery exists: every queued record is taken from the HEAD, written once, in
 *           FIFO order, under the lock, and freed; afterwards the queue is empty and logt_memory_used is back to 0
 *  running  thread active: the exit flag is raised under the lock, the semaphore is posted exactly once, the thread is joined
 *           (the worker then drains the queue before it ends: unit worker)
 *  idle     never started: nothing is touched
 *  restart / restart_drained   "a later re-initialisation of the logging system is safe": after stop, qb_log_thread_start()
 *           starts a logging thread again with a live lock  [isolated: wthread_active / logt_wthread_lock are left set --
 *           genuine defect #18] */
#ifdef V_RUNNING
static void verif_stop_sem_post_hook(void);
#define VERIF_SEM_POST_HOOK verif_stop_sem_post_hook
#endif
#include "thread_common.h"
#ifdef V_RUNNING
static int verif_exit_flag_at_post = -1, verif_lock_depth_at_post = -1;
static void verif_stop_sem_post_hook(void) { verif_exit_flag_at_post = wthread_should_exit; verif_lock_depth_at_post = (int)verif_lock_depth; }
#endif

void harness(void)
{
	verif_thread_reset();
	VERIF_ND(uint8_t, nd_q);
	VERIF_ND(uint8_t, nd_len1);
	VERIF_ND(uint8_t, nd_len2);
	struct qb_log_callsite site1, site2;
	struct qb_log_record *r1 = NULL, *r2 = NULL;
	const char *b1 = NULL, *b2 = NULL;
	ASSUME(nd_q <= 2 && nd_len1 <= 7 && nd_len2 <= 7);
#ifdef V_IDLE
	nd_q = 0;
#else
	logt_wthread_lock = verif_lt_lock_create(QB_THREAD_LOCK_SHORT);
#endif
#ifdef V_RUNNING
	wthread_active = QB_TRUE;
#endif
	if (nd_q >= 1) {
		r1 = verif_new_record(&site1, 7); r1->buffer[nd_len1] = 0; b1 = r1->buffer;
		qb_list_add_tail(&r1->list, &logt_print_finished_records);
	}
	if (nd_q >= 2) {
		r2 = verif_new_record(&site2, 7); r2->buffer[nd_len2] = 0; b2 = r2->buffer;
		qb_list_add_tail(&r2->list, &logt_print_finished_records);
	}
	/* accounting invariant (post/worker units): the counter is the sum over the queued records; one token per record */
	logt_memory_used = (nd_q >= 1 ? VERIF_REC_BYTES(nd_len1) : 0) + (nd_q >= 2 ? VERIF_REC_BYTES(nd_len2) : 0);
	verif_sem_value = nd_q;
	verif_frees = 0;
	unsigned creates0 = verif_lock_creates;

	qb_log_thread_stop();

#ifndef V_RESTART
#ifdef V_DRAIN
	COVER(nd_q == 0); COVER(nd_q == 2 && nd_len1 != nd_len2);
	POST(qb_list_empty(&logt_print_finished_records), "stop returns only after everything still queued has been written: the queue is empty");
	POST(logt_memory_used == 0, "after stop the backlog counter is back to zero");
	POST(verif_written == nd_q, "every queued record is written exactly once");
	POST(nd_q < 1 || (verif_written_cs[0] == &site1 && verif_written_buf[0] == b1), "records are written in the order they were queued (first)");
	POST(nd_q < 2 || (verif_written_cs[1] == &site2 && verif_written_buf[1] == b2), "records are written in the order they were queued (second)");
	POST(nd_q < 1 || verif_written_lock_depth[0] == 1, "records are written under the queue lock");
	POST(verif_frees == 2u * nd_q, "every written record and its text are released");
	POST(verif_sem_value == 0 && verif_sem_waits == nd_q, "one semaphore token is consumed per record");
	POST(verif_lock_depth == 0 && verif_lock_misuse == 0, "queue lock balanced and live while draining");
#endif
#ifdef V_RUNNING
	COVER(nd_q == 2);
	POST(wthread_should_exit == QB_TRUE, "stop asks the logging thread to exit");
	POST(verif_sem_posts == 1, "stop wakes the logging thread exactly once");
	POST(verif_exit_flag_at_post == QB_TRUE, "the exit request is already visible when the logging thread is woken for it (woken first, it would find neither a record nor an exit request)");
	POST(verif_thread_joins == 1, "stop waits for the logging thread to end");
	POST(verif_written == 0 && verif_frees == 0, "stop itself does not touch the queue while the thread is active (the thread drains it)");
	POST(verif_lock_depth == 0 && verif_lock_misuse == 0, "queue lock balanced");
#endif
#ifdef V_IDLE
	COVER(1);
	POST(verif_sem_destroys == 0 && verif_lock_destroys == 0 && verif_thread_joins == 0 && verif_sem_posts == 0, "stop without a logging thread touches nothing");
#endif
#else
	/* a later re-initialisation: qb_log_init(); qb_log_thread_start(); and a control call on a threaded target */
	struct qb_log_target tgt;
	tgt.threaded = QB_TRUE;
	int32_t rc = qb_log_thread_start();
	COVER(rc == 0);
	POST(rc == 0, "after stop, qb_log_thread_start succeeds");
	POST(verif_thread_creates == 1, "after stop, qb_log_thread_start starts a logging thread again");
	POST(verif_lock_creates == creates0 + 1 && !verif_lock_destroyed, "after stop, qb_log_thread_start creates a fresh queue lock");
	qb_log_thread_pause(&tgt);
	qb_log_thread_resume(&tgt);
	POST(verif_lock_misuse == 0, "control operations after a re-initialisation use a live lock");
#endif
}
