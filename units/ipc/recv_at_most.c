/*UNIT
{"props": ["C06"], "src": ["lib/ipc_socket.c", "lib/ipc_setup.c"], "mode": "plain",
 "kind": "bounded", "bound": "the header peek is retried after EAGAIN at most 2 times (backward-goto retry loop); everything else symbolic",
 "functions": ["qb_ipc_us_recv_at_most", "qb_ipc_us_ready (inlined)", "qb_ipc_us_sock_error_is_disconnected (inlined)"],
 "stubs": ["recv (datagram model: delivers min(len, datagram length) bytes, precondition buffer writable for them)", "poll (any result)", "stat (any result)", "qb_sigpipe_ctl (no-op)", "qb_atomic_int_* (sequential)"],
 "drops": ["qb_util_log/qb_util_perror diagnostics compiled out (stubs/nolog.h)"],
 "unwindset": ["qb_ipc_us_recv_at_most.0:4", "qb_ipc_us_ready.0:3"],
 "expect_classes": ["assertion"], "timeout": 300, "cbmc_flags": ["--no-malloc-may-fail"],
 "variants": [{"vname": "fits", "defines": ["-DV_FITS"]}, {"vname": "oversize", "defines": ["-DV_OVERSIZE"]}]}
*/
/* qb_ipc_us_recv_at_most(one_way, msg, len, timeout): the socket-transport receive of the server
 * (s->funcs.recv, called with msg = c->receive_buf, len = c->request.max_msg_size).
 * For EVERY datagram a client can put on the request socket (any length, any header fields):
 *   - no recv() is asked to deliver more bytes than the buffer holds (asserted inside the recv stub);
 *   - the length returned never exceeds the buffer size (negotiated maximum) nor the datagram's real length.
 * Variant "fits": header size field within [0, len].  Variant "oversize": the header claims more than the
 * buffer (or a negative size) -- the input class of suspected defect #1. */
#include "prelude.h"
#include "ipc_setup.c"
#include "ipc_socket.c"

struct verif_us_ctl { int32_t sent; int32_t flow_control; };

void harness(void)
{
	VERIF_ND(size_t, nd_len);
	VERIF_ND(int32_t, nd_timeout);
	VERIF_ND(int32_t, nd_hdr_id);
	VERIF_ND(int32_t, nd_hdr_size);
	VERIF_ND(size_t, nd_dgram_len);
	VERIF_ND(uint8_t, nd_have_ctl);
	VERIF_ND(int32_t, nd_sent);
	struct qb_ipc_one_way ow;
	struct verif_us_ctl *ctl = NULL;
	char *buf;

	verif_os_ipc_reset();
	/* precondition of the function (its caller's duty): the buffer holds at least a request header */
	ASSUME(nd_len >= sizeof(struct qb_ipc_request_header) && nd_len <= (1u << 24));
	ASSUME(nd_timeout >= -1);
#ifdef V_FITS
	ASSUME(nd_hdr_size >= 0 && (size_t)nd_hdr_size <= nd_len);
#endif
#ifdef V_OVERSIZE
	ASSUME(nd_hdr_size < 0 || (size_t)nd_hdr_size > nd_len);
#endif
	buf = malloc(nd_len);
	ASSUME(buf != NULL);
	if (nd_have_ctl) {
		ctl = malloc(sizeof(*ctl));
		ASSUME(ctl != NULL);
		ctl->sent = nd_sent;
		ctl->flow_control = 0;
	}
	memset(&ow, 0, sizeof(ow));
	ow.max_msg_size = nd_len;
	ow.type = QB_IPC_SOCKET;
	ow.u.us.sock = 5;
	ow.u.us.shared_data = ctl;
	verif_dgram_mode = 1;
	verif_dgram_hdr.id = nd_hdr_id;
	verif_dgram_hdr.size = nd_hdr_size;
	verif_dgram_len = nd_dgram_len;
	verif_eagain_budget = 2;

	ssize_t rc = qb_ipc_us_recv_at_most(&ow, buf, nd_len, nd_timeout);

#ifdef V_FITS
	COVER(rc > 0);
	COVER(rc > 0 && (size_t)rc < nd_dgram_len);
	COVER(rc > 0 && nd_dgram_len < (size_t)nd_hdr_size);
#else
	COVER(rc == -EMSGSIZE);   /* a datagram whose header claims more than the buffer is dropped */
#endif
	COVER(rc == -ETIMEDOUT);
	COVER(rc == -ENOTCONN);
	POST(rc <= (ssize_t)nd_len, "the received length never exceeds the receive buffer (negotiated maximum)");
	POST(rc <= 0 || (size_t)rc <= nd_dgram_len, "the received length never exceeds what was actually received");
	if (rc > 0) {
		POST(verif_dgram_consumed == 1, "a successful receive consumes exactly one datagram");
		if (ctl != NULL) {
			POST(ctl->sent == (int32_t)((uint32_t)nd_sent - 1u), "a successful receive takes one message off the queue-length counter");
		}
	}
}
