/*UNIT
{"props": ["C04", "C03"], "src": ["lib/ipcs.c"], "mode": "plain", "kind": "proved",
 "functions": ["qb_ipcs_connection_unref", "qb_ipcs_connection_ref", "qb_ipcs_unref (inlined)"],
 "stubs": ["connection_destroyed callback (recorded; asserts the connection is not freed yet; records list membership)", "funcs.disconnect (recorded)", "qb_atomic_int_* (sequential)", "free (observed)"],
 "drops": ["qb_util_log/qb_util_perror diagnostics compiled out (stubs/nolog.h)"],
 "restrict_fp": ["qb_ipcs_connection_unref.function_pointer_call.1/verif_cb_destroyed", "qb_ipcs_connection_unref.function_pointer_call.2/verif_t_disconnect"],
 "expect_classes": ["assertion"], "timeout": 120, "cbmc_flags": ["--no-malloc-may-fail"]}
*/
/* qb_ipcs_connection_ref / qb_ipcs_connection_unref for every connection state, every count >= 1, with or
 * without a second connection in the service's list, with or without a destroyed callback:
 *   ref adds exactly one; unref of a count > 1 only subtracts one; unref of the last reference unlinks the
 *   connection, THEN calls destroyed exactly once on the still-allocated object, runs the transport
 *   disconnect, drops the connection's reference on the service, frees the receive buffer and the
 *   connection exactly once; the other connection stays linked; the service is freed exactly when that was
 *   its last reference. */
#include "ipcs_common.h"

void harness(void)
{
	VERIF_ND(uint8_t, nd_shm);
	VERIF_ND(uint8_t, nd_state);
	VERIF_ND(int32_t, nd_ref);
	VERIF_ND(uint8_t, nd_have_other);
	VERIF_ND(uint8_t, nd_have_destroyed);
	VERIF_ND(uint8_t, nd_do_ref_first);
	struct qb_ipcs_service *s;
	struct qb_ipcs_connection *c, *o = NULL;

	verif_monitor_reset();
	ASSUME(nd_state <= QB_IPCS_CONNECTION_SHUTTING_DOWN);
	ASSUME(nd_ref >= 1 && nd_ref < (1 << 30));     /* Inv: a live connection holds at least one reference */
	s = verif_build_service(nd_shm != 0);
	if (!nd_have_destroyed) {
		s->serv_fns.connection_destroyed = NULL;
	}
	if (nd_have_other) {
		o = verif_build_conn(s, QB_IPCS_CONNECTION_ESTABLISHED, 1, 64);
	}
	c = verif_build_conn(s, nd_state, nd_ref, 64);
	verif_C = c; verif_watch_ptr = c; verif_watch_ptr2 = c->receive_buf; verif_watch_ptr3 = s;
	int32_t sref0 = s->ref_count;
	int32_t ref0 = nd_ref;

	if (nd_do_ref_first) {
		qb_ipcs_connection_ref(c);
		POST(c->refcount == nd_ref + 1, "taking a reference adds exactly one");
		ref0 = nd_ref + 1;
	}
	qb_ipcs_connection_ref(NULL);
	qb_ipcs_connection_unref(NULL);

	qb_ipcs_connection_unref(c);

	if (ref0 > 1) {
		COVER(nd_do_ref_first);
		POST(verif_watch_freed == 0 && c->refcount == ref0 - 1, "dropping a reference that is not the last only subtracts one");
		POST(verif_destroyed_calls == 0 && verif_tdisc_calls == 0, "destroyed is not called while references remain");
		POST(verif_conn_is_linked(c) && s->ref_count == sref0, "a connection with references left stays in the list and keeps its service reference");
	} else {
		COVER(nd_have_other && nd_have_destroyed);
		COVER(!nd_have_other && sref0 == 1);
		POST(verif_destroyed_calls == (nd_have_destroyed ? 1 : 0), "destroyed is called exactly once when the last reference is dropped");
		POST(!verif_destroyed_saw_linked, "destroyed runs after the connection was unlinked from the service's list");
		POST(verif_tdisc_calls == 1 && (!nd_have_destroyed || verif_tdisc_at > verif_destroyed_at), "the transport is torn down once, after destroyed");
		POST(verif_watch_freed == 1 && verif_watch_freed2 == 1, "connection and receive buffer are freed exactly once");
		POST(verif_watch_freed3 == (sref0 == 1 ? 1 : 0), "the service is freed exactly when the connection held its last reference");
		if (sref0 > 1) {
			POST(s->ref_count == sref0 - 1, "the connection's reference on the service is dropped then");
			if (nd_have_other) {
				POST(s->connections.next == &o->list && s->connections.prev == &o->list && o->list.next == &s->connections && o->list.prev == &s->connections,
				     "the other connection stays linked");
			} else {
				POST(s->connections.next == &s->connections && s->connections.prev == &s->connections, "the list is empty afterwards");
			}
		}
	}
}
