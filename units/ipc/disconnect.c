/*UNIT
{"props": ["C04", "C03"], "src": ["lib/ipcs.c"], "mode": "plain", "kind": "proved",
 "functions": ["qb_ipcs_disconnect", "qb_ipcs_connection_unref (inlined)", "qb_ipcs_unref (inlined)"],
 "stubs": ["connection_closed / connection_destroyed callbacks (recorded, closed returns any value)", "funcs.disconnect (recorded)", "poll_fns.job_add (recorded, any result)", "remove_tempdir (counted)", "qb_atomic_int_* (sequential)", "free (observed)"],
 "drops": ["qb_util_log/qb_util_perror diagnostics compiled out (stubs/nolog.h)"],
 "restrict_fp": ["qb_ipcs_disconnect.function_pointer_call.1/verif_t_disconnect", "qb_ipcs_disconnect.function_pointer_call.2/verif_t_disconnect",
                 "qb_ipcs_disconnect.function_pointer_call.3/verif_cb_closed", "qb_ipcs_disconnect.function_pointer_call.4/verif_job_add",
                 "qb_ipcs_connection_unref.function_pointer_call.1/verif_cb_destroyed", "qb_ipcs_connection_unref.function_pointer_call.2/verif_t_disconnect"],
 "expect_classes": ["assertion"], "timeout": 120, "cbmc_flags": ["--no-malloc-may-fail"]}
*/
/* qb_ipcs_disconnect(c): the exact state machine of the property, for every state, reference count >= 1,
 * closed() result, job_add() result, with or without a closed callback:
 *   INACTIVE       nothing happens;
 *   ACTIVE         (set-up incomplete, created never ran) transport torn down, state INACTIVE, closed NOT
 *                  called, initial reference dropped;
 *   ESTABLISHED    transport torn down, state SHUTTING_DOWN, then as SHUTTING_DOWN;
 *   SHUTTING_DOWN  closed called once; 0 => initial reference dropped; non-zero => disconnect re-scheduled
 *                  as a low priority job for this connection and the reference KEPT (if scheduling fails
 *                  the reference is dropped);
 *   destroyed follows exactly when the dropped reference was the last one, never before closed. */
#include "ipcs_common.h"

void harness(void)
{
	VERIF_ND(uint8_t, nd_shm);
	VERIF_ND(uint8_t, nd_state);
	VERIF_ND(int32_t, nd_ref);
	VERIF_ND(int32_t, nd_closed_rc);
	VERIF_ND(int32_t, nd_jobadd_rc);
	VERIF_ND(uint8_t, nd_have_closed);
	struct qb_ipcs_service *s;
	struct qb_ipcs_connection *c;

	verif_monitor_reset();
	ASSUME(nd_state <= QB_IPCS_CONNECTION_SHUTTING_DOWN);
	ASSUME(nd_ref >= 1 && nd_ref < (1 << 30));
	ASSUME(nd_jobadd_rc <= 0);
	s = verif_build_service(nd_shm != 0);
	s->ref_count += 1;                    /* the creator's reference besides the connection's */
	if (!nd_have_closed) {
		s->serv_fns.connection_closed = NULL;
	}
	c = verif_build_conn(s, nd_state, nd_ref, 64);
	verif_C = c; verif_watch_ptr = c;
	verif_closed_rc = nd_closed_rc;
	verif_jobadd_rc = nd_jobadd_rc;

	qb_ipcs_disconnect(NULL);
	qb_ipcs_disconnect(c);

	int retry = nd_have_closed && nd_closed_rc != 0 && nd_jobadd_rc == 0;
	int dropped;
	if (nd_state == QB_IPCS_CONNECTION_INACTIVE) {
		COVER(1);
		POST(verif_tdisc_calls == 0 && verif_closed_calls == 0 && verif_destroyed_calls == 0 && verif_watch_freed == 0
		     && c->refcount == nd_ref && c->state == QB_IPCS_CONNECTION_INACTIVE, "disconnecting an inactive connection does nothing");
		dropped = 0;
	} else if (nd_state == QB_IPCS_CONNECTION_ACTIVE) {
		COVER(nd_ref == 1);
		COVER(nd_ref > 1);
		POST(verif_closed_calls == 0, "closed is only invoked if created was");
		POST(verif_tdisc_calls == (nd_ref == 1 ? 2 : 1), "an incomplete connection's transport is torn down");
		POST(verif_tdisc_first_state == QB_IPCS_CONNECTION_ACTIVE, "the transport of an incomplete connection is torn down while the connection still says what was created for it (state ACTIVE): the transport releases by state (unit ipc.teardown)");
		dropped = 1;
		if (nd_ref > 1) {
			POST(c->state == QB_IPCS_CONNECTION_INACTIVE, "an incomplete connection becomes INACTIVE");
		}
	} else {
		COVER(nd_state == QB_IPCS_CONNECTION_ESTABLISHED && retry);
		COVER(nd_state == QB_IPCS_CONNECTION_SHUTTING_DOWN && !retry && nd_ref == 1);
		COVER(nd_have_closed && nd_closed_rc != 0 && nd_jobadd_rc != 0);
		POST(verif_closed_calls == (nd_have_closed ? 1 : 0), "closed is invoked once per disconnect attempt of an established connection");
		if (nd_have_closed && nd_closed_rc != 0) {
			POST(verif_jobadd_calls == 1 && verif_jobadd_data == (void *)c, "a non-zero result from closed re-schedules the disconnect for this connection");
		} else {
			POST(verif_jobadd_calls == 0, "no retry is scheduled when closed returned zero");
		}
		dropped = !retry;
		if (retry) {
			POST(verif_watch_freed == 0 && c->refcount == nd_ref, "retry keeps the reference");
			POST(c->state == QB_IPCS_CONNECTION_SHUTTING_DOWN, "a connection waiting for its closed retry is SHUTTING_DOWN");
		}
		if (nd_state == QB_IPCS_CONNECTION_ESTABLISHED) {
			POST(verif_tdisc_calls >= 1, "an established connection's transport is torn down");
			POST(verif_tdisc_first_state == QB_IPCS_CONNECTION_ESTABLISHED, "an established connection's transport is first torn down in state ESTABLISHED (setup socket), the rest at the last unref");
		}
		POST(verif_rmtmp_calls >= 1, "the per-connection directory is removed");
	}
	if (dropped) {
		if (nd_ref == 1) {
			POST(verif_watch_freed == 1 && verif_destroyed_calls == 1, "dropping the last reference destroys the connection exactly once");
			POST(verif_closed_calls == 0 || verif_destroyed_at > verif_closed_at, "destroyed comes after closed");
		} else {
			POST(verif_watch_freed == 0 && verif_destroyed_calls == 0 && c->refcount == nd_ref - 1, "the initial reference is dropped; other holders keep the connection alive");
		}
	}
	POST(!verif_C_freed_seen_by_cb, "nothing is invoked for a connection after it was freed");
}
