/* common prelude of the IPC units: system + libqb internal headers, then the shared stubs
 * (diagnostics dropped, sequential atomics, OS stubs).  The unit includes the real source(s) afterwards. */
#include "os_base.h"
#include <poll.h>
#include <sys/un.h>
#include <sys/stat.h>
#include <sys/mman.h>
#include <sys/uio.h>
#include <signal.h>
#include <setjmp.h>
#include <qb/qbatomic.h>
#include <qb/qbipcs.h>
#include <qb/qbipcc.h>
#include <qb/qbloop.h>
#include <qb/qbdefs.h>
#include <qb/qbrb.h>
#include "util_int.h"
#include "ipc_int.h"
#include "verif.h"
#include "nolog.h"
#include "atomic.h"
#include "os_ipc.h"
