/*UNIT
{"props": ["C06"], "src": ["lib/ipc_shm.c", "lib/ringbuffer.c"], "spec": ["ringbuffer.spec"], "tags": ["nooverwrite"], "mode": "plain", "kind": "proved",
 "functions": ["qb_ipc_shm_peek", "qb_rb_chunk_peek (inlined)"],
 "stubs": ["ring notifier timedwait/post (recorded, any result)"],
 "drops": ["qb_util_log/qb_util_perror diagnostics compiled out (stubs/nolog.h)"],
 "restrict_fp": ["qb_rb_chunk_peek.function_pointer_call.1/verif_timedwait_fn", "qb_rb_chunk_peek.function_pointer_call.2/verif_post_fn"],
 "expect_classes": ["assertion"], "timeout": 300,
 "variants": [{"vname": "fitting", "defines": ["-DV_FITTING"]}]}
*/
/* qb_ipc_shm_peek(&c->request, &data, timeout) -- the shm transport's receive as used by _process_request_ --
 * on a request ring whose DATA WORDS at read_pt are arbitrary: the client maps that memory read/write, so
 * the chunk's size word and magic word are whatever the client put there (the ring header with
 * read_pt/write_pt/word_size is out of scope, see DESIGN 6/C06).
 * Whatever those words are: a positive result means "rc bytes were received at data", so those bytes must lie
 * inside the ring's mapping and rc must not exceed the ring's capacity; no position is moved.
 * Variant fitting: the size word describes a chunk that fits the ring (what the well-behaved client library
 * writes).  (A published chunk whose size word exceeds the ring -- the word lives in client-writable memory -- is reported
 * as is by the ring; the IPC layer refuses it: unit ipc.process_request.*_overclaim.) */
#include "../rb/common.h"
#include "../ipc/prelude.h"
#include "ipc_shm.c"

void harness(void)
{
	struct qb_ringbuffer_s *rb = verif_build_rb(QB_RB_FLAG_SHARED_PROCESS, 1);
	VERIF_ND(uint32_t, nd_size);
	VERIF_ND(uint32_t, nd_magic);
	VERIF_ND(int32_t, nd_timeout);
	VERIF_ND(int32_t, nd_wait_rc);
	struct qb_ipc_one_way ow;
	uint32_t ws = rb->shared_hdr->word_size, r = rb->shared_hdr->read_pt, w = rb->shared_hdr->write_pt;
	void *data = NULL;

	memset(&ow, 0, sizeof(ow));
	ow.type = QB_IPC_SHM;
	ow.u.shm.rb = rb;
	rb->shared_data[r] = nd_size;
	rb->shared_data[wrap(ws, r + 1)] = nd_magic;
	ASSUME(nd_wait_rc <= 0 && nd_wait_rc >= -133);
	verif_wait_rc = nd_wait_rc;
	verif_post_rc = 0;
#ifdef V_FITTING
	ASSUME(nd_magic != MAGIC || nd_size <= 4 * ws - 12);
#else
	ASSUME(nd_magic == MAGIC && nd_size > 4 * ws - 12);
#endif

	ssize_t rc = qb_ipc_shm_peek(&ow, &data, nd_timeout);

#ifdef V_FITTING
	COVER(rc > 0);
	COVER(rc == -EAGAIN);
	COVER(rc < 0 && rc != -EAGAIN);
#else
	COVER(rc != 0);
#endif
	POST(rc != 0, "the shm receive reports bytes or an error, never an empty message");
	if (rc > 0) {
		POST((uint64_t)rc <= (uint64_t)4 * ws, "the number of bytes the shm receive reports never exceeds the ring's capacity");
		POST(data == (void *)&rb->shared_data[wrap(ws, r + 2)], "the shm receive points at the chunk's payload inside the ring");
		POST(__CPROVER_r_ok(data, (size_t)rc), "every byte the shm receive reports as received lies inside the ring's mapping");
	}
	POST(rb->shared_hdr->read_pt == r && rb->shared_hdr->write_pt == w, "peeking moves no position");
}
