/*UNIT
{"props": ["C02"], "src": ["lib/ipcs.c"], "mode": "plain", "kind": "bounded",
 "bound": "vectored sends with at most 2 iovec entries (the library only passes the vector on); sizes and all outcomes symbolic",
 "functions": ["qb_ipcs_response_send", "qb_ipcs_response_sendv", "qb_ipcs_event_sendv", "new_event_notification (inlined)", "resend_event_notifications (inlined)"],
 "stubs": ["funcs.send / funcs.sendv (the whole message is queued, or an error)", "qb_ipc_us_send on the setup socket (all-or-error; ENOBUFS excluded as in ipc.event_send)", "qb_ipc_us_ready (any result)", "poll_fns.dispatch_mod (recorded)"],
 "drops": ["qb_util_log/qb_util_perror diagnostics compiled out (stubs/nolog.h)"],
 "restrict_fp": ["qb_ipcs_response_send.function_pointer_call.1/verif_t_send", "qb_ipcs_response_sendv.function_pointer_call.1/verif_t_sendv",
                 "qb_ipcs_event_sendv.function_pointer_call.1/verif_t_sendv",
                 "_modify_dispatch_descriptor_.function_pointer_call.1/verif_dispatch_mod", "_modify_dispatch_descriptor_.function_pointer_call.2/verif_dispatch_mod",
                 "qb_ipcs_connection_unref.function_pointer_call.1/verif_cb_destroyed", "qb_ipcs_connection_unref.function_pointer_call.2/verif_t_disconnect"],
 "unwindset": ["_iov_fits_.0:4"],
 "expect_classes": ["assertion"], "timeout": 120, "cbmc_flags": ["--no-malloc-may-fail"],
 "variants": [{"vname": "response", "defines": ["-DV_FN=1", "-DV_FITS"]}, {"vname": "responsev", "defines": ["-DV_FN=2", "-DV_FITS"]},
              {"vname": "eventv", "defines": ["-DV_FN=3", "-DV_FITS"]},
              {"vname": "response_oversize", "defines": ["-DV_FN=1", "-DV_OVERSIZE"]}, {"vname": "responsev_oversize", "defines": ["-DV_FN=2", "-DV_OVERSIZE"]},
              {"vname": "eventv_oversize", "defines": ["-DV_FN=3", "-DV_OVERSIZE"]}]}
*/
/* The server's other send calls: qb_ipcs_response_send, qb_ipcs_response_sendv, qb_ipcs_event_sendv.
 * "A send that cannot be queued (peer slow, flow control on, message larger than the negotiated maximum) reports
 *  an error and has no effect."
 *  variants response / responsev / eventv (message of at most the negotiated maximum): the message is handed to
 *    the transport exactly once; a transport error is reported as an error; responses never produce notification
 *    bytes; for events: notification bytes written + notifications outstanding == before + (1 if queued and
 *    success reported), POLLOUT requested exactly while notifications are outstanding; the reference bracket is
 *    closed again.
 *  variants *_oversize (message LARGER than the negotiated maximum): must be refused with EMSGSIZE and have no
 *    effect -- as qb_ipcs_event_send and the client's qb_ipcc_send/sendv do. */
#include "ipcs_common.h"

void harness(void)
{
	VERIF_ND(uint8_t, nd_shm);
	VERIF_ND(size_t, nd_max);
	VERIF_ND(size_t, nd_l0);
	VERIF_ND(size_t, nd_l1);
	VERIF_ND(size_t, nd_n);
	VERIF_ND(int64_t, nd_tresult);
	VERIF_ND(int32_t, nd_ref);
	struct qb_ipcs_service *s;
	struct qb_ipcs_connection *c;
	struct iovec iov[2];
	char byte = 0;
	ssize_t rc;

	verif_monitor_reset();
	verif_ussend_exclude = -ENOBUFS;
	ASSUME(nd_max >= 600 && nd_max <= (1u << 24));
	ASSUME(nd_ref >= 1 && nd_ref < (1 << 30));
	s = verif_build_service(nd_shm != 0);
	s->ref_count += 1;
	c = verif_build_conn(s, QB_IPCS_CONNECTION_ESTABLISHED, nd_ref, nd_max);
	verif_C = c; verif_watch_ptr = c;
	if (!nd_shm) {
		ASSUME(c->outstanding_notifiers == 0);
		c->poll_events = POLLIN | POLLPRI | POLLNVAL;
	}
	int32_t n0 = c->outstanding_notifiers;
	ASSUME(nd_l0 <= (1u << 26) && nd_l1 <= (1u << 26));
#if V_FN == 1
	size_t total = nd_l0;
#else
	ASSUME(nd_n <= 2);
	iov[0].iov_base = &byte; iov[0].iov_len = nd_l0;
	iov[1].iov_base = &byte; iov[1].iov_len = nd_l1;
	size_t total = (nd_n > 0 ? nd_l0 : 0) + (nd_n > 1 ? nd_l1 : 0);
#endif
#ifdef V_FITS
	ASSUME(total <= nd_max);
#else
	ASSUME(total > nd_max);
#endif
	/* the transport queues the whole message or reports an error */
	ASSUME((nd_tresult == (int64_t)total && (V_FN == 1 || total > 0)) || (nd_tresult < 0 && nd_tresult >= -133));
	verif_tsend_result = nd_tresult;

#if V_FN == 1
	POST(qb_ipcs_response_send(NULL, &byte, 1) == -EINVAL, "no connection: EINVAL");
	rc = qb_ipcs_response_send(c, &byte, nd_l0);
	int tcalls = verif_tsend_calls;
#elif V_FN == 2
	POST(qb_ipcs_response_sendv(NULL, iov, 1) == -EINVAL, "no connection: EINVAL");
	rc = qb_ipcs_response_sendv(c, iov, nd_n);
	int tcalls = verif_tsendv_calls;
#else
	POST(qb_ipcs_event_sendv(NULL, iov, 1) == -EINVAL, "no connection: EINVAL");
	rc = qb_ipcs_event_sendv(c, iov, nd_n);
	int tcalls = verif_tsendv_calls;
#endif
	int32_t n1 = c->outstanding_notifiers;

#ifdef V_OVERSIZE
	COVER(1);
	POST(rc == -EMSGSIZE, "a message larger than the negotiated maximum is refused with EMSGSIZE");
	POST(tcalls == 0 && verif_ussend_calls == 0 && n1 == n0, "a refused oversize message has no effect");
#else
	COVER(rc == (ssize_t)total && total == nd_max);
	COVER(nd_tresult == -EAGAIN);
	COVER(nd_tresult < 0 && nd_tresult != -EAGAIN && nd_tresult != -ETIMEDOUT);
	POST(tcalls == 1, "a message of at most the negotiated maximum is handed to the transport exactly once");
	POST(nd_tresult >= 0 || rc < 0, "a message the transport could not queue reports an error");
#if V_FN != 3
	POST(verif_ussend_calls == 0 && n1 == n0 && verif_dispmod_calls == 0, "a response produces no notification and changes no notification state");
	POST(nd_tresult < 0 || rc == nd_tresult, "a queued response reports its length");
#else
	if (!nd_shm) {
		POST(verif_ussend_calls == 0 && n1 == 0, "socket transport: the event socket itself is the polled descriptor, no notification bytes");
	} else {
		COVER(rc == (ssize_t)total && n1 == n0 + 1);
		COVER(rc == (ssize_t)total && n0 > 0 && n1 == 0);
		int accounted = (rc == (ssize_t)total && nd_tresult == (int64_t)total) ? 1 : 0;
		if (rc >= 0) {
			POST(verif_ussend_total + n1 == (long)n0 + accounted, "every queued event is notified exactly once (now or outstanding), an event that was not queued never");
		}
		if (nd_tresult < 0) {
			POST(verif_ussend_total + n1 == (long)n0, "a send that could not be queued adds no notification");
		}
	}
	POST(n1 >= 0, "outstanding_notifiers is never negative");
	POST((n1 > 0) == ((c->poll_events & POLLOUT) != 0), "POLLOUT is requested exactly while notifications are outstanding");
#endif
#endif
	POST(verif_watch_freed == 0 && c->refcount == nd_ref, "the temporary reference around the send is dropped again");
}
