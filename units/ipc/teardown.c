/*UNIT
{"props": ["C03", "C05"], "mode": "plain", "kind": "proved",
 "functions": ["qb_ipcs_shm_disconnect", "qb_ipcs_us_disconnect", "_sock_rm_from_mainloop (inlined)", "qb_ipcc_us_sock_close (stub: counted per descriptor)"],
 "stubs": ["qb_rb_close (ghost ledger per ring)", "qb_ipcc_us_sock_close (ghost ledger per descriptor)", "poll_fns.dispatch_del (ledger per descriptor)", "munmap / unlink (ledger)", "remove_tempdir (counted)",
           "sigaction/sigemptyset (no-ops), setjmp returns 0 (assumption: no SIGBUS while tearing down)", "stat fails (abstract-namespace sockets: no force-filesystem-sockets file)", "free (observed)"],
 "drops": ["qb_util_log/qb_util_perror diagnostics compiled out (stubs/nolog.h)"],
 "expect_classes": ["assertion"], "timeout": 120, "cbmc_flags": ["--no-malloc-may-fail"],
 "variants": [{"vname": "shm", "src": ["lib/ipc_shm.c"], "defines": ["-DV_SHM=1"], "restrict_fp": ["qb_ipcs_shm_disconnect.function_pointer_call.1/verif_td_dispatch_del"]},
              {"vname": "us", "src": ["lib/ipc_socket.c"], "defines": ["-DV_SHM=0"], "restrict_fp": ["_sock_rm_from_mainloop.function_pointer_call.1/verif_td_dispatch_del", "_sock_rm_from_mainloop.function_pointer_call.2/verif_td_dispatch_del"]}]}
*/
/* Server-side transport teardown (s->funcs.disconnect) as a resource ledger.  The connection machinery calls
 * it once when the connection leaves ESTABLISHED or ACTIVE (qb_ipcs_disconnect) and once more at the last
 * unref (then in SHUTTING_DOWN, or INACTIVE for a connection that never completed) -- units ipc.disconnect /
 * ipc.conn_unref.  For every state and every subset of resources that exist:
 *   one call releases exactly what that state owns and nothing else:
 *     ESTABLISHED: descriptors leave the main loop and are closed once; rings / control mapping are kept (the
 *                  closed callback and pending references may still use them);
 *     SHUTTING_DOWN: rings closed (shm) / control page unmapped and its file unlinked (socket transport), once;
 *                  descriptors are not touched again;
 *     ACTIVE: both;   INACTIVE: nothing;   in every state the per-connection directory removal is attempted;
 *   and over the two calls of a life cycle (ESTABLISHED then SHUTTING_DOWN, or ACTIVE then INACTIVE) every
 *   resource is released exactly once -- whatever the peer did before dying shows up only as which resources exist. */
#include "prelude.h"
#include "ringbuffer_int.h"
#include <setjmp.h>
#undef setjmp
#define setjmp(env) 0
static int verif_td_sigaction(int sig, const struct sigaction *a, struct sigaction *o) { return 0; }
#define sigaction(a, b, c) verif_td_sigaction(a, b, c)
#undef sigemptyset
#define sigemptyset(s) ((void)0)

static struct qb_ringbuffer_s td_rb[3];
static struct qb_ringbuffer_shared_s td_hdr[3];
static int td_rb_closed[3];
static int td_fd_closed[16], td_fd_del[16];
static int td_rmtmp, td_munmap, td_unlink_ctl;
static void *td_ctl;
static char *td_ctl_name;

static int td_ring(struct qb_ringbuffer_s *rb) { return rb == &td_rb[0] ? 0 : (rb == &td_rb[1] ? 1 : 2); }
static void verif_td_rb_close(struct qb_ringbuffer_s *rb) { if (rb) td_rb_closed[td_ring(rb)]++; }
static void verif_td_sock_close(int32_t fd) { if (fd >= 0 && fd < 16) td_fd_closed[fd]++; else { POST(0, "teardown closes only descriptors the connection owns"); } }
static int32_t verif_td_dispatch_del(int32_t fd) { if (fd >= 0 && fd < 16) td_fd_del[fd]++; return 0; }
static void verif_td_remove_tempdir(const char *n) { td_rmtmp++; }
static int verif_td_munmap(void *p, size_t n) { if (p == td_ctl && p != NULL) td_munmap++; return 0; }
static int verif_td_unlink(const char *p) { if (p == td_ctl_name) td_unlink_ctl++; return 0; }
static int verif_td_stat(const char *p, struct stat *b) { errno = ENOENT; return -1; }
#define qb_rb_close verif_td_rb_close
#define qb_ipcc_us_sock_close verif_td_sock_close
#define remove_tempdir verif_td_remove_tempdir
#undef munmap
#define munmap verif_td_munmap
#undef unlink
#define unlink verif_td_unlink
#undef stat
#define stat(p, b) verif_td_stat(p, b)
#if V_SHM
#include "ipc_shm.c"
#define TEARDOWN qb_ipcs_shm_disconnect
#else
#include "ipc_socket.c"
#define TEARDOWN qb_ipcs_us_disconnect
#endif

void harness(void)
{
	VERIF_ND(uint8_t, nd_state);
	VERIF_ND(uint8_t, nd_have_req); VERIF_ND(uint8_t, nd_have_rsp); VERIF_ND(uint8_t, nd_have_evt);
	VERIF_ND(uint8_t, nd_have_sock);
	VERIF_ND(uint8_t, nd_second_call);
	struct qb_ipcs_service *s = calloc(1, sizeof(*s));
	struct qb_ipcs_connection *c = calloc(1, sizeof(*c));
	int i;
	ASSUME(s != NULL && c != NULL);
	ASSUME(nd_state <= QB_IPCS_CONNECTION_SHUTTING_DOWN);
	for (i = 0; i < 3; i++) { td_rb[i].shared_hdr = &td_hdr[i]; td_rb_closed[i] = 0; }
	for (i = 0; i < 16; i++) { td_fd_closed[i] = 0; td_fd_del[i] = 0; }
	td_rmtmp = td_munmap = td_unlink_ctl = 0;
	s->poll_fns.dispatch_del = verif_td_dispatch_del;
	c->service = s;
	c->state = nd_state;
	c->description[0] = 'd'; c->description[1] = '/'; c->description[2] = 'q';
#if V_SHM
	/* which resources exist: any subset of the three rings (a failed set-up leaves fewer), the setup socket or none */
	c->request.u.shm.rb = nd_have_req ? &td_rb[0] : NULL;
	c->response.u.shm.rb = nd_have_rsp ? &td_rb[1] : NULL;
	c->event.u.shm.rb = nd_have_evt ? &td_rb[2] : NULL;
	c->setup.u.us.sock = nd_have_sock ? 7 : -1;
	td_ctl = NULL; td_ctl_name = NULL;
#else
	c->setup.u.us.sock = 7; c->request.u.us.sock = 8; c->response.u.us.sock = 8; c->event.u.us.sock = 9;
	td_ctl = malloc(24); ASSUME(td_ctl != NULL);
	c->request.u.us.shared_data = td_ctl;
	td_ctl_name = c->request.u.us.shared_file_name;
	c->response.u.us.sock_name = nd_have_rsp ? malloc(4) : NULL;
	c->event.u.us.sock_name = nd_have_evt ? malloc(4) : NULL;
#endif
	int owns_fds = nd_state == QB_IPCS_CONNECTION_ESTABLISHED || nd_state == QB_IPCS_CONNECTION_ACTIVE;
	int owns_mem = nd_state == QB_IPCS_CONNECTION_SHUTTING_DOWN || nd_state == QB_IPCS_CONNECTION_ACTIVE;

	TEARDOWN(c);

	COVER(nd_state == QB_IPCS_CONNECTION_ACTIVE);
	COVER(nd_state == QB_IPCS_CONNECTION_INACTIVE);
	POST(td_rmtmp == 1, "teardown always attempts to remove the per-connection directory (also for a connection that never left INACTIVE: a refused client leaves no directory behind)");
#if V_SHM
	POST(td_rb_closed[0] == (owns_mem && nd_have_req) && td_rb_closed[1] == (owns_mem && nd_have_rsp) && td_rb_closed[2] == (owns_mem && nd_have_evt),
	     "the rings that exist are closed exactly in the states that own them (SHUTTING_DOWN, ACTIVE), each once");
	POST(td_fd_closed[7] == (owns_fds && nd_have_sock) && td_fd_del[7] == (owns_fds && nd_have_sock),
	     "the setup socket leaves the main loop and is closed exactly in the states that own it (ESTABLISHED, ACTIVE), once");
	if (owns_mem) {
		POST(c->request.u.shm.rb == NULL && c->response.u.shm.rb == NULL && c->event.u.shm.rb == NULL, "closed rings are forgotten, so they cannot be closed twice");
	}
	if (owns_fds) {
		POST(c->setup.u.us.sock == -1, "a closed descriptor is forgotten, so it cannot be closed twice");
	}
#else
	POST(td_fd_closed[7] == owns_fds && td_fd_closed[8] == owns_fds && td_fd_closed[9] == owns_fds, "the three sockets are closed exactly in the states that own them (ESTABLISHED, ACTIVE), each once");
	POST(td_fd_del[8] == owns_fds && td_fd_del[7] == owns_fds && td_fd_del[9] == 0, "the request and setup sockets leave the main loop in those states");
	POST(td_munmap == owns_mem && td_unlink_ctl == owns_mem, "the control page is unmapped and its file unlinked exactly in the states that own it (SHUTTING_DOWN, ACTIVE), once");
	if (owns_fds) {
		POST(c->response.u.us.sock_name == NULL && c->event.u.us.sock_name == NULL, "pending connect-on-send names are released and forgotten");
	}
#endif
	/* second call of the life cycle */
	if (nd_second_call && (nd_state == QB_IPCS_CONNECTION_ESTABLISHED || nd_state == QB_IPCS_CONNECTION_ACTIVE)) {
		c->state = nd_state == QB_IPCS_CONNECTION_ESTABLISHED ? QB_IPCS_CONNECTION_SHUTTING_DOWN : QB_IPCS_CONNECTION_INACTIVE;
		TEARDOWN(c);
		COVER(nd_state == QB_IPCS_CONNECTION_ESTABLISHED);
#if V_SHM
		POST(td_rb_closed[0] == (nd_have_req != 0) && td_rb_closed[1] == (nd_have_rsp != 0) && td_rb_closed[2] == (nd_have_evt != 0)
		     && td_fd_closed[7] == (nd_have_sock != 0) && td_fd_del[7] == (nd_have_sock != 0),
		     "over the connection's life cycle every resource that exists is released exactly once");
#else
		POST(td_fd_closed[7] == 1 && td_fd_closed[8] == 1 && td_fd_closed[9] == 1 && td_munmap == 1 && td_unlink_ctl == 1,
		     "over the connection's life cycle every resource is released exactly once");
#endif
	}
}
