/*UNIT
{"props": ["C04"], "src": ["lib/ipcs.c"], "mode": "plain", "kind": "bounded",
 "bound": "re-entrancy depth 1 (a callback acts on its connection once; callbacks it triggers do not act again); at most 2 queued requests per dispatch",
 "functions": ["qb_ipcs_dispatch_connection_request", "_process_request_", "qb_ipcs_disconnect", "qb_ipcs_connection_ref/unref", "qb_ipcs_event_send", "new_event_notification"],
 "stubs": ["service callbacks that act on their connection (ref+unref, disconnect, event_send, keep a reference)", "transport table funcs.* (fresh arbitrary result per call)", "poll handlers", "qb_ipc_us_send/recv/ready on the setup socket (all-or-error contract)", "remove_tempdir", "free (observed)"],
 "drops": ["qb_util_log/qb_util_perror diagnostics compiled out (stubs/nolog.h)"],
 "restrict_fp": ["_process_request_.function_pointer_call.1/verif_t_peek", "_process_request_.function_pointer_call.2/verif_t_recv",
                 "_process_request_.function_pointer_call.3/verif_cb_msg_process", "_process_request_.function_pointer_call.4/verif_t_reclaim",
                 "_request_q_len_get.function_pointer_call.1/verif_t_q_len_get",
                 "_modify_dispatch_descriptor_.function_pointer_call.1/verif_dispatch_mod", "_modify_dispatch_descriptor_.function_pointer_call.2/verif_dispatch_mod",
                 "qb_ipcs_disconnect.function_pointer_call.1/verif_t_disconnect", "qb_ipcs_disconnect.function_pointer_call.2/verif_t_disconnect",
                 "qb_ipcs_disconnect.function_pointer_call.3/verif_cb_closed", "qb_ipcs_disconnect.function_pointer_call.4/verif_job_add",
                 "qb_ipcs_connection_unref.function_pointer_call.1/verif_cb_destroyed", "qb_ipcs_connection_unref.function_pointer_call.2/verif_t_disconnect",
                 "qb_ipcs_event_send.function_pointer_call.1/verif_t_send"],
 "unwind": 3,
 "expect_classes": ["assertion"], "timeout": 300, "cbmc_flags": ["--no-malloc-may-fail"],
 "variants": [
  {"vname": "msg_refunref", "defines": ["-DV_ENTRY_DISPATCH", "-DV_ACT_CB=3", "-DV_ACTION=1"]},
  {"vname": "msg_event_send", "defines": ["-DV_ENTRY_DISPATCH", "-DV_ACT_CB=3", "-DV_ACTION=3"]},
  {"vname": "msg_keep_ref_disconnect", "defines": ["-DV_ENTRY_DISPATCH", "-DV_ACT_CB=3", "-DV_ACTION=5"]},
  {"vname": "msg_disconnect", "defines": ["-DV_ENTRY_DISPATCH", "-DV_ACT_CB=3", "-DV_ACTION=2"]},
  {"vname": "closed_refunref", "defines": ["-DV_ENTRY_DISCONNECT", "-DV_ACT_CB=4", "-DV_ACTION=1"]},
  {"vname": "closed_event_send", "defines": ["-DV_ENTRY_DISCONNECT", "-DV_ACT_CB=4", "-DV_ACTION=3"]},
  {"vname": "closed_disconnect", "defines": ["-DV_ENTRY_DISCONNECT", "-DV_ACT_CB=4", "-DV_ACTION=2"]},
  {"vname": "destroyed_refunref", "defines": ["-DV_ENTRY_DISCONNECT", "-DV_ACT_CB=5", "-DV_ACTION=1"]}
 ]}
*/
/* Re-entrancy: a service callback (V_ACT_CB: 3 = msg_process, 4 = connection_closed, 5 = connection_destroyed)
 * acts on the connection it was given (V_ACTION: 1 = take and drop a reference, 2 = qb_ipcs_disconnect,
 * 3 = qb_ipcs_event_send, 5 = take a reference, disconnect, and drop the reference after the library call
 * returned) while the library is in the middle of dispatching (V_ENTRY_DISPATCH) or disconnecting
 * (V_ENTRY_DISCONNECT) that connection.  Checked: the library never touches the connection after it was
 * freed (CBMC's deallocated-object checks on the real code + the callbacks' own liveness assertion), destroyed
 * is invoked at most once, closed only for a connection whose created had run, the object is freed at most
 * once and only when no reference is left. */
#define VERIF_OWN_CALLBACKS
#include "ipcs_common.h"

static int verif_cb_depth;
static int verif_app_ref;
static char verif_event[32];

static void verif_cb_act(int which, qb_ipcs_connection_t *c)
{
	if (which != V_ACT_CB || verif_cb_depth > 0) {
		return;
	}
	verif_cb_depth++;
#if V_ACTION == 1
	qb_ipcs_connection_ref(c);
	qb_ipcs_connection_unref(c);
#elif V_ACTION == 2
	qb_ipcs_disconnect(c);
#elif V_ACTION == 3
	(void)qb_ipcs_event_send(c, verif_event, sizeof(verif_event));
#elif V_ACTION == 5
	qb_ipcs_connection_ref(c);
	verif_app_ref = 1;
	qb_ipcs_disconnect(c);
#endif
	verif_cb_depth--;
}

static int32_t verif_cb_accept(qb_ipcs_connection_t *c, uid_t uid, gid_t gid) { verif_accept_calls++; return 0; }
static void verif_cb_created(qb_ipcs_connection_t *c) { verif_cb_check_alive(c); verif_created_calls++; verif_created_at = ++verif_clock; }
static int32_t verif_cb_msg_process(qb_ipcs_connection_t *c, void *data, size_t size)
{
	verif_cb_check_alive(c);
	verif_msgproc_calls++; verif_msgproc_at = ++verif_clock;
	verif_cb_act(3, c);
	return verif_msgproc_rc;
}
static int32_t verif_cb_closed(qb_ipcs_connection_t *c)
{
	verif_cb_check_alive(c);
	verif_closed_calls++; verif_closed_at = ++verif_clock;
	verif_cb_act(4, c);
	return verif_closed_rc;
}
static void verif_cb_destroyed(qb_ipcs_connection_t *c)
{
	verif_cb_check_alive(c);
	verif_destroyed_calls++; verif_destroyed_at = ++verif_clock;
	verif_cb_act(5, c);
}

void harness(void)
{
	VERIF_ND(uint8_t, nd_shm);
	VERIF_ND(int32_t, nd_ref);
	VERIF_ND(int32_t, nd_revents);
	VERIF_ND(int32_t, nd_qlen);
	VERIF_ND(int32_t, nd_closed_rc);
	VERIF_ND(int32_t, nd_jobadd_rc);
	VERIF_ND(int32_t, nd_tsend);
	VERIF_ND(uint8_t, nd_state);
	struct qb_ipcs_service *s;
	struct qb_ipcs_connection *c;

	verif_monitor_reset();
	verif_cb_depth = 0; verif_app_ref = 0;
	ASSUME(nd_ref >= 1 && nd_ref <= 3);
	ASSUME(nd_jobadd_rc <= 0);
	s = verif_build_service(nd_shm != 0);
	s->ref_count += 1;
	verif_closed_rc = nd_closed_rc;
	verif_jobadd_rc = nd_jobadd_rc;
	ASSUME(nd_tsend >= -133 && nd_tsend <= (int32_t)sizeof(verif_event));
	verif_tsend_result = nd_tsend;
#ifdef V_ENTRY_DISPATCH
	c = verif_build_conn(s, QB_IPCS_CONNECTION_ESTABLISHED, nd_ref, 64);
	ASSUME(c->fc_enabled == 0);
	verif_C = c; verif_watch_ptr = c;
#if V_ACTION == 5
	ASSUME(nd_qlen >= -133 && nd_qlen <= 1);   /* one request: a second disconnect of the same connection is the subject of ipc.disconnect_twice */
#else
	ASSUME(nd_qlen >= -133 && nd_qlen <= 2);
#endif
	verif_qlen_result = nd_qlen;
	verif_fresh_results = 1;
	verif_req_max = 64;
	verif_req_chunk = malloc(sizeof(struct qb_ipc_request_header));
	ASSUME(verif_req_chunk != NULL);

	(void)qb_ipcs_dispatch_connection_request(7, nd_revents, c);

#if V_ACTION != 5
	COVER(verif_msgproc_calls == 2);
#endif
#if V_ACTION != 5
	COVER(verif_msgproc_calls == 1 && verif_watch_freed == 1);
#endif
	COVER(verif_msgproc_calls == 1 && verif_watch_freed == 0);
#else
	ASSUME(nd_state >= QB_IPCS_CONNECTION_ACTIVE && nd_state <= QB_IPCS_CONNECTION_SHUTTING_DOWN);
	c = verif_build_conn(s, nd_state, nd_ref, 64);
	verif_C = c; verif_watch_ptr = c;

	qb_ipcs_disconnect(c);

#if V_ACT_CB == 5
	COVER(verif_destroyed_calls >= 1);
#else
	COVER(verif_closed_calls >= 1 && verif_watch_freed == 1);
	COVER(verif_closed_calls >= 1 && verif_watch_freed == 0);
	COVER(verif_destroyed_calls == 1);
#endif
#endif
	if (verif_app_ref) {
		POST(verif_watch_freed == 0, "a connection the application still holds a reference to is not freed");
		qb_ipcs_connection_unref(c);
	}
	POST(verif_destroyed_calls <= 1, "destroyed is invoked at most once");
	POST(verif_watch_freed <= 1, "the connection is freed at most once");
	POST(verif_watch_freed == verif_destroyed_calls, "destroyed is invoked exactly when the connection is freed");
	POST(!verif_C_freed_seen_by_cb, "nothing is invoked for a connection after it was freed");
	if (verif_watch_freed == 0) {
		POST(c->refcount >= 1, "a live connection holds at least one reference");
	}
}
