/*UNIT
{"props": ["C03"], "src": ["lib/ringbuffer.c", "lib/ringbuffer_helper.c"], "spec": ["ringbuffer.spec"], "tags": ["nooverwrite"], "mode": "plain", "kind": "bounded",
 "bound": "concrete short path names (\"/s/q-d\", \"/s/q-h\", and a data path without directory part); ring size, flags, reference count and all OS outcomes symbolic",
 "functions": ["qb_rb_close", "qb_rb_force_close", "qb_rb_close_helper"],
 "stubs": ["open (directory descriptor or -1/errno)", "qb_sys_unlink_or_truncate_at (records directory descriptor, name and fallback flag; any result)", "close / munmap (ledger, munmap may fail)",
           "notifier destroy_fn (counted)", "free (observed)", "strrchr/strncpy/strncmp: CBMC library models"],
 "drops": ["qb_util_log/qb_util_perror diagnostics compiled out (stubs/nolog.h)"],
 "restrict_fp": ["qb_rb_close_helper.function_pointer_call.1/verif_rc_destroy_fn"],
 "unwind": 12,
 "expect_classes": ["assertion"], "timeout": 300, "cbmc_flags": ["--no-malloc-may-fail"],
 "variants": [{"vname": "close", "defines": ["-DV_FORCE=0"]}, {"vname": "force_close", "defines": ["-DV_FORCE=1"]}]}
*/
/* qb_rb_close / qb_rb_force_close -> qb_rb_close_helper: the release of one ring.
 *  close:       the side that CREATED the ring (QB_RB_FLAG_CREATE) removes exactly the two files it created --
 *               the data file and the header file, by their names inside the ring's directory -- and destroys the
 *               notifier once; the side that only opened it removes nothing; both unmap the data mapping (for
 *               its full double length) and the header mapping once each and free the handle once, whatever the
 *               unlink / munmap outcomes are;
 *  force_close: (the survivor cleaning up after a dead peer) removes both files regardless of who created them,
 *               with the truncate fallback, and releases the mappings and the handle the same way.
 * A directory that cannot be opened or a path without directory part: nothing is unlinked, an error is
 * returned, the mappings and the handle are still released. */
#include "os_base.h"
#include <sys/mman.h>
#include <fcntl.h>
#include "verif.h"
static int rc_open_calls, rc_close_calls, rc_close_fd, rc_unlink_calls, rc_destroy_calls, rc_freed;
static int rc_unlink_dirfd[2], rc_unlink_trunc[2];
static const char *rc_unlink_name[2];
static int rc_munmap_data, rc_munmap_hdr;
static void *rc_data_p, *rc_hdr_p, *rc_rb_p;
static size_t rc_data_len;
static int32_t rc_dirfd;
static int verif_rc_open(const char *p, int flags) { rc_open_calls++; if (rc_dirfd < 0) { errno = ENOENT; return -1; } return rc_dirfd; }
static int verif_rc_close(int fd) { rc_close_calls++; rc_close_fd = fd; return 0; }
static int verif_rc_munmap(void *p, size_t n)
{
	VERIF_ND(uint8_t, nd_munmap_fails);
	if (p == rc_data_p) { rc_munmap_data++; rc_data_len = n; }
	if (p == rc_hdr_p) { rc_munmap_hdr++; }
	if (nd_munmap_fails) { errno = EINVAL; return -1; }
	return 0;
}
static void verif_rc_free(void *p) { if (p == rc_rb_p) rc_freed++; free(p); }
#define open(p, f) verif_rc_open(p, f)
#define close verif_rc_close
#define munmap verif_rc_munmap
#define free verif_rc_free
#include "ringbuffer_int.h"
static int32_t verif_rc_unlink_at(int32_t dirfd, const char *path, int32_t truncate_fallback)
{
	VERIF_ND(int32_t, nd_unlink_rc);
	ASSUME(nd_unlink_rc <= 0 && nd_unlink_rc >= -133);
	if (rc_unlink_calls < 2) { rc_unlink_dirfd[rc_unlink_calls] = dirfd; rc_unlink_name[rc_unlink_calls] = path; rc_unlink_trunc[rc_unlink_calls] = truncate_fallback; }
	rc_unlink_calls++;
	return nd_unlink_rc;
}
#define qb_sys_unlink_or_truncate_at verif_rc_unlink_at
#include "../rb/common.h"
#include "ringbuffer_helper.c"

static int32_t verif_rc_destroy_fn(void *inst) { rc_destroy_calls++; return 0; }
int32_t (*verif_rc_keep)(void *) = verif_rc_destroy_fn;

void harness(void)
{
	VERIF_ND(uint32_t, nd_flags);
	VERIF_ND(int32_t, nd_refs);
	VERIF_ND(int32_t, nd_dirfd);
	VERIF_ND(uint8_t, nd_no_dir);
	VERIF_ND(uint8_t, nd_have_destroy);
	struct qb_ringbuffer_s *rb = verif_build_rb(0, 0);
	uint32_t ws = rb->shared_hdr->word_size;

	rc_open_calls = rc_close_calls = rc_unlink_calls = rc_destroy_calls = rc_freed = 0; rc_close_fd = -1;
	rc_munmap_data = rc_munmap_hdr = 0; rc_data_len = 0;
	rb->flags = nd_flags;
	ASSUME(nd_refs >= 1 && nd_refs <= 2);
	rb->shared_hdr->ref_count = nd_refs;
	rb->notifier.destroy_fn = nd_have_destroy ? verif_rc_destroy_fn : NULL;
	ASSUME(nd_dirfd == -1 || (nd_dirfd >= 3 && nd_dirfd < 1024));
	rc_dirfd = nd_dirfd;
	char *dp = rb->shared_hdr->data_path, *hp = rb->shared_hdr->hdr_path;
	if (nd_no_dir) {
		dp[0] = 'q'; dp[1] = '-'; dp[2] = 'd'; dp[3] = 0;
	} else {
		dp[0] = '/'; dp[1] = 's'; dp[2] = '/'; dp[3] = 'q'; dp[4] = '-'; dp[5] = 'd'; dp[6] = 0;
	}
	hp[0] = '/'; hp[1] = 's'; hp[2] = '/'; hp[3] = 'q'; hp[4] = '-'; hp[5] = 'h'; hp[6] = 0;
	rc_data_p = rb->shared_data; rc_hdr_p = rb->shared_hdr; rc_rb_p = rb;

#if V_FORCE
	qb_rb_force_close(NULL);
	qb_rb_force_close(rb);
	int unlinks = 1;
#else
	qb_rb_close(NULL);
	qb_rb_close(rb);
	int unlinks = (nd_flags & QB_RB_FLAG_CREATE) != 0;
#endif

	COVER(unlinks && rc_unlink_calls == 2);
	COVER(unlinks && nd_dirfd == -1);
	COVER(unlinks && nd_no_dir);
#if !V_FORCE
	COVER(!unlinks);
#endif
	POST(rc_munmap_data == 1 && rc_data_len == (size_t)ws * 8, "the data mapping is unmapped once, for its full double length");
	POST(rc_munmap_hdr == 1, "the header mapping is unmapped once");
	POST(rc_freed == 1, "the ring handle is freed once");
	if (!unlinks) {
		POST(rc_unlink_calls == 0 && rc_open_calls == 0 && rc_destroy_calls == 0, "the side that did not create the ring removes nothing");
	} else {
		POST(rc_destroy_calls == (nd_have_destroy ? 1 : 0), "the creator destroys the ring's notifier once");
		if (nd_no_dir || nd_dirfd == -1) {
			POST(rc_unlink_calls == 0, "no directory to work in: nothing is unlinked");
		} else {
			POST(rc_unlink_calls == 2, "exactly the two files of the ring are removed");
			POST(rc_unlink_dirfd[0] == nd_dirfd && rc_unlink_dirfd[1] == nd_dirfd, "both files are removed relative to the ring's directory");
			POST(rc_unlink_name[0] == dp + 3 && rc_unlink_name[1] == hp + 3, "the files removed are the data file and the header file this ring was created with");
			POST(rc_unlink_trunc[0] == V_FORCE && rc_unlink_trunc[1] == V_FORCE, "truncation is the fallback exactly for a forced close");
			POST(rc_close_calls == 1 && rc_close_fd == nd_dirfd, "the directory descriptor is closed again");
		}
	}
}
