/*UNIT
{"props": ["C06", "C03"], "src": ["lib/ipc_setup.c"], "mode": "plain",
 "kind": "proved", "functions": ["qb_ipc_us_recv_msghdr"],
 "stubs": ["recvmsg (any count in [0, iov_len] or -1/errno; precondition: iovec and control buffer writable for their stated lengths)", "qb_sigpipe_ctl (no-op)"],
 "drops": ["qb_util_log/qb_util_perror diagnostics compiled out (stubs/nolog.h)"],
 "unwindset": ["qb_ipc_us_recv_msghdr.0:3"],
 "expect_classes": ["assertion"], "timeout": 300, "cbmc_flags": ["--no-malloc-may-fail"]}
*/
/* qb_ipc_us_recv_msghdr on the server's handshake record (len = sizeof(struct qb_ipc_connection_request)).
 * The retry loop (backward goto) is handled by induction over one pass:
 *   Inv:  0 <= processed < len  (any progress left by earlier passes or by earlier calls that ended in EAGAIN);
 *   step: from ANY Inv state, one pass with ANY recvmsg outcome either leaves the function (postconditions below)
 *         or arrives at the next recvmsg call with Inv again (asserted there; exploration stops at that point,
 *         because that state is again an arbitrary Inv state).
 * Checked per pass: the iovec handed to recvmsg lies inside the record [&msg, &msg + len); processed never
 * exceeds len; the function returns len only when the whole record has arrived, otherwise a negative error. */
static void verif_recvmsg_hook(void *msg, unsigned long n);
#define VERIF_RECVMSG_HOOK verif_recvmsg_hook
#include "prelude.h"
#include "ipc_setup.c"

static struct ipc_auth_data *verif_data;
static size_t verif_total;
static int verif_last_read_was_zero;

static void verif_recvmsg_hook(void *m, unsigned long n)
{
	struct msghdr *msg = m;
	char *base = msg->msg_iov[0].iov_base;
	char *rec = (char *)&verif_data->msg;
#ifdef VERIF_CBMC
	size_t off = __CPROVER_POINTER_OFFSET(base), lo = offsetof(struct ipc_auth_data, msg);
	int inside = __CPROVER_same_object(base, verif_data) && off >= lo && off + msg->msg_iov[0].iov_len <= lo + verif_data->len;
#else
	int inside = base >= rec && base + msg->msg_iov[0].iov_len <= rec + verif_data->len;
#endif
	POST(!verif_last_read_was_zero, "handshake: after a zero-length read (the peer is gone) the receive gives up instead of reading again");
	verif_last_read_was_zero = (n == 0);
	POST(inside, "handshake: the receive iovec stays inside the fixed-size record");
#ifdef VERIF_CBMC
	POST(off == lo + verif_data->processed, "handshake: a resumed read continues exactly where the previous one stopped");
#else
	POST(base == rec + verif_data->processed, "handshake: a resumed read continues exactly where the previous one stopped");
#endif
	POST(msg->msg_iov[0].iov_len <= verif_data->len - verif_data->processed, "handshake: a resumed read asks for no more than the rest of the record");
	COVER(verif_data->processed > 0 && msg->msg_iov[0].iov_len == verif_data->len - verif_data->processed);
	POST(verif_data->processed < verif_data->len, "handshake: every further pass starts with less than the whole record received");
	if (verif_recvmsg_calls >= 2) {
		/* induction cut: this is again an arbitrary state satisfying Inv */
		ASSUME(0);
	}
	verif_total += n;
}

void harness(void)
{
	VERIF_ND(size_t, nd_processed);
	struct ipc_auth_data *data;
	size_t len = sizeof(struct qb_ipc_connection_request);

	verif_os_ipc_reset();
	verif_last_read_was_zero = 0;
	verif_total = 0;
	data = calloc(1, sizeof(*data));
	ASSUME(data != NULL);
	data->msg_recv.msg_iov = &data->iov_recv;
	data->msg_recv.msg_iovlen = 1;
	data->cmsg_cred = calloc(1, CMSG_SPACE(sizeof(struct ucred)));
	ASSUME(data->cmsg_cred != NULL);
	data->msg_recv.msg_control = data->cmsg_cred;
	data->msg_recv.msg_controllen = CMSG_SPACE(sizeof(struct ucred));
	data->len = len;
	data->iov_recv.iov_base = &data->msg;
	data->iov_recv.iov_len = len;
	data->sock = 7;
	ASSUME(nd_processed < len);
	data->processed = nd_processed;
	verif_data = data;
	verif_eagain_budget = 1;
	verif_recvmsg_prefilled = 1;   /* calloc'ed record + arbitrary bytes are irrelevant here: the function never reads them */

	ssize_t rc = qb_ipc_us_recv_msghdr(data);

	COVER(rc == (ssize_t)len);
	COVER(verif_recvmsg_calls == 2);
	COVER(rc == -EAGAIN && data->processed > nd_processed);
	COVER(rc == -ENOTCONN);
	COVER(rc < 0 && rc != -EAGAIN && rc != -ENOTCONN);
	POST(data->processed <= len, "handshake: processed never exceeds the record length");
	POST(data->processed == nd_processed + verif_total, "handshake: processed counts exactly the bytes received");
	POST(rc == (ssize_t)len || rc < 0, "handshake: the record is reported complete or an error is returned");
	POST((rc == (ssize_t)len) == (data->processed == len), "handshake: complete exactly when all bytes of the record have arrived");
}
