/* common prelude of the ipcc.c (client) units: stubs for the client transport table (c->funcs.*) and the
 * setup-socket helpers, ghost counters, builder for an arbitrary connected client. */
#include "prelude.h"

int verif_csend_calls, verif_csendv_calls, verif_crecv_calls, verif_cfcget_calls;
size_t verif_csend_len;
ssize_t verif_csend_result, verif_crecv_result;
int32_t verif_cfc_result;
int verif_ussend_calls, verif_usrecv_calls, verif_usready_calls;
long verif_ussend_total, verif_usrecv_total;
size_t verif_sendv_true_total;   /* exact sum of the iovec lengths seen by funcs.sendv */

static ssize_t verif_c_send(struct qb_ipc_one_way *ow, const void *data, size_t size)
{
	verif_csend_calls++; verif_csend_len = size;
	return verif_csend_result;
}
static ssize_t verif_c_sendv(struct qb_ipc_one_way *ow, const struct iovec *iov, size_t iov_len)
{
	verif_csendv_calls++;
	return verif_csend_result;
}
static ssize_t verif_c_recv(struct qb_ipc_one_way *ow, void *buf, size_t buf_size, int32_t timeout)
{
	verif_crecv_calls++;
	return verif_crecv_result;
}
static int32_t verif_c_fc_get(struct qb_ipc_one_way *ow) { verif_cfcget_calls++; return verif_cfc_result; }

/* qb_ipc_us_send on the setup socket: all of len bytes written (returns len) or -errno (nothing written);
 * EAGAIN at most verif_eagain_budget times in a row (bounds the client's retry loop) */
static ssize_t verif_qb_ipc_us_send(struct qb_ipc_one_way *ow, const void *msg, size_t len)
{
	VERIF_ND(int32_t, nd_ussend_rc);
	verif_ussend_calls++;
#ifdef VERIF_CBMC
	__CPROVER_assert(len == 0 || __CPROVER_r_ok(msg, len), "setup-socket send: the bytes to send are readable for the stated length");
#endif
	ASSUME(nd_ussend_rc == (int32_t)len || (nd_ussend_rc < 0 && nd_ussend_rc >= -133));
	if (nd_ussend_rc == -EAGAIN) {
		ASSUME(verif_eagain_budget > 0);
		verif_eagain_budget--;
	}
	if (nd_ussend_rc > 0) {
		verif_ussend_total += nd_ussend_rc;
	}
	return nd_ussend_rc;
}
static ssize_t verif_qb_ipc_us_recv(struct qb_ipc_one_way *ow, void *msg, size_t len, int32_t timeout)
{
	VERIF_ND(int32_t, nd_usrecv_rc);
	verif_usrecv_calls++;
#ifdef VERIF_CBMC
	__CPROVER_assert(len == 0 || __CPROVER_w_ok(msg, len), "setup-socket recv: the buffer can hold the requested bytes");
#endif
	ASSUME(nd_usrecv_rc == (int32_t)len || (nd_usrecv_rc < 0 && nd_usrecv_rc >= -133));
	if (nd_usrecv_rc > 0) {
		verif_usrecv_total += nd_usrecv_rc;
	}
	return nd_usrecv_rc;
}
static int32_t verif_qb_ipc_us_ready(struct qb_ipc_one_way *a, struct qb_ipc_one_way *b, int32_t ms, int32_t ev)
{
	VERIF_ND(int32_t, nd_usready_rc);
	verif_usready_calls++;
	ASSUME(nd_usready_rc <= 0 && nd_usready_rc >= -133);
	return nd_usready_rc;
}
static int32_t verif_sock_error_is_disconnected(int err)
{
	if (err >= 0) return QB_FALSE;
	if (err == -EAGAIN || err == -ETIMEDOUT || err == -EINTR || err == -EWOULDBLOCK || err == -EMSGSIZE || err == -ENOMSG || err == -EINVAL) return QB_FALSE;
	return QB_TRUE;
}
#define qb_ipc_us_send verif_qb_ipc_us_send
#define qb_ipc_us_recv verif_qb_ipc_us_recv
#ifndef VERIF_C03_READY
#define qb_ipc_us_ready verif_qb_ipc_us_ready
#else
static int32_t verif_c03_ready(struct qb_ipc_one_way *a, struct qb_ipc_one_way *b, int32_t ms, int32_t ev);
#define qb_ipc_us_ready verif_c03_ready
#endif
#define qb_ipc_us_sock_error_is_disconnected verif_sock_error_is_disconnected
#include "ipcc.c"

static struct qb_ipcc_connection *verif_build_client(int shm, size_t max)
{
	VERIF_ND(uint32_t, nd_fc_max);
	VERIF_ND(uint8_t, nd_have_fcget);
	struct qb_ipcc_connection *c = calloc(1, sizeof(*c));
	ASSUME(c != NULL);
	ASSUME(nd_fc_max <= 2);
	c->needs_sock_for_poll = shm ? QB_TRUE : QB_FALSE;
	c->setup.u.us.sock = 4;
	c->request.max_msg_size = c->response.max_msg_size = c->event.max_msg_size = max;
	c->request.type = c->response.type = c->event.type = shm ? QB_IPC_SHM : QB_IPC_SOCKET;
	c->funcs.send = verif_c_send;
	c->funcs.sendv = verif_c_sendv;
	c->funcs.recv = verif_c_recv;
	c->funcs.fc_get = nd_have_fcget ? verif_c_fc_get : NULL;
	c->funcs.disconnect = NULL;
	c->fc_enable_max = nd_fc_max;
	c->is_connected = QB_TRUE;
	verif_csend_calls = verif_csendv_calls = verif_crecv_calls = verif_cfcget_calls = 0;
	verif_csend_len = 0; verif_ussend_calls = verif_usrecv_calls = verif_usready_calls = 0;
	verif_ussend_total = verif_usrecv_total = 0; verif_sendv_true_total = 0;
	return c;
}
