/*UNIT
{"props": ["C06"], "src": ["lib/ipc_setup.c"], "spec": ["ipc_setup.spec"], "tags": ["c05"], "mode": "plain", "kind": "proved",
 "functions": ["handle_new_connection (receive buffer sizing)"],
 "stubs": ["as units/ipc5/new_connection.c (its stub set is included): qb_ipcs_connection_alloc/ref/unref, qb_ipcs_disconnect (ghost), snprintf, mkdtemp/chmod/chown, send (all-or-error), calloc (may fail), service callbacks and transport connect (ghost monitor)"],
 "drops": ["qb_util_log/qb_util_perror diagnostics compiled out (stubs/nolog.h)"],
 "restrict_fp": ["handle_new_connection.function_pointer_call.1/verif_accept", "handle_new_connection.function_pointer_call.2/verif_connect",
                 "handle_new_connection.function_pointer_call.3/verif_created"],
 "unwindset": ["qb_ipc_us_send.0:3", "qb_ipc_us_send.1:3"],
 "expect_classes": ["assertion"], "timeout": 300, "cbmc_flags": ["--no-malloc-may-fail"],
 "variants": [{"vname": "sane", "defines": ["-DV_SANE"]}, {"vname": "tiny", "defines": ["-DV_TINY"]}]}
*/
/* "Whatever bytes a not-yet-accepted peer writes to the service socket ..." includes the max_msg_size field of an
 * otherwise valid handshake.  handle_new_connection sizes the per-connection receive buffer from it; the
 * socket transport later peeks a whole request header (16 bytes) into that buffer and the notification
 * resend reads from it.  For every handshake value and service setting, a connection that gets established
 * must own a receive buffer that (a) is allocated for exactly the size recorded as negotiated maximum, (b) is at
 * least what the client asked for and what the service enforces, and (c) can hold a request header.
 * Variant sane: client request or service minimum >= 16.  Variant tiny: both below 16 (the client library never
 * asks for less than 12328, a raw peer can). */
#include "os_base.h"
#include "verif.h"
/* only the stub set and ghost monitor of the C05 unit are wanted: its harness is renamed (never called) and its
 * cover points are switched off */
#undef COVER
#define COVER(c) ((void)0)
#define harness verif_c05_harness_unused
#include "../ipc5/new_connection.c"
#undef harness
#undef COVER
#if defined(VERIF_COVER) && !defined(VERIF_NATIVE)
#define COVER(c) __CPROVER_assert(!(c), "COVER: " #c)
#else
#define COVER(c) ((void)0)
#endif

void harness(void)
{
	VERIF_ND(int32_t, nd_accept_rc);
	VERIF_ND(int32_t, nd_connect_rc);
	VERIF_ND(uint32_t, nd_req_max);
	VERIF_ND(uint32_t, nd_srv_max);
	struct qb_ipcs_service *s = calloc(1, sizeof(*s));
	struct qb_ipc_connection_request req;
	struct ipc_auth_ugp ugp;
	ASSUME(s != NULL);
	verif_os_ipc_reset();
	verif_send_never_partial = 1;
	verif_alloc_calls = 0; verif_alloc_never_fails = 0;
	g_clock = 0; g_ref_calls = g_unref_calls = g_disc_calls = g_accept_calls = g_connect_calls = g_created_calls = 0;
	g_mkdtemp_calls = g_chmod_calls = g_chown_calls = g_send_calls = 0; g_refs = 0; g_c = NULL; g_refs_at_created = 0;
	ASSUME(nd_accept_rc >= -133 && nd_accept_rc <= 133 && nd_connect_rc <= 0 && nd_connect_rc >= -133);
	ASSUME(nd_req_max <= (1u << 20) && nd_srv_max <= (1u << 20));
#ifdef V_SANE
	ASSUME(nd_req_max >= sizeof(struct qb_ipc_request_header) || nd_srv_max >= sizeof(struct qb_ipc_request_header));
#else
	ASSUME(nd_req_max < sizeof(struct qb_ipc_request_header) && nd_srv_max < sizeof(struct qb_ipc_request_header));
#endif
	g_accept_rc = nd_accept_rc; g_connect_rc = nd_connect_rc;
	qb_list_init(&s->connections);
	s->pid = 77; s->type = QB_IPC_SOCKET; s->max_buffer_size = nd_srv_max;
	s->serv_fns.connection_accept = verif_accept;
	s->serv_fns.connection_created = verif_created;
	s->funcs.connect = verif_connect;
	req.hdr.id = QB_IPC_MSG_AUTHENTICATE; req.hdr.size = sizeof(req); req.max_msg_size = nd_req_max;
	ugp.uid = 1; ugp.gid = 2; ugp.pid = 3;

	int32_t rc = handle_new_connection(s, 0, 9, &req, sizeof(req), &ugp);

	COVER(rc == 0);
	COVER(rc != 0);
	if (rc == 0) {
		POST(g_c != NULL && (g_c->state == QB_IPCS_CONNECTION_ESTABLISHED || g_created_disconnects) && g_c->receive_buf != NULL, "an accepted client gets an established connection (unless the application disconnected it inside connection_created) with a receive buffer");
		size_t max = g_c->request.max_msg_size;
		POST(__CPROVER_rw_ok(g_c->receive_buf, max), "the receive buffer is allocated for the size recorded as negotiated maximum");
		POST(max >= nd_req_max && max >= nd_srv_max, "the negotiated maximum is at least what the client asked for and what the service enforces");
		POST(g_c->response.max_msg_size == max && g_c->event.max_msg_size == max && g_resp_max == max, "all three channels and the client are told the same maximum");
		POST(max >= sizeof(struct qb_ipc_request_header), "the receive buffer of an accepted connection can hold a request header");
	}
}
