/*UNIT
{"props": ["C04"], "src": ["lib/ipcs.c"], "mode": "plain", "kind": "proved",
 "functions": ["qb_ipcs_disconnect", "qb_ipcs_connection_unref (inlined)"],
 "stubs": ["connection_closed / connection_destroyed callbacks (recorded)", "funcs.disconnect (recorded)", "poll_fns.job_add", "remove_tempdir", "qb_ipcs_us_withdraw (counted)", "free (observed)"],
 "drops": ["qb_util_log/qb_util_perror diagnostics compiled out (stubs/nolog.h)"],
 "restrict_fp": ["qb_ipcs_disconnect.function_pointer_call.1/verif_t_disconnect", "qb_ipcs_disconnect.function_pointer_call.2/verif_t_disconnect",
                 "qb_ipcs_disconnect.function_pointer_call.3/verif_cb_closed", "qb_ipcs_disconnect.function_pointer_call.4/verif_job_add",
                 "qb_ipcs_connection_unref.function_pointer_call.1/verif_cb_destroyed", "qb_ipcs_connection_unref.function_pointer_call.2/verif_t_disconnect"],
 "expect_classes": ["assertion"], "timeout": 120, "cbmc_flags": ["--no-malloc-may-fail"],
 "defines": ["-DV_AGAIN"]}
*/
/* A connection the APPLICATION holds a reference to (taken with qb_ipcs_connection_ref, e.g. in created) is
 * disconnected: closed returns 0, the library drops its initial reference, the object lives on through the
 * application's reference.  Then the connection is disconnected a second time by another qb_ipcs_disconnect(c)
 * (what qb_ipcs_dispatch_connection_request does itself when the setup socket fails after a server-initiated
 * disconnect, and what qb_ipcs_destroy does for every connection still in the list).
 * Property: closed is repeated only for as long as it returns non-zero; destroyed is invoked only after every
 * reference taken by the application has been dropped. */
#include "ipcs_common.h"

void harness(void)
{
	VERIF_ND(uint8_t, nd_shm);
	VERIF_ND(int32_t, nd_app_refs);
	struct qb_ipcs_service *s;
	struct qb_ipcs_connection *c;

	verif_monitor_reset();
	ASSUME(nd_app_refs >= 1 && nd_app_refs <= 1000);
	s = verif_build_service(nd_shm != 0);
	s->ref_count += 1;
	c = verif_build_conn(s, QB_IPCS_CONNECTION_ESTABLISHED, 1 + nd_app_refs, 64);   /* initial reference + the application's */
	verif_C = c; verif_watch_ptr = c;
	verif_closed_rc = 0;

	qb_ipcs_disconnect(c);
	POST(verif_closed_calls == 1 && verif_watch_freed == 0 && c->refcount == nd_app_refs, "first disconnect: closed once, initial reference dropped, the application's references keep the object");

#ifdef V_AGAIN
	qb_ipcs_disconnect(c);
#else
	qb_ipcs_destroy(s);
#endif

	COVER(nd_app_refs == 1);
	COVER(nd_app_refs > 1);
	POST(verif_closed_calls == 1, "closed is not invoked again after it returned zero");
	POST(verif_destroyed_calls == 0 && verif_watch_freed == 0, "destroyed is not invoked while the application still holds a reference");
	if (verif_watch_freed == 0) {
		POST(c->refcount == nd_app_refs, "a disconnect never drops a reference the application took");
	}
}
