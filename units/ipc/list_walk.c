/*UNIT
{"props": ["C04"], "src": ["lib/ipcs.c"], "mode": "plain", "kind": "bounded",
 "bound": "service list of 0, 1 or 2 connections (one concrete list shape per variant; states, reference counts and callback results symbolic)",
 "functions": ["qb_ipcs_destroy", "qb_ipcs_request_rate_limit", "qb_ipcs_connection_first_get", "qb_ipcs_connection_next_get", "qb_ipcs_ref", "qb_ipcs_unref",
               "qb_ipcs_disconnect (inlined)", "qb_ipcs_connection_ref/unref (inlined)", "qb_ipcs_flowcontrol_set (inlined)", "_modify_dispatch_descriptor_ (inlined)"],
 "stubs": ["per-connection service callbacks (closed/destroyed recorded per connection; destroyed records whether its connection is still reachable from the service list)",
           "funcs.disconnect / funcs.fc_set (recorded)", "poll handlers (recorded)", "qb_ipcs_us_withdraw, remove_tempdir (counted)", "free (observed)"],
 "drops": ["qb_util_log/qb_util_perror diagnostics compiled out (stubs/nolog.h)"],
 "restrict_fp": ["_modify_dispatch_descriptor_.function_pointer_call.1/verif_dispatch_mod", "_modify_dispatch_descriptor_.function_pointer_call.2/verif_dispatch_mod",
                 "qb_ipcs_flowcontrol_set.function_pointer_call.1/verif_t_fc_set",
                 "qb_ipcs_disconnect.function_pointer_call.1/verif_t_disconnect", "qb_ipcs_disconnect.function_pointer_call.2/verif_t_disconnect",
                 "qb_ipcs_disconnect.function_pointer_call.3/verif_cb_closed", "qb_ipcs_disconnect.function_pointer_call.4/verif_job_add",
                 "qb_ipcs_connection_unref.function_pointer_call.1/verif_cb_destroyed", "qb_ipcs_connection_unref.function_pointer_call.2/verif_t_disconnect"],
 "unwind": 4,
 "expect_classes": ["assertion"], "timeout": 300, "cbmc_flags": ["--no-malloc-may-fail"],
 "variants": [{"vname": "destroy0", "defines": ["-DV_N=0", "-DV_DESTROY"]}, {"vname": "destroy1", "defines": ["-DV_N=1", "-DV_DESTROY"]},
              {"vname": "destroy2", "defines": ["-DV_N=2", "-DV_DESTROY"]},
              {"vname": "rate1", "defines": ["-DV_N=1", "-DV_RATE"]}, {"vname": "rate2", "defines": ["-DV_N=2", "-DV_RATE"]},
              {"vname": "iterate", "defines": ["-DV_N=2", "-DV_ITER"]}, {"vname": "service_ref", "defines": ["-DV_N=0", "-DV_SREF"]}]}
*/
/* The functions that walk the service's connection list, on hand-built lists of 0..2 connections.
 *  destroyN: qb_ipcs_destroy(s) disconnects every listed connection exactly once (closed once for each
 *            connection whose created had run and whose closed had not completed, never for an incomplete one);
 *            a connection that loses its last reference during the walk is unlinked BEFORE its destroyed callback
 *            runs (observed from inside destroyed) and is never touched again by the walk; connections the
 *            application still holds stay allocated, listed, and keep the service alive; the listener is
 *            withdrawn once and the creator's service reference dropped once; the service is freed exactly when
 *            no connection is left.
 *  rateN:    qb_ipcs_request_rate_limit maps the limit to the poll priority, gives every connection the
 *            matching flow-control value (transport told only on change), re-registers every connection's
 *            descriptor exactly when the priority changed, and its ref/unref bracket leaves every count as it was.
 *  iterate:  first_get / next_get visit each connection once in list order, each returned with one more
 *            reference, and end with NULL.
 *  service_ref: qb_ipcs_ref adds one, qb_ipcs_unref removes one and frees the service exactly at zero. */
#define VERIF_OWN_CALLBACKS
#include "ipcs_common.h"

#define MAXC 2
static struct qb_ipcs_connection *K[MAXC];
static int k_closed[MAXC], k_destroyed[MAXC], k_destroyed_linked[MAXC], k_freed_seen[MAXC], k_tdisc[MAXC];
static int k_freed[MAXC];
static int32_t k_closed_rc[MAXC];

static int verif_idx(struct qb_ipcs_connection *c) { return (V_N > 1 && c == K[1]) ? 1 : 0; }
static int32_t verif_cb_accept(qb_ipcs_connection_t *c, uid_t uid, gid_t gid) { return 0; }
static void verif_cb_created(qb_ipcs_connection_t *c) { }
static int32_t verif_cb_msg_process(qb_ipcs_connection_t *c, void *data, size_t size) { return 0; }
static int32_t verif_cb_closed(qb_ipcs_connection_t *c)
{
	int i = verif_idx(c);
	POST(!k_freed[i], "no callback is invoked for a connection after it has been freed");
	k_closed[i]++;
	return k_closed_rc[i];
}
static void verif_cb_destroyed(qb_ipcs_connection_t *c)
{
	int i = verif_idx(c);
	POST(!k_freed[i], "no callback is invoked for a connection after it has been freed");
	k_destroyed[i]++;
	/* reachable from the list head in either direction within two steps? (exact for <= 2 connections) */
	struct qb_list_head *h = &c->service->connections;
	k_destroyed_linked[i] = (h->next == &c->list) || (h->prev == &c->list) || (h->next->next == &c->list);
	k_freed[i] = 1;   /* the library frees the object right after this callback */
}

void harness(void)
{
	VERIF_ND(uint8_t, nd_shm);
	VERIF_ND(uint8_t, nd_state0); VERIF_ND(uint8_t, nd_state1);
	VERIF_ND(int32_t, nd_ref0); VERIF_ND(int32_t, nd_ref1);
	VERIF_ND(int32_t, nd_crc0); VERIF_ND(int32_t, nd_crc1);
	VERIF_ND(uint8_t, nd_done0); VERIF_ND(uint8_t, nd_done1);
	VERIF_ND(int32_t, nd_jobadd_rc);
	struct qb_ipcs_service *s;
	int i;

	verif_monitor_reset();
	K[0] = K[1] = NULL;
	k_closed[0] = k_closed[1] = k_destroyed[0] = k_destroyed[1] = k_destroyed_linked[0] = k_destroyed_linked[1] = 0;
	k_freed[0] = k_freed[1] = 0;
	s = verif_build_service(nd_shm != 0);
	ASSUME(nd_state0 <= QB_IPCS_CONNECTION_SHUTTING_DOWN && nd_state1 <= QB_IPCS_CONNECTION_SHUTTING_DOWN);
	ASSUME(nd_ref0 >= 1 && nd_ref0 <= 3 && nd_ref1 >= 1 && nd_ref1 <= 3);
	ASSUME(nd_jobadd_rc <= 0);
	verif_jobadd_rc = nd_jobadd_rc;
	k_closed_rc[0] = nd_crc0; k_closed_rc[1] = nd_crc1;
#if V_N >= 2
	K[1] = verif_build_conn(s, nd_state1, nd_ref1, 64);
	K[1]->closed_completed = (nd_state1 == QB_IPCS_CONNECTION_SHUTTING_DOWN) && nd_done1;
#endif
#if V_N >= 1
	K[0] = verif_build_conn(s, nd_state0, nd_ref0, 64);     /* added at the head: list order is K[0], K[1] */
	K[0]->closed_completed = (nd_state0 == QB_IPCS_CONNECTION_SHUTTING_DOWN) && nd_done0;
#endif
	/* service references: the creator's + one per connection */
	s->ref_count = 1 + V_N;
	verif_watch_ptr = K[0]; verif_watch_ptr2 = K[1]; verif_watch_ptr3 = s;
	int32_t ref0[MAXC] = { nd_ref0, nd_ref1 };
	int st0[MAXC] = { nd_state0, nd_state1 };
	int done0[MAXC] = { V_N >= 1 ? K[0]->closed_completed : 0, V_N >= 2 ? K[1]->closed_completed : 0 };

#ifdef V_DESTROY
	qb_ipcs_destroy(NULL);
	qb_ipcs_destroy(s);

	int freed[MAXC] = { verif_watch_freed, verif_watch_freed2 };
	int survivors = 0;
	for (i = 0; i < V_N; i++) {
		int established = st0[i] == QB_IPCS_CONNECTION_ESTABLISHED || (st0[i] == QB_IPCS_CONNECTION_SHUTTING_DOWN && !done0[i]);
		int retry = established && k_closed_rc[i] != 0 && nd_jobadd_rc == 0;
		int drops = (st0[i] == QB_IPCS_CONNECTION_ACTIVE) || (established && !retry);
		POST(k_closed[i] == (established ? 1 : 0), "destroy: closed runs once for each connection whose created had run and whose closed had not completed, never otherwise");
		POST(freed[i] == ((drops && ref0[i] == 1) ? 1 : 0), "destroy: a connection is freed exactly when the walk dropped its last reference");
		POST(k_destroyed[i] == freed[i], "destroy: destroyed is invoked exactly once for a freed connection, never for a surviving one");
		POST(!k_destroyed_linked[i], "a connection is unlinked from the service list before its destroyed callback runs");
		if (!freed[i]) {
			survivors++;
			POST(K[i]->refcount == ref0[i] - (drops ? 1 : 0), "destroy: a surviving connection lost at most the initial reference");
			POST(K[i]->service == s, "destroy: a surviving connection still refers to its service");
		}
	}
	COVER(V_N == 0 || (freed[0] && (V_N < 2 || freed[1])));
	COVER(V_N == 0 || !freed[0]);
#if V_N == 2
	COVER(freed[0] && !freed[1]);
	COVER(!freed[0] && freed[1]);
	POST(!(survivors == 2) || (s->connections.next == &K[0]->list && K[0]->list.next == &K[1]->list && K[1]->list.next == &s->connections), "destroy: surviving connections stay listed in order");
	POST(!(freed[0] && !freed[1]) || (s->connections.next == &K[1]->list && K[1]->list.next == &s->connections && K[1]->list.prev == &s->connections), "destroy: the list holds exactly the survivors");
	POST(!(!freed[0] && freed[1]) || (s->connections.next == &K[0]->list && K[0]->list.next == &s->connections && K[0]->list.prev == &s->connections), "destroy: the list holds exactly the survivors");
#endif
	POST(verif_withdraw_calls == 1, "destroy: the listening socket is withdrawn once");
	POST(verif_watch_freed3 == (survivors == 0 ? 1 : 0), "destroy: the service is freed exactly when no connection is left; live connections keep it alive");
	if (survivors > 0) {
		POST(s->ref_count == survivors, "destroy: the creator's reference is dropped once, each surviving connection keeps one");
	}
#endif

#ifdef V_RATE
	VERIF_ND(int32_t, nd_rl);
	int32_t fc0[MAXC] = { K[0]->fc_enabled, V_N >= 2 ? K[1]->fc_enabled : 0 };
	enum qb_loop_priority p0 = s->poll_priority;

	qb_ipcs_request_rate_limit(s, nd_rl);

	enum qb_loop_priority want_p = nd_rl == QB_IPCS_RATE_FAST ? QB_LOOP_HIGH
		: (nd_rl == QB_IPCS_RATE_SLOW || nd_rl == QB_IPCS_RATE_OFF || nd_rl == QB_IPCS_RATE_OFF_2) ? QB_LOOP_LOW : QB_LOOP_MED;
	int32_t want_fc = nd_rl == QB_IPCS_RATE_OFF ? 1 : nd_rl == QB_IPCS_RATE_OFF_2 ? 2 : 0;
	int changed = 0;
	COVER(nd_rl == QB_IPCS_RATE_OFF_2 && p0 != QB_LOOP_LOW);
	COVER(nd_rl == QB_IPCS_RATE_NORMAL && p0 == QB_LOOP_MED);
	POST(s->poll_priority == want_p, "rate limit: the poll priority follows the requested rate");
	for (i = 0; i < V_N; i++) {
		POST(K[i]->fc_enabled == want_fc, "rate limit: every connection gets the flow-control value of the requested rate");
		POST(K[i]->refcount == ref0[i], "rate limit: the temporary reference around each connection is dropped again");
		if (fc0[i] != want_fc) changed++;
	}
	POST(verif_fcset_calls == changed, "rate limit: the transport is told exactly for the connections whose flow control changed");
	POST(verif_dispmod_calls == (p0 != want_p ? V_N : 0), "rate limit: every descriptor is re-registered exactly when the priority changed");
	POST(verif_watch_freed == 0 && verif_watch_freed2 == 0 && verif_watch_freed3 == 0 && s->ref_count == 1 + V_N, "rate limit: nothing is released");
#endif

#ifdef V_ITER
	VERIF_ND(uint8_t, nd_empty);
	struct qb_ipcs_connection *a, *b, *e;
	if (nd_empty) {
		struct qb_ipcs_service *s2 = verif_build_service(0);
		COVER(1);
		POST(qb_ipcs_connection_first_get(s2) == NULL, "iteration: an empty service has no first connection");
	}
	a = qb_ipcs_connection_first_get(s);
	POST(a == K[0] && K[0]->refcount == nd_ref0 + 1, "iteration: first_get returns the head of the list with one more reference");
	b = qb_ipcs_connection_next_get(s, a);
	POST(b == K[1] && K[1]->refcount == nd_ref1 + 1 && K[0]->refcount == nd_ref0 + 1, "iteration: next_get returns the following connection with one more reference");
	e = qb_ipcs_connection_next_get(s, b);
	COVER(e == NULL);
	POST(e == NULL && K[1]->refcount == nd_ref1 + 1, "iteration: after the last connection next_get returns NULL and takes no reference");
	POST(qb_ipcs_connection_next_get(s, NULL) == NULL, "iteration: next_get(NULL) is NULL");
	qb_ipcs_connection_unref(a);
	qb_ipcs_connection_unref(b);
	POST(K[0]->refcount == nd_ref0 && K[1]->refcount == nd_ref1 && verif_watch_freed == 0 && verif_watch_freed2 == 0, "iteration: dropping the returned references restores the counts");
#endif

#ifdef V_SREF
	VERIF_ND(int32_t, nd_sref);
	ASSUME(nd_sref >= 1 && nd_sref < (1 << 30));
	s->ref_count = nd_sref;
	qb_ipcs_ref(s);
	POST(s->ref_count == nd_sref + 1 && verif_watch_freed3 == 0, "service reference: ref adds exactly one");
	qb_ipcs_unref(s);
	POST(s->ref_count == nd_sref && verif_watch_freed3 == 0, "service reference: unref of a count above one only subtracts one");
	qb_ipcs_unref(s);
	COVER(nd_sref == 1);
	COVER(nd_sref > 1);
	POST(verif_watch_freed3 == (nd_sref == 1 ? 1 : 0), "service reference: the service is freed exactly when the last reference is dropped");
	if (nd_sref > 1) {
		POST(s->ref_count == nd_sref - 1, "service reference: unref subtracts exactly one");
	}
#endif
}
