/* common prelude of the ipcs.c units: ghost event monitor, stubs for the transport function table
 * (s->funcs.*), the five service callbacks, the poll handlers, the ipc_setup.c helpers used by ipcs.c,
 * and builders for an arbitrary service / connection state.
 *
 * Every stub records how often and WHEN (ghost clock verif_clock) it ran; results are drawn with VERIF_ND.
 * Units pin every indirect call site to these stubs (restrict_fp). */
#include "prelude.h"
#include "free_watch.h"

/* ---------------- ghost monitor ---------------- */
unsigned verif_clock;
int verif_peek_calls, verif_reclaim_calls, verif_trecv_calls, verif_tsend_calls, verif_tsendv_calls,
    verif_fcset_calls, verif_qlen_calls, verif_tdisc_calls;
unsigned verif_peek_at, verif_reclaim_at, verif_tdisc_at, verif_tsend_at;
int verif_accept_calls, verif_created_calls, verif_msgproc_calls, verif_closed_calls, verif_destroyed_calls;
unsigned verif_msgproc_at, verif_closed_at, verif_destroyed_at, verif_created_at;
size_t verif_msgproc_size;
void *verif_msgproc_data;
int verif_jobadd_calls, verif_dispadd_calls, verif_dispmod_calls, verif_dispdel_calls;
int32_t verif_dispmod_events, verif_dispmod_fd;
void *verif_jobadd_data;
int verif_rmtmp_calls, verif_ussend_calls, verif_usrecv_calls, verif_usready_calls, verif_withdraw_calls;
size_t verif_ussend_len, verif_usrecv_len;   /* length argument of the last call */
long verif_ussend_total;                     /* bytes the setup-socket send stub accepted */
long verif_usrecv_total;                     /* bytes the setup-socket recv stub delivered */
struct qb_ipcs_connection *verif_C;          /* the connection under observation */
int verif_C_freed_seen_by_cb;                /* a callback ran on the observed connection after it was freed */
int verif_ussend_exclude;                    /* an error the setup-socket send stub never reports in this unit (0 = none) */
int verif_fc_value;                          /* last value given to funcs.fc_set */

/* what the transport delivers to _process_request_ (chosen by the harness = whatever the peer put there) */
ssize_t verif_req_result;                    /* result of funcs.peek / funcs.recv: -errno, 0, or the number of bytes received */
void *verif_req_chunk;                       /* shm: address of the peeked chunk */
int verif_msgproc_rc;                        /* what msg_process returns */
int verif_closed_rc;                         /* what connection_closed returns */
int verif_jobadd_rc;
ssize_t verif_tsend_result;                  /* result of funcs.send / funcs.sendv */
ssize_t verif_qlen_result;

static void verif_cb_check_alive(struct qb_ipcs_connection *c)
{
	if (c == verif_C && verif_watch_freed > 0) {
		verif_C_freed_seen_by_cb = 1;
	}
	POST(!(c == verif_C && verif_watch_freed > 0), "no callback is invoked for a connection after it has been freed");
}

/* ---------------- transport table stubs ---------------- */
int verif_fresh_results;                     /* 1: every transport receive / msg_process call draws a new result (units that loop) */
int verif_req_exclude;                       /* an error value the transport never reports (0 = none) */
size_t verif_req_max;                        /* upper bound of a fresh receive result (the negotiated maximum) */
static void verif_fresh_request(struct qb_ipc_request_header *hdr)
{
	VERIF_ND(int32_t, nd_req_result);
	VERIF_ND(int32_t, nd_req_id);
	VERIF_ND(int32_t, nd_req_msgproc_rc);
	ASSUME(nd_req_result >= -133 && (nd_req_result <= 0 || (size_t)nd_req_result <= verif_req_max));
	ASSUME(verif_req_exclude == 0 || nd_req_result != verif_req_exclude);
	verif_req_result = nd_req_result;
	verif_msgproc_rc = nd_req_msgproc_rc;
	if (nd_req_result > 0) {
		hdr->id = nd_req_id;
	}
}
static ssize_t verif_t_peek(struct qb_ipc_one_way *ow, void **data_out, int32_t timeout)
{
	verif_peek_calls++; verif_peek_at = ++verif_clock;
	if (verif_fresh_results) {
		verif_fresh_request(verif_req_chunk);
	}
	if (verif_req_result > 0) {
		*data_out = verif_req_chunk;
	}
	return verif_req_result;
}
static void verif_t_reclaim(struct qb_ipc_one_way *ow) { verif_reclaim_calls++; verif_reclaim_at = ++verif_clock; }
static ssize_t verif_t_recv(struct qb_ipc_one_way *ow, void *buf, size_t buf_size, int32_t timeout)
{
	verif_trecv_calls++; verif_peek_at = ++verif_clock;
#ifdef VERIF_CBMC
	__CPROVER_assert(buf_size == 0 || __CPROVER_w_ok(buf, buf_size), "transport recv: the buffer handed over is writable for the stated size");
#endif
	if (verif_fresh_results) {
		verif_fresh_request(buf);
	}
	return verif_req_result;
}
static ssize_t verif_t_send(struct qb_ipc_one_way *ow, const void *data, size_t size)
{
	verif_tsend_calls++; verif_tsend_at = ++verif_clock;
	return verif_tsend_result;
}
static ssize_t verif_t_sendv(struct qb_ipc_one_way *ow, const struct iovec *iov, size_t iov_len)
{
	verif_tsendv_calls++; verif_tsend_at = ++verif_clock;
	return verif_tsend_result;
}
static void verif_t_fc_set(struct qb_ipc_one_way *ow, int32_t fc) { verif_fcset_calls++; verif_fc_value = fc; }
static ssize_t verif_t_q_len_get(struct qb_ipc_one_way *ow) { verif_qlen_calls++; return verif_qlen_result; }
int verif_tdisc_first_state = -1;              /* connection state seen by the FIRST transport disconnect call */
static void verif_t_disconnect(struct qb_ipcs_connection *c)
{
	verif_cb_check_alive(c);
	if (verif_tdisc_calls == 0) {
		verif_tdisc_first_state = (int)c->state;
	}
	verif_tdisc_calls++; verif_tdisc_at = ++verif_clock;
}

/* ---------------- poll handler stubs ---------------- */
static int32_t verif_job_add(enum qb_loop_priority p, void *data, qb_loop_job_dispatch_fn fn)
{
	verif_jobadd_calls++; verif_jobadd_data = data;
	return verif_jobadd_rc;
}
static int32_t verif_dispatch_add(enum qb_loop_priority p, int32_t fd, int32_t events, void *data, qb_ipcs_dispatch_fn_t fn)
{
	verif_dispadd_calls++;
	return 0;
}
static int32_t verif_dispatch_mod(enum qb_loop_priority p, int32_t fd, int32_t events, void *data, qb_ipcs_dispatch_fn_t fn)
{
	verif_dispmod_calls++; verif_dispmod_events = events; verif_dispmod_fd = fd;
	return 0;
}
static int32_t verif_dispatch_del(int32_t fd) { verif_dispdel_calls++; return 0; }

#ifndef VERIF_WITH_SETUP
/* ---------------- ipc_setup.c helpers used by ipcs.c (assumed contracts; the real ones are units of their own) ---- */
static void verif_remove_tempdir(const char *name) { verif_rmtmp_calls++; }
/* qb_ipc_us_send: all of len bytes were written (returns len) or an error (-errno, nothing is accounted) */
static ssize_t verif_qb_ipc_us_send(struct qb_ipc_one_way *ow, const void *msg, size_t len)
{
	VERIF_ND(int32_t, nd_ussend_rc);
	verif_ussend_calls++; verif_ussend_len = len;
#ifdef VERIF_CBMC
	__CPROVER_assert(len == 0 || __CPROVER_r_ok(msg, len), "setup-socket send: the bytes to send are readable for the stated length");
#endif
	ASSUME(nd_ussend_rc == (int32_t)len || (nd_ussend_rc < 0 && nd_ussend_rc >= -133));
	ASSUME(verif_ussend_exclude == 0 || nd_ussend_rc != verif_ussend_exclude);
	if (nd_ussend_rc > 0) {
		verif_ussend_total += nd_ussend_rc;
	}
	return nd_ussend_rc;
}
/* qb_ipc_us_recv: all of len bytes were read (returns len) or an error (-errno) */
static ssize_t verif_qb_ipc_us_recv(struct qb_ipc_one_way *ow, void *msg, size_t len, int32_t timeout)
{
	VERIF_ND(int32_t, nd_usrecv_rc);
	verif_usrecv_calls++; verif_usrecv_len = len;
#ifdef VERIF_CBMC
	__CPROVER_assert(len == 0 || __CPROVER_w_ok(msg, len), "setup-socket recv: the buffer can hold the requested number of notification bytes");
#endif
	ASSUME(nd_usrecv_rc == (int32_t)len || (nd_usrecv_rc < 0 && nd_usrecv_rc >= -133));
	if (nd_usrecv_rc > 0) {
		verif_usrecv_total += nd_usrecv_rc;
	}
	return nd_usrecv_rc;
}
static int32_t verif_qb_ipc_us_ready(struct qb_ipc_one_way *a, struct qb_ipc_one_way *b, int32_t ms, int32_t ev)
{
	VERIF_ND(int32_t, nd_usready_rc);
	verif_usready_calls++;
	ASSUME(nd_usready_rc <= 0 && nd_usready_rc >= -133);
	return nd_usready_rc;
}
static int32_t verif_sock_error_is_disconnected(int err)
{
	/* same table as lib/ipc_setup.c:qb_ipc_us_sock_error_is_disconnected (proved equal in unit ipc.us_helpers) */
	if (err >= 0) return QB_FALSE;
	if (err == -EAGAIN || err == -ETIMEDOUT || err == -EINTR || err == -EWOULDBLOCK || err == -EMSGSIZE || err == -ENOMSG || err == -EINVAL) return QB_FALSE;
	return QB_TRUE;
}
static int32_t verif_qb_ipcs_us_withdraw(struct qb_ipcs_service *s) { verif_withdraw_calls++; return 0; }
#define remove_tempdir verif_remove_tempdir
#define qb_ipc_us_send verif_qb_ipc_us_send
#define qb_ipc_us_recv verif_qb_ipc_us_recv
#define qb_ipc_us_ready verif_qb_ipc_us_ready
#define qb_ipc_us_sock_error_is_disconnected verif_sock_error_is_disconnected
#define qb_ipcs_us_withdraw verif_qb_ipcs_us_withdraw

#else
/* the real lib/ipc_setup.c is part of this unit */
#include "ipc_setup.c"
#endif

#ifndef VERIF_NO_IPCS_SOURCE
#include "ipcs.c"
#endif

/* ---------------- service callbacks (default versions; units needing re-entrant ones define VERIF_OWN_CALLBACKS) ---- */
int verif_destroyed_saw_linked;
/* is c reachable from its service's connection list? (exact for lists of at most 2 connections) */
static int verif_conn_is_linked(struct qb_ipcs_connection *c)
{
	return c->service->connections.next == &c->list || c->service->connections.prev == &c->list;
}
#ifdef VERIF_OWN_CALLBACKS
static int32_t verif_cb_accept(qb_ipcs_connection_t *c, uid_t uid, gid_t gid);
static void verif_cb_created(qb_ipcs_connection_t *c);
static int32_t verif_cb_msg_process(qb_ipcs_connection_t *c, void *data, size_t size);
static int32_t verif_cb_closed(qb_ipcs_connection_t *c);
static void verif_cb_destroyed(qb_ipcs_connection_t *c);
#endif
#ifndef VERIF_OWN_CALLBACKS
static int32_t verif_cb_accept(qb_ipcs_connection_t *c, uid_t uid, gid_t gid) { verif_accept_calls++; return 0; }
static void verif_cb_created(qb_ipcs_connection_t *c) { verif_cb_check_alive(c); verif_created_calls++; verif_created_at = ++verif_clock; }
static int32_t verif_cb_msg_process(qb_ipcs_connection_t *c, void *data, size_t size)
{
	verif_cb_check_alive(c);
	verif_msgproc_calls++; verif_msgproc_at = ++verif_clock;
	verif_msgproc_size = size; verif_msgproc_data = data;
	return verif_msgproc_rc;
}
static int32_t verif_cb_closed(qb_ipcs_connection_t *c)
{
	verif_cb_check_alive(c);
	verif_closed_calls++; verif_closed_at = ++verif_clock;
	return verif_closed_rc;
}
static void verif_cb_destroyed(qb_ipcs_connection_t *c)
{
	verif_cb_check_alive(c);
	verif_destroyed_calls++; verif_destroyed_at = ++verif_clock;
	verif_destroyed_saw_linked = verif_conn_is_linked(c);
}
#endif

static void verif_monitor_reset(void)
{
	verif_clock = 0;
	verif_peek_calls = verif_reclaim_calls = verif_trecv_calls = verif_tsend_calls = verif_tsendv_calls = 0;
	verif_fcset_calls = verif_qlen_calls = verif_tdisc_calls = 0; verif_tdisc_first_state = -1;
	verif_peek_at = verif_reclaim_at = verif_tdisc_at = verif_tsend_at = 0;
	verif_accept_calls = verif_created_calls = verif_msgproc_calls = verif_closed_calls = verif_destroyed_calls = 0;
	verif_msgproc_at = verif_closed_at = verif_destroyed_at = verif_created_at = 0;
	verif_msgproc_size = 0; verif_msgproc_data = NULL;
	verif_jobadd_calls = verif_dispadd_calls = verif_dispmod_calls = verif_dispdel_calls = 0;
	verif_dispmod_events = 0; verif_dispmod_fd = -1; verif_jobadd_data = NULL;
	verif_rmtmp_calls = verif_ussend_calls = verif_usrecv_calls = verif_usready_calls = verif_withdraw_calls = 0;
	verif_ussend_len = verif_usrecv_len = 0; verif_ussend_total = 0; verif_usrecv_total = 0;
	verif_C = NULL; verif_C_freed_seen_by_cb = 0; verif_fc_value = -1; verif_destroyed_saw_linked = 0;
	verif_req_result = 0; verif_req_chunk = NULL; verif_msgproc_rc = 0; verif_closed_rc = 0; verif_jobadd_rc = 0;
	verif_tsend_result = 0; verif_qlen_result = 0;
	verif_fresh_results = 0; verif_req_max = 0; verif_req_exclude = 0; verif_ussend_exclude = 0;
	verif_watch_ptr = verif_watch_ptr2 = verif_watch_ptr3 = NULL; verif_watch_freed = verif_watch_freed2 = verif_watch_freed3 = 0;
	verif_free_seq = 0; verif_watch_freed_at = verif_watch_freed2_at = 0;
	verif_os_ipc_reset();
}

#ifndef VERIF_NO_IPCS_SOURCE
/* an arbitrary running service: shm flavour (peek/reclaim present, needs_sock_for_poll) or socket flavour */
static struct qb_ipcs_service *verif_build_service(int shm)
{
	VERIF_ND(int32_t, nd_s_ref);
	VERIF_ND(uint8_t, nd_s_prio);
	struct qb_ipcs_service *s = calloc(1, sizeof(*s));
	ASSUME(s != NULL);
	ASSUME(nd_s_ref >= 1 && nd_s_ref < (1 << 30));
	ASSUME(nd_s_prio <= QB_LOOP_HIGH);
	s->type = shm ? QB_IPC_SHM : QB_IPC_SOCKET;
	s->ref_count = nd_s_ref;
	s->needs_sock_for_poll = shm ? QB_TRUE : QB_FALSE;
	s->server_sock = 3;
	s->poll_priority = nd_s_prio;
	s->funcs.connect = NULL;
	s->funcs.disconnect = verif_t_disconnect;
	s->funcs.recv = verif_t_recv;
	s->funcs.peek = shm ? verif_t_peek : NULL;
	s->funcs.reclaim = shm ? verif_t_reclaim : NULL;
	s->funcs.send = verif_t_send;
	s->funcs.sendv = verif_t_sendv;
	s->funcs.fc_set = verif_t_fc_set;
	s->funcs.q_len_get = verif_t_q_len_get;
	s->serv_fns.connection_accept = verif_cb_accept;
	s->serv_fns.connection_created = verif_cb_created;
	s->serv_fns.msg_process = verif_cb_msg_process;
	s->serv_fns.connection_closed = verif_cb_closed;
	s->serv_fns.connection_destroyed = verif_cb_destroyed;
	s->poll_fns.job_add = verif_job_add;
	s->poll_fns.dispatch_add = verif_dispatch_add;
	s->poll_fns.dispatch_mod = verif_dispatch_mod;
	s->poll_fns.dispatch_del = verif_dispatch_del;
	qb_list_init(&s->connections);
	qb_list_init(&s->list);
	return s;
}

/* an arbitrary connection of service s in the given state, holding `ref` references, linked into the
 * service's list, with a receive buffer of max bytes */
static struct qb_ipcs_connection *verif_build_conn(struct qb_ipcs_service *s, int state, int32_t ref, size_t max)
{
	VERIF_ND(int32_t, nd_c_notifiers);
	VERIF_ND(int32_t, nd_c_fc);
	struct qb_ipcs_connection *c = calloc(1, sizeof(*c));
	ASSUME(c != NULL);
	/* connection invariant: unsent notifications <= events still queued in the event ring <= ring capacity / 8
	 * (capacity = max_msg_size + 13 rounded up to a page), which is below the receive buffer size (with room for
	 * the few more a unit adds) for every max_msg_size >= 600; the client library never negotiates less than 12328 */
	ASSUME(nd_c_notifiers >= 0 && nd_c_notifiers < (1 << 20) && (size_t)nd_c_notifiers + 4 <= max);
	c->state = state;
	c->refcount = ref;
	c->service = s;
	c->setup.type = c->request.type = c->response.type = c->event.type = s->type;
	c->setup.u.us.sock = 7;
	c->request.max_msg_size = c->response.max_msg_size = c->event.max_msg_size = max;
	c->receive_buf = malloc(max);
	ASSUME(c->receive_buf != NULL);
	c->fc_enabled = nd_c_fc;
	c->outstanding_notifiers = nd_c_notifiers;
	c->poll_events = nd_c_notifiers > 0 ? (POLLOUT | POLLIN | POLLPRI | POLLNVAL) : (POLLIN | POLLPRI | POLLNVAL);
	c->description[0] = 'd'; c->description[1] = '/'; c->description[2] = 'q'; c->description[3] = 0;
	qb_list_init(&c->list);
	qb_list_add(&c->list, &s->connections);
	return c;
}
#endif
