/*UNIT
{"props": ["C04"], "src": ["lib/ipc_setup.c", "lib/ipcs.c"], "mode": "plain", "kind": "proved",
 "functions": ["handle_new_connection", "qb_ipcs_connection_alloc", "qb_ipcs_connection_ref/unref", "qb_ipcs_disconnect", "qb_ipc_us_send (single complete or failed send)"],
 "stubs": ["calloc (may fail)", "snprintf (any length, NUL-terminated within size)", "mkdtemp/chmod/chown (any result)", "send (all-or-error in this unit)", "close/shutdown/rmdir (counted)", "funcs.connect / funcs.disconnect (recorded, connect returns any value <= 0)", "service callbacks (recorded; created optionally disconnects its connection)", "free (observed)"],
 "drops": ["qb_util_log/qb_util_perror diagnostics compiled out (stubs/nolog.h)"],
 "restrict_fp": ["handle_new_connection.function_pointer_call.1/verif_cb_accept", "handle_new_connection.function_pointer_call.2/verif_t_connect",
                 "handle_new_connection.function_pointer_call.3/verif_cb_created",
                 "qb_ipcs_disconnect.function_pointer_call.1/verif_t_disconnect", "qb_ipcs_disconnect.function_pointer_call.2/verif_t_disconnect",
                 "qb_ipcs_disconnect.function_pointer_call.3/verif_cb_closed", "qb_ipcs_disconnect.function_pointer_call.4/verif_job_add",
                 "qb_ipcs_connection_unref.function_pointer_call.1/verif_cb_destroyed", "qb_ipcs_connection_unref.function_pointer_call.2/verif_t_disconnect"],
 "unwindset": ["qb_ipc_us_send.0:2", "remove_tempdir.0:2"],
 "expect_classes": ["assertion"], "timeout": 300,
 "variants": [{"vname": "ok", "defines": ["-DV_OK"]}, {"vname": "bufalloc_fails", "defines": ["-DV_BUFFAIL"]}, {"vname": "tiny_max", "defines": ["-DV_TINY"]}]}
*/
/* handle_new_connection(s, auth_result, sock, request, len, ugp): from an authenticated handshake to
 * accept -> (transport connect) -> response -> created, for every accept / connect / send / allocation outcome:
 *  - order: accept before created; created at most once and only when accept and set-up succeeded; closed
 *    never runs for a connection whose created did not; refusal or failed set-up => destroyed exactly once,
 *    the object is freed, the socket is closed, the connection is not left in the service's list;
 *  - created is bracketed by a temporary reference (count >= 2 inside the callback), so a disconnect from
 *    inside created leaves a live object until the bracket closes; nothing is touched after the free;
 *  - service references are balanced: one more than before exactly while a connection object exists.
 * Variant bufalloc_fails: the receive buffer allocation fails (suspected defect #22: the service reference taken
 * by qb_ipcs_connection_alloc is not given back).  Variant tiny_max: the client asks for a max_msg_size below a
 * request header and the service enforces no minimum. */
#define VERIF_WITH_SETUP
#define VERIF_OWN_CALLBACKS
#include "os_base.h"
#include <stdlib.h>
#include "verif.h"
#include "alloc.h"
#include <stdio.h>
#include <sys/stat.h>
#include <unistd.h>
static int verif_snprintf(char *str, size_t size, const char *fmt, ...)
{
	VERIF_ND(int32_t, nd_snprintf_len);
	ASSUME(nd_snprintf_len >= -1 && nd_snprintf_len < 4096);
	if (size > 0) {
		size_t k = (nd_snprintf_len >= 0 && (size_t)nd_snprintf_len < size) ? (size_t)nd_snprintf_len : size - 1;
		str[k] = 0;
		if (k > 0) { str[0] = '/'; }
	}
	return nd_snprintf_len;
}
static char *verif_mkdtemp(char *t) { VERIF_ND(uint8_t, nd_mkdtemp_fails); if (nd_mkdtemp_fails) { errno = EACCES; return NULL; } return t; }
static int verif_chmod(const char *p, mode_t m) { VERIF_ND(uint8_t, nd_chmod_fails); if (nd_chmod_fails) { errno = EPERM; return -1; } return 0; }
static int verif_chown(const char *p, uid_t u, gid_t g) { return 0; }
#define snprintf verif_snprintf
#define mkdtemp verif_mkdtemp
#define chmod verif_chmod
#define chown verif_chown
static int verif_connect_calls; static int32_t verif_connect_rc;
struct qb_ipcs_service; struct qb_ipcs_connection; struct qb_ipc_connection_response;
static int32_t verif_t_connect(struct qb_ipcs_service *s, struct qb_ipcs_connection *c, struct qb_ipc_connection_response *r)
{
	verif_connect_calls++;
	return verif_connect_rc;
}
#include "ipcs_common.h"

static int verif_created_disconnects, verif_created_saw_ref, verif_accept_rc, verif_accept_at;
static int32_t verif_cb_accept(qb_ipcs_connection_t *c, uid_t uid, gid_t gid) { verif_accept_calls++; verif_accept_at = ++verif_clock; verif_C = c; verif_watch_ptr = c; return verif_accept_rc; }
static void verif_cb_created(qb_ipcs_connection_t *c)
{
	verif_cb_check_alive(c);
	verif_created_calls++; verif_created_at = ++verif_clock;
	verif_created_saw_ref = c->refcount;
	if (verif_created_disconnects) {
		qb_ipcs_disconnect(c);
	}
}
static int32_t verif_cb_msg_process(qb_ipcs_connection_t *c, void *data, size_t size) { verif_msgproc_calls++; return 0; }
static int32_t verif_cb_closed(qb_ipcs_connection_t *c) { verif_cb_check_alive(c); verif_closed_calls++; verif_closed_at = ++verif_clock; return 0; }
static void verif_cb_destroyed(qb_ipcs_connection_t *c) { verif_cb_check_alive(c); verif_destroyed_calls++; verif_destroyed_at = ++verif_clock; verif_destroyed_saw_linked = verif_conn_is_linked(c); }

void harness(void)
{
	VERIF_ND(uint8_t, nd_shm);
	VERIF_ND(int32_t, nd_accept_rc);
	VERIF_ND(int32_t, nd_connect_rc);
	VERIF_ND(uint32_t, nd_req_max);
	VERIF_ND(uint32_t, nd_srv_min);
	VERIF_ND(uint8_t, nd_created_disconnects);
	VERIF_ND(uint8_t, nd_have_connect);
	struct qb_ipcs_service *s;
	struct qb_ipc_connection_request req;
	struct ipc_auth_ugp ugp;

	verif_monitor_reset();
	verif_alloc_calls = 0; verif_alloc_never_fails = 0;
	verif_connect_calls = 0; verif_created_saw_ref = 0; verif_accept_at = 0;
	s = verif_build_service(nd_shm != 0);
	s->ref_count += 1;
	s->funcs.connect = nd_have_connect ? verif_t_connect : NULL;
	ASSUME(nd_connect_rc <= 0 && nd_connect_rc >= -133);
	verif_connect_rc = nd_connect_rc;
	verif_accept_rc = nd_accept_rc;
	verif_created_disconnects = nd_created_disconnects;
	ASSUME(nd_req_max <= (1u << 20) && nd_srv_min <= (1u << 20));
#ifdef V_TINY
	ASSUME(nd_req_max < sizeof(struct qb_ipc_request_header) && nd_srv_min < sizeof(struct qb_ipc_request_header));
#else
	ASSUME(nd_req_max >= sizeof(struct qb_ipc_request_header) || nd_srv_min >= sizeof(struct qb_ipc_request_header));
#endif
	s->max_buffer_size = nd_srv_min;
	memset(&req, 0, sizeof(req));
	req.hdr.id = QB_IPC_MSG_AUTHENTICATE;
	req.hdr.size = sizeof(req);
	req.max_msg_size = nd_req_max;
	ugp.uid = 1; ugp.gid = 2; ugp.pid = 3;
	verif_send_never_partial = 1;
	int32_t sref0 = s->ref_count;

	int32_t rc = handle_new_connection(s, 0, 9, &req, sizeof(req), &ugp);

	unsigned allocs = verif_alloc_calls;
#ifdef V_BUFFAIL
	ASSUME(allocs == 1 && rc == -ENOMEM && verif_accept_calls == 0);   /* connection object allocated, receive buffer not */
	COVER(1);
	POST(s->ref_count == sref0, "a connection that could not be set up gives back its reference on the service");
#else
	ASSUME(!(allocs == 1 && rc == -ENOMEM && verif_accept_calls == 0));
	if (allocs == 0) {
		COVER(1);
		POST(rc == -ENOMEM && s->ref_count == sref0 && verif_close_calls == 1, "no connection object: nothing kept, socket closed");
	} else if (rc == 0) {
		COVER(nd_created_disconnects && verif_watch_freed == 1);
		COVER(!nd_created_disconnects);
		POST(verif_accept_calls == 1 && verif_created_calls == 1 && verif_accept_at < verif_created_at, "accept comes before created, each exactly once");
		POST(verif_created_saw_ref >= 2, "created is bracketed by a temporary reference");
		POST(!nd_have_connect || verif_connect_calls == 1, "the transport is connected once for an accepted client");
		if (!nd_created_disconnects) {
			POST(verif_watch_freed == 0 && verif_C->state == QB_IPCS_CONNECTION_ESTABLISHED && verif_C->refcount == 1 && verif_conn_is_linked(verif_C),
			     "an accepted connection is established, listed and holds exactly its initial reference");
			POST(s->ref_count == sref0 + 1, "a live connection holds one reference on its service");
			POST(verif_C->request.max_msg_size >= sizeof(struct qb_ipc_request_header), "the receive buffer of an accepted connection can hold a request header");
		} else {
			POST(verif_watch_freed == 1 && verif_destroyed_calls == 1 && verif_closed_calls == 0, "a disconnect from inside created: the object lives until the bracket closes, then destroyed once; closed is not run (created had not returned)");
			POST(s->ref_count == sref0, "a destroyed connection gives back its reference on the service");
		}
	} else {
		COVER(nd_accept_rc != 0);
		COVER(nd_accept_rc == 0 && nd_have_connect && nd_connect_rc != 0);
		COVER(nd_accept_rc == 0 && verif_accept_calls == 1 && verif_connect_calls <= (nd_connect_rc == 0) && verif_created_calls == 0 && (nd_connect_rc == 0 || !nd_have_connect));
		POST(verif_created_calls == 0 && verif_closed_calls == 0 && verif_msgproc_calls == 0, "refusal or failed set-up: neither created nor closed nor msg_process is invoked");
		POST(nd_accept_rc == 0 || verif_accept_calls == 0 || verif_connect_calls == 0, "a refused client is never connected to the transport");
		POST(verif_accept_calls == 0 || (verif_watch_freed == 1 && verif_destroyed_calls == 1), "a connection that is not established is destroyed exactly once");
		POST(s->ref_count == sref0, "a destroyed connection gives back its reference on the service");
		POST(s->connections.next == &s->connections, "a connection that is not established is not left in the service's list");
		POST(verif_close_calls >= 1, "the socket of a refused client is closed");
	}
	POST(!verif_C_freed_seen_by_cb, "nothing is invoked for a connection after it was freed");
#endif
}
