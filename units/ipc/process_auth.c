/*UNIT
{"props": ["C06", "C03"], "src": ["lib/ipc_setup.c"], "mode": "plain",
 "kind": "bounded", "bound": "the handshake record arrives in at most 2 pieces plus one EAGAIN per call (every piece pattern of the receive loop itself is covered by ipc.recv_msghdr); everything else symbolic",
 "functions": ["process_auth", "qb_ipc_us_recv_msghdr (inlined)", "qb_ipc_auth_creds (inlined)", "destroy_ipc_auth_data (inlined)"],
 "stubs": ["recvmsg (any count / error; record bytes arbitrary, chosen by the harness; control buffer: none, one SCM_CREDENTIALS or one other message)", "__cmsg_nxthdr (returns NULL: at most one control message fits the 32-byte control buffer)", "setsockopt/close/shutdown (counted)", "poll_fns.dispatch_del (counted)", "qb_ipcs_unref (counted)", "qb_ipcs_connection_alloc (marks that handle_new_connection was entered, then fails with NULL)"],
 "drops": ["qb_util_log/qb_util_perror diagnostics compiled out (stubs/nolog.h)"],
 "restrict_fp": ["process_auth.function_pointer_call.1/verif_dispatch_del"],
 "unwindset": ["qb_ipc_us_recv_msghdr.0:4", "qb_ipc_auth_creds.0:3"],
 "expect_classes": ["assertion"], "timeout": 300, "cbmc_flags": ["--no-malloc-may-fail"]}
*/
/* process_auth(fd, revents, data): the server's handler for a not-yet-accepted peer.  For EVERY byte string
 * and delivery pattern on the handshake socket, poll event mask and pre-existing progress:
 *   - either the handler yields (returns 0) having released nothing, or it finishes (returns 1) and then
 *     the descriptor is removed from the main loop, the auth record is freed exactly once, the service
 *     reference taken for it is dropped exactly once;
 *   - the connection machinery (handle_new_connection) is entered ONLY for a complete record whose id is
 *     QB_IPC_MSG_AUTHENTICATE and that carried credentials; in every other finished case (short record,
 *     peer gone, poll error, wrong id, no credentials, server shutting down) the socket is closed;
 *   - no message callback is reachable from here (msg_process counter stays 0). */
static void verif_recvmsg_hook(void *msg, unsigned long n);
#define VERIF_RECVMSG_HOOK verif_recvmsg_hook
#include "prelude.h"
#include "free_watch.h"

static int verif_hnc_calls, verif_unref_calls, verif_del_calls, verif_del_fd, verif_msg_process_calls;
static size_t verif_hnc_processed;
static size_t *verif_processed_p;
static struct qb_ipcs_connection *verif_connection_alloc(struct qb_ipcs_service *s) { verif_hnc_calls++; verif_hnc_processed = *verif_processed_p; return NULL; }
static void verif_ipcs_unref(struct qb_ipcs_service *s) { verif_unref_calls++; s->ref_count--; }
#define qb_ipcs_connection_alloc verif_connection_alloc
#define qb_ipcs_unref verif_ipcs_unref
struct cmsghdr *__cmsg_nxthdr(struct msghdr *m, struct cmsghdr *c) { return NULL; }
#include "ipc_setup.c"

static int32_t verif_dispatch_del(int32_t fd) { verif_del_calls++; verif_del_fd = fd; return 0; }
static int verif_creds_seen;

static void verif_recvmsg_hook(void *m, unsigned long n)
{
	struct msghdr *msg = m;
	VERIF_ND(uint8_t, nd_cmsg_kind);
	VERIF_ND(int32_t, nd_cmsg_type);
	if (nd_cmsg_kind == 0) {
		msg->msg_controllen = 0;
		verif_creds_seen = 0;
	} else {
		struct cmsghdr *cm = msg->msg_control;
		msg->msg_controllen = CMSG_SPACE(sizeof(struct ucred));
		cm->cmsg_len = CMSG_LEN(sizeof(struct ucred));
		cm->cmsg_level = SOL_SOCKET;
		cm->cmsg_type = nd_cmsg_kind == 1 ? SCM_CREDENTIALS : nd_cmsg_type;
		verif_creds_seen = cm->cmsg_type == SCM_CREDENTIALS;
	}
}

void harness(void)
{
	VERIF_ND(size_t, nd_processed);
	VERIF_ND(int32_t, nd_revents);
	VERIF_ND(int32_t, nd_id);
	VERIF_ND(int32_t, nd_size);
	VERIF_ND(uint32_t, nd_max);
	VERIF_ND(uint8_t, nd_shutdown);
	VERIF_ND(int32_t, nd_sref);
	struct ipc_auth_data *data;
	struct qb_ipcs_service *s;
	size_t len = sizeof(struct qb_ipc_connection_request);

	verif_os_ipc_reset();
	verif_hnc_calls = verif_unref_calls = verif_del_calls = verif_msg_process_calls = 0;
	verif_del_fd = -1;
	verif_watch_freed = verif_watch_freed2 = 0; verif_free_seq = 0; verif_watch_ptr2 = NULL;
	verif_creds_seen = 0;
	s = calloc(1, sizeof(*s));
	ASSUME(s != NULL);
	ASSUME(nd_sref >= 2 && nd_sref < (1 << 30));   /* the creator's reference + the one taken for this handshake */
	s->ref_count = nd_sref;
	s->server_sock = nd_shutdown ? -1 : 3;
	s->poll_fns.dispatch_del = verif_dispatch_del;
	data = calloc(1, sizeof(*data));
	ASSUME(data != NULL);
	data->msg_recv.msg_iov = &data->iov_recv;
	data->msg_recv.msg_iovlen = 1;
	data->cmsg_cred = calloc(1, CMSG_SPACE(sizeof(struct ucred)));
	ASSUME(data->cmsg_cred != NULL);
	data->msg_recv.msg_control = data->cmsg_cred;
	data->msg_recv.msg_controllen = CMSG_SPACE(sizeof(struct ucred));
	data->len = len;
	data->iov_recv.iov_base = &data->msg;
	data->iov_recv.iov_len = len;
	data->sock = 7;
	data->s = s;
	ASSUME(nd_processed < len);
	data->processed = nd_processed;
	/* whatever the peer writes: the record's bytes are arbitrary */
	data->msg.req.hdr.id = nd_id;
	data->msg.req.hdr.size = nd_size;
	data->msg.req.max_msg_size = nd_max;
	verif_recvmsg_prefilled = 1;
	verif_recvmsg_partial_budget = 1;
	verif_eagain_budget = 1;
	verif_watch_ptr = data;
	verif_processed_p = &data->processed;
	verif_hnc_processed = 0;

	int32_t rc = process_auth(7, nd_revents, data);

	POST(rc == 0 || rc == 1, "handshake handler either yields to the main loop or finishes");
	POST(verif_msg_process_calls == 0, "nothing from a not-yet-accepted peer reaches the message callback");
	if (rc == 0) {
		COVER(verif_recvmsg_calls == 0);
		COVER(verif_recvmsg_calls > 0 && data->processed > nd_processed);
		POST(verif_watch_freed == 0 && verif_close_calls == 0 && verif_del_calls == 0 && verif_unref_calls == 0 && verif_hnc_calls == 0,
		     "a handshake still in progress releases nothing and accepts nothing");
		POST(data->processed < len, "a handshake still in progress has not received the whole record");
	} else {
		COVER(verif_hnc_calls == 1);
		COVER(nd_shutdown);
		COVER((nd_revents & POLLHUP) != 0);
		COVER(verif_recvmsg_calls > 0 && verif_hnc_calls == 0 && nd_id == QB_IPC_MSG_AUTHENTICATE);
		COVER(verif_recvmsg_calls > 0 && verif_hnc_calls == 0 && nd_id != QB_IPC_MSG_AUTHENTICATE && verif_creds_seen);
		POST(verif_watch_freed == 1, "once the peer is done with, its auth record is freed exactly once");
		POST(verif_unref_calls == 1 && s->ref_count == nd_sref - 1, "the service reference held for the handshake is dropped exactly once");
		POST(verif_del_calls == 1 && verif_del_fd == 7, "the descriptor is taken out of the main loop");
		POST(verif_hnc_calls <= 1, "a handshake creates at most one connection");
		if (verif_hnc_calls == 1) {
			POST(verif_recvmsg_calls > 0 && nd_id == QB_IPC_MSG_AUTHENTICATE && verif_creds_seen && !nd_shutdown
			     && (nd_revents & (POLLNVAL | POLLHUP)) == 0,
			     "a connection is only set up for a complete, well-identified handshake record that carried credentials");
			POST(verif_hnc_processed == len, "a connection is only set up after the whole handshake record has arrived");
			POST(verif_close_calls == 1, "the failed set-up closes the socket once");
		} else {
			POST(verif_close_calls == 1 && verif_close_last_fd == 7, "a short, broken or wrong-id handshake: the socket is closed exactly once");
		}
	}
}
