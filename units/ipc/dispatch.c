/*UNIT
{"props": ["C06", "C02", "C03"], "src": ["lib/ipcs.c"], "mode": "plain", "kind": "proved",
 "functions": ["qb_ipcs_dispatch_connection_request", "_request_q_len_get (inlined)", "_process_request_ (inlined)", "resend_event_notifications (inlined)", "qb_ipcs_disconnect (inlined)", "qb_ipcs_connection_unref (inlined)"],
 "stubs": ["transport table funcs.* (fresh arbitrary result per call)", "service callbacks (recorded)", "poll handlers (recorded)", "qb_ipc_us_recv / qb_ipc_us_send on the setup socket (all-or-error contract, buffer bound asserted)", "remove_tempdir (counted)"],
 "drops": ["qb_util_log/qb_util_perror diagnostics compiled out (stubs/nolog.h)"],
 "restrict_fp": ["_process_request_.function_pointer_call.1/verif_t_peek", "_process_request_.function_pointer_call.2/verif_t_recv",
                 "_process_request_.function_pointer_call.3/verif_cb_msg_process", "_process_request_.function_pointer_call.4/verif_t_reclaim",
                 "_request_q_len_get.function_pointer_call.1/verif_t_q_len_get",
                 "_modify_dispatch_descriptor_.function_pointer_call.1/verif_dispatch_mod", "_modify_dispatch_descriptor_.function_pointer_call.2/verif_dispatch_mod",
                 "qb_ipcs_disconnect.function_pointer_call.1/verif_t_disconnect", "qb_ipcs_disconnect.function_pointer_call.2/verif_t_disconnect",
                 "qb_ipcs_disconnect.function_pointer_call.3/verif_cb_closed", "qb_ipcs_disconnect.function_pointer_call.4/verif_job_add",
                 "qb_ipcs_connection_unref.function_pointer_call.1/verif_cb_destroyed", "qb_ipcs_connection_unref.function_pointer_call.2/verif_t_disconnect"],
 "unwindset": ["qb_ipcs_dispatch_connection_request.0:51"],
 "note": "the receive loop runs at most MAX_RECV_MSGS = 50 times (compile-time constant): fully unwound with unwinding assertion",
 "expect_classes": ["assertion"], "timeout": 300, "cbmc_flags": ["--no-malloc-may-fail"],
 "variants": [{"vname": "shm", "defines": ["-DV_SHM=1"]}, {"vname": "us", "defines": ["-DV_SHM=0"]}]}
*/
/* qb_ipcs_dispatch_connection_request(fd, revents, c) for an established connection, every poll mask, every
 * queue length the transport reports, every per-request outcome (fresh per loop pass):
 *  C06: the notification bytes are read into bytes[MAX_RECV_MSGS] for at most that many bytes (asserted in
 *       the setup-socket recv stub: buffer writable for the requested count);
 *  C02: no more requests are taken than the transport reported queued (and never more than 50); with flow
 *       control on nothing is taken; when the connection stays up (return 0) in shm mode the number of
 *       notification bytes removed from the setup socket equals the number of requests removed from the ring. */
#include "ipcs_common.h"

void harness(void)
{
	VERIF_ND(size_t, nd_max);
	VERIF_ND(int32_t, nd_revents);
	VERIF_ND(int32_t, nd_qlen);
	VERIF_ND(int32_t, nd_ref);
	struct qb_ipcs_service *s;
	struct qb_ipcs_connection *c;

	verif_monitor_reset();
	ASSUME(nd_max >= sizeof(struct qb_ipc_request_header) && nd_max <= (1u << 24));
	ASSUME(nd_ref >= 1 && nd_ref < (1 << 30));
	s = verif_build_service(V_SHM);
	c = verif_build_conn(s, QB_IPCS_CONNECTION_ESTABLISHED, nd_ref, nd_max);
	verif_C = c; verif_watch_ptr = c;
	ASSUME(nd_qlen >= -133);
	verif_qlen_result = nd_qlen;
	verif_fresh_results = 1;
	verif_req_max = nd_max;
#if V_SHM
	/* the ring peek (sem_timedwait + qb_rb_chunk_peek) has no ENOBUFS outcome; in _process_request_ that value
	 * means "the callback asked to back off" */
	verif_req_exclude = -ENOBUFS;
#endif
	verif_req_chunk = malloc(sizeof(struct qb_ipc_request_header));
	ASSUME(verif_req_chunk != NULL);
	int fc0 = c->fc_enabled;
	int32_t n0 = c->outstanding_notifiers;

	int32_t rc = qb_ipcs_dispatch_connection_request(7, nd_revents, c);

	int taken = verif_peek_calls + verif_trecv_calls;
	COVER(rc == 0 && taken == 50);
	COVER(rc == 0 && taken == 5 && verif_msgproc_calls == 5);
	COVER(rc == 0 && verif_msgproc_calls == 0 && taken == 1);
	COVER(rc == -ESHUTDOWN);
	COVER(rc == 0 && fc0);
#if V_SHM
	COVER(rc == 0 && nd_qlen == 0 && verif_usrecv_calls == 1);
	COVER(rc == 0 && verif_usrecv_len == 50);
	COVER(rc == -ESHUTDOWN && verif_usrecv_calls == 1 && verif_msgproc_calls > 0);
#endif
	POST(taken <= 50, "at most MAX_RECV_MSGS requests are taken per dispatch");
	POST(verif_msgproc_calls <= (nd_qlen > 1 ? nd_qlen : 1), "the server takes no more requests than the transport reported queued");
	if (fc0 && (nd_revents & (POLLNVAL | POLLHUP)) == 0) {
		POST(taken == 0 && rc == 0, "with flow control on no request is taken");
	}
	if (nd_revents & (POLLNVAL | POLLHUP)) {
		POST(rc != 0 && taken == 0, "a hung-up or invalid descriptor ends the connection without touching the queue");
	}
#if V_SHM
	if ((nd_revents & POLLOUT) && (nd_revents & (POLLNVAL | POLLHUP)) == 0 && n0 > 0) {
		COVER(fc0 != 0 && verif_ussend_total == n0);
		POST(verif_ussend_calls >= 1 && verif_ussend_len == (size_t)n0, "a writable setup socket flushes the deferred notifications, also while flow control is on");
		if (verif_watch_freed == 0) {
			POST(verif_ussend_total + c->outstanding_notifiers == (long)n0, "flushing writes each deferred notification exactly once");
		}
	}
	POST(verif_usrecv_calls <= 1, "the notification bytes are removed in one read");
	if (rc == 0 && verif_watch_freed == 0) {
		if (taken > 0) {
			POST((verif_usrecv_calls == 1 ? verif_usrecv_len : 0) == (size_t)verif_reclaim_calls,
			     "notification bytes consumed == requests consumed");
		}
		POST(verif_reclaim_calls == verif_msgproc_calls, "every request given to the callback is removed from the ring once");
	}
#else
	POST(verif_usrecv_calls == 0, "socket transport: no notification bytes");
#endif
	if (rc != 0) {
		POST(verif_closed_calls >= 1 || verif_watch_freed == 1 || verif_jobadd_calls > 0, "a failed dispatch disconnects the connection");
	}
}
