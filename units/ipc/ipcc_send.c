/*UNIT
{"props": ["C02"], "src": ["lib/ipcc.c"], "mode": "plain", "kind": "bounded",
 "bound": "the wake-up byte write is retried after EAGAIN at most 2 times (retry loop); qb_ipcc_sendv: at most 3 iovec entries; everything else symbolic",
 "functions": ["qb_ipcc_send", "qb_ipcc_sendv", "_check_connection_state (inlined)"],
 "stubs": ["c->funcs.send / sendv / fc_get (recorded, any result)", "qb_ipc_us_send on the setup socket (all-or-error contract)", "qb_ipc_us_sock_error_is_disconnected (copy of the table)"],
 "drops": ["qb_util_log/qb_util_perror diagnostics compiled out (stubs/nolog.h)"],
 "restrict_fp": ["qb_ipcc_send.function_pointer_call.1/verif_c_fc_get", "qb_ipcc_send.function_pointer_call.2/verif_c_send",
                 "qb_ipcc_sendv.function_pointer_call.1/verif_c_fc_get", "qb_ipcc_sendv.function_pointer_call.2/verif_c_sendv"],
 "unwind": 4,
 "expect_classes": ["assertion"], "timeout": 120, "cbmc_flags": ["--no-malloc-may-fail"],
 "variants": [{"vname": "send", "defines": ["-DV_SEND"]}, {"vname": "sendv", "defines": ["-DV_SENDV", "-DV_NOWRAP"]}, {"vname": "sendv_wrap", "defines": ["-DV_SENDV", "-DV_WRAP"]}]}
*/
/* qb_ipcc_send / qb_ipcc_sendv (client): "a send that cannot be queued reports an error and has no effect".
 *  - size gate: a message longer than the negotiated maximum => -EMSGSIZE, the transport is never called, no
 *    byte goes to the setup socket; a message of at most the maximum is never refused for its size;
 *  - flow control: fc_get() in [1, fc_enable_max] => -EAGAIN, nothing sent; a negative fc_get() is passed up;
 *  - wake-up byte (shm mode): exactly one byte is written to the setup socket iff the transport accepted the
 *    message; none when the transport refused it (then the transport's error is the result).
 * sendv: the gate works on the exact sum of the iovec lengths.  Variant sendv: sums below 2^32.
 * Variant sendv_wrap: sums of 2^32 or more (size_t lengths added into an int32_t). */
#include "ipcc_common.h"

void harness(void)
{
	VERIF_ND(uint8_t, nd_shm);
	VERIF_ND(size_t, nd_max);
	VERIF_ND(size_t, nd_len);
	VERIF_ND(int32_t, nd_fc);
	VERIF_ND(int64_t, nd_tresult);
	struct qb_ipcc_connection *c;
	char byte = 0;
	ssize_t rc;

	verif_os_ipc_reset();
	ASSUME(nd_max >= 16 && nd_max <= (1u << 24));
	c = verif_build_client(nd_shm != 0, nd_max);
	verif_cfc_result = nd_fc;
	verif_eagain_budget = 2;
	int have_fc = c->funcs.fc_get != NULL;
	int fc_blocks = have_fc && nd_fc > 0 && (uint32_t)nd_fc <= c->fc_enable_max;
	int fc_error = have_fc && nd_fc < 0;
#ifdef V_SEND
	/* the transport accepts the whole message or reports an error */
	ASSUME(nd_tresult == (int64_t)nd_len || (nd_tresult < 0 && nd_tresult >= -133));
	verif_csend_result = nd_tresult;
	POST(qb_ipcc_send(NULL, &byte, 1) == -EINVAL, "no connection: EINVAL");

	rc = qb_ipcc_send(c, &byte, nd_len);   /* the stubs never read the payload */
	size_t total = nd_len;
	int tcalls = verif_csend_calls;
#else
	VERIF_ND(size_t, nd_n);
	VERIF_ND(size_t, nd_l0);
	VERIF_ND(size_t, nd_l1);
	VERIF_ND(size_t, nd_l2);
	struct iovec iov[3];
	ASSUME(nd_n <= 3);
	iov[0].iov_base = &byte; iov[0].iov_len = nd_l0;
	iov[1].iov_base = &byte; iov[1].iov_len = nd_l1;
	iov[2].iov_base = &byte; iov[2].iov_len = nd_l2;
	/* exact sum, no overflow of size_t */
	ASSUME(nd_l0 < (1ull << 40) && nd_l1 < (1ull << 40) && nd_l2 < (1ull << 40));
	size_t total = (nd_n > 0 ? nd_l0 : 0) + (nd_n > 1 ? nd_l1 : 0) + (nd_n > 2 ? nd_l2 : 0);
#ifdef V_NOWRAP
	ASSUME(total < (1ull << 32));
#else
	ASSUME(total >= (1ull << 32));
#endif
	ASSUME((nd_tresult > 0 && nd_tresult <= (int64_t)nd_max) || (nd_tresult < 0 && nd_tresult >= -133));
	verif_csend_result = nd_tresult;

	rc = qb_ipcc_sendv(c, iov, nd_n);
	int tcalls = verif_csendv_calls;
#endif

	if (total > nd_max) {
		COVER(1);
		POST(rc == -EMSGSIZE, "a message larger than the negotiated maximum is refused with EMSGSIZE");
		POST(tcalls == 0 && verif_ussend_calls == 0, "a refused oversize message has no effect: nothing is handed to the transport, no wake-up byte");
	} else if (fc_error) {
#ifndef V_WRAP
		COVER(1);
#endif
		POST(rc == nd_fc && tcalls == 0 && verif_ussend_calls == 0, "a flow-control read error is passed up and nothing is sent");
	} else if (fc_blocks) {
#ifndef V_WRAP
		COVER(nd_fc == 2);
#endif
		POST(rc == -EAGAIN, "flow control on: the send reports EAGAIN");
		POST(tcalls == 0 && verif_ussend_calls == 0, "flow control on: nothing is sent");
	} else {
#ifndef V_WRAP
		COVER(total == nd_max && rc == (ssize_t)total);
		COVER(nd_tresult < 0);
		COVER(nd_shm && nd_tresult > 0 && rc < 0);
#endif
		POST(!(nd_tresult > 0 && rc == -EAGAIN), "a send that reports EAGAIN has had no effect: the request is never already committed to the transport when EAGAIN is returned");
		POST(tcalls == 1, "a message of at most the negotiated maximum is not refused for its size: it is handed to the transport exactly once");
		if (nd_tresult < 0) {
			POST(rc == nd_tresult, "a message the transport could not queue reports the transport's error");
			POST(verif_ussend_total == 0 && verif_ussend_calls == 0, "a message the transport could not queue sends no wake-up byte");
		} else if (nd_shm) {
			POST(verif_ussend_total <= 1, "at most one wake-up byte per message");
			POST((rc == nd_tresult) == (verif_ussend_total == 1), "the send succeeds exactly when its wake-up byte was written");
			POST(rc == nd_tresult || rc < 0, "a failed wake-up is reported as an error");
		} else {
			POST(verif_ussend_calls == 0 && rc == nd_tresult, "socket transport: no wake-up byte, the transport's count is the result");
		}
	}
}
