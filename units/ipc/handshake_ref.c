/*UNIT
{"props": ["C04"], "src": ["lib/ipc_setup.c"], "mode": "plain", "kind": "bounded",
 "bound": "the handshake record arrives in at most 2 pieces plus one EAGAIN (as in ipc.process_auth); everything else symbolic",
 "functions": ["qb_ipcs_uc_recv_and_auth", "init_ipc_auth_data (inlined)", "destroy_ipc_auth_data (inlined)", "process_auth"],
 "stubs": ["calloc (may fail)", "qb_ipcs_ref / qb_ipcs_unref (count on s->ref_count; the real ones are in ipc.list_walk.service_ref)", "poll_fns.dispatch_add (any result) / dispatch_del",
           "recvmsg, setsockopt, close, shutdown (stubs/os_ipc.h)", "__cmsg_nxthdr (NULL)", "qb_ipcs_connection_alloc (NULL: handle_new_connection cut short)", "free (observed)"],
 "drops": ["qb_util_log/qb_util_perror diagnostics compiled out (stubs/nolog.h)"],
 "restrict_fp": ["qb_ipcs_uc_recv_and_auth.function_pointer_call.1/verif_hs_dispatch_add", "process_auth.function_pointer_call.1/verif_hs_dispatch_del"],
 "unwindset": ["qb_ipc_us_recv_msghdr.0:4", "qb_ipc_auth_creds.0:3"],
 "expect_classes": ["assertion"], "timeout": 300}
*/
/* The service reference held for a pending handshake.  qb_ipcs_uc_recv_and_auth(sock, s) on a freshly accepted
 * socket, for every allocation and dispatch_add outcome, followed (when the handshake was registered) by one run
 * of its handler process_auth with arbitrary input:
 *   - a reference on the service is taken exactly when an auth record was allocated, and it is given back on
 *     EVERY path that ends the handshake: allocation failure (none taken), dispatch_add failing, and every
 *     finishing exit of process_auth; while the handshake is pending exactly one extra reference is held;
 *   - whenever the handshake is not registered the socket is closed exactly once and the record freed. */
static void verif_recvmsg_hook(void *msg, unsigned long n);
#define VERIF_RECVMSG_HOOK verif_recvmsg_hook
#include "os_base.h"
#include "verif.h"
#include "alloc.h"
#include "prelude.h"

static int hs_ref_calls, hs_unref_calls, hs_add_calls, hs_del_calls, hs_data_freed;
static void *hs_registered;
static int32_t hs_add_rc, hs_add_fd;
struct ipc_auth_data;
static void verif_hs_free(void *p) { if (p != NULL && p == hs_registered) { hs_data_freed++; } free(p); }
#define free verif_hs_free
static void verif_ipcs_ref(struct qb_ipcs_service *s) { hs_ref_calls++; s->ref_count++; }
static void verif_ipcs_unref(struct qb_ipcs_service *s) { hs_unref_calls++; s->ref_count--; }
static struct qb_ipcs_connection *verif_connection_alloc(struct qb_ipcs_service *s) { return NULL; }
#define qb_ipcs_ref verif_ipcs_ref
#define qb_ipcs_unref verif_ipcs_unref
#define qb_ipcs_connection_alloc verif_connection_alloc
struct cmsghdr *__cmsg_nxthdr(struct msghdr *m, struct cmsghdr *c) { return NULL; }
#include "ipc_setup.c"

static int32_t verif_hs_dispatch_add(enum qb_loop_priority p, int32_t fd, int32_t events, void *data, qb_ipcs_dispatch_fn_t fn)
{
	hs_add_calls++; hs_add_fd = fd;
	if (hs_add_rc >= 0) {
		hs_registered = data;
	}
	return hs_add_rc;
}
static int32_t verif_hs_dispatch_del(int32_t fd) { hs_del_calls++; return 0; }
static void verif_recvmsg_hook(void *m, unsigned long n)
{
	struct msghdr *msg = m;
	VERIF_ND(uint8_t, nd_cmsg_kind);
	if (nd_cmsg_kind == 0) {
		msg->msg_controllen = 0;
	} else {
		struct cmsghdr *cm = msg->msg_control;
		msg->msg_controllen = CMSG_SPACE(sizeof(struct ucred));
		cm->cmsg_len = CMSG_LEN(sizeof(struct ucred));
		cm->cmsg_level = SOL_SOCKET;
		cm->cmsg_type = nd_cmsg_kind == 1 ? SCM_CREDENTIALS : 0;
	}
}

void harness(void)
{
	VERIF_ND(int32_t, nd_sref);
	VERIF_ND(int32_t, nd_add_rc);
	VERIF_ND(int32_t, nd_revents);
	VERIF_ND(uint8_t, nd_shutdown);
	struct qb_ipcs_service *s;

	verif_os_ipc_reset();
	verif_alloc_calls = 0; verif_alloc_never_fails = 0;
	hs_ref_calls = hs_unref_calls = hs_add_calls = hs_del_calls = hs_data_freed = 0;
	hs_registered = NULL; hs_add_fd = -1;
	verif_alloc_never_fails = 1;
	s = calloc(1, sizeof(*s));
	verif_alloc_never_fails = 0; verif_alloc_calls = 0;
	ASSUME(nd_sref >= 1 && nd_sref < (1 << 30));
	ASSUME(nd_add_rc >= -133 && nd_add_rc <= 0);
	s->ref_count = nd_sref;
	s->server_sock = 3;
	s->poll_fns.dispatch_add = verif_hs_dispatch_add;
	s->poll_fns.dispatch_del = verif_hs_dispatch_del;
	hs_add_rc = nd_add_rc;

	qb_ipcs_uc_recv_and_auth(9, s);

	if (verif_alloc_calls < 2) {
		COVER(verif_alloc_calls == 0);
		COVER(verif_alloc_calls == 1);
		POST(hs_ref_calls == 0 && s->ref_count == nd_sref, "no auth record: no service reference is taken");
		POST(hs_add_calls == 0 && verif_close_calls == 1 && verif_close_last_fd == 9, "no auth record: the socket is closed once and nothing is registered");
	} else if (nd_add_rc < 0) {
		COVER(1);
		POST(hs_ref_calls == 1 && hs_unref_calls == 1 && s->ref_count == nd_sref, "registration failed: the reference taken for the handshake is given back");
		POST(verif_close_calls == 1 && verif_close_last_fd == 9, "registration failed: the socket is closed once");
	} else {
		struct ipc_auth_data *data = hs_registered;
		POST(hs_add_calls == 1 && hs_add_fd == 9 && data != NULL, "the handshake is registered with the main loop for its socket");
		POST(s->ref_count == nd_sref + 1 && hs_unref_calls == 0, "a pending handshake holds exactly one reference on the service");
		POST(verif_close_calls == 0 && hs_data_freed == 0, "a pending handshake keeps its socket and record");
		POST(data->s == s && data->sock == 9 && data->len == sizeof(struct qb_ipc_connection_request) && data->processed == 0,
		     "the auth record describes an empty fixed-size handshake for this socket and service");
		/* the handler runs once with arbitrary input */
		verif_recvmsg_prefilled = 1;
		verif_recvmsg_partial_budget = 1;
		verif_eagain_budget = 1;
		if (nd_shutdown) {
			s->server_sock = -1;
		}
		int32_t rc = process_auth(9, nd_revents, data);
		if (rc == 0) {
			COVER(1);
			POST(s->ref_count == nd_sref + 1 && hs_data_freed == 0 && verif_close_calls == 0, "a handshake still pending keeps its reference, record and socket");
		} else {
			COVER(nd_shutdown);
			COVER(!nd_shutdown && verif_recvmsg_calls > 0);
			POST(s->ref_count == nd_sref && hs_unref_calls == 1, "a finished handshake has given back its service reference, whatever the outcome");
			POST(hs_data_freed == 1 && hs_del_calls == 1, "a finished handshake frees its record once and leaves the main loop");
		}
	}
}
