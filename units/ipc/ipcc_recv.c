/*UNIT
{"props": ["C02"], "src": ["lib/ipcc.c"], "mode": "plain", "kind": "proved",
 "functions": ["qb_ipcc_event_recv", "qb_ipcc_recv", "_check_connection_state_with (inlined)", "_check_connection_state (inlined)"],
 "stubs": ["c->funcs.recv (any result: -errno, 0, or a byte count <= the buffer length)", "qb_ipc_us_ready (any result <= 0)", "qb_ipc_us_recv on the setup socket (all-or-error)"],
 "drops": ["qb_util_log/qb_util_perror diagnostics compiled out (stubs/nolog.h)"],
 "restrict_fp": ["qb_ipcc_event_recv.function_pointer_call.1/verif_c_recv", "qb_ipcc_recv.function_pointer_call.1/verif_c_recv"],
 "expect_classes": ["assertion"], "timeout": 120, "cbmc_flags": ["--no-malloc-may-fail"],
 "variants": [{"vname": "event", "defines": ["-DV_EVENT"]}, {"vname": "response", "defines": ["-DV_RESPONSE"]}]}
*/
/* Client receive side, both transports, every transport / poll / setup-socket outcome:
 *  event:    qb_ipcc_event_recv takes at most one event from the transport per call; in shm mode exactly one
 *            notification byte is consumed from the setup socket per event RETURNED and none otherwise (so
 *            the polled descriptor stays readable while events are unread); a returned event has the
 *            transport's length; when the descriptor is not ready nothing is taken at all;
 *  response: qb_ipcc_recv takes at most one response per call, returns the transport's length unchanged and
 *            never consumes notification bytes. */
#include "ipcc_common.h"

void harness(void)
{
	VERIF_ND(uint8_t, nd_shm);
	VERIF_ND(size_t, nd_len);
	VERIF_ND(int64_t, nd_tresult);
	VERIF_ND(int32_t, nd_timeout);
	struct qb_ipcc_connection *c;
	char buf[8];
	ssize_t rc;

	verif_os_ipc_reset();
	ASSUME(nd_len <= (1u << 24));
	c = verif_build_client(nd_shm != 0, 1u << 24);
	ASSUME(nd_tresult >= -133 && nd_tresult <= (int64_t)nd_len);
	verif_crecv_result = nd_tresult;
	ASSUME(nd_timeout >= -1);
#ifdef V_EVENT
	POST(qb_ipcc_event_recv(NULL, buf, 8, 0) == -EINVAL, "no connection: EINVAL");
	rc = qb_ipcc_event_recv(c, buf, nd_len, nd_timeout);    /* the stubs never write the buffer */

	COVER(rc > 0 && nd_shm);
	COVER(rc > 0 && !nd_shm);
	COVER(verif_crecv_calls == 0);
	COVER(nd_tresult > 0 && rc < 0);
	COVER(nd_tresult == 0);
	POST(verif_crecv_calls <= 1, "at most one event is taken from the transport per call");
	POST(verif_usrecv_total == ((rc > 0 && nd_shm) ? 1 : 0), "exactly one notification byte is consumed per event returned, none otherwise");
	POST(verif_usrecv_calls <= 1, "at most one notification read per call");
	if (rc > 0) {
		POST(rc == nd_tresult && verif_crecv_calls == 1, "a returned event has the length the transport delivered");
	}
	if (verif_crecv_calls == 0) {
		POST(rc < 0 && verif_usrecv_calls == 0, "descriptor not ready: nothing is taken and an error is reported");
	}
	if (nd_tresult <= 0 && verif_crecv_calls == 1) {
		POST(rc == nd_tresult && verif_usrecv_calls == 0, "no event available: the transport's result is passed up, no notification byte is touched");
	}
#else
	POST(qb_ipcc_recv(NULL, buf, 8, 0) == -EINVAL, "no connection: EINVAL");
	rc = qb_ipcc_recv(c, buf, nd_len, nd_timeout);

	COVER(rc > 0);
	COVER(nd_tresult == -EAGAIN && rc == -EAGAIN);
	COVER(nd_tresult < 0 && rc != nd_tresult);
	POST(verif_crecv_calls == 1, "exactly one response is asked of the transport per call");
	POST(verif_usrecv_calls == 0 && verif_ussend_calls == 0, "receiving a response never touches the notification bytes");
	if (nd_tresult >= 0) {
		POST(rc == nd_tresult, "a received response is returned with the transport's length");
	} else {
		POST(rc < 0, "no response: an error is reported");
	}
#endif
}
