/*UNIT
{"src": ["lib/ipcs.c"], "mode": "plain", "kind": "proved",
 "functions": ["_process_request_"],
 "stubs": ["funcs.peek / funcs.recv (any result: -errno, 0, or n bytes with arbitrary content)", "funcs.reclaim (recorded)", "msg_process callback (recorded, any return value)"],
 "drops": ["qb_util_log/qb_util_perror diagnostics compiled out (stubs/nolog.h)"],
 "restrict_fp": ["_process_request_.function_pointer_call.1/verif_t_peek", "_process_request_.function_pointer_call.2/verif_t_recv",
                 "_process_request_.function_pointer_call.3/verif_cb_msg_process", "_process_request_.function_pointer_call.4/verif_t_reclaim"],
 "expect_classes": ["assertion"], "timeout": 120, "cbmc_flags": ["--no-malloc-may-fail"],
 "variants": [{"vname": "shm_consistent", "props": ["C06", "C02"], "defines": ["-DV_SHM=1", "-DV_CONSISTENT"]},
              {"vname": "us_consistent", "props": ["C06", "C02"], "defines": ["-DV_SHM=0", "-DV_CONSISTENT"]},
              {"vname": "shm_overclaim", "props": ["C06"], "defines": ["-DV_SHM=1", "-DV_OVERCLAIM"]},
              {"vname": "us_overclaim", "props": ["C06"], "defines": ["-DV_SHM=0", "-DV_OVERCLAIM"]}]}
*/
/* _process_request_(c, timeout): one request from the transport to the message callback.
 * For every result of the transport receive (error, nothing, n bytes) and every content of those bytes:
 *  C06: the length reported to msg_process never exceeds the number of bytes actually received nor the
 *       negotiated maximum; the data pointer is the received message;
 *  C02: the callback runs at most once per received message; in shm mode the chunk is reclaimed exactly once
 *       and only after the callback returned; nothing is reclaimed (the message stays queued) and the callback
 *       is not run when the transport reported an error.
 * Variants *_consistent: the header's size field does not exceed the bytes received (and a full header was
 * received).  Variants *_overclaim: it does (size field larger than the bytes received, negative, or less than
 * a header received) -- the input class of suspected defect #2. */
#include "ipcs_common.h"

void harness(void)
{
	VERIF_ND(size_t, nd_max);
	VERIF_ND(int64_t, nd_result);
	VERIF_ND(int32_t, nd_id);
	VERIF_ND(int32_t, nd_size);
	VERIF_ND(int32_t, nd_msgproc_rc);
	VERIF_ND(int32_t, nd_timeout);
	struct qb_ipcs_service *s;
	struct qb_ipcs_connection *c;
	struct qb_ipc_request_header *hdr;
	char *chunk;

	verif_monitor_reset();
	ASSUME(nd_max >= sizeof(struct qb_ipc_request_header) && nd_max <= (1u << 24));
	s = verif_build_service(V_SHM);
	c = verif_build_conn(s, QB_IPCS_CONNECTION_ESTABLISHED, 1, nd_max);
	/* what the transport reports: -errno, 0, or a byte count that fits what was negotiated
	 * (socket: recv_at_most never returns more than the buffer -- unit ipc.recv_at_most; shm: a chunk the client committed) */
#ifdef V_CONSISTENT
	ASSUME(nd_result >= -133 && nd_result <= (int64_t)nd_max);
#else
	/* overclaim: the transport may also report more than was negotiated (shm: the chunk's size word lives in
	 * memory the client can write) */
	ASSUME(nd_result >= -133 && nd_result <= ((int64_t)1 << 25));
#endif
	verif_req_result = nd_result;
	verif_msgproc_rc = nd_msgproc_rc;
#if V_SHM
	/* the ring memory behind the chunk: the chunk's bytes plus the rest of the ring (slack), all the client's to fill */
	size_t chunk_bytes = (nd_result > 0 ? (size_t)nd_result : 0) + sizeof(struct qb_ipc_request_header);
	chunk = malloc(chunk_bytes);
	ASSUME(chunk != NULL);
	verif_req_chunk = chunk;
	hdr = (struct qb_ipc_request_header *)chunk;
#else
	hdr = c->receive_buf;
#endif
	hdr->id = nd_id;
	hdr->size = nd_size;
#ifdef V_CONSISTENT
	ASSUME(nd_result <= 0 || (nd_result >= (int64_t)sizeof(*hdr) && nd_size >= 0 && nd_size <= nd_result));
#endif
#ifdef V_OVERCLAIM
	ASSUME(nd_result > 0 && (nd_result < (int64_t)sizeof(*hdr) || nd_size < 0 || nd_size > nd_result || nd_result > (int64_t)nd_max));
#endif

	int32_t rc = _process_request_(c, nd_timeout);

	POST(verif_msgproc_calls <= 1, "a received request is handed to the message callback at most once");
	POST(verif_peek_calls + verif_trecv_calls == 1, "one request is taken from the transport per call");
	if (verif_msgproc_calls == 1) {
#ifdef V_CONSISTENT
		COVER(nd_msgproc_rc < 0);
		COVER(nd_msgproc_rc >= 0 && rc > 0);
#endif
		POST(nd_result > 0, "the message callback only runs for a request that was actually received");
		POST(verif_msgproc_size <= (size_t)nd_result, "the length reported to the message callback never exceeds what was actually received");
		POST(verif_msgproc_size <= nd_max, "the length reported to the message callback never exceeds the negotiated maximum");
		POST(verif_msgproc_data == (void *)hdr, "the message callback is given the received request");
#if V_SHM
		POST(verif_reclaim_calls == 1 && verif_reclaim_at > verif_msgproc_at, "the request is removed from the ring exactly once and only after the callback ran");
#endif
		POST(rc == (nd_msgproc_rc < 0 ? -ENOBUFS : (int32_t)nd_result), "a processed request reports its size (or the callback's back-off)");
	} else {
#ifdef V_CONSISTENT
		COVER(nd_result < 0);
		COVER(nd_result == 0);
#endif
#ifdef V_CONSISTENT
		COVER(nd_result > 0 && nd_id == QB_IPC_MSG_DISCONNECT);
		POST(nd_result <= 0 || nd_id == QB_IPC_MSG_DISCONNECT, "every received request other than a disconnect reaches the callback");
#else
		COVER(nd_result > 0);   /* a request whose header lies about its length is refused, not delivered */
#endif
		POST(verif_reclaim_calls == 0, "nothing is removed from the ring unless the callback ran");
		POST(rc < 0, "no request processed is reported as an error or shutdown");
		if (nd_result < 0) {
			POST(rc == (int32_t)nd_result, "a transport error is passed up unchanged");
		}
	}
#if !V_SHM
	POST(verif_reclaim_calls == 0, "socket transport: nothing to reclaim");
#endif
}
