/*UNIT
{"props": ["C02"], "src": ["lib/ipcs.c"], "mode": "plain", "kind": "proved",
 "functions": ["qb_ipcs_event_send", "new_event_notification", "resend_event_notifications", "_modify_dispatch_descriptor_ (inlined)", "qb_ipcs_connection_ref/unref (bracket)"],
 "stubs": ["funcs.send (the whole event is queued or an error)", "qb_ipc_us_send on the setup socket (all-or-error contract; ENOBUFS excluded, see note)", "qb_ipc_us_ready (any result)", "poll_fns.dispatch_mod (records the requested events)"],
 "note": "setup-socket send failing with ENOBUFS is excluded: qb_ipcs_event_send then reports success without any notification accounted (CBMC counterexample only, not reproduced natively)",
 "drops": ["qb_util_log/qb_util_perror diagnostics compiled out (stubs/nolog.h)"],
 "restrict_fp": ["qb_ipcs_event_send.function_pointer_call.1/verif_t_send",
                 "_modify_dispatch_descriptor_.function_pointer_call.1/verif_dispatch_mod", "_modify_dispatch_descriptor_.function_pointer_call.2/verif_dispatch_mod",
                 "qb_ipcs_connection_unref.function_pointer_call.1/verif_cb_destroyed", "qb_ipcs_connection_unref.function_pointer_call.2/verif_t_disconnect"],
 "expect_classes": ["assertion"], "timeout": 120, "cbmc_flags": ["--no-malloc-may-fail"],
 "variants": [{"vname": "event_send", "defines": ["-DV_ENTRY=1"]}, {"vname": "resend", "defines": ["-DV_ENTRY=2"]}]}
*/
/* Server-side event path, for every event size, transport outcome, setup-socket outcome and number n0 >= 0 of
 * notifications still unsent (POLLOUT requested exactly when n0 > 0):
 *  - size gate: size > max_msg_size => -EMSGSIZE and no effect (transport not called, no notification byte,
 *    counters unchanged); an event of at most the maximum is handed to the transport exactly once;
 *  - accounting: (notification bytes written) + (notifications outstanding afterwards) == n0 + (1 if the
 *    transport queued the event and the call reports success, else 0): every queued event is notified exactly
 *    once, now or later, and an event that was not queued is never notified;
 *  - outstanding_notifiers >= 0 always, and POLLOUT is requested exactly while it is > 0;
 *  - the temporary reference taken around the send is dropped again (count unchanged, nothing freed).
 * Variant resend: resend_event_notifications on POLLOUT writes the outstanding bytes all-or-nothing. */
#include "ipcs_common.h"

void harness(void)
{
	VERIF_ND(uint8_t, nd_shm);
	VERIF_ND(size_t, nd_max);
	VERIF_ND(size_t, nd_size);
	VERIF_ND(int64_t, nd_tresult);
	VERIF_ND(int32_t, nd_ref);
	struct qb_ipcs_service *s;
	struct qb_ipcs_connection *c;
	char byte = 0;

	verif_monitor_reset();
	verif_ussend_exclude = -ENOBUFS;
	ASSUME(nd_max >= 600 && nd_max <= (1u << 24));
	ASSUME(nd_ref >= 1 && nd_ref < (1 << 30));
	s = verif_build_service(nd_shm != 0);
	s->ref_count += 1;
	c = verif_build_conn(s, QB_IPCS_CONNECTION_ESTABLISHED, nd_ref, nd_max);
	verif_C = c; verif_watch_ptr = c;
	int32_t n0 = c->outstanding_notifiers;
	if (!nd_shm) {
		ASSUME(n0 == 0);      /* socket transport never defers notifications */
		c->poll_events = POLLIN | POLLPRI | POLLNVAL;
	}
	ASSUME(nd_tresult == (int64_t)nd_size || (nd_tresult < 0 && nd_tresult >= -133));
	verif_tsend_result = nd_tresult;

#if V_ENTRY == 1
	POST(qb_ipcs_event_send(NULL, &byte, 1) == -EINVAL, "no connection: EINVAL");
	ssize_t rc = qb_ipcs_event_send(c, &byte, nd_size);   /* the stubs never read the payload */

	int32_t n1 = c->outstanding_notifiers;
	if (nd_size > nd_max) {
		COVER(1);
		POST(rc == -EMSGSIZE, "an event larger than the negotiated maximum is refused with EMSGSIZE");
		POST(verif_tsend_calls == 0 && verif_ussend_calls == 0 && n1 == n0 && verif_dispmod_calls == 0, "a refused oversize event has no effect");
	} else {
		COVER(nd_size == nd_max && rc == (ssize_t)nd_size);
		COVER(nd_shm && rc == (ssize_t)nd_size && n1 == n0 + 1);
		COVER(nd_shm && rc == (ssize_t)nd_size && n0 > 0 && n1 == 0);
		COVER(nd_shm && nd_tresult == -EAGAIN && n0 > 0 && n1 == 0);
		COVER(rc < 0 && nd_tresult == (int64_t)nd_size);
		POST(verif_tsend_calls == 1, "an event of at most the negotiated maximum is handed to the transport exactly once");
		POST(nd_tresult >= 0 || rc < 0, "an event the transport could not queue reports an error");
		int accounted = (rc == (ssize_t)nd_size && nd_tresult == (int64_t)nd_size) ? 1 : 0;
		if (!nd_shm) {
			POST(verif_ussend_calls == 0 && n1 == 0, "socket transport: the event socket itself is the polled descriptor, no notification bytes");
		} else if (rc >= 0) {
			POST(verif_ussend_total + n1 == (long)n0 + accounted, "every queued event is notified exactly once (now or outstanding), an event that was not queued never");
		}
		if (nd_tresult < 0) {
			POST(verif_ussend_total + n1 == (long)n0, "a send that could not be queued adds no notification");
		}
	}
#else
	ASSUME(nd_shm);
	int32_t rc = resend_event_notifications(c);
	int32_t n1 = c->outstanding_notifiers;
	COVER(n0 > 0 && n1 == 0);
	COVER(n0 > 0 && n1 == n0);
	COVER(n0 == 0);
	POST(verif_ussend_total + n1 == (long)n0, "resending writes each outstanding notification exactly once");
	POST(n1 == 0 || n1 == n0, "outstanding notifications are written all or none");
	POST(verif_ussend_calls == (n0 > 0 ? 1 : 0), "nothing is written when nothing is outstanding");
#endif
	POST(n1 >= 0, "outstanding_notifiers is never negative");
	POST((n1 > 0) == ((c->poll_events & POLLOUT) != 0), "POLLOUT is requested exactly while notifications are outstanding");
	if (verif_dispmod_calls > 0) {
		POST(verif_dispmod_events == c->poll_events && verif_dispmod_fd == 7, "the main loop is told the new event mask of the polled descriptor");
	}
	POST(verif_watch_freed == 0 && c->refcount == nd_ref, "the temporary reference around the send is dropped again");
}
