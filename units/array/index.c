/*UNIT
{"props": ["C19"], "src": ["lib/array.c"], "spec": ["array.spec"], "mode": "dfcc",
 "enforce": ["qb_array_index"], "replace": ["_grow_bin_array"], "loop_contracts": false, "kind": "proved",
 "functions": ["qb_array_index", "qb_array_grow (inlined)"],
 "stubs": ["calloc (fresh zeroed object or NULL+ENOMEM)", "qb_thread_lock/unlock (sequential no-ops)", "new_bin_cb callback (records the call)"],
 "restrict_fp": ["qb_array_index.function_pointer_call.1/verif_new_bin_cb"],
 "expect_classes": ["postcondition"], "timeout": 300,
 "cbmc_flags": ["--no-malloc-may-fail"],
 "variants": [{"vname":"noauto","defines":["-DVERIF_EXTRA=(nd_autogrow==0)","-DV_NOAUTO"]},{"vname":"inrange","defines":["-DVERIF_EXTRA=(nd_autogrow>0&&(nd_idx<0||(size_t)nd_idx<nd_max))","-DV_INRANGE"]},{"vname":"autogrow","defines":["-DVERIF_EXTRA=(nd_autogrow>0&&nd_idx>=0&&(size_t)nd_idx>=nd_max)","-DV_AUTOGROW"]}]}
*/
/* qb_array_index (qb_array_grow and _grow_bin_array by contract): range errors,
 * address formula, stability of existing bins, freshness + zero-initialisation of a new bin,
 * element range inside its bin, frame (no byte of an existing bin is written). */
#include "os_base.h"
#include <qb/qbarray.h>
#include <qb/qbutil.h>
#include "verif.h"
#ifndef VERIF_EXTRA
#define VERIF_EXTRA 1
#endif
#include "ghost.h"
#include "alloc.h"
#include "locks.h"
#include "array.c"

static void verif_new_bin_cb(qb_array_t *a, uint32_t bin)
{
	verif_cb_calls++;
}

void harness(void)
{
	VERIF_ND(size_t, nd_nb);
	VERIF_ND(size_t, nd_max);
	VERIF_ND(size_t, nd_es);
	VERIF_ND(size_t, nd_autogrow);
	VERIF_ND(int32_t, nd_idx);
	VERIF_ND(size_t, nd_wit);
	VERIF_ND(uint8_t, nd_wit_present);
	VERIF_ND(uint8_t, nd_target_present);
	VERIF_ND(uint8_t, nd_have_cb);
	VERIF_ND(size_t, nd_zero_off);
	struct qb_array *a = malloc(sizeof(*a));
	void *elem = NULL;
	char *witbin = NULL, *tbin = NULL;
	size_t tb;
	ASSUME(a != NULL);
	ASSUME(VERIF_EXTRA); ASSUME(nd_nb >= 1 && nd_nb <= 4097 && nd_max <= 65536 && nd_es >= 1 && nd_es <= (1 << 20) && nd_autogrow <= 16);
	a->num_bins = nd_nb;
	a->max_elements = nd_max;
	a->element_size = nd_es;
	a->autogrow_elements = nd_autogrow;
	a->grow_lock = qb_thread_lock_create(QB_THREAD_LOCK_SHORT);
	a->new_bin_cb = nd_have_cb ? verif_new_bin_cb : NULL;
	a->bin = malloc(nd_nb * sizeof(void *));
	ASSUME(a->bin != NULL);
	/* witness slot: an arbitrary existing slot, holding an allocated bin or NULL */
	ASSUME(nd_wit < nd_nb);
	if (nd_wit_present) {
		witbin = malloc(16 * nd_es);
		ASSUME(witbin != NULL);
	}
	a->bin[nd_wit] = witbin;
	/* the slot the index maps to (if inside the table and distinct from the witness) */
	tb = (nd_idx >= 0) ? ((uint32_t)nd_idx >> 4) : 0;
	if (nd_idx >= 0 && tb < nd_nb && tb != nd_wit) {
		if (nd_target_present) {
			tbin = malloc(16 * nd_es);
			ASSUME(tbin != NULL);
		}
		a->bin[tb] = tbin;
	} else if (nd_idx >= 0 && tb == nd_wit) {
		tbin = witbin;
	}
	verif_wit_bin = nd_wit;
	verif_wit_val = witbin;
	verif_realloc_wit = nd_wit;
	/* second witness: the slot the index maps to, when it already exists */
	verif_wit_bin2 = (nd_idx >= 0 && tb < nd_nb) ? tb : ~(size_t)0;
	verif_wit_val2 = tbin;
	verif_realloc_wit2 = verif_wit_bin2;
	verif_wit_new = tb; /* the contract of _grow_bin_array is instantiated at the slot the index maps to */
	verif_alloc_calls = 0; verif_alloc_never_fails = 0; verif_lock_depth = 0; verif_cb_calls = 0;
	unsigned allocs0 = verif_alloc_calls;

	int32_t rc = qb_array_index(a, nd_idx, &elem);

	if (nd_idx < 0) {
		POST(rc == -ERANGE, "negative index is a range error");
	}
	if (nd_idx >= 65536) {
		POST(rc != 0, "index >= 65536 always fails");
	}
	if (nd_idx >= 0 && (size_t)nd_idx >= nd_max && nd_autogrow == 0) {
		POST(rc == -ERANGE, "index beyond the size without auto-grow is a range error");
		POST(a->max_elements == nd_max && a->num_bins == nd_nb, "refused index changes nothing");
	}
	POST(a->bin != NULL, "the bin table survives every outcome of index");
	if (witbin != NULL) {
		POST(a->bin[nd_wit] == witbin, "address stability: an allocated bin keeps its address");
	}
	if (rc == 0) {
		char *b = a->bin[tb];
		COVER(tb >= nd_nb);
		COVER(tb < nd_nb && tbin == NULL);
		COVER(tbin != NULL);
#ifdef V_AUTOGROW
		COVER((size_t)nd_idx >= nd_max);
#endif
		POST(nd_idx >= 0 && nd_idx < 65536, "success only for indexes in [0, 65536)");
		POST((size_t)nd_idx < a->max_elements, "success only inside the (possibly grown) size");
		POST(b != NULL, "bin allocated on success");
		POST((char *)elem == b + nd_es * (size_t)(nd_idx & 15), "element address = bin + element_size * slot");
		POST(__CPROVER_rw_ok(elem, nd_es), "element storage lies inside its bin");
		if (tbin != NULL) {
			POST(b == tbin, "existing bin reused: same address as before");
			POST(verif_alloc_calls == allocs0 || tb >= nd_nb || (size_t)nd_idx >= nd_max, "no allocation when the bin exists");
		} else {
			/* newly allocated bin: fresh (not the witness bin's object) and zero-filled (witness byte) */
			if (witbin != NULL) {
				POST(!__CPROVER_same_object(b, witbin), "a new bin does not overlap an existing bin");
			}
			if (nd_zero_off < 16 * nd_es) {
				POST(b[nd_zero_off] == 0, "a never-written element reads as zero");
			}
			POST(!nd_have_cb || verif_cb_calls == 1, "new-bin callback called once for a new bin");
		}
	} else {
#ifndef V_AUTOGROW
		COVER(rc == -ERANGE);
#else
		COVER(rc == -EINVAL);
#endif
		COVER(rc == -ENOMEM);
	}
	POST(verif_lock_depth == 0, "grow lock released on every exit");
}
