/*UNIT
{"props": ["C19"], "src": ["lib/array.c"], "spec": ["array.spec"], "mode": "dfcc",
 "replace": ["qb_array_create_2"], "replace_proved_elsewhere": ["qb_array_create_2"], "kind": "proved",
 "functions": ["qb_array_create", "qb_array_num_bins_get", "qb_array_elems_per_bin_get", "qb_array_new_bin_cb_set"],
 "stubs": ["qb_array_create_2 by its contract (enforced in unit array.create)"],
 "expect_classes": ["assertion"], "timeout": 300, "cbmc_flags": ["--no-malloc-may-fail"]}
*/
/* qb_array_create (the entry point most of libqb uses) is qb_array_create_2 WITHOUT auto-grow: the array it
 * returns has exactly the requested size and element size, so that indexing beyond that size fails with a range
 * error until qb_array_grow is called; invalid sizes are refused. The small accessors report the
 * representation (16 elements per block) and registering a new-block callback touches nothing else. */
#include "os_base.h"
#include <qb/qbarray.h>
#include <qb/qbutil.h>
#include "verif.h"
#include "ghost.h"
#include "alloc.h"
#include "locks.h"
#include "array.c"

static void verif_bin_cb(qb_array_t *a, uint32_t bin) { (void)a; (void)bin; }

void harness(void)
{
	VERIF_ND(size_t, nd_max);
	VERIF_ND(size_t, nd_es);
	VERIF_ND(size_t, nd_witnew);
	verif_wit_bin = 0; verif_wit_val = NULL;
	verif_wit_new = nd_witnew;
	verif_realloc_wit = 0;
	verif_realloc_wit2 = ~(size_t)0; verif_wit_bin2 = ~(size_t)0; verif_wit_val2 = NULL;
	verif_alloc_calls = 0; verif_alloc_never_fails = 0; verif_lock_depth = 0;

	struct qb_array *a = qb_array_create(nd_max, nd_es);

	if (nd_max > 65536 || nd_es < 1) {
		POST(a == NULL, "invalid create arguments are refused");
		COVER(1);
	}
	if (a != NULL) {
		COVER(nd_max == 65536);
		COVER(nd_max == 0);
		POST(a->autogrow_elements == 0, "an array created without asking for auto-grow does not grow on its own");
		POST(a->element_size == nd_es && a->max_elements == nd_max, "created array has the requested size and element size");
		size_t nb0 = a->num_bins; void **bin0 = a->bin;
		POST(qb_array_num_bins_get(a) == nb0, "the accessor reports the size of the block table");
		POST(qb_array_elems_per_bin_get(a) >= 1, "blocks hold at least one element");
		POST(qb_array_new_bin_cb_set(a, verif_bin_cb) == 0 && a->new_bin_cb == verif_bin_cb, "the new-block callback is recorded");
		POST(a->num_bins == nb0 && a->bin == bin0 && a->max_elements == nd_max && a->element_size == nd_es && a->autogrow_elements == 0,
		     "registering a callback changes nothing else");
	}
}
