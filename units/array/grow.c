/*UNIT
{"props": ["C19"], "src": ["lib/array.c"], "spec": ["array.spec"], "mode": "dfcc",
 "enforce": ["qb_array_grow"], "replace": ["_grow_bin_array"], "kind": "proved",
 "functions": ["qb_array_grow"], "stubs": ["qb_thread_lock/unlock (sequential no-ops)"],
 "expect_classes": ["postcondition"], "timeout": 300, "cbmc_flags": ["--no-malloc-may-fail"]}
*/
/* qb_array_grow: the size never shrinks, the bin table stays valid on every exit (also when the
 * table cannot be enlarged), existing bins keep their address, new table slots are NULL. */
#include "os_base.h"
#include <qb/qbarray.h>
#include <qb/qbutil.h>
#include "verif.h"
#include "ghost.h"
#include "alloc.h"
#include "locks.h"
#include "array.c"

void harness(void)
{
	VERIF_ND(size_t, nd_nb);
	VERIF_ND(size_t, nd_max);
	VERIF_ND(size_t, nd_newmax);
	VERIF_ND(size_t, nd_wit);
	VERIF_ND(size_t, nd_witnew);
	VERIF_ND(uintptr_t, nd_val);
	struct qb_array *a = malloc(sizeof(*a));
	ASSUME(a != NULL);
	ASSUME(nd_nb >= 1 && nd_nb <= 4097 && nd_max <= 65536 && nd_wit < nd_nb);
	a->num_bins = nd_nb;
	a->max_elements = nd_max;
	a->element_size = 8;
	a->autogrow_elements = 0;
	a->grow_lock = qb_thread_lock_create(QB_THREAD_LOCK_SHORT);
	a->new_bin_cb = NULL;
	a->bin = malloc(nd_nb * sizeof(void *));
	ASSUME(a->bin != NULL);
	a->bin[nd_wit] = (void *)nd_val;
	verif_wit_bin = nd_wit;
	verif_wit_val = (void *)nd_val;
	verif_wit_new = nd_witnew;
	verif_realloc_wit = nd_wit;
	verif_realloc_wit2 = ~(size_t)0; verif_wit_bin2 = ~(size_t)0; verif_wit_val2 = NULL; /* second witness unused here */
	verif_alloc_calls = 0; verif_alloc_never_fails = 0; verif_lock_depth = 0;
	void **bin0 = a->bin;

	int32_t rc = qb_array_grow(a, nd_newmax);

	POST(a->bin != NULL, "the bin table survives every outcome of grow");
	POST(a->max_elements >= nd_max, "grow never shrinks the array");
	POST(a->num_bins >= nd_nb, "the bin table never shrinks");
	POST(a->bin[nd_wit] == (void *)nd_val, "address stability: grow keeps every existing bin pointer");
	if (nd_newmax > 65536) {
		POST(rc == -EINVAL && a->max_elements == nd_max && a->bin == bin0, "size beyond 65536 refused, nothing changed");
	}
	if (rc == 0) {
		COVER(a->num_bins > nd_nb);
		COVER(a->num_bins == nd_nb && nd_newmax > nd_max);
		COVER(nd_newmax <= nd_max);
		POST(a->max_elements >= nd_newmax, "after a successful grow the requested size is indexable");
		if (nd_witnew >= nd_nb && nd_witnew < a->num_bins) {
			POST(a->bin[nd_witnew] == NULL, "new table slots are NULL (bins are allocated on first touch)");
		}
	} else {
		COVER(rc == -ENOMEM);
		COVER(rc == -EINVAL);
	}
	POST(verif_lock_depth == 0, "grow lock released on every exit");
}
