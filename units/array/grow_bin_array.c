/*UNIT
{"props": ["C19"], "src": ["lib/array.c"], "spec": ["array.spec"], "mode": "dfcc",
 "enforce": ["_grow_bin_array"], "loop_contracts": true, "kind": "proved",
 "functions": ["_grow_bin_array"], "stubs": ["realloc (fresh object, witness-word prefix preservation, may fail)"],
 "expect_classes": ["postcondition", "loop_invariant_step"], "timeout": 120,
 "cbmc_flags": ["--no-malloc-may-fail"]}
*/
/* _grow_bin_array: the table of bin pointers grows without losing any old slot
 * (witness slot) and with every new slot NULL (witness slot), for every old and new size. */
#include "os_base.h"
#include <qb/qbarray.h>
#include <qb/qbutil.h>
#include "verif.h"
#include "ghost.h"
#include "alloc.h"
#include "locks.h"
#include "array.c"

void harness(void)
{
	VERIF_ND(size_t, nd_nb);
	VERIF_ND(size_t, nd_new);
	VERIF_ND(size_t, nd_wit);
	VERIF_ND(size_t, nd_witnew);
	VERIF_ND(uintptr_t, nd_val);
	struct qb_array *a = malloc(sizeof(*a));
	ASSUME(a != NULL);
	ASSUME(nd_nb <= 4096 && nd_new <= 4097 && nd_new > nd_nb);
	a->num_bins = nd_nb;
	a->bin = NULL;
	if (nd_nb > 0) {
		a->bin = malloc(nd_nb * sizeof(void *));
		ASSUME(a->bin != NULL);
	}
	verif_wit_bin = nd_wit;
	verif_wit_new = nd_witnew;
	verif_realloc_wit = nd_wit;
	verif_realloc_wit2 = ~(size_t)0; verif_wit_bin2 = ~(size_t)0; verif_wit_val2 = NULL; /* second witness unused here */
	verif_wit_val = (void *)nd_val;
	if (nd_wit < nd_nb) {
		a->bin[nd_wit] = verif_wit_val;
	}
	void **bin0 = a->bin;
	verif_alloc_calls = 0; verif_alloc_never_fails = 0;
	int32_t rc = _grow_bin_array(a, nd_new);
	POST(rc == 0 || rc == -ENOMEM, "grow_bin_array returns 0 or -ENOMEM");
	if (rc == 0) {
		COVER(nd_nb == 0);
		COVER(nd_nb > 0 && nd_wit < nd_nb);
		POST(a->num_bins == nd_new, "table size updated");
		if (nd_wit < nd_nb) {
			POST(a->bin[nd_wit] == verif_wit_val, "old bin pointer preserved by table growth");
		}
		if (nd_witnew >= nd_nb && nd_witnew < nd_new) {
			POST(a->bin[nd_witnew] == NULL, "new table slot is NULL");
		}
	} else {
		COVER(1);
		POST(a->bin == bin0 && a->num_bins == nd_nb, "a failed table growth leaves the old table in place");
		if (nd_wit < nd_nb) {
			POST(a->bin[nd_wit] == verif_wit_val, "a failed table growth loses no bin pointer");
		}
	}
}
