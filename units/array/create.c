/*UNIT
{"props": ["C19"], "src": ["lib/array.c"], "spec": ["array.spec"], "mode": "dfcc",
 "enforce": ["qb_array_create_2"], "replace": ["_grow_bin_array"], "kind": "proved",
 "functions": ["qb_array_create_2"], "stubs": ["calloc", "qb_thread_lock_create (always succeeds)"],
 "expect_classes": ["postcondition"], "timeout": 300, "cbmc_flags": ["--no-malloc-may-fail"]}
*/
/* qb_array_create_2: argument validation; a created array satisfies the representation
 * invariant the other contracts assume, with every bin slot NULL (witness slot). */
#include "os_base.h"
#include <qb/qbarray.h>
#include <qb/qbutil.h>
#include "verif.h"
#include "ghost.h"
#include "alloc.h"
#include "locks.h"
#include "array.c"

void harness(void)
{
	VERIF_ND(size_t, nd_max);
	VERIF_ND(size_t, nd_es);
	VERIF_ND(size_t, nd_autogrow);
	VERIF_ND(size_t, nd_witnew);
	verif_wit_bin = 0; verif_wit_val = NULL;
	verif_wit_new = nd_witnew;
	verif_realloc_wit = 0;
	verif_realloc_wit2 = ~(size_t)0; verif_wit_bin2 = ~(size_t)0; verif_wit_val2 = NULL; /* second witness unused here */
	verif_alloc_calls = 0; verif_alloc_never_fails = 0; verif_lock_depth = 0;

	struct qb_array *a = qb_array_create_2(nd_max, nd_es, nd_autogrow);

	if (nd_max > 65536 || nd_es < 1 || nd_autogrow > 16) {
		POST(a == NULL, "invalid create arguments are refused");
		COVER(1);
	}
	if (a != NULL) {
		COVER(nd_max == 65536);
		COVER(nd_max == 0);
		POST(a->element_size == nd_es && a->max_elements == nd_max && a->autogrow_elements == nd_autogrow,
		     "created array records its parameters");
		POST(a->num_bins >= 1 && a->num_bins <= 4097 && a->bin != NULL, "created array satisfies the representation invariant");
		POST(a->num_bins * 16 >= nd_max || a->num_bins == 4096, "bin table covers the initial size");
		if (nd_witnew < a->num_bins) {
			POST(a->bin[nd_witnew] == NULL, "no bin is allocated before first touch");
		}
	}
}
