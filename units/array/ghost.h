/* ghost state shared by the array units and named in contracts/array.spec */
size_t verif_wit_bin, verif_wit_bin2, verif_wit_new;
void *verif_wit_val, *verif_wit_val2;
unsigned verif_cb_calls;
