/*UNIT
{"props": ["C10", "C08"], "src": ["lib/loop.c"], "spec": ["loop.spec"], "mode": "plain", "kind": "proved",
 "unwindset": ["qb_loop_create.0:4"],
 "functions": ["qb_loop_create"],
 "stubs": ["malloc (fresh block with arbitrary content, or NULL)",
           "qb_loop_timer_create / qb_loop_jobs_create / qb_loop_poll_create / qb_loop_signals_create (any pointer or NULL)"],
 "drops": ["qb_util_log/qb_util_perror diagnostics compiled out (stubs/nolog.h)"],
 "expect_classes": ["assertion"], "timeout": 120}
*/
/* qb_loop_create establishes the level state every other loop unit starts from (and which the bounded
 * qb_loop_run_level units take as their premise): for each of the three priority levels the per-iteration
 * budget to_process is at least 1 (a level with budget 0 would be "served" for ever without dispatching anything:
 * starvation, C10), the level knows its own priority (the value handed to every dispatch callback, C08), its
 * queues are empty, nothing is counted as pending and no stop is requested. The loop over the levels has
 * the compile-time trip count 3 and is unwound completely (unwinding assertion on). malloc's block has
 * arbitrary content, so every field the loop relies on must really be written. */
#include "core.h"

static int verif_levels_complete(struct qb_loop *l)
{
	int ok = 1;
	for (int32_t p = 0; p < 3; p++) {
		ok = ok && l->level[p].priority == p && l->level[p].to_process >= 1 && l->level[p].todo == 0 &&
			l->level[p].l == l && qb_list_empty(&l->level[p].job_head) && qb_list_empty(&l->level[p].wait_head);
	}
	return ok;
}

static int32_t verif_src_calls;
static int32_t verif_src_early;
static struct qb_loop_source verif_srcs[4];

static struct qb_loop_source *verif_source_create(struct qb_loop *l, int32_t which)
{
	VERIF_ND(uint8_t, nd_src_fails);
	verif_src_calls++;
	if (l == NULL || !verif_levels_complete(l)) {
		verif_src_early = 1;
	}
	if (nd_src_fails) {
		return NULL;
	}
	verif_srcs[which].l = l;
	return &verif_srcs[which];
}
static struct qb_loop_source *verif_timer_create(struct qb_loop *l) { return verif_source_create(l, 0); }
static struct qb_loop_source *verif_jobs_create(struct qb_loop *l) { return verif_source_create(l, 1); }
static struct qb_loop_source *verif_poll_create(struct qb_loop *l) { return verif_source_create(l, 2); }
static struct qb_loop_source *verif_signals_create(struct qb_loop *l) { return verif_source_create(l, 3); }
#define qb_loop_timer_create verif_timer_create
#define qb_loop_jobs_create verif_jobs_create
#define qb_loop_poll_create verif_poll_create
#define qb_loop_signals_create verif_signals_create

#include "loop.c"

void harness(void)
{
	struct qb_loop *l;
	VERIF_ND(uint8_t, nd_have_default);
	static struct qb_loop verif_other;

	verif_src_calls = 0; verif_src_early = 0;
	default_instance = nd_have_default ? &verif_other : NULL;

	l = qb_loop_create();

	COVER(l != NULL);
	COVER(l == NULL);
	COVER(l != NULL && nd_have_default);
	if (l == NULL) {
		return;
	}
	for (int32_t p = 0; p < 3; p++) {
		POST(l->level[p].to_process >= 1, "every priority level may dispatch at least one item per iteration it is served in");
		POST(l->level[p].priority == p, "each level knows its own priority (the value its callbacks are told)");
		POST(l->level[p].todo == 0, "a new loop has nothing pending");
		POST(l->level[p].l == l, "each level belongs to the loop it was created in");
		POST(qb_list_empty(&l->level[p].job_head) && qb_list_empty(&l->level[p].wait_head), "a new loop has empty queues");
	}
	POST(!l->stop_requested, "a new loop is not stopped");
	free(l);
}
