/*UNIT
{"props": ["C08"], "src": ["lib/loop.c", "lib/loop_poll.c"], "mode": "plain", "kind": "bounded",
 "bound": "one registration under modification, at most one other registration (any signal numbers 1..63), at most one delivery of the modified registration already queued; list walks unwound 5 times, the signal-number scan of _adjust_sigactions_ fully unwound (compile-time constant)",
 "functions": ["qb_loop_signal_mod", "qb_loop_signal_del (after a modification)", "_adjust_sigactions_", "qb_loop_level_item_del"],
 "unwindset": ["qb_loop_signal_del.0:5", "qb_loop_signal_del.1:5", "_adjust_sigactions_.0:5", "_adjust_sigactions_.1:70"],
 "stubs": ["sigemptyset/sigaddset/sigismember/sigaction/signal: ghost model of the process's signal dispositions (stubs/sigmodel.h)", "free (CBMC built-in: use after free and double free are checked)"],
 "drops": ["qb_util_log/qb_util_perror diagnostics compiled out (stubs/nolog.h)"],
 "expect_classes": ["assertion"], "timeout": 250, "cbmc_flags": ["--no-malloc-may-fail"],
 "variants": [{"vname": "change", "defines": ["-DV_OLD_P=QB_LOOP_MED", "-DV_NEW_P=QB_LOOP_MED"]},
              {"vname": "then_del_same_level", "defines": ["-DV_OLD_P=QB_LOOP_MED", "-DV_NEW_P=QB_LOOP_MED", "-DV_THEN_DEL"]},
              {"vname": "then_del_level_changed", "defines": ["-DV_OLD_P=QB_LOOP_LOW", "-DV_NEW_P=QB_LOOP_HIGH", "-DV_THEN_DEL", "-DV_LEVEL_CHANGED"]}]}
*/
/* qb_loop_signal_mod on a registration that may already have a delivery queued for dispatch, followed by
 * qb_loop_signal_del of the same registration:
 *  - a missing callback/handle or a priority outside LOW..HIGH is refused and changes nothing;
 *  - an accepted change rewrites the registration (signal number, priority, callback, data) in place: it stays
 *    registered exactly once; the delivery that was queued BEFORE the change keeps what it was queued with (the change
 *    applies to later deliveries only) and stays queued; handlers follow the registered signal numbers (new number
 *    installed, old number released unless another registration still uses it);
 *  - after the following delete returns success, no queued delivery refers to the deleted registration at ANY level
 *    (its callback is never invoked again, the freed registration is never reached), and everything else stays queued.
 * Variant change: the modification alone, any arguments (priority value unchanged when accepted).  Variants then_del_*:
 * callback and data change, the signal number stays (two signal-number scans in one run exhaust memory), then the
 * registration is deleted; same_level keeps the priority, level_changed moves it from LOW to HIGH, so that the queued
 * delivery sits at a level other than the registration's current one. */
#include "os_base.h"
#include <signal.h>
#include <qb/qbdefs.h>
#include <qb/qblist.h>
#include <qb/qbarray.h>
#include <qb/qbloop.h>
#include "loop_int.h"
#include "util_int.h"
#include "verif.h"
#include "nolog.h"
#include "sigmodel.h"
#include "loop.c"
#include "loop_poll.c"

static int32_t verif_new_cb(int32_t sig, void *data) { return 0; }
static int32_t verif_old_cb(int32_t sig, void *data) { return 0; }
static int v_old_tok, v_new_tok;

static int v_queued_at(struct qb_loop_level *lev, struct qb_list_head *node)
{
	struct qb_list_head *it_;
	int steps_ = 0, found_ = 0;
	for (it_ = lev->job_head.next; it_ != &lev->job_head && steps_ < 3; it_ = it_->next, steps_++) {
		if (it_ == node) { found_ = 1; }
	}
	return found_;
}

void harness(void)
{
	struct qb_loop *l = malloc(sizeof(*l));
	struct qb_signal_source *ss = malloc(sizeof(*ss));
	struct qb_loop_sig *reg = malloc(sizeof(*reg)), *other = malloc(sizeof(*other)), *clone = malloc(sizeof(*clone));
	struct qb_loop_item *bystander = malloc(sizeof(*bystander));
	VERIF_ND(int32_t, nd_old_sig);
	VERIF_ND(int32_t, nd_new_sig);
	VERIF_ND(int32_t, nd_other_sig);
	VERIF_ND(uint8_t, nd_have_other);
	VERIF_ND(uint8_t, nd_queued);
	VERIF_ND(uint8_t, nd_have_fn);
	VERIF_ND(uint8_t, nd_have_handle);
	VERIF_ND(int32_t, nd_p);
	ASSUME(l != NULL && ss != NULL && reg != NULL && other != NULL && clone != NULL && bystander != NULL);
	ASSUME(nd_old_sig >= 1 && nd_old_sig <= 63 && nd_new_sig >= 1 && nd_new_sig <= 63 && nd_other_sig >= 1 && nd_other_sig <= 63);
	for (int32_t p = 0; p < 3; p++) {
		l->level[p].priority = p; l->level[p].to_process = 4; l->level[p].todo = 0; l->level[p].l = l;
		qb_list_init(&l->level[p].job_head);
		qb_list_init(&l->level[p].wait_head);
	}
	l->stop_requested = QB_FALSE; l->signal_source = (struct qb_loop_source *)ss;
	l->timer_source = NULL; l->job_source = NULL; l->fd_source = NULL;
	ss->s.l = l; ss->s.poll = NULL; ss->s.dispatch_and_take_back = _signal_dispatch_and_take_back_;
	qb_list_init(&ss->sig_head);
	reg->signal = nd_old_sig; reg->p = V_OLD_P; reg->dispatch_fn = verif_old_cb; reg->cloned_from = NULL;
	reg->item.source = &ss->s; reg->item.type = QB_LOOP_SIG; reg->item.user_data = &v_old_tok;
	qb_list_init(&reg->item.list);
	*other = *reg; other->signal = nd_other_sig; qb_list_init(&other->item.list);
	if (nd_have_other) {
		qb_list_add_tail(&other->item.list, &ss->sig_head);
	}
	qb_list_add_tail(&reg->item.list, &ss->sig_head);
	/* handlers as qb_loop_signal_add leaves them */
	uint64_t regmask0 = VERIF_SIG_BIT(nd_old_sig) | (nd_have_other ? VERIF_SIG_BIT(nd_other_sig) : 0);
	uint64_t uncatchable = VERIF_SIG_BIT(SIGKILL) | VERIF_SIG_BIT(SIGSTOP) | VERIF_SIG_BIT(32) | VERIF_SIG_BIT(33);
	sigemptyset(&ss->signal_superset);
	ss->signal_superset.__val[0] = regmask0;
	verif_sig_installed = regmask0 & ~uncatchable; verif_sig_sigaction_on = 0;
	verif_sigaction_calls = 0; verif_signal_dfl_calls = 0;
	/* the level of the registration before the change: a bystander item and possibly one delivery of the registration */
	struct qb_loop_level *oldlev = &l->level[V_OLD_P];
	bystander->source = NULL; bystander->type = QB_LOOP_FD; bystander->user_data = NULL;
	qb_loop_level_item_add(oldlev, bystander);
	*clone = *reg; clone->cloned_from = reg;
	if (nd_queued) {
		qb_loop_level_item_add(oldlev, &clone->item);
	}
#ifdef V_THEN_DEL
	ASSUME(nd_p == V_NEW_P && nd_new_sig == nd_old_sig && nd_have_fn && nd_have_handle);
#endif
	int32_t todo0 = oldlev->todo;
	int valid = nd_have_fn && nd_have_handle && nd_p >= QB_LOOP_LOW && nd_p <= QB_LOOP_HIGH;
#ifndef V_THEN_DEL
	ASSUME(!valid || nd_p == V_NEW_P);
#endif

#ifdef V_THEN_DEL
	/* the arguments are fixed by the assumption above; passing them as constants keeps the level index concrete and the
	 * handler rescan of qb_loop_signal_mod out of this run (two rescans or a symbolic level index exhaust memory) */
	int32_t rc = qb_loop_signal_mod(l, V_NEW_P, nd_old_sig, &v_new_tok, verif_new_cb, reg);
#else
	int32_t rc = qb_loop_signal_mod(l, (enum qb_loop_priority)nd_p, nd_new_sig, &v_new_tok, nd_have_fn ? verif_new_cb : NULL, nd_have_handle ? reg : NULL);
#endif

	POST((rc == 0) == valid, "a signal modification is accepted exactly when it names a registration, a callback and a valid priority");
	POST(oldlev->todo == todo0 && !qb_list_empty(&bystander->list) && (!nd_queued || v_queued_at(oldlev, &clone->item.list)), "modifying a registration queues and unqueues nothing");
	POST(clone->dispatch_fn == verif_old_cb && clone->item.user_data == &v_old_tok && clone->signal == nd_old_sig && clone->cloned_from == reg,
	     "a delivery queued before the change keeps the callback and data it was queued with (the change applies to later deliveries only)");
	POST(ss->sig_head.prev == &reg->item.list && reg->item.list.next == &ss->sig_head && reg->item.list.prev == (nd_have_other ? &other->item.list : &ss->sig_head),
	     "a modified registration stays registered exactly once");
	if (rc != 0) {
#ifndef V_THEN_DEL
		COVER(!nd_have_fn);
		COVER(!nd_have_handle);
		COVER(nd_have_fn && nd_have_handle && nd_p > QB_LOOP_HIGH);
#endif
		POST(rc == -EINVAL, "an invalid modification is reported as an invalid argument");
		POST(reg->signal == nd_old_sig && reg->p == V_OLD_P && reg->dispatch_fn == verif_old_cb && reg->item.user_data == &v_old_tok, "a refused modification changes nothing");
		POST(verif_sig_installed == (regmask0 & ~uncatchable), "a refused modification changes no signal handler");
		return;
	}
	uint64_t regmask1 = VERIF_SIG_BIT(nd_new_sig) | (nd_have_other ? VERIF_SIG_BIT(nd_other_sig) : 0);
#ifdef V_THEN_DEL
	COVER(nd_queued && nd_have_other);
	COVER(!nd_queued);
#else
	COVER(nd_new_sig != nd_old_sig && nd_have_other && nd_other_sig == nd_old_sig && nd_queued);
	COVER(nd_new_sig != nd_old_sig && !nd_have_other && VERIF_SIG_CATCHABLE(nd_new_sig) && VERIF_SIG_CATCHABLE(nd_old_sig));
	COVER(nd_new_sig == nd_old_sig && nd_queued);
	COVER(nd_new_sig == SIGKILL);
#endif
	POST(reg->signal == nd_new_sig && reg->p == (enum qb_loop_priority)nd_p && reg->dispatch_fn == verif_new_cb && reg->item.user_data == &v_new_tok && reg->item.type == QB_LOOP_SIG,
	     "an accepted modification rewrites signal number, priority, callback and data of the registration");
	POST(verif_sig_installed == (regmask1 & ~uncatchable), "after a modification handlers are installed for exactly the registered signals");

#ifdef V_THEN_DEL
	/* the registration is deleted next (for instance by the callback that modified it) */
	int32_t rc2 = qb_loop_signal_del(l, reg);

	POST(rc2 == 0, "deleting a signal registration through its handle succeeds");
	POST(!v_queued_at(&l->level[0], &clone->item.list) && !v_queued_at(&l->level[1], &clone->item.list) && !v_queued_at(&l->level[2], &clone->item.list),
	     "after a successful delete no queued delivery refers to the deleted signal registration (its callback is never invoked again), whatever level it was queued at");
	POST(oldlev->todo == todo0 - (nd_queued ? 1 : 0) && oldlev->job_head.next == &bystander->list && bystander->list.next == &oldlev->job_head, "every other queued item stays queued and the removed delivery is counted out exactly once");
	POST(nd_have_other ? (ss->sig_head.next == &other->item.list && other->item.list.next == &ss->sig_head) : qb_list_empty(&ss->sig_head), "only the deleted registration leaves the source's list");
	POST(verif_sig_installed == ((nd_have_other ? VERIF_SIG_BIT(nd_other_sig) : 0) & ~uncatchable), "after a delete handlers remain for exactly the signals still registered");
#endif
}
