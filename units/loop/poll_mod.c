/*UNIT
{"props": ["C08"], "src": ["lib/loop.c", "lib/loop_poll.c", "lib/loop_poll_epoll.c"], "mode": "plain", "kind": "bounded",
 "bound": "at most 3 slots in the entries array (the scan for the descriptor is unwound 5 times with unwinding assertion); slot contents arbitrary",
 "functions": ["qb_loop_poll_mod", "_mod (epoll)"],
 "restrict_fp": ["_poll_add_.function_pointer_call.1/_add", "qb_loop_poll_mod.function_pointer_call.1/_mod"],
 "unwindset": ["_get_empty_array_position_.0:5", "_poll_entry_check_generate_.0:2", "qb_loop_poll_mod.0:5"],
 "defines": ["-DPL_COUNT_MAX=3"],
 "stubs": ["qb_array_index (C19 contract over the slot model)", "epoll_ctl (records the request; may fail with any errno)"],
 "drops": ["qb_util_log/qb_util_perror diagnostics compiled out (stubs/nolog.h)"],
 "expect_classes": ["assertion"], "timeout": 250, "cbmc_flags": ["--no-malloc-may-fail"],
 "variants": [{"vname": "clean", "defines": ["-DPL_COUNT_MAX=3", "-DV_CLEAN"]},
              {"vname": "after_failed_add", "defines": ["-DPL_COUNT_MAX=3", "-DV_LEFTOVER"]}]}
*/
/* qb_loop_poll_mod(fd, ...): the LIVE entry of the descriptor gets the new callback, data, priority and events,
 * and the kernel registration is updated with that entry's own (check, slot) pair when the events change;
 * a descriptor without live entry is refused (-EBADF) and nothing changes; no other registration is touched.
 * Variant after_failed_add: an EMPTY slot left behind by a failed qb_loop_poll_add (fd kept) sits before the
 * live entry of the same descriptor. */
#include "pl.h"

static int32_t v_fd;
static void verif_other_entry(int32_t idx)
{
	pl_draw_entry(&verif_PO, idx);
	ASSUME(idx > verif_Tidx || verif_PO.ufd.fd != v_fd);
#ifdef V_LEFTOVER
	ASSUME(verif_PO.ufd.fd != v_fd);
	ASSUME(idx > verif_Tidx || verif_PO.state != QB_POLL_ENTRY_EMPTY);
#endif
#ifdef V_CLEAN
	ASSUME(verif_PO.state != QB_POLL_ENTRY_EMPTY || (verif_PO.ufd.fd == -1 && verif_PO.check == 0));
#endif
}
static int32_t verif_new_cb(int32_t fd, int32_t revents, void *data) { return 0; }
static int v_token;

void harness(void)
{
	VERIF_ND(int32_t, nd_fd);
	VERIF_ND(int32_t, nd_events);
	VERIF_ND(int32_t, nd_p);
	VERIF_ND(int32_t, nd_tidx);
	VERIF_ND(int32_t, nd_widx);
	verif_alloc_calls = 0; verif_alloc_never_fails = 0;
	pl_build();
	int32_t count = pl_s->poll_entry_count;
	v_fd = nd_fd;
	ASSUME(nd_tidx >= 0 && nd_tidx <= count && nd_widx >= 0 && nd_widx != nd_tidx && nd_p >= 0 && nd_p <= 2);
	ASSUME(nd_events >= 0 && nd_events <= 0x7fff);
	verif_Tidx = nd_tidx; verif_Widx = nd_widx;
	pl_draw_entry(&verif_PT, nd_tidx);
	pl_draw_entry(&verif_PW, nd_widx);
	if (nd_tidx < count) {
		ASSUME(verif_PT.ufd.fd == nd_fd);   /* T: the first slot the scan matches */
	}
	ASSUME(nd_widx > nd_tidx || verif_PW.ufd.fd != nd_fd);
	int t_live = nd_tidx < count && (verif_PT.state == QB_POLL_ENTRY_ACTIVE || verif_PT.state == QB_POLL_ENTRY_JOBLIST);
	int w_live_same_fd = nd_widx < count && (verif_PW.state == QB_POLL_ENTRY_ACTIVE || verif_PW.state == QB_POLL_ENTRY_JOBLIST) && verif_PW.ufd.fd == nd_fd;
#ifdef V_CLEAN
	ASSUME(verif_PT.state != QB_POLL_ENTRY_EMPTY || (verif_PT.ufd.fd == -1 && verif_PT.check == 0));
	ASSUME(verif_PW.state != QB_POLL_ENTRY_EMPTY || (verif_PW.ufd.fd == -1 && verif_PW.check == 0));
	ASSUME(!(t_live && w_live_same_fd));
#endif
#ifdef V_LEFTOVER
	/* T: the first EMPTY slot (clean), W: the live entry of fd behind it.  A second qb_loop_poll_add of the same
	 * descriptor is refused by the kernel (EEXIST) -- performed here with the real code */
	ASSUME(nd_tidx < count && verif_PT.state == QB_POLL_ENTRY_EMPTY && nd_fd >= 0 && w_live_same_fd && nd_widx > nd_tidx);
	ASSUME(verif_PW.state != QB_POLL_ENTRY_JOBLIST);
	verif_PT.ufd.fd = -1; verif_PT.check = 0; verif_PT.item.type = QB_LOOP_FD;
	{
		int32_t rc_add = qb_loop_poll_add(pl_l, QB_LOOP_MED, nd_fd, POLLIN, NULL, NULL);
		ASSUME(rc_add != 0);
		verif_epctl_calls = 0;
	}
#endif
	struct qb_poll_entry t0 = verif_PT, w0 = verif_PW;

	int32_t rc = qb_loop_poll_mod(pl_l, nd_p, nd_fd, nd_events, &v_token, verif_new_cb);

#ifdef V_CLEAN
	if (t_live) {
		COVER((short)nd_events != t0.ufd.events && rc == 0);
		COVER((short)nd_events == t0.ufd.events);
		COVER(rc != 0);
		POST(verif_PT.poll_dispatch_fn == verif_new_cb && verif_PT.item.user_data == &v_token && verif_PT.p == (enum qb_loop_priority)nd_p
		     && verif_PT.ufd.events == (short)nd_events, "the live entry of the descriptor gets the new callback, data, priority and events");
		POST(verif_PT.state == t0.state && verif_PT.check == t0.check && verif_PT.ufd.fd == nd_fd, "modifying keeps the entry's identity and state");
		if ((short)nd_events != t0.ufd.events) {
			POST(verif_epctl_calls == 1 && verif_epctl_last_op == EPOLL_CTL_MOD && verif_epctl_last_fd == nd_fd
			     && verif_epctl_last_data == ((((uint64_t)t0.check) << 32) | (uint32_t)nd_tidx), "the kernel registration keeps naming this entry (check word and slot)");
		} else {
			POST(verif_epctl_calls == 0 && rc == 0, "unchanged events need no kernel request");
		}
	} else {
		COVER(nd_tidx == count);
		COVER(nd_tidx < count && t0.state == QB_POLL_ENTRY_DELETED);
		POST(rc == -EBADF, "modifying a descriptor without live entry is refused");
		POST(verif_epctl_calls == 0 && verif_PT.poll_dispatch_fn == t0.poll_dispatch_fn && verif_PT.state == t0.state, "a refused modify changes nothing");
	}
	POST(verif_PW.state == w0.state && verif_PW.check == w0.check && verif_PW.ufd.fd == w0.ufd.fd && verif_PW.ufd.events == w0.ufd.events
	     && verif_PW.poll_dispatch_fn == w0.poll_dispatch_fn && verif_PW.item.user_data == w0.item.user_data, "modifying one descriptor does not touch any other registration");
#endif
#ifdef V_LEFTOVER
	COVER(rc == 0);
	POST(rc != 0 || (verif_PW.poll_dispatch_fn == verif_new_cb && verif_PW.item.user_data == &v_token),
	     "a successful modify reaches the live entry of the descriptor");
	POST(verif_epctl_calls == 0 || verif_epctl_last_data == ((((uint64_t)w0.check) << 32) | (uint32_t)nd_widx),
	     "the kernel registration keeps naming the live entry (check word and slot)");
#endif
}
