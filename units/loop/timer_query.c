/*UNIT
{"props": ["C08", "C09"], "src": ["lib/loop.c", "lib/loop_timerlist.c"], "mode": "plain", "kind": "proved",
 "bound": "none for the slot state machine (the functions are loop-free); the surrounding timer heap holds at most 3 timers",
 "functions": ["qb_loop_timer_expire_time_get", "qb_loop_timer_is_running", "qb_loop_timer_expire_time_remaining", "_timer_from_handle_", "timerlist_expire_time"],
 "stubs": ["qb_array_index (C19 contract over the slot model)", "clock (ghost value)", "pthread_mutex_* (sequential no-ops)"],
 "drops": ["qb_util_log/qb_util_perror diagnostics compiled out (stubs/nolog.h)"],
 "unwindset": ["timerlist_heap_sift_up.0:3", "timerlist_heap_sift_down.0:3"],
 "defines": ["-DTL_NMAX=3"],
 "expect_classes": ["assertion"], "timeout": 200, "cbmc_flags": ["--no-malloc-may-fail"]}
*/
/* The three query functions on a handle naming slot T (any index) for every slot content and every 32-bit check word
 * in the handle:
 *   pending  (ACTIVE, handle current)         expiry time of its own heap entry, running, remaining = max(0, expiry - now);
 *   queued   (JOBLIST: expired, not yet run)  0 / not running / 0;
 *   fired or deleted (EMPTY, with or without a left-over check word)   0 / not running / 0;
 *   stale    (check word differs: slot reused, or handle 0, or index outside the array)   0 / not running / 0;
 * and none of them changes anything: not slot T, not any other slot, not the heap, not the level queues
 * (a query never runs a callback and never touches another timer). */
#include "ts.h"

static struct qb_loop_timer o0;
static int v_other_drawn;
static void verif_other_slot_havoc(int32_t idx)
{
	VERIF_ND(int32_t, nd_o_state);
	VERIF_ND(int32_t, nd_o_check);
	ASSUME(nd_o_state >= 0 && nd_o_state <= 3);
	VO->state = nd_o_state; VO->check = nd_o_check; VO->timerlist_handle = NULL;
	o0 = *VO;
	v_other_drawn++;
}

void harness(void)
{
	VERIF_ND(uint64_t, nd_handle);
	VERIF_ND(int32_t, nd_t_state);
	VERIF_ND(int32_t, nd_t_check);
	VERIF_ND(size_t, nd_n);
	VERIF_ND(size_t, nd_pos);
	VERIF_ND(uint64_t, nd_now);
	ASSUME(nd_n <= TL_NMAX);
	verif_alloc_calls = 0; verif_alloc_never_fails = 0; verif_mutex_depth = 0; v_other_drawn = 0;
	tl_fn = make_job_from_tmo;
	verif_Tidx = (int32_t)(nd_handle & UINT32_MAX);
	ts_build(nd_n);
	ASSUME(nd_t_state >= 0 && nd_t_state <= 3);
	VT->state = nd_t_state; VT->check = nd_t_check; VT->timerlist_handle = NULL; VT->p = QB_LOOP_MED;
	VT->install_pos = (uint32_t)verif_Tidx; VT->item.source = (struct qb_loop_source *)ts_src; VT->item.type = QB_LOOP_TIMER;
	VT->dispatch_fn = NULL; VT->item.user_data = NULL;
	qb_list_init(&VT->item.list);
	struct timerlist_timer *ht = NULL;
	if (nd_t_state == QB_POLL_ENTRY_ACTIVE) {
		/* a pending timer owns exactly one heap entry (established by qb_loop_timer_add, unit loop.timer_add.added) */
		ASSUME(nd_n >= 1 && nd_pos < nd_n);
		ht = tl_t[nd_pos];
		ht->data = VT; ht->handle_addr = &VT->timerlist_handle;
		VT->timerlist_handle = ht;
		ASSUME(ht->expire_time > 0);   /* the monotonic clock never reads 0 when a timer is added */
	}
	if (nd_t_state == QB_POLL_ENTRY_JOBLIST) {
		qb_loop_level_item_add(&ts_l->level[QB_LOOP_MED], &VT->item);
	}
	verif_now_mono = nd_now; verif_now_epoch = 0; verif_hz = 1000;
	struct qb_loop_timer t0 = *VT;
	int32_t todo0 = ts_l->level[QB_LOOP_MED].todo;
	struct timerlist_timer *e0 = nd_n > 0 ? ts_src->timerlist.heap_entries[0] : NULL;
	uint64_t e0_expire = e0 ? e0->expire_time : 0;
	int32_t check = (int32_t)(nd_handle >> 32);
	int in_range = verif_Tidx >= 0 && (size_t)verif_Tidx < verif_arr_max;
	int current = nd_handle != 0 && in_range && check == nd_t_check;

	uint64_t exp = qb_loop_timer_expire_time_get(ts_l, nd_handle);
	int32_t running = qb_loop_timer_is_running(ts_l, nd_handle);
	uint64_t remaining = qb_loop_timer_expire_time_remaining(ts_l, nd_handle);

	if (current && nd_t_state == QB_POLL_ENTRY_ACTIVE) {
		COVER(nd_n == 3 && nd_pos == 2);
		COVER(ht->expire_time < nd_now);
		COVER(ht->expire_time > nd_now);
		POST(exp == ht->expire_time, "a pending timer reports the expiry time of its own heap entry");
		POST(running == 1, "a pending timer is reported as running");
		POST(remaining == (ht->expire_time > nd_now ? ht->expire_time - nd_now : 0), "the remaining time of a pending timer is its expiry minus now, never negative");
	} else {
		COVER(current && nd_t_state == QB_POLL_ENTRY_JOBLIST);
		COVER(current && nd_t_state == QB_POLL_ENTRY_EMPTY && nd_t_check > 0);
		COVER(current && nd_t_state == QB_POLL_ENTRY_EMPTY && nd_t_check == 0);
		COVER(!current && in_range && nd_t_state == QB_POLL_ENTRY_ACTIVE && nd_handle != 0);
		COVER(!in_range);
		COVER(nd_handle == 0);
		POST(exp == 0 && running == 0 && remaining == 0, "a timer that is queued, has fired, was deleted, or whose handle is stale is reported as not running");
	}
	POST(VT->state == t0.state && VT->check == t0.check && VT->timerlist_handle == t0.timerlist_handle && VT->item.list.next == t0.item.list.next, "a query does not change the timer it asks about");
	POST(!v_other_drawn || (VO->state == o0.state && VO->check == o0.check && VO->timerlist_handle == o0.timerlist_handle), "a query never touches another timer");
	POST(ts_src->timerlist.size == nd_n && (nd_n == 0 || (ts_src->timerlist.heap_entries[0] == e0 && e0->expire_time == e0_expire)) && tl_pos_ok(&ts_src->timerlist),
	     "a query leaves the pending timers alone");
	POST(ts_l->level[QB_LOOP_MED].todo == todo0 && ts_l->level[0].todo == 0 && ts_l->level[2].todo == 0, "a query queues and unqueues nothing");
}
