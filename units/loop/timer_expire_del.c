/*UNIT
{"props": ["C08"], "src": ["lib/loop.c", "lib/loop_timerlist.c", "include/tlist.h"], "mode": "plain", "kind": "bounded",
 "bound": "at most 2 pending timers (the registration under test and one other, any expiry times, any clock value); loops unwound with unwinding assertions",
 "functions": ["expire_the_timers", "timerlist_expire", "timerlist_pre_dispatch", "timerlist_post_dispatch", "make_job_from_tmo", "qb_loop_timer_del", "qb_loop_level_item_del"],
 "restrict_fp": ["timerlist_expire.function_pointer_call.1/make_job_from_tmo"],
 "unwindset": ["timerlist_expire.0:4", "timerlist_heap_sift_up.0:3", "timerlist_heap_sift_down.0:3"],
 "defines": ["-DTL_NMAX=2"],
 "stubs": ["qb_array_index (C19 contract over the slot model)", "clock (ghost value)", "pthread_mutex_* (sequential no-ops)", "free (CBMC built-in: double free and use after free are checked)"],
 "drops": ["qb_util_log/qb_util_perror diagnostics compiled out (stubs/nolog.h)"],
 "expect_classes": ["assertion"], "timeout": 250, "cbmc_flags": ["--no-malloc-may-fail"],
 "variants": [{"vname": "alone", "defines": ["-DTL_NMAX=2", "-DV_N=1", "-DV_POS=0"]}, {"vname": "first_of_two", "defines": ["-DTL_NMAX=2", "-DV_N=2", "-DV_POS=0"]},
              {"vname": "second_of_two", "defines": ["-DTL_NMAX=2", "-DV_N=2", "-DV_POS=1"]}]}
*/
/* A timer that has expired and been queued for dispatch (by the real expire_the_timers pass) but not yet dispatched is
 * deleted -- as another callback would do -- through its handle: the delete succeeds, the queued item is unlinked and
 * counted out once (its callback never runs), the slot becomes free, and the heap entry, which the expiry pass already
 * removed and freed, is not touched again (no second heap delete, no double free, no use after free: memory-safety
 * obligations); the other pending timer is unaffected.  If the timer was not yet due it stays pending and the delete
 * removes its heap entry instead. */
#include "ts.h"

static void verif_other_slot_havoc(int32_t idx)
{
	VERIF_ND(int32_t, nd_o_state);
	ASSUME(nd_o_state >= 0 && nd_o_state <= 3);
	VO->state = nd_o_state;
}
static int v_cb_calls;
static void verif_timer_cb(void *data) { v_cb_calls++; }

void harness(void)
{
	VERIF_ND(int32_t, nd_tidx);
	VERIF_ND(int32_t, nd_check);
	size_t nd_n = V_N, nd_pos = V_POS;   /* case split: heap size and position are constants per variant (symbolic ones exhaust memory) */
	VERIF_ND(uint64_t, nd_now);
	ASSUME(nd_n >= 1 && nd_n <= TL_NMAX && nd_pos < nd_n && nd_check > 0);
	verif_alloc_calls = 0; verif_alloc_never_fails = 0; verif_mutex_depth = 0; v_cb_calls = 0;
	tl_fn = make_job_from_tmo;
	verif_Tidx = nd_tidx;
	ts_build(nd_n);
	ASSUME(nd_tidx >= 0 && (size_t)nd_tidx < ts_src->timer_entry_count);
	qb_loop_timer_handle h = (((uint64_t)(uint32_t)nd_check) << 32) | (uint32_t)nd_tidx;
	struct qb_loop_level *lev = &ts_l->level[QB_LOOP_MED];
	/* slot T: a pending (ACTIVE) timer whose heap entry is the one at position nd_pos */
	struct timerlist_timer *ht = tl_t[nd_pos];
	VT->state = QB_POLL_ENTRY_ACTIVE; VT->check = nd_check; VT->install_pos = (uint32_t)nd_tidx; VT->dispatch_fn = verif_timer_cb;
	VT->item.source = (struct qb_loop_source *)ts_src; VT->item.user_data = NULL; VT->item.type = QB_LOOP_TIMER;
	qb_list_init(&VT->item.list);
	ht->data = VT; ht->handle_addr = &VT->timerlist_handle;
	VT->timerlist_handle = ht;
	/* the other timer (if any) belongs to another registration that is never due in this pass */
	struct timerlist_timer *other = nd_n == 2 ? tl_t[1 - nd_pos] : NULL;
	verif_now_mono = nd_now; verif_now_epoch = 0; verif_hz = 1000;
	if (other != NULL) {
		ASSUME(other->expire_time >= nd_now);
		other->data = VO;
	}
	int due = ht->expire_time < nd_now;
	int not_yet = ht->expire_time > nd_now;

	int32_t fired = expire_the_timers(&ts_src->s, 0);

#if V_POS == 0
	COVER(due);
#endif
	COVER(not_yet);
	if (due) {
		POST(fired == 1 && VT->state == QB_POLL_ENTRY_JOBLIST && lev->todo == 1 && lev->job_head.next == &VT->item.list, "an expired timer is queued for dispatch exactly once");
		POST(ts_src->timerlist.size == nd_n - 1, "an expired timer leaves the heap");
	}
	if (not_yet) {
		POST(fired == 0 && VT->state == QB_POLL_ENTRY_ACTIVE && lev->todo == 0 && ts_src->timerlist.size == nd_n, "a timer that is not due stays pending");
	}
	size_t size1 = ts_src->timerlist.size;
	int queued = VT->state == QB_POLL_ENTRY_JOBLIST;

	int32_t rc = qb_loop_timer_del(ts_l, h);

	POST(rc == 0, "deleting a timer through its valid handle succeeds, whether it is pending or already queued");
	POST(VT->state == QB_POLL_ENTRY_EMPTY, "a deleted timer's slot is free");
	POST(qb_list_empty(&VT->item.list) && qb_list_empty(&lev->job_head) && lev->todo == 0, "a deleted timer that was already queued is unlinked and counted out once, so its callback is never invoked");
	POST(ts_src->timerlist.size == (queued ? size1 : size1 - 1), "the heap entry of a queued timer is already gone and is not removed a second time; a pending timer's entry is removed");
	POST(other == NULL || (tl_count(&ts_src->timerlist, other) == 1 && ts_src->timerlist.heap_entries[0] == other), "the other pending timer is unaffected");
	POST(v_cb_calls == 0, "delete does not run the callback");
}
