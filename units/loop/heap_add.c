/*UNIT
{"props": ["C09"], "src": ["include/tlist.h"], "mode": "plain", "kind": "bounded",
 "bound": "heaps of at most 7 pending timers before the add, symbolic 64-bit expiry times; sift-up loop unwound 4 times with unwinding assertion",
 "functions": ["timerlist_add", "timerlist_heap_sift_up", "timerlist_entry_cmp", "timerlist_heap_entry_set"],
 "unwindset": ["timerlist_heap_sift_up.0:4"],
 "stubs": ["realloc (may fail with ENOMEM; otherwise fresh block with the old content)", "pthread_mutex_* (sequential no-ops)"],
 "expect_classes": ["assertion"], "timeout": 280, "cbmc_flags": ["--no-malloc-may-fail"],
 "variants": [{"vname": "room", "defines": ["-DV_ALLOC=8"]}, {"vname": "grow0", "defines": ["-DV_ALLOC=0", "-DV_FULL"]},
              {"vname": "grow2", "defines": ["-DV_ALLOC=2", "-DV_FULL"]}, {"vname": "grow6", "defines": ["-DV_ALLOC=6", "-DV_FULL"]}]}
*/
/* timerlist_add of a timer with ANY expiry into ANY valid heap (full or with spare room): on success the
 * new timer and every old one are pending exactly once, know their positions, and the earliest expiry
 * (true unsigned 64-bit order) is at the head; when the heap cannot grow nothing changes. */
#include "tl.h"

void harness(void)
{
	struct timerlist tl;
	VERIF_ND(size_t, nd_n);
	size_t nd_alloc = V_ALLOC;   /* case split: array sizes are compile-time constants (0, 2, 6 are the sizes the growth rule produces) */
	VERIF_ND(size_t, nd_wit);
	VERIF_ND(uint64_t, nd_new_expire);
#ifdef V_FULL
	ASSUME(nd_n == V_ALLOC);
#endif
	ASSUME(nd_n <= TL_NMAX && nd_alloc >= nd_n && nd_alloc <= TL_SLOTS && nd_wit < TL_SLOTS);
	verif_alloc_calls = 0; verif_alloc_never_fails = 0; verif_mutex_depth = 0;
	tl_fn = NULL;
	tl_build(&tl, nd_n, nd_alloc);
	struct timerlist_timer *nt = malloc(sizeof(*nt));
	ASSUME(nt != NULL);
	nt->expire_time = nd_new_expire; nt->is_absolute_timer = QB_FALSE; nt->timer_fn = NULL; nt->data = NULL;
	nt->handle_addr = NULL; nt->heap_pos = ~(size_t)0;
	struct timerlist_timer *wit = nd_wit < nd_n ? tl_t[nd_wit] : NULL;
	struct timerlist_timer *head0 = nd_n > 0 ? tl.heap_entries[0] : NULL;
	struct timerlist_timer **arr0 = tl.heap_entries;

	int32_t rc = timerlist_add(&tl, nt);

	POST(verif_mutex_depth == 0, "the list lock is released on every exit");
	if (rc == 0) {
#ifdef V_FULL
		COVER(tl.allocated == (V_ALLOC + 1) * 2);
#else
		COVER(nd_n == 7 && tl.heap_entries[0] == nt);
		COVER(nd_n == 0);
#endif
		POST(tl.size == nd_n + 1 && tl.allocated >= tl.size, "adding a timer adds exactly one heap entry");
		POST(tl_count(&tl, nt) == 1, "the added timer is pending exactly once");
		if (wit != NULL) {
			POST(tl_count(&tl, wit) == 1, "every other pending timer stays in the heap exactly once");
		}
		POST(tl_pos_ok(&tl), "every pending timer knows its heap position (needed to delete it later)");
		POST(tl_heap_ok(&tl), "after an add the earliest expiry is at the head of the heap (timers are dispatched in expiry order)");
	} else {
#ifdef V_FULL
		COVER(rc == -ENOMEM);
#endif
		POST(nd_alloc == nd_n, "an add fails only when the heap must grow and cannot");
		POST(tl.size == nd_n && tl.heap_entries == arr0 && tl.allocated == nd_alloc, "a failed add leaves the heap as it was");
		if (nd_n > 0) {
			POST(tl.heap_entries[0] == head0, "a failed add leaves the heap as it was");
		}
	}
}
