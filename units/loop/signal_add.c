/*UNIT
{"props": ["C08"], "src": ["lib/loop.c", "lib/loop_poll.c"], "mode": "plain", "kind": "bounded",
 "bound": "at most 2 earlier signal registrations (at most 1 in variant rtmax; any signal numbers 1..64, any consistent handler state); the new registration's arguments are arbitrary; list walks unwound 5 times, the signal-number scan of _adjust_sigactions_ fully unwound (compile-time constant)",
 "functions": ["qb_loop_signal_add", "_adjust_sigactions_"],
 "unwindset": ["_adjust_sigactions_.0:5", "_adjust_sigactions_.1:70"],
 "stubs": ["sigemptyset/sigaddset/sigismember/sigaction/signal: ghost model of the process's signal dispositions (stubs/sigmodel.h: numbers 1..64, all catchable except SIGKILL, SIGSTOP, 32, 33)", "calloc (fresh zeroed or NULL with errno ENOMEM)"],
 "drops": ["qb_util_log/qb_util_perror diagnostics compiled out (stubs/nolog.h)"],
 "expect_classes": ["assertion"], "timeout": 250, "cbmc_flags": ["--no-malloc-may-fail"],
 "variants": [{"vname": "upto63_few", "defines": ["-DV_CLASS=(nd_the_sig!=64&&nd_nregs<=1)", "-DV_FEW"]},
              {"vname": "upto63_two", "defines": ["-DV_CLASS=(nd_the_sig!=64&&nd_nregs==2)", "-DV_TWO"]},
              {"vname": "rtmax", "defines": ["-DV_CLASS=(nd_the_sig==64)", "-DV_RTMAX"]}]}
*/
/* qb_loop_signal_add for every argument combination on a source that already holds 0..2 registrations
 * (variant rtmax: signal number 64 = SIGRTMAX, split off because the signal-number scan stops short of it;
 *  variants upto63_few / upto63_two: every other int32 value, with at most one / with two earlier registrations):
 *  accepted   the registration is stored exactly once, at the end of the source's list, with the signal number,
 *             priority, callback and data given; the handle returned is that registration; a process-level handler
 *             is installed for the signal (that is what makes "the callback runs once per delivered signal" possible),
 *             the handlers of the earlier registrations stay installed, no handler is installed for a signal nobody
 *             registered; nothing is queued for dispatch;
 *  refused    a missing loop/callback, a priority outside LOW..HIGH or a failed allocation is reported as an error
 *             and changes nothing (list, handlers, queues). */
#include "os_base.h"
#include <signal.h>
#include <qb/qbdefs.h>
#include <qb/qblist.h>
#include <qb/qbarray.h>
#include <qb/qbloop.h>
#include "loop_int.h"
#include "util_int.h"
#include "verif.h"
#include "nolog.h"
#include "sigmodel.h"
#include "alloc.h"
#include "loop.c"
#include "loop_poll.c"

static int32_t verif_sig_cb(int32_t sig, void *data) { return 0; }
static int32_t verif_old_cb(int32_t sig, void *data) { return 0; }
static int v_tok;

void harness(void)
{
	struct qb_loop *l = malloc(sizeof(*l));
	struct qb_signal_source *ss = malloc(sizeof(*ss));
	struct qb_loop_sig *r0 = malloc(sizeof(*r0)), *r1 = malloc(sizeof(*r1));
	struct qb_loop_sig *regs[2] = {r0, r1};
	VERIF_ND(int32_t, nd_nregs);
	VERIF_ND(int32_t, nd_sig0);
	VERIF_ND(int32_t, nd_sig1);
	VERIF_ND(uint64_t, nd_superset);
	VERIF_ND(uint64_t, nd_installed);
	VERIF_ND(int32_t, nd_the_sig);
	VERIF_ND(int32_t, nd_p);
	VERIF_ND(uint8_t, nd_have_fn);
	VERIF_ND(uint8_t, nd_have_loop);
	VERIF_ND(uint8_t, nd_want_handle);
	int32_t sigs[2] = {nd_sig0, nd_sig1};
	ASSUME(l != NULL && ss != NULL && r0 != NULL && r1 != NULL);
	ASSUME(nd_nregs >= 0 && nd_nregs <= 2 && VERIF_SIG_VALID(nd_sig0) && VERIF_SIG_VALID(nd_sig1));
	for (int32_t p = 0; p < 3; p++) {
		l->level[p].priority = p; l->level[p].to_process = 4; l->level[p].todo = 0; l->level[p].l = l;
		qb_list_init(&l->level[p].job_head);
		qb_list_init(&l->level[p].wait_head);
	}
	l->stop_requested = QB_FALSE; l->signal_source = (struct qb_loop_source *)ss;
	l->timer_source = NULL; l->job_source = NULL; l->fd_source = NULL;
	ss->s.l = l; ss->s.poll = NULL; ss->s.dispatch_and_take_back = _signal_dispatch_and_take_back_;
	qb_list_init(&ss->sig_head);
	uint64_t regmask0 = 0;
	for (int i = 0; i < 2; i++) {
		regs[i]->signal = sigs[i]; regs[i]->p = QB_LOOP_MED; regs[i]->dispatch_fn = verif_old_cb; regs[i]->cloned_from = NULL;
		regs[i]->item.source = &ss->s; regs[i]->item.type = QB_LOOP_SIG; regs[i]->item.user_data = NULL;
		qb_list_init(&regs[i]->item.list);
		if (i < nd_nregs) {
			qb_list_add_tail(&regs[i]->item.list, &ss->sig_head);
			regmask0 |= VERIF_SIG_BIT(sigs[i]);
		}
	}
	/* consistent handler state: handlers and the source's signal set only for registered signals; what the set
	 * names (and can be caught) has its handler installed */
	ASSUME((nd_superset & ~regmask0) == 0 && (nd_installed & ~regmask0) == 0);
	ASSUME(((nd_superset & ~nd_installed) & ~(VERIF_SIG_BIT(SIGKILL) | VERIF_SIG_BIT(SIGSTOP) | VERIF_SIG_BIT(32) | VERIF_SIG_BIT(33))) == 0);
	sigemptyset(&ss->signal_superset);
	ss->signal_superset.__val[0] = nd_superset;
	verif_sig_installed = nd_installed; verif_sig_sigaction_on = 0;
	verif_sigaction_calls = 0; verif_signal_dfl_calls = 0;
	verif_alloc_calls = 0; verif_alloc_never_fails = 0;
	ASSUME(V_CLASS);
#ifdef V_RTMAX
	ASSUME(nd_nregs <= 1);   /* keeps the split-off case cheap */
#endif
	struct qb_list_head *last0 = ss->sig_head.prev;
	qb_loop_signal_handle handle = &v_tok;   /* sentinel */
	int valid = nd_have_loop && nd_have_fn && nd_p >= QB_LOOP_LOW && nd_p <= QB_LOOP_HIGH;

	int32_t rc = qb_loop_signal_add(nd_have_loop ? l : NULL, (enum qb_loop_priority)nd_p, nd_the_sig, &v_tok,
					nd_have_fn ? verif_sig_cb : NULL, nd_want_handle ? &handle : NULL);

	if (rc != 0) {
	COVER(rc == -ENOMEM);
	COVER(rc == -EINVAL && !nd_have_fn);
	COVER(rc == -EINVAL && nd_p > QB_LOOP_HIGH);
	COVER(rc == -EINVAL && nd_p < QB_LOOP_LOW);

	COVER(rc == -EINVAL && !nd_have_loop);
	POST(!valid || rc == -ENOMEM, "a valid signal registration is refused only for lack of memory");
	POST(ss->sig_head.prev == last0 && last0->next == &ss->sig_head, "a refused signal registration is not stored");
	POST(verif_sig_installed == nd_installed && ss->signal_superset.__val[0] == nd_superset, "a refused signal registration changes no signal handler");
	} else {
	struct qb_loop_sig *n = (struct qb_loop_sig *)qb_list_entry(ss->sig_head.prev, struct qb_loop_item, list);
	int catchable = VERIF_SIG_CATCHABLE(nd_the_sig);
#ifdef V_RTMAX
	COVER(nd_nregs == 0);
	COVER(nd_nregs == 1 && nd_sig0 == 64);
#else
#ifdef V_TWO
	COVER(nd_the_sig == nd_sig0 && nd_sig1 != nd_sig0 && (nd_superset & VERIF_SIG_BIT(nd_sig0)));
	COVER(catchable && nd_the_sig != nd_sig0 && nd_the_sig != nd_sig1);
#else
	COVER(nd_nregs == 1 && nd_the_sig == nd_sig0 && (nd_superset & VERIF_SIG_BIT(nd_sig0)));
	COVER(nd_nregs == 0 && nd_the_sig == 63);
	COVER(nd_nregs == 0 && !nd_want_handle && nd_p == QB_LOOP_HIGH);
#endif
	COVER(!catchable && nd_the_sig > 64);
	COVER(nd_the_sig == SIGKILL);
#endif
	POST(valid, "only a signal registration with a loop, a callback and a valid priority is accepted");
	POST(verif_alloc_calls == 1 && &n->item.list != last0 && n->item.list.prev == last0 && n->item.list.next == &ss->sig_head,
	     "an accepted signal registration is stored exactly once, after the earlier registrations");
	POST(n->signal == nd_the_sig && n->p == (enum qb_loop_priority)nd_p && n->dispatch_fn == verif_sig_cb && n->item.user_data == &v_tok
	     && n->item.source == &ss->s && n->item.type == QB_LOOP_SIG, "the registration holds the signal number, priority, callback and data given");
	POST(!nd_want_handle || handle == (qb_loop_signal_handle)n, "the handle returned identifies the new registration");
	POST(nd_nregs < 1 || (ss->sig_head.next == &r0->item.list && r0->signal == nd_sig0 && r0->dispatch_fn == verif_old_cb), "earlier registrations stay registered, in order");
	POST(nd_nregs < 2 || (r0->item.list.next == &r1->item.list && r1->signal == nd_sig1 && r1->dispatch_fn == verif_old_cb), "earlier registrations stay registered, in order");
	POST(!catchable || (verif_sig_installed & VERIF_SIG_BIT(nd_the_sig)) != 0,
	     "a handler is installed for the signal of an accepted registration (so that a delivered signal reaches the loop and its callback runs)");
	POST((nd_installed & ~verif_sig_installed) == 0, "the handlers of the earlier registrations stay installed");
	uint64_t regmask1 = regmask0 | (VERIF_SIG_VALID(nd_the_sig) ? VERIF_SIG_BIT(nd_the_sig) : 0);
	POST((verif_sig_installed & ~regmask1) == 0 && (verif_sig_sigaction_on & ~regmask1) == 0, "handlers are installed for registered signals only");
	POST(verif_signal_dfl_calls == 0, "adding a registration resets no handler");
	}
	POST(l->level[0].todo == 0 && l->level[1].todo == 0 && l->level[2].todo == 0 && qb_list_empty(&l->level[0].job_head)
	     && qb_list_empty(&l->level[1].job_head) && qb_list_empty(&l->level[2].job_head), "registering a signal queues nothing for dispatch");
}
