/*UNIT
{"props": ["C10", "C08"], "src": ["lib/loop.c", "lib/loop_job.c"], "mode": "plain", "kind": "bounded",
 "bound": "per level at most 6 items already queued (more than the per-iteration budget of 4) and at most 2 waiting jobs; list walks unwound 4 times with unwinding assertions",
 "functions": ["get_more_jobs", "qb_loop_level_item_add"],
 "unwindset": ["get_more_jobs.0:4", "qb_list_length.0:4"],
 "stubs": ["malloc (fresh block)"],
 "drops": ["qb_util_log/qb_util_perror diagnostics compiled out (stubs/nolog.h)"],
 "expect_classes": ["assertion"], "timeout": 250, "cbmc_flags": ["--no-malloc-may-fail"]}
*/
/* get_more_jobs on BUSY levels: however many items (ready descriptors, expired timers, earlier jobs) a level
 * already has queued - fewer than, exactly, or more than its per-iteration budget - every waiting job of that
 * level is moved behind them in the order the jobs were added, counted in once and reported; nothing stays
 * on a wait list. A job therefore waits behind a bounded number of items (the level queue is FIFO, decided in
 * loop.run_level.*) and is never held back by the continuous work queued at its own or another level. */
#include "os_base.h"
#include <qb/qbdefs.h>
#include <qb/qblist.h>
#include <qb/qbloop.h>
#include "loop_int.h"
#include "util_int.h"
#include "verif.h"
#include "nolog.h"
#include "alloc.h"
#include "loop.c"
#include "loop_job.c"

#define QMAX 6
static struct qb_loop *vl;
static struct qb_loop_source vjs;
static void verif_job_fn(void *data) { (void)data; }
static struct qb_loop_job *q[3][QMAX], *w[3][2];

static struct qb_loop_job *mkjob(enum qb_loop_type t)
{
	struct qb_loop_job *j = malloc(sizeof(*j));
	ASSUME(j != NULL);
	j->dispatch_fn = verif_job_fn; j->item.user_data = NULL; j->item.source = &vjs; j->item.type = t;
	qb_list_init(&j->item.list);
	return j;
}

void harness(void)
{
	VERIF_ND(int32_t, nd_q_low);
	VERIF_ND(int32_t, nd_q_med);
	VERIF_ND(int32_t, nd_q_high);
	VERIF_ND(int32_t, nd_w_low);
	VERIF_ND(int32_t, nd_w_med);
	VERIF_ND(int32_t, nd_w_high);
	int32_t nq[3], nw[3];
	verif_alloc_calls = 0; verif_alloc_never_fails = 1;
	ASSUME(nd_q_low >= 0 && nd_q_low <= QMAX && nd_q_med >= 0 && nd_q_med <= QMAX && nd_q_high >= 0 && nd_q_high <= QMAX);
	ASSUME(nd_w_low >= 0 && nd_w_low <= 2 && nd_w_med >= 0 && nd_w_med <= 2 && nd_w_high >= 0 && nd_w_high <= 2);
	nq[0] = nd_q_low; nq[1] = nd_q_med; nq[2] = nd_q_high;
	nw[0] = nd_w_low; nw[1] = nd_w_med; nw[2] = nd_w_high;
	vl = malloc(sizeof(*vl));
	ASSUME(vl != NULL);
	for (int32_t p = 0; p < 3; p++) {
		vl->level[p].priority = p; vl->level[p].to_process = 4; vl->level[p].todo = 0; vl->level[p].l = vl;
		qb_list_init(&vl->level[p].job_head);
		qb_list_init(&vl->level[p].wait_head);
		for (int32_t k = 0; k < QMAX; k++) {
			q[p][k] = mkjob(QB_LOOP_FD);
			if (k < nq[p]) { qb_loop_level_item_add(&vl->level[p], &q[p][k]->item); }
		}
		for (int32_t k = 0; k < 2; k++) {
			w[p][k] = mkjob(QB_LOOP_JOB);
			if (k < nw[p]) { qb_list_add_tail(&w[p][k]->item.list, &vl->level[p].wait_head); }
		}
	}
	vl->stop_requested = QB_FALSE; vl->job_source = &vjs; vl->timer_source = NULL; vl->fd_source = NULL; vl->signal_source = NULL;
	vjs.l = vl; vjs.poll = get_more_jobs; vjs.dispatch_and_take_back = job_dispatch;

	int32_t rc = get_more_jobs(&vjs, 0);

	COVER(nd_q_med == 4 && nd_w_med == 2);
	COVER(nd_q_low == QMAX && nd_w_low == 1 && nd_q_high == 0 && nd_w_high == 2);
	COVER(nd_w_low == 0 && nd_w_med == 0 && nd_w_high == 0);
	POST(rc == nd_w_low + nd_w_med + nd_w_high, "the job source reports the number of jobs it moved");
	for (int32_t p = 0; p < 3; p++) {
		struct qb_loop_level *lev = &vl->level[p];
		POST(qb_list_empty(&lev->wait_head), "every waiting job is moved to its level's queue, however much is already queued there");
		POST(lev->todo == nq[p] + nw[p], "every moved job is counted in exactly once at its own level");
		struct qb_list_head *e = lev->job_head.next;
		for (int32_t k = 0; k < QMAX; k++) {
			if (k < nq[p]) { POST(e == &q[p][k]->item.list, "items queued earlier stay ahead of the moved jobs, in order"); e = e->next; }
		}
		for (int32_t k = 0; k < 2; k++) {
			if (k < nw[p]) { POST(e == &w[p][k]->item.list, "jobs of one priority keep the order in which they were added"); e = e->next; }
		}
		POST(e == &lev->job_head, "nothing else is queued");
	}
}
