/*UNIT
{"props": ["C08"], "src": ["lib/loop.c", "lib/loop_job.c"], "mode": "plain", "kind": "bounded",
 "bound": "at most 2 waiting jobs and 3 queued items per level; list walks unwound 5 times with unwinding assertions",
 "functions": ["qb_loop_job_add", "job_dispatch", "get_more_jobs", "qb_loop_job_del", "qb_loop_level_item_del"],
 "restrict_fp": ["job_dispatch.function_pointer_call.1/verif_job_fn"],
 "unwindset": ["qb_loop_job_del.0:5", "qb_loop_job_del.1:5", "get_more_jobs.0:5", "qb_list_length.0:5"],
 "stubs": ["malloc (fresh or NULL)", "free (recorded, then the built-in free)", "user job callback (records the call)"],
 "drops": ["qb_util_log/qb_util_perror diagnostics compiled out (stubs/nolog.h)"],
 "expect_classes": ["assertion"], "timeout": 250, "cbmc_flags": ["--no-malloc-may-fail"],
 "variants": [{"vname": "add", "defines": ["-DV_ADD"]}, {"vname": "dispatch", "defines": ["-DV_DISPATCH"]},
              {"vname": "move", "defines": ["-DV_MOVE"]}, {"vname": "del", "defines": ["-DV_DEL"]}]}
*/
/* Jobs (lib/loop_job.c):
 *  add       qb_loop_job_add validates priority and callback; a valid job is queued exactly once at the tail of its
 *            level's wait list (it waits one iteration: the dispatch count is unchanged); a refused add queues nothing;
 *  move      get_more_jobs moves every level's whole wait list behind the items already queued, in the order the jobs
 *            were added, counts them in and reports their number; the wait lists are empty afterwards;
 *  dispatch  job_dispatch runs the job's callback exactly once with its data and frees the job;
 *  del       qb_loop_job_del removes the oldest job matching (callback, data) -- from the wait list or from the
 *            dispatch queue (count - 1) -- so it never runs; every other item stays queued in order; without a match
 *            it reports -ENOENT and changes nothing. */
#include "os_base.h"
#include <qb/qbdefs.h>
#include <qb/qblist.h>
#include <qb/qbloop.h>
#include "loop_int.h"
#include "util_int.h"
#include "verif.h"
#include "nolog.h"
#include "alloc.h"
static void *v_freed[4];
static int v_nfreed;
static void verif_job_free(void *p) { if (v_nfreed < 4) { v_freed[v_nfreed] = p; } v_nfreed++; free(p); }
#define free verif_job_free
#include "loop.c"
#include "loop_job.c"
#undef free

static int v_calls;
static void *v_call_data;
static int v_tok1, v_tok2;
static void verif_job_fn(void *data) { v_calls++; v_call_data = data; }
static void verif_other_fn(void *data) { }

static struct qb_loop *vl;
static struct qb_loop_source vjs;

static struct qb_loop_job *mkjob(qb_loop_job_dispatch_fn fn, void *data, enum qb_loop_type t)
{
	struct qb_loop_job *j = malloc(sizeof(*j));
	ASSUME(j != NULL);
	j->dispatch_fn = fn; j->item.user_data = data; j->item.source = &vjs; j->item.type = t;
	qb_list_init(&j->item.list);
	return j;
}

void harness(void)
{
	verif_alloc_calls = 0; verif_alloc_never_fails = 1; v_nfreed = 0; v_calls = 0; v_call_data = NULL;
	vl = malloc(sizeof(*vl));
	ASSUME(vl != NULL);
	for (int32_t p = 0; p < 3; p++) {
		vl->level[p].priority = p; vl->level[p].to_process = 4; vl->level[p].todo = 0; vl->level[p].l = vl;
		qb_list_init(&vl->level[p].job_head);
		qb_list_init(&vl->level[p].wait_head);
	}
	vl->stop_requested = QB_FALSE; vl->job_source = &vjs; vl->timer_source = NULL; vl->fd_source = NULL; vl->signal_source = NULL;
	vjs.l = vl; vjs.poll = get_more_jobs; vjs.dispatch_and_take_back = job_dispatch;
	struct qb_loop_level *lev = &vl->level[QB_LOOP_MED];

#ifdef V_ADD
	VERIF_ND(int32_t, nd_p);
	VERIF_ND(uint8_t, nd_have_fn);
	VERIF_ND(uint8_t, nd_have_loop);
	VERIF_ND(uint8_t, nd_waiting);
	struct qb_loop_job *w1 = NULL;
	if (nd_waiting) {
		w1 = mkjob(verif_other_fn, &v_tok2, QB_LOOP_JOB);
		qb_list_add_tail(&w1->item.list, &lev->wait_head);
	}
	verif_alloc_never_fails = 0; verif_alloc_calls = 0;
	int valid = nd_have_loop && nd_have_fn && nd_p >= QB_LOOP_LOW && nd_p <= QB_LOOP_HIGH;
	int32_t rc = qb_loop_job_add(nd_have_loop ? vl : NULL, (enum qb_loop_priority)nd_p, &v_tok1, nd_have_fn ? verif_job_fn : NULL);
	if (rc == 0) {
		COVER(nd_p == QB_LOOP_MED && nd_waiting);
		COVER(nd_p == QB_LOOP_LOW);
		POST(valid, "only a job with a valid priority and a callback is accepted");
		struct qb_list_head *wh = &vl->level[nd_p == 0 ? 0 : (nd_p == 1 ? 1 : 2)].wait_head;
		struct qb_loop_job *nj = (struct qb_loop_job *)qb_list_entry(wh->prev, struct qb_loop_item, list);
		POST(wh->prev != wh && nj->dispatch_fn == verif_job_fn && nj->item.user_data == &v_tok1 && nj->item.type == QB_LOOP_JOB,
		     "an added job is queued at the tail of its level's wait list with its callback and data");
		POST(nd_p != QB_LOOP_MED || !nd_waiting || (wh->next == &w1->item.list && w1->item.list.next == &nj->item.list), "jobs added earlier stay ahead of it");
		POST(nj->item.list.next == wh && verif_alloc_calls == 1, "an added job is queued exactly once");
	} else {
		COVER(rc == -ENOMEM);
		COVER(nd_p > QB_LOOP_HIGH && rc == -EINVAL);
		COVER(nd_p < 0 && rc == -EINVAL);
		POST(!valid || rc == -ENOMEM, "a valid job is refused only for lack of memory");
		POST(lev->wait_head.next == (nd_waiting ? &w1->item.list : &lev->wait_head) && qb_list_empty(&vl->level[0].wait_head) && qb_list_empty(&vl->level[2].wait_head),
		     "a refused job is not queued");
	}
	POST(vl->level[0].todo == 0 && vl->level[1].todo == 0 && vl->level[2].todo == 0, "a new job waits one iteration: the dispatch count is unchanged");
#endif

#ifdef V_DISPATCH
	struct qb_loop_job *j = mkjob(verif_job_fn, &v_tok1, QB_LOOP_JOB);
	job_dispatch(&j->item, QB_LOOP_MED);
	COVER(1);
	POST(v_calls == 1 && v_call_data == &v_tok1, "a job's callback runs exactly once with its data");
	POST(v_nfreed == 1 && v_freed[0] == j, "a dispatched job is freed exactly once (one-shot: it is not queued again)");
	POST(qb_list_empty(&lev->wait_head) && qb_list_empty(&lev->job_head), "a dispatched job is not queued again");
#endif

#ifdef V_MOVE
	VERIF_ND(int32_t, nd_w_med);
	VERIF_ND(int32_t, nd_w_high);
	VERIF_ND(uint8_t, nd_queued);
	ASSUME(nd_w_med >= 0 && nd_w_med <= 2 && nd_w_high >= 0 && nd_w_high <= 2);
	struct qb_loop_level *hi = &vl->level[QB_LOOP_HIGH];
	struct qb_loop_job *q0 = mkjob(verif_other_fn, NULL, QB_LOOP_FD);
	struct qb_loop_job *m0 = mkjob(verif_job_fn, &v_tok1, QB_LOOP_JOB), *m1 = mkjob(verif_job_fn, &v_tok2, QB_LOOP_JOB);
	struct qb_loop_job *h0 = mkjob(verif_job_fn, &v_tok1, QB_LOOP_JOB), *h1 = mkjob(verif_job_fn, &v_tok2, QB_LOOP_JOB);
	if (nd_queued) { qb_loop_level_item_add(lev, &q0->item); }
	if (nd_w_med > 0) { qb_list_add_tail(&m0->item.list, &lev->wait_head); }
	if (nd_w_med > 1) { qb_list_add_tail(&m1->item.list, &lev->wait_head); }
	if (nd_w_high > 0) { qb_list_add_tail(&h0->item.list, &hi->wait_head); }
	if (nd_w_high > 1) { qb_list_add_tail(&h1->item.list, &hi->wait_head); }
	int32_t todo_med0 = lev->todo;
	int32_t rc = get_more_jobs(&vjs, 0);
	COVER(nd_w_med == 2 && nd_w_high == 2 && nd_queued);
	COVER(nd_w_med == 0 && nd_w_high == 0);
	COVER(nd_w_med == 1 && !nd_queued);
	POST(rc == nd_w_med + nd_w_high, "the job source reports the number of jobs it moved");
	POST(lev->todo == todo_med0 + nd_w_med && hi->todo == nd_w_high && vl->level[0].todo == 0, "every moved job is counted in exactly once at its own level");
	POST(qb_list_empty(&lev->wait_head) && qb_list_empty(&hi->wait_head), "the whole wait list is moved");
	/* order at MED: [q0] m0 m1 */
	struct qb_list_head *e = lev->job_head.next;
	if (nd_queued) { POST(e == &q0->item.list, "items queued earlier stay ahead of the moved jobs"); e = e->next; }
	if (nd_w_med > 0) { POST(e == &m0->item.list, "jobs of one priority keep the order in which they were added"); e = e->next; }
	if (nd_w_med > 1) { POST(e == &m1->item.list, "jobs of one priority keep the order in which they were added"); e = e->next; }
	POST(e == &lev->job_head, "nothing else is queued");
	POST(nd_w_high < 2 || (hi->job_head.next == &h0->item.list && h0->item.list.next == &h1->item.list && h1->item.list.next == &hi->job_head && hi->job_head.prev == &h1->item.list),
	     "jobs of one priority keep the order in which they were added");
#endif

#ifdef V_DEL
	VERIF_ND(uint8_t, nd_w0_match);
	VERIF_ND(uint8_t, nd_w1_match);
	VERIF_ND(uint8_t, nd_q0_kind);
	VERIF_ND(uint8_t, nd_q1_kind);
	VERIF_ND(uint8_t, nd_q2_kind);
	VERIF_ND(int32_t, nd_nw);
	VERIF_ND(int32_t, nd_nq);
	ASSUME(nd_nw >= 0 && nd_nw <= 2 && nd_nq >= 0 && nd_nq <= 3 && nd_q0_kind <= 3 && nd_q1_kind <= 3 && nd_q2_kind <= 3);
	/* kinds: 0 matching job, 1 job with other data, 2 job with other callback, 3 same callback+data but not a job (e.g. a timer item) */
	struct qb_loop_job *w[2], *q[3];
	uint8_t wm[2] = {nd_w0_match, nd_w1_match}, qk[3] = {nd_q0_kind, nd_q1_kind, nd_q2_kind};
	for (int i = 0; i < 2; i++) {
		w[i] = mkjob(verif_job_fn, wm[i] ? (void *)&v_tok1 : (void *)&v_tok2, QB_LOOP_JOB);
		if (i < nd_nw) { qb_list_add_tail(&w[i]->item.list, &lev->wait_head); }
	}
	for (int i = 0; i < 3; i++) {
		q[i] = mkjob(qk[i] == 2 ? verif_other_fn : verif_job_fn, qk[i] == 1 ? (void *)&v_tok2 : (void *)&v_tok1, qk[i] == 3 ? QB_LOOP_TIMER : QB_LOOP_JOB);
		if (i < nd_nq) { qb_loop_level_item_add(lev, &q[i]->item); }
	}
	int first_w = -1, first_q = -1;
	for (int i = 1; i >= 0; i--) { if (i < nd_nw && wm[i]) { first_w = i; } }
	for (int i = 2; i >= 0; i--) { if (i < nd_nq && qk[i] == 0) { first_q = i; } }
	int32_t todo0 = lev->todo;

	int32_t rc = qb_loop_job_del(vl, QB_LOOP_MED, &v_tok1, verif_job_fn);

	COVER(first_w == 1);
	COVER(first_w < 0 && first_q == 2);
	COVER(first_w < 0 && first_q < 0 && nd_nq == 3 && nd_nw == 2);
	COVER(first_w < 0 && first_q == 1 && qk[0] == 3);
	if (first_w >= 0) {
		POST(rc == 0 && v_nfreed == 1 && v_freed[0] == w[first_w], "a deleted job that was still waiting is removed and freed, so it never runs");
		POST(lev->todo == todo0, "deleting a waiting job does not touch the dispatch count");
		int other = 1 - first_w;
		POST(other >= nd_nw || (lev->wait_head.next == &w[other]->item.list && w[other]->item.list.next == &lev->wait_head), "only the matching job is removed");
		for (int i = 0; i < 3; i++) { POST(i >= nd_nq || !qb_list_empty(&q[i]->item.list), "only the matching job is removed"); }
	} else if (first_q >= 0) {
		POST(rc == 0 && qb_list_empty(&q[first_q]->item.list), "a deleted job that was already queued for dispatch is unlinked, so it never runs");
		POST(lev->todo == todo0 - 1, "deleting a queued job counts it out exactly once");
		for (int i = 0; i < 3; i++) { POST(i >= nd_nq || i == first_q || !qb_list_empty(&q[i]->item.list), "only the matching job is removed"); }
		for (int i = 0; i < 2; i++) { POST(i >= nd_nw || !qb_list_empty(&w[i]->item.list), "only the matching job is removed"); }
	} else {
		POST(rc == -ENOENT, "deleting a job that is not queued is refused");
		POST(lev->todo == todo0 && v_nfreed == 0, "a refused delete changes nothing");
		for (int i = 0; i < 3; i++) { POST(i >= nd_nq || !qb_list_empty(&q[i]->item.list), "a refused delete changes nothing"); }
	}
	POST(v_calls == 0, "delete does not run the callback");
#endif
}
