/* common prelude of the timer-heap units (include/tlist.h): ghost clock, sequential mutex, and a builder
 * for an arbitrary valid heap of up to TL_NMAX timers with symbolic 64-bit expiry times.
 * Timers are separate objects (an array of structs is much slower in CBMC). */
#ifndef VERIF_LOOP_TL_H
#define VERIF_LOOP_TL_H
#include "os_base.h"
#include <pthread.h>
#include <qb/qbdefs.h>
#include <qb/qbutil.h>
#include <qb/qblist.h>
#include "verif.h"
#include "clock.h"
#include "mutex.h"
#include "alloc.h"
/* realloc for the small heap arrays of these units: may fail (NULL, errno = ENOMEM, old block untouched);
 * otherwise a fresh block holding a full copy of the common prefix (at most 16 pointers), old block freed */
static void *tl_realloc(void *old, size_t n)
{
	VERIF_ND(uint8_t, nd_tl_realloc_fails);
	if (nd_tl_realloc_fails && !verif_alloc_never_fails) {
		errno = ENOMEM;
		return NULL;
	}
#ifdef VERIF_CBMC
	void **p = __CPROVER_allocate(n, 0);
	__CPROVER_assume(p != NULL);
	if (old != NULL) {
		size_t osz = __CPROVER_OBJECT_SIZE(old);
		for (size_t i = 0; i < 16; i++) {
			if ((i + 1) * sizeof(void *) <= n && (i + 1) * sizeof(void *) <= osz) {
				p[i] = ((void **)old)[i];
			}
		}
		free(old);
	}
	verif_alloc_calls++;
	return p;
#else
	return (realloc)(old, n);
#endif
}
#undef realloc
#define realloc tl_realloc
#include "tlist.h"

#ifndef TL_NMAX
#define TL_NMAX 7
#endif
#define TL_SLOTS 8

static struct timerlist_timer *tl_t[TL_SLOTS];      /* the timers, by identity (not by heap position) */
static timer_handle tl_handle[TL_SLOTS];            /* the handle cell each timer reports back to */
static void (*tl_fn)(void *);

/* heap order under the TRUE (unsigned 64-bit) order of expiry times */
static int tl_heap_ok(struct timerlist *tl)
{
	for (size_t i = 1; i < TL_SLOTS; i++) {
		if (i < tl->size) {
			struct timerlist_timer *c = tl->heap_entries[i], *p = tl->heap_entries[(i - 1) / 2];
			if (p->expire_time > c->expire_time) {
				return 0;
			}
		}
	}
	return 1;
}

/* every entry knows its own position */
static int tl_pos_ok(struct timerlist *tl)
{
	for (size_t i = 0; i < TL_SLOTS; i++) {
		if (i < tl->size && tl->heap_entries[i]->heap_pos != i) {
			return 0;
		}
	}
	return 1;
}

/* number of heap slots holding timer t */
static int tl_count(struct timerlist *tl, struct timerlist_timer *t)
{
	int n = 0;
	for (size_t i = 0; i < TL_SLOTS; i++) {
		if (i < tl->size && tl->heap_entries[i] == t) {
			n++;
		}
	}
	return n;
}

/* an arbitrary valid heap with n timers (n <= TL_NMAX), allocated for `alloc` slots */
static void tl_build(struct timerlist *tl, size_t n, size_t alloc)
{
	int never0 = verif_alloc_never_fails;
	verif_alloc_never_fails = 1;   /* building the pre-state: allocations succeed */
	tl->size = n;
	tl->allocated = alloc;
	tl->heap_entries = NULL;
	if (alloc > 0) {
		size_t bytes = alloc * sizeof(struct timerlist_timer *);
		tl->heap_entries = malloc(bytes);
		ASSUME(tl->heap_entries != NULL);
	}
	for (size_t i = 0; i < TL_SLOTS; i++) {
		tl_t[i] = NULL;
		if (i < n) {
			VERIF_ND(uint64_t, nd_expire);
			struct timerlist_timer *t = malloc(sizeof(*t));
			ASSUME(t != NULL);
			t->expire_time = nd_expire;
			t->is_absolute_timer = QB_FALSE;
			t->timer_fn = tl_fn;
			t->data = t;
			t->handle_addr = &tl_handle[i];
			t->heap_pos = i;
			tl_handle[i] = t;
			tl_t[i] = t;
			tl->heap_entries[i] = t;
		}
	}
	ASSUME(tl_heap_ok(tl));
	verif_alloc_never_fails = never0;
}
#endif
