/*UNIT
{"props": ["C08", "C09"], "src": ["lib/loop.c", "lib/loop_timerlist.c"], "mode": "plain", "kind": "proved",
 "functions": ["qb_loop_timer_create", "timerlist_init"],
 "defines": ["-DTL_NMAX=1"],
 "stubs": ["malloc (fresh block with arbitrary content, or NULL)", "qb_array_create_2 (records its arguments; any array or NULL)",
           "pthread_mutex_init (sequential no-op)"],
 "drops": ["qb_util_log/qb_util_perror diagnostics compiled out (stubs/nolog.h)"],
 "expect_classes": ["assertion"], "timeout": 120}
*/
/* qb_loop_timer_create establishes the timer-source state the timer units (ts_build in ts.h) start from: no timer is
 * pending (empty heap: nothing can expire, the loop may sleep without limit), no slot of the timers array is
 * in use, the array holds struct qb_loop_timer slots, and the loop expires timers through
 * expire_the_timers and dispatches an expired one through timer_dispatch. */
#include "os_base.h"
#include <qb/qbarray.h>
static size_t v_arr_es; static int v_arr_calls;
static qb_array_t *verif_qb_array_create_2(size_t max_elements, size_t element_size, size_t autogrow_elements);
#define qb_array_create_2 verif_qb_array_create_2
#include "ts.h"

static void verif_other_slot_havoc(int32_t idx) { (void)idx; }
static qb_array_t *verif_qb_array_create_2(size_t max_elements, size_t element_size, size_t autogrow_elements)
{
	VERIF_ND(uint8_t, nd_arr_fails);
	v_arr_calls++;
	v_arr_es = element_size;
	if (nd_arr_fails || max_elements > 65536 || element_size < 1 || autogrow_elements > 16) {
		return NULL;
	}
	verif_arr_max = max_elements;
	return (qb_array_t *)&verif_arr_token;
}

void harness(void)
{
	static struct qb_loop vl;
	verif_alloc_calls = 0; verif_alloc_never_fails = 0; v_arr_calls = 0; v_arr_es = 0; verif_arr_max = 0;
	struct qb_timer_source *s = (struct qb_timer_source *)qb_loop_timer_create(&vl);
	COVER(s == NULL);
	COVER(s != NULL && s->timers != NULL);
	if (s != NULL) {
		POST(s->s.l == &vl, "the timer source belongs to the loop it was created for");
		POST(s->s.poll == expire_the_timers, "timers are expired by expire_the_timers");
		POST(s->s.dispatch_and_take_back == timer_dispatch, "an expired timer is handed to timer_dispatch");
		POST(s->timerlist.size == 0, "a new loop has no pending timer");
		POST(s->timerlist.allocated == 0 ? s->timerlist.heap_entries == NULL : s->timerlist.heap_entries != NULL,
		     "the timer heap's storage matches its recorded capacity");
		POST(s->timer_entry_count == 0, "no slot of the timers array is in use");
		POST(timerlist_msec_duration_to_expire(&s->timerlist) == (uint64_t)-1, "with no timer pending the loop may sleep without limit");
		if (s->timers != NULL) {
			POST(v_arr_es == sizeof(struct qb_loop_timer), "the timers array holds timer slots");
		}
		free(s);
	}
}
