/*UNIT
{"props": ["C08"], "src": ["lib/loop.c", "lib/loop_poll.c", "lib/loop_poll_epoll.c"], "mode": "plain", "kind": "bounded",
 "bound": "at most 3 slots in the entries array (only the delete issued from inside the callback scans it; unwound 5 times with unwinding assertion); none for the state machine of the dispatched entry",
 "functions": ["_poll_dispatch_and_take_back_", "_poll_entry_mark_deleted_", "qb_loop_poll_del (from inside the callback)"],
 "restrict_fp": ["_poll_dispatch_and_take_back_.function_pointer_call.1/verif_fd_cb", "qb_loop_poll_del.function_pointer_call.1/_del"],
 "unwindset": ["qb_loop_poll_del.0:5"],
 "defines": ["-DPL_COUNT_MAX=3"],
 "stubs": ["user descriptor callback (any return value; may delete its own descriptor)", "qb_array_index (C19 contract over the slot model)", "epoll_ctl (records the request; may fail)"],
 "drops": ["qb_util_log/qb_util_perror diagnostics compiled out (stubs/nolog.h)"],
 "expect_classes": ["assertion"], "timeout": 250, "cbmc_flags": ["--no-malloc-may-fail"]}
*/
/* _poll_dispatch_and_take_back_ for a queued descriptor entry (JOBLIST, already unlinked by qb_loop_run_level):
 * the callback runs once with the registered descriptor, the collected events and the registered data;
 * a negative return deletes the entry (tombstone: its callback is never invoked again, old check stale);
 * otherwise the entry is watched again (ACTIVE, collected events cleared) -- unless the callback deleted
 * its own descriptor, in which case it stays deleted; no other registration is touched. */
#include "pl.h"

static void verif_other_entry(int32_t idx)
{
	pl_draw_entry(&verif_PO, idx);
	ASSUME(idx > verif_Tidx || !(verif_PO.ufd.fd == verif_PT.ufd.fd && verif_PO.item.type == QB_LOOP_FD));
	ASSUME(verif_PO.state != QB_POLL_ENTRY_EMPTY || verif_PO.ufd.fd == -1);   /* the after_failed_add class is isolated in poll_del */
}
static int v_token, v_calls, v_deleted_inside, v_del_rc, v_args_ok;
static int32_t v_res;
static int32_t verif_fd_cb(int32_t fd, int32_t revents, void *data)
{
	VERIF_ND(int32_t, nd_cb_res);
	VERIF_ND(uint8_t, nd_cb_deletes);
	v_calls++;
	v_args_ok = (fd == verif_PT.ufd.fd && revents == verif_PT.ufd.revents && data == &v_token);
	if (nd_cb_deletes) {
		v_del_rc = qb_loop_poll_del(pl_l, fd);
		v_deleted_inside = 1;
	}
	v_res = nd_cb_res;
	return nd_cb_res;
}

void harness(void)
{
	VERIF_ND(int32_t, nd_tidx);
	VERIF_ND(int32_t, nd_widx);
	VERIF_ND(int16_t, nd_revents);
	verif_alloc_calls = 0; verif_alloc_never_fails = 0;
	pl_build();
	int32_t count = pl_s->poll_entry_count;
	ASSUME(nd_tidx >= 0 && nd_tidx < count && nd_widx >= 0 && nd_widx != nd_tidx);
	verif_Tidx = nd_tidx; verif_Widx = nd_widx;
	pl_draw_entry(&verif_PT, nd_tidx);
	pl_draw_entry(&verif_PW, nd_widx);
	ASSUME(verif_PT.state == QB_POLL_ENTRY_JOBLIST && verif_PT.item.type == QB_LOOP_FD);
	ASSUME(!(verif_PW.ufd.fd == verif_PT.ufd.fd && verif_PW.item.type == QB_LOOP_FD));
	verif_PT.poll_dispatch_fn = verif_fd_cb; verif_PT.item.user_data = &v_token; verif_PT.ufd.revents = nd_revents;
	pl_lev->todo = 1;   /* the dispatched item is still counted while its callback runs */
	v_calls = 0; v_deleted_inside = 0; v_del_rc = 0; v_args_ok = 0; v_res = 0;
	struct qb_poll_entry w0 = verif_PW;
	int32_t fd0 = verif_PT.ufd.fd;

	_poll_dispatch_and_take_back_(&verif_PT.item, QB_LOOP_MED);

	COVER(v_res < 0 && !v_deleted_inside);
	COVER(v_res >= 0 && v_deleted_inside);
	COVER(v_res >= 0 && !v_deleted_inside);
	POST(v_calls == 1 && v_args_ok, "the descriptor callback runs once with the registered descriptor, its events and its data");
	if (v_deleted_inside) {
		POST(v_del_rc == 0 || verif_epctl_calls == 1, "a callback may delete its own descriptor");
		POST(pl_lev->todo == 1, "deleting the entry being dispatched does not decrement the count a second time");
	}
	if (v_res < 0 || v_deleted_inside) {
		POST(verif_PT.state == QB_POLL_ENTRY_DELETED && verif_PT.ufd.fd == -1,
		     "an entry whose callback returned a negative value, or that was deleted from inside its callback, stays deleted");
	} else {
		POST(verif_PT.state == QB_POLL_ENTRY_ACTIVE && verif_PT.ufd.fd == fd0 && verif_PT.check != 0, "after its callback a descriptor keeps being watched");
		POST(verif_PT.ufd.revents == 0, "the collected events are cleared for the next round");
	}
	POST(qb_list_empty(&verif_PT.item.list), "dispatching does not re-queue the entry");
	POST(verif_PW.state == w0.state && verif_PW.check == w0.check && verif_PW.ufd.fd == w0.ufd.fd, "dispatching one descriptor does not touch any other registration");
}
