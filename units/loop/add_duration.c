/*UNIT
{"props": ["C09"], "src": ["include/tlist.h"], "mode": "plain", "kind": "proved",
 "functions": ["timerlist_add_duration", "timerlist_add (heap of at most 2 other timers, room for more)"],
 "unwindset": ["timerlist_heap_sift_up.0:3"], "bound": "none for the arithmetic (all 64-bit clock values and durations); the heap around it holds at most 2 other timers",
 "stubs": ["malloc (fresh or NULL)", "pthread_mutex_* (sequential no-ops)", "qb_util_nano_current_get (ghost clock, any 64-bit value)"],
 "expect_classes": ["assertion"], "timeout": 200, "cbmc_flags": ["--no-malloc-may-fail"],
 "variants": [{"vname": "fits", "defines": ["-DV_CLASS=(nd_duration<=UINT64_MAX-nd_now)"]},
              {"vname": "beyond_clock_range", "defines": ["-DV_CLASS=(nd_duration>UINT64_MAX-nd_now)", "-DV_BEYOND"]}]}
*/
/* timerlist_add_duration(d) at clock value now, for all 64-bit now and d: the timer becomes due exactly
 * when d has elapsed -- for every clock value c with c - now < d the timer is NOT yet due (the dispatch
 * test is expire_time < c), and it is due as soon as more than d has elapsed.
 * Variant fits: now + d is representable.  Variant beyond_clock_range: now + d exceeds the 64-bit clock
 * (the API accepts such d): the timer must still not be due before d has elapsed, i.e. never. */
#include "tl.h"

void harness(void)
{
	struct timerlist tl;
	VERIF_ND(size_t, nd_n);
	VERIF_ND(uint64_t, nd_now);
	VERIF_ND(uint64_t, nd_duration);
	VERIF_ND(uint64_t, nd_clock);
	timer_handle h = NULL;
	ASSUME(nd_n <= 2);
	ASSUME(V_CLASS);
	verif_alloc_calls = 0; verif_alloc_never_fails = 0; verif_mutex_depth = 0;
	tl_fn = NULL;
	tl_build(&tl, nd_n, TL_SLOTS);
	verif_now_mono = nd_now; verif_now_epoch = 0; verif_hz = 1000;
	/* an arbitrary later clock reading at which less than d has elapsed */
	int early = nd_clock >= nd_now && nd_clock - nd_now < nd_duration;

	int32_t rc = timerlist_add_duration(&tl, tl_fn, NULL, nd_duration, &h);

	if (rc == 0) {
		struct timerlist_timer *t = (struct timerlist_timer *)h;
#ifndef V_BEYOND
		COVER(nd_duration == 0);
#else
		COVER(nd_now == 0 || nd_now == 1);
#endif
		COVER(nd_duration > ((uint64_t)1 << 63));
		POST(t != NULL && tl_count(&tl, t) == 1 && tl.size == nd_n + 1, "the added timer is pending exactly once");
		POST(!early || !(t->expire_time < nd_clock), "a timer is not due before its duration has elapsed");
#ifndef V_BEYOND
		POST(t->expire_time - nd_now <= nd_duration && t->expire_time >= nd_now, "a timer is due once its duration has elapsed");
#endif
		POST(t->is_absolute_timer == QB_FALSE, "a duration timer is measured on the monotonic clock");
		POST(tl_heap_ok(&tl) && tl_pos_ok(&tl), "after an add the earliest expiry is at the head of the heap (timers are dispatched in expiry order)");
	} else {
		COVER(rc == -ENOMEM);
		POST(tl.size == nd_n && h == NULL, "a failed add leaves no timer pending");
	}
}
