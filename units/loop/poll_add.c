/*UNIT
{"props": ["C08"], "src": ["lib/loop.c", "lib/loop_poll.c", "lib/loop_poll_epoll.c"], "mode": "plain", "kind": "bounded",
 "bound": "at most 3 slots in the entries array before the add (the scan for a free slot is unwound 5 times with unwinding assertion); slot contents arbitrary",
 "functions": ["qb_loop_poll_add", "_poll_add_", "_get_empty_array_position_", "_poll_entry_check_generate_", "_add (epoll)"],
 "restrict_fp": ["_poll_add_.function_pointer_call.1/_add"],
 "unwindset": ["_get_empty_array_position_.0:5", "_poll_entry_check_generate_.0:2"],
 "defines": ["-DPL_COUNT_MAX=3"],
 "stubs": ["qb_array_index/grow (C19 contract over the slot model)", "epoll_ctl (records the request; may fail with any errno)", "qb_array_grow succeeds (its failure ends in assert/abort)", "random() != 0 and != UINT32_MAX on the first try"],
 "drops": ["qb_util_log/qb_util_perror diagnostics compiled out (stubs/nolog.h)"],
 "expect_classes": ["assertion"], "timeout": 250, "cbmc_flags": ["--no-malloc-may-fail"]}
*/
/* qb_loop_poll_add: T is the slot the new registration lands in (prophecy: the first EMPTY slot, else the appended
 * one), W an arbitrary other slot.  Only an EMPTY slot is (re)used -- never a live entry and never a tombstone
 * (tombstones become reusable only after the next poll round has turned them into EMPTY); the entry becomes
 * ACTIVE with the given descriptor, events, data, callback and priority and a fresh non-zero check word; the
 * kernel registration carries exactly (check << 32 | slot), so events of an earlier user of the slot (old check)
 * are stale; on failure nothing is registered; every other registration keeps its content. */
#include "pl.h"

static void verif_other_entry(int32_t idx)
{
	pl_draw_entry(&verif_PO, idx);
	ASSUME(idx > verif_Tidx || verif_PO.state != QB_POLL_ENTRY_EMPTY);   /* T is the FIRST empty slot */
}
static int32_t verif_fd_cb(int32_t fd, int32_t revents, void *data) { return 0; }
static int v_token;

void harness(void)
{
	VERIF_ND(int32_t, nd_fd);
	VERIF_ND(int32_t, nd_events);
	VERIF_ND(int32_t, nd_p);
	VERIF_ND(int32_t, nd_tidx);
	VERIF_ND(int32_t, nd_widx);
	verif_alloc_calls = 0; verif_alloc_never_fails = 0;
	pl_build();
	verif_grow_may_fail = 0;   /* assumed: the entries array can grow (on ENOMEM the code runs into assert(), i.e. aborts) */
	int32_t count = pl_s->poll_entry_count;
	ASSUME(nd_tidx >= 0 && nd_tidx <= count && nd_widx >= 0 && nd_widx != nd_tidx && nd_p >= 0 && nd_p <= 2);
	verif_Tidx = nd_tidx; verif_Widx = nd_widx;
	pl_draw_entry(&verif_PT, nd_tidx);
	pl_draw_entry(&verif_PW, nd_widx);
	if (nd_tidx < count) {
		ASSUME(verif_PT.state == QB_POLL_ENTRY_EMPTY);
	}
	ASSUME(nd_widx > nd_tidx || verif_PW.state != QB_POLL_ENTRY_EMPTY);
	struct qb_poll_entry t0 = verif_PT, w0 = verif_PW;
	int32_t todo0 = pl_lev->todo;

	int32_t rc = qb_loop_poll_add(pl_l, nd_p, nd_fd, nd_events, &v_token, verif_fd_cb);

	if (rc == 0) {
		COVER(nd_tidx < count && nd_tidx == 2);
		COVER(nd_tidx == count && count == 3);
		COVER(count == 0);
		POST(verif_PT.state == QB_POLL_ENTRY_ACTIVE, "a new registration is watched (ACTIVE)");
		POST(verif_PT.ufd.fd == nd_fd && verif_PT.ufd.events == (short)nd_events && verif_PT.ufd.revents == 0 && verif_PT.item.user_data == &v_token
		     && verif_PT.poll_dispatch_fn == verif_fd_cb && verif_PT.p == (enum qb_loop_priority)nd_p && verif_PT.item.type == QB_LOOP_FD, "the entry holds what was registered");
		POST(verif_PT.check != 0 && verif_PT.check != UINT32_MAX, "a new registration gets a non-zero check word");
		POST(verif_PT.install_pos == (uint32_t)nd_tidx, "the entry knows its slot");
		POST(verif_epctl_calls == 1 && verif_epctl_last_op == EPOLL_CTL_ADD && verif_epctl_last_fd == nd_fd
		     && verif_epctl_last_data == ((((uint64_t)verif_PT.check) << 32) | (uint32_t)nd_tidx), "the kernel registration carries exactly this entry's check word and slot");
		POST(pl_s->poll_entry_count == (nd_tidx == count ? count + 1 : count), "the array grows exactly when no free slot exists");
	} else {
		COVER(verif_epctl_calls == 1);
		POST(verif_PT.state != QB_POLL_ENTRY_ACTIVE && verif_PT.state != QB_POLL_ENTRY_JOBLIST, "a failed add leaves no live entry behind");
	}
	POST(pl_lev->todo == todo0, "adding a descriptor queues nothing");
	POST(verif_PW.state == w0.state && verif_PW.check == w0.check && verif_PW.ufd.fd == w0.ufd.fd && verif_PW.ufd.events == w0.ufd.events
	     && verif_PW.poll_dispatch_fn == w0.poll_dispatch_fn && verif_PW.item.user_data == w0.item.user_data,
	     "adding a descriptor reuses only an EMPTY slot: live entries and tombstones keep their content");
}
