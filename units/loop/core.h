/* common prelude of the lib/loop.c units (C10 rotation, C09 timeout rule, C08 dispatch core):
 * ghost observers of the level rotation, stub sources, stub timer-derived timeout.
 * Everything here is harness-side; the real code is #included by the unit after this prelude. */
#ifndef VERIF_LOOP_CORE_H
#define VERIF_LOOP_CORE_H
#include "os_base.h"
#include <qb/qbdefs.h>
#include <qb/qblist.h>
#include <qb/qbloop.h>
#include "loop_int.h"
#include "util_int.h"
#include "verif.h"
#include "nolog.h"

#define VERIF_TODO_MAX (1 << 28)   /* range assumption: fewer than 2^28 queued items per level */

/* ---- ghost state of the rotation observer (C10) ---- */
int32_t verif_since[3];      /* consecutive completed iterations in which level p was not served */
int32_t verif_mask;          /* levels served so far in the current iteration (bit p) */
int32_t verif_done;          /* levels accounted for in the current iteration */
int32_t verif_iters;         /* completed iterations (saturating at 1000) */
int32_t verif_cov_low_waited, verif_cov_med_waited;   /* cover helpers */

/* ---- ghost state of the timeout rule (C09) ---- */
int32_t verif_job_rc, verif_timer_rc;   /* what the job / timer sources reported in this iteration */
int32_t verif_timer_pending;            /* a timer is pending after the timer source expired what was due */
int32_t verif_next_ms;                  /* timer-derived timeout (ms to earliest expiry + one tick), valid when pending */
int32_t verif_polls;                    /* fd polls in the current iteration */

#ifndef VERIF_CHECK_ROTATION
#define VERIF_CHECK_ROTATION 1
#endif
#ifndef VERIF_CHECK_TIMEOUT
#define VERIF_CHECK_TIMEOUT 0
#endif
#if VERIF_CHECK_ROTATION
#define ROT_POST(c, m) POST(c, m)
#else
#define ROT_POST(c, m) ((void)0)
#endif
#if VERIF_CHECK_TIMEOUT
#define TMO_POST(c, m) POST(c, m)
#else
#define TMO_POST(c, m) ((void)0)
#endif

/* called (spliced) right before qb_loop_run serves level p */
static void verif_obs_serve(struct qb_loop *l, int32_t p)
{
	ROT_POST(p >= QB_LOOP_LOW && p <= QB_LOOP_HIGH, "only the three priority levels are served");
	if (p >= 0 && p <= 2) {
		verif_mask |= (1 << p);
	}
}

/* called (spliced) after qb_loop_run is done with level p in this iteration (served or skipped) */
static void verif_obs_level_done(struct qb_loop *l, int32_t p)
{
	verif_done++;
	if (verif_done < 3) {
		return;
	}
	/* end of one loop iteration: every level was either served or skipped */
	ROT_POST(!(verif_mask & 1) || (verif_mask & 2), "an iteration that serves LOW serves MED too (higher levels get at least as many opportunities)");
	ROT_POST(!(verif_mask & 2) || (verif_mask & 4), "an iteration that serves MED serves HIGH too (higher levels get at least as many opportunities)");
	if ((verif_mask & 1) && verif_since[0] == 2) { verif_cov_low_waited = 1; }
	if ((verif_mask & 2) && verif_since[1] == 1) { verif_cov_med_waited = 1; }
	if (verif_mask & 1) { verif_since[0] = 0; } else { verif_since[0]++; }
	if (verif_mask & 2) { verif_since[1] = 0; } else { verif_since[1]++; }
	if (verif_mask & 4) { verif_since[2] = 0; } else { verif_since[2]++; }
	ROT_POST(verif_since[0] <= 2, "LOW is served at least once in any three consecutive loop iterations");
	ROT_POST(verif_since[1] <= 2, "MED is served at least once in any three consecutive loop iterations");
	ROT_POST(verif_since[2] <= 2, "HIGH is served at least once in any three consecutive loop iterations");
	verif_mask = 0;
	verif_done = 0;
	verif_polls = 0;
	verif_job_rc = 0; verif_timer_rc = 0; verif_timer_pending = 0;   /* per-iteration reports of the sources */
	if (verif_iters < 1000) {
		verif_iters++;
	}
#ifdef VERIF_FALLBACK
	/* bounded re-check (loop contract switched off): stop is requested after VERIF_FALLBACK iterations at the latest */
	if (verif_iters >= VERIF_FALLBACK) {
		l->stop_requested = QB_TRUE;
	}
#endif
}

/* a source's poll may queue items at any level (assumed: the per-level count stays below VERIF_TODO_MAX);
 * it reports how many it queued */
static int32_t verif_source_queues(struct qb_loop *l)
{
	VERIF_ND(int32_t, nd_src_rc);
	VERIF_ND(int32_t, nd_add0);
	VERIF_ND(int32_t, nd_add1);
	VERIF_ND(int32_t, nd_add2);
	ASSUME(nd_src_rc > -4096);   /* a source reports a count or -errno */
	if (nd_src_rc > 0) {
		ASSUME(nd_src_rc <= VERIF_TODO_MAX);
		ASSUME(nd_add0 >= 0 && nd_add1 >= 0 && nd_add2 >= 0 && nd_add0 <= nd_src_rc && nd_add1 <= nd_src_rc && nd_add2 <= nd_src_rc);
		ASSUME(nd_add0 + nd_add1 + nd_add2 == nd_src_rc);
		ASSUME(l->level[0].todo <= VERIF_TODO_MAX - nd_add0 && l->level[1].todo <= VERIF_TODO_MAX - nd_add1 && l->level[2].todo <= VERIF_TODO_MAX - nd_add2);
		l->level[0].todo += nd_add0;
		l->level[1].todo += nd_add1;
		l->level[2].todo += nd_add2;
	}
	return nd_src_rc;
}

static int32_t verif_job_poll(struct qb_loop_source *s, int32_t ms_timeout)
{
	verif_job_rc = verif_source_queues(s->l);
	return verif_job_rc;
}

static int32_t verif_timer_poll(struct qb_loop_source *s, int32_t ms_timeout)
{
	VERIF_ND(uint8_t, nd_timer_pending);
	VERIF_ND(int32_t, nd_next_ms);
	verif_timer_rc = verif_source_queues(s->l);
	verif_timer_pending = nd_timer_pending ? 1 : 0;
	ASSUME(nd_next_ms >= 0);
	verif_next_ms = nd_next_ms;
	return verif_timer_rc;
}

/* stub of qb_loop_timer_msec_duration_to_expire with the contract decided for the real function in the
 * C09 units timer_msec.*: -1 iff no timer is pending, otherwise 0 <= result <= INT32_MAX, not beyond the
 * time to the earliest expiry plus one clock tick */
static int32_t verif_msec_to_expire(struct qb_loop_source *ts)
{
	return verif_timer_pending ? verif_next_ms : -1;
}
#define qb_loop_timer_msec_duration_to_expire verif_msec_to_expire

static int32_t verif_fd_poll(struct qb_loop_source *s, int32_t ms_timeout)
{
	struct qb_loop *l = s->l;
	verif_polls++;
	TMO_POST(verif_polls == 1, "one descriptor wait per loop iteration");
	TMO_POST(ms_timeout >= -1, "the wait is never given a negative timeout other than -1");
	if (verif_timer_pending) {
		COVER(ms_timeout == 0);
		COVER(ms_timeout == 50);
		COVER(ms_timeout > 50);
		TMO_POST(ms_timeout != -1, "the loop never blocks indefinitely while a timer is pending");
		TMO_POST(ms_timeout < 0 || ms_timeout <= verif_next_ms || (verif_job_rc > 0 && ms_timeout <= 50),
			 "the loop wakes up no later than the earliest expiry plus one tick (or the 50 ms pause when jobs were just queued)");
	} else {
		COVER(ms_timeout == -1);
	}
	if (verif_job_rc > 0 || verif_timer_rc > 0) {
		TMO_POST(ms_timeout != -1, "the loop never blocks indefinitely while queued items await dispatch");
	}
	return verif_source_queues(l);
}
#endif
