/*UNIT
{"props": ["C08"], "src": ["lib/loop.c", "lib/loop_poll.c", "lib/loop_poll_epoll.c"], "mode": "plain", "kind": "bounded",
 "bound": "at most 3 slots in the entries array (the scan for the descriptor is unwound 5 times with unwinding assertion); slot contents arbitrary; the level queue holds the entry and at most 2 neighbours",
 "functions": ["qb_loop_poll_del", "_poll_entry_mark_deleted_", "_del (epoll)", "qb_loop_level_item_del"],
 "restrict_fp": ["_poll_add_.function_pointer_call.1/_add", "qb_loop_poll_del.function_pointer_call.1/_del"],
 "unwindset": ["_get_empty_array_position_.0:5", "_poll_entry_check_generate_.0:2", "qb_loop_poll_del.0:5"],
 "defines": ["-DPL_COUNT_MAX=3"],
 "stubs": ["qb_array_index (C19 contract over the slot model)", "epoll_ctl (records the request; may fail with any errno)"],
 "drops": ["qb_util_log/qb_util_perror diagnostics compiled out (stubs/nolog.h)"],
 "expect_classes": ["assertion"], "timeout": 250, "cbmc_flags": ["--no-malloc-may-fail"],
 "variants": [{"vname": "clean", "defines": ["-DPL_COUNT_MAX=3", "-DV_CLEAN"]},
              {"vname": "after_failed_add", "defines": ["-DPL_COUNT_MAX=3", "-DV_LEFTOVER"]}]}
*/
/* qb_loop_poll_del(fd) on an arbitrary entries array.  T is the first slot the scan matches, W an arbitrary other slot.
 *  - a live entry (ACTIVE, or JOBLIST = already queued for dispatch) becomes a tombstone (DELETED, fd -1, check 0:
 *    later events carrying its old check are stale), the kernel registration is removed, and if it was queued it
 *    is unlinked from its level and counted out once, so its callback is never invoked again;
 *  - no entry for fd: -EBADF and nothing changes;  every other registration (W) keeps its content;
 *  - whenever delete reports success no live entry for that descriptor remains.
 * Variant clean: EMPTY slots carry fd -1 (as _poll_entry_empty_ leaves them).
 * Variant after_failed_add: an EMPTY slot left behind by a failed qb_loop_poll_add (state reset, fd kept)
 * sits before the live entry of the same descriptor
 * (the failed add is performed by the real qb_loop_poll_add with epoll_ctl refusing the duplicate). */
#include "pl.h"

static int32_t v_fd;
static void verif_other_entry(int32_t idx)
{
	pl_draw_entry(&verif_PO, idx);
	ASSUME(idx > verif_Tidx || !(verif_PO.ufd.fd == v_fd && verif_PO.item.type == QB_LOOP_FD));
#ifdef V_LEFTOVER
	ASSUME(!(verif_PO.ufd.fd == v_fd && verif_PO.item.type == QB_LOOP_FD));
	ASSUME(idx > verif_Tidx || verif_PO.state != QB_POLL_ENTRY_EMPTY);
#endif
#ifdef V_CLEAN
	ASSUME(verif_PO.state != QB_POLL_ENTRY_EMPTY || verif_PO.ufd.fd == -1);
#endif
}
static struct qb_loop_item v_a, v_b;

void harness(void)
{
	VERIF_ND(int32_t, nd_fd);
	VERIF_ND(int32_t, nd_tidx);
	VERIF_ND(int32_t, nd_widx);
	VERIF_ND(uint8_t, nd_before);
	VERIF_ND(uint8_t, nd_after);
	verif_alloc_calls = 0; verif_alloc_never_fails = 0;
	pl_build();
	int32_t count = pl_s->poll_entry_count;
	v_fd = nd_fd;
	ASSUME(nd_tidx >= 0 && nd_tidx <= count && nd_widx >= 0 && nd_widx != nd_tidx);
	verif_Tidx = nd_tidx; verif_Widx = nd_widx;
	pl_draw_entry(&verif_PT, nd_tidx);
	pl_draw_entry(&verif_PW, nd_widx);
	if (nd_tidx < count) {
		ASSUME(verif_PT.ufd.fd == nd_fd && verif_PT.item.type == QB_LOOP_FD);   /* T: the first slot the scan matches */
	}
	ASSUME(nd_widx > nd_tidx || !(verif_PW.ufd.fd == nd_fd && verif_PW.item.type == QB_LOOP_FD));
	int t_live = nd_tidx < count && (verif_PT.state == QB_POLL_ENTRY_ACTIVE || verif_PT.state == QB_POLL_ENTRY_JOBLIST);
	int w_live_same_fd = nd_widx < count && (verif_PW.state == QB_POLL_ENTRY_ACTIVE || verif_PW.state == QB_POLL_ENTRY_JOBLIST)
		&& verif_PW.ufd.fd == nd_fd && verif_PW.item.type == QB_LOOP_FD;
#ifdef V_CLEAN
	ASSUME(verif_PT.state != QB_POLL_ENTRY_EMPTY || verif_PT.ufd.fd == -1);
	ASSUME(verif_PW.state != QB_POLL_ENTRY_EMPTY || verif_PW.ufd.fd == -1);
	ASSUME(!(t_live && w_live_same_fd));   /* the kernel refuses to register one descriptor twice: at most one live entry per fd */
#endif
#ifdef V_LEFTOVER
	/* T: the first EMPTY slot (clean), W: the live entry of fd behind it.  A second qb_loop_poll_add of the same
	 * descriptor is refused by the kernel (EEXIST) -- performed here with the real code */
	ASSUME(nd_tidx < count && verif_PT.state == QB_POLL_ENTRY_EMPTY && nd_fd >= 0 && w_live_same_fd && nd_widx > nd_tidx);
	ASSUME(verif_PW.state != QB_POLL_ENTRY_JOBLIST);
	verif_PT.ufd.fd = -1; verif_PT.check = 0; verif_PT.item.type = QB_LOOP_FD;
	{
		int32_t rc_add = qb_loop_poll_add(pl_l, QB_LOOP_MED, nd_fd, POLLIN, NULL, NULL);
		ASSUME(rc_add != 0);
		verif_epctl_calls = 0;
	}
#endif
	/* a queued entry sits in its level's job list, possibly between other items */
	v_a.source = NULL; v_b.source = NULL;
	if (nd_before) {
		qb_loop_level_item_add(pl_lev, &v_a);
	}
	if (nd_tidx < count && verif_PT.state == QB_POLL_ENTRY_JOBLIST) {
		qb_loop_level_item_add(pl_lev, &verif_PT.item);
	}
	if (nd_after) {
		qb_loop_level_item_add(pl_lev, &v_b);
	}
	struct qb_poll_entry t0 = verif_PT, w0 = verif_PW;
	int32_t todo0 = pl_lev->todo;

	int32_t rc = qb_loop_poll_del(pl_l, nd_fd);

#ifdef V_LEFTOVER
	COVER(rc == 0);
#else
	if (nd_tidx == count) {
#ifdef V_CLEAN
		COVER(count == 3);
		COVER(count == 0);
#endif
		POST(rc == -EBADF, "deleting a descriptor that is not registered is refused");
		POST(verif_epctl_calls == 0 && pl_lev->todo == todo0, "a refused delete changes nothing");
	} else if (t_live) {
#ifdef V_CLEAN
		COVER(t0.state == QB_POLL_ENTRY_JOBLIST && nd_before && nd_after);
		COVER(t0.state == QB_POLL_ENTRY_ACTIVE && nd_tidx == 2);
		COVER(rc != 0);
#endif
		POST(verif_PT.state == QB_POLL_ENTRY_DELETED && verif_PT.ufd.fd == -1, "a deleted entry becomes a tombstone that no descriptor number matches");
		POST(verif_epctl_calls == 1 && verif_epctl_last_op == EPOLL_CTL_DEL && verif_epctl_last_fd == nd_fd, "the kernel registration of a deleted descriptor is removed");
		POST(rc == 0 || rc < 0, "delete reports the result of the kernel request");
		if (t0.state == QB_POLL_ENTRY_JOBLIST) {
			POST(qb_list_empty(&verif_PT.item.list), "a deleted entry that was already queued is unlinked, so its callback is never invoked");
			POST(pl_lev->todo == todo0 - 1, "deleting a queued entry counts it out exactly once");
			POST(!(nd_before && nd_after) || (v_a.list.next == &v_b.list && v_b.list.prev == &v_a.list), "the neighbours of the deleted item are linked to each other");
		} else {
			POST(pl_lev->todo == todo0, "deleting an entry that is not queued leaves the level queues alone");
		}
	} else {
#ifdef V_CLEAN
		COVER(t0.state == QB_POLL_ENTRY_EMPTY);
#endif
		POST(verif_epctl_calls == 0 && pl_lev->todo == todo0 && verif_PT.state == t0.state, "deleting a descriptor number that names no live entry changes nothing");
	}
#endif
	POST(!(rc == 0 && w_live_same_fd && (verif_PW.state == QB_POLL_ENTRY_ACTIVE || verif_PW.state == QB_POLL_ENTRY_JOBLIST)),
	     "after a delete reports success no live entry for that descriptor remains (its callback is never invoked again)");
	if (!w_live_same_fd) {
		POST(verif_PW.state == w0.state && verif_PW.check == w0.check && verif_PW.ufd.fd == w0.ufd.fd && verif_PW.ufd.events == w0.ufd.events
		     && verif_PW.poll_dispatch_fn == w0.poll_dispatch_fn && verif_PW.item.user_data == w0.item.user_data, "deleting one descriptor does not touch any other registration");
	}
}
