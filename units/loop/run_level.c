/*UNIT
{"props": ["C10", "C08"], "src": ["lib/loop.c"], "mode": "plain", "kind": "bounded",
 "bound": "to_process <= 4 (qb_loop_create sets 4 and nothing changes it), at most 6 queued items (5 in the delete variant, 4 plus 2 added by callbacks in the add variant); the backward goto of qb_loop_run_level unwound 5 times with unwinding assertion",
 "functions": ["qb_loop_run_level", "qb_loop_level_item_add", "qb_loop_level_item_del"],
 "restrict_fp": ["qb_loop_run_level.function_pointer_call.1/verif_dispatch"],
 "unwindset": ["qb_loop_run_level.0:5"],
 "stubs": ["dispatch_and_take_back of the item's source: a callback that may request stop, delete any queued item of the level (also itself), or queue a new item"],
 "drops": ["qb_util_log/qb_util_perror diagnostics compiled out (stubs/nolog.h)"],
 "expect_classes": ["assertion"], "timeout": 280, "cbmc_flags": ["--no-malloc-may-fail"],
 "variants": [{"vname": "fifo", "defines": ["-DV_ACTIONS=0x03", "-DNMAX=6", "-DTPMAX=4"]},
              {"vname": "del", "defines": ["-DV_ACTIONS=0x0d", "-DNMAX=5", "-DTPMAX=4"]},
              {"vname": "add", "defines": ["-DV_ACTIONS=0x11", "-DNMAX=4", "-DTPMAX=4"]}]}
*/
/* qb_loop_run_level on a real list of 0..6 items with per-item ghost states (queued / dispatched / deleted):
 * each dispatched item is the oldest queued one and is unlinked before its callback runs; an item deleted
 * by a callback (qb_loop_level_item_del, also the running item itself) is never dispatched and is counted
 * out exactly once; an item queued by a callback goes to the tail; at least one and at most to_process
 * items are dispatched unless a callback requests stop, which ends the round at once. */
#include "core.h"
#include "loop.c"

#define PMAX (NMAX + 2)
enum { V_FREE, V_QUEUED, V_DISPATCHED, V_DELETED };
static struct qb_loop *vl;
static struct qb_loop_level *vlevel;
static struct qb_loop_source vsrc;
static struct qb_loop_item vi0, vi1, vi2, vi3, vi4, vi5, vi6, vi7;   /* separate objects: an array of list nodes is 20x slower in CBMC */
static struct qb_loop_item *pool[8] = {&vi0, &vi1, &vi2, &vi3, &vi4, &vi5, &vi6, &vi7};   /* items in the order they were queued */
static uint8_t vst[PMAX];
static int32_t v_count;                  /* items queued so far (pool[0 .. v_count)) */
static int32_t v_wit;                    /* arbitrary witness item: "no older queued item is overtaken" */
static int32_t v_dispatched, v_stopped, v_deleted_queued, v_deleted_self, v_added;

static int32_t v_queued(void)
{
	int32_t n = 0;
	for (int32_t i = 0; i < PMAX; i++) {
		if (vst[i] == V_QUEUED) {
			n++;
		}
	}
	return n;
}

static void v_queue_new(int32_t idx, enum qb_loop_type t)
{
	struct qb_loop_item *it = pool[idx];
	it->source = &vsrc; it->type = t; it->user_data = (void *)(intptr_t)idx;   /* tag: position in queueing order */
	qb_loop_level_item_add(vlevel, it);   /* the real add */
	vst[idx] = V_QUEUED;
	v_count = idx + 1;
}

static void verif_dispatch(struct qb_loop_item *item, enum qb_loop_priority p)
{
	VERIF_ND(uint8_t, nd_action);
	VERIF_ND(uint8_t, nd_victim);
	int32_t s = (int32_t)(intptr_t)item->user_data;
	ASSUME(nd_action <= 4 && ((V_ACTIONS >> nd_action) & 1));   /* case split of the unit: which things this run's callbacks do */
	POST(s >= 0 && s < v_count && item == pool[s], "only queued items are dispatched");
	if (s < 0 || s >= PMAX) {
		return;
	}
	POST(vst[s] == V_QUEUED, "an item is dispatched at most once and never after it was deleted");
	POST(!(v_wit < s && vst[v_wit] == V_QUEUED), "items of one level are dispatched in the order they were queued");
	POST(qb_list_empty(&item->list), "an item is unlinked from the job list before its callback runs");
	POST(p == vlevel->priority, "the callback is told the level's priority");
	POST(!v_stopped, "no dispatch after a callback requested stop");
	POST(v_dispatched < vlevel->to_process, "at most to_process items are dispatched per level and iteration");
	vst[s] = V_DISPATCHED;
	v_dispatched++;
	if (nd_action == 1) {
		vl->stop_requested = QB_TRUE;
		v_stopped = 1;
#if V_ACTIONS & 4
	} else if (nd_action == 2) {
		/* the callback deletes a queued item of this level */
		if (nd_victim < PMAX && vst[nd_victim] == V_QUEUED) {
			int32_t todo0 = vlevel->todo;
			qb_loop_level_item_del(vlevel, pool[nd_victim]);
			POST(qb_list_empty(&pool[nd_victim]->list) && vlevel->todo == todo0 - 1, "deleting a queued item unlinks it and counts it out once");
			vst[nd_victim] = V_DELETED;
			v_deleted_queued++;
		}
#endif
#if V_ACTIONS & 8
	} else if (nd_action == 3) {
		/* the callback deletes the item that is being dispatched (itself) */
		int32_t todo0 = vlevel->todo;
		qb_loop_level_item_del(vlevel, item);
		POST(vlevel->todo == todo0, "deleting the item being dispatched does not decrement the count a second time");
		v_deleted_self++;
#endif
#if V_ACTIONS & 16
	} else if (nd_action == 4 && v_count < PMAX) {
		for (int32_t k = 0; k < PMAX; k++) {
			if (k == v_count) {
				v_queue_new(k, QB_LOOP_FD);   /* constant index per branch: cheaper for the solver */
				break;
			}
		}
		v_added++;
#endif
	}
}

void harness(void)
{
	VERIF_ND(int32_t, nd_p);
	VERIF_ND(int32_t, nd_n);
	VERIF_ND(int32_t, nd_to_process);
	VERIF_ND(int32_t, nd_wit);
	vl = malloc(sizeof(*vl));
	ASSUME(vl != NULL);
	ASSUME(nd_p >= 0 && nd_p <= 2 && nd_n >= 0 && nd_n <= NMAX && nd_to_process >= 1 && nd_to_process <= TPMAX);
	ASSUME(nd_wit >= 0 && nd_wit < PMAX);
	for (int32_t p = 0; p < 3; p++) {
		vl->level[p].priority = p;
		vl->level[p].to_process = nd_to_process;
		vl->level[p].todo = 0;
		vl->level[p].l = vl;
		qb_list_init(&vl->level[p].job_head);
		qb_list_init(&vl->level[p].wait_head);
	}
	vl->stop_requested = QB_FALSE;
	vlevel = &vl->level[QB_LOOP_MED];
	vlevel->priority = nd_p;
	vsrc.l = vl; vsrc.poll = NULL; vsrc.dispatch_and_take_back = verif_dispatch;
	v_count = 0; v_wit = nd_wit; v_dispatched = 0; v_stopped = 0; v_deleted_queued = 0; v_deleted_self = 0; v_added = 0;
	for (int32_t i = 0; i < PMAX; i++) {
		vst[i] = V_FREE;
	}
	for (int32_t i = 0; i < NMAX; i++) {
		if (i < nd_n) {
			v_queue_new(i, QB_LOOP_JOB);
		}
	}
	POST(vlevel->todo == nd_n, "queueing an item counts it once");

	qb_loop_run_level(vlevel);

	int32_t left = v_queued();
	COVER(nd_n == 0);
#if V_ACTIONS & 2
	COVER(v_dispatched == 4 && left >= 1);
	COVER(v_stopped && v_dispatched == 1 && left > 0);
#endif
#if V_ACTIONS & 4
	COVER(v_deleted_queued > 0 && v_dispatched == 2);
#endif
#if V_ACTIONS & 8
	COVER(v_deleted_self > 0);
#endif
#if V_ACTIONS & 16
	COVER(v_added > 0 && v_dispatched > nd_n);
#endif
	POST(v_dispatched <= nd_to_process, "at most to_process items are dispatched per level and iteration");
	if (nd_n > 0) {
		POST(v_dispatched >= 1, "a served level with a non-empty queue dispatches at least one item");
	}
	if (!v_stopped) {
		POST(v_dispatched == nd_to_process || left == 0, "the round ends early only when the queue is empty or stop was requested");
	}
	POST(vlevel->todo == left, "the level's count equals the number of items still queued");
	POST((left == 0) == (qb_list_empty(&vlevel->job_head) != 0), "the job list is empty exactly when no item is queued");
	if (vst[nd_wit] == V_QUEUED) {
		POST(!qb_list_empty(&pool[nd_wit]->list), "an item still queued is still linked");
	}
}
