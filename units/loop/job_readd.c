/*UNIT
{"props": ["C08"], "src": ["lib/loop.c", "lib/loop_job.c"], "mode": "plain", "kind": "bounded",
 "bound": "three concrete scenarios (variants): a job at MED alone re-adding itself once; a job at HIGH behind another job, re-adding itself once; a job at LOW behind another job, not re-adding (symbolic queues or a symbolic level index exhaust memory); two loop iterations (job source poll + dispatch round of the job's level), loops unwound with unwinding assertions",
 "functions": ["qb_loop_job_add (from outside the loop and from inside a job callback)", "get_more_jobs", "qb_loop_run_level", "job_dispatch"],
 "restrict_fp": ["qb_loop_run_level.function_pointer_call.1/job_dispatch", "job_dispatch.function_pointer_call.1/verif_job_fn"],
 "unwindset": ["qb_loop_run_level.0:4", "get_more_jobs.0:4", "qb_list_length.0:4"],
 "stubs": ["malloc (fresh object; allocation failure of qb_loop_job_add is decided in loop.job.add)", "free (recorded, then the built-in free: double free and use after free are checked)", "user job callback (adds itself again while a script flag is set; the bystander's callback only counts)"],
 "drops": ["qb_util_log/qb_util_perror diagnostics compiled out (stubs/nolog.h)"],
 "expect_classes": ["assertion"], "timeout": 250, "cbmc_flags": ["--no-malloc-may-fail"],
 "variants": [{"vname": "alone", "defines": ["-DV_P=QB_LOOP_MED", "-DV_BYSTANDER=0", "-DV_READD=1"]},
              {"vname": "behind_another", "defines": ["-DV_P=QB_LOOP_HIGH", "-DV_BYSTANDER=1", "-DV_READD=1"]},
              {"vname": "no_readd", "defines": ["-DV_P=QB_LOOP_LOW", "-DV_BYSTANDER=1", "-DV_READD=0"]}]}
*/
/* A job whose callback adds the same job (same callback, same data, same priority) again.  Two iterations of what
 * qb_loop_run does for the job source and the job's level (poll = get_more_jobs, then qb_loop_run_level), on the real code:
 *  iteration 1: the job runs; the copy it added from inside its callback is queued exactly once (in libqb it waits in the
 *               level's wait list for the next iteration; the obligations only ask that it is queued once and has not run
 *               more often than it was added), the dispatched job is freed once;
 *  iteration 2: the re-added job (if not yet run) is moved to the dispatch queue and runs;
 * in total the callback has run exactly once per add,
 * a bystander job added earlier runs exactly once and before it, and in the end nothing is queued or waiting. */
#include "os_base.h"
#include <qb/qbdefs.h>
#include <qb/qblist.h>
#include <qb/qbloop.h>
#include "loop_int.h"
#include "util_int.h"
#include "verif.h"
#include "nolog.h"
#include "alloc.h"
static int v_nfreed;
static void verif_job_free(void *p) { v_nfreed++; free(p); }
#define free verif_job_free
#include "loop.c"
#include "loop_job.c"
#undef free

static struct qb_loop *vl;
static struct qb_loop_source vjs;
static int v_calls, v_adds, v_readd, v_by_calls, v_by_before, v_tok, v_tok2;
static int32_t v_prio, v_readd_rc;
static struct qb_loop_level *v_lev;
static int32_t v_wait_len_in_cb, v_todo_in_cb;

static void verif_job_fn(void *data)
{
	if (data == &v_tok2) {           /* the bystander */
		v_by_calls++;
		v_by_before = (v_calls == 0);
		return;
	}
	POST(data == &v_tok, "a job's callback gets the data it was added with");
	v_calls++;
	if (v_readd) {
		v_readd = 0;
		v_readd_rc = qb_loop_job_add(vl, (enum qb_loop_priority)v_prio, &v_tok, verif_job_fn);
		if (v_readd_rc == 0) {
			v_adds++;
		}
	}
}

void harness(void)
{
	int32_t nd_p = V_P;   /* case split by variant */
	uint8_t nd_bystander = V_BYSTANDER, nd_readd = V_READD;   /* case split by variant: with symbolic queues CBMC runs out of memory (measured) */
	verif_alloc_calls = 0; verif_alloc_never_fails = 1; v_nfreed = 0;
	v_calls = 0; v_adds = 0; v_by_calls = 0; v_by_before = 0; v_readd_rc = 1;
	vl = malloc(sizeof(*vl));
	ASSUME(vl != NULL);
	for (int32_t p = 0; p < 3; p++) {
		vl->level[p].priority = p; vl->level[p].to_process = 4; vl->level[p].todo = 0; vl->level[p].l = vl;
		qb_list_init(&vl->level[p].job_head);
		qb_list_init(&vl->level[p].wait_head);
	}
	vl->stop_requested = QB_FALSE; vl->job_source = &vjs; vl->timer_source = NULL; vl->fd_source = NULL; vl->signal_source = NULL;
	vjs.l = vl; vjs.poll = get_more_jobs; vjs.dispatch_and_take_back = job_dispatch;
	ASSUME(nd_p >= QB_LOOP_LOW && nd_p <= QB_LOOP_HIGH);
	v_prio = nd_p;
	v_lev = nd_p == 0 ? &vl->level[0] : (nd_p == 1 ? &vl->level[1] : &vl->level[2]);   /* case split instead of a symbolic index */
	v_readd = nd_readd ? 1 : 0;

	/* from outside the loop */
	if (nd_bystander) {
		POST(qb_loop_job_add(vl, (enum qb_loop_priority)nd_p, &v_tok2, verif_job_fn) == 0, "a valid job is accepted");
	}
	POST(qb_loop_job_add(vl, (enum qb_loop_priority)nd_p, &v_tok, verif_job_fn) == 0, "a valid job is accepted");
	v_adds = 1;
	/* allocations succeed here: a refused add queues nothing (unit loop.job.add); a symbolic outcome makes the queues symbolic and the run too slow */

	/* iteration 1 */
	int32_t moved1 = get_more_jobs(&vjs, 0);
	POST(moved1 == 1 + (nd_bystander ? 1 : 0) && v_calls == 0, "an added job waits for the next iteration before it runs");
	qb_loop_run_level(v_lev);
	int readded = nd_readd && v_readd_rc == 0;
#if V_READD
	COVER(readded && v_calls == 1);
#else
	COVER(!readded && v_calls == 1);
#endif
	POST(v_calls >= 1 && v_calls <= v_adds, "a job never runs more often than it was added");
	POST(v_lev->todo == qb_list_length(&v_lev->job_head), "the level's count matches what is queued for dispatch");
	POST(qb_list_length(&v_lev->wait_head) + qb_list_length(&v_lev->job_head) == v_adds - v_calls, "a job added from inside a callback is queued exactly once");
	POST(v_nfreed == v_calls + (nd_bystander ? 1 : 0), "each dispatched job is freed exactly once");

	/* iteration 2 */
	int32_t moved2 = get_more_jobs(&vjs, 0);
	POST(moved2 <= (readded ? 1 : 0), "the job source moves only jobs that were added");
	qb_loop_run_level(v_lev);
	POST(v_calls == v_adds && v_adds == (readded ? 2 : 1), "a job runs exactly once per successful add");
	POST(!nd_bystander || (v_by_calls == 1 && v_by_before), "jobs of one priority run in the order they were added, each exactly once");
	POST(v_lev->todo == 0 && qb_list_empty(&v_lev->job_head) && qb_list_empty(&v_lev->wait_head), "after every added job has run nothing is queued or waiting");
	POST(v_nfreed == v_adds + (nd_bystander ? 1 : 0), "each dispatched job is freed exactly once");
	POST(get_more_jobs(&vjs, 0) == 0, "a job that has run is not queued again");
}
