/*UNIT
{"props": ["C08"], "src": ["lib/loop.c", "lib/loop_poll.c"], "mode": "plain", "kind": "bounded",
 "bound": "at most 3 items queued at the registration's level (any mix of deliveries of this signal registration, deliveries of another registration and other items); list walks unwound 5 times, the 64-signal scan of _adjust_sigactions_ fully unwound",
 "functions": ["qb_loop_signal_del", "qb_loop_level_item_del", "_adjust_sigactions_"],
 "unwindset": ["qb_loop_signal_del.0:5", "qb_loop_signal_del.1:5", "_adjust_sigactions_.0:3", "_adjust_sigactions_.1:70"],
 "stubs": ["signal/sigaction/sigemptyset/sigaddset (no effect on loop data)", "free (CBMC built-in)"],
 "drops": ["qb_util_log/qb_util_perror diagnostics compiled out (stubs/nolog.h)"],
 "expect_classes": ["assertion"], "timeout": 250, "cbmc_flags": ["--no-malloc-may-fail"],
 "variants": [{"vname": "at_most_one_queued", "defines": ["-DV_CLASS=(clones<=1)"]},
              {"vname": "several_queued", "defines": ["-DV_CLASS=(clones>=2)", "-DV_SEVERAL"]},
              {"vname": "several_queued_high", "defines": ["-DV_CLASS=(clones>=2)", "-DV_SEVERAL", "-DV_LEVEL=QB_LOOP_HIGH"]},
              {"vname": "at_most_one_queued_low", "defines": ["-DV_CLASS=(clones<=1)", "-DV_LEVEL=QB_LOOP_LOW"]}]}
*/
/* qb_loop_signal_del(handle) with deliveries of that registration already queued for dispatch: after it
 * returns success no queued item refers to the deleted registration any more (its callback can never be
 * invoked again, and the freed registration is never dereferenced), every other queued item stays queued
 * in order, and the level's count drops by exactly the number of removed deliveries.
 * Variant at_most_one_queued: zero or one delivery queued.  Variant several_queued: two or three.
 * The registration's priority is MED in these two, HIGH resp. LOW in the *_high / *_low variants (the delete walks every level). */
#ifndef V_LEVEL
#define V_LEVEL QB_LOOP_MED
#endif
#include "os_base.h"
#include <signal.h>
#include <qb/qbdefs.h>
#include <qb/qblist.h>
#include <qb/qbarray.h>
#include <qb/qbloop.h>
#include "loop_int.h"
#include "util_int.h"
#include "verif.h"
#include "nolog.h"
#include "signals.h"
#include "loop.c"
#include "loop_poll.c"

void harness(void)
{
	struct qb_loop *l = malloc(sizeof(*l));
	struct qb_signal_source *ss = malloc(sizeof(*ss));
	struct qb_loop_sig *sig = malloc(sizeof(*sig)), *other = malloc(sizeof(*other));
	struct qb_loop_sig *it0 = malloc(sizeof(*it0)), *it1 = malloc(sizeof(*it1)), *it2 = malloc(sizeof(*it2));
	struct qb_loop_sig *its[3] = {it0, it1, it2};
	VERIF_ND(int32_t, nd_n);
	VERIF_ND(int32_t, nd_signal);
	VERIF_ND(uint8_t, nd_kind0);
	VERIF_ND(uint8_t, nd_kind1);
	VERIF_ND(uint8_t, nd_kind2);
	uint8_t kind[3] = {nd_kind0, nd_kind1, nd_kind2};   /* 0: delivery of sig, 1: delivery of another registration, 2: not a signal item */
	ASSUME(l != NULL && ss != NULL && sig != NULL && other != NULL && it0 != NULL && it1 != NULL && it2 != NULL);
	ASSUME(nd_n >= 0 && nd_n <= 3 && nd_signal >= 1 && nd_signal < 64 && nd_kind0 <= 2 && nd_kind1 <= 2 && nd_kind2 <= 2);
	for (int32_t p = 0; p < 3; p++) {
		l->level[p].priority = p; l->level[p].to_process = 4; l->level[p].todo = 0; l->level[p].l = l;
		qb_list_init(&l->level[p].job_head);
		qb_list_init(&l->level[p].wait_head);
	}
	l->stop_requested = QB_FALSE; l->signal_source = (struct qb_loop_source *)ss;
	l->timer_source = NULL; l->job_source = NULL; l->fd_source = NULL;
	ss->s.l = l; ss->s.poll = NULL; ss->s.dispatch_and_take_back = _signal_dispatch_and_take_back_;
	qb_list_init(&ss->sig_head);
	sig->signal = nd_signal; sig->p = V_LEVEL; sig->dispatch_fn = NULL; sig->cloned_from = NULL;
	sig->item.source = &ss->s; sig->item.type = QB_LOOP_SIG; sig->item.user_data = NULL;
	qb_list_init(&sig->item.list);
	qb_list_add_tail(&sig->item.list, &ss->sig_head);
	*other = *sig; qb_list_init(&other->item.list);
	int32_t clones = 0;
	struct qb_loop_level *lev = &l->level[V_LEVEL];
	for (int32_t i = 0; i < 3; i++) {
		if (i < nd_n) {
			*its[i] = *sig;
			its[i]->cloned_from = kind[i] == 0 ? sig : other;
			its[i]->item.type = kind[i] == 2 ? QB_LOOP_FD : QB_LOOP_SIG;
			qb_loop_level_item_add(lev, &its[i]->item);
			if (kind[i] == 0) {
				clones++;
			}
		}
	}
	ASSUME(V_CLASS);
	int32_t todo0 = lev->todo;
	verif_sigaction_calls = 0; verif_signal_dfl_calls = 0;

	int32_t rc = qb_loop_signal_del(l, sig);

#ifdef V_SEVERAL
	COVER(clones == 3);
	COVER(clones == 2 && nd_n == 3 && kind[1] != 0);
#else
	COVER(clones == 1 && nd_n == 3 && kind[2] == 0);
	COVER(clones == 0 && nd_n == 3);
	COVER(nd_n == 0);
#endif
	POST(rc == 0, "deleting a signal registration through its handle succeeds");
	for (int32_t i = 0; i < 3; i++) {
		if (i < nd_n) {
			if (kind[i] == 0) {
				/* the removed delivery may have been freed: look for it in the queue instead of touching it */
				struct qb_list_head *it_;
				int steps_ = 0, found_ = 0;
				for (it_ = lev->job_head.next; it_ != &lev->job_head && steps_ < 4; it_ = it_->next, steps_++) {
					if (it_ == &its[i]->item.list) { found_ = 1; }
				}
				POST(!found_, "after a successful delete no queued delivery refers to the deleted signal registration (its callback is never invoked again)");
			} else {
				POST(!qb_list_empty(&its[i]->item.list), "deleting a registration leaves every other queued item queued");
			}
		}
	}
	POST(lev->todo == todo0 - clones, "every removed delivery is counted out exactly once");
	POST(qb_list_empty(&ss->sig_head), "the registration is removed from the source's list");
}
