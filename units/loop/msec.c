/*UNIT
{"props": ["C09"], "src": ["include/tlist.h"], "mode": "plain", "kind": "proved",
 "functions": ["timerlist_msec_duration_to_expire"],
 "stubs": ["pthread_mutex_* (sequential no-ops)", "qb_util_nano_current_get / qb_util_nano_from_epoch_get (ghost clocks, any 64-bit value)", "tick rate: case split 1000 / 10^9 per second (10^9 is what clock_getres gives on Linux)"],
 "expect_classes": ["assertion"], "timeout": 200, "cbmc_flags": ["--no-malloc-may-fail"],
 "variants": [{"vname": "hz1000", "defines": ["-DV_HZ=1000"]}, {"vname": "hz1e9", "defines": ["-DV_HZ=1000000000"]},
   {"vname": "slack_hz1000", "defines": ["-DV_HZ=1000", "-DV_SLACK"], "kind": "bounded", "bound": "times to expiry below 2^36 ns (69 s): the SAT/SMT back ends do not finish on the 64-bit division beyond that (2^38: 39 s, 2^40: > 280 s)"},
   {"vname": "slack_hz1e9", "defines": ["-DV_HZ=1000000000", "-DV_SLACK"], "kind": "bounded", "bound": "times to expiry below 2^36 ns (69 s)"}]}
*/
/* timerlist_msec_duration_to_expire for every 64-bit clock value and head expiry (loop-free; tick rate by case split):
 * (uint64_t)-1 ("no timeout") exactly when no timer is pending; 0 when the head is already due; otherwise
 * a wait that ends no later than the earliest expiry plus one clock tick. */
#include "tl.h"

void harness(void)
{
	struct timerlist tl;
	VERIF_ND(size_t, nd_n);
	VERIF_ND(uint64_t, nd_now);
	VERIF_ND(uint64_t, nd_epoch);
	uint64_t nd_hz = V_HZ;   /* constant per variant: division by a symbolic 64-bit divisor does not finish */
	VERIF_ND(uint8_t, nd_absolute);
	ASSUME(nd_n <= 3 && nd_hz >= 1);
	verif_alloc_calls = 0; verif_alloc_never_fails = 0; verif_mutex_depth = 0;
	tl_fn = NULL;
	tl_build(&tl, nd_n, TL_SLOTS);
	verif_now_mono = nd_now; verif_now_epoch = nd_epoch; verif_hz = nd_hz;
	timerlist_hertz = (int64_t)nd_hz;
	ASSUME(timerlist_hertz >= 1);
	uint64_t expire = 0, now = nd_now;
	if (nd_n > 0) {
		tl.heap_entries[0]->is_absolute_timer = nd_absolute ? QB_TRUE : QB_FALSE;
		expire = tl.heap_entries[0]->expire_time;
		now = nd_absolute ? nd_epoch : nd_now;
	}

	uint64_t ms = timerlist_msec_duration_to_expire(&tl);

	uint64_t tick_ms = 1000 / nd_hz;
	POST(verif_mutex_depth == 0, "the list lock is released on every exit");
	if (nd_n == 0) {
		COVER(1);
		POST(ms == (uint64_t)-1, "no timeout is reported exactly when no timer is pending");
	} else {
		COVER(nd_absolute && expire > now);
		COVER(expire < now);
		COVER(expire - now > ((uint64_t)1 << 62) && expire > now);
		POST(ms != (uint64_t)-1, "with a timer pending the wait is never indefinite");
		if (expire < now) {
			POST(ms == 0, "no wait when the earliest timer is already due");
		} else {
			/* ms whole milliseconds end no later than the expiry plus one tick: (ms - tick_ms) * 10^6 ns <= expire - now
			 * (stated with a multiplication: a second 64-bit division makes the solver time out) */
			POST(ms <= UINT64_MAX / QB_TIME_NS_IN_MSEC + tick_ms, "the wait is a finite number of milliseconds");
#ifdef V_SLACK
			if (expire - now < ((uint64_t)1 << 36))   /* bounded stand-in, see "bound" */
			POST(ms <= tick_ms || (ms - tick_ms <= UINT64_MAX / QB_TIME_NS_IN_MSEC && (ms - tick_ms) * QB_TIME_NS_IN_MSEC <= expire - now),
			     "the wait ends no later than the earliest expiry plus one clock tick");
#endif
		}
	}
}
