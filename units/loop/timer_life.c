/*UNIT
{"props": ["C08"], "src": ["lib/loop.c", "lib/loop_timerlist.c"], "mode": "plain", "kind": "proved",
 "bound": "none for the slot state machine; the surrounding timer heap holds at most 3 timers and the level queue at most 3 items (the operations touch only the item and its two neighbours)",
 "functions": ["timer_dispatch", "make_job_from_tmo", "qb_loop_timer_del", "qb_loop_level_item_del", "timerlist_del"],
 "stubs": ["qb_array_index (C19 contract over the slot model)", "pthread_mutex_* (sequential no-ops)", "user timer callback (tries to use its own handle)"],
 "drops": ["qb_util_log/qb_util_perror diagnostics compiled out (stubs/nolog.h)"],
 "restrict_fp": ["timer_dispatch.function_pointer_call.1/verif_timer_cb"],
 "unwindset": ["timerlist_heap_sift_up.0:3", "timerlist_heap_sift_down.0:3"],
 "expect_classes": ["assertion"], "timeout": 250, "cbmc_flags": ["--no-malloc-may-fail"],
 "variants": [{"vname": "dispatch", "defines": ["-DV_DISPATCH", "-DTL_NMAX=3"]}, {"vname": "del_queued", "defines": ["-DV_DEL_QUEUED", "-DTL_NMAX=3"]},
              {"vname": "del_pending", "defines": ["-DV_DEL_PENDING", "-DTL_NMAX=3"]}, {"vname": "expired", "defines": ["-DV_EXPIRED", "-DTL_NMAX=3"]}]}
*/
/* Life cycle of one timer registration (slot T of the timers array, any index, any positive check word):
 *  expired     make_job_from_tmo: a pending (ACTIVE) timer is queued once at the tail of its level (JOBLIST);
 *  dispatch    timer_dispatch: the timer's own handle is already
 *              stale during and after its callback (delete through it is refused and changes nothing), the
 *              callback runs once with the registered data, the slot is EMPTY afterwards;
 *  del_queued  qb_loop_timer_del of a timer already queued for dispatch: it is unlinked from its level (count - 1)
 *              so its callback can no longer run, the slot becomes EMPTY;
 *  del_pending qb_loop_timer_del of a pending timer: its heap entry is removed (other timers stay), slot EMPTY. */
#include "ts.h"

static void verif_other_slot_havoc(int32_t idx)
{
	VERIF_ND(int32_t, nd_o_state);
	VERIF_ND(int32_t, nd_o_check);
	ASSUME(nd_o_state >= 0 && nd_o_state <= 3);
	VO->state = nd_o_state; VO->check = nd_o_check; VO->timerlist_handle = NULL;
}

static qb_loop_timer_handle v_own_handle;
static int v_cb_calls;
static void *v_cb_data;
static int v_user_token;
static struct qb_loop_item v_a, v_b;   /* other queued items (neighbours) */

static void verif_timer_cb(void *data)
{
	v_cb_calls++;
	v_cb_data = data;
	POST(qb_loop_timer_del(ts_l, v_own_handle) != 0, "during its own callback a timer's handle is already stale: delete is refused");
	POST(VT->state == QB_POLL_ENTRY_JOBLIST, "a refused delete from the callback changes nothing");
}

void harness(void)
{
	VERIF_ND(int32_t, nd_tidx);
	VERIF_ND(int32_t, nd_check);
	VERIF_ND(int32_t, nd_p);
	VERIF_ND(size_t, nd_n);
	VERIF_ND(size_t, nd_pos);
	VERIF_ND(uint8_t, nd_before);
	VERIF_ND(uint8_t, nd_after);
#if defined(V_DISPATCH) || defined(V_DEL_QUEUED) || defined(V_EXPIRED)
	nd_n = 0;   /* the timer heap plays no role in these variants */
#endif
	ASSUME(nd_n <= TL_NMAX && nd_p >= 0 && nd_p <= 2 && nd_check > 0);
	verif_alloc_calls = 0; verif_alloc_never_fails = 0; verif_mutex_depth = 0;
	tl_fn = make_job_from_tmo;
	verif_Tidx = nd_tidx;
	ts_build(nd_n);
	ASSUME(nd_tidx >= 0 && (size_t)nd_tidx < ts_src->timer_entry_count);
	v_own_handle = (((uint64_t)(uint32_t)nd_check) << 32) | (uint32_t)nd_tidx;
	v_cb_calls = 0; v_cb_data = NULL;
	VT->check = nd_check; VT->install_pos = (uint32_t)nd_tidx; VT->p = QB_LOOP_MED; /* constant level index: a symbolic index into level[] exhausts memory */ VT->dispatch_fn = verif_timer_cb;
	VT->item.source = (struct qb_loop_source *)ts_src; VT->item.user_data = &v_user_token; VT->item.type = QB_LOOP_TIMER;
	VT->timerlist_handle = NULL;
	qb_list_init(&VT->item.list);
	struct qb_loop_level *lev = &ts_l->level[1];   /* fixed level object; its priority value is symbolic */
	lev->priority = nd_p;
	/* the level queue: optionally one item before and one after T */
	v_a.source = NULL; v_b.source = NULL;
	if (nd_before) {
		qb_loop_level_item_add(lev, &v_a);
	}

#ifdef V_EXPIRED
	VT->state = QB_POLL_ENTRY_ACTIVE;
	int32_t todo0 = lev->todo;
	expired_timers = 0;
	make_job_from_tmo(VT);
	COVER(nd_before);
	COVER(!nd_before);
	POST(VT->state == QB_POLL_ENTRY_JOBLIST, "an expired timer is queued for dispatch");
	POST(lev->todo == todo0 + 1 && expired_timers == 1, "an expired timer is queued exactly once");
	POST(lev->job_head.prev == &VT->item.list && VT->item.list.next == &lev->job_head, "an expired timer is queued at the tail of its level");
	POST(nd_before ? (lev->job_head.next == &v_a.list && v_a.list.next == &VT->item.list) : lev->job_head.next == &VT->item.list, "items queued earlier stay ahead of it");
#endif

#ifdef V_DISPATCH
	VT->state = QB_POLL_ENTRY_JOBLIST;   /* qb_loop_run_level has unlinked the item before dispatching it */
	timer_dispatch(&VT->item, nd_p);
	COVER(1);
	POST(v_cb_calls == 1 && v_cb_data == &v_user_token, "the timer callback runs exactly once with the registered data");
	POST(VT->state == QB_POLL_ENTRY_EMPTY, "after its callback the timer's slot is free for reuse");
	POST(qb_loop_timer_is_running(ts_l, v_own_handle) == 0, "after it fired a timer is no longer reported as running through its old handle");
#endif

#ifdef V_DEL_QUEUED
	VT->state = QB_POLL_ENTRY_JOBLIST;
	qb_loop_level_item_add(lev, &VT->item);
	if (nd_after) {
		qb_loop_level_item_add(lev, &v_b);
	}
	int32_t todo0 = lev->todo;
	int32_t rc = qb_loop_timer_del(ts_l, v_own_handle);
	COVER(nd_before && nd_after);
	COVER(!nd_before && !nd_after);
	POST(rc == 0, "deleting a queued timer through its valid handle succeeds");
	POST(qb_list_empty(&VT->item.list), "a deleted timer that was already queued is unlinked, so its callback is never invoked");
	POST(lev->todo == todo0 - 1, "deleting a queued timer counts it out exactly once");
	POST(VT->state == QB_POLL_ENTRY_EMPTY, "a deleted timer's slot is free");
	struct qb_list_head *first = nd_before ? &v_a.list : (nd_after ? &v_b.list : &lev->job_head);
	POST(lev->job_head.next == first, "the other queued items keep their order");
	POST(!(nd_before && nd_after) || (v_a.list.next == &v_b.list && v_b.list.prev == &v_a.list), "the neighbours of the deleted item are linked to each other");
	POST(ts_src->timerlist.size == nd_n, "deleting a queued timer leaves the pending timers alone");
	POST(v_cb_calls == 0, "delete does not run the callback");
#endif

#ifdef V_DEL_PENDING
	ASSUME(nd_n >= 1 && nd_pos < nd_n);
	VT->state = QB_POLL_ENTRY_ACTIVE;
	struct timerlist_timer *ht = tl_t[nd_pos];
	ht->data = VT; ht->handle_addr = &VT->timerlist_handle;
	VT->timerlist_handle = ht;
	int32_t todo0 = lev->todo;
	int32_t rc = qb_loop_timer_del(ts_l, v_own_handle);
	COVER(nd_n == 3 && nd_pos == 0);
	COVER(nd_n == 1);
	POST(rc == 0, "deleting a pending timer through its valid handle succeeds");
	POST(ts_src->timerlist.size == nd_n - 1 && tl_count(&ts_src->timerlist, ht) == 0, "a deleted timer leaves the heap, so it can never expire");
	POST(VT->state == QB_POLL_ENTRY_EMPTY && VT->timerlist_handle == NULL, "a deleted timer's slot is free");
	POST(lev->todo == todo0, "deleting a pending timer does not touch the level queues");
	POST(tl_heap_ok(&ts_src->timerlist) && tl_pos_ok(&ts_src->timerlist), "after a delete the earliest expiry is at the head of the heap (timers are dispatched in expiry order)");
	POST(v_cb_calls == 0, "delete does not run the callback");
#endif
}
