/* common prelude of the lib/loop_timerlist.c units: real lib/loop.c (level lists) + real include/tlist.h
 * (timer heap) + real lib/loop_timerlist.c on top of
 *   - the slot model of the timers array: qb_array_index/grow are stubs implementing the contract proved
 *     for lib/array.c in C19 (stable element addresses, distinct storage per index, range errors):
 *       T = the slot with index verif_Tidx (the slot an operation on a handle touches),
 *       O = stands for every other slot; re-drawn by the unit's hook each time a different index is looked up;
 *   - ghost clocks, sequential mutexes, malloc that may fail, random() returning any value.
 * A unit defines TS_STUB_TL_MSEC to replace the (separately verified) 64-bit timerlist_msec_duration_to_expire
 * by its contract. */
#ifndef VERIF_LOOP_TS_H
#define VERIF_LOOP_TS_H
#include "os_base.h"
#include <pthread.h>
#include <qb/qbdefs.h>
#include <qb/qblist.h>
#include <qb/qbarray.h>
#include <qb/qbloop.h>
#include "loop_int.h"
#include "util_int.h"
#include "verif.h"
#include "nolog.h"
#include "tl.h"      /* clock, mutex, alloc stubs, the real tlist.h and the heap builder */

void *verif_T_ptr, *verif_O_ptr;     /* storage of slot T and of the "any other" slot (allocated by the harness) */
int32_t verif_Tidx, verif_last_other_idx;
size_t verif_arr_max;                /* ghost: max_elements of the timers array */
int verif_arr_token;
int verif_grow_may_fail;
unsigned verif_index_calls;
unsigned verif_grow_failures;        /* ghost: number of refused qb_array_grow calls (harness zeroes it) */
static void verif_other_slot_havoc(int32_t idx);   /* unit hook: draw the content of another slot */

static int32_t verif_qb_array_index(qb_array_t *a, int32_t idx, void **element_out)
{
	POST(a == (qb_array_t *)&verif_arr_token, "array handle passed through unchanged");
	verif_index_calls++;
	if (idx < 0 || (size_t)idx >= verif_arr_max) {
		return -ERANGE;
	}
	if (idx == verif_Tidx) {
		*element_out = verif_T_ptr;
		return 0;
	}
	if (idx != verif_last_other_idx) {
		verif_other_slot_havoc(idx);
		verif_last_other_idx = idx;
	}
	*element_out = verif_O_ptr;
	return 0;
}

static int32_t verif_qb_array_grow(qb_array_t *a, size_t max_elements)
{
	VERIF_ND(uint8_t, nd_grow_fails);
	if (max_elements > 65536) {
		return -EINVAL;
	}
	if (nd_grow_fails && verif_grow_may_fail) {
		verif_grow_failures++;
		return -ENOMEM;
	}
	if (max_elements > verif_arr_max) {
		verif_arr_max = max_elements;
	}
	return 0;
}

static long verif_random(void)
{
	VERIF_ND(int32_t, nd_random);
	ASSUME(nd_random >= 0);   /* random() returns a value in [0, 2^31) */
#ifdef TS_RANDOM_ASSUME
	ASSUME(TS_RANDOM_ASSUME(nd_random));   /* unit-declared assumption about the generator (listed in the unit's stubs) */
#endif
	return nd_random;
}
#define qb_array_index verif_qb_array_index
#define qb_array_grow verif_qb_array_grow
#define random verif_random

#ifdef TS_STUB_TL_MSEC
/* contract of timerlist_msec_duration_to_expire (decided by the units loop.msec.*): (uint64_t)-1 exactly
 * when no timer is pending, otherwise a finite number of milliseconds (at most 2^64 / 10^6 + 1000) */
uint64_t verif_left64;
static uint64_t verif_tl_msec(struct timerlist *tl)
{
	VERIF_ND(uint64_t, nd_left);
	if (tl->size == 0) {
		verif_left64 = (uint64_t)-1;
	} else {
		ASSUME(nd_left <= UINT64_MAX / QB_TIME_NS_IN_MSEC + 1000);
		verif_left64 = nd_left;
	}
	return verif_left64;
}
#define timerlist_msec_duration_to_expire verif_tl_msec
#endif

#include "loop.c"
#include "loop_timerlist.c"

#define VT ((struct qb_loop_timer *)verif_T_ptr)
#define VO ((struct qb_loop_timer *)verif_O_ptr)

static struct qb_loop *ts_l;
static struct qb_timer_source *ts_src;

/* a loop with empty levels and a timer source whose heap holds n (<= TL_NMAX) arbitrary pending timers */
static void ts_build(size_t n)
{
	VERIF_ND(size_t, nd_arrmax);
	VERIF_ND(size_t, nd_entry_count);
	int never0 = verif_alloc_never_fails;
	verif_alloc_never_fails = 1;
	ts_l = malloc(sizeof(*ts_l));
	ts_src = malloc(sizeof(*ts_src));
	verif_T_ptr = malloc(sizeof(struct qb_loop_timer));
	verif_O_ptr = malloc(sizeof(struct qb_loop_timer));
	ASSUME(ts_l != NULL && ts_src != NULL && verif_T_ptr != NULL && verif_O_ptr != NULL);
	verif_alloc_never_fails = never0;
	for (int32_t p = 0; p < 3; p++) {
		ts_l->level[p].priority = p;
		ts_l->level[p].to_process = 4;
		ts_l->level[p].todo = 0;
		ts_l->level[p].l = ts_l;
		qb_list_init(&ts_l->level[p].job_head);
		qb_list_init(&ts_l->level[p].wait_head);
	}
	ts_l->stop_requested = QB_FALSE;
	ts_l->timer_source = (struct qb_loop_source *)ts_src;
	ts_l->job_source = NULL; ts_l->fd_source = NULL; ts_l->signal_source = NULL;
	ts_src->s.l = ts_l;
	ts_src->s.dispatch_and_take_back = timer_dispatch;
	ts_src->s.poll = expire_the_timers;
	ts_src->timers = (qb_array_t *)&verif_arr_token;
	ASSUME(nd_arrmax >= 16 && nd_arrmax <= 65536 && nd_entry_count <= nd_arrmax);
	ts_src->timer_entry_count = nd_entry_count;
	verif_arr_max = nd_arrmax;
	verif_last_other_idx = -1;
	verif_grow_may_fail = 1;
	verif_index_calls = 0;
	tl_build(&ts_src->timerlist, n, TL_SLOTS);
	/* both slots live at the MED level (a symbolic level index reached through either slot exhausts memory) */
	VT->p = QB_LOOP_MED; VO->p = QB_LOOP_MED;
	VO->timerlist_handle = NULL; VO->install_pos = 0; VO->dispatch_fn = NULL; VO->state = QB_POLL_ENTRY_EMPTY; VO->check = 0;
	VO->item.source = (struct qb_loop_source *)ts_src; VO->item.user_data = NULL; VO->item.type = QB_LOOP_TIMER;
	qb_list_init(&VO->item.list);
}
#endif
