/* common prelude of the descriptor-source units: real lib/loop.c + lib/loop_poll.c + lib/loop_poll_epoll.c on top of
 *   - the slot model of the poll_entries array (qb_array_index/grow: C19 contract):
 *       T = slot verif_Tidx (the entry an operation is about), W = slot verif_Widx (frame witness: an arbitrary
 *       other registration that must keep its content), O = any other slot, re-drawn by the unit's hook
 *       verif_other_entry() each time a different index is looked up;
 *   - epoll / rlimit stubs (stubs/epoll.h), signal API stubs, random() returning any value >= 0.
 * All modelled entries live at the MED level (a symbolic level index exhausts memory). */
#ifndef VERIF_LOOP_PL_H
#define VERIF_LOOP_PL_H
#include "os_base.h"
#include <signal.h>
#include <sys/resource.h>
#include "loop_poll_int.h"
#include "verif.h"
#include "nolog.h"
#include "signals.h"
#include "epoll.h"
#include "alloc.h"

struct qb_poll_entry verif_PT, verif_PW, verif_PO;
int32_t verif_Tidx, verif_Widx, verif_last_other_idx;
size_t verif_arr_max;
int verif_arr_token;
int verif_grow_may_fail;
static void verif_other_entry(int32_t idx);   /* unit hook: draw the content of another slot into verif_PO */

static int32_t verif_qb_array_index(qb_array_t *a, int32_t idx, void **element_out)
{
	POST(a == (qb_array_t *)&verif_arr_token, "array handle passed through unchanged");
	if (idx < 0 || (size_t)idx >= verif_arr_max) {
		return -ERANGE;
	}
	if (idx == verif_Tidx) {
		*element_out = &verif_PT;
		return 0;
	}
	if (idx == verif_Widx) {
		*element_out = &verif_PW;
		return 0;
	}
	if (idx != verif_last_other_idx) {
		verif_other_entry(idx);
		verif_last_other_idx = idx;
	}
	*element_out = &verif_PO;
	return 0;
}
static int32_t verif_qb_array_grow(qb_array_t *a, size_t max_elements)
{
	VERIF_ND(uint8_t, nd_grow_fails);
	if (max_elements > 65536) {
		return -EINVAL;
	}
	if (nd_grow_fails && verif_grow_may_fail) {
		return -ENOMEM;
	}
	if (max_elements > verif_arr_max) {
		verif_arr_max = max_elements;
	}
	return 0;
}
static long verif_random(void)
{
	VERIF_ND(int32_t, nd_random);
	ASSUME(nd_random > 0);   /* assumed: random() yields a non-zero value on the first try (the code retries up to 200 times) */
	return nd_random;
}
#define qb_array_index verif_qb_array_index
#define qb_array_grow verif_qb_array_grow
#define random verif_random

#include "loop.c"
#include "loop_poll.c"
#include "loop_poll_epoll.c"

static struct qb_loop *pl_l;
static struct qb_poll_source *pl_s;
static struct qb_loop_level *pl_lev;      /* the MED level */
static int32_t pl_low_fds_calls;
static void verif_low_fds_fn(int32_t not_enough, int32_t fds_available) { pl_low_fds_calls++; }

/* entry invariant by state (what the operations of the source establish):
 *   DELETED (tombstone)  fd == -1 (so it never matches a descriptor number)
 *   ACTIVE / JOBLIST     check != 0, fd != -1 or a deleted-looking leftover is impossible
 *   EMPTY                never looked at except for reuse; VERIF_EMPTY_CLEAN says fd == -1 */
static void pl_draw_entry(struct qb_poll_entry *pe, int32_t idx)
{
	VERIF_ND(int32_t, nd_e_state);
	VERIF_ND(int32_t, nd_e_fd);
	VERIF_ND(uint32_t, nd_e_check);
	VERIF_ND(uint8_t, nd_e_sig);
	VERIF_ND(int16_t, nd_e_events);
	ASSUME(nd_e_state >= 0 && nd_e_state <= 3);
	pe->state = nd_e_state;
	pe->ufd.fd = nd_e_fd; pe->ufd.events = nd_e_events; pe->ufd.revents = 0;
	pe->check = nd_e_check;
	pe->install_pos = (uint32_t)idx;
	pe->p = QB_LOOP_MED;
	pe->item.type = nd_e_sig ? QB_LOOP_SIG : QB_LOOP_FD;
	pe->item.source = (struct qb_loop_source *)pl_s;
	pe->item.user_data = NULL;
	pe->poll_dispatch_fn = NULL;
	pe->add_to_jobs = _qb_poll_add_to_jobs_;
	pe->runs = 0;
	qb_list_init(&pe->item.list);
	if (nd_e_state == QB_POLL_ENTRY_DELETED) {
		ASSUME(nd_e_fd == -1);
	}
	if (nd_e_state == QB_POLL_ENTRY_ACTIVE || nd_e_state == QB_POLL_ENTRY_JOBLIST) {
		ASSUME(nd_e_check != 0 && nd_e_fd >= 0);
	}
}

static void pl_build(void)
{
	VERIF_ND(size_t, nd_arrmax);
	VERIF_ND(int32_t, nd_entry_count);
	int never0 = verif_alloc_never_fails;
	verif_alloc_never_fails = 1;
	pl_l = malloc(sizeof(*pl_l));
	pl_s = malloc(sizeof(*pl_s));
	ASSUME(pl_l != NULL && pl_s != NULL);
	verif_alloc_never_fails = never0;
	for (int32_t p = 0; p < 3; p++) {
		pl_l->level[p].priority = p;
		pl_l->level[p].to_process = 4;
		pl_l->level[p].todo = 0;
		pl_l->level[p].l = pl_l;
		qb_list_init(&pl_l->level[p].job_head);
		qb_list_init(&pl_l->level[p].wait_head);
	}
	pl_lev = &pl_l->level[QB_LOOP_MED];
	pl_l->stop_requested = QB_FALSE;
	pl_l->fd_source = (struct qb_loop_source *)pl_s;
	pl_l->timer_source = NULL; pl_l->job_source = NULL; pl_l->signal_source = NULL;
	pl_s->s.l = pl_l;
	pl_s->s.dispatch_and_take_back = _poll_dispatch_and_take_back_;
	pl_s->s.poll = _poll_and_add_to_jobs_;
	pl_s->poll_entries = (qb_array_t *)&verif_arr_token;
	ASSUME(nd_arrmax >= 16 && nd_arrmax <= 65536 && nd_entry_count >= 0 && (size_t)nd_entry_count <= nd_arrmax && nd_entry_count <= PL_COUNT_MAX);
	pl_s->poll_entry_count = nd_entry_count;
	pl_s->low_fds_event_fn = verif_low_fds_fn;
	pl_s->not_enough_fds = QB_FALSE;
	pl_s->epollfd = 3;
	pl_s->driver.fini = _fini; pl_s->driver.add = _add; pl_s->driver.mod = _mod; pl_s->driver.del = _del; pl_s->driver.poll = NULL;
	verif_arr_max = nd_arrmax;
	verif_last_other_idx = -1;
	verif_grow_may_fail = 1;
	verif_Tidx = -1; verif_Widx = -1;
	verif_epctl_calls = 0; verif_epctl_may_fail = 1; verif_epwait_calls = 0; verif_ep_n = 0; verif_ep_eintr_first = 0; verif_ep_fails = 0;
	pl_low_fds_calls = 0;
}
#endif
