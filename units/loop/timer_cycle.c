/*UNIT
{"props": ["C08"], "src": ["lib/loop.c", "lib/loop_timerlist.c", "include/tlist.h"], "mode": "plain", "kind": "bounded",
 "bound": "one timer on an empty timer source (slot 0), concrete clock values (added at 1000 for 500 ns, polled at 1501), concrete check words; one full life: add, expiry pass once due, dispatch round, a second expiry pass and dispatch round (reuse of the freed slot: loop.timer_add.added); loops unwound with unwinding assertions; the check-word retry loop runs at most twice (scripted random())",
 "functions": ["qb_loop_timer_add", "expire_the_timers", "timerlist_expire", "make_job_from_tmo", "qb_loop_run_level", "timer_dispatch", "qb_loop_timer_del", "qb_loop_timer_is_running", "_timer_from_handle_", "_get_empty_array_position_"],
 "restrict_fp": ["timerlist_expire.function_pointer_call.1/make_job_from_tmo", "qb_loop_run_level.function_pointer_call.1/timer_dispatch", "timer_dispatch.function_pointer_call.1/verif_timer_cb"],
 "unwindset": ["timerlist_expire.0:3", "timerlist_heap_sift_up.0:2", "timerlist_heap_sift_down.0:2", "qb_loop_run_level.0:2", "_get_empty_array_position_.0:3", "qb_loop_timer_add.0:4"],
 "defines": ["-DTL_NMAX=1"],
 "stubs": ["qb_array_index/qb_array_grow (C19 contract over the slot model)", "malloc/realloc (fresh object)", "clock (ghost value, advanced by the harness)", "pthread_mutex_* (sequential no-ops)",
           "random(): scripted concrete values (0 on the first try, then 0x1234567)",
           "user timer callback (tries to delete and to query its own handle)"],
 "drops": ["qb_util_log/qb_util_perror diagnostics compiled out (stubs/nolog.h)"],
 "expect_classes": ["assertion"], "timeout": 250, "cbmc_flags": ["--no-malloc-may-fail"]}
*/
/* One timer through its whole life on the real code, composed the way qb_loop_run does it (timer source poll =
 * expire_the_timers, then the dispatch round of the timer's level):
 *   add -> pending and running; once due: queued exactly once, no longer
 *   "running"; the dispatch round runs its callback exactly once with the registered data; inside the callback the
 *   timer's own handle is already stale (delete refused, not running); afterwards the slot is free, nothing is pending
 *   or queued, further expiry passes and dispatch rounds never run the callback again (a timer runs exactly once) and
 *   the handle stays stale.  (Not yet due: loop.timer_expire_del; reuse of the freed slot: loop.timer_add.added.) */
#include <stdint.h>
static int32_t v_old_check;
static unsigned v_random_calls;
/* concrete check words (0 on the first try of the first add, so that the retry is exercised): with symbolic ones the slot
 * index recovered from the handle becomes symbolic and CBMC runs out of memory; arbitrary check words are covered by
 * loop.timer_add.added and loop.timer_handle */
static int v_random_ok(int32_t r) { v_random_calls++; return r == (v_random_calls < 2 ? 0 : 0x1234567); }
#define TS_RANDOM_ASSUME(r) v_random_ok(r)
#include "ts.h"

static void verif_other_slot_havoc(int32_t idx)
{
	POST(0, "with one slot in use no other slot is looked at");
}
static qb_loop_timer_handle v_h;
static int v_calls, v_token, v_del_in_cb, v_running_in_cb;
static void *v_cb_data;
static void verif_timer_cb(void *data)
{
	v_calls++; v_cb_data = data;
	v_del_in_cb = qb_loop_timer_del(ts_l, v_h);
	v_running_in_cb = qb_loop_timer_is_running(ts_l, v_h);
}

void harness(void)
{
	/* concrete clock values: the time arithmetic is decided for all 64-bit values in the C09 units (add_duration, expire, msec) */
	uint64_t nd_duration = 500, nd_now = 1000, nd_late = 1501;
	verif_alloc_calls = 0; verif_alloc_never_fails = 1; verif_mutex_depth = 0;
	tl_fn = make_job_from_tmo;
	verif_Tidx = 0;
	ts_build(0);
	verif_grow_may_fail = 0;
	ts_src->timer_entry_count = 0; verif_arr_max = 16;   /* a fresh timer source (qb_loop_timer_create); constants keep the slot index concrete */
	memset(VT, 0, sizeof(*VT));   /* a slot never used: zeroed by the array (C19) */
	struct qb_loop_level *lev = &ts_l->level[QB_LOOP_MED];
	ASSUME(nd_now > 0 && nd_duration <= UINT64_MAX - nd_now - 2);
	verif_now_mono = nd_now; verif_now_epoch = 0; verif_hz = 1000;
	v_calls = 0; v_del_in_cb = 0; v_running_in_cb = 1; v_old_check = 0; v_random_calls = 0; v_h = 0;

	/* add */
	int32_t rc = qb_loop_timer_add(ts_l, QB_LOOP_MED, nd_duration, &v_token, verif_timer_cb, &v_h);
	POST(rc == 0 && VT->state == QB_POLL_ENTRY_ACTIVE && ts_src->timerlist.size == 1 && ts_src->timer_entry_count == 1, "an added timer is pending");
	POST(qb_loop_timer_is_running(ts_l, v_h) == 1 && qb_loop_timer_expire_time_get(ts_l, v_h) == nd_now + nd_duration, "a pending timer is reported as running through the handle returned");
	/* cut point (see below): the handle is the scripted check word and slot 0; continue with the constant */
	POST(v_h == (((uint64_t)0x1234567) << 32) && VT->check == 0x1234567 && VT->install_pos == 0 && VT->p == QB_LOOP_MED, "the handle returned is the slot's check word and index");
	v_h = ((uint64_t)0x1234567) << 32; VT->check = 0x1234567; VT->install_pos = 0; VT->p = QB_LOOP_MED;
	qb_loop_timer_handle h1 = v_h;

	/* the expiry pass after it became due */
	ASSUME(nd_late > nd_now + nd_duration);
	verif_now_mono = nd_late;
	int32_t fired = expire_the_timers(&ts_src->s, 0);
	COVER(fired == 1);
	POST(fired == 1 && VT->state == QB_POLL_ENTRY_JOBLIST && lev->todo == 1 && lev->job_head.next == &VT->item.list && ts_src->timerlist.size == 0, "a due timer is queued for dispatch exactly once");
	POST(qb_loop_timer_is_running(ts_l, h1) == 0, "a timer that is queued for dispatch is no longer reported as running");

	/* cut point: the queue has just been shown to hold exactly this item; writing the same links again with constant
	 * operands is a no-op semantically and keeps CBMC's level index concrete in the dispatch round (otherwise it runs out of memory) */
	POST(lev->job_head.prev == &VT->item.list && VT->item.list.next == &lev->job_head && VT->item.list.prev == &lev->job_head && VT->p == QB_LOOP_MED,
	     "a due timer is queued for dispatch exactly once");
	qb_list_init(&lev->job_head); lev->todo = 0;
	qb_loop_level_item_add(lev, &VT->item);
	VT->p = QB_LOOP_MED;

	/* its dispatch round */
	qb_loop_run_level(lev);
	POST(v_calls == 1 && v_cb_data == &v_token, "the timer callback runs exactly once with the registered data");
	POST(v_del_in_cb != 0 && v_running_in_cb == 0, "during its own callback a timer's handle is already stale: delete is refused and it is not running");
	POST(VT->state == QB_POLL_ENTRY_EMPTY && lev->todo == 0 && qb_list_empty(&lev->job_head) && ts_src->timerlist.size == 0, "after it fired nothing of the timer is pending or queued and its slot is free");

	/* later iterations */
	POST(expire_the_timers(&ts_src->s, 0) == 0, "a timer that has fired does not expire again");
	qb_loop_run_level(lev);
	POST(v_calls == 1, "a timer runs exactly once");
	POST(qb_loop_timer_del(ts_l, h1) != 0 && qb_loop_timer_is_running(ts_l, h1) == 0 && VT->state == QB_POLL_ENTRY_EMPTY, "the handle of a timer that has fired is stale");

	COVER(v_calls == 1);
	POST(verif_mutex_depth == 0, "locks are balanced");
}
