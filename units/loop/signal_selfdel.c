/*UNIT
{"props": ["C08"], "src": ["lib/loop.c", "lib/loop_poll.c"], "mode": "plain", "kind": "bounded",
 "bound": "one signal registration (signal 10), one or two deliveries of it queued at its level and nothing else; the dispatch round (backward goto of qb_loop_run_level) and the list walks unwound as far as these queues need (2-3 times, with unwinding assertions), the signal-number scan of _adjust_sigactions_ fully unwound (compile-time constant)",
 "functions": ["qb_loop_run_level", "_signal_dispatch_and_take_back_", "qb_loop_signal_del (called for the registration whose delivery is being dispatched)", "qb_loop_level_item_del", "_adjust_sigactions_"],
 "restrict_fp": ["qb_loop_run_level.function_pointer_call.1/_signal_dispatch_and_take_back_", "_signal_dispatch_and_take_back_.function_pointer_call.1/verif_sig_cb"],
 "unwindset": ["qb_loop_run_level.0:3", "qb_loop_signal_del.0:2", "qb_loop_signal_del.1:3", "_adjust_sigactions_.0:2", "_adjust_sigactions_.1:70"],
 "stubs": ["free (recorded, then the built-in free: double free and use after free are checked)", "signal/sigaction/sigset functions (no effect on loop data)", "user signal callback (scripted per variant)"],
 "drops": ["qb_util_log/qb_util_perror diagnostics compiled out (stubs/nolog.h)"],
 "expect_classes": ["assertion"], "timeout": 250, "cbmc_flags": ["--no-malloc-may-fail"],
 "variants": [{"vname": "nonzero_return_one", "defines": ["-DV_CB_RES=-1", "-DV_CB_DELETES=0", "-DV_SECOND=0"]},
              {"vname": "nonzero_return_two", "defines": ["-DV_CB_RES=-1", "-DV_CB_DELETES=0", "-DV_SECOND=1"]},
              {"vname": "deletes_itself", "defines": ["-DV_CB_RES=0", "-DV_CB_DELETES=1"]}]}
*/
/* A signal callback that removes its own registration while one more delivery of the same registration may still be
 * queued behind the one being dispatched -- either by returning a negative value (libqb removes the registration on any non-zero return: the loop
 * then calls qb_loop_signal_del for it) or by calling qb_loop_signal_del on its own handle and returning 0.  Through the real dispatch round
 * (qb_loop_run_level): the callback runs exactly once (the second queued delivery is removed by the delete and is
 * never dispatched), the registration and each delivery are freed exactly once (no use after free, no double free:
 * memory-safety obligations), the level's count ends at 0, and the source's list is empty. */
#include "os_base.h"
#include <signal.h>
#include <qb/qbdefs.h>
#include <qb/qblist.h>
#include <qb/qbarray.h>
#include <qb/qbloop.h>
#include "loop_int.h"
#include "util_int.h"
#include "verif.h"
#include "nolog.h"
#include "signals.h"
static void *v_freed[4];
static int v_nfreed;
static void verif_sig_free(void *p) { if (v_nfreed < 4) { v_freed[v_nfreed] = p; } v_nfreed++; free(p); }
#define free verif_sig_free
#include "loop.c"
#include "loop_poll.c"
#undef free

static struct qb_loop *vl;
static struct qb_loop_sig *v_reg;
static int v_calls, v_tok, v_del_rc;
static int32_t v_cb_sig;
static void *v_cb_data;
static int32_t verif_sig_cb(int32_t sig, void *data)
{
	v_calls++; v_cb_sig = sig; v_cb_data = data;
	if (V_CB_DELETES) {
		v_del_rc = qb_loop_signal_del(vl, v_reg);
	}
	return V_CB_RES;
}
static int v_was_freed(void *p)
{
	int n = 0;
	for (int i = 0; i < 4; i++) { if (i < v_nfreed && v_freed[i] == p) { n++; } }
	return n;
}

void harness(void)
{
	struct qb_loop *l = malloc(sizeof(*l));
	struct qb_signal_source *ss = malloc(sizeof(*ss));
	struct qb_loop_sig *reg = malloc(sizeof(*reg)), *c1 = malloc(sizeof(*c1)), *c2 = malloc(sizeof(*c2));
#ifdef V_SECOND
	uint8_t nd_second_queued = V_SECOND;   /* case split: with a symbolic queue the registration's level index reached through the dispatched delivery becomes symbolic and exhausts memory */
#else
	VERIF_ND(uint8_t, nd_second_queued);
#endif
	ASSUME(l != NULL && ss != NULL && reg != NULL && c1 != NULL && c2 != NULL);
	for (int32_t p = 0; p < 3; p++) {
		l->level[p].priority = p; l->level[p].to_process = 4; l->level[p].todo = 0; l->level[p].l = l;
		qb_list_init(&l->level[p].job_head);
		qb_list_init(&l->level[p].wait_head);
	}
	l->stop_requested = QB_FALSE; l->signal_source = (struct qb_loop_source *)ss;
	l->timer_source = NULL; l->job_source = NULL; l->fd_source = NULL;
	ss->s.l = l; ss->s.poll = NULL; ss->s.dispatch_and_take_back = _signal_dispatch_and_take_back_;
	qb_list_init(&ss->sig_head);
	reg->signal = 10; reg->p = QB_LOOP_MED; reg->dispatch_fn = verif_sig_cb; reg->cloned_from = NULL;
	reg->item.source = &ss->s; reg->item.type = QB_LOOP_SIG; reg->item.user_data = &v_tok;
	qb_list_init(&reg->item.list);
	qb_list_add_tail(&reg->item.list, &ss->sig_head);
	struct qb_loop_level *lev = &l->level[QB_LOOP_MED];
	*c1 = *reg; c1->cloned_from = reg;
	*c2 = *reg; c2->cloned_from = reg;
	qb_loop_level_item_add(lev, &c1->item);
	if (nd_second_queued) {
		qb_loop_level_item_add(lev, &c2->item);
	}
	vl = l; v_reg = reg; v_calls = 0; v_nfreed = 0; v_del_rc = -1;
	verif_sigaction_calls = 0; verif_signal_dfl_calls = 0;

	qb_loop_run_level(lev);

#ifdef V_SECOND
	COVER(nd_second_queued == V_SECOND && v_calls == 1);
#else
	COVER(nd_second_queued);
	COVER(!nd_second_queued);
#endif
	POST(v_calls == 1 && v_cb_sig == 10 && v_cb_data == &v_tok,
	     "after a signal callback has removed its own registration the callback is never invoked again, even for a delivery that was already queued");
	POST(!V_CB_DELETES || v_del_rc == 0, "a signal callback can delete its own registration through its handle");
	POST(v_was_freed(reg) == 1 && v_was_freed(c1) == 1 && v_was_freed(c2) == (nd_second_queued ? 1 : 0) && v_nfreed == (nd_second_queued ? 3 : 2),
	     "the registration and each of its deliveries are released exactly once");
	POST(lev->todo == 0 && qb_list_empty(&lev->job_head), "every delivery is counted out exactly once");
	POST(qb_list_empty(&ss->sig_head), "the registration is removed from the source's list");
	POST(verif_signal_dfl_calls == 1 && verif_sigaction_calls == 0, "the signal's handler is released and none is installed for a signal nobody registered");
}
