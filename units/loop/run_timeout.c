/*UNIT
{"props": ["C09"], "src": ["lib/loop.c"], "spec": ["loop.spec"], "tags": ["run_level_contract", "run_obs", "run_loop"], "mode": "dfcc",
 "replace": ["qb_loop_run_level"], "replace_proved_elsewhere": ["qb_loop_run_level"], "loop_contracts": true, "kind": "proved",
 "functions": ["qb_loop_run"],
 "restrict_fp": ["qb_loop_run.function_pointer_call.1/verif_job_poll", "qb_loop_run.function_pointer_call.2/verif_timer_poll",
                 "qb_loop_run.function_pointer_call.3/verif_fd_poll"],
 "pre_unwindset": ["qb_loop_run.0:4"],
 "stubs": ["job/timer/fd source poll (may queue any number of items at any level, report how many)",
           "qb_loop_timer_msec_duration_to_expire (contract of the C09 timer_msec units)",
           "qb_loop_run_level by contract (may change the level counts within range, may request stop)"],
 "drops": ["qb_util_log/qb_util_perror diagnostics compiled out (stubs/nolog.h)"],
 "defines": ["-DVERIF_CHECK_TIMEOUT=1", "-DVERIF_CHECK_ROTATION=0"],
 "expect_classes": ["loop_invariant_step", "assertion"], "timeout": 300, "fallback_unwind": 7, "cbmc_flags": ["--no-malloc-may-fail"]}
*/
/* qb_loop_run, loop contract on the main do/while (any number of iterations), sources are stubs: the timeout
 * handed to the descriptor wait (checked in the fd-source stub, once per iteration) is never negative
 * other than -1, is not -1 while a timer is pending or items were just queued, and is at most the
 * timer-derived value (time to the earliest expiry plus one tick) or the 50 ms pause after new jobs. */
#include "core.h"
#include "loop.c"

void harness(void)
{
	struct qb_loop *l = malloc(sizeof(*l));
	struct qb_loop_source *js = malloc(sizeof(*js)), *ts = malloc(sizeof(*ts)), *fs = malloc(sizeof(*fs));
	VERIF_ND(int32_t, nd_todo0);
	VERIF_ND(int32_t, nd_todo1);
	VERIF_ND(int32_t, nd_todo2);
	VERIF_ND(uint8_t, nd_have_js);
	VERIF_ND(uint8_t, nd_have_ts);
	ASSUME(l != NULL && js != NULL && ts != NULL && fs != NULL);
	ASSUME(nd_todo0 >= 0 && nd_todo0 <= VERIF_TODO_MAX && nd_todo1 >= 0 && nd_todo1 <= VERIF_TODO_MAX && nd_todo2 >= 0 && nd_todo2 <= VERIF_TODO_MAX);
	for (int32_t p = 0; p < 3; p++) {
		l->level[p].priority = p;
		l->level[p].to_process = 4;
		l->level[p].l = l;
		qb_list_init(&l->level[p].job_head);
		qb_list_init(&l->level[p].wait_head);
	}
	l->level[0].todo = nd_todo0; l->level[1].todo = nd_todo1; l->level[2].todo = nd_todo2;
	js->l = l; js->poll = verif_job_poll; js->dispatch_and_take_back = NULL;
	ts->l = l; ts->poll = verif_timer_poll; ts->dispatch_and_take_back = NULL;
	fs->l = l; fs->poll = verif_fd_poll; fs->dispatch_and_take_back = NULL;
	l->job_source = nd_have_js ? js : NULL;
	l->timer_source = nd_have_ts ? ts : NULL;
	l->fd_source = fs;
	l->signal_source = NULL;
	l->stop_requested = QB_FALSE;
	verif_since[0] = 0; verif_since[1] = 0; verif_since[2] = 0;
	verif_mask = 0; verif_done = 0; verif_iters = 0; verif_polls = 0;
	verif_cov_low_waited = 0; verif_cov_med_waited = 0;
	verif_job_rc = 0; verif_timer_rc = 0; verif_timer_pending = 0; verif_next_ms = 0;

	qb_loop_run(l);

	COVER(verif_iters >= 3);
	POST(l->stop_requested, "run returns only after a stop was requested");
}
