/*UNIT
{"props": ["C09", "C08"], "src": ["include/tlist.h"], "mode": "plain", "kind": "bounded",
 "bound": "at most 3 pending timers with symbolic 64-bit expiry times and any clock value; loops unwound (expire 5, sift 4) with unwinding assertions",
 "functions": ["timerlist_expire", "timerlist_pre_dispatch", "timerlist_post_dispatch", "timerlist_heap_delete"],
 "restrict_fp": ["timerlist_expire.function_pointer_call.1/verif_tmo_cb"],
 "unwindset": ["timerlist_expire.0:5", "timerlist_heap_sift_up.0:4", "timerlist_heap_sift_down.0:4"],
 "stubs": ["timer callback (records the call)", "clock (ghost value, read once per pass)", "pthread_mutex_* (sequential no-ops)", "malloc (fresh or NULL)"],
 "expect_classes": ["assertion"], "timeout": 280, "cbmc_flags": ["--no-malloc-may-fail"],
 "defines": ["-DTL_NMAX=3"]}
*/
/* timerlist_expire on ANY valid heap of up to 3 timers at ANY clock value: a callback runs only for a timer
 * whose expiry is not after the clock value (its duration has elapsed), callbacks run in order of
 * expiry, each timer at most once, with its handle already cleared; the pass ends when the earliest pending timer is not yet due, so no due timer is left behind
 * and no timer that is not due has run. */
#include "tl.h"

static struct timerlist vtl;
static int v_calls, v_rearmed;
static uint64_t v_last_expire;
static uint8_t v_ran[TL_SLOTS];

static void verif_tmo_cb(void *data)
{
	struct timerlist_timer *t = data;
	int idx = -1;
	for (int i = 0; i < TL_SLOTS; i++) {
		if (tl_t[i] == t && t != NULL) {
			idx = i;
		}
	}
	POST(idx >= 0, "callbacks run only for timers that were added");
	if (idx < 0) {
		return;
	}
	POST(t->expire_time <= verif_now_mono, "a timer is not dispatched before its duration has elapsed");
	POST(v_calls == 0 || t->expire_time >= v_last_expire, "timers are dispatched in order of their expiry times");
	POST(!v_ran[idx], "a timer runs exactly once");
	POST(tl_handle[idx] == NULL, "the timer's handle is cleared before its callback runs");
	v_ran[idx] = 1;
	v_last_expire = t->expire_time;
	v_calls++;
#ifdef V_REARM
	VERIF_ND(uint8_t, nd_rearm);
	VERIF_ND(uint64_t, nd_rearm_duration);
	if (nd_rearm && !v_rearmed) {
		timer_handle h = NULL;
		ASSUME(nd_rearm_duration <= UINT64_MAX - verif_now_mono);   /* the wrap-around class is isolated in add_duration.beyond_clock_range */
		if (timerlist_add_duration(&vtl, tl_fn, NULL, nd_rearm_duration, &h) == 0) {
			v_rearmed = 1;
			tl_t[TL_SLOTS - 1] = h;
			((struct timerlist_timer *)h)->data = h;
		}
	}
#endif
}

void harness(void)
{
	VERIF_ND(size_t, nd_n);
	VERIF_ND(uint64_t, nd_now);
	VERIF_ND(size_t, nd_wit);
	ASSUME(nd_n <= TL_NMAX && nd_wit < TL_SLOTS);
	verif_alloc_calls = 0; verif_alloc_never_fails = 0; verif_mutex_depth = 0;
	tl_fn = verif_tmo_cb;
	tl_build(&vtl, nd_n, TL_SLOTS);
	verif_now_mono = nd_now; verif_now_epoch = 0; verif_hz = 1000;
	v_calls = 0; v_rearmed = 0; v_last_expire = 0;
	for (int i = 0; i < TL_SLOTS; i++) {
		v_ran[i] = 0;
	}
	int due = 0, due_or_at = 0;   /* timers whose expiry is before the clock value / not after it */
	for (size_t i = 0; i < TL_SLOTS; i++) {
		if (i < nd_n && tl_t[i]->expire_time < nd_now) {
			due++;
		}
		if (i < nd_n && tl_t[i]->expire_time <= nd_now) {
			due_or_at++;
		}
	}
	struct timerlist_timer *wit = nd_wit < nd_n ? tl_t[nd_wit] : NULL;
	int wit_due = wit != NULL && wit->expire_time < nd_now;
	int wit_not_yet = wit != NULL && wit->expire_time > nd_now;

	int32_t rc = timerlist_expire(&vtl);

	COVER(v_calls == 0 && nd_n > 0);
	COVER(v_calls == (int)nd_n && nd_n == TL_NMAX);
	COVER(v_calls == 2 && nd_n == 3);
#ifdef V_REARM
	COVER(v_rearmed && v_calls == 2);
#endif
	POST(rc == 0 && verif_mutex_depth == 0, "the pass succeeds and releases the list lock");
	POST(v_calls >= due && v_calls <= due_or_at, "every timer whose expiry has passed runs in the pass, and no timer whose expiry is still ahead");
	if (wit != NULL) {
		POST(!wit_due || v_ran[nd_wit], "a timer whose expiry has passed is dispatched in the pass");
		POST(!wit_not_yet || (!v_ran[nd_wit] && tl_count(&vtl, wit) == 1), "a timer whose expiry is still ahead does not run and stays pending");
		POST(tl_count(&vtl, wit) == (v_ran[nd_wit] ? 0 : 1), "a dispatched timer leaves the heap, the others stay");
	}
	POST(vtl.size == nd_n - v_calls + v_rearmed, "dispatched timers leave the heap, the others stay");
	POST(vtl.size == 0 || !(vtl.heap_entries[0]->expire_time < nd_now), "the pass ends only when the earliest pending timer is not yet due");
	POST(tl_heap_ok(&vtl) && tl_pos_ok(&vtl), "after a pass the earliest expiry is at the head of the heap (timers are dispatched in expiry order)");
}
