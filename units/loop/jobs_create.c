/*UNIT
{"props": ["C08"], "src": ["lib/loop.c", "lib/loop_job.c"], "mode": "plain", "kind": "proved",
 "functions": ["qb_loop_jobs_create"],
 "stubs": ["malloc (fresh block with arbitrary content, or NULL)"],
 "drops": ["qb_util_log/qb_util_perror diagnostics compiled out (stubs/nolog.h)"],
 "expect_classes": ["assertion"], "timeout": 120}
*/
/* qb_loop_jobs_create establishes the job-source state the job units (loop.job.*, loop.job_readd, loop.run*)
 * start from: the source belongs to the loop it was created for, the loop collects new jobs through
 * get_more_jobs and hands a queued job back to job_dispatch (the function that runs the registered
 * callback exactly once) - so what qb_loop_run calls through these pointers is the code those units decide. */
#include "os_base.h"
#include <qb/qbdefs.h>
#include <qb/qblist.h>
#include <qb/qbloop.h>
#include "loop_int.h"
#include "util_int.h"
#include "verif.h"
#include "nolog.h"
#include "alloc.h"
#include "loop.c"
#include "loop_job.c"

void harness(void)
{
	static struct qb_loop vl;
	verif_alloc_calls = 0; verif_alloc_never_fails = 0;
	struct qb_loop_source *s = qb_loop_jobs_create(&vl);
	COVER(s == NULL);
	COVER(s != NULL);
	if (s != NULL) {
		POST(s->l == &vl, "the job source belongs to the loop it was created for");
		POST(s->poll == get_more_jobs, "new jobs are collected by get_more_jobs");
		POST(s->dispatch_and_take_back == job_dispatch, "a queued job is handed to job_dispatch");
		free(s);
	}
}
