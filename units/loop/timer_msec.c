/*UNIT
{"props": ["C09"], "src": ["lib/loop.c", "lib/loop_timerlist.c"], "mode": "plain", "kind": "proved",
 "functions": ["qb_loop_timer_msec_duration_to_expire"],
 "stubs": ["timerlist_msec_duration_to_expire by its contract (units loop.msec.*): -1 iff no timer pending, else any finite 64-bit millisecond count"],
 "drops": ["qb_util_log/qb_util_perror diagnostics compiled out (stubs/nolog.h)"],
 "defines": ["-DTS_STUB_TL_MSEC"],
 "expect_classes": ["assertion"], "timeout": 120, "cbmc_flags": ["--no-malloc-may-fail"],
 "variants": [{"vname": "fits_int32", "defines": ["-DTS_STUB_TL_MSEC", "-DV_CLASS=(verif_left64==(uint64_t)-1||verif_left64<=INT32_MAX)"]},
              {"vname": "beyond_int32", "defines": ["-DTS_STUB_TL_MSEC", "-DV_CLASS=(verif_left64!=(uint64_t)-1&&verif_left64>INT32_MAX)", "-DV_BEYOND"]}]}
*/
/* qb_loop_timer_msec_duration_to_expire: the int32 poll timeout derived from the 64-bit millisecond count.
 * -1 (block without limit) exactly when no timer is pending; otherwise a non-negative wait that is not
 * longer than the 64-bit value (clamping may only shorten the sleep), for every 64-bit value -- in
 * particular those that do not fit in 31 or 32 bits (variant beyond_int32: timers 24.8 days or more ahead). */
#include "ts.h"

static void verif_other_slot_havoc(int32_t idx) { }

void harness(void)
{
	VERIF_ND(size_t, nd_n);
	ASSUME(nd_n <= 2);
	verif_alloc_calls = 0; verif_alloc_never_fails = 0; verif_mutex_depth = 0;
	tl_fn = NULL;
	verif_Tidx = 0;
	ts_build(nd_n);

	int32_t ms = qb_loop_timer_msec_duration_to_expire((struct qb_loop_source *)ts_src);

	ASSUME(V_CLASS);   /* case split on the 64-bit value the heap reported */
	if (nd_n == 0) {
#ifndef V_BEYOND
		COVER(1);
#endif
		POST(ms == -1, "the poll timeout is -1 exactly when no timer is pending");
	} else {
#ifdef V_BEYOND
		COVER(verif_left64 > UINT32_MAX);
		COVER(verif_left64 <= UINT32_MAX);
#else
		COVER(verif_left64 == INT32_MAX);
		COVER(verif_left64 == 0);
#endif
		POST(ms != -1, "the loop never blocks indefinitely while a timer is pending");
		POST(ms >= 0, "the poll timeout is never negative while a timer is pending (a negative timeout makes epoll_wait block for ever)");
		POST(ms < 0 || (uint64_t)ms <= verif_left64, "the poll timeout is never longer than the time to the earliest expiry (clamping only shortens the sleep)");
	}
}
