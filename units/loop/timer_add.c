/*UNIT
{"props": ["C08"], "src": ["lib/loop.c", "lib/loop_timerlist.c"], "mode": "plain", "kind": "bounded",
 "bound": "at most 3 slots in the timers array before the add (the scan for a free slot is unwound 5 times with unwinding assertion), slot contents arbitrary; other pending timers: 0, 1 or 2 by variant (constants: symbolic heap sizes exhaust memory); the 200-try check-word loop is fully unwound (compile-time constant) in the variants added*, and cut to 3 tries by assumption in the failure-path variants",
 "functions": ["qb_loop_timer_add", "_get_empty_array_position_", "_timer_from_handle_", "timerlist_add_duration", "timerlist_add", "qb_loop_timer_del (refusal of the slot's previous handle)"],
 "unwindset": ["_get_empty_array_position_.0:5", "qb_loop_timer_add.0:201", "timerlist_heap_sift_up.0:3", "timerlist_heap_sift_down.0:3"],
 "defines": ["-DTL_NMAX=2"],
 "stubs": ["qb_array_index/qb_array_grow (C19 contract over the slot model; a slot inside the array can always be indexed)", "malloc/realloc (fresh or NULL)", "clock (ghost value)", "pthread_mutex_* (sequential no-ops)",
           "random(): any value in [0, 2^31), assumed to differ from the check word the slot carried before and to be non-zero at least once in the 200 tries the code makes (within 3 tries in the failure-path variants)"],
 "drops": ["qb_util_log/qb_util_perror diagnostics compiled out (stubs/nolog.h)"],
 "expect_classes": ["assertion"], "timeout": 700, "cbmc_flags": ["--no-malloc-may-fail"],
 "variants": [{"vname": "added", "defines": ["-DTL_NMAX=2", "-DV_ADDED", "-DV_N=1", "-DV_HEAP_FULL=0"]},
              {"vname": "added_heap_grows", "defines": ["-DTL_NMAX=2", "-DV_ADDED", "-DV_N=2", "-DV_HEAP_FULL=1"]},
              {"vname": "heap_enomem", "unwindset": ["_get_empty_array_position_.0:5", "qb_loop_timer_add.0:4", "timerlist_heap_sift_up.0:3", "timerlist_heap_sift_down.0:3"], "defines": ["-DV_RANDOM_TRIES=3", "-DTL_NMAX=2", "-DV_HEAP_ENOMEM", "-DV_N=1", "-DV_HEAP_FULL=0"]},
              {"vname": "heap_grow_enomem", "unwindset": ["_get_empty_array_position_.0:5", "qb_loop_timer_add.0:4", "timerlist_heap_sift_up.0:3", "timerlist_heap_sift_down.0:3"], "defines": ["-DV_RANDOM_TRIES=3", "-DTL_NMAX=2", "-DV_HEAP_ENOMEM", "-DV_N=1", "-DV_HEAP_FULL=1"]},
              {"vname": "grow_fails", "unwindset": ["_get_empty_array_position_.0:5", "qb_loop_timer_add.0:4", "timerlist_heap_sift_up.0:3", "timerlist_heap_sift_down.0:3"], "defines": ["-DV_RANDOM_TRIES=3", "-DTL_NMAX=2", "-DV_GROW_FAILS", "-DV_N=0", "-DV_HEAP_FULL=0"]}]}
*/
/* qb_loop_timer_add: T is the slot the new timer lands in (prophecy: the first EMPTY slot of the array, else the
 * appended one), O stands for every other slot.
 *  added        only an EMPTY slot is (re)used, else the array grows by one; the slot becomes ACTIVE with the callback,
 *               data and priority given and is pending in the timer heap exactly once (heap entry <-> slot linked both
 *               ways); the handle returned is (check << 32 | slot) with a fresh positive check word and is accepted by
 *               _timer_from_handle_ for exactly this slot; the handle the slot's PREVIOUS user held (old check word) is
 *               now stale: delete through it is refused and does not disturb the new timer; nothing is queued; every
 *               other slot and every other pending timer is untouched;
 *  heap_enomem  the heap entry cannot be allocated: the add reports an error and no registration is left behind
 *               (no live slot, nothing pending, and the handle that may have been written is not reported as running);
 *  grow_fails   no free slot and the array cannot grow: the add reports an error and changes nothing;
 *  (a priority outside LOW..HIGH is accepted by qb_loop_timer_add and indexes l->level[] out of bounds at expiry --
 *   qb_loop_job_add validates it, timer_add and poll_add do not.  C08 does not demand argument validation: reported
 *   in DESIGN.md 10.3, no obligation; the V_BAD_PRIORITY code below is kept but no variant selects it.) */
#include <stdint.h>
#ifndef V_RANDOM_TRIES
#define V_RANDOM_TRIES 200   /* the failure-path variants use 3 (the check word plays no role there and the full unwinding is slow) */
#endif
static int32_t v_old_check;
static unsigned v_random_calls;
static int v_random_ok(int32_t r) { v_random_calls++; return r != v_old_check && (v_random_calls < V_RANDOM_TRIES || r > 0); }
#define TS_RANDOM_ASSUME(r) v_random_ok(r)
#include "ts.h"

static struct qb_loop_timer o0;
static void verif_other_slot_havoc(int32_t idx)
{
	VERIF_ND(int32_t, nd_o_state);
	VERIF_ND(int32_t, nd_o_check);
	ASSUME(nd_o_state >= 0 && nd_o_state <= 3);
	ASSUME(idx > verif_Tidx || nd_o_state != QB_POLL_ENTRY_EMPTY);   /* T is the FIRST empty slot */
	VO->state = nd_o_state; VO->check = nd_o_check; VO->timerlist_handle = NULL;
	o0 = *VO;
}
static void verif_timer_cb(void *data) { }
static int v_token;

void harness(void)
{
	VERIF_ND(int32_t, nd_tidx);
	VERIF_ND(int32_t, nd_old_check);
	VERIF_ND(int32_t, nd_p);
	VERIF_ND(uint64_t, nd_duration);
	VERIF_ND(uint64_t, nd_now);
	size_t nd_n = V_N;               /* case split: heap size and whether the heap array must grow are constants per variant */
	uint8_t nd_heap_full = V_HEAP_FULL;
	VERIF_ND(uint8_t, nd_want_handle);
	VERIF_ND(uint8_t, nd_have_fn);
#ifdef V_BAD_PRIORITY
	ASSUME(nd_n <= TL_NMAX && (nd_p < QB_LOOP_LOW || nd_p > QB_LOOP_HIGH));
#else
	ASSUME(nd_n <= TL_NMAX && nd_p >= QB_LOOP_LOW && nd_p <= QB_LOOP_HIGH);
#endif
	verif_alloc_calls = 0; verif_alloc_never_fails = 0; verif_mutex_depth = 0;
	tl_fn = make_job_from_tmo;
	verif_Tidx = nd_tidx;
	ts_build(nd_n);
	size_t count = ts_src->timer_entry_count;
	ASSUME(count <= 3 && nd_tidx >= 0 && (size_t)nd_tidx <= count);
	for (size_t i = 0; i < TL_NMAX; i++) {
		if (i < nd_n) { tl_t[i]->data = VO; }   /* the pending timers belong to other registrations */
	}
	if (nd_heap_full) {
		ts_src->timerlist.allocated = nd_n;   /* the heap array must be enlarged for the new entry */
	}
	verif_now_mono = nd_now; verif_now_epoch = 0; verif_hz = 1000;
	v_old_check = nd_old_check; v_random_calls = 0;
	if ((size_t)nd_tidx < count) {
		/* a slot used before: EMPTY (fired or deleted), still carrying whatever check word it had */
		VT->state = QB_POLL_ENTRY_EMPTY; VT->check = nd_old_check; VT->install_pos = (uint32_t)nd_tidx;
		VT->timerlist_handle = NULL; VT->dispatch_fn = NULL; VT->item.user_data = NULL; VT->item.source = (struct qb_loop_source *)ts_src;
		qb_list_init(&VT->item.list);
	} else {
		memset(VT, 0, sizeof(*VT));   /* a slot never used: zeroed by the array (C19) */
		ASSUME(nd_old_check == 0);
	}
	qb_loop_timer_handle old_handle = (((uint64_t)(uint32_t)nd_old_check) << 32) | (uint32_t)nd_tidx;
	qb_loop_timer_handle h = 0;
	verif_grow_failures = 0;
	unsigned alloc0 = verif_alloc_calls;
#if defined(V_ADDED) || defined(V_BAD_PRIORITY)
	verif_alloc_never_fails = 1; verif_grow_may_fail = 0;
#endif
#ifdef V_HEAP_ENOMEM
	verif_grow_may_fail = 0;
	ASSUME(nd_have_fn);
#endif
#ifdef V_GROW_FAILS
	verif_alloc_never_fails = 1;
	ASSUME(nd_have_fn && (size_t)nd_tidx == count);
#endif

	int32_t rc = qb_loop_timer_add(ts_l, (enum qb_loop_priority)nd_p, nd_duration, &v_token, nd_have_fn ? verif_timer_cb : NULL, nd_want_handle ? &h : NULL);

#ifdef V_BAD_PRIORITY
	COVER(nd_p == QB_LOOP_HIGH + 1 && nd_have_fn);
	COVER(nd_p < 0 && nd_have_fn);
	POST(rc != 0 || (VT->p >= QB_LOOP_LOW && VT->p <= QB_LOOP_HIGH), "no timer is accepted with a priority the loop cannot dispatch at");
	return;
#endif
#ifdef V_GROW_FAILS
	COVER(verif_grow_failures == 1);
	POST(verif_grow_failures == 0 || rc != 0, "when the timers array cannot grow the add is refused with an error");
	if (verif_grow_failures != 0 && rc == 0) {
		return;   /* nothing further to say about a run that went on after the refused growth */
	}
#endif
	POST(verif_mutex_depth == 0, "the timer source's lock is released on every exit");
	POST(ts_l->level[0].todo == 0 && ts_l->level[1].todo == 0 && ts_l->level[2].todo == 0 && qb_list_empty(&ts_l->level[nd_p == 0 ? 0 : (nd_p == 1 ? 1 : 2)].job_head),
	     "adding a timer queues nothing for dispatch");
	POST(verif_last_other_idx < 0 || (VO->state == o0.state && VO->check == o0.check && VO->timerlist_handle == o0.timerlist_handle),
	     "adding a timer reuses only an EMPTY slot: every other slot keeps its content");
	if (rc == 0) {
#ifdef V_ADDED
		COVER((size_t)nd_tidx < count && nd_tidx == 2 && nd_old_check > 0 && nd_want_handle);
		COVER((size_t)nd_tidx == count && count == 3);
		COVER(count == 0);
		COVER(v_random_calls > 1);
		COVER(!nd_want_handle);
#elif !defined(V_BAD_PRIORITY)
		COVER(1);
#endif
		POST(nd_have_fn, "a timer without a callback is refused");
		POST(VT->state == QB_POLL_ENTRY_ACTIVE, "a new timer is pending (ACTIVE)");
		POST(VT->item.user_data == &v_token && VT->dispatch_fn == verif_timer_cb && VT->p == (enum qb_loop_priority)nd_p
		     && VT->item.source == (struct qb_loop_source *)ts_src && VT->install_pos == (uint32_t)nd_tidx, "the slot holds the callback, data and priority given and knows its index");
		POST(VT->check > 0, "a new timer gets a positive check word");
		POST(ts_src->timer_entry_count == ((size_t)nd_tidx == count ? count + 1 : count), "the array grows exactly when no free slot exists");
		POST(!nd_want_handle || h == ((((uint64_t)(uint32_t)VT->check) << 32) | (uint32_t)nd_tidx), "the handle returned is the slot's check word and index");
		qb_loop_timer_handle hh = (((uint64_t)(uint32_t)VT->check) << 32) | (uint32_t)nd_tidx;
		struct qb_loop_timer *out = NULL;
		POST(_timer_from_handle_(ts_src, hh, &out) == 0 && out == VT, "the handle returned is accepted and resolves to the new timer");
		/* pending exactly once, linked both ways */
		struct timerlist_timer *ht = (struct timerlist_timer *)VT->timerlist_handle;
		POST(ht != NULL && ts_src->timerlist.size == nd_n + 1 && tl_count(&ts_src->timerlist, ht) == 1, "a new timer is pending in the timer heap exactly once");
		POST(ht->data == VT && ht->timer_fn == make_job_from_tmo && ht->handle_addr == (timer_handle)&VT->timerlist_handle, "heap entry and slot refer to each other");
		for (size_t i = 0; i < TL_NMAX; i++) {
			POST(i >= nd_n || tl_count(&ts_src->timerlist, tl_t[i]) == 1, "the other pending timers stay pending");
		}
		POST(tl_heap_ok(&ts_src->timerlist) && tl_pos_ok(&ts_src->timerlist), "the earliest expiry stays at the head of the heap");
		/* the slot's previous user: its handle is stale now */
		if (old_handle != 0) {
			POST(_timer_from_handle_(ts_src, old_handle, &out) != 0, "the handle of a slot's previous user is stale once the slot has been reused");
			POST(qb_loop_timer_del(ts_l, old_handle) != 0 && VT->state == QB_POLL_ENTRY_ACTIVE && ts_src->timerlist.size == nd_n + 1 && VT->timerlist_handle == (timer_handle)ht,
			     "delete through a stale handle is refused and does not affect the timer that now owns the slot");
		}
	} else {
#ifdef V_ADDED
		COVER(!nd_have_fn);
		POST(!nd_have_fn && rc == -EINVAL, "a valid timer is refused only for lack of memory");
#endif
#ifdef V_HEAP_ENOMEM
		COVER(rc == -ENOMEM && verif_alloc_calls - alloc0 == (nd_heap_full ? 1 : 0));
		COVER((size_t)nd_tidx < count);
		COVER((size_t)nd_tidx == count);
#endif
#ifdef V_GROW_FAILS
		POST(ts_src->timer_entry_count == count, "a refused add does not grow the array");
#endif
		POST(VT->state != QB_POLL_ENTRY_ACTIVE && VT->state != QB_POLL_ENTRY_JOBLIST, "a failed add leaves no live timer behind");
		POST(ts_src->timerlist.size == nd_n, "a failed add leaves nothing pending");
		POST(h == 0 || qb_loop_timer_is_running(ts_l, h) == 0, "a timer whose add failed is not reported as running");
	}
}
