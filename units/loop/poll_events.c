/*UNIT
{"props": ["C08"], "src": ["lib/loop.c", "lib/loop_poll.c", "lib/loop_poll_epoll.c"], "mode": "plain", "kind": "bounded",
 "bound": "at most 3 slots in the entries array and at most 2 events per epoll_wait (any user data, any event bits); loops unwound with unwinding assertions",
 "functions": ["_poll_and_add_to_jobs_", "_poll_entry_from_handle_", "_qb_poll_add_to_jobs_", "qb_poll_fds_usage_check_", "_poll_entry_empty_", "_epoll_to_poll_event_", "qb_loop_level_item_add"],
 "restrict_fp": ["_poll_and_add_to_jobs_.function_pointer_call.1/_qb_poll_add_to_jobs_", "qb_poll_fds_usage_check_.function_pointer_call.1/verif_low_fds_fn"],
 "unwindset": ["_poll_and_add_to_jobs_.0:4", "_poll_and_add_to_jobs_.1:4", "qb_poll_fds_usage_check_.0:5"],
 "defines": ["-DPL_COUNT_MAX=3"],
 "stubs": ["epoll_wait (delivers up to 2 arbitrary events; may be interrupted once; may fail)", "getrlimit (any limit or failure)", "usleep (no effect)", "qb_array_index (C19 contract over the slot model)", "low-fds callback (records the call)"],
 "drops": ["qb_util_log/qb_util_perror diagnostics compiled out (stubs/nolog.h)"],
 "expect_classes": ["assertion"], "timeout": 250, "cbmc_flags": ["--no-malloc-may-fail"]}
*/
/* One poll round (_poll_and_add_to_jobs_) over an arbitrary entries array with up to two arbitrary kernel events.
 * For an arbitrary entry T:
 *  - an event carrying T's slot and T's current check word for a watched (ACTIVE) entry queues T exactly once at
 *    the tail of its level (JOBLIST, count + 1) and records the ready events for the callback -- also when two
 *    events name T in the same round;
 *  - an entry that is already queued is not queued a second time (events are merged);
 *  - an event whose check word does not match (stale: entry deleted or slot reused), or that names a tombstone
 *    or an empty slot, queues nothing and changes nothing;
 *  - a tombstone is never queued; it becomes EMPTY (reusable) only here, at the start of a round;
 *  - the number of queued items grows by exactly the number of new jobs reported; the wait uses the
 *    caller's timeout. */
#include "pl.h"

static void verif_other_entry(int32_t idx)
{
	pl_draw_entry(&verif_PO, idx);
	ASSUME(verif_PO.item.type == QB_LOOP_FD);
	ASSUME(verif_PO.state != QB_POLL_ENTRY_EMPTY || (verif_PO.ufd.fd == -1 && verif_PO.check == 0));
	ASSUME(verif_PO.state != QB_POLL_ENTRY_JOBLIST);   /* other queued entries are represented by T/W only (they need list links) */
}
static struct qb_loop_item v_a;

void harness(void)
{
	VERIF_ND(int32_t, nd_tidx);
	VERIF_ND(int32_t, nd_n);
	VERIF_ND(uint64_t, nd_data0);
	VERIF_ND(uint64_t, nd_data1);
	VERIF_ND(uint32_t, nd_bits0);
	VERIF_ND(uint32_t, nd_bits1);
	VERIF_ND(int32_t, nd_ms);
	VERIF_ND(uint8_t, nd_eintr);
	VERIF_ND(uint8_t, nd_wait_fails);
	VERIF_ND(uint8_t, nd_before);
	verif_alloc_calls = 0; verif_alloc_never_fails = 0;
	pl_build();
	int32_t count = pl_s->poll_entry_count;
	ASSUME(nd_tidx >= 0 && nd_tidx < count && nd_n >= 0 && nd_n <= 2);
	verif_Tidx = nd_tidx;
	pl_draw_entry(&verif_PT, nd_tidx);
	ASSUME(verif_PT.item.type == QB_LOOP_FD);
	ASSUME(verif_PT.state != QB_POLL_ENTRY_EMPTY || (verif_PT.ufd.fd == -1 && verif_PT.check == 0));
	verif_ep_n = nd_n; verif_ep_data[0] = nd_data0; verif_ep_data[1] = nd_data1; verif_ep_bits[0] = nd_bits0; verif_ep_bits[1] = nd_bits1;
	verif_ep_eintr_first = nd_eintr ? 1 : 0; verif_ep_fails = nd_wait_fails ? 1 : 0;
	v_a.source = NULL;
	if (nd_before) {
		qb_loop_level_item_add(pl_lev, &v_a);
	}
	if (verif_PT.state == QB_POLL_ENTRY_JOBLIST) {
		qb_loop_level_item_add(pl_lev, &verif_PT.item);
	}
	struct qb_poll_entry t0 = verif_PT;
	int32_t todo0 = pl_lev->todo;
	/* does event k name T with T's current check word? */
	int hit0 = nd_n > 0 && (uint32_t)(nd_data0 & UINT32_MAX) == (uint32_t)nd_tidx && (uint32_t)(nd_data0 >> 32) == t0.check;
	int hit1 = nd_n > 1 && (uint32_t)(nd_data1 & UINT32_MAX) == (uint32_t)nd_tidx && (uint32_t)(nd_data1 >> 32) == t0.check;
	int watched = t0.state == QB_POLL_ENTRY_ACTIVE || t0.state == QB_POLL_ENTRY_JOBLIST;

	int32_t rc = _poll_and_add_to_jobs_(&pl_s->s, nd_ms);

	POST(verif_epwait_last_timeout == nd_ms, "the wait uses the caller's timeout");
	if (rc < 0) {
		COVER(1);
		POST(nd_wait_fails, "the round fails only when the wait fails");
		POST(pl_lev->todo == todo0, "a failed wait queues nothing");
	} else {
		COVER(hit0 && hit1 && t0.state == QB_POLL_ENTRY_ACTIVE);
		COVER(hit0 && t0.state == QB_POLL_ENTRY_JOBLIST && nd_before);
		COVER(nd_n == 2 && !hit0 && !hit1 && rc == 2);
		COVER(nd_n > 0 && (uint32_t)(nd_data0 & UINT32_MAX) == (uint32_t)nd_tidx && !hit0 && watched && t0.check != 0);
		COVER(t0.state == QB_POLL_ENTRY_DELETED && (uint32_t)(nd_data0 & UINT32_MAX) == (uint32_t)nd_tidx && nd_n > 0);
		COVER(nd_eintr && verif_epwait_calls == 2);
		POST(pl_lev->todo == todo0 + rc, "the number of queued items grows by exactly the number of new jobs reported");
		if (t0.state == QB_POLL_ENTRY_ACTIVE && (hit0 || hit1)) {
			POST(verif_PT.state == QB_POLL_ENTRY_JOBLIST, "a ready descriptor is queued for dispatch");
			POST(pl_lev->job_head.prev == &verif_PT.item.list || rc == 2, "a ready descriptor is queued at the tail of its level");
			POST(!qb_list_empty(&verif_PT.item.list) && rc >= 1 && rc <= 2 && (rc == 1 || !(hit0 && hit1)), "a descriptor named by two events of one round is queued once");
			POST(!((hit0 && (nd_bits0 & EPOLLIN)) || (hit1 && (nd_bits1 & EPOLLIN))) || (verif_PT.ufd.revents & POLLIN), "the ready events are recorded for the callback");
		} else if (t0.state == QB_POLL_ENTRY_JOBLIST) {
			POST(verif_PT.state == QB_POLL_ENTRY_JOBLIST && verif_PT.item.list.prev == t0.item.list.prev, "an entry that is already queued is not queued a second time");
			POST(!(hit0 && hit1) || rc == 0, "an entry that is already queued is not queued a second time");
			POST(!(hit0 && !hit1 && nd_n == 1) || rc == 0, "an entry that is already queued is not queued a second time");
		} else if (t0.state == QB_POLL_ENTRY_ACTIVE) {
			POST(verif_PT.state == QB_POLL_ENTRY_ACTIVE && verif_PT.ufd.revents == t0.ufd.revents && qb_list_empty(&verif_PT.item.list),
			     "an event with a stale check word (or for another slot) queues nothing and changes nothing");
		} else {
			POST((verif_PT.state == QB_POLL_ENTRY_EMPTY || verif_PT.state == QB_POLL_ENTRY_DELETED) && verif_PT.ufd.fd == -1
			     && pl_lev->job_head.prev != &verif_PT.item.list && pl_lev->job_head.next != &verif_PT.item.list,
			     "a tombstone or empty slot is never queued, whatever events name it");
			COVER(t0.state == QB_POLL_ENTRY_DELETED && verif_PT.state == QB_POLL_ENTRY_EMPTY);
		}
	}
}
