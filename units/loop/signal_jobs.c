/*UNIT
{"props": ["C08"], "src": ["lib/loop.c", "lib/loop_poll.c"], "mode": "plain", "kind": "bounded",
 "bound": "at most 3 signal registrations over two signal numbers plus one unregistered number (only equality of numbers matters); list walks unwound 5 times, the 64-signal scan of _adjust_sigactions_ fully unwound",
 "functions": ["_qb_signal_add_to_jobs_", "_signal_dispatch_and_take_back_", "qb_loop_signal_del (when the callback asks for removal)", "qb_loop_level_item_add"],
 "restrict_fp": ["_signal_dispatch_and_take_back_.function_pointer_call.1/verif_sig_cb"],
 "unwindset": ["_qb_signal_add_to_jobs_.0:5", "qb_loop_signal_del.0:5", "qb_loop_signal_del.1:5", "_adjust_sigactions_.0:5", "_adjust_sigactions_.1:70"],
 "stubs": ["read on the signal pipe (any signal number, or a short/failed read)", "calloc (fresh zeroed or NULL)", "free (recorded, then the built-in free)", "signal/sigaction/sigset functions (no effect on loop data)", "user signal callback (any return value)"],
 "drops": ["qb_util_log/qb_util_perror diagnostics compiled out (stubs/nolog.h)"],
 "expect_classes": ["assertion"], "timeout": 250, "cbmc_flags": ["--no-malloc-may-fail"],
 "variants": [{"vname": "deliver", "defines": ["-DV_DELIVER"]}, {"vname": "dispatch_keep", "defines": ["-DV_DISPATCH", "-DV_CB_RES=0"]}]}
*/
/* Signals, loop side:
 *  deliver   _qb_signal_add_to_jobs_: one signal number read from the pipe queues exactly one delivery (a copy of the
 *            registration pointing back to it) per registration of that signal, in registration order, at the
 *            registration's level (count + 1 each); registrations of other signals get nothing; a short read
 *            queues nothing;
 *  dispatch  _signal_dispatch_and_take_back_: the callback runs once from loop context with the signal number and the
 *            registered data; the delivery is freed exactly once; (a non-zero return hands the registration to
 *            qb_loop_signal_del, decided by the signal_del units; that combination runs out of memory here and is not checked). */
#include "os_base.h"
#include <signal.h>
#include <qb/qbdefs.h>
#include <qb/qblist.h>
#include <qb/qbarray.h>
#include <qb/qbloop.h>
#include "loop_int.h"
#include "util_int.h"
#include "verif.h"
#include "nolog.h"
#include "signals.h"
#include "alloc.h"
static void *v_freed[4];
static int v_nfreed;
static void verif_sig_free(void *p) { if (v_nfreed < 4) { v_freed[v_nfreed] = p; } v_nfreed++; free(p); }
static int32_t v_pipe_signal;
static ssize_t v_pipe_res;
static ssize_t verif_read(int fd, void *buf, size_t n)
{
	if (v_pipe_res == (ssize_t)sizeof(int32_t) && n >= sizeof(int32_t)) {
		*(int32_t *)buf = v_pipe_signal;
	}
	return v_pipe_res;
}
#define free verif_sig_free
#define read verif_read
#include "loop.c"
#include "loop_poll.c"
#undef free
#undef read

static int v_calls, v_tok;
static int32_t v_cb_sig, v_cb_res;
static void *v_cb_data;
static int32_t verif_sig_cb(int32_t sig, void *data)
{
#ifdef V_CB_RES
	int32_t nd_sig_cb_res = V_CB_RES;   /* case split: constant per variant (keeps the removal path out of the 'keep' variant) */
#else
	VERIF_ND(int32_t, nd_sig_cb_res);
#endif
	v_calls++; v_cb_sig = sig; v_cb_data = data; v_cb_res = nd_sig_cb_res;
	return nd_sig_cb_res;
}

void harness(void)
{
	struct qb_loop *l = malloc(sizeof(*l));
	struct qb_signal_source *ss = malloc(sizeof(*ss));
	struct qb_loop_sig *r0 = malloc(sizeof(*r0)), *r1 = malloc(sizeof(*r1)), *r2 = malloc(sizeof(*r2));
	struct qb_loop_sig *regs[3] = {r0, r1, r2};
	VERIF_ND(int32_t, nd_nregs);
	VERIF_ND(int32_t, nd_sig0);
	VERIF_ND(int32_t, nd_sig1);
	VERIF_ND(int32_t, nd_sig2);
	int32_t sigs[3] = {nd_sig0, nd_sig1, nd_sig2};
	verif_alloc_calls = 0; verif_alloc_never_fails = 1; v_nfreed = 0; v_calls = 0;
	ASSUME(l != NULL && ss != NULL && r0 != NULL && r1 != NULL && r2 != NULL);
#ifdef V_DISPATCH
	nd_nregs = 1;   /* one registration, concretely: the 64-signal rescan after a removal is affordable only over an empty list */
#endif
	ASSUME(nd_nregs >= 0 && nd_nregs <= 3 && nd_sig0 >= 1 && nd_sig0 < 64 && nd_sig1 >= 1 && nd_sig1 < 64 && nd_sig2 >= 1 && nd_sig2 < 64);
	/* only equality of signal numbers matters: two registered numbers and a third unregistered one */
	ASSUME((nd_sig0 == 10 || nd_sig0 == 12) && (nd_sig1 == 10 || nd_sig1 == 12) && (nd_sig2 == 10 || nd_sig2 == 12));
	for (int32_t p = 0; p < 3; p++) {
		l->level[p].priority = p; l->level[p].to_process = 4; l->level[p].todo = 0; l->level[p].l = l;
		qb_list_init(&l->level[p].job_head);
		qb_list_init(&l->level[p].wait_head);
	}
	l->stop_requested = QB_FALSE; l->signal_source = (struct qb_loop_source *)ss;
	l->timer_source = NULL; l->job_source = NULL; l->fd_source = NULL;
	ss->s.l = l; ss->s.poll = NULL; ss->s.dispatch_and_take_back = _signal_dispatch_and_take_back_;
	qb_list_init(&ss->sig_head);
	struct qb_loop_level *lev = &l->level[QB_LOOP_MED];
	for (int i = 0; i < 3; i++) {
		regs[i]->signal = sigs[i]; regs[i]->p = QB_LOOP_MED; regs[i]->dispatch_fn = verif_sig_cb; regs[i]->cloned_from = NULL;
		regs[i]->item.source = &ss->s; regs[i]->item.type = QB_LOOP_SIG; regs[i]->item.user_data = &v_tok;
		qb_list_init(&regs[i]->item.list);
		if (i < nd_nregs) {
			qb_list_add_tail(&regs[i]->item.list, &ss->sig_head);
		}
	}

#ifdef V_DELIVER
	VERIF_ND(int32_t, nd_the_signal);
	VERIF_ND(int8_t, nd_read_res);
	struct qb_poll_entry pe;
	ASSUME(nd_the_signal == 10 || nd_the_signal == 12 || nd_the_signal == 15);
	pe.ufd.revents = POLLIN; pe.item.type = QB_LOOP_SIG; pe.state = QB_POLL_ENTRY_ACTIVE;
	v_pipe_signal = nd_the_signal; v_pipe_res = nd_read_res;
	ASSUME(nd_read_res == -1 || nd_read_res == 0 || nd_read_res == 2 || nd_read_res == 4);
	verif_alloc_never_fails = 0;
	int matching = 0;
	for (int i = 0; i < 3; i++) { if (i < nd_nregs && sigs[i] == nd_the_signal) { matching++; } }

	int32_t rc = _qb_signal_add_to_jobs_(l, &pe);

	COVER(matching == 3 && rc == 3);
	COVER(matching == 2 && nd_nregs == 3 && rc == 2 && sigs[1] != nd_the_signal);
	COVER(matching == 0 && nd_nregs == 3 && nd_read_res == 4);
	COVER(nd_read_res == 2);
	COVER(matching == 2 && rc == 1);
	POST(lev->todo == rc && rc >= 0, "every queued delivery is counted in exactly once");
	if (nd_read_res != 4) {
		POST(rc == 0 && qb_list_empty(&lev->job_head), "a short or failed read of the signal pipe queues nothing");
	} else {
		POST(rc <= matching, "a signal is delivered only to registrations of that signal number");
		POST(rc == matching || (int)verif_alloc_calls == rc, "every registration of the delivered signal gets one delivery (unless memory runs out)");
		/* the queued deliveries, in order, are copies of the matching registrations in registration order */
		struct qb_list_head *e = lev->job_head.next;
		int k = 0;
		for (int i = 0; i < 3; i++) {
			if (i < nd_nregs && sigs[i] == nd_the_signal && k < rc) {
				struct qb_loop_sig *c = (struct qb_loop_sig *)qb_list_entry(e, struct qb_loop_item, list);
				POST(e != &lev->job_head && c->cloned_from == regs[i] && c != regs[i], "one delivery per registration of the signal, in registration order, pointing back to its registration");
				POST(c->signal == nd_the_signal && c->dispatch_fn == verif_sig_cb && c->item.user_data == &v_tok && c->item.type == QB_LOOP_SIG && c->item.source == &ss->s,
				     "a delivery carries the registration's signal number, callback and data");
				e = e->next;
				k++;
			}
		}
		POST(e == &lev->job_head && k == rc, "nothing else is queued");
		POST(pe.ufd.revents == 0, "the pipe entry's events are consumed");
	}
	for (int i = 0; i < 3; i++) {
		POST(i >= nd_nregs || !qb_list_empty(&ss->sig_head), "registrations stay registered");
	}
#endif

#ifdef V_DISPATCH
	struct qb_loop_sig *clone = malloc(sizeof(*clone));
	ASSUME(clone != NULL);
	*clone = *r0; clone->cloned_from = r0; qb_list_init(&clone->item.list);   /* already unlinked by qb_loop_run_level */
	lev->todo = 1;
	verif_sigaction_calls = 0; verif_signal_dfl_calls = 0;

	_signal_dispatch_and_take_back_(&clone->item, QB_LOOP_MED);

	COVER(v_cb_res == V_CB_RES);
	POST(v_calls == 1 && v_cb_sig == nd_sig0 && v_cb_data == &v_tok, "the signal callback runs once, from loop context, with the signal number and the registered data");
	if (v_cb_res == 0) {
		POST(v_nfreed == 1 && v_freed[0] == clone, "a dispatched delivery is freed exactly once");
		POST(ss->sig_head.next == &r0->item.list, "the registration stays in place for the next signal");
	} else {
		POST(v_nfreed == 2 && ((v_freed[0] == r0 && v_freed[1] == clone) || (v_freed[0] == clone && v_freed[1] == r0)), "a non-zero return removes the registration; delivery and registration are freed exactly once each");
		POST(qb_list_empty(&ss->sig_head), "a non-zero return removes the registration from the source");
	}
	POST(lev->todo == 1, "dispatching a delivery does not change the level's count itself");
#endif
}
