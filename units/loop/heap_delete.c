/*UNIT
{"props": ["C09"], "src": ["include/tlist.h"], "mode": "plain", "kind": "bounded",
 "bound": "heaps of at most 7 pending timers (3 levels), symbolic 64-bit expiry times; sift loops unwound 4 times with unwinding assertions",
 "functions": ["timerlist_heap_delete", "timerlist_heap_sift_up", "timerlist_heap_sift_down", "timerlist_entry_cmp", "timerlist_del"],
 "unwindset": ["timerlist_heap_sift_up.0:4", "timerlist_heap_sift_down.0:4"],
 "stubs": ["malloc (fresh or NULL)", "pthread_mutex_* (sequential no-ops)", "clock (ghost values)"],
 "expect_classes": ["assertion"], "timeout": 280, "cbmc_flags": ["--no-malloc-may-fail"],
 "variants": [{"vname": "n5", "defines": ["-DTL_NMAX=5"]}, {"vname": "n7", "defines": ["-DTL_NMAX=7", "-DTL_NMIN=6"]}]}
*/
/* timerlist_del / timerlist_heap_delete of the timer at ANY position of ANY valid heap: the deleted timer
 * is gone, every other pending timer is still in the heap exactly once and knows its position, and the
 * earliest expiry (under the true unsigned order of 64-bit expiry times) is at the head again, so
 * timers keep being dispatched in order of their expiry times. */
#ifndef TL_NMIN
#define TL_NMIN 1
#endif
#include "tl.h"

void harness(void)
{
	struct timerlist tl;
	VERIF_ND(size_t, nd_n);
	VERIF_ND(size_t, nd_pos);
	VERIF_ND(size_t, nd_wit);
	ASSUME(nd_n >= TL_NMIN && nd_n <= TL_NMAX && nd_pos < nd_n && nd_wit < nd_n);
	verif_alloc_calls = 0; verif_alloc_never_fails = 0; verif_mutex_depth = 0;
	tl_fn = NULL;
	tl_build(&tl, nd_n, TL_SLOTS);
	struct timerlist_timer *victim = tl_t[nd_pos], *wit = tl_t[nd_wit];
	uint64_t wit_expire = wit->expire_time;

	timerlist_heap_delete(&tl, victim);

	COVER(nd_pos == 0 && nd_n > 2);
	COVER(nd_pos == nd_n - 1);
#if TL_NMIN == 1
	COVER(nd_n == 1);
#endif
#if TL_NMAX >= 6
	COVER(nd_n == 6 && nd_pos == 3 && tl.heap_entries[1] != tl_t[1]);   /* the replacement had to move up */
#endif
	COVER(nd_pos == 1 && nd_n >= 4 && tl.heap_entries[1] != tl_t[nd_n - 1]);   /* the replacement had to move down */
	POST(tl.size == nd_n - 1, "deleting a timer removes exactly one heap entry");
	POST(tl_count(&tl, victim) == 0, "a deleted timer is no longer pending");
	if (wit != victim) {
		POST(tl_count(&tl, wit) == 1, "every other pending timer stays in the heap exactly once");
		POST(wit->expire_time == wit_expire, "deleting a timer does not change another timer's expiry");
	}
	POST(tl_pos_ok(&tl), "every pending timer knows its heap position (needed to delete it later)");
	POST(tl_heap_ok(&tl), "after a delete the earliest expiry is at the head of the heap (timers are dispatched in expiry order)");
}
