/*UNIT
{"props": ["C08"], "src": ["lib/loop.c", "lib/loop_timerlist.c"], "mode": "plain", "kind": "proved",
 "functions": ["_timer_from_handle_", "qb_loop_timer_del (refusal paths)", "qb_loop_timer_expire_time_get", "qb_loop_timer_is_running"],
 "stubs": ["qb_array_index (C19 contract over the slot model)", "pthread_mutex_* (sequential no-ops)"],
 "drops": ["qb_util_log/qb_util_perror diagnostics compiled out (stubs/nolog.h)"],
 "unwindset": ["timerlist_heap_sift_up.0:3", "timerlist_heap_sift_down.0:3"],
 "expect_classes": ["assertion"], "timeout": 200, "cbmc_flags": ["--no-malloc-may-fail"]}
*/
/* Handle validation for every 64-bit handle value and every slot content: a handle is accepted exactly when
 * it is non-zero, names a slot inside the array and carries that slot's current check word.  A handle that
 * is refused (stale: the slot has since fired, been deleted or been reused with a new check) makes
 * qb_loop_timer_del fail and changes nothing: not the slot it names, not any other slot, not the level
 * queues, not the timer heap; is_running / expire_time_get report 0 for it. */
#include "ts.h"

static struct qb_loop_timer o0;
static void verif_other_slot_havoc(int32_t idx)
{
	VERIF_ND(int32_t, nd_o_state);
	VERIF_ND(int32_t, nd_o_check);
	ASSUME(nd_o_state >= 0 && nd_o_state <= 3);
	VO->state = nd_o_state;
	VO->check = nd_o_check;
	VO->timerlist_handle = NULL;
	o0 = *VO;
}

void harness(void)
{
	VERIF_ND(uint64_t, nd_handle);
	VERIF_ND(int32_t, nd_t_state);
	VERIF_ND(int32_t, nd_t_check);
	VERIF_ND(size_t, nd_n);
	ASSUME(nd_n <= 2);
	verif_alloc_calls = 0; verif_alloc_never_fails = 0; verif_mutex_depth = 0;
	tl_fn = NULL;
	verif_Tidx = (int32_t)(nd_handle & UINT32_MAX);
	ts_build(nd_n);
	ASSUME(nd_t_state >= 0 && nd_t_state <= 3);
	VT->state = nd_t_state; VT->check = nd_t_check; VT->timerlist_handle = NULL; VT->p = QB_LOOP_MED;
	VT->install_pos = (uint32_t)verif_Tidx; VT->item.source = (struct qb_loop_source *)ts_src;
	qb_list_init(&VT->item.list);
	struct qb_loop_timer t0 = *VT;
	struct qb_loop_timer *out = NULL;
	int32_t check = (int32_t)(nd_handle >> 32);
	int in_range = verif_Tidx >= 0 && (size_t)verif_Tidx < verif_arr_max;
	int valid = nd_handle != 0 && in_range && check == nd_t_check;

	int32_t rc = _timer_from_handle_(ts_src, nd_handle, &out);

	POST((rc == 0) == valid, "a handle is accepted exactly when it is non-zero, in range and carries the slot's current check word");
	if (rc == 0) {
		COVER(1);
		POST(out == VT, "an accepted handle resolves to the slot it names");
	} else {
		COVER(nd_handle == 0);
		COVER(in_range && check != nd_t_check && nd_t_check > 0 && check > 0);
		COVER(!in_range);
		/* a refused handle: delete fails and nothing changes */
		int32_t rc2 = qb_loop_timer_del(ts_l, nd_handle);
		POST(rc2 != 0, "deleting through a stale or invalid handle is refused");
		POST(VT->state == t0.state && VT->check == t0.check && VT->timerlist_handle == t0.timerlist_handle, "a refused delete does not touch the slot the stale handle names");
		POST(verif_last_other_idx < 0 || (VO->state == o0.state && VO->check == o0.check), "a refused delete does not touch any other registration");
		POST(ts_src->timerlist.size == nd_n && ts_l->level[0].todo == 0 && ts_l->level[1].todo == 0 && ts_l->level[2].todo == 0, "a refused delete leaves the timer heap and the level queues alone");
		POST(qb_loop_timer_expire_time_get(ts_l, nd_handle) == 0 && qb_loop_timer_is_running(ts_l, nd_handle) == 0, "a stale handle is reported as not running");
	}
}
