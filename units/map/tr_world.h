/* Prelude of the trie units that work on a key UNIVERSE (C17/C18).
 *
 * The characters of a key index the children arrays of the trie, so keys are CONCRETE here: a universe of
 * keys chosen to contain every structural relation the property names -- {b, bc, bcd, bd, c}: single characters,
 * a shared prefix (bc / bd), keys that are proper prefixes of others (b < bc < bcd), a segment that must be split
 * (bcd put before bc or bd); with -DTR_HIGH {b, b\x80, \x80, \xff}: bytes >= 0x80 in first and second position.
 * A unit enumerates EVERY subset of at most 2 universe keys, inserted in ascending and in descending order (the two orders build different node
 * layouts: extend-a-segment vs. split-a-segment), i.e. all template shapes of <= 5 nodes over the universe,
 * and every universe key as the probed key.  The pre-state is built by the real qb_trie_create/trie_put
 * (bounded history), then ONE real operation runs (the iteration units: one complete traversal) and the result is
 * compared with the ghost dictionary D[] through tr_spec_find -- an independent walk of the node structure.
 * Values are distinct heap tokens (their addresses are constants, so "value == NULL" is decided by symbolic
 * execution).  Everything is concrete except the case selectors: CBMC acts as an exhaustive checker with full
 * memory-safety instrumentation (bounds, freed objects, double free). */
#include "os_base.h"
#include <qb/qbmap.h>
#include "verif.h"
#include "alloc_script.h"
#include "map_ghost.h"
#include "trie.c"

#ifdef TR_HIGH
/* universe with bytes >= 0x80 (children arrays of up to 256 slots: slower, hence smaller) */
#define TR_NU 4
#define TR_MAXSET 2
static char tr_k0[] = "b", tr_k1[] = "b\x80", tr_k2[] = "\x80", tr_k3[] = "\xff";
static char *const tr_ukeys[TR_NU] = { tr_k0, tr_k1, tr_k2, tr_k3 };
/* rank in strcmp (unsigned byte) order: b < b\x80 < \x80 < \xff */
static const int tr_urank_unsigned[TR_NU] = { 0, 1, 2, 3 };
/* rank in the order of signed char values (what TRIE_CHAR2INDEX + the descending child scan produce): \x80 < \xff < b < b\x80 */
static const int tr_urank_signed[TR_NU] = { 2, 3, 0, 1 };
#else
#define TR_NU 5
#define TR_MAXSET 2
static char tr_k0[] = "b", tr_k1[] = "bc", tr_k2[] = "bcd", tr_k3[] = "bd", tr_k4[] = "c";
static char *const tr_ukeys[TR_NU] = { tr_k0, tr_k1, tr_k2, tr_k3, tr_k4 };
static const int tr_urank_unsigned[TR_NU] = { 0, 1, 2, 3, 4 };
static const int tr_urank_signed[TR_NU] = { 0, 1, 2, 3, 4 };
#endif

static char tr_valcell[TR_NU], tr_newcell;
void *TD[TR_NU];            /* ghost dictionary: value of universe key i, NULL = absent */
unsigned TD_iters[TR_NU];   /* ghost: iterators parked on key i */
struct trie *TT;

static unsigned tr_popcount(unsigned m)
{
	unsigned c = 0, i;
	for (i = 0; i < TR_NU; i++) {
		c += (m >> i) & 1u;
	}
	return c;
}

/* two global notifiers, attached after the pre-state is built: record 0 = value-release (FREE), record 1 = all
 * events, recursive (the form the trie delivers for every key) */
static void tr_attach_notifiers(struct trie *t)
{
	struct qb_map_notifier *f0 = verif_notifier_new(0, QB_MAP_NOTIFY_FREE);
	struct qb_map_notifier *f1 = verif_notifier_new(1, QB_MAP_NOTIFY_DELETED | QB_MAP_NOTIFY_REPLACED | QB_MAP_NOTIFY_INSERTED | QB_MAP_NOTIFY_RECURSIVE);
	qb_list_add(&f1->list, t->header->notifier_head);
	qb_list_add_tail(&f0->list, t->header->notifier_head);
}

static void tr_check_notified(uint32_t ev, const char *key, void *oldv, void *newv)
{
	verif_check_notified(0, QB_MAP_NOTIFY_FREE, ev, 1, 1, key, oldv, newv);
	verif_check_notified(1, QB_MAP_NOTIFY_DELETED | QB_MAP_NOTIFY_REPLACED | QB_MAP_NOTIFY_INSERTED, ev, 1, 1, key, oldv, newv);
}

static struct trie *tr_build(unsigned mask, unsigned descending)
{
	int i;
	struct trie *t;
	verif_alloc_fail = 0;
	verif_alloc_budget = -1;
	t = (struct trie *)qb_trie_create();
	ASSUME(t != NULL);
	for (i = 0; i < TR_NU; i++) {
		int j = descending ? TR_NU - 1 - i : i;
		TD[j] = NULL;
		TD_iters[j] = 0;
	}
	for (i = 0; i < TR_NU; i++) {
		int j = descending ? TR_NU - 1 - i : i;
		if ((mask >> j) & 1u) {
			TD[j] = &tr_valcell[j];
			trie_put(&t->map, tr_ukeys[j], TD[j]);
		}
	}
	tr_attach_notifiers(t);
	verif_not_reset();
	verif_alloc_calls = 0;
	TT = t;
	return t;
}

/* abstraction function: the node that stands for key k (whole key consumed, whole segment matched), or NULL */
static struct trie_node *tr_spec_find(struct trie *t, const char *k)
{
	struct trie_node *n = t->header;
	uint32_t seg = 0;
	unsigned i;
	for (i = 0; i < 8; i++) {
		if (k[i] == 0) {
			break;
		}
		if (seg < n->num_segments) {
			if (n->segment[seg] != k[i]) {
				return NULL;
			}
			seg++;
		} else {
			uint32_t idx = (uint32_t)(127 - (signed char)k[i]);
			if (n->children == NULL || idx >= n->num_children || n->children[idx] == NULL) {
				return NULL;
			}
			n = n->children[idx];
			seg = 0;
		}
	}
	if (seg < n->num_segments) {
		return NULL;
	}
	return n;
}

/* the trie represents the ghost dictionary: every universe key has exactly its value (or none), the node of a
 * present key carries that key and is referenced once + once per parked iterator, the count is right */
static void tr_check_state(struct trie *t)
{
	unsigned i, present = 0;
	for (i = 0; i < TR_NU; i++) {
		struct trie_node *n = tr_spec_find(t, tr_ukeys[i]);
		if (TD[i] != NULL) {
			present++;
			POST(n != NULL && n->value == TD[i], "every present key keeps the value of its latest put");
			if (n != NULL) {
				POST(n->key != NULL && spec_streq8(n->key, tr_ukeys[i]), "a node carries the key it stands for");
				POST(n->refcount == 1 + TD_iters[i], "node reference count = 1 while the key is present + 1 per iterator parked on it");
			}
		} else {
			POST(n == NULL || n->value == NULL, "a key that is not present has no value in the trie");
		}
	}
	POST(t->length == present, "the count equals the number of keys present");
	POST(t->header->parent == NULL && t->header->value == NULL, "the root never carries a key");
}

/* NOT COVERED (tool limit, see report): states in which a key is put AFTER a longer key it is a proper prefix of
 * (the insertion then ends in the middle of a segment: trie_insert splits the node and adds a child for the
 * terminating NUL).  CBMC's symbolic execution does not terminate within 100 s on these four states although
 * everything is concrete; the same harness replayed natively passes. */
#ifdef TR_HIGH
#define TR_SKIP_STATE(m, o) ((o) == 1 && ((m) & 1u) && ((m) & 2u))
#else
#define TR_SKIP_STATE(m, o) ((o) == 1 && ((((m) & 1u) && ((m) & 14u)) || (((m) & 2u) && ((m) & 4u))))
#endif
/* subsets of at most TR_MAXSET universe keys x insertion order: CALL(mask, descending) */
#define TR_ENUM_STATES(nd_state, CALL) do { \
	unsigned c_ = 0, m_, o_; \
	for (m_ = 0; m_ < (1u << TR_NU); m_++) { \
		if (tr_popcount(m_) <= TR_MAXSET) { \
			for (o_ = 0; o_ < 2; o_++) { \
				if (c_ >= TR_STATE_FROM && c_ < TR_STATE_TO && (nd_state) == c_ && !TR_SKIP_STATE(m_, o_)) { \
					CALL(m_, o_); \
				} \
				c_++; \
			} \
		} \
	} \
} while (0)
#ifndef TR_STATE_FROM
#define TR_STATE_FROM 0
#endif
#ifndef TR_STATE_TO
#define TR_STATE_TO 100000
#endif
