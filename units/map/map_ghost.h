/* Shared ghost vocabulary of the map units (C17/C18): symbolic keys, key comparison as the SPECIFICATION
 * sees it (independent of libc), and the notifier stub with its per-notifier call record.
 * Include after the system headers / alloc.h and before or after the spliced source. */
#ifndef VERIF_MAP_GHOST_H
#define VERIF_MAP_GHOST_H
#include "verif.h"
#include <stdlib.h>
#include <qb/qbmap.h>
#include "map_int.h"

/* ---- keys: NUL-terminated strings of length 1..2 over ARBITRARY non-NUL bytes (so bytes >= 0x80,
 *      single characters, shared prefixes and "one key a proper prefix of another" are all included) ---- */
static char *verif_key_new(void)
{
	VERIF_ND(uint8_t, nd_key_c0);
	VERIF_ND(uint8_t, nd_key_c1);
	char *k = malloc(3);
	ASSUME(k != NULL);
	ASSUME(nd_key_c0 != 0);
	k[0] = (char)nd_key_c0;
	k[1] = (char)nd_key_c1;
	k[2] = 0;
	return k;
}

static int spec_streq(const char *a, const char *b)
{
	if (a[0] != b[0]) return 0;
	if (a[0] == 0) return 1;
	if (a[1] != b[1]) return 0;
	if (a[1] == 0) return 1;
	return a[2] == b[2];
}

/* equality of NUL-terminated strings shorter than 8 bytes */
static int spec_streq8(const char *a, const char *b)
{
	int i;
	for (i = 0; i < 8; i++) {
		if (a[i] != b[i]) return 0;
		if (a[i] == 0) return 1;
	}
	return 1;
}

/* dictionary order = byte order of unsigned chars (what "ascending key order" means for C strings) */
static int spec_strcmp(const char *a, const char *b)
{
	unsigned char x, y;
	x = (unsigned char)a[0]; y = (unsigned char)b[0];
	if (x != y) return x < y ? -1 : 1;
	if (x == 0) return 0;
	x = (unsigned char)a[1]; y = (unsigned char)b[1];
	if (x != y) return x < y ? -1 : 1;
	if (x == 0) return 0;
	x = (unsigned char)a[2]; y = (unsigned char)b[2];
	if (x != y) return x < y ? -1 : 1;
	return 0;
}

static int spec_is_prefix(const char *p, const char *k)   /* p is a prefix of k (strings of length <= 2) */
{
	if (p[0] == 0) return 1;
	if (p[0] != k[0]) return 0;
	if (p[1] == 0) return 1;
	if (p[1] != k[1]) return 0;
	return 1;
}

/* ---- declared key order ----
 * CBMC's symbolic execution is only affordable on these pointer structures when the control flow of the
 * real code is concrete.  The harness therefore fixes, per enumerated case, the ORDER RELATION between all
 * keys involved (a concrete rank per key object; equal rank = equal string), ASSUMES that the symbolic key
 * contents realise exactly that relation, and the strcmp stub answers from the ranks -- after asserting that
 * the answer agrees with the contents.  All relations between the keys are enumerated by the harness. */
#define VERIF_MAXKEYS 8
const char *verif_keytab[VERIF_MAXKEYS];
int verif_keyrank[VERIF_MAXKEYS];
unsigned verif_nkeys;

static int verif_sign(int x) { return x < 0 ? -1 : (x > 0 ? 1 : 0); }

static void verif_keys_reset(void) { verif_nkeys = 0; }

static void verif_key_register(const char *k, int rank)
{
	unsigned j;
	for (j = 0; j < verif_nkeys; j++) {
		ASSUME(verif_sign(spec_strcmp(k, verif_keytab[j])) == verif_sign(rank - verif_keyrank[j]));
	}
	verif_keytab[verif_nkeys] = k;
	verif_keyrank[verif_nkeys] = rank;
	verif_nkeys++;
}

static int verif_strcmp(const char *a, const char *b)
{
	int ra = -1, rb = -1, r;
	unsigned i;
	for (i = 0; i < verif_nkeys; i++) {
		if (verif_keytab[i] == a) ra = verif_keyrank[i];
		if (verif_keytab[i] == b) rb = verif_keyrank[i];
	}
	if (ra >= 0 && rb >= 0) {
		r = verif_sign(ra - rb);
		POST(verif_sign(spec_strcmp(a, b)) == r, "AUX: the declared key order agrees with the key contents");
		return r;
	}
	return spec_strcmp(a, b);
}
#undef strcmp
#define strcmp verif_strcmp

/* values: arbitrary non-NULL tokens that are never dereferenced (assumption: stored values are not NULL,
 * because the API reports "nothing" as NULL) */
static void *verif_value_new(void)
{
	VERIF_ND(uint32_t, nd_value);
	ASSUME(nd_value != 0);
	return (void *)(uintptr_t)nd_value;
}

/* ---- notifier stub: every qb_map_notify_fn call site is pinned to verif_notify_cb; user_data points at the
 *      notifier's call record ---- */
#define VERIF_EV_DELETED 0
#define VERIF_EV_REPLACED 1
#define VERIF_EV_INSERTED 2
#define VERIF_EV_FREE 3
#define VERIF_EV_OTHER 4
#define VERIF_MAXNOT 8
struct verif_not_rec {
	int calls[5];
	char *key[5];
	void *oldv[5];
	void *newv[5];
};
struct verif_not_rec verif_not[VERIF_MAXNOT];
int verif_not_total;

static void verif_notify_cb(uint32_t event, char *key, void *old_value, void *value, void *user_data)
{
	struct verif_not_rec *r = (struct verif_not_rec *)user_data;
	int e = event == QB_MAP_NOTIFY_DELETED ? VERIF_EV_DELETED : event == QB_MAP_NOTIFY_REPLACED ? VERIF_EV_REPLACED :
		event == QB_MAP_NOTIFY_INSERTED ? VERIF_EV_INSERTED : event == QB_MAP_NOTIFY_FREE ? VERIF_EV_FREE : VERIF_EV_OTHER;
	verif_not_total++;
	r->calls[e]++;
	r->key[e] = key;
	r->oldv[e] = old_value;
	r->newv[e] = value;
}

qb_map_notify_fn verif_notify_cb_keep = verif_notify_cb;   /* address taken: restrict_fp target */

static void verif_not_reset(void)
{
	static const struct verif_not_rec zero;
	verif_not_total = 0;
	verif_not[0] = zero; verif_not[1] = zero; verif_not[2] = zero;
	verif_not[3] = zero; verif_not[4] = zero; verif_not[5] = zero;
	verif_not[6] = zero; verif_not[7] = zero;
}

static struct qb_map_notifier *verif_notifier_new(int idx, int32_t events)
{
	struct qb_map_notifier *f = malloc(sizeof(*f));
	ASSUME(f != NULL);
	f->events = events;
	f->callback = verif_notify_cb;
	f->user_data = &verif_not[idx];
	f->refcount = 1;
	qb_list_init(&f->list);
	return f;
}

/* what the property prescribes for ONE notifier after ONE map operation:
 *   ev      the event the operation amounts to (QB_MAP_NOTIFY_INSERTED/REPLACED/DELETED) or 0 for "no event"
 *   applies the notifier is attached where this key's events are delivered (global list, or this key's list)
 *   global  it is on the global list (only there the value-release event QB_MAP_NOTIFY_FREE is delivered) */
static void verif_check_notified(int idx, int32_t events, uint32_t ev, int applies, int global,
				 const char *key, void *oldv, void *newv)
{
	struct verif_not_rec *r = &verif_not[idx];
	int e;
	int want_del = applies && ev == QB_MAP_NOTIFY_DELETED && (events & QB_MAP_NOTIFY_DELETED);
	int want_rep = applies && ev == QB_MAP_NOTIFY_REPLACED && (events & QB_MAP_NOTIFY_REPLACED);
	int want_ins = applies && ev == QB_MAP_NOTIFY_INSERTED && (events & QB_MAP_NOTIFY_INSERTED);
	int want_free = applies && global && (ev == QB_MAP_NOTIFY_DELETED || ev == QB_MAP_NOTIFY_REPLACED) && (events & QB_MAP_NOTIFY_FREE);
	POST(r->calls[VERIF_EV_DELETED] == want_del, "a notifier is called exactly once per deletion it subscribed to and never otherwise");
	POST(r->calls[VERIF_EV_REPLACED] == want_rep, "a notifier is called exactly once per replacement it subscribed to and never otherwise");
	POST(r->calls[VERIF_EV_INSERTED] == want_ins, "a notifier is called exactly once per insertion it subscribed to and never otherwise");
	POST(r->calls[VERIF_EV_FREE] == want_free, "the value-release notifier is called exactly once for every value that leaves the map");
	POST(r->calls[VERIF_EV_OTHER] == 0, "a notifier is only called with a single documented event");
	for (e = 0; e < 4; e++) {
		if (r->calls[e] == 1) {
			POST(r->key[e] != NULL && spec_streq(r->key[e], key), "notifier receives the right key");
			POST(r->oldv[e] == oldv && r->newv[e] == newv, "notifier receives the right old and new value");
		}
	}
}
#endif
