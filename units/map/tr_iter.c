/*UNIT
{"props": ["C17"], "src": ["lib/trie.c"], "mode": "plain", "kind": "bounded",
 "bound": "key universe {b, bc, bcd, bd, c} (variant high: {b, b\\x80, \\x80, \\xff}); every subset of <= 2 keys inserted in ascending and descending order by the real trie_put; one COMPLETE traversal (iter_create, iter_next until NULL, iter_free) without prefix and with each prefix from {b, bc, bd, c, x}",
 "unwind": 260, "object_bits": 12, "cbmc_flags": ["--no-malloc-may-fail"],
 "functions": ["trie_iter_create", "trie_iter_next", "trie_iter_free", "trie_node_next", "trie_lookup", "trie_node_ref", "trie_node_deref"],
 "restrict_fp": ["trie_notify.function_pointer_call.1/verif_notify_cb", "trie_notify.function_pointer_call.2/verif_notify_cb"],
 "stubs": ["map notifier callback (records calls)", "calloc/malloc/realloc (scripted: succeed)"],
 "expect_classes": ["assertion"], "timeout": 400,
 "variants": [{"vname": "ascii_a", "defines": ["-DTR_STATE_FROM=0", "-DTR_STATE_TO=10"]},
              {"vname": "ascii_b", "defines": ["-DTR_STATE_FROM=10", "-DTR_STATE_TO=20"]},
              {"vname": "ascii_c", "defines": ["-DTR_STATE_FROM=20", "-DTR_STATE_TO=32"]},
              {"vname": "high", "tier": "off", "defines": ["-DTR_HIGH"]}]}
*/
/* A complete iteration over every bounded trie state yields every present key exactly once, in ascending key
 * order (strcmp order: bytes compared as unsigned char), with its value; a prefix iterator yields exactly the
 * present keys that start with the prefix, in the same order; the traversal changes nothing and leaves no
 * reference behind.
 *  ascii: universe of 7-bit keys.
 *  high : universe with bytes >= 0x80 -- the trie indexes children by 127 - (signed char)c and scans them
 *         downwards, i.e. it orders bytes as SIGNED chars: keys with bytes >= 0x80 come before ASCII keys, which
 *         is not ascending strcmp order (and differs from the skiplist).  Finding T2, see the report. */
#include "tr_world.h"

static int verif_case_prefix;   /* -1: no prefix */
static char tr_p0[] = "b", tr_p1[] = "bc", tr_p2[] = "bd", tr_p3[] = "c", tr_p4[] = "x";
#ifdef TR_HIGH
static char tr_p5[] = "\x80";
static char *const tr_prefixes[5] = { tr_p0, tr_p5, tr_p2, tr_p3, tr_p4 };
#else
static char *const tr_prefixes[5] = { tr_p0, tr_p1, tr_p2, tr_p3, tr_p4 };
#endif

static int tr_has_prefix(const char *p, const char *k)
{
	int i;
	for (i = 0; i < 8; i++) {
		if (p[i] == 0) return 1;
		if (p[i] != k[i]) return 0;
	}
	return 1;
}

static void verif_case(unsigned mask, unsigned descending)
{
	struct trie *t = tr_build(mask, descending);
	const char *prefix = verif_case_prefix < 0 ? NULL : tr_prefixes[verif_case_prefix];
	unsigned seen[TR_NU], i, steps, expected = 0, got = 0;
	int last = -1;
	void *val;
	const char *key;

	for (i = 0; i < TR_NU; i++) {
		seen[i] = 0;
		if (TD[i] != NULL && (prefix == NULL || tr_has_prefix(prefix, tr_ukeys[i]))) {
			expected++;
		}
	}
	qb_map_iter_t *it = trie_iter_create(&t->map, prefix);
	ASSUME(it != NULL);
	for (steps = 0; steps < TR_NU + 1; steps++) {
		val = NULL;
		key = trie_iter_next(it, &val);
		if (key == NULL) {
			break;
		}
		int j = -1;
		for (i = 0; i < TR_NU; i++) {
			if (key == tr_ukeys[i]) {
				j = (int)i;
			}
		}
		POST(j >= 0 && TD[j] != NULL, "iteration returns only keys that are present");
		if (j >= 0) {
			POST(val == TD[j], "iteration returns each key with its value");
			POST(!seen[j], "iteration returns no key twice");
			POST(prefix == NULL || tr_has_prefix(prefix, tr_ukeys[j]), "a prefix iterator returns only keys with the prefix");
			POST(tr_urank_unsigned[j] > last, "iteration returns the keys in ascending key order");
			last = tr_urank_unsigned[j];
			seen[j] = 1;
			got++;
		}
	}
	POST(key == NULL, "iteration ends after the last present key");
	POST(got == expected, "a complete iteration yields every present key (with the prefix) exactly once");
	trie_iter_free(it);
	COVER(expected == 2 && prefix == NULL);
	COVER(expected >= 1 && prefix != NULL);
	COVER(expected == 0 && prefix != NULL && mask != 0);
	POST(verif_not_total == 0, "iterating announces nothing");
	tr_check_state(t);
}

void harness(void)
{
	VERIF_ND(uint8_t, nd_state);
	VERIF_ND(uint8_t, nd_prefix);
	int p;
	for (p = -1; p < 5; p++) {
		if ((int)nd_prefix == p + 1) {
			verif_case_prefix = p;
			TR_ENUM_STATES(nd_state, verif_case);
		}
	}
}
