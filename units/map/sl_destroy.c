/*UNIT
{"props": ["C17"], "src": ["lib/skiplist.c", "lib/map.c"], "mode": "plain", "kind": "bounded",
 "bound": "skiplist of 0..3 key-ordered nodes with levels <= 2 (10 level patterns), fully linked, every node owning its forward array; keys of length 1..2 (arbitrary bytes), values arbitrary; notifiers: none, or 2 global (arbitrary 5-bit event masks) + 1 per key (arbitrary 4-bit masks); ONE qb_map_destroy",
 "unwind": 18, "object_bits": 12, "cbmc_flags": ["--no-malloc-may-fail"],
 "functions": ["qb_map_destroy", "skiplist_destroy", "skiplist_node_next", "skiplist_node_destroy", "skiplist_notify"],
 "restrict_fp": ["skiplist_notify.function_pointer_call.1/verif_destroy_cb", "skiplist_notify.function_pointer_call.2/verif_destroy_cb",
                 "skiplist_notify.function_pointer_call.3/verif_destroy_cb", "qb_map_destroy.function_pointer_call.1/skiplist_destroy"],
 "stubs": ["map notifier callback (files every call under call record, entry and event)", "free (logs the released object, then really frees)"],
 "expect_classes": ["assertion"], "timeout": 300,
 "variants": [{"vname": "quiet", "defines": ["-DV_QUIET"]}, {"vname": "subscribed", "defines": ["-DV_SUBSCRIBED"]}]}
*/
/* qb_map_destroy on a skiplist (lib/map.c wrapper + skiplist_destroy), from every bounded state:
 *  - every entry still in the map leaves it: its deletion is announced exactly once to the global and to its own
 *    per-key notifiers that subscribed to deletions, and the value-release (FREE) notifier is called exactly once
 *    per entry, with that entry's key and value -- and no notifier is called for anything that is not an entry;
 *  - no node, forward array, notifier registration, nor the header or the list itself is released twice (that
 *    everything IS released is not part of C17: a leak is not reported), nothing is touched after it was released (CBMC's checks on the real heap objects).
 *  quiet     : no notifiers, or global notifiers that subscribed to neither deletions nor value release (+ per key);
 *  subscribed: at least one global notifier subscribed to deletions or to value release.
 *              GENUINE DEFECT (new, S3): skiplist_destroy disposes of the HEADER through skiplist_node_destroy, which
 *              announces a deletion for it -- the header's own list IS the global list, so every global DELETED
 *              subscriber is called twice and the value-release notifier once with key NULL, old value NULL, for an
 *              entry that never existed (a handler that looks at its key or value crashes). */
#include "os_base.h"
#include "free_log.h"
#include "sl_common.h"
#include "map.c"
#include "not_reg.h"
#include "destroy_ghost.h"

static void verif_case(unsigned n, int pat, unsigned nt)
{
	unsigned i;
	struct skiplist_node *nodes[SL_GMAX], *header;
	struct skiplist_node **fwd[SL_GMAX], **hfwd;
	verif_keys_reset();
	verif_reg_reset();
	verif_destroy_ghost_reset();
	struct skiplist *l = sl_build(n, pat, nt, -1, 0, -1);
#ifdef V_QUIET
	if (nt) {
		ASSUME((SG_gev[0] & (QB_MAP_NOTIFY_DELETED | QB_MAP_NOTIFY_FREE)) == 0 && (SG_gev[1] & (QB_MAP_NOTIFY_DELETED | QB_MAP_NOTIFY_FREE)) == 0);
	}
#else
	if (!nt) {
		return;
	}
	ASSUME(((SG_gev[0] | SG_gev[1]) & (QB_MAP_NOTIFY_DELETED | QB_MAP_NOTIFY_FREE)) != 0);
#endif
	header = l->header;
	hfwd = header->forward;
	for (i = 0; i < SG_n; i++) {
		nodes[i] = SG[i].n;
		fwd[i] = SG[i].n->forward;
		verif_destroy_entry(SG[i].key, SG[i].value);
	}
	verif_reg_snapshot(&header->notifier_head, VERIF_WHERE_GLOBAL);
	for (i = 0; i < SG_n; i++) {
		verif_reg_snapshot(&SG[i].n->notifier_head, (int)i);
	}
	for (i = 0; i < VERIF_MAXREG; i++) {
		if (i < VR_n) {
			VR[i].obj->callback = verif_destroy_cb;
		}
	}
	verif_free_log_reset();

	qb_map_destroy(&l->map);

#ifdef V_QUIET
	COVER(SG_n == 0 && nt == 0);
	COVER(SG_n == 3 && nt == 0);
	COVER(SG_n == 2 && nt == 1);
#else
	COVER(SG_n == 0);
	COVER(SG_n == 3 && (SG_gev[0] & QB_MAP_NOTIFY_FREE) && (SG_gev[1] & QB_MAP_NOTIFY_DELETED));
	COVER(SG_n == 1 && (SG_gev[0] & QB_MAP_NOTIFY_FREE) && !(SG_gev[1] & (QB_MAP_NOTIFY_FREE | QB_MAP_NOTIFY_DELETED)));
#endif
	for (i = 0; i < SG_gnot; i++) {
		verif_destroy_check_reg((int)i, SG_gev[i], -1);
	}
	for (i = 0; i < SG_n; i++) {
		if (SG[i].notidx >= 0) {
			verif_destroy_check_reg(SG[i].notidx, SG[i].notev, (int)i);
		}
	}
	if (nt == 0) {
		POST(VD_total == 0, "without notifiers destroy calls nothing");
	}
	for (i = 0; i < SG_n; i++) {
		POST(verif_freed_times(nodes[i]) <= 1 && verif_freed_times(fwd[i]) <= 1, "destroy releases no node of the map twice");
	}
	for (i = 0; i < VERIF_MAXREG; i++) {
		if (i < VR_n) {
			POST(verif_freed_times(VR[i].obj) <= 1, "destroy releases no notifier registration twice");
		}
	}
	POST(verif_freed_times(header) <= 1 && verif_freed_times(hfwd) <= 1 && verif_freed_times(l) <= 1, "destroy releases the map object at most once");
	POST(verif_free_n <= VERIF_FREE_LOG_MAX, "AUX: the free log is large enough");
	verif_destroy_check_args();
}

void harness(void)
{
	VERIF_ND(uint8_t, nd_case);
	unsigned c = 0, n, q, nt;
	for (n = 0; n <= SL_MAXN; n++) {
		for (q = 0; q < (n == 0 ? 1u : SL_NPAT(n)); q++) {
			for (nt = 0; nt < 2; nt++) {
				if (nd_case == c) {
					verif_case(n, sl_pattern(n, q), nt);
				}
				c++;
			}
		}
	}
}
