/*UNIT
{"props": ["C18"], "src": ["lib/skiplist.c"], "mode": "plain", "kind": "bounded",
 "bound": "skiplist with keys a < b < d present (all level 0, list level 0), key c removed earlier while an iterator is parked on it (level -1, sharing its predecessor b's forward array -- the state skiplist_rm leaves behind); two real operations: one skiplist_rm, then skiplist_iter_next of the parked iterator; symbolic values",
 "unwind": 12, "cbmc_flags": ["--no-malloc-may-fail"],
 "functions": ["skiplist_rm", "skiplist_iter_next", "skiplist_node_next", "skiplist_node_deref", "skiplist_node_destroy", "skiplist_notify", "op_search"],
 "restrict_fp": ["skiplist_notify.function_pointer_call.1/verif_notify_cb", "skiplist_notify.function_pointer_call.2/verif_notify_cb",
                 "skiplist_notify.function_pointer_call.3/verif_notify_cb"],
 "stubs": ["map notifier callback (records calls)", "calloc/malloc (scripted, succeed)", "strcmp (byte-wise comparison of the short keys)"],
 "expect_classes": ["assertion"], "timeout": 300,
 "variants": [{"vname": "rm_successor", "defines": ["-DV_RMKEY=\"d\"", "-DV_SUCC"]},
              {"vname": "rm_predecessor", "defines": ["-DV_RMKEY=\"b\"", "-DV_PRED"]},
              {"vname": "compose_succ", "defines": ["-DV_RMKEY=\"d\"", "-DV_COMPOSE", "-DV_SUCC"],
               "bound": "skiplist with keys a < b < c < d present (level 0), iterator parked on c; THREE real operations: skiplist_rm(c), skiplist_rm(d), skiplist_iter_next; symbolic values"},
              {"vname": "compose_succ_pred_parked", "defines": ["-DV_RMKEY=\"d\"", "-DV_COMPOSE", "-DV_SUCC", "-DV_PRED_PARKED"],
               "bound": "skiplist with keys a < b < c < d present (level 0), one iterator parked on c and another one on its predecessor b; THREE real operations: skiplist_rm(c), skiplist_rm(d), skiplist_iter_next of the iterator on c; symbolic values"},
              {"vname": "compose_first", "defines": ["-DV_RMKEY=\"a\"", "-DV_COMPOSE"],
               "bound": "skiplist with keys a < b < c < d present (level 0), iterator parked on c; THREE real operations: skiplist_rm(c), skiplist_rm(a), skiplist_iter_next; symbolic values"},
              {"vname": "rm_successor_at_head", "defines": ["-DV_RMKEY=\"b\"", "-DV_HEAD"],
               "bound": "skiplist with keys b < d present (level 0), key a removed earlier while an iterator is parked on it (level -1, sharing the HEADER's forward array); skiplist_rm(b), then skiplist_iter_next of the parked iterator; symbolic values"}]}
*/
/* Iterator parked on an entry that was removed under it (the documented use), then ANOTHER entry is removed,
 * then the iterator advances.  C18: no freed memory is touched, the iteration continues with the next key
 * that is still present, the count is right.
 *  rm_successor  : the entry after the parked one is removed -> the iterator reports the end.     (passes)
 *  rm_predecessor: the entry BEFORE the parked one is removed -> the iterator must continue with d.
 *    GENUINE DEFECT (new): the removed-but-parked node c shares b's forward array (take-over in skiplist_rm);
 *    removing b (not parked, predecessor a is not the header) frees that array in skiplist_node_destroy, and
 *    the iterator's next step reads it: use after free in skiplist_node_next.
 *  compose_succ / compose_first: the parked entry c is removed by the REAL skiplist_rm first (so the state "removed
 *    but parked" is the one the code produces, not a hand-built one), then its successor d resp. the first entry a,
 *    then the iterator advances: end of iteration resp. d, no freed memory touched.
 *  rm_successor_at_head: the parked, removed entry was the FIRST one (it shares the header's forward array); the
 *    entry after it is removed -> its predecessor is the header, so skiplist_rm takes the array over once more and
 *    frees the one the parked node still uses.  GENUINE DEFECT, same root cause (forward arrays are shared without
 *    being reference counted); native reproducer: put a,b,c; next (a); rm a; rm b; next. */
#include "os_base.h"
#include <qb/qbmap.h>
#include "verif.h"
#include "alloc_script.h"
#include "map_ghost.h"
#include "skiplist.c"

static struct skiplist_node *sl_node(const char *key, void *value, int8_t level, uint32_t refcount, int own_forward)
{
	struct skiplist_node *n = malloc(sizeof(*n));
	int i;
	ASSUME(n != NULL);
	n->key = key;
	n->value = value;
	n->level = level;
	n->refcount = refcount;
	qb_list_init(&n->notifier_head);
	n->forward = NULL;
	if (own_forward) {
		n->forward = malloc((SKIPLIST_LEVEL_MAX + 1) * sizeof(struct skiplist_node *));
		ASSUME(n->forward != NULL);
		for (i = 0; i <= SKIPLIST_LEVEL_MAX; i++) {
			n->forward[i] = NULL;
		}
	}
	return n;
}

void harness(void)
{
	verif_alloc_fail = 0;
	verif_not_reset();
	struct skiplist *l = malloc(sizeof(*l));
	ASSUME(l != NULL);
	void *va = verif_value_new(), *vb = verif_value_new(), *vc = verif_value_new(), *vd = verif_value_new();
	struct skiplist_node *h = sl_node(NULL, NULL, SKIPLIST_LEVEL_MAX, 1, 1);
	struct skiplist_node *a = sl_node("a", va, 0, 1, 1);
#ifdef V_PRED_PARKED
	struct skiplist_node *b = sl_node("b", vb, 0, 2, 1);   /* a second iterator is parked on the predecessor (seed C18-m3) */
#else
	struct skiplist_node *b = sl_node("b", vb, 0, 1, 1);
#endif
#ifdef V_COMPOSE
	struct skiplist_node *c = sl_node("c", vc, 0, 2, 1);                        /* present, one iterator parked on it */
#else
	struct skiplist_node *c = sl_node("c", vc, SKIPLIST_LEVEL_MIN - 1, 1, 0);   /* removed, parked */
#endif
	struct skiplist_node *d = sl_node("d", vd, 0, 1, 1);
	l->level = 0;
	l->header = h;
	struct skiplist_iter *it = malloc(sizeof(*it));
	ASSUME(it != NULL);
	it->i.m = &l->map;
#ifdef V_HEAD
	/* a was removed while parked: it is out of the chain and shares the header's forward array; c is not used */
	l->length = 2;
	a->level = SKIPLIST_LEVEL_MIN - 1;
	free(a->forward);
	a->forward = h->forward;
	h->forward[0] = b;
	b->forward[0] = d;
	it->n = a;
#elif defined(V_COMPOSE)
	l->length = 4;
	h->forward[0] = a;
	a->forward[0] = b;
	b->forward[0] = c;
	c->forward[0] = d;
	it->n = c;
	int32_t r0 = skiplist_rm(&l->map, "c");
	POST(r0 != QB_FALSE && l->length == 3, "removing the entry an iterator is parked on succeeds and is counted");
#else
	l->length = 3;
	h->forward[0] = a;
	a->forward[0] = b;
	b->forward[0] = d;
	c->forward = b->forward;            /* what skiplist_rm("c") left: c took over b's forward array */
	it->n = c;
#endif
	void *val = NULL;

	int32_t r = skiplist_rm(&l->map, V_RMKEY);
	const char *k = skiplist_iter_next(&it->i, &val);

	COVER(1);
	POST(r != QB_FALSE, "remove reports success when the key was present");
#ifdef V_HEAD
	POST(l->length == 1, "the count equals the number of keys present");
#else
	POST(l->length == 2, "the count equals the number of keys present");
#endif
#ifdef V_SUCC
	POST(k == NULL, "the iteration ends when no present key is left after the position");
#else
	POST(k != NULL && k[0] == 'd' && val == vd, "an iterator parked on a removed entry continues with the next present key");
#endif
}
