/*UNIT
{"props": ["C18", "C17"], "src": ["lib/trie.c"], "mode": "plain", "kind": "bounded",
 "bound": "tries {b}, {b, c}, {bc, bd}, {b, bc} built by the real trie_put; an iterator advanced one step (parked on the first key); ONE trie_rm of the parked key (variant parked) or of another key (variant other); then the iterator is advanced and freed",
 "unwind": 140, "object_bits": 11, "cbmc_flags": ["--no-malloc-may-fail"],
 "functions": ["trie_rm", "trie_iter_next", "trie_iter_free", "trie_node_deref", "trie_node_destroy", "trie_node_release"],
 "restrict_fp": ["trie_notify.function_pointer_call.1/verif_notify_cb", "trie_notify.function_pointer_call.2/verif_notify_cb"],
 "stubs": ["map notifier callback (records calls)", "calloc/malloc/realloc (scripted: succeed)"],
 "expect_classes": ["assertion"], "timeout": 300,
 "variants": [{"vname": "parked", "defines": ["-DV_PARKED"]}, {"vname": "other", "defines": ["-DV_OTHER"]}, {"vname": "abandon", "defines": ["-DV_ABANDON"]},
              {"vname": "parked_twice", "defines": ["-DV_PARKED", "-DV_TWO_ITERS"]},
              {"vname": "parked_then_rest", "defines": ["-DV_PARKED", "-DV_THEN_REST"]}]}
*/
/* Removing an entry while a trie iterator is open (C18) -- "remove reports success exactly when the key was
 * present and then the key is gone" (C17) must hold at once, also for the entry the iterator is positioned on;
 * afterwards the iterator continues with the remaining keys, touches no freed memory, and once it is gone the
 * trie is exactly the dictionary of the surviving entries.
 *  abandon: no removal; the iterator is abandoned part-way (iter_free while parked): its reference is released;
 *  other : the removed key is not the one the iterator is parked on (passes);
 *  parked_twice: TWO iterators are positioned on the entry that is removed (seed C18-m4): the emptied node must stay
 *          until BOTH have moved on; each continues with the remaining keys;
 *  parked_then_rest: the parked key is removed, then EVERY other key as well (C18: "removing any entry ... the last
 *          remaining one, or all of them"); the iterator then reports the end; no freed memory is touched -- in
 *          particular the emptied node the iterator is still positioned on must not be released together with its
 *          last child (found natively after fix 8bf0afc: put b, bc; next (b); rm b; rm bc; next -> use after free);
 *  parked: the removed key IS the one the iterator is parked on.  GENUINE DEFECT T1: trie_rm only drops one of
 *          the node's two references, the value stays in the node: the key is still found (get returns the value,
 *          a second rm succeeds again and frees the node under the iterator). */
#include "tr_world.h"

static void verif_case(unsigned mask, unsigned descending)
{
	struct trie *t = tr_build(mask, descending);
	unsigned i;
	int parked = -1, victim = -1;
	void *val = NULL;
	qb_map_iter_t *it = trie_iter_create(&t->map, NULL);
	ASSUME(it != NULL);
	const char *key = trie_iter_next(it, &val);
	for (i = 0; i < TR_NU; i++) {
		if (key == tr_ukeys[i]) {
			parked = (int)i;
		}
	}
	ASSUME(parked >= 0);
	TD_iters[parked] = 1;
#ifdef V_TWO_ITERS
	void *val2 = NULL;
	qb_map_iter_t *it2 = trie_iter_create(&t->map, NULL);
	ASSUME(it2 != NULL);
	const char *key2 = trie_iter_next(it2, &val2);
	POST(key2 == key, "two fresh iterators start with the same key");
	TD_iters[parked] = 2;
#endif
#ifdef V_ABANDON
	tr_check_state(t);
	trie_iter_free(it);
	TD_iters[parked] = 0;
	COVER(tr_popcount(mask) == 2);
	POST(verif_not_total == 0, "abandoning an iterator announces nothing");
	tr_check_state(t);     /* the abandoned iterator's reference is released */
	return;
#endif
#ifdef V_PARKED
	victim = parked;
#else
	for (i = 0; i < TR_NU; i++) {
		if (TD[i] != NULL && (int)i != parked) {
			victim = (int)i;
		}
	}
	if (victim < 0) {
		trie_iter_free(it);
		return;
	}
#endif
	void *oldv = TD[victim];
	verif_not_reset();

	int32_t r = trie_rm(&t->map, tr_ukeys[victim]);

#ifndef V_ABANDON
	COVER(tr_popcount(mask) == 2);
#endif
	POST(r != QB_FALSE, "remove reports success when the key was present");
	TD[victim] = NULL;
	tr_check_state(t);     /* the removed key is gone at once; the others keep their values; the count is right */
	if (victim != parked) {
		tr_check_notified(QB_MAP_NOTIFY_DELETED, tr_ukeys[victim], oldv, NULL);
	}
#ifdef V_THEN_REST
	for (i = 0; i < TR_NU; i++) {
		if (TD[i] != NULL) {
			int32_t r2 = trie_rm(&t->map, tr_ukeys[i]);
			POST(r2 != QB_FALSE, "remove reports success when the key was present");
			TD[i] = NULL;
		}
	}
	tr_check_state(t);
#endif
	key = trie_iter_next(it, &val);
#ifdef V_THEN_REST
	POST(key == NULL, "the iteration ends when no present key is left");
#endif
	if (key != NULL) {
		int idx = -1;
		for (i = 0; i < TR_NU; i++) {
			if (key == tr_ukeys[i]) {
				idx = (int)i;
			}
		}
#if defined(V_PARKED) && !defined(V_THEN_REST)
		COVER(1);
#endif
		POST(idx >= 0 && TD[idx] != NULL && idx != parked, "the iteration continues with a key that is still present");
	}
#ifdef V_TWO_ITERS
	/* the first iterator has moved on; the second one is still positioned on the emptied node */
	key2 = trie_iter_next(it2, &val2);
	if (key2 != NULL) {
		int idx2 = -1;
		for (i = 0; i < TR_NU; i++) {
			if (key2 == tr_ukeys[i]) {
				idx2 = (int)i;
			}
		}
		POST(idx2 >= 0 && TD[idx2] != NULL && idx2 != parked, "the iteration continues with a key that is still present");
	}
	POST(key2 == key, "both iterators continue with the same next key");
	trie_iter_free(it2);
#endif
	trie_iter_free(it);
	TD_iters[parked] = 0;
	tr_check_state(t);     /* once the iterator is gone the trie is exactly the dictionary of the survivors */
}

void harness(void)
{
	VERIF_ND(uint8_t, nd_state);
	if (nd_state == 0) verif_case(1u, 0);            /* {b} */
	if (nd_state == 1) verif_case(1u | 16u, 0);      /* {b, c} */
	if (nd_state == 2) verif_case(2u | 8u, 0);       /* {bc, bd} */
	if (nd_state == 3) verif_case(1u | 2u, 0);       /* {b, bc} */
}
