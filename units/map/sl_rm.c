/*UNIT
{"props": ["C17", "C18"], "src": ["lib/skiplist.c"], "mode": "plain", "kind": "bounded",
 "bound": "skiplist of <= 3 key-ordered nodes with levels <= 2 (10 level patterns), fully linked; keys of length 1..2 (arbitrary bytes); every position of the probed key relative to the nodes (equal to one, or in any gap) enumerated; the removed node has 0 or 1 iterator parked on it; notifiers none or 2 global + 1 per key",
 "unwind": 12, "object_bits": 12, "cbmc_flags": ["--no-malloc-may-fail"],
 "functions": ["skiplist_rm", "skiplist_node_next", "skiplist_node_deref", "skiplist_node_destroy", "skiplist_notify", "op_search"],
 "restrict_fp": ["skiplist_notify.function_pointer_call.1/verif_notify_cb", "skiplist_notify.function_pointer_call.2/verif_notify_cb",
                 "skiplist_notify.function_pointer_call.3/verif_notify_cb"],
 "stubs": ["map notifier callback (records event, key, old and new value per notifier)", "calloc/malloc (scripted: succeed)", "strcmp (declared key order, asserted to agree with the contents)", "random (scripted: the level of the new node is chosen by the harness)"],
 "expect_classes": ["assertion"], "timeout": 300,
 "variants": [{"vname": "n012", "defines": ["-DSL_CASE_TO=28"]}, {"vname": "n3a", "defines": ["-DSL_CASE_FROM=28", "-DSL_CASE_TO=42"]},
              {"vname": "n3b", "defines": ["-DSL_CASE_FROM=42"]}, {"vname": "last_parked", "defines": ["-DV_LAST_PARKED", "-DSL_CASE_TO=8"]}]}
*/
/* skiplist_rm(k) on every bounded well-formed list and every key: reports success exactly when k is present;
 * then k is gone from every level, the other keys stay linked in ascending order, the count drops by one, and the
 * deletion is announced exactly once (DELETED to subscribed global and per-key notifiers, FREE to the
 * value-release notifier) -- immediately when no iterator is parked on the node; when one is (C18: removing the
 * entry an iterator is positioned on, the last one, the first one after the header), the node survives unlinked,
 * referenced only by the iterator, and still leads to the next present key.  Absent key: failure, no change.
 *  n012, n3a, n3b: lists of 0..2 nodes / of 3 nodes (two halves of the cases), everything except the class below;
 *  last_parked: removing the LAST remaining entry while an iterator is parked on it.  GENUINE DEFECT (new, S2):
 *               the level-trimming loop of skiplist_rm lets list->level drop to -1, which is the "tear-down"
 *               flag; when the iterator then leaves the removed node, skiplist_node_destroy frees its forward
 *               array -- the one the header now uses (taken over) -- and the next put/get touches freed memory. */
#include "sl_common.h"

static unsigned verif_case_iters;

static void verif_case(unsigned n, int pat, unsigned nt, unsigned p)
{
	verif_keys_reset();
	char *k = verif_key_new();
	verif_key_register(k, SL_PROBE_RANK(p));
	int gi = SL_PROBE_MATCH(p);
	if (gi < 0 && verif_case_iters) {
		return;
	}
#ifdef V_LAST_PARKED
	if (!(n == 1 && gi == 0 && verif_case_iters == 1)) {
		return;
	}
#else
	if (n == 1 && gi == 0 && verif_case_iters == 1) {
		return;
	}
#endif
	struct skiplist *l = sl_build(n, pat, nt, gi, verif_case_iters, -1);

	int32_t r = skiplist_rm(&l->map, k);

	if (gi >= 0) {
		void *oldv = SG[gi].value;
#ifdef V_LAST_PARKED
		COVER(n == 1 && SG[gi].iters == 1);
#else
		COVER(SG[gi].iters == 0);
		COVER(SG[gi].iters == 1);
		COVER(gi == 0 && SG[gi].iters == 1);
		COVER(gi == (int)n - 1 && gi > 0);
#endif
		POST(r != QB_FALSE, "remove reports success when the key was present");
		SG[gi].present = 0;
		if (SG[gi].iters == 0) {
			sl_check_notified(QB_MAP_NOTIFY_DELETED, gi, k, oldv, NULL);
		} else {
			sl_check_notified_deferred();
		}
	} else {
#ifndef V_LAST_PARKED
		COVER(p == 0);
		COVER(p == 2 * n && n > 0);
#endif
		POST(r == QB_FALSE, "remove reports failure when the key was not present");
		POST(verif_not_total == 0, "a failed remove calls no notifier");
	}
	sl_check_state(l);
}

void harness(void)
{
	VERIF_ND(uint8_t, nd_case);
	VERIF_ND(uint8_t, nd_parked);
	if (nd_parked) {
		verif_case_iters = 1;
		SL_ENUM_CASES(nd_case, verif_case);
	} else {
		verif_case_iters = 0;
		SL_ENUM_CASES(nd_case, verif_case);
	}
}
