/* Common prelude of the skiplist units (C17/C18): hand-built key-ordered skiplists of bounded shape on the
 * heap, with the ghost dictionary they represent.
 *
 * Shape bound: header (level 8) + 0..3 nodes in ascending key order with levels 0..2 (level patterns listed in
 * sl_pattern), every level chain fully linked, list level = highest node level; optionally ONE node that was
 * removed while an iterator is parked on it ("zombie": level -1, not linked, sharing the forward array of its
 * predecessor -- exactly what skiplist_rm leaves behind); notifiers: none, or 2 global (on the header) + 1 per
 * key, arbitrary event masks.  Keys: length 1..2 over arbitrary bytes, with the ORDER between all keys of a
 * case declared (map_ghost.h) and every position of the probed key relative to the nodes enumerated; values
 * non-NULL tokens.  Shapes are enumerated as concrete cases (see ht_common.h for the reason). */
#include "os_base.h"
#include <qb/qbmap.h>
#include "verif.h"
#include "alloc_script.h"
#include "map_ghost.h"

/* skiplist_level_generate draws random() until a value >= 2^14 appears: the stub scripts the level */
int verif_level_budget;
static long verif_random(void)
{
	if (verif_level_budget > 0) {
		verif_level_budget--;
		return 0;
	}
	return 0xFFFF;
}
#define random verif_random
#include "skiplist.c"

#define SL_MAXN 3
#define SL_GMAX 5
struct sl_gnode {
	struct skiplist_node *n;
	char *key;
	void *value;
	int level;          /* level of a linked node */
	int rank;           /* declared key order */
	unsigned present;
	unsigned iters;
	int notidx;
	int32_t notev;
};
struct sl_gnode SG[SL_GMAX];
unsigned SG_n;
unsigned SG_gnot;
int32_t SG_gev[2];
unsigned SG_header_iters;   /* iterators still parked on the header (fresh iterators) */

static struct skiplist_node *sl_node_raw(const char *key, void *value, int8_t level, uint32_t refcount, int own_forward)
{
	struct skiplist_node *n = malloc(sizeof(*n));
	int i;
	ASSUME(n != NULL);
	n->key = key;
	n->value = value;
	n->level = level;
	n->refcount = refcount;
	qb_list_init(&n->notifier_head);
	n->forward = NULL;
	if (own_forward) {
		n->forward = malloc((SKIPLIST_LEVEL_MAX + 1) * sizeof(struct skiplist_node *));
		ASSUME(n->forward != NULL);
		for (i = 0; i <= SKIPLIST_LEVEL_MAX; i++) {
			n->forward[i] = NULL;
		}
	}
	return n;
}

/* level patterns: packed l0 + 3*l1 + 9*l2 */
static int sl_pattern(unsigned n, unsigned q)
{
	if (n == 0) return (int)q;          /* empty list: list level 0, or -1 (what removing the last key leaves) */
	if (n == 1) return q == 0 ? 0 : 2;
	if (n == 2) return q == 0 ? 0 + 3 * 0 : q == 1 ? 1 + 3 * 0 : q == 2 ? 0 + 3 * 2 : 2 + 3 * 1;
	if (n == 3) return q == 0 ? 0 : q == 1 ? 1 + 3 * 0 + 9 * 2 : q == 2 ? 2 + 3 * 1 + 9 * 0 : 0 + 3 * 2 + 9 * 1;
	return 0;
}
#define SL_NPAT(n) ((n) <= 1 ? 2u : 4u)
#define SL_LEVEL(pat, i) ((i) == 0 ? (pat) % 3 : (i) == 1 ? ((pat) / 3) % 3 : ((pat) / 9) % 3)

/* n nodes with ranks 2, 4, 6; node `match` (or -1) gets m_iters parked iterators (others none);
 * zgap >= 0: a zombie with rank 2*zgap+1 (between node zgap-1 and node zgap) sharing its predecessor's array */
static struct skiplist *sl_build(unsigned n, int pat, unsigned nt, int match, unsigned m_iters, int zgap)
{
	struct skiplist *l = malloc(sizeof(*l));
	struct skiplist_node *h;
	unsigned i;
	int lv, top = 0;
	ASSUME(l != NULL);
	verif_alloc_fail = 0;
	verif_not_reset();
	l->map.put = skiplist_put;
	l->map.get = skiplist_get;
	l->map.rm = skiplist_rm;
	l->map.count_get = skiplist_count_get;
	l->map.iter_create = skiplist_iter_create;
	l->map.iter_next = skiplist_iter_next;
	l->map.iter_free = skiplist_iter_free;
	l->map.destroy = skiplist_destroy;
	l->map.notify_add = skiplist_notify_add;
	l->map.notify_del = skiplist_notify_del;
	h = sl_node_raw(NULL, NULL, SKIPLIST_LEVEL_MAX, 1, 1);
	l->header = h;
	SG_header_iters = 0;
	SG_gnot = nt ? 2 : 0;
	for (i = 0; i < SG_gnot; i++) {
		VERIF_ND(uint8_t, nd_gevents);
		ASSUME(nd_gevents < 32 && nd_gevents != 0);
		SG_gev[i] = nd_gevents;
		qb_list_add_tail(&verif_notifier_new((int)i, nd_gevents)->list, &h->notifier_head);
	}
	SG_n = n;
	for (i = 0; i < n; i++) {
		VERIF_ND(uint8_t, nd_nevents);
		unsigned it = ((int)i == match) ? m_iters : 0;
		SG[i].level = SL_LEVEL(pat, i);
		SG[i].rank = 2 * ((int)i + 1);
		SG[i].key = verif_key_new();
		verif_key_register(SG[i].key, SG[i].rank);
		SG[i].value = verif_value_new();
		SG[i].present = 1;
		SG[i].iters = it;
		SG[i].n = sl_node_raw(SG[i].key, SG[i].value, (int8_t)SG[i].level, 1 + it, 1);
		ASSUME(nd_nevents < 16 && nd_nevents != 0);
		if (nt) {
			SG[i].notidx = 2 + (int)i;
			SG[i].notev = nd_nevents;
			qb_list_add_tail(&verif_notifier_new(2 + (int)i, nd_nevents)->list, &SG[i].n->notifier_head);
		} else {
			SG[i].notidx = -1;
			SG[i].notev = 0;
		}
		if (SG[i].level > top) {
			top = SG[i].level;
		}
	}
	for (lv = 0; lv <= 2; lv++) {
		struct skiplist_node *prev = h;
		for (i = 0; i < n; i++) {
			if (SG[i].level >= lv) {
				prev->forward[lv] = SG[i].n;
				prev = SG[i].n;
			}
		}
	}
	l->level = (int8_t)((n == 0 && pat == 1) ? SKIPLIST_LEVEL_MIN - 1 : top);
	l->length = n;
	if (zgap >= 0) {
		VERIF_ND(uint8_t, nd_znevents);
		struct skiplist_node *pred = zgap == 0 ? h : SG[zgap - 1].n;
		unsigned z = SG_n;
		SG[z].level = -1;
		SG[z].rank = 2 * zgap + 1;
		SG[z].key = verif_key_new();
		verif_key_register(SG[z].key, SG[z].rank);
		SG[z].value = verif_value_new();
		SG[z].present = 0;
		SG[z].iters = 1;
		SG[z].n = sl_node_raw(SG[z].key, SG[z].value, SKIPLIST_LEVEL_MIN - 1, 1, 0);
		SG[z].n->forward = pred->forward;
		ASSUME(nd_znevents < 16 && nd_znevents != 0);
		if (nt) {
			SG[z].notidx = 2 + (int)z;
			SG[z].notev = nd_znevents;
			qb_list_add_tail(&verif_notifier_new(2 + (int)z, nd_znevents)->list, &SG[z].n->notifier_head);
		} else {
			SG[z].notidx = -1;
			SG[z].notev = 0;
		}
		SG_n++;
	}
	verif_alloc_calls = 0;
	return l;
}

static int sl_ghost_index(struct skiplist_node *n)
{
	unsigned i;
	int idx = -1;
	for (i = 0; i < SG_n; i++) {
		if (SG[i].n == n && SG[i].present + SG[i].iters > 0) {
			idx = (int)i;
		}
	}
	return idx;
}

/* ghost node that follows rank r among the PRESENT nodes (least present key greater than r), -1 if none */
static int sl_ghost_next_present(int r)
{
	unsigned i;
	int best = -1;
	for (i = 0; i < SG_n; i++) {
		if (SG[i].present && SG[i].rank > r && (best < 0 || SG[i].rank < SG[best].rank)) {
			best = (int)i;
		}
	}
	return best;
}

/* the concrete list represents the ghost dictionary:
 *  level 0 chain = the present keys in ascending order, each node with its key, value and reference count;
 *  every higher chain is an ascending sub-sequence of present nodes that own that level;
 *  a removed node that an iterator is parked on is not linked any more but still leads to the next present key;
 *  length = number of present keys */
static void sl_check_state(struct skiplist *l)
{
	unsigned i, steps, present = 0, linked = 0;
	int lv, last;
	struct skiplist_node *p;

	for (i = 0; i < SG_n; i++) {
		present += SG[i].present;
	}
	last = 0;
	p = l->header->forward[0];
	for (steps = 0; steps < SL_GMAX; steps++) {
		if (p != NULL) {
			int idx = sl_ghost_index(p);
			POST(idx >= 0 && SG[idx].present, "the list links exactly the keys that are present");
			if (idx >= 0) {
				POST(SG[idx].rank > last, "keys are linked in ascending order");
				last = SG[idx].rank;
				POST(p->refcount == 1 + SG[idx].iters, "node reference count = 1 while the key is present + 1 per iterator parked on it");
				POST(p->key != NULL && spec_streq(p->key, SG[idx].key) && p->value == SG[idx].value, "a node keeps its key and the value of the latest put");
				POST(p->level >= 0 && p->level <= SKIPLIST_LEVEL_MAX, "a linked node has a valid level");
				linked++;
			}
			p = p->forward[0];
		}
	}
	POST(p == NULL, "the list holds no more nodes than the dictionary has keys");
	POST(linked == present, "every present key is linked");
	for (lv = 1; lv <= SKIPLIST_LEVEL_MAX; lv++) {
		last = 0;
		p = l->header->forward[lv];
		for (steps = 0; steps < SL_GMAX; steps++) {
			if (p != NULL) {
				int idx = sl_ghost_index(p);
				POST(idx >= 0 && SG[idx].present && SG[idx].rank > last, "a higher level links present keys in ascending order");
				if (idx >= 0) {
					last = SG[idx].rank;
				}
				POST(p->level >= lv, "a node is only linked at levels it owns");
				p = p->forward[lv];
			}
		}
		POST(p == NULL, "a higher level holds no more nodes than the dictionary has keys");
	}
	for (i = 0; i < SG_n; i++) {
		if (!SG[i].present && SG[i].iters > 0) {
			int nx = sl_ghost_next_present(SG[i].rank);
			POST(SG[i].n->refcount == SG[i].iters, "a removed node stays referenced exactly by the iterators parked on it");
			POST(SG[i].n->forward[0] == (nx < 0 ? NULL : SG[nx].n), "a removed node an iterator is parked on still leads to the next present key");
		}
	}
	POST(l->length == present, "the count equals the number of keys present");
	{
		unsigned nodes_alive = 0;
		for (i = 0; i < SG_n; i++) {
			nodes_alive += SG[i].present + SG[i].iters;
		}
		/* a level below 0 is the tear-down flag: skiplist_node_destroy then frees forward arrays unconditionally,
		 * including one a removed-but-parked node shares with the header */
		POST(l->level <= SKIPLIST_LEVEL_MAX && (l->level >= SKIPLIST_LEVEL_MIN || nodes_alive == 0), "the list is not flagged as being torn down while nodes exist");
	}
}

static void sl_check_notified(uint32_t ev, int gi, const char *key, void *oldv, void *newv)
{
	unsigned i;
	for (i = 0; i < SG_gnot; i++) {
		verif_check_notified((int)i, SG_gev[i], ev, 1, 1, key, oldv, newv);
	}
	for (i = 0; i < SG_n; i++) {
		if (SG[i].notidx >= 0) {
			verif_check_notified(SG[i].notidx, SG[i].notev, ev, (int)i == gi, 0, key, oldv, newv);
		}
	}
}

static void sl_deferred_one(int idx)
{
	POST(verif_not[idx].calls[VERIF_EV_DELETED] <= 1 && verif_not[idx].calls[VERIF_EV_FREE] <= 1, "a notifier is called at most once per deletion");
	POST(verif_not[idx].calls[VERIF_EV_INSERTED] == 0 && verif_not[idx].calls[VERIF_EV_REPLACED] == 0 && verif_not[idx].calls[VERIF_EV_OTHER] == 0, "a removal announces no insertion or replacement");
}
static void sl_check_notified_deferred(void)
{
	int i;
	for (i = 0; i < 2 + SL_GMAX; i++) {
		sl_deferred_one(i);
	}
}

#ifndef SL_CASE_FROM
#define SL_CASE_FROM 0
#endif
#ifndef SL_CASE_TO
#define SL_CASE_TO 100000
#endif
/* cases: node count 0..3 x level pattern x position of the probed key (p = 0..2n: even = in the gap before
 * node p/2, odd = equal to node (p-1)/2) ; notifiers alternate none / full every second case: CALL(n, pat, nt, p) */
#define SL_ENUM_CASES(nd_case, CALL) do { \
	unsigned c_ = 0, n_, q_, p_; \
	for (n_ = 0; n_ <= SL_MAXN; n_++) { \
		for (q_ = 0; q_ < SL_NPAT(n_); q_++) { \
			for (p_ = 0; p_ <= 2 * n_; p_++) { \
				if (c_ >= SL_CASE_FROM && c_ < SL_CASE_TO && (nd_case) == c_) { \
					CALL(n_, sl_pattern(n_, q_), (c_ / 2) % 2, p_); \
				} \
				c_++; \
			} \
		} \
	} \
} while (0)
#define SL_PROBE_RANK(p) ((int)(p) + 1)
#define SL_PROBE_MATCH(p) (((p) % 2) ? (int)(((p) - 1) / 2) : -1)
