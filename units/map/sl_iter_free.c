/*UNIT
{"props": ["C17", "C18"], "src": ["lib/skiplist.c"], "mode": "plain", "kind": "bounded",
 "bound": "skiplist of <= 3 key-ordered nodes with levels <= 2 (10 level patterns), fully linked; the iterator under test is fresh (on the header), parked on any present node, or parked on a node that was removed under it (any gap, sharing its predecessor's forward array); notifiers none or 2 global + 1 per key",
 "unwind": 12, "object_bits": 12, "cbmc_flags": ["--no-malloc-may-fail"],
 "functions": ["skiplist_iter_free", "skiplist_iter_create"],
 "restrict_fp": ["skiplist_notify.function_pointer_call.1/verif_notify_cb", "skiplist_notify.function_pointer_call.2/verif_notify_cb",
                 "skiplist_notify.function_pointer_call.3/verif_notify_cb"],
 "stubs": ["map notifier callback (records event, key, old and new value per notifier)", "calloc/malloc (scripted)", "strcmp (declared key order)", "random (unused)"],
 "expect_classes": ["assertion"], "timeout": 300,
 "variants": [{"vname": "fresh", "defines": ["-DV_FRESH"]}, {"vname": "parked", "defines": ["-DV_PARKED"]}]}
*/
/* skiplist_iter_create / skiplist_iter_free:
 *  fresh : creating an iterator changes nothing in the dictionary (or fails cleanly without memory); freeing an
 *          iterator that was never advanced, or one that reached the end, changes nothing;
 *  parked: ABANDONING an iterator part-way (what qb_map_foreach does when the callback stops the traversal) must
 *          release the node it is parked on: the reference count drops, and a node removed meanwhile is destroyed
 *          and its deletion announced.  GENUINE DEFECT (confirmed natively): skiplist_iter_free only frees the
 *          iterator object -- the node keeps the extra reference for ever, a later rm() never destroys it, the
 *          DELETED and value-release notifiers for that key are never called and the node leaks. */
#include "sl_common.h"

static int verif_case_fresh;

/* position of the iterator under test: fresh -> header; p odd -> present node (p-1)/2; p even -> a removed node in gap p/2 */
static struct skiplist_iter *sl_iter_at(struct skiplist **lp, unsigned n, int pat, unsigned nt, unsigned p, int *pos_idx, int *pos_rank)
{
	struct skiplist *l;
	struct skiplist_iter *it;
	verif_keys_reset();
	if (verif_case_fresh) {
		l = sl_build(n, pat, nt, -1, 0, -1);
		l->header->refcount++;
		SG_header_iters = 1;
		*pos_idx = -1;
		*pos_rank = 0;
	} else if (p % 2) {
		int j = (int)(p - 1) / 2;
		l = sl_build(n, pat, nt, j, 1, -1);
		*pos_idx = j;
		*pos_rank = SG[j].rank;
	} else {
		l = sl_build(n, pat, nt, -1, 0, (int)p / 2);
		*pos_idx = (int)SG_n - 1;
		*pos_rank = SG[*pos_idx].rank;
	}
	it = malloc(sizeof(*it));
	ASSUME(it != NULL);
	it->i.m = &l->map;
	it->n = *pos_idx < 0 ? l->header : SG[*pos_idx].n;
	*lp = l;
	return it;
}

/* the iterator leaves its position: the reference is released; a removed node is then destroyed and its
 * deletion announced exactly once */
static void sl_leave_position(int pos_idx)
{
	if (pos_idx < 0) {
		SG_header_iters--;
		POST(verif_not_total == 0, "leaving the start position announces nothing");
	} else {
		void *oldv = SG[pos_idx].value;
		SG[pos_idx].iters--;
		if (SG[pos_idx].present == 0 && SG[pos_idx].iters == 0) {
			sl_check_notified(QB_MAP_NOTIFY_DELETED, pos_idx, SG[pos_idx].key, oldv, NULL);
		} else {
			POST(verif_not_total == 0, "moving an iterator off a live node announces nothing");
		}
	}
}

static void verif_case(unsigned n, int pat, unsigned nt, unsigned p)
{
	struct skiplist *l;
	int pos_idx, pos_rank;
#ifdef V_FRESH
	VERIF_ND(uint8_t, nd_op);
	if (!verif_case_fresh || p != 0) {
		return;
	}
	if (nd_op == 0) {
		verif_keys_reset();
		l = sl_build(n, pat, nt, -1, 0, -1);
		struct skiplist_iter *it = (struct skiplist_iter *)skiplist_iter_create(&l->map, NULL);
		COVER(n == 3);
		POST(it != NULL && it->i.m == &l->map && it->n == l->header, "a new iterator starts before the first key");
	} else if (nd_op == 1) {
		verif_keys_reset();
		l = sl_build(n, pat, nt, -1, 0, -1);
		verif_alloc_fail = 1;
		COVER(1);
		POST(skiplist_iter_create(&l->map, NULL) == NULL, "iterator creation fails cleanly without memory");
	} else if (nd_op == 2) {
		struct skiplist_iter *it = sl_iter_at(&l, n, pat, nt, p, &pos_idx, &pos_rank);
		skiplist_iter_free(&it->i);
		COVER(n == 0);
	} else {
		struct skiplist_iter *it = sl_iter_at(&l, n, pat, nt, p, &pos_idx, &pos_rank);
		it->n = NULL;                 /* an iterator that reached the end */
		l->header->refcount--;
		skiplist_iter_free(&it->i);
		COVER(n == 2);
	}
	POST(verif_not_total == 0, "creating or freeing such an iterator announces nothing");
#else
	if (verif_case_fresh || (n == 0 && pat == 1)) {
		return;
	}
	struct skiplist_iter *it = sl_iter_at(&l, n, pat, nt, p, &pos_idx, &pos_rank);

	skiplist_iter_free(&it->i);

	COVER(SG[pos_idx].present == 0);
	COVER(SG[pos_idx].present == 1);
	sl_leave_position(pos_idx);
#endif
	sl_check_state(l);
}

void harness(void)
{
	VERIF_ND(uint8_t, nd_case);
	VERIF_ND(uint8_t, nd_fresh);
	if (nd_fresh) {
		verif_case_fresh = 1;
		SL_ENUM_CASES(nd_case, verif_case);
	} else {
		verif_case_fresh = 0;
		SL_ENUM_CASES(nd_case, verif_case);
	}
}
