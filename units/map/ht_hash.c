/*UNIT
{"props": ["C17"], "src": ["lib/hashtable.c"], "spec": ["hashtable.spec"], "tags": ["hashloop"], "mode": "plain", "loop_contracts": true,
 "kind": "proved", "functions": ["hash_fnv"], "expect_classes": ["loop_invariant_step", "assertion"], "fallback_unwind": 4,
 "timeout": 120, "cbmc_flags": ["--no-malloc-may-fail"]}
*/
/* Unbounded leaf lemma: for EVERY byte string (any length up to 2^20, any content) and every table order
 * 0..30 the bucket index computed by hash_fnv is below the table size 2^order, and the hash loop reads only
 * inside the key (loop contract on the FNV loop; no unwinding bound).  This is what makes
 * hash_buckets[hash_entry] an in-bounds access in get/put/rm for all keys. */
#include "os_base.h"
#include <qb/qbmap.h>
#include "verif.h"
#include "hashtable.c"

void harness(void)
{
	VERIF_ND(uint32_t, nd_len);
	VERIF_ND(uint32_t, nd_order);
	ASSUME(nd_len <= (1u << 20) && nd_order <= 30);
#ifdef VERIF_FALLBACK
	ASSUME(nd_len <= VERIF_FALLBACK);
#endif
	uint8_t *buf = malloc(nd_len);
	ASSUME(buf != NULL);

	uint32_t r = hash_fnv(buf, nd_len, nd_order);

	COVER(nd_len == 0);
	COVER(nd_len > 1000 && nd_order == 3);
	COVER(nd_order == 30);
	POST(r < (1u << nd_order), "the bucket index is below the table size 2^order");
}
