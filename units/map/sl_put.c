/*UNIT
{"props": ["C17"], "src": ["lib/skiplist.c"], "mode": "plain", "kind": "bounded",
 "bound": "skiplist of <= 3 key-ordered nodes with levels <= 2 (10 level patterns), fully linked; keys of length 1..2 (arbitrary bytes); every position of the probed key relative to the nodes (equal to one, or in any gap) enumerated; a new node gets level 0, 2 or 8; notifiers none or 2 global + 1 per key",
 "unwind": 12, "object_bits": 12, "cbmc_flags": ["--no-malloc-may-fail"],
 "functions": ["skiplist_put", "skiplist_level_generate", "skiplist_node_new", "skiplist_notify", "op_search"],
 "restrict_fp": ["skiplist_notify.function_pointer_call.1/verif_notify_cb", "skiplist_notify.function_pointer_call.2/verif_notify_cb",
                 "skiplist_notify.function_pointer_call.3/verif_notify_cb"],
 "stubs": ["map notifier callback (records event, key, old and new value per notifier)", "calloc/malloc (scripted: succeed)", "strcmp (declared key order, asserted to agree with the contents)", "random (scripted: the level of the new node is chosen by the harness)"],
 "expect_classes": ["assertion"], "timeout": 300,
 "variants": [{"vname": "n012", "defines": ["-DSL_CASE_TO=28"]}, {"vname": "n3_l0", "defines": ["-DSL_CASE_FROM=28", "-DV_LEVEL=0"]},
              {"vname": "n3_l2", "defines": ["-DSL_CASE_FROM=28", "-DV_LEVEL=2"]}, {"vname": "n3_l8", "defines": ["-DSL_CASE_FROM=28", "-DV_LEVEL=8"]}]}
*/
/* skiplist_put(k, v) on every bounded well-formed list, every key and value:
 *  k present: the value is replaced, the count is unchanged, the replacement is announced exactly once (REPLACED
 *             to subscribed global and per-key notifiers, FREE with the old value to the value-release notifier);
 *  k absent : k becomes present with value v at its place in the ascending order (on every level the new node
 *             owns, for new-node levels below, at and above the current list level up to the maximum 8), the
 *             count grows by one, the insertion is announced exactly once to the subscribed global notifiers.
 * Not covered: allocation failure (skiplist_put asserts on it). */
#include "sl_common.h"

static int verif_case_level;

static void verif_case(unsigned n, int pat, unsigned nt, unsigned p)
{
	verif_keys_reset();
	char *k = verif_key_new();
	void *v = verif_value_new();
	verif_key_register(k, SL_PROBE_RANK(p));
	int gi = SL_PROBE_MATCH(p);
#ifndef V_LEVEL
	if (gi >= 0 && verif_case_level != 0) {
		return;
	}
#endif
	struct skiplist *l = sl_build(n, pat, nt, gi, 0, -1);
	verif_level_budget = verif_case_level;

	skiplist_put(&l->map, k, v);

	if (gi >= 0) {
		void *oldv = SG[gi].value;
		COVER(gi == 0);
		COVER(gi == (int)n - 1);
		SG[gi].value = v;
		sl_check_notified(QB_MAP_NOTIFY_REPLACED, gi, k, oldv, v);
		POST(verif_alloc_calls == 0, "replacing a value allocates nothing");
	} else {
		struct skiplist_node *q = l->header->forward[0], *nn = NULL;
		unsigned steps;
		for (steps = 0; steps < SL_GMAX; steps++) {
			if (q != NULL) {
				if (sl_ghost_index(q) < 0 && nn == NULL) {
					nn = q;
				}
				q = q->forward[0];
			}
		}
		COVER(p == 0);
		COVER(p == 2 * n);
		COVER(SG_gnot == 2);
		COVER(SG_gnot == 0);
		POST(nn != NULL, "put of an absent key makes it present");
		if (nn != NULL) {
			POST(nn->level == verif_case_level, "the new node gets the generated level");
			SG[SG_n].n = nn;
			SG[SG_n].key = k;
			SG[SG_n].value = v;
			SG[SG_n].level = verif_case_level;
			SG[SG_n].rank = SL_PROBE_RANK(p);
			SG[SG_n].present = 1;
			SG[SG_n].iters = 0;
			SG[SG_n].notidx = -1;
			SG[SG_n].notev = 0;
			SG_n++;
		}
		sl_check_notified(QB_MAP_NOTIFY_INSERTED, -1, k, NULL, v);
	}
	sl_check_state(l);
}

void harness(void)
{
	VERIF_ND(uint8_t, nd_case);
#ifdef V_LEVEL
	verif_case_level = V_LEVEL;
	SL_ENUM_CASES(nd_case, verif_case);
#else
	VERIF_ND(uint8_t, nd_level);
	if (nd_level == 0) {
		verif_case_level = 0;
		SL_ENUM_CASES(nd_case, verif_case);
	} else if (nd_level == 1) {
		verif_case_level = 2;
		SL_ENUM_CASES(nd_case, verif_case);
	} else {
		verif_case_level = 8;
		SL_ENUM_CASES(nd_case, verif_case);
	}
#endif
}
