/*UNIT
{"props": ["C17"], "src": ["lib/trie.c"], "mode": "plain", "kind": "bounded",
 "bound": "trie of 4 nodes: root, a branching node for the first character WITHOUT a value, two leaf children with values (keys c0c1, c0c2); characters from {b..z} (three concrete triples), children arrays of 30 slots as new_child_node allocates them; no iterators, no notifiers",
 "unwind": 32, "cbmc_flags": ["--no-malloc-may-fail"],
 "functions": ["trie_rm", "trie_lookup", "trie_node_deref", "trie_node_destroy", "trie_node_release", "trie_notify"],
 "restrict_fp": ["trie_notify.function_pointer_call.1/verif_notify_cb", "trie_notify.function_pointer_call.2/verif_notify_cb"],
 "stubs": ["map notifier callback (records calls)", "calloc/malloc/realloc (scripted)"],
 "expect_classes": ["assertion"], "timeout": 300,
 "variants": [{"vname": "leaf", "defines": ["-DV_LEAF"]}, {"vname": "absent", "defines": ["-DV_ABSENT"]}, {"vname": "novalue", "defines": ["-DV_NOVALUE"]}]}
*/
/* trie_rm on the "shared prefix" shape (keys c0c1 and c0c2 present, their common prefix c0 is a branching node
 * that carries no value):
 *  leaf   : removing a present key reports success, the key is gone, the other key keeps its value, count - 1;
 *  absent : removing a key for which no node exists reports failure and changes nothing;
 *  novalue: removing the PREFIX c0 -- a key that is NOT present, although a node exists for it -- must report
 *           failure and leave the count alone.  GENUINE DEFECT #14: trie_rm returns TRUE and decrements the
 *           count whenever trie_lookup finds a node, even one without a value. */
#include "tr_common.h"

static void verif_case(char c0, char c1, char c2)
{
	struct trie *t = tr_new();
	void *v1 = verif_value_new();
	void *v2 = verif_value_new();
	VERIF_ND(uint32_t, nd_other);
	char *k1 = tr_key2(c0, c1), *k2 = tr_key2(c0, c2);
	struct trie_node *br = tr_node_new(t, t->header, c0, NULL, NULL, 0);
	struct trie_node *l1 = tr_node_new(t, br, c1, k1, v1, 1);
	struct trie_node *l2 = tr_node_new(t, br, c2, k2, v2, 1);
	ASSUME(nd_other <= 1000);
	t->length = 2 + (size_t)nd_other;   /* entries elsewhere in the trie are not materialised */
	size_t len0 = t->length;
#if defined(V_LEAF)
	char *k = tr_key2(c0, c1);
	int32_t r = trie_rm(&t->map, k);
	COVER(1);
	POST(r != QB_FALSE, "remove reports success when the key was present");
	POST(tr_spec_get(t, k) == NULL, "after a successful remove the key is gone");
	POST(tr_spec_get(t, k2) == v2, "removing one key leaves the other keys and their values alone");
	POST(t->length == len0 - 1, "the count equals the number of keys present");
#elif defined(V_ABSENT)
	char *k = tr_key2(c1, c0);   /* no node for the first character c1 */
	int32_t r = trie_rm(&t->map, k);
	COVER(1);
	POST(r == QB_FALSE, "remove reports failure when the key was not present");
	POST(tr_spec_get(t, k1) == v1 && tr_spec_get(t, k2) == v2, "a failed remove changes nothing");
	POST(t->length == len0, "the count equals the number of keys present");
#else
	char *k = tr_key2(c0, 0);    /* the common prefix: a node exists, but the key is not in the map */
	int32_t r = trie_rm(&t->map, k);
	COVER(1);
	POST(r == QB_FALSE, "remove reports failure when the key was not present");
	POST(tr_spec_get(t, k1) == v1 && tr_spec_get(t, k2) == v2, "a failed remove changes nothing");
	POST(t->length == len0, "the count equals the number of keys present");
#endif
	POST(verif_not_total == 0, "no notifier registered, none called");
}

void harness(void)
{
	VERIF_ND(uint8_t, nd_case);
	if (nd_case == 0) verif_case('b', 'c', 'd');
	if (nd_case == 1) verif_case('z', 'k', 'b');
	if (nd_case == 2) verif_case('m', 'z', 'c');
}
