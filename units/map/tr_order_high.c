/*UNIT
{"props": ["C17"], "src": ["lib/trie.c"], "mode": "plain", "kind": "bounded", "tier": "off",
 "bound": "one trie holding exactly two single-byte keys, one below 0x80 and one >= 0x80 (concrete per variant), built by the real qb_trie_create/trie_put; one complete traversal (3 x trie_iter_next); children-array loops unwound 260 times",
 "unwind": 260, "object_bits": 12, "cbmc_flags": ["--no-malloc-may-fail"],
 "functions": ["trie_iter_create", "trie_iter_next", "trie_iter_free", "trie_node_next", "trie_put", "trie_insert", "new_child_node"],
 "stubs": ["calloc/malloc/realloc (scripted: succeed)"],
 "expect_classes": ["assertion"], "timeout": 300,
 "variants": [{"vname": "b_x80", "defines": ["-DV_LOW=\"b\"", "-DV_HIGH=\"\\x80\"", "-DV_LOW_FIRST=1"]},
              {"vname": "x80_b", "defines": ["-DV_LOW=\"b\"", "-DV_HIGH=\"\\x80\"", "-DV_LOW_FIRST=0"]},
              {"vname": "del_xff", "defines": ["-DV_LOW=\"\\x7f\"", "-DV_HIGH=\"\\xff\"", "-DV_LOW_FIRST=1"]}]}
*/
/* C17: "a complete iteration yields every present key exactly once, in ascending key order for skiplist and trie"
 * -- for keys with bytes >= 0x80, which the property's quantifier names explicitly.  Ascending key order is
 * strcmp order (bytes compared as unsigned char; it is what the skiplist implements), so the key below 0x80 must
 * come first.  Lean companion of map.tr_iter.high (thorough tier, too slow for the quick tier): no notifiers,
 * no enumeration, two concrete keys.
 * TOOL LIMIT: tier "off" -- CBMC's symbolic execution of the 256-slot children scans does not finish within 15 minutes
 * even for this two-key trie (measured), so the order for bytes >= 0x80 is NOT decided by the registered checks;
 * the finding (T2, DESIGN.md 10.3) is reproduced natively only. */
#include "os_base.h"
#include <qb/qbmap.h>
#include "verif.h"
#define VERIF_REALLOC_PTRWISE
#include "alloc_script.h"
#include "trie.c"

static char k_low[] = V_LOW, k_high[] = V_HIGH;
static char v_low, v_high;

void harness(void)
{
	void *val = NULL;
	const char *k1, *k2, *k3;
	struct trie *t;
	verif_alloc_fail = 0;
	t = (struct trie *)qb_trie_create();
	ASSUME(t != NULL);
	if (V_LOW_FIRST) {   /* insertion order: a compile-time case, a symbolic choice would make every key pointer symbolic */
		trie_put(&t->map, k_low, &v_low);
		trie_put(&t->map, k_high, &v_high);
	} else {
		trie_put(&t->map, k_high, &v_high);
		trie_put(&t->map, k_low, &v_low);
	}
	qb_map_iter_t *it = trie_iter_create(&t->map, NULL);
	ASSUME(it != NULL);
	k1 = trie_iter_next(it, &val);
	void *val1 = val;
	k2 = trie_iter_next(it, &val);
	void *val2 = val;
	k3 = trie_iter_next(it, &val);
	trie_iter_free(it);

	COVER(1);
	POST(t->length == 2, "the count equals the number of keys present");
	POST(k1 != NULL && k2 != NULL && k3 == NULL && k1 != k2 && (k1 == k_low || k1 == k_high) && (k2 == k_low || k2 == k_high),
	     "a complete iteration yields every present key exactly once");
	POST(k1 == k_low && val1 == &v_low && k2 == k_high && val2 == &v_high,
	     "iteration returns the keys in ascending key order (bytes compared as unsigned char), each with its value");
}
