/* Common prelude of the hashtable units (C17/C18): an arbitrary well-formed hashtable state of bounded
 * shape, built field by field on the heap, together with the ghost dictionary it represents.
 *
 * Shape bound: 8 buckets (order 3); the bucket the probed key hashes to holds 0..HT_MAXN (3) nodes with
 * pairwise distinct keys that hash there; every other bucket is left UNINITIALISED (so any access of the
 * operation to another bucket is a pointer-check failure: that is the frame argument); count =
 * (#present nodes of the probed bucket) + an arbitrary number of entries elsewhere.
 * Per node the ghost (present in {0,1}, iters in 0..2) with refcount = present + iters >= 1:
 *   present = the key is in the dictionary; iters = iterators parked on the node.
 * Notifiers: either none, or 2 on the global list and 1 on every node, with arbitrary event masks.
 * Keys: length 1..2 over arbitrary bytes; values: non-NULL tokens.
 *
 * The SHAPE (number of nodes, number of global notifiers, per-key notifiers yes/no) is enumerated by the
 * harness with concrete values (one inlined case per shape, selected by the nondet nd_shape), so that every
 * pointer of the state is a constant for CBMC's symbolic execution; all DATA (keys, values, presence,
 * parked-iterator counts, event masks, counts) stay symbolic.  Measured: symbolic shapes make free() inside
 * the list loops of the real code blow up symbolic execution (> 300 s), concrete shapes run in seconds. */
#include "os_base.h"
#include <qb/qbmap.h>
#include "verif.h"
#include "alloc_script.h"
#include "map_ghost.h"
/* quick tier: the probed key hashes to bucket HT_BUCKET; the spliced ghost case split (contracts/hashtable.spec)
 * turns the bucket index the real code computes into that constant under the same assumption */
#if !defined(HT_ANYBUCKET) && !defined(HT_BUCKET)
#define HT_BUCKET 5
#endif
#ifdef HT_BUCKET
static uint32_t verif_bucket_split(uint32_t h)
{
	ASSUME(h == HT_BUCKET);
	return HT_BUCKET;
}
#define VERIF_BUCKET_SPLIT(h) verif_bucket_split(h)
#endif
#include "hashtable.c"

#ifndef HT_ORDER
#define HT_ORDER 3
#define HT_NB 8
#endif
#define HT_MAXN 3

struct ht_gnode {
	struct hash_node *n;
	char *key;          /* the key string the node holds (content matters, not the pointer) */
	void *value;
	unsigned present;
	unsigned iters;
	int notidx;         /* index of the node's notifier record, -1 if none */
	int32_t notev;
	uint32_t bucket;
};
#define HT_GMAX 5
struct ht_gnode HG[HT_GMAX];
unsigned HG_n;
uint32_t HG_bucket;
size_t HG_other;
unsigned HG_gnot;       /* number of global notifiers: records 0..HG_gnot-1 */
int32_t HG_gev[2];

/* quick tier: the probed key hashes to bucket HT_BUCKET (a symbolic bucket index costs 10x: every list
 * pointer then has a symbolic offset into the table); variants built with -DHT_ANYBUCKET lift this */
static uint32_t ht_probe_bucket(const char *k)
{
#ifdef HT_BUCKET
	/* the spliced case split in the real code assumes hash(k) == HT_BUCKET; no need to compute it twice */
	return HT_BUCKET;
#endif
	uint32_t b = qb_hash_string(k, HT_ORDER);
	ASSUME(b < HT_NB);   /* proved for every key and order in unit map.ht_hash */
#ifdef HT_BUCKET
	ASSUME(b == HT_BUCKET);
	return HT_BUCKET;
#else
	return b;
#endif
}

#ifndef VERIF_STATE_EXTRA
#define VERIF_STATE_EXTRA(present, iters) 1
#endif

/* one ghost node + its concrete node, appended to bucket `bucket` */
/* fix_present / fix_iters: -1 = symbolic (any value the state variant allows), otherwise that concrete value */
static void ht_add_node(struct hash_table *t, unsigned i, uint32_t bucket, unsigned with_notifier, int rank, int fix_present, int fix_iters)
{
	VERIF_ND(uint8_t, nd_present);
	VERIF_ND(uint8_t, nd_iters);
	VERIF_ND(uint8_t, nd_nevents);
	struct hash_node *n = malloc(sizeof(*n));
	ASSUME(n != NULL);
	if (fix_present >= 0) {
		nd_present = (uint8_t)fix_present;
	}
	if (fix_iters >= 0) {
		nd_iters = (uint8_t)fix_iters;
	}
	ASSUME(nd_present <= 1 && nd_iters <= 2 && nd_present + nd_iters >= 1);
	if (fix_present < 0) {
		ASSUME(VERIF_STATE_EXTRA(nd_present, nd_iters));
	}
	HG[i].n = n;
	HG[i].bucket = bucket;
	HG[i].key = verif_key_new();
#ifdef HT_NODE_KEYS_HASHED
	ASSUME(qb_hash_string(HG[i].key, HT_ORDER) == bucket);   /* WF: a node lives in the bucket of its key */
#endif
	/* (by default the states are a SUPERSET of the well-formed ones: node keys need not hash to their bucket;
	 *  no operation re-hashes a node's key, and every 32-bit multiplication costs ~4000 SAT variables per case) */
	verif_key_register(HG[i].key, rank);                          /* WF: keys are pairwise distinct (distinct ranks) */
	HG[i].value = verif_value_new();
	HG[i].present = nd_present;
	HG[i].iters = nd_iters;
	n->key = HG[i].key;
	n->value = HG[i].value;
	n->refcount = (uint32_t)nd_present + nd_iters;
	n->removed = nd_present ? QB_FALSE : QB_TRUE;   /* a node that is only kept alive by parked iterators is marked removed */
#ifdef HT_CONCRETE_REFCOUNT
	/* iterator units: the real code branches on refcount > 0, so the reference count of every node is a
	 * concrete number (1 or 2, alternating); which part of it is "present" stays symbolic */
	if (fix_present < 0) {
		uint8_t rc = (uint8_t)(1 + (i % 2));
		ASSUME(nd_present + nd_iters == rc);
		n->refcount = rc;
	}
#endif
	qb_list_init(&n->notifier_head);
	/* key notifiers cannot carry the FREE event (qb_map_notify_add refuses it) */
	ASSUME(nd_nevents < 16 && nd_nevents != 0);
	if (with_notifier) {
		HG[i].notidx = 2 + (int)i;
		HG[i].notev = nd_nevents;
		qb_list_add_tail(&verif_notifier_new(2 + (int)i, nd_nevents)->list, &n->notifier_head);
	} else {
		HG[i].notidx = -1;
		HG[i].notev = 0;
	}
	qb_list_init(&n->list);
	qb_list_add_tail(&n->list, &t->hash_buckets[bucket].list_head);
}

static void ht_add_global_notifiers(struct hash_table *t, unsigned gnot)
{
	unsigned i;
	HG_gnot = gnot;
	for (i = 0; i < gnot; i++) {
		VERIF_ND(uint8_t, nd_gevents);
		ASSUME(nd_gevents < 32 && nd_gevents != 0);
		HG_gev[i] = nd_gevents;
		qb_list_add_tail(&verif_notifier_new((int)i, nd_gevents)->list, &t->notifier_head);
	}
}

/* shape: nodes in 0..HT_MAXN, gnot in 0..2 global notifiers, nnot = every node has a per-key notifier */
/* match: index of the node whose key equals the probe key (already registered with rank HT_PROBE_RANK), or -1;
 * the matched node gets the concrete (m_present, m_iters) */
#define HT_PROBE_RANK 100
static struct hash_table *ht_build(uint32_t bucket, unsigned nodes, unsigned gnot, unsigned nnot, int match, int m_present, int m_iters)
{
	unsigned i;
	size_t present = 0;
	struct hash_table *t;
	VERIF_ND(uint32_t, nd_other);
	/* the table and its HT_NB buckets as ONE typed heap object (cheaper for CBMC than a byte array) */
	struct ht_storage { struct hash_table t; struct hash_bucket b[HT_NB]; } *st;

	verif_alloc_fail = 0;
	verif_not_reset();
	st = malloc(sizeof(struct ht_storage));
	ASSUME(st != NULL);
	t = &st->t;
	t->map.put = hashtable_put;
	t->map.get = hashtable_get;
	t->map.rm = hashtable_rm;
	t->map.count_get = hashtable_count_get;
	t->map.iter_create = hashtable_iter_create;
	t->map.iter_next = hashtable_iter_next;
	t->map.iter_free = hashtable_iter_free;
	t->map.destroy = hashtable_destroy;
	t->map.notify_add = hashtable_notify_add;
	t->map.notify_del = hashtable_notify_del;
	t->order = HT_ORDER;
	t->hash_buckets_len = HT_NB;
	HG_bucket = bucket;
	qb_list_init(&t->hash_buckets[bucket].list_head);
	qb_list_init(&t->notifier_head);

	ht_add_global_notifiers(t, gnot);
	HG_n = nodes;
	for (i = 0; i < nodes; i++) {
		if ((int)i == match) {
			ht_add_node(t, i, bucket, nnot, HT_PROBE_RANK, m_present, m_iters);
		} else {
			ht_add_node(t, i, bucket, nnot, (int)i + 1, -1, -1);
		}
		present += HG[i].present;
	}
	ASSUME(nd_other <= (1u << 30));
	HG_other = nd_other;
	t->count = HG_other + present;
	verif_alloc_calls = 0;
	return t;
}

/* ghost dictionary: index of the node that holds `key` (present or removed-but-parked), -1 if none */
static int ht_ghost_find(const char *key)
{
	unsigned i;
	for (i = 0; i < HG_n; i++) {
		if (HG[i].present + HG[i].iters > 0 && spec_streq(HG[i].key, key)) {
			return (int)i;
		}
	}
	return -1;
}

/* the concrete bucket b represents the ghost nodes of that bucket: a well-linked list holding exactly the
 * ghost nodes that are present or parked, each with its key, value and reference count */
static void ht_check_bucket(struct hash_table *t, uint32_t b)
{
	unsigned seen[HT_GMAX];
	unsigned i, steps;
	struct qb_list_head *head = &t->hash_buckets[b].list_head;
	struct qb_list_head *p = head->next;

	for (i = 0; i < HT_GMAX; i++) {
		seen[i] = 0;
	}
	POST(p->prev == head, "the bucket list stays well linked");
	for (steps = 0; steps < HT_GMAX - 1; steps++) {
		if (p != head) {
			struct hash_node *n = qb_list_entry(p, struct hash_node, list);
			int idx = -1;
			for (i = 0; i < HT_GMAX; i++) {
				if (i < HG_n && HG[i].n == n && HG[i].bucket == b) {
					idx = (int)i;
				}
			}
			POST(idx >= 0, "the map links only its own live nodes");
			if (idx >= 0) {
				POST(!seen[idx], "a node is linked at most once");
				seen[idx] = 1;
				POST(n->refcount == HG[idx].present + HG[idx].iters, "node reference count = 1 while the key is present + 1 per iterator parked on it");
				POST(spec_streq(n->key, HG[idx].key) && n->value == HG[idx].value, "a node keeps its key and the value of the latest put");
			}
			POST(p->next->prev == p, "the bucket list stays well linked");
			p = p->next;
		}
	}
	POST(p == head, "the bucket holds no more nodes than the dictionary has keys there");
	for (i = 0; i < HT_GMAX; i++) {
		if (i < HG_n && HG[i].bucket == b) {
			if (HG[i].present + HG[i].iters > 0) {
				POST(seen[i], "a key that is present (or a node an iterator is parked on) stays in the map");
			} else {
				POST(!seen[i], "a removed key that no iterator is parked on is gone");
			}
		}
	}
}

static size_t ht_ghost_present(void)
{
	unsigned i;
	size_t present = 0;
	for (i = 0; i < HT_GMAX; i++) {
		if (i < HG_n) {
			present += HG[i].present;
		}
	}
	return present;
}

static void ht_check_count(struct hash_table *t)
{
	POST(t->count == HG_other + ht_ghost_present(), "the count equals the number of keys present");
	POST(t->order == HT_ORDER && t->hash_buckets_len == HT_NB, "the table geometry never changes");
}

static void ht_check_state(struct hash_table *t)
{
	ht_check_bucket(t, HG_bucket);
	ht_check_count(t);
}

/* a node linked in bucket b that is not (yet) a ghost node: the node a put just created, or NULL */
static struct hash_node *ht_find_new(struct hash_table *t, uint32_t b)
{
	unsigned i, steps;
	struct qb_list_head *head = &t->hash_buckets[b].list_head;
	struct qb_list_head *p = head->next;
	for (steps = 0; steps < HT_GMAX - 1; steps++) {
		if (p != head) {
			struct hash_node *n = qb_list_entry(p, struct hash_node, list);
			int known = 0;
			for (i = 0; i < HT_GMAX; i++) {
				if (i < HG_n && HG[i].n == n) {
					known = 1;
				}
			}
			if (!known) {
				return n;
			}
			p = p->next;
		}
	}
	return NULL;
}

/* notifier obligations of one operation on `key` that amounts to event ev (0 = none) on ghost node gi
 * (-1: a node that has no notifiers of its own) */
static void ht_check_notified(uint32_t ev, int gi, const char *key, void *oldv, void *newv)
{
	unsigned i;
	for (i = 0; i < 2; i++) {
		if (i < HG_gnot) {
			verif_check_notified((int)i, HG_gev[i], ev, 1, 1, key, oldv, newv);
		}
	}
	for (i = 0; i < HT_GMAX; i++) {
		if (i < HG_n && HG[i].notidx >= 0) {
			verif_check_notified(HG[i].notidx, HG[i].notev, ev, (int)i == gi, 0, key, oldv, newv);
		}
	}
}

/* a deletion whose notification may be deferred (the node is still parked under an iterator): nothing
 * may be announced twice, and nothing but the deletion / value release may be announced */
static void ht_deferred_one(int idx)
{
	POST(verif_not[idx].calls[VERIF_EV_DELETED] <= 1 && verif_not[idx].calls[VERIF_EV_FREE] <= 1, "a notifier is called at most once per deletion");
	POST(verif_not[idx].calls[VERIF_EV_INSERTED] == 0 && verif_not[idx].calls[VERIF_EV_REPLACED] == 0 && verif_not[idx].calls[VERIF_EV_OTHER] == 0, "a removal announces no insertion or replacement");
}

static void ht_check_notified_deferred(void)
{
	unsigned i;
	ht_deferred_one(0);
	ht_deferred_one(1);
	for (i = 0; i < HT_GMAX; i++) {
		ht_deferred_one(2 + (int)i);
	}
}

/* state for the iterator units: ALL buckets initialised; buckets HT_B1 < HT_B2 hold 0..2 nodes each */
#define HT_B1 2
#define HT_B2 5
unsigned HG_n1;   /* ghost nodes 0..HG_n1-1 are in HT_B1 (list order), HG_n1..HG_n-1 in HT_B2 (list order) */
/* pos: index of the node an iterator under test is parked on (-1: none); that node gets the concrete
 * ghost (x_present, x_iters), every other node an arbitrary one */
static struct hash_table *ht_build2(unsigned n1, unsigned n2, unsigned gnot, unsigned nnot, int pos, int x_present, int x_iters)
{
	unsigned i;
	struct hash_table *t;
	struct ht_storage { struct hash_table t; struct hash_bucket b[HT_NB]; } *st;

	verif_alloc_fail = 0;
	verif_not_reset();
	verif_keys_reset();
	st = malloc(sizeof(struct ht_storage));
	ASSUME(st != NULL);
	t = &st->t;
	t->map.put = hashtable_put;
	t->map.get = hashtable_get;
	t->map.rm = hashtable_rm;
	t->map.count_get = hashtable_count_get;
	t->map.iter_create = hashtable_iter_create;
	t->map.iter_next = hashtable_iter_next;
	t->map.iter_free = hashtable_iter_free;
	t->map.destroy = hashtable_destroy;
	t->map.notify_add = hashtable_notify_add;
	t->map.notify_del = hashtable_notify_del;
	t->order = HT_ORDER;
	t->hash_buckets_len = HT_NB;
	for (i = 0; i < HT_NB; i++) {
		qb_list_init(&t->hash_buckets[i].list_head);
	}
	qb_list_init(&t->notifier_head);
	ht_add_global_notifiers(t, gnot);
	HG_n1 = n1;
	HG_n = n1 + n2;
	for (i = 0; i < n1 + n2; i++) {
		if ((int)i == pos) {
			ht_add_node(t, i, i < n1 ? HT_B1 : HT_B2, nnot, (int)i + 1, x_present, x_iters);
		} else {
			ht_add_node(t, i, i < n1 ? HT_B1 : HT_B2, nnot, (int)i + 1, -1, -1);
		}
	}
	HG_other = 0;
	t->count = ht_ghost_present();
	verif_alloc_calls = 0;
	return t;
}

/* case enumeration of the single-bucket states: node count 0..3 x which node holds the probed key (none,
 * 0..n-1) x iterators parked on that node (0 / 1) x notifiers {none, 2 global + 1 per key}: 32 cases, each
 * run through VERIF_CASE(nodes, gnot, nnot, match, m_iters) when the nondet nd_case selects it */
#define HT_ENUM_CASES(nd_case, CALL) do { \
	unsigned c_ = 0, n_, t_, i_; int m_; \
	for (n_ = 0; n_ <= HT_MAXN; n_++) { \
		for (m_ = -1; m_ < (int)n_; m_++) { \
			for (i_ = 0; i_ < (m_ < 0 ? 1u : 2u); i_++) { \
				for (t_ = 0; t_ < 2; t_++) { \
					if (c_ >= HT_CASE_FROM && c_ < HT_CASE_TO && (nd_case) == c_) { \
						CALL(n_, t_ * 2, t_, m_, (int)i_); \
					} \
					c_++; \
				} \
			} \
		} \
	} \
} while (0)
#ifndef HT_CASE_FROM
#define HT_CASE_FROM 0
#endif
#ifndef HT_CASE_TO
#define HT_CASE_TO 1000
#endif

/* case enumeration of the two-bucket states for the iterator units: n1, n2 in 0..2 nodes, the
 * iterator under test fresh (-1) or parked on node pos, that node (present, parked iterators) in {(1,1), (0,1)},
 * notifiers: 2 global + 1 per key: CALL(n1, n2, gnot, nnot, pos, x_present, x_iters) */
#define HT_ENUM_ITER_CASES(nd_case, CALL) do { \
	unsigned c_ = 0, a_, b_, x_; int p_; \
	for (a_ = 0; a_ <= 2; a_++) { \
		for (b_ = 0; b_ <= 2; b_++) { \
			for (p_ = -1; p_ < (int)(a_ + b_); p_++) { \
				for (x_ = 0; x_ < (p_ < 0 ? 1u : 2u); x_++) { \
					if (c_ >= HT_CASE_FROM && c_ < HT_CASE_TO && (nd_case) == c_) { \
						CALL(a_, b_, 2, 1, p_, (x_ == 1 ? 0 : 1), 1); \
					} \
					c_++; \
				} \
			} \
		} \
	} \
} while (0)

static struct hashtable_iter *ht_iter_new(struct hash_table *t, int pos)
{
	struct hashtable_iter *hi = malloc(sizeof(*hi));
	ASSUME(hi != NULL);
	hi->i.m = &t->map;
	hi->node = pos < 0 ? NULL : HG[pos].n;
	hi->bucket = pos < 0 ? 0 : HG[pos].bucket;
	return hi;
}
