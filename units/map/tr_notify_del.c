/*UNIT
{"props": ["C17"], "src": ["lib/trie.c", "lib/map.c"], "mode": "plain", "kind": "bounded",
 "bound": "key universe {b, bc, bcd, bd, c}; tries built by the real qb_trie_create/trie_put holding {}, {bc}, {b,bc}, {bc,bcd}; registrations made by the real trie_notify_add: global {f1 FREE ud0, f1 ALL|RECURSIVE ud1}, on key bc {f1 ALL ud2, f1 ALL ud3, f2 ALL|RECURSIVE ud4} (ALL = DELETED|REPLACED|INSERTED); 9 delete requests (key bc / a key without registrations / NULL; function, events, with/without user data matching two, one or none); ONE qb_map_notify_del or qb_map_notify_del_2, then ONE rm (present) or put (absent) of bc; children-array loops unwound 34 times (ASCII keys: 30 slots)",
 "unwind": 34, "object_bits": 12, "cbmc_flags": ["--no-malloc-may-fail"],
 "functions": ["qb_map_notify_del", "qb_map_notify_del_2", "trie_notify_del", "trie_notify_deref", "trie_lookup", "trie_node_release", "trie_notify_add", "trie_notify", "trie_rm", "trie_put"],
 "restrict_fp": ["trie_notify.function_pointer_call.1/verif_notify_cb,verif_notify_cb2", "trie_notify.function_pointer_call.2/verif_notify_cb,verif_notify_cb2",
                 "qb_map_notify_del.function_pointer_call.1/trie_notify_del", "qb_map_notify_del_2.function_pointer_call.1/trie_notify_del"],
 "stubs": ["map notifier callbacks (two functions; record event, key, old and new value per user-data record)", "calloc/malloc/realloc (scripted: succeed)"],
 "expect_classes": ["assertion"], "timeout": 300,
 "variants": [{"vname": "samekey", "defines": ["-DV_SAMEKEY"]}, {"vname": "otherkey", "defines": ["-DV_OTHERKEY"]}]}
*/
/* qb_map_notify_del / qb_map_notify_del_2 on a trie (lib/map.c wrappers + trie_notify_del):
 *  - a registration is removed only if it is attached to the key asked for (the root for NULL) and its function and
 *    events -- for _2 also its user data -- are the ones given; every other registration stays as it was; exactly
 *    one match IS removed (two that differ in the user data only, none given: at least one);
 *  - 0 iff something matched, -ENOENT otherwise; the dictionary is unchanged; deleting calls no notifier;
 *  - then ONE removal / insertion of bc calls every registration still in force exactly once per event it subscribed
 *    to, and a deleted registration never again.
 *  samekey : the delete request names bc (where the registrations are) or NULL;
 *  otherkey: the delete request names a key that has NO registration (b, a prefix of bc; bcd, an extension): nothing
 *            may be removed and -ENOENT is due.
 *            GENUINE DEFECT (new, T3): trie_notify_del looks the key up with exact_match = FALSE, so a request for
 *            "b" lands on the node of "bc" whenever b has no node of its own (bc stored as segment b|c): the
 *            registrations of bc are removed, 0 is returned, and bc's notifiers are never called again. */
#include "tr_world.h"
#include "map.c"
#include "not_reg.h"

#define EV_ALL3 (QB_MAP_NOTIFY_DELETED | QB_MAP_NOTIFY_REPLACED | QB_MAP_NOTIFY_INSERTED)
#define K_NULL (-1)
#define K_BC 1

static int reg_applies(int where, int32_t events, unsigned x)
{
	if (where == (int)x) {
		return 1;
	}
	return (events & QB_MAP_NOTIFY_RECURSIVE) && where == K_NULL;    /* the event is on bc: only the root is a proper prefix holder here */
}

static void tr_check_calls(uint32_t ev, unsigned x, void *oldv, void *newv)
{
	unsigned r, i;
	int e;
	int dr = (ev == QB_MAP_NOTIFY_DELETED || ev == QB_MAP_NOTIFY_REPLACED);
	unsigned cb2 = 0;
	for (r = 0; r < VERIF_MAXNOT; r++) {
		struct verif_not_rec *rec = &verif_not[r];
		int want_ev = 0, want_free = 0;
		for (i = 0; i < VERIF_MAXREG; i++) {
			if (i < VR_n && !VR[i].gone && VR[i].ud == (void *)rec) {
				if ((VR[i].events & (int32_t)ev) && reg_applies(VR[i].where, VR[i].events, x)) {
					want_ev++;
					cb2 += (VR[i].fn == verif_notify_cb2);
				}
				if (dr && VR[i].where == K_NULL && (VR[i].events & QB_MAP_NOTIFY_FREE)) {
					want_free++;
				}
			}
		}
		POST(rec->calls[VERIF_EV_DELETED] == (ev == QB_MAP_NOTIFY_DELETED ? want_ev : 0),
		     "a registered notifier is called exactly once per deletion it subscribed to; a deleted or refused one never");
		POST(rec->calls[VERIF_EV_REPLACED] == 0, "a registered notifier is called exactly once per replacement it subscribed to; a deleted or refused one never");
		POST(rec->calls[VERIF_EV_INSERTED] == (ev == QB_MAP_NOTIFY_INSERTED ? want_ev : 0),
		     "a registered notifier is called exactly once per insertion it subscribed to; a deleted or refused one never");
		POST(rec->calls[VERIF_EV_FREE] == want_free, "the value-release notifier is called exactly once for every value that leaves the map");
		POST(rec->calls[VERIF_EV_OTHER] == 0, "a notifier is only called with a single documented event");
		for (e = 0; e < 4; e++) {
			if (rec->calls[e] > 0) {
				POST(rec->key[e] != NULL && spec_streq8(rec->key[e], tr_ukeys[x]), "notifier receives the right key");
				POST(rec->oldv[e] == oldv && rec->newv[e] == newv, "notifier receives the right old and new value");
			}
		}
	}
	POST(verif_cb2_calls == cb2, "each registered function is called for its own registrations only");
}

static int reg_linked(struct qb_list_head *head, struct qb_map_notifier *f)
{
	struct qb_list_head *p = head->next;
	unsigned s;
	int linked = 0;
	for (s = 0; s < VERIF_LIST_MAX + 1; s++) {
		if (p != head) {
			if (p == &f->list) {
				linked = 1;
			}
			p = p->next;
		}
	}
	return linked;
}

static const unsigned st_mask[4] = { 0u, 2u, 3u, 6u };
struct del_req { int key; int f2; int32_t events; int cmp; int udrec; };
#ifdef V_SAMEKEY
#define NREQ 7
static const struct del_req reqs[NREQ] = {
	{ K_BC, 0, EV_ALL3, 0, 0 },                               /* two match */
	{ K_BC, 0, EV_ALL3, 1, 3 },                               /* one of the two, by user data */
	{ K_BC, 1, EV_ALL3 | QB_MAP_NOTIFY_RECURSIVE, 0, 0 },     /* the other function */
	{ K_BC, 0, QB_MAP_NOTIFY_DELETED, 0, 0 },                 /* events differ: none */
	{ K_BC, 0, EV_ALL3, 1, 5 },                               /* user data differs: none */
	{ K_NULL, 0, EV_ALL3 | QB_MAP_NOTIFY_RECURSIVE, 0, 0 },   /* the global one */
	{ K_NULL, 0, QB_MAP_NOTIFY_FREE, 1, 5 } };                /* global, user data differs: none */
#else
#define NREQ 2
static const struct del_req reqs[NREQ] = {
	{ 0, 0, EV_ALL3, 0, 0 },                                  /* b: a prefix of bc */
	{ 2, 0, EV_ALL3, 0, 0 } };                                /* bcd: an extension of bc */
#endif

static void verif_case(unsigned st, unsigned rq)
{
	struct del_req q = reqs[rq];
	struct trie *t = tr_build(st_mask[st], 0);
	struct trie_node *bn;
	struct qb_list_head *bc_head, *target = NULL;
	qb_map_notify_fn fn = q.f2 ? verif_notify_cb2 : verif_notify_cb;
	void *ud = &verif_not[q.udrec];
	const char *key = q.key == K_NULL ? NULL : tr_ukeys[q.key];
	unsigned i, nmatch = 0, ngone = 0;
	int32_t r;

	/* bounded history: the registrations on bc are made by the real trie_notify_add (unit map.tr_notify_add) */
	ASSUME(trie_notify_add(&t->map, tr_ukeys[K_BC], verif_notify_cb, EV_ALL3, &verif_not[2]) == 0);
	ASSUME(trie_notify_add(&t->map, tr_ukeys[K_BC], verif_notify_cb, EV_ALL3, &verif_not[3]) == 0);
	ASSUME(trie_notify_add(&t->map, tr_ukeys[K_BC], verif_notify_cb2, EV_ALL3 | QB_MAP_NOTIFY_RECURSIVE, &verif_not[4]) == 0);
	bn = tr_spec_find(t, tr_ukeys[K_BC]);
	ASSUME(bn != NULL);
	bc_head = bn->notifier_head;
	verif_reg_reset();
	verif_not_reset();
	verif_reg_snapshot(t->header->notifier_head, K_NULL);
	verif_reg_snapshot(bc_head, K_BC);
	ASSUME(VR_n == 5);
	if (q.key == K_NULL) {
		target = t->header->notifier_head;
	} else if (q.key == K_BC) {
		target = bc_head;
	}
	verif_alloc_calls = 0;

	if (q.cmp) {
		r = qb_map_notify_del_2(&t->map, key, fn, q.events, ud);
	} else {
		r = qb_map_notify_del(&t->map, key, fn, q.events);
	}

	for (i = 0; i < VERIF_MAXREG; i++) {
		if (i < VR_n && target != NULL && VR[i].where == q.key &&
		    VR[i].fn == fn && VR[i].events == q.events && (!q.cmp || VR[i].ud == ud)) {
			nmatch++;
			VR[i].gone = !reg_linked(target, VR[i].obj);
			ngone += (unsigned)VR[i].gone;
		}
	}
	if (nmatch == 0) {
#ifdef V_SAMEKEY
		COVER(q.key == K_NULL);
		COVER(q.key == K_BC && q.cmp);
#else
		COVER(q.key == 0 && TD[0] == NULL);
		COVER(q.key == 0 && TD[0] != NULL);
		COVER(q.key == 2);
#endif
		POST(r == -ENOENT, "deleting a notifier that is not registered reports -ENOENT");
	} else {
#ifdef V_SAMEKEY
		COVER(nmatch == 2);
		COVER(nmatch == 1 && q.cmp);
		COVER(nmatch == 1 && q.f2);
		COVER(nmatch == 1 && q.key == K_NULL);
#endif
		POST(r == 0, "deleting a registered notifier succeeds");
		POST(ngone >= 1, "a deleted notifier registration is no longer stored");
		POST(nmatch != 1 || ngone == 1, "a deleted notifier registration is no longer stored");
	}
	POST(verif_not_total == 0, "deleting a notifier calls no notifier");
	POST(verif_alloc_calls == 0, "deleting a notifier allocates nothing");
	verif_reg_check_list(t->header->notifier_head, K_NULL, 0, NULL, 0, NULL);
	bn = tr_spec_find(t, tr_ukeys[K_BC]);
	if (bn != NULL) {
		verif_reg_check_list(bn->notifier_head, K_BC, 0, NULL, 0, NULL);
	} else {
		/* the anchor node of bc was released: only right when none of its registrations is left */
		for (i = 0; i < VERIF_MAXREG; i++) {
			if (i < VR_n && VR[i].where == K_BC) {
				POST(VR[i].gone, "notifier registrations that were not deleted stay registered");
			}
		}
	}
	tr_check_state(t);      /* the dictionary is what it was */

	if (TD[K_BC] != NULL) {
		void *oldv = TD[K_BC];
		int32_t rr = trie_rm(&t->map, tr_ukeys[K_BC]);
		POST(rr != QB_FALSE, "remove reports success when the key was present");
		TD[K_BC] = NULL;
#ifdef V_SAMEKEY
		COVER(ngone >= 1);
#else
		COVER(ngone == 0);
#endif
		tr_check_calls(QB_MAP_NOTIFY_DELETED, K_BC, oldv, NULL);
	} else {
		void *v = &tr_newcell;
		trie_put(&t->map, tr_ukeys[K_BC], v);
		TD[K_BC] = v;
#ifdef V_SAMEKEY
		COVER(ngone >= 1);
#else
		COVER(ngone == 0);
#endif
		tr_check_calls(QB_MAP_NOTIFY_INSERTED, K_BC, NULL, v);
	}
	tr_check_state(t);
}

void harness(void)
{
	VERIF_ND(uint8_t, nd_case);
	unsigned c = 0, st, rq;
	for (st = 0; st < 4; st++) {
		for (rq = 0; rq < NREQ; rq++) {
			if (nd_case == c) {
				verif_case(st, rq);
			}
			c++;
		}
	}
}
