/*UNIT
{"props": ["C17", "C18"], "src": ["lib/hashtable.c"], "spec": ["hashtable.spec"], "tags": ["split"], "mode": "plain", "kind": "bounded",
 "bound": "8 buckets, two of them (2 and 5) hold 0..2 nodes each, the others are empty; keys of length 1..2 (arbitrary bytes); the iterator under test is fresh or parked on any node; that node is present or already removed, with this iterator parked; other nodes: reference count 1 or 2, any split between presence and parked iterators; notifiers: 2 global + 1 per key",
 "unwind": 12, "cbmc_flags": ["--no-malloc-may-fail"],
 "functions": ["hashtable_iter_next", "hashtable_node_deref", "hashtable_node_destroy", "hashtable_notify"],
 "restrict_fp": ["hashtable_notify.function_pointer_call.1/verif_notify_cb", "hashtable_notify.function_pointer_call.2/verif_notify_cb",
                 "hashtable_notify.function_pointer_call.3/verif_notify_cb"],
 "stubs": ["map notifier callback (records event, key, old and new value per notifier)", "calloc/malloc (scripted: succeed or fail per enumerated case)"],
 "expect_classes": ["assertion"], "timeout": 900}
*/
/* hashtable_iter_next from ANY iterator position of any well-formed bounded state (per-call form of "a
 * complete iteration yields every present key exactly once", C17, and of the iterator clauses of C18):
 *  - it returns a key of the map that lies AFTER the current position in the scan order (so no key is
 *    returned twice), together with its value, and parks on it (takes a reference);
 *  - no PRESENT key between the position and the returned one is skipped; it reports the end (NULL) only when
 *    no present key is left after the position;
 *  - the node it leaves loses this iterator's reference; if that key had been removed meanwhile the node is
 *    now released and its deletion announced exactly once (DELETED / FREE notifiers);
 *  - no freed memory is touched (CBMC pointer checks on the heap-allocated nodes), everything else unchanged.
 * A removed node that another iterator still holds may be returned or skipped (the property allows both). */
#define HT_CONCRETE_REFCOUNT 1
#include "ht_common.h"

static void verif_case(unsigned n1, unsigned n2, unsigned gnot, unsigned nnot, int pos, int x_present, int x_iters)
{
	struct hash_table *t = ht_build2(n1, n2, gnot, nnot, pos, x_present, x_iters);
	struct hashtable_iter *hi = ht_iter_new(t, pos);
	void *val = NULL;
	int i, ret = -1, first_present = -1;
	int n = (int)HG_n;

	const char *key = hashtable_iter_next(&hi->i, &val);

	for (i = n - 1; i > pos; i--) {
		if (HG[i].present) {
			first_present = i;
		}
	}
	if (key != NULL) {
		for (i = 0; i < n; i++) {
			if (hi->node == HG[i].n) {
				ret = i;
			}
		}
		COVER(pos >= 0 && (unsigned)pos < HG_n1 && (unsigned)ret >= HG_n1);
		COVER(pos >= 0 && ret == pos + 1 && HG[pos].bucket == HG[ret].bucket);
		COVER(pos < 0 && (unsigned)ret >= HG_n1);
		POST(ret >= 0, "the iterator parks on the node whose key it returns");
		if (ret >= 0) {
			POST(ret > pos, "iteration only moves forward: no key is returned twice");
			POST(spec_streq(key, HG[ret].key) && val == HG[ret].value, "iteration returns a key of the map with its value");
			POST(first_present < 0 || ret <= first_present, "iteration skips no present key");
			POST(hi->bucket == HG[ret].bucket, "the iterator remembers the bucket of its node");
			HG[ret].iters++;
		}
	} else {
		COVER(pos < 0 && HG_n == 0);
		COVER(pos >= 0 && pos == n - 1);
		POST(first_present < 0, "iteration reports the end only when no present key is left");
	}
	if (pos >= 0) {
		void *oldv = HG[pos].value;
		HG[pos].iters--;
		if (HG[pos].present == 0 && HG[pos].iters == 0) {
			COVER(HG_gnot == 2);
			COVER(key == NULL);
			ht_check_notified(QB_MAP_NOTIFY_DELETED, pos, HG[pos].key, oldv, NULL);
		} else {
			POST(verif_not_total == 0, "moving an iterator off a live node announces nothing");
		}
	} else {
		POST(verif_not_total == 0, "starting an iteration announces nothing");
	}
	ht_check_bucket(t, HT_B1);
	ht_check_bucket(t, HT_B2);
	ht_check_count(t);
}

void harness(void)
{
	VERIF_ND(uint8_t, nd_case);
	HT_ENUM_ITER_CASES(nd_case, verif_case);
}
