/*UNIT
{"props": ["C17"], "src": ["lib/hashtable.c", "lib/map.c"], "spec": ["hashtable.spec"], "tags": ["split"], "mode": "plain", "kind": "bounded",
 "bound": "8 buckets; key hashing to bucket 5; that bucket holds 0..2 nodes (distinct keys of length 1..2, arbitrary bytes; the probed key equal to the last node's key or to none); notifier lists before the call: none, or 2 global {DELETED|REPLACED|INSERTED, FREE|DELETED} + 1 per key {DELETED|REPLACED}; the new registration: event mask one of {DELETED, INSERTED|REPLACED, FREE, FREE|DELETED, DELETED|REPLACED|INSERTED}, fresh / identical to an existing one / differing in the function only / differing in the user data only; allocation succeeds or fails; ONE qb_map_notify_add, then ONE rm (key present) or put (key absent) of the probed key",
 "unwind": 12, "cbmc_flags": ["--no-malloc-may-fail"],
 "functions": ["qb_map_notify_add", "hashtable_notify_add", "hashtable_lookup", "hashtable_notify", "hashtable_rm", "hashtable_put"],
 "restrict_fp": ["hashtable_notify.function_pointer_call.1/verif_notify_cb,verif_notify_cb2", "hashtable_notify.function_pointer_call.2/verif_notify_cb,verif_notify_cb2",
                 "hashtable_notify.function_pointer_call.3/verif_notify_cb,verif_notify_cb2", "qb_map_notify_add.function_pointer_call.1/hashtable_notify_add"],
 "stubs": ["map notifier callbacks (two functions; record event, key, old and new value per user-data record)", "calloc/malloc (scripted: succeed or fail per enumerated case)",
           "strcmp (answers from the declared key order of the enumerated case, asserted to agree with the key contents)"],
 "expect_classes": ["assertion"], "timeout": 300,
 "variants": [{"vname": "a", "defines": ["-DCASE_TO=60"]}, {"vname": "b", "defines": ["-DCASE_FROM=60"]}]}
*/
/* qb_map_notify_add on a hashtable (lib/map.c wrapper + hashtable_notify_add), from every bounded state:
 *  - the value-release event (QB_MAP_NOTIFY_FREE) is refused for a key (-EINVAL), a key that is not present has
 *    no notifier list (failure), without memory the call fails with -ENOMEM: in all three cases NOTHING changes;
 *  - a registration identical in function, events and user data to one already on that list is refused with
 *    -EEXIST and is NOT stored a second time (it would be called twice per event);
 *  - otherwise (return 0) the registration is stored exactly once on the list asked for -- global for key NULL,
 *    the key's own list otherwise -- with the function, events and user data given; every other registration,
 *    every entry and the count are untouched;
 *  - (implementation promise "only one value-release notifier": a FREE registration whose event mask equals an
 *    existing one may be refused with -EEXIST; either outcome is accepted, stored iff 0 is returned);
 *  - then the property's own words: ONE removal (key present) or insertion (key absent) of the probed key calls
 *    every registration now in force exactly once per event it subscribed to -- the new one included, a refused
 *    one not -- with the right key, old and new value; FREE goes to the global value-release notifiers only. */
#include "ht_common.h"
#include "map.c"
#include "not_reg.h"

#define SEL_FRESH 0
#define SEL_CLONE 1      /* same function, events, user data as the first registration of the target list */
#define SEL_OTHER_FN 2   /* same events and user data, other function */
#define SEL_OTHER_UD 3   /* same function and events, other user data */

/* Event masks are CONCRETE per enumerated case: whether a registration is a duplicate decides whether memory is
 * allocated, and a symbolic decision there makes every later list pointer symbolic (measured: > 300 s).
 * Existing registrations: global { DELETED|REPLACED|INSERTED , FREE|DELETED }, per key { DELETED|REPLACED }. */
#define EV_ALL3 (QB_MAP_NOTIFY_DELETED | QB_MAP_NOTIFY_REPLACED | QB_MAP_NOTIFY_INSERTED)
#define EV_FREE_DEL (QB_MAP_NOTIFY_FREE | QB_MAP_NOTIFY_DELETED)
#define EV_KEY (QB_MAP_NOTIFY_DELETED | QB_MAP_NOTIFY_REPLACED)
static int32_t verif_case_events;
static const int32_t verif_evsel[5] = { QB_MAP_NOTIFY_DELETED, QB_MAP_NOTIFY_INSERTED | QB_MAP_NOTIFY_REPLACED, QB_MAP_NOTIFY_FREE, EV_FREE_DEL, EV_ALL3 };

static void ht_concrete_events(struct hash_table *t, unsigned nodes)
{
	unsigned i;
	if (!qb_list_empty(&t->notifier_head)) {
		qb_list_entry(t->notifier_head.next, struct qb_map_notifier, list)->events = EV_ALL3;
		qb_list_entry(t->notifier_head.next->next, struct qb_map_notifier, list)->events = EV_FREE_DEL;
	}
	for (i = 0; i < nodes; i++) {
		if (!qb_list_empty(&HG[i].n->notifier_head)) {
			qb_list_entry(HG[i].n->notifier_head.next, struct qb_map_notifier, list)->events = EV_KEY;
		}
	}
}

static void verif_case(unsigned nodes, unsigned nt, int match, int on_key, int sel, int fail)
{
	unsigned i;
	verif_alloc_fail = 0;
	verif_keys_reset();
	verif_reg_reset();
	char *k = verif_key_new();
	verif_key_register(k, HT_PROBE_RANK);
	uint32_t b = ht_probe_bucket(k);
	struct hash_table *t = ht_build(b, nodes, nt * 2, nt, match, 1, 0);
	ht_concrete_events(t, nodes);
	struct qb_list_head *target = on_key ? (match >= 0 ? &HG[match].n->notifier_head : NULL) : &t->notifier_head;
	int where = on_key ? match : VERIF_WHERE_GLOBAL;

	verif_reg_snapshot(&t->notifier_head, VERIF_WHERE_GLOBAL);
	for (i = 0; i < nodes; i++) {
		verif_reg_snapshot(&HG[i].n->notifier_head, (int)i);
	}

	qb_map_notify_fn fn = verif_notify_cb;
	int32_t events = verif_case_events;
	void *ud = &verif_not[7];
	int dup = 0, free_clash = 0;
	if (sel != SEL_FRESH) {
		if (target == NULL || qb_list_empty(target)) {
			return;
		}
		struct qb_map_notifier *first = qb_list_entry(target->next, struct qb_map_notifier, list);
		events = first->events;
		fn = (sel == SEL_OTHER_FN) ? verif_notify_cb2 : first->callback;
		ud = (sel == SEL_OTHER_UD) ? (void *)&verif_not[7] : first->user_data;
	}
	for (i = 0; i < VERIF_MAXREG; i++) {
		if (i < VR_n && VR[i].where == where && target != NULL) {
			if (VR[i].events == events && VR[i].fn == fn && VR[i].ud == ud) {
				dup = 1;
			}
			if ((events & QB_MAP_NOTIFY_FREE) && VR[i].events == events) {
				free_clash = 1;
			}
		}
	}
	verif_alloc_fail = fail;

	int32_t r = qb_map_notify_add(&t->map, on_key ? k : NULL, fn, events, ud);

	verif_alloc_fail = 0;
	int stored = 0;
	if (on_key && (events & QB_MAP_NOTIFY_FREE)) {
		COVER(match >= 0);
		POST(r == -EINVAL, "the value-release notifier can only be registered for the whole map (key NULL)");
	} else if (target == NULL) {
		COVER(match < 0);
		POST(r < 0, "a notifier cannot be added for a key that is not present in a hashtable");
	} else if (dup) {
		COVER(on_key);
		COVER(!on_key);
		POST(r == -EEXIST, "adding the same function, events and user data again is refused");
	} else if (free_clash) {
		COVER(r == -EEXIST);
		POST(r == -EEXIST || (r == 0 && !fail) || (r == -ENOMEM && fail), "a second value-release registration is refused or stored");
		stored = (r == 0);
	} else if (fail) {
		COVER(on_key);
		COVER(!on_key);
		POST(r == -ENOMEM, "without memory the notifier is not added and -ENOMEM is reported");
	} else {
		COVER(on_key && sel == SEL_FRESH);
		COVER(!on_key && sel == SEL_FRESH && nt == 0);
		COVER(sel == SEL_OTHER_FN);
		COVER(sel == SEL_OTHER_UD);
		COVER(!on_key && (events & QB_MAP_NOTIFY_FREE));
		POST(r == 0, "a new notifier registration is accepted");
		stored = 1;
	}
	if (!stored) {
		POST(verif_alloc_calls == 0, "a refused registration keeps no memory");
	}
	POST(verif_not_total == 0, "registering a notifier calls no notifier");

	/* every list against the snapshot: only the target list may have gained the one new registration */
	verif_reg_check_list(&t->notifier_head, VERIF_WHERE_GLOBAL, stored && !on_key, fn, events, ud);
	for (i = 0; i < nodes; i++) {
		verif_reg_check_list(&HG[i].n->notifier_head, (int)i, stored && on_key && (int)i == match, fn, events, ud);
	}
	ht_check_state(t);

	/* one dictionary operation on the probed key */
	if (match >= 0) {
		void *oldv = HG[match].value;
		int32_t rr = hashtable_rm(&t->map, k);
		POST(rr != QB_FALSE, "remove reports success when the key was present");
		COVER(stored && on_key && (events & QB_MAP_NOTIFY_DELETED));
		COVER(stored && !on_key && (events & QB_MAP_NOTIFY_FREE));
		COVER(dup);
		verif_reg_check_calls(QB_MAP_NOTIFY_DELETED, match, k, oldv, NULL);
	} else {
		void *v = verif_value_new();
		hashtable_put(&t->map, k, v);
		COVER(stored && !on_key && (events & QB_MAP_NOTIFY_INSERTED));
		verif_reg_check_calls(QB_MAP_NOTIFY_INSERTED, -2, k, NULL, v);
	}
}

#ifndef CASE_FROM
#define CASE_FROM 0
#endif
#ifndef CASE_TO
#define CASE_TO 100000
#endif
void harness(void)
{
	VERIF_ND(uint8_t, nd_case);
	unsigned c = 0, n, nt, e;
	int m, on_key, sel, fail;
	for (n = 0; n <= 2; n++) {
		for (m = (n == 1 ? 0 : -1); m < (int)n; m += 2) {      /* (0,-1) (1,0) (2,-1) (2,1) */
			for (nt = 0; nt < 2; nt++) {
				for (on_key = 0; on_key < 2; on_key++) {
					for (sel = 0; sel < (nt ? 4 : 1); sel++) {
						for (e = 0; e < (sel == SEL_FRESH ? 5u : 1u); e++) {
							for (fail = 0; fail < ((sel == SEL_FRESH && e == 0) ? 2 : 1); fail++) {
								if (c >= CASE_FROM && c < CASE_TO && nd_case == c) {
									verif_case_events = verif_evsel[e];
									verif_case(n, nt, m, on_key, sel, fail);
								}
								c++;
							}
						}
					}
				}
			}
		}
	}
}
