/*UNIT
{"props": ["C17"], "src": ["lib/trie.c"], "mode": "plain", "kind": "bounded",
 "bound": "key universe {b, bc, bcd, bd, c}; every subset of <= 2 keys inserted in ascending and in descending order by the real trie_put (all node layouts of <= 5 nodes over the universe: shared prefix, proper prefix, segment extension and segment split, bytes >= 0x80), then ONE operation on every universe key; 2 global notifiers (value-release; all events, recursive); distinct non-NULL value tokens",
 "unwind": 260, "object_bits": 12, "cbmc_flags": ["--no-malloc-may-fail"],
 "functions": ["trie_get", "trie_put", "trie_rm", "trie_count_get", "trie_insert", "trie_lookup", "trie_node_split", "new_child_node", "trie_new_node", "trie_node_deref", "trie_node_destroy", "trie_node_release", "trie_notify"],
 "restrict_fp": ["trie_notify.function_pointer_call.1/verif_notify_cb", "trie_notify.function_pointer_call.2/verif_notify_cb"],
 "stubs": ["map notifier callback (records event, key, old and new value per notifier)", "calloc/malloc/realloc (scripted: succeed)"],
 "expect_classes": ["assertion"], "timeout": 400,
 "variants": [{"vname": "get_a", "defines": ["-DV_GET", "-DTR_STATE_FROM=0", "-DTR_STATE_TO=10"]},
              {"vname": "get_b", "defines": ["-DV_GET", "-DTR_STATE_FROM=10", "-DTR_STATE_TO=20"]},
              {"vname": "get_c", "defines": ["-DV_GET", "-DTR_STATE_FROM=20", "-DTR_STATE_TO=32"]},
              {"vname": "put_a", "defines": ["-DV_PUT", "-DTR_STATE_FROM=0", "-DTR_STATE_TO=10"]},
              {"vname": "put_b", "defines": ["-DV_PUT", "-DTR_STATE_FROM=10", "-DTR_STATE_TO=20"]},
              {"vname": "put_c", "defines": ["-DV_PUT", "-DTR_STATE_FROM=20", "-DTR_STATE_TO=32"]},
              {"vname": "rm_a", "defines": ["-DV_RM", "-DTR_STATE_FROM=0", "-DTR_STATE_TO=10"]},
              {"vname": "rm_b", "defines": ["-DV_RM", "-DTR_STATE_FROM=10", "-DTR_STATE_TO=20"]},
              {"vname": "rm_c", "defines": ["-DV_RM", "-DTR_STATE_FROM=20", "-DTR_STATE_TO=32"]}]}
*/
/* One dictionary operation on every bounded trie state and every universe key:
 *  get: the value of the latest put or nothing; nothing changes; count_get = number of keys;
 *  put: new key -> present with the value, count + 1, INSERTED announced once; existing key -> value replaced,
 *       REPLACED announced once and the old value released once (FREE); all other keys keep their values
 *       (including keys that are proper prefixes / extensions of the put key, and keys whose segment is split);
 *  rm : success exactly when the key is present; then it is gone, count - 1, DELETED announced once and the
 *       value released once; a key that merely has a node (prefix of others, branching point) is "absent";
 *       all other keys keep their values. */
#include "tr_world.h"

static unsigned verif_case_probe;

static void verif_case(unsigned mask, unsigned descending)
{
	struct trie *t = tr_build(mask, descending);
	unsigned j = verif_case_probe;
	char *k = tr_ukeys[j];
	void *oldv = TD[j];
	COVER(oldv != NULL);
	COVER(oldv == NULL);
#if defined(V_GET)
	void *r = trie_get(&t->map, k);
	POST(r == oldv, "get returns the value of the latest put for that key, or nothing");
	POST(trie_count_get(&t->map) == tr_popcount(mask), "the count call reports the number of keys present");
	POST(verif_not_total == 0, "get calls no notifier");
#elif defined(V_PUT)
	void *v = &tr_newcell;
	trie_put(&t->map, k, v);
	TD[j] = v;
	if (oldv != NULL) {
		tr_check_notified(QB_MAP_NOTIFY_REPLACED, k, oldv, v);
	} else {
		tr_check_notified(QB_MAP_NOTIFY_INSERTED, k, NULL, v);
	}
#else
	int32_t r = trie_rm(&t->map, k);
	POST((r != QB_FALSE) == (oldv != NULL), "remove reports success exactly when the key was present");
	TD[j] = NULL;
	if (oldv != NULL) {
		tr_check_notified(QB_MAP_NOTIFY_DELETED, k, oldv, NULL);
	} else {
		POST(verif_not_total == 0, "a failed remove calls no notifier");
	}
#endif
	tr_check_state(t);
}

void harness(void)
{
	VERIF_ND(uint8_t, nd_state);
	VERIF_ND(uint8_t, nd_probe);
	unsigned p;
	for (p = 0; p < TR_NU; p++) {
		if (nd_probe == p) {
			verif_case_probe = p;
			TR_ENUM_STATES(nd_state, verif_case);
		}
	}
}
