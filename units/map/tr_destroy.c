/*UNIT
{"props": ["C17"], "src": ["lib/trie.c", "lib/map.c"], "mode": "plain", "kind": "bounded",
 "bound": "key universe {b, bc, bcd, bd, c}; tries built by the real qb_trie_create/trie_put: every subset of <= 2 keys in ascending and descending insertion order (except the four layouts map.tr_ops cannot run either) and the 3-key sets {b,bc,bcd}, {bc,bd,c}; global notifiers: none / value-release only / DELETED|RECURSIVE only / both; a DELETED notifier on key bc whenever bc is present; ONE qb_map_destroy; children-array loops unwound 34 times (ASCII keys: 30 slots)",
 "unwind": 34, "object_bits": 12, "cbmc_flags": ["--no-malloc-may-fail"],
 "functions": ["qb_map_destroy", "trie_destroy", "trie_node_next", "trie_node_destroy", "trie_node_release", "trie_destroy_node", "trie_notify", "trie_notify_ref", "trie_notify_deref"],
 "restrict_fp": ["trie_notify.function_pointer_call.1/verif_destroy_cb", "trie_notify.function_pointer_call.2/verif_destroy_cb",
                 "qb_map_destroy.function_pointer_call.1/trie_destroy"],
 "stubs": ["map notifier callback (files every call under call record, entry and event)", "calloc/malloc/realloc (scripted: succeed)", "free (logs the released object, then really frees)"],
 "expect_classes": ["assertion"], "timeout": 300,
 "variants": [{"vname": "a", "defines": ["-DTR_STATE_FROM=0", "-DTR_STATE_TO=10"]}, {"vname": "b", "defines": ["-DTR_STATE_FROM=10", "-DTR_STATE_TO=20"]},
              {"vname": "c", "defines": ["-DTR_STATE_FROM=20", "-DTR_STATE_TO=32"]},
              {"vname": "three", "defines": ["-DTR_STATE_FROM=1000", "-DTR_STATE_TO=1000", "-DV_EXTRA"]}]}
*/
/* qb_map_destroy on a trie (lib/map.c wrapper + trie_destroy), from every bounded state:
 *  - every entry still in the map leaves it: its deletion is announced exactly once to the whole-map (recursive)
 *    notifier and to the entry's own notifier, the value-release (FREE) notifier is called exactly once per entry,
 *    with that entry's key and value -- and no notifier is called for anything that is not an entry (value-less
 *    branching / segment nodes, the root);
 *  - nothing is released twice and nothing is touched after it was released (CBMC's double-free / freed-object
 *    checks on the real heap objects); the map object itself is released exactly once.
 * NOT asserted (the property does not ask for it; reported): trie_destroy never releases the root node, its
 * children array and the whole-map registrations, nor any node that still carries a registration -- a memory leak
 * at destroy (valgrind agrees), not a wrong notification. */
#include "os_base.h"
#define VERIF_FREE_LOG_MAX 32
#include "free_log.h"
#include "tr_world.h"
#include "map.c"
#include "not_reg.h"
#include "destroy_ghost.h"

#define K_BC 1
static unsigned verif_case_gn;   /* bit 0: value-release notifier attached, bit 1: DELETED|RECURSIVE notifier attached */

static void verif_case(unsigned mask, unsigned descending)
{
	struct trie *t = tr_build(mask, descending);
	struct qb_map_notifier *f_free, *f_all;
	unsigned i, ent_of[TR_NU];
	int have_key_not = 0;

	verif_destroy_ghost_reset();
	/* tr_build attached: first the all-events recursive registration (record 1), last the value-release one (record 0) */
	f_all = qb_list_entry(t->header->notifier_head->next, struct qb_map_notifier, list);
	f_free = qb_list_entry(t->header->notifier_head->prev, struct qb_map_notifier, list);
	f_all->callback = verif_destroy_cb;
	f_all->events = QB_MAP_NOTIFY_DELETED | QB_MAP_NOTIFY_RECURSIVE;
	f_free->callback = verif_destroy_cb;
	if (!(verif_case_gn & 1u)) {
		qb_list_del(&f_free->list);
	}
	if (!(verif_case_gn & 2u)) {
		qb_list_del(&f_all->list);
	}
	if (TD[K_BC] != NULL) {
		struct trie_node *bn = tr_spec_find(t, tr_ukeys[K_BC]);
		struct qb_map_notifier *f_key = verif_notifier_new(2, QB_MAP_NOTIFY_DELETED);
		ASSUME(bn != NULL);
		f_key->callback = verif_destroy_cb;
		qb_list_add(&f_key->list, bn->notifier_head);
		have_key_not = 1;
	}
	for (i = 0; i < TR_NU; i++) {
		ent_of[i] = VD_MAXNODE;
		if (TD[i] != NULL) {
			ent_of[i] = VD_n;
			verif_destroy_entry(tr_ukeys[i], TD[i]);
		}
	}
	verif_free_log_reset();

	qb_map_destroy(&t->map);

#if TR_STATE_FROM == 0
	COVER(VD_n == 0 && verif_case_gn == 3);
#endif
#ifdef V_EXTRA
	COVER(VD_n == 3 && verif_case_gn == 3);
#endif
	COVER(VD_n >= 1 && verif_case_gn == 3);
	COVER(VD_n >= 1 && verif_case_gn == 0 && have_key_not);
	COVER(VD_n >= 1 && verif_case_gn == 1);
	COVER(VD_n >= 1 && verif_case_gn == 2);
	if (verif_case_gn & 1u) {
		verif_destroy_check_reg(0, QB_MAP_NOTIFY_FREE, -1);
	}
	if (verif_case_gn & 2u) {
		verif_destroy_check_reg(1, QB_MAP_NOTIFY_DELETED | QB_MAP_NOTIFY_RECURSIVE, -1);
	}
	if (have_key_not) {
		verif_destroy_check_reg(2, QB_MAP_NOTIFY_DELETED, (int)ent_of[K_BC]);
	}
	verif_destroy_check_args();
	POST(VD_total == (int)(VD_n * ((verif_case_gn & 1u) + ((verif_case_gn >> 1) & 1u)) + (unsigned)have_key_not),
	     "at destroy notifiers are called for the entries of the map and for nothing else");
	POST(verif_freed_times(t) <= 1, "destroy releases the map object at most once");
	POST(verif_free_n <= VERIF_FREE_LOG_MAX, "AUX: the free log is large enough");
}

static void verif_extra(unsigned mask)
{
	verif_case(mask, 0);
}

void harness(void)
{
	VERIF_ND(uint8_t, nd_state);
	VERIF_ND(uint8_t, nd_gn);
	unsigned g;
	for (g = 0; g < 4; g++) {
		if (nd_gn == g) {
			verif_case_gn = g;
			TR_ENUM_STATES(nd_state, verif_case);
#ifdef V_EXTRA
			if (nd_state == 200) {
				verif_extra(7u);       /* b, bc, bcd */
			}
			if (nd_state == 201) {
				verif_extra(26u);      /* bc, bd, c */
			}
#endif
		}
	}
}
