/*UNIT
{"props": ["C17"], "src": ["lib/hashtable.c", "lib/map.c"], "spec": ["hashtable.spec"], "tags": ["split"], "mode": "plain", "kind": "bounded",
 "bound": "8 buckets; key hashing to bucket 5; that bucket holds 0..2 nodes (distinct keys of length 1..2, arbitrary bytes; the probed key equal to the last node's key or to none); 4 global registrations {f1 ALL ud0, f1 ALL ud1, f2 ALL ud6, f1 FREE|DELETED ud7} (ALL = DELETED|REPLACED|INSERTED), 1 registration on every key {f1 DELETED|REPLACED} + 2 more on the probed key {f1 DELETED|REPLACED ud4, f2 DELETED ud5}; delete requests: 8 (global) / 5 (key) combinations of function, events, with/without user data that match two, one or none of them; ONE qb_map_notify_del or qb_map_notify_del_2, then ONE rm (key present) or put (key absent) of the probed key",
 "unwind": 12, "cbmc_flags": ["--no-malloc-may-fail"],
 "functions": ["qb_map_notify_del", "qb_map_notify_del_2", "hashtable_notify_del", "hashtable_lookup", "hashtable_notify", "hashtable_rm", "hashtable_put"],
 "restrict_fp": ["hashtable_notify.function_pointer_call.1/verif_notify_cb,verif_notify_cb2", "hashtable_notify.function_pointer_call.2/verif_notify_cb,verif_notify_cb2",
                 "hashtable_notify.function_pointer_call.3/verif_notify_cb,verif_notify_cb2", "qb_map_notify_del.function_pointer_call.1/hashtable_notify_del",
                 "qb_map_notify_del_2.function_pointer_call.1/hashtable_notify_del"],
 "stubs": ["map notifier callbacks (two functions; record event, key, old and new value per user-data record)", "calloc/malloc (scripted: succeed)",
           "strcmp (answers from the declared key order of the enumerated case, asserted to agree with the key contents)"],
 "expect_classes": ["assertion"], "timeout": 300}
*/
/* qb_map_notify_del / qb_map_notify_del_2 on a hashtable (lib/map.c wrappers + hashtable_notify_del):
 *  - a registration is removed only if it is on the list asked for (global for key NULL, else the key's own list)
 *    and its function and events -- and for _2 its user data -- are the ones given; every other registration stays
 *    exactly as it was; when exactly one matches it IS removed (when two differ in the user data only and none is
 *    given, at least one of them is: the documentation does not say which);
 *  - the call returns 0 iff something matched, -ENOENT otherwise (also for a key that is not present); entries and
 *    count are untouched; deleting calls no notifier;
 *  - then the property's own words: ONE removal / insertion of the probed key calls every registration still in
 *    force exactly once per event it subscribed to, and a deleted registration is never called again. */
#include "ht_common.h"
#include "map.c"
#include "not_reg.h"

#define EV_ALL3 (QB_MAP_NOTIFY_DELETED | QB_MAP_NOTIFY_REPLACED | QB_MAP_NOTIFY_INSERTED)
#define EV_FREE_DEL (QB_MAP_NOTIFY_FREE | QB_MAP_NOTIFY_DELETED)
#define EV_KEY (QB_MAP_NOTIFY_DELETED | QB_MAP_NOTIFY_REPLACED)

struct del_req { int f2; int32_t events; int cmp; int udrec; };
static const struct del_req req_global[8] = {
	{0, EV_ALL3, 0, 0}, {1, EV_ALL3, 0, 0}, {0, EV_FREE_DEL, 0, 0}, {0, QB_MAP_NOTIFY_DELETED, 0, 0},
	{0, EV_ALL3, 1, 1}, {0, EV_ALL3, 1, 5}, {1, EV_ALL3, 1, 6}, {0, EV_FREE_DEL, 1, 0} };
static const struct del_req req_key[5] = {
	{0, EV_KEY, 0, 0}, {1, QB_MAP_NOTIFY_DELETED, 0, 0}, {0, QB_MAP_NOTIFY_DELETED, 0, 0},
	{0, EV_KEY, 1, 4}, {0, EV_KEY, 1, 5} };

static struct qb_map_notifier *add_reg(struct qb_list_head *head, int rec, int32_t events, int f2)
{
	struct qb_map_notifier *f = verif_notifier_new(rec, events);
	if (f2) {
		f->callback = verif_notify_cb2;
	}
	qb_list_add_tail(&f->list, head);
	return f;
}

static int reg_linked(struct qb_list_head *head, struct qb_map_notifier *f)
{
	struct qb_list_head *p = head->next;
	unsigned s;
	int linked = 0;
	for (s = 0; s < VERIF_LIST_MAX + 1; s++) {
		if (p != head) {
			if (p == &f->list) {
				linked = 1;
			}
			p = p->next;
		}
	}
	return linked;
}

static void verif_case(unsigned nodes, int match, int on_key, int sel)
{
	unsigned i, nmatch = 0, ngone = 0;
	verif_alloc_fail = 0;
	verif_keys_reset();
	verif_reg_reset();
	char *k = verif_key_new();
	verif_key_register(k, HT_PROBE_RANK);
	uint32_t b = ht_probe_bucket(k);
	struct hash_table *t = ht_build(b, nodes, 2, 1, match, 1, 0);
	/* concrete event masks (the comparison with the request decides what is freed) + the extra registrations */
	qb_list_entry(t->notifier_head.next, struct qb_map_notifier, list)->events = EV_ALL3;
	qb_list_entry(t->notifier_head.next->next, struct qb_map_notifier, list)->events = EV_ALL3;
	add_reg(&t->notifier_head, 6, EV_ALL3, 1);
	add_reg(&t->notifier_head, 7, EV_FREE_DEL, 0);
	for (i = 0; i < nodes; i++) {
		qb_list_entry(HG[i].n->notifier_head.next, struct qb_map_notifier, list)->events = EV_KEY;
	}
	if (match >= 0) {
		add_reg(&HG[match].n->notifier_head, 4, EV_KEY, 0);
		add_reg(&HG[match].n->notifier_head, 5, QB_MAP_NOTIFY_DELETED, 1);
	}
	verif_reg_snapshot(&t->notifier_head, VERIF_WHERE_GLOBAL);
	for (i = 0; i < nodes; i++) {
		verif_reg_snapshot(&HG[i].n->notifier_head, (int)i);
	}
	struct qb_list_head *target = on_key ? (match >= 0 ? &HG[match].n->notifier_head : NULL) : &t->notifier_head;
	int where = on_key ? match : VERIF_WHERE_GLOBAL;
	struct del_req q = on_key ? req_key[sel] : req_global[sel];
	qb_map_notify_fn fn = q.f2 ? verif_notify_cb2 : verif_notify_cb;
	void *ud = &verif_not[q.udrec];
	int32_t r;
	verif_alloc_calls = 0;

	if (q.cmp) {
		r = qb_map_notify_del_2(&t->map, on_key ? k : NULL, fn, q.events, ud);
	} else {
		r = qb_map_notify_del(&t->map, on_key ? k : NULL, fn, q.events);
	}

	for (i = 0; i < VERIF_MAXREG; i++) {
		if (i < VR_n && target != NULL && VR[i].where == where &&
		    VR[i].fn == fn && VR[i].events == q.events && (!q.cmp || VR[i].ud == ud)) {
			nmatch++;
			VR[i].gone = !reg_linked(target, VR[i].obj);
			ngone += (unsigned)VR[i].gone;
		}
	}
	if (nmatch == 0) {
		COVER(target == NULL);
		COVER(target != NULL && on_key);
		COVER(target != NULL && !on_key && q.cmp);
		POST(r == -ENOENT, "deleting a notifier that is not registered reports -ENOENT");
	} else {
		COVER(nmatch == 2);
		COVER(nmatch == 1 && q.cmp && !on_key);
		COVER(nmatch == 1 && on_key);
		COVER(nmatch == 1 && q.f2);
		POST(r == 0, "deleting a registered notifier succeeds");
		POST(ngone >= 1, "a deleted notifier registration is no longer stored");
		POST(nmatch != 1 || ngone == 1, "a deleted notifier registration is no longer stored");
	}
	POST(verif_not_total == 0, "deleting a notifier calls no notifier");
	POST(verif_alloc_calls == 0, "deleting a notifier allocates nothing");
	verif_reg_check_list(&t->notifier_head, VERIF_WHERE_GLOBAL, 0, NULL, 0, NULL);
	for (i = 0; i < nodes; i++) {
		verif_reg_check_list(&HG[i].n->notifier_head, (int)i, 0, NULL, 0, NULL);
	}
	ht_check_state(t);

	if (match >= 0) {
		void *oldv = HG[match].value;
		int32_t rr = hashtable_rm(&t->map, k);
		POST(rr != QB_FALSE, "remove reports success when the key was present");
		COVER(ngone == 1 && on_key);
		COVER(ngone >= 1 && !on_key);
		verif_reg_check_calls(QB_MAP_NOTIFY_DELETED, match, k, oldv, NULL);
	} else {
		void *v = verif_value_new();
		hashtable_put(&t->map, k, v);
		COVER(ngone >= 1);
		verif_reg_check_calls(QB_MAP_NOTIFY_INSERTED, -2, k, NULL, v);
	}
}

void harness(void)
{
	VERIF_ND(uint8_t, nd_case);
	unsigned c = 0, n;
	int m, on_key, sel;
	for (n = 0; n <= 2; n++) {
		for (m = (n == 1 ? 0 : -1); m < (int)n; m += 2) {      /* (0,-1) (1,0) (2,-1) (2,1) */
			for (on_key = 0; on_key < 2; on_key++) {
				for (sel = 0; sel < (on_key ? (m >= 0 ? 5 : 1) : 8); sel++) {
					if (nd_case == c) {
						verif_case(n, m, on_key, sel);
					}
					c++;
				}
			}
		}
	}
}
