/*UNIT
{"props": ["C17", "C18"], "src": ["lib/hashtable.c"], "spec": ["hashtable.spec"], "tags": ["split"], "mode": "plain", "kind": "bounded",
 "bound": "8 buckets, two of them (2 and 5) hold 0..2 nodes each, the others are empty; keys of length 1..2 (arbitrary bytes); the iterator under test is fresh or parked on any node; that node is present or already removed, with this iterator parked; other nodes: reference count 1 or 2, any split between presence and parked iterators; notifiers: 2 global + 1 per key",
 "unwind": 12, "cbmc_flags": ["--no-malloc-may-fail"],
 "functions": ["hashtable_iter_free", "hashtable_iter_create"],
 "restrict_fp": ["hashtable_notify.function_pointer_call.1/verif_notify_cb", "hashtable_notify.function_pointer_call.2/verif_notify_cb",
                 "hashtable_notify.function_pointer_call.3/verif_notify_cb"],
 "stubs": ["map notifier callback (records event, key, old and new value per notifier)", "calloc/malloc (scripted: succeed or fail per enumerated case)"],
 "expect_classes": ["assertion"], "timeout": 300,
 "variants": [{"vname": "fresh", "defines": ["-DV_FRESH"]}, {"vname": "parked", "defines": ["-DV_PARKED"]}]}
*/
/* hashtable_iter_create / hashtable_iter_free:
 *  fresh : creating an iterator changes nothing (or fails cleanly without memory); freeing an iterator that
 *          was never advanced changes nothing;
 *  parked: ABANDONING an iterator that is parked on a node (qb_map_foreach does this when the traversal
 *          callback stops early) must release its reference -- "once the iterators are gone the map again
 *          behaves exactly like a dictionary" (C18), so the node's reference count must drop, and a node whose
 *          key was removed meanwhile must be released and its deletion announced.
 *          GENUINE DEFECT (new): hashtable_iter_free only frees the iterator object; the reference leaks, the
 *          node can never be freed, and a later rm() leaves the key visible (same symptoms as #15, without
 *          any iterator being open). */
#define HT_CONCRETE_REFCOUNT 1
#include "ht_common.h"

static void verif_case(unsigned n1, unsigned n2, unsigned gnot, unsigned nnot, int pos, int x_present, int x_iters)
{
#ifdef V_FRESH
	if (pos >= 0) {
		return;
	}
	struct hash_table *t = ht_build2(n1, n2, gnot, nnot, pos, x_present, x_iters);
	VERIF_ND(uint8_t, nd_create);
	if (nd_create) {
		VERIF_ND(uint8_t, nd_nomem);
		if (nd_nomem) {
			verif_alloc_fail = 1;
			POST(hashtable_iter_create(&t->map, NULL) == NULL, "iterator creation fails cleanly without memory");
			COVER(1);
		} else {
			struct hashtable_iter *hi = (struct hashtable_iter *)hashtable_iter_create(&t->map, NULL);
			COVER(HG_n == 4);
			POST(hi != NULL && hi->i.m == &t->map && hi->node == NULL && hi->bucket == 0, "a new iterator starts before the first key");
		}
	} else {
		struct hashtable_iter *hi = ht_iter_new(t, -1);
		hashtable_iter_free(&hi->i);
		COVER(HG_n == 0);
	}
	POST(verif_not_total == 0, "creating or freeing a fresh iterator announces nothing");
#else
	if (pos < 0) {
		return;
	}
	struct hash_table *t = ht_build2(n1, n2, gnot, nnot, pos, x_present, x_iters);
	struct hashtable_iter *hi = ht_iter_new(t, pos);
	void *oldv = HG[pos].value;

	hashtable_iter_free(&hi->i);

	COVER(HG[pos].present == 0);
	COVER(HG[pos].present == 1);
	HG[pos].iters--;
	if (HG[pos].present == 0 && HG[pos].iters == 0) {
		ht_check_notified(QB_MAP_NOTIFY_DELETED, pos, HG[pos].key, oldv, NULL);
	} else {
		POST(verif_not_total == 0, "abandoning an iterator on a live node announces nothing");
	}
#endif
	ht_check_bucket(t, HT_B1);
	ht_check_bucket(t, HT_B2);
	ht_check_count(t);
}

void harness(void)
{
	VERIF_ND(uint8_t, nd_case);
	HT_ENUM_ITER_CASES(nd_case, verif_case);
}
