/*UNIT
{"props": ["C18", "C17"], "src": ["lib/map.c"], "spec": ["map.spec"], "tags": ["foreach"], "mode": "plain", "loop_contracts": true,
 "kind": "proved", "functions": ["qb_map_foreach", "qb_map_iter_create", "qb_map_iter_next", "qb_map_iter_free"],
 "restrict_fp": ["qb_map_iter_create.function_pointer_call.1/verif_fe_iter_create", "qb_map_iter_next.function_pointer_call.1/verif_fe_iter_next",
                 "qb_map_iter_free.function_pointer_call.1/verif_fe_iter_free", "qb_map_foreach.function_pointer_call.1/verif_fe_cb"],
 "stubs": ["the map implementation behind the qb_map function table (iter_create succeeds; iter_next returns any number of arbitrary keys, then NULL; iter_free)", "the traversal callback (any return value)"],
 "expect_classes": ["loop_invariant_step", "assertion"], "fallback_unwind": 3, "timeout": 120, "cbmc_flags": ["--no-malloc-may-fail"]}
*/
/* qb_map_foreach over ANY map implementation and ANY number of entries (loop contract, no bound):
 *  - the callback gets exactly the keys the iterator returns, each once, in that order, with the value returned
 *    with it, until it returns non-zero or the iterator is exhausted;
 *  - the traversal's iterator is released exactly once on BOTH exits -- complete and abandoned by the callback --
 *    and never used afterwards (C18: "abandoning an iterator part-way"; an iterator that is never freed keeps its
 *    entry referenced for ever: removed entries are never released and their value-release notification never
 *    comes);
 *  - nothing is fetched after the callback asked to stop.
 * Assumed: iter_create succeeds (qb_map_foreach does not check for NULL: with no memory it dereferences NULL --
 * reported in DESIGN.md 10.3, not part of C17/C18). */
#include "os_base.h"
#include <qb/qbmap.h>
#include "verif.h"
#include "map_int.h"

unsigned verif_fe_created, verif_fe_freed, verif_fe_next_calls, verif_fe_cb_calls, verif_fe_ended, verif_fe_stop, verif_fe_bad;
const char *verif_fe_last_key;
void *verif_fe_last_val;
static struct qb_map_iter verif_fe_it;
static char verif_fe_keys[8];

static qb_map_iter_t *verif_fe_iter_create(struct qb_map *m, const char *prefix)
{
	verif_fe_created++;
	verif_fe_it.m = m;
	if (prefix != NULL) { verif_fe_bad = 1; }
	return &verif_fe_it;
}
static const char *verif_fe_iter_next(qb_map_iter_t *i, void **value)
{
	if (i != &verif_fe_it || verif_fe_freed || verif_fe_ended || verif_fe_stop) {
		verif_fe_bad = 1;      /* used after free / after the end / after the callback asked to stop */
	}
	verif_fe_next_calls++;
	if (nondet_u64() & 1) {
		verif_fe_ended = 1;
		verif_fe_last_key = NULL;
		return NULL;
	}
	verif_fe_last_key = &verif_fe_keys[nondet_u64() & 7];
	verif_fe_last_val = (void *)(uintptr_t)nondet_u64();
	*value = verif_fe_last_val;
	return verif_fe_last_key;
}
static void verif_fe_iter_free(qb_map_iter_t *i)
{
	if (i != &verif_fe_it) { verif_fe_bad = 1; }
	verif_fe_freed++;
}
static int32_t verif_fe_cb(const char *key, void *value, void *user_data)
{
	if (key != verif_fe_last_key || value != verif_fe_last_val || verif_fe_freed || verif_fe_stop) {
		verif_fe_bad = 1;      /* not the entry just fetched, or called after the iterator was released */
	}
	verif_fe_cb_calls++;
	if (nondet_u64() & 1) {
		verif_fe_stop = 1;
		return 1;
	}
	return 0;
}

#include "map.c"

void harness(void)
{
	struct qb_map m;
	m.iter_create = verif_fe_iter_create;
	m.iter_next = verif_fe_iter_next;
	m.iter_free = verif_fe_iter_free;
	verif_fe_created = verif_fe_freed = verif_fe_next_calls = verif_fe_cb_calls = verif_fe_ended = verif_fe_stop = verif_fe_bad = 0;
	verif_fe_last_key = NULL;
	verif_fe_last_val = NULL;

	qb_map_foreach(&m, verif_fe_cb, NULL);

	COVER(verif_fe_stop && verif_fe_cb_calls >= 1);
	COVER(verif_fe_ended && verif_fe_cb_calls == 0);
	POST(verif_fe_created == 1 && verif_fe_freed == 1, "the traversal's iterator is released exactly once, whether the traversal completed or was abandoned by the callback");
	POST(verif_fe_bad == 0, "the callback gets exactly the entry just fetched; nothing is fetched or called after the stop request, the end, or the release");
	POST(verif_fe_stop || verif_fe_ended, "the traversal ends only at the end of the map or on the callback's request");
	POST(verif_fe_cb_calls + (verif_fe_stop ? 0 : 1) == verif_fe_next_calls, "every fetched entry is handed to the callback exactly once");
}
