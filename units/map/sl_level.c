/*UNIT
{"props": ["C17"], "src": ["lib/skiplist.c"], "mode": "plain", "kind": "bounded",
 "bound": "at most 100 consecutive random() values below 2^14 (probability of more: 4^-100); random() otherwise arbitrary",
 "unwind": 103, "cbmc_flags": ["--no-malloc-may-fail"], "functions": ["skiplist_level_generate"],
 "stubs": ["random (arbitrary values, at most 100 consecutive ones below 2^14)"],
 "expect_classes": ["assertion"], "timeout": 120}
*/
/* Leaf lemma: the level skiplist_level_generate gives a new node is in [0, SKIPLIST_LEVEL_MAX] for every outcome
 * of random() -- so new_node->forward (SKIPLIST_LEVEL_MAX + 1 slots) and the update[] array are indexed in
 * range by skiplist_put.  (The int8_t counter would wrap after 128 consecutive small values; excluded by the bound.) */
#include "os_base.h"
#include <qb/qbmap.h>
#include "verif.h"
unsigned verif_small_run;
static long verif_random(void)
{
	VERIF_ND(uint32_t, nd_random);
	if ((uint16_t)nd_random < (UINT16_MAX / 4)) {
		verif_small_run++;
		ASSUME(verif_small_run <= 100);
	}
	return (long)(nd_random & 0x7fffffff);
}
#define random verif_random
#include "skiplist.c"

void harness(void)
{
	verif_small_run = 0;
	int8_t lv = skiplist_level_generate();
	COVER(lv == 0);
	COVER(lv == SKIPLIST_LEVEL_MAX && verif_small_run > 20);
	COVER(lv == 3);
	POST(lv >= SKIPLIST_LEVEL_MIN && lv <= SKIPLIST_LEVEL_MAX, "a new node's level is within [0, SKIPLIST_LEVEL_MAX]");
}
