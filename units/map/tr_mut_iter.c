/*UNIT
{"props": ["C18"], "src": ["lib/trie.c"], "mode": "plain", "kind": "bounded", "tier": "thorough",
 "bound": "key universe {b, bc, bcd, bd, c}; every subset of <= 2 keys (ascending and descending insertion order, real trie_put); an iterator advanced 1 step (completed afterwards) or 1 step (abandoned afterwards), then ONE rm or put of any universe key, then the iteration is completed or abandoned (iter_free part-way)",
 "unwind": 260, "object_bits": 12, "cbmc_flags": ["--no-malloc-may-fail"],
 "functions": ["trie_rm", "trie_put", "trie_iter_create", "trie_iter_next", "trie_iter_free", "trie_node_next", "trie_node_ref", "trie_node_deref", "trie_node_destroy", "trie_node_release", "trie_node_split", "trie_insert"],
 "restrict_fp": ["trie_notify.function_pointer_call.1/verif_notify_cb", "trie_notify.function_pointer_call.2/verif_notify_cb"],
 "stubs": ["map notifier callback (records calls)", "calloc/malloc/realloc (scripted: succeed)"],
 "expect_classes": ["assertion"], "timeout": 400,
 "variants": [{"vname": "rm_other_a", "defines": ["-DV_RM", "-DV_OTHER", "-DTR_STATE_FROM=0", "-DTR_STATE_TO=8"]},
              {"vname": "rm_other_b", "defines": ["-DV_RM", "-DV_OTHER", "-DTR_STATE_FROM=8", "-DTR_STATE_TO=16"]},
              {"vname": "rm_other_c", "defines": ["-DV_RM", "-DV_OTHER", "-DTR_STATE_FROM=16", "-DTR_STATE_TO=24"]},
              {"vname": "rm_other_d", "defines": ["-DV_RM", "-DV_OTHER", "-DTR_STATE_FROM=24", "-DTR_STATE_TO=32"]},
              {"vname": "put_a", "tier": "off", "defines": ["-DV_PUT", "-DTR_STATE_FROM=0", "-DTR_STATE_TO=8"]},
              {"vname": "put_b", "tier": "off", "defines": ["-DV_PUT", "-DTR_STATE_FROM=8", "-DTR_STATE_TO=16"]},
              {"vname": "put_c", "tier": "off", "defines": ["-DV_PUT", "-DTR_STATE_FROM=16", "-DTR_STATE_TO=24"]},
              {"vname": "put_d", "tier": "off", "defines": ["-DV_PUT", "-DTR_STATE_FROM=24", "-DTR_STATE_TO=32"]}]}
*/
/* Mutation under an open trie iterator (C18): while an iterator is parked after 0..2 steps, one entry is removed
 * (any key: before, at or after the position, the last one) or put (new key, replacement, a key that splits a
 * segment under the iterator); then the iteration is completed or abandoned.
 *  - no freed memory is touched, nothing is freed twice (CBMC pointer checks on the real heap objects);
 *  - right after the operation the dictionary is exact: a removed key is gone at once, a put key is there;
 *  - every key present during the whole iteration is returned exactly once (removals) / at least once (puts),
 *    no key is returned that was never present, no key twice when only a removal happened;
 *  - once the iterator is gone the trie is again exactly the dictionary of the surviving entries.
 *  put_*    : TOOL LIMIT -- tier "off": symbolic execution does not finish within 1200 s (measured on put_a); put under an
 *             open trie iterator is therefore NOT decided by the registered checks (C18 level_note).
 *  rm_other : the removed key is not the one the iterator is parked on;
 *  rm_parked: the removed key IS the one the iterator is parked on.  GENUINE DEFECT T1: trie_rm only drops one
 *             of the node's two references; the value stays, so get() still finds the key until the iterator
 *             moves on (and a second rm() succeeds again, freeing the node under the iterator). */
#include "tr_world.h"

static unsigned verif_case_probe, verif_case_steps, verif_case_abandon;

static void verif_case(unsigned mask, unsigned descending)
{
	struct trie *t = tr_build(mask, descending);
	unsigned seen[TR_NU], before[TR_NU], i, steps, j = verif_case_probe;
	int parked = -1;
	void *val, *oldv = TD[j];
	const char *key = NULL;
	int ended = 0;

	for (i = 0; i < TR_NU; i++) {
		seen[i] = 0;
		before[i] = TD[i] != NULL;
	}
	qb_map_iter_t *it = trie_iter_create(&t->map, NULL);
	ASSUME(it != NULL);
	for (steps = 0; steps < verif_case_steps; steps++) {
		key = trie_iter_next(it, &val);
		if (key == NULL) {
			ended = 1;
			break;
		}
		for (i = 0; i < TR_NU; i++) {
			if (key == tr_ukeys[i]) {
				seen[i]++;
				parked = (int)i;
			}
		}
	}
	if (ended) {
		trie_iter_free(it);
		return;   /* the iteration was already over: nothing parked, covered by the plain units */
	}
#if defined(V_PARKED)
	if (parked != (int)j) {
		trie_iter_free(it);
		return;
	}
#elif defined(V_OTHER)
	if (parked == (int)j) {
		trie_iter_free(it);
		return;
	}
#endif
	if (parked >= 0) {
		TD_iters[parked] = 1;
	}
	verif_not_reset();
#ifdef V_RM
	int32_t r = trie_rm(&t->map, tr_ukeys[j]);
	POST((r != QB_FALSE) == (oldv != NULL), "remove reports success exactly when the key was present");
	TD[j] = NULL;
	COVER(oldv != NULL && parked >= 0);
#else
	trie_put(&t->map, tr_ukeys[j], &tr_newcell);
	TD[j] = &tr_newcell;
	COVER(oldv == NULL && parked >= 0);
	COVER(oldv != NULL && parked >= 0);
#endif
	tr_check_state(t);    /* the dictionary is exact right after the operation, iterator still parked */

	if (!verif_case_abandon) {
		for (steps = 0; steps < TR_NU + 2; steps++) {
			key = trie_iter_next(it, &val);
			if (key == NULL) {
				break;
			}
			int idx = -1;
			for (i = 0; i < TR_NU; i++) {
				if (key == tr_ukeys[i]) {
					idx = (int)i;
				}
			}
			POST(idx >= 0 && (before[idx] || TD[idx] != NULL), "iteration returns no key that was never present");
			if (idx >= 0) {
				seen[idx]++;
			}
		}
		POST(key == NULL, "the iteration terminates");
		for (i = 0; i < TR_NU; i++) {
			if (before[i] && TD[i] != NULL) {
				POST(seen[i] >= 1, "every key present during the whole iteration is returned");
			}
#ifdef V_RM
			POST(seen[i] <= 1, "with removals only, no key is returned twice");
#endif
		}
		COVER(1);
	}
	trie_iter_free(it);
	if (parked >= 0) {
		TD_iters[parked] = 0;
	}
	tr_check_state(t);    /* once the iterator is gone the trie is exactly the dictionary of the surviving entries */
}

void harness(void)
{
	VERIF_ND(uint8_t, nd_state);
	VERIF_ND(uint8_t, nd_probe);
	VERIF_ND(uint8_t, nd_steps);
	VERIF_ND(uint8_t, nd_abandon);
	unsigned p, s, a;
	for (a = 0; a < 2; a++) {
		for (s = 1; s < 2; s++) {
			for (p = 0; p < TR_NU; p++) {
				if (nd_probe == p && nd_steps == s && nd_abandon == a) {
					verif_case_probe = p;
					verif_case_steps = s;
					verif_case_abandon = a;
					TR_ENUM_STATES(nd_state, verif_case);
				}
			}
		}
	}
}
