/*UNIT
{"props": ["C17"], "src": ["lib/trie.c", "lib/map.c"], "mode": "plain", "kind": "bounded",
 "bound": "key universe {b, bc, bcd, bd, c}; tries built by the real qb_trie_create/trie_put holding {}, {bc}, {b,bc}, {bcd,bd} (empty, one segment node, a key that is a prefix of another, a split segment); before the call 2 global registrations {f1 FREE ud0, f1 DELETED|REPLACED|INSERTED|RECURSIVE ud1}; the new registration is attached to key NULL, b or bc (present, absent with or without a node of its own) with events DELETED|REPLACED|INSERTED with and without RECURSIVE, or FREE, or is identical to an existing one; the registration's own allocation succeeds or fails; ONE qb_map_notify_add, then ONE rm (key present) or put (key absent) of a key that is the same / an extension / a prefix / unrelated; a key whose anchor would have to split a segment at the END of the key (b in {bc}; bc in {bcd,bd}) is not tried (tool limit, as in map.tr_ops); children-array loops unwound 34 times (ASCII keys: 30 slots)",
 "unwind": 34, "object_bits": 12, "cbmc_flags": ["--no-malloc-may-fail"],
 "functions": ["qb_map_notify_add", "trie_notify_add", "trie_lookup", "trie_insert", "trie_node_split", "new_child_node", "trie_new_node", "trie_notify", "trie_rm", "trie_put", "trie_node_deref", "trie_node_destroy", "trie_node_release"],
 "restrict_fp": ["trie_notify.function_pointer_call.1/verif_notify_cb,verif_notify_cb2", "trie_notify.function_pointer_call.2/verif_notify_cb,verif_notify_cb2",
                 "qb_map_notify_add.function_pointer_call.1/trie_notify_add"],
 "stubs": ["map notifier callbacks (two functions; record event, key, old and new value per user-data record)", "calloc/malloc/realloc (scripted: succeed; the registration's own malloc fails in the enumerated no-memory cases)"],
 "expect_classes": ["assertion"], "timeout": 300}
*/
/* qb_map_notify_add on a trie (lib/map.c wrapper + trie_notify_add):
 *  - FREE for a key is refused (-EINVAL); a registration identical in function, events and user data to one already
 *    attached there is refused with -EEXIST and not stored twice; without memory for the registration -ENOMEM: the
 *    dictionary and every existing registration are unchanged in all three cases;
 *  - otherwise 0, and the registration is stored exactly once on the list of the key asked for (the root's list for
 *    key NULL; a key that is absent gets a value-less anchor node) -- the DICTIONARY is unchanged by that: every
 *    universe key still has exactly its value, the count is the same, also when anchoring splits a segment;
 *  - then ONE removal / insertion of key X calls every registration in force exactly once per event it subscribed
 *    to when it is attached to X itself, or to a prefix of X (NULL: every key) WITH the RECURSIVE flag, never
 *    otherwise; the value-release notifier once per value that leaves; right key, old and new value.
 * Whole-map registrations carry RECURSIVE here (without it a trie delivers them for no key at all; the property
 * does not say what a non-recursive whole-map registration subscribes to -- reported, not decided).
 * Not covered: allocation failures inside trie_insert (anchor creation), as for trie_put. */
#include "tr_world.h"
#include "map.c"
#include "not_reg.h"

#define EV_ALL3 (QB_MAP_NOTIFY_DELETED | QB_MAP_NOTIFY_REPLACED | QB_MAP_NOTIFY_INSERTED)
#define K_NULL (-1)

/* registration key K (universe index or K_NULL) applies to an event on universe key x */
static int reg_applies(int where, int32_t events, unsigned x)
{
	if (where == (int)x) {
		return 1;
	}
	if (!(events & QB_MAP_NOTIFY_RECURSIVE)) {
		return 0;
	}
	if (where == K_NULL) {
		return 1;
	}
	/* proper prefix: strings of the universe are short */
	{
		const char *p = tr_ukeys[where], *k = tr_ukeys[x];
		unsigned i;
		for (i = 0; i < 4; i++) {
			if (p[i] == 0) {
				return 1;
			}
			if (p[i] != k[i]) {
				return 0;
			}
		}
	}
	return 0;
}

static void tr_check_calls(uint32_t ev, unsigned x, void *oldv, void *newv)
{
	unsigned r, i;
	int e;
	int dr = (ev == QB_MAP_NOTIFY_DELETED || ev == QB_MAP_NOTIFY_REPLACED);
	for (r = 0; r < VERIF_MAXNOT; r++) {
		struct verif_not_rec *rec = &verif_not[r];
		int want_ev = 0, want_free = 0;
		for (i = 0; i < VERIF_MAXREG; i++) {
			if (i < VR_n && !VR[i].gone && VR[i].ud == (void *)rec) {
				if ((VR[i].events & (int32_t)ev) && reg_applies(VR[i].where, VR[i].events, x)) {
					want_ev++;
				}
				if (dr && VR[i].where == K_NULL && (VR[i].events & QB_MAP_NOTIFY_FREE)) {
					want_free++;
				}
			}
		}
		POST(rec->calls[VERIF_EV_DELETED] == (ev == QB_MAP_NOTIFY_DELETED ? want_ev : 0),
		     "a registered notifier is called exactly once per deletion it subscribed to; a deleted or refused one never");
		POST(rec->calls[VERIF_EV_REPLACED] == (ev == QB_MAP_NOTIFY_REPLACED ? want_ev : 0),
		     "a registered notifier is called exactly once per replacement it subscribed to; a deleted or refused one never");
		POST(rec->calls[VERIF_EV_INSERTED] == (ev == QB_MAP_NOTIFY_INSERTED ? want_ev : 0),
		     "a registered notifier is called exactly once per insertion it subscribed to; a deleted or refused one never");
		POST(rec->calls[VERIF_EV_FREE] == want_free, "the value-release notifier is called exactly once for every value that leaves the map");
		POST(rec->calls[VERIF_EV_OTHER] == 0, "a notifier is only called with a single documented event");
		for (e = 0; e < 4; e++) {
			if (rec->calls[e] > 0) {
				POST(rec->key[e] != NULL && spec_streq8(rec->key[e], tr_ukeys[x]), "notifier receives the right key");
				POST(rec->oldv[e] == oldv && rec->newv[e] == newv, "notifier receives the right old and new value");
			}
		}
	}
}

static const unsigned st_mask[4] = { 0u, 2u, 3u, 12u };
struct add_req { int key; int32_t events; int clone; int fail; int x; };
/* (registration key, events, clone of the global ALL|RECURSIVE registration, no memory, key of the follow-up operation) */
static const struct add_req reqs[16] = {
	{ 0, EV_ALL3, 0, 0, 0 },                               /* on b, exact; event on b */
	{ 0, EV_ALL3, 0, 0, 1 },                               /* on b, exact; event on bc: not delivered */
	{ 0, EV_ALL3 | QB_MAP_NOTIFY_RECURSIVE, 0, 0, 1 },     /* on b, recursive; event on bc */
	{ 0, EV_ALL3 | QB_MAP_NOTIFY_RECURSIVE, 0, 0, 4 },     /* on b, recursive; event on c: not delivered */
	{ 1, EV_ALL3, 0, 0, 1 },                               /* on bc, exact; event on bc */
	{ 1, EV_ALL3, 0, 0, 2 },                               /* on bc, exact; event on bcd: not delivered */
	{ 1, EV_ALL3 | QB_MAP_NOTIFY_RECURSIVE, 0, 0, 2 },     /* on bc, recursive; event on bcd */
	{ 1, EV_ALL3 | QB_MAP_NOTIFY_RECURSIVE, 0, 0, 0 },     /* on bc, recursive; event on its prefix b: not delivered */
	{ K_NULL, EV_ALL3 | QB_MAP_NOTIFY_RECURSIVE, 0, 0, 1 },/* whole map, other user data */
	{ K_NULL, EV_ALL3 | QB_MAP_NOTIFY_RECURSIVE, 1, 0, 1 },/* whole map, identical to the existing one: refused */
	{ K_NULL, QB_MAP_NOTIFY_FREE, 0, 0, 1 },               /* a second value-release registration (same mask) */
	{ K_NULL, QB_MAP_NOTIFY_FREE | QB_MAP_NOTIFY_DELETED | QB_MAP_NOTIFY_RECURSIVE, 0, 0, 1 },
	{ 1, QB_MAP_NOTIFY_FREE, 0, 0, 1 },                    /* FREE for a key: refused */
	{ K_NULL, QB_MAP_NOTIFY_DELETED | QB_MAP_NOTIFY_RECURSIVE, 0, 1, 1 },   /* no memory */
	{ 1, EV_ALL3, 0, 1, 1 },                               /* no memory (only tried when bc has a node: no anchor needed) */
	{ 1, QB_MAP_NOTIFY_DELETED, 0, 0, 3 } };               /* on bc; event on bd: not delivered */

/* the key ends in the middle of a node's segment: anchoring it makes trie_insert split the node and add a child for
 * the terminating NUL (a 128-slot children array); CBMC's symbolic execution does not get through these layouts in
 * 300 s (measured here with unwind 132; same limit as TR_SKIP_STATE in tr_world.h) */
static int tr_ends_midseg(struct trie *t, const char *k)
{
	struct trie_node *n = t->header;
	uint32_t seg = 0;
	unsigned i;
	for (i = 0; i < 8; i++) {
		if (k[i] == 0) {
			break;
		}
		if (seg < n->num_segments) {
			if (n->segment[seg] != k[i]) {
				return 0;
			}
			seg++;
		} else {
			uint32_t idx = (uint32_t)(127 - (signed char)k[i]);
			if (n->children == NULL || idx >= n->num_children || n->children[idx] == NULL) {
				return 0;
			}
			n = n->children[idx];
			seg = 0;
		}
	}
	return seg < n->num_segments;
}

static void verif_case(unsigned st, unsigned rq)
{
	struct add_req q = reqs[rq];
	struct trie *t = tr_build(st_mask[st], 0);
	struct trie_node *kn;
	qb_map_notify_fn fn = verif_notify_cb;
	void *ud = q.clone ? (void *)&verif_not[1] : (void *)&verif_not[7];
	const char *key = q.key == K_NULL ? NULL : tr_ukeys[q.key];
	int32_t r;
	int stored = 0, free_clash;
	unsigned x = (unsigned)q.x;

	verif_reg_reset();
	verif_reg_snapshot(t->header->notifier_head, K_NULL);
	kn = key ? tr_spec_find(t, key) : t->header;
	if (key != NULL && !(q.events & QB_MAP_NOTIFY_FREE) && tr_ends_midseg(t, key)) {
		return;
	}
	if (q.fail && kn == NULL) {
		return;     /* the anchor node would have to be allocated first: allocation failure inside trie_insert is not covered */
	}
	free_clash = (q.key == K_NULL && q.events == QB_MAP_NOTIFY_FREE);
	verif_alloc_fail = q.fail;

	r = qb_map_notify_add(&t->map, key, fn, q.events, ud);

	verif_alloc_fail = 0;
	if (key != NULL && (q.events & QB_MAP_NOTIFY_FREE)) {
		COVER(1);
		POST(r == -EINVAL, "the value-release notifier can only be registered for the whole map (key NULL)");
	} else if (q.clone) {
		COVER(1);
		POST(r == -EEXIST, "adding the same function, events and user data again is refused");
	} else if (free_clash) {
		COVER(r == -EEXIST);
		POST(r == -EEXIST || r == 0, "a second value-release registration is refused or stored");
		stored = (r == 0);
	} else if (q.fail) {
		COVER(key != NULL);
		COVER(key == NULL);
		POST(r == -ENOMEM, "without memory the notifier is not added and -ENOMEM is reported");
	} else {
		COVER(key == NULL);
		COVER(key != NULL && kn == NULL);
		COVER(key != NULL && kn != NULL && kn->value != NULL);
		COVER(key != NULL && kn != NULL && kn->value == NULL);
		POST(r == 0, "a new notifier registration is accepted");
		stored = 1;
	}
	POST(verif_not_total == 0, "registering a notifier calls no notifier");
	tr_check_state(t);      /* the dictionary is what it was */

	verif_reg_check_list(t->header->notifier_head, K_NULL, stored && key == NULL, fn, q.events, ud);
	if (key != NULL) {
		kn = tr_spec_find(t, key);
		POST(!stored || kn != NULL, "a notifier added for a key is attached to that key");
		if (kn != NULL) {
			verif_reg_check_list(kn->notifier_head, q.key, stored, fn, q.events, ud);
		}
	}

	/* one dictionary operation on universe key x */
	if (TD[x] != NULL) {
		void *oldv = TD[x];
		int32_t rr = trie_rm(&t->map, tr_ukeys[x]);
		POST(rr != QB_FALSE, "remove reports success when the key was present");
		TD[x] = NULL;
		COVER(stored && key != NULL && (int)x == q.key);
		COVER(stored && key != NULL && (int)x != q.key && (q.events & QB_MAP_NOTIFY_RECURSIVE));
		COVER(stored && key != NULL && (int)x != q.key && !(q.events & QB_MAP_NOTIFY_RECURSIVE));
		tr_check_calls(QB_MAP_NOTIFY_DELETED, x, oldv, NULL);
	} else {
		void *v = &tr_newcell;
		if (tr_ends_midseg(t, tr_ukeys[x])) {
			return;     /* same tool limit for the follow-up put */
		}
		trie_put(&t->map, tr_ukeys[x], v);
		TD[x] = v;
		COVER(stored && key != NULL && (int)x == q.key);
		COVER(stored && key == NULL);
		tr_check_calls(QB_MAP_NOTIFY_INSERTED, x, NULL, v);
	}
	tr_check_state(t);
}

#ifndef CASE_FROM
#define CASE_FROM 0
#endif
#ifndef CASE_TO
#define CASE_TO 100000
#endif
void harness(void)
{
	VERIF_ND(uint8_t, nd_case);
	unsigned c = 0, st, rq;
	for (st = 0; st < 4; st++) {
		for (rq = 0; rq < 16; rq++) {
			if (c >= CASE_FROM && c < CASE_TO && nd_case == c) {
				verif_case(st, rq);
			}
			c++;
		}
	}
}
