/* Ghost for the destroy units (C17): a notifier callback that files every call under (call record, entry, event),
 * so that "exactly once for every value that leaves the map, including at destroy" can be checked per ENTRY when
 * one qb_map_destroy releases several of them.  The harness lists the entries (key object, value) in VD_key/VD_val
 * before the call.  Include after map_ghost.h. */
#ifndef VERIF_DESTROY_GHOST_H
#define VERIF_DESTROY_GHOST_H

#define VD_MAXNODE 4
const char *VD_key[VD_MAXNODE];
void *VD_val[VD_MAXNODE];
unsigned VD_n;
int VD_calls[VERIF_MAXNOT][VD_MAXNODE][5];
int VD_bad_key;      /* calls whose key is not the key of an entry of the map (NULL, or a foreign pointer) */
int VD_bad_val;      /* calls whose old value is not that entry's value, or whose new value is not "nothing" */
int VD_bad_rec;      /* calls whose user data is not a call record */
int VD_total;

static void verif_destroy_ghost_reset(void)
{
	unsigned r, j, e;
	VD_n = 0;
	VD_bad_key = VD_bad_val = VD_bad_rec = VD_total = 0;
	for (r = 0; r < VERIF_MAXNOT; r++) {
		for (j = 0; j < VD_MAXNODE; j++) {
			for (e = 0; e < 5; e++) {
				VD_calls[r][j][e] = 0;
			}
		}
	}
}

static void verif_destroy_entry(const char *key, void *value)
{
	VD_key[VD_n] = key;
	VD_val[VD_n] = value;
	VD_n++;
}

static void verif_destroy_cb(uint32_t event, char *key, void *old_value, void *value, void *user_data)
{
	int e = event == QB_MAP_NOTIFY_DELETED ? VERIF_EV_DELETED : event == QB_MAP_NOTIFY_REPLACED ? VERIF_EV_REPLACED :
		event == QB_MAP_NOTIFY_INSERTED ? VERIF_EV_INSERTED : event == QB_MAP_NOTIFY_FREE ? VERIF_EV_FREE : VERIF_EV_OTHER;
	int rec = -1, ent = -1;
	unsigned r, j;
	VD_total++;
	for (r = 0; r < VERIF_MAXNOT; r++) {
		if (user_data == (void *)&verif_not[r]) {
			rec = (int)r;
		}
	}
	for (j = 0; j < VD_MAXNODE; j++) {
		if (j < VD_n && key != NULL && key == VD_key[j]) {
			ent = (int)j;
		}
	}
	if (rec < 0) {
		VD_bad_rec++;
		return;
	}
	if (ent < 0) {
		VD_bad_key++;
		return;
	}
	if (old_value != VD_val[ent] || value != NULL) {
		VD_bad_val++;
	}
	VD_calls[rec][ent][e]++;
}
qb_map_notify_fn verif_destroy_cb_keep = verif_destroy_cb;   /* address taken: restrict_fp target */

/* what the property prescribes at destroy for ONE registration (call record rec, event mask events):
 *   applies_to  entry whose own list the registration is on, or -1 for a whole-map (global) registration;
 * every entry still in the map leaves it: DELETED once per entry the registration applies to, FREE once per entry
 * for a whole-map value-release registration, nothing else */
static void verif_destroy_check_reg(int rec, int32_t events, int applies_to)
{
	unsigned j;
	for (j = 0; j < VD_MAXNODE; j++) {
		if (j < VD_n) {
			int applies = (applies_to < 0 || applies_to == (int)j);
			int want_del = applies && (events & QB_MAP_NOTIFY_DELETED) ? 1 : 0;
			int want_free = (applies_to < 0 && (events & QB_MAP_NOTIFY_FREE)) ? 1 : 0;
			POST(VD_calls[rec][j][VERIF_EV_DELETED] == want_del, "at destroy a notifier is called exactly once per deletion it subscribed to and never otherwise");
			POST(VD_calls[rec][j][VERIF_EV_FREE] == want_free, "the value-release notifier is called exactly once for every value that leaves the map, including at destroy");
			POST(VD_calls[rec][j][VERIF_EV_REPLACED] == 0 && VD_calls[rec][j][VERIF_EV_INSERTED] == 0 && VD_calls[rec][j][VERIF_EV_OTHER] == 0,
			     "destroy announces no insertion or replacement");
		}
	}
}

static void verif_destroy_check_args(void)
{
	POST(VD_bad_key == 0, "at destroy notifiers are called only for entries of the map, with the right key");
	POST(VD_bad_val == 0, "at destroy notifiers receive the right old value and no new value");
	POST(VD_bad_rec == 0, "a notifier receives the user data it was registered with");
}
#endif
