/*UNIT
{"props": ["C17"], "src": ["lib/skiplist.c"], "mode": "plain", "kind": "bounded",
 "bound": "skiplist of <= 3 key-ordered nodes with levels <= 2 (10 level patterns), fully linked; keys of length 1..2 (arbitrary bytes); every position of the probed key relative to the nodes (equal to one, or in any gap) enumerated; notifiers none or 2 global + 1 per key",
 "unwind": 12, "object_bits": 12, "cbmc_flags": ["--no-malloc-may-fail"],
 "functions": ["skiplist_get", "skiplist_count_get", "skiplist_lookup", "op_search"],
 "restrict_fp": ["skiplist_notify.function_pointer_call.1/verif_notify_cb", "skiplist_notify.function_pointer_call.2/verif_notify_cb",
                 "skiplist_notify.function_pointer_call.3/verif_notify_cb"],
 "stubs": ["map notifier callback (records calls)", "calloc/malloc (scripted)", "strcmp (declared key order, asserted to agree with the contents)", "random (scripted level)"],
 "expect_classes": ["assertion"], "timeout": 300}
*/
/* skiplist_get(k) / skiplist_count_get on every bounded well-formed list and every key: the value of the latest
 * put if k is present, nothing otherwise; nothing changes; no notifier is called; the count is the number of keys. */
#include "sl_common.h"

static void verif_case(unsigned n, int pat, unsigned nt, unsigned p)
{
	verif_keys_reset();
	char *k = verif_key_new();
	verif_key_register(k, SL_PROBE_RANK(p));
	int gi = SL_PROBE_MATCH(p);
	struct skiplist *l = sl_build(n, pat, nt, gi, 0, -1);

	void *r = skiplist_get(&l->map, k);

	if (gi >= 0) {
		COVER(n == 3 && gi == 2);
		COVER(n == 3 && gi == 1 && SG[1].level == 0);
		POST(r == SG[gi].value, "get returns the value of the latest put for that key");
	} else {
		COVER(n == 0);
		COVER(n == 3 && p == 6);
		COVER(n == 3 && p == 2);
		POST(r == NULL, "get returns nothing for a key that is not present");
	}
	POST(skiplist_count_get(&l->map) == n, "the count call reports the number of keys present");
	POST(verif_not_total == 0, "get calls no notifier");
	sl_check_state(l);
}

void harness(void)
{
	VERIF_ND(uint8_t, nd_case);
	SL_ENUM_CASES(nd_case, verif_case);
}
