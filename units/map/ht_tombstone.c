/*UNIT
{"props": ["C18", "C17"], "src": ["lib/hashtable.c"], "spec": ["hashtable.spec"], "tags": ["split"], "mode": "plain", "kind": "bounded",
 "bound": "8 buckets; the probed bucket holds, in list order, 0 or 1 unrelated node, then a node of key K that was REMOVED while 1 or 2 iterators are parked on it, then a LIVE node of the same key K (K was put again after the removal), 0..1 iterators parked on the live node; keys of length 1..2, arbitrary bytes; notifiers none or 2 global + 1 per node; ONE real operation on K",
 "unwind": 12, "cbmc_flags": ["--no-malloc-may-fail"],
 "functions": ["hashtable_put", "hashtable_get", "hashtable_rm", "hashtable_lookup", "hashtable_rm_with_hash", "hashtable_node_deref", "hashtable_notify"],
 "restrict_fp": ["hashtable_notify.function_pointer_call.1/verif_notify_cb", "hashtable_notify.function_pointer_call.2/verif_notify_cb",
                 "hashtable_notify.function_pointer_call.3/verif_notify_cb"],
 "stubs": ["map notifier callback (records event, key, old and new value per notifier)", "calloc/malloc (scripted: succeed)",
           "strcmp (answers from the declared key order of the enumerated case, asserted to agree with the key contents)"],
 "expect_classes": ["assertion"], "timeout": 300,
 "variants": [{"vname": "put", "defines": ["-DV_PUT"]}, {"vname": "get", "defines": ["-DV_GET"]}, {"vname": "rm", "defines": ["-DV_RM"]}]}
*/
/* C18: "inserting new entries [while iterators are open] never ... corrupts the map ... once the iterators are gone
 * the map again behaves exactly like a dictionary".  The state no other hashtable unit builds: an iterator is parked
 * on key K, K is removed under it (the node stays linked, marked removed) and K is put AGAIN (a new live node is
 * appended behind the removed one).  In this state every operation on K must act on the LIVE node:
 *  put: replaces the live node's value -- no second live node for K (count unchanged, REPLACED announced once);
 *  get: returns the live node's value;
 *  rm : removes the live entry (count - 1), the removed-but-parked node is left to its iterators.
 * (found missing by the seeded change C18-m2: a bucket scan that stops at the first node with an equal key) */
#include "ht_common.h"

static void verif_case(unsigned lead, unsigned notif, int t_iters, int l_iters)
{
	verif_alloc_fail = 0;
	verif_keys_reset();
	char *k = verif_key_new();
	verif_key_register(k, HT_PROBE_RANK);
	uint32_t b = ht_probe_bucket(k);
	/* ht_build places `lead` unrelated nodes and then the removed-but-parked node of K (match = lead) */
	struct hash_table *t = ht_build(b, lead + 1, notif * 2, notif, (int)lead, 0, t_iters);
	int ti = (int)lead, li = (int)lead + 1;
	/* the live node of the same key, appended behind it as hashtable_put does */
	ht_add_node(t, (unsigned)li, b, notif, HT_PROBE_RANK, 1, l_iters);
	HG_n = lead + 2;
	t->count += 1;
	verif_alloc_calls = 0;
	size_t count0 = t->count;
	void *oldv = HG[li].value;
	void *tomb_v = HG[ti].value;
	(void)tomb_v;

#if defined(V_PUT)
	void *v = verif_value_new();
	hashtable_put(&t->map, k, v);
	COVER(lead == 1 && notif == 1);
	COVER(lead == 0 && notif == 0 && l_iters == 1);
	POST(t->count == count0, "replacing the value of a present key leaves the count unchanged (no second entry for the key)");
	POST(verif_alloc_calls == 0, "replacing a value allocates nothing");
	HG[li].value = v;
	ht_check_notified(QB_MAP_NOTIFY_REPLACED, li, k, oldv, v);
	ht_check_state(t);
#elif defined(V_GET)
	void *g = hashtable_get(&t->map, k);
	COVER(lead == 1 && notif == 1);
	COVER(lead == 0);
	POST(g == oldv, "get returns the value of the latest put for the key");
	POST(verif_not_total == 0, "get calls no notifier");
	ht_check_state(t);
#else
	int32_t r = hashtable_rm(&t->map, k);
	COVER(lead == 1 && notif == 1 && l_iters == 0);
	COVER(l_iters == 1);
	POST(r != QB_FALSE, "remove reports success when the key was present");
	HG[li].present = 0;
	if (HG[li].iters == 0) {
		ht_check_notified(QB_MAP_NOTIFY_DELETED, li, k, oldv, NULL);
	} else {
		ht_check_notified_deferred();
	}
	ht_check_state(t);
#endif
}

void harness(void)
{
	VERIF_ND(uint8_t, nd_case);
	unsigned c = 0, lead, notif;
	int ti, li;
	for (lead = 0; lead < 2; lead++) {
		for (notif = 0; notif < 2; notif++) {
			for (ti = 1; ti <= 2; ti++) {
				for (li = 0; li <= 1; li++) {
					if (nd_case == c) {
						verif_case(lead, notif, ti, li);
					}
					c++;
				}
			}
		}
	}
}
