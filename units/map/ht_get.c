/*UNIT
{"props": ["C17", "C18"], "src": ["lib/hashtable.c"], "spec": ["hashtable.spec"], "tags": ["split"], "mode": "plain", "kind": "bounded",
 "bound": "8 buckets; key hashing to bucket 5; that bucket holds <= 3 nodes (distinct keys of length 1..2, arbitrary bytes; every equality pattern between the probed key and the node keys enumerated), <= 2 iterators parked per node, notifiers: none, or 2 global + 1 per key; other buckets arbitrary (never accessed)",
 "unwind": 12, "cbmc_flags": ["--no-malloc-may-fail"],
 "functions": ["hashtable_get", "hashtable_count_get", "hashtable_lookup", "qb_hash_string", "hash_fnv"],
 "restrict_fp": ["hashtable_notify.function_pointer_call.1/verif_notify_cb", "hashtable_notify.function_pointer_call.2/verif_notify_cb",
                 "hashtable_notify.function_pointer_call.3/verif_notify_cb"],
 "stubs": ["map notifier callback (records event, key, old and new value per notifier)", "calloc/malloc (scripted: succeed or fail per enumerated case)",
           "strcmp (answers from the declared key order of the enumerated case, asserted to agree with the key contents)"],
 "expect_classes": ["assertion"], "timeout": 300,
 "variants": [{"vname": "live", "defines": ["-DVERIF_STATE_EXTRA(p,i)=((p)==1)", "-DM_PRESENT=1"]},
              {"vname": "removed", "defines": ["-DV_REMOVED", "-DM_PRESENT=0"]}]}
*/
/* hashtable_get(k) on every well-formed bounded state and every key: returns the value of the latest put
 * of k if k is present, nothing otherwise; changes nothing; calls no notifier; count_get reports the number
 * of keys present.
 *  live   : all nodes present, 0..2 iterators parked on each     (C17, C18)
 *  removed: k was removed while an iterator is parked on its node: get must report nothing (defect #15) */
#include "ht_common.h"

static void verif_case(unsigned nodes, unsigned gnot, unsigned nnot, int match, int m_iters)
{
	verif_alloc_fail = 0;
	verif_keys_reset();
	char *k = verif_key_new();
	verif_key_register(k, HT_PROBE_RANK);
	uint32_t b = ht_probe_bucket(k);
#ifdef V_REMOVED
	if (match < 0) {
		return;
	}
	m_iters = m_iters + 1;   /* a removed key's node only exists while an iterator is parked on it */
#endif
	struct hash_table *t = ht_build(b, nodes, gnot, nnot, match, M_PRESENT, m_iters);
	int gi = match;

	void *r = hashtable_get(&t->map, k);

	if (gi >= 0 && HG[gi].present) {
#ifndef V_REMOVED
		COVER(HG_n == 3 && gi == 2);
		COVER(HG[gi].iters == 1);
#endif
		POST(r == HG[gi].value, "get returns the value of the latest put for that key");
	} else {
#ifdef V_REMOVED
		COVER(gi >= 0 && HG_n == 3);
#else
		COVER(gi < 0 && HG_n == 0);
		COVER(gi < 0 && HG_n == 3);
#endif
		POST(r == NULL, "get returns nothing for a key that is not present");
	}
	POST(verif_not_total == 0, "get calls no notifier");
	POST(hashtable_count_get(&t->map) == HG_other + ht_ghost_present(), "the count call reports the number of keys present");
	ht_check_state(t);
}

void harness(void)
{
	VERIF_ND(uint8_t, nd_case);
	HT_ENUM_CASES(nd_case, verif_case);
}
