/*UNIT
{"props": ["C17", "C18"], "src": ["lib/hashtable.c"], "mode": "plain", "kind": "bounded",
 "bound": "8 buckets; key hashing to bucket 5; probed bucket holds <= 3 nodes (distinct keys of length 1..2, arbitrary bytes), <= 2 iterators parked per node, notifiers: none, or 2 global + 1 per key; other buckets arbitrary (never accessed)",
 "unwind": 6, "unwindset": ["harness.0:9"], "spec": ["hashtable.spec"], "tags": ["split"], "cbmc_flags": ["--no-malloc-may-fail"], "functions": ["hashtable_get", "hashtable_count_get", "hashtable_lookup", "qb_hash_string", "hash_fnv"],
 "restrict_fp": ["hashtable_notify.function_pointer_call.1/verif_notify_cb", "hashtable_notify.function_pointer_call.2/verif_notify_cb",
                 "hashtable_notify.function_pointer_call.3/verif_notify_cb"],
 "stubs": ["map notifier callback (records event, key, old and new value per notifier)", "malloc/calloc (may fail)"],
 "expect_classes": ["assertion"], "timeout": 300,
 "variants": [{"vname": "live", "defines": ["-DVERIF_STATE_EXTRA(p,i)=((p)==1)"]},
              {"vname": "removed", "defines": ["-DV_REMOVED", "-DHT_SHAPE_FROM=2"]}]}
*/
/* hashtable_get(k) on every well-formed bounded state and every key: returns the value of the latest put
 * of k if k is present, nothing otherwise; changes nothing; calls no notifier.
 *  live   : all nodes present, 0..2 iterators parked on each     (C17, C18)
 *  removed: k was removed while an iterator is parked on its node: get must report nothing (defect #15) */
#include "ht_common.h"

static void verif_case(unsigned nodes, unsigned gnot, unsigned nnot)
{
	verif_alloc_never_fails = 1;
	char *k = verif_key_new();
	uint32_t b = ht_probe_bucket(k);
	struct hash_table *t = ht_build(b, nodes, gnot, nnot);
	int gi = ht_ghost_find(k);
#ifdef V_REMOVED
	ASSUME(gi >= 0 && HG[gi].present == 0);
#endif

	void *r = hashtable_get(&t->map, k);

	if (gi >= 0 && HG[gi].present) {
#ifndef V_REMOVED
		COVER(HG_n == 3 && gi == 2);
#endif
#ifndef V_REMOVED
		COVER(HG[gi].iters == 2);
#endif
		POST(r == HG[gi].value, "get returns the value of the latest put for that key");
	} else {
#ifdef V_REMOVED
		COVER(gi >= 0 && HG_n == 3);
#else
		COVER(gi < 0 && HG_n == 0);
		COVER(gi < 0 && HG_n == 3);
#endif
		POST(r == NULL, "get returns nothing for a key that is not present");
	}
	POST(verif_not_total == 0, "get calls no notifier");
	POST(hashtable_count_get(&t->map) == HG_other + ht_ghost_present(), "the count call reports the number of keys present");
	ht_check_state(t);
}

void harness(void)
{
	VERIF_ND(uint8_t, nd_shape);
	unsigned s;
	for (s = HT_SHAPE_FROM; s < HT_SHAPE_TO; s++) {
		if (nd_shape == s) {
			verif_case(HT_SHAPE_NODES(s), HT_SHAPE_GNOT(s), HT_SHAPE_NNOT(s));
		}
	}
}
