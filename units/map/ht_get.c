/*UNIT
{"props": ["C17", "C18"], "src": ["lib/hashtable.c"], "mode": "plain", "kind": "bounded",
 "bound": "8 buckets; key hashing to bucket 5 (anybucket: any); probed bucket holds <= 3 nodes (distinct keys of length 1..2, arbitrary bytes), <= 2 iterators parked per node, <= 2 global and <= 1 per-key notifiers; other buckets arbitrary (never accessed)",
 "unwind": 6, "unwindset": ["harness.0:25"], "functions": ["hashtable_get", "hashtable_lookup", "qb_hash_string", "hash_fnv"],
 "restrict_fp": ["hashtable_notify.function_pointer_call.1/verif_notify_cb", "hashtable_notify.function_pointer_call.2/verif_notify_cb",
                 "hashtable_notify.function_pointer_call.3/verif_notify_cb"],
 "stubs": ["map notifier callback (records event, key, old and new value per notifier)", "malloc/calloc (may fail)"],
 "expect_classes": ["assertion"], "timeout": 300,
 "variants": [{"vname": "noiter", "defines": ["-DVERIF_STATE_EXTRA(p,i)=((i)==0)"]},
              {"vname": "parked", "defines": ["-DVERIF_STATE_EXTRA(p,i)=((p)==1)", "-DV_PARKED"]},
              {"vname": "removed", "defines": ["-DV_REMOVED"]},
              {"vname": "anybucket", "tier": "thorough", "defines": ["-DHT_ANYBUCKET", "-DVERIF_STATE_EXTRA(p,i)=((i)==0)"]}]}
*/
/* hashtable_get(k) on every well-formed bounded state and every key: returns the value of the latest put
 * of k if k is present, nothing otherwise; changes nothing; calls no notifier.
 *  noiter : no iterator is open                                  (C17)
 *  parked : iterators parked on present nodes                    (C18)
 *  removed: k was removed while an iterator is parked on its node: get must report nothing (defect #15) */
#include "ht_common.h"

static void verif_case(unsigned nodes, unsigned gnot, unsigned nnot)
{
	verif_alloc_never_fails = 1;
	char *k = verif_key_new();
	uint32_t b = ht_probe_bucket(k);
	struct hash_table *t = ht_build(b, nodes, gnot, nnot);
	int gi = ht_ghost_find(k);
#ifdef V_REMOVED
	ASSUME(gi >= 0 && HG[gi].present == 0);
#endif
#ifdef V_PARKED
	ASSUME(gi < 0 || HG[gi].iters > 0 || HG_n > 1);
#endif

	void *r = hashtable_get(&t->map, k);

	if (gi >= 0 && HG[gi].present) {
#ifndef V_REMOVED
		COVER(HG_n == 3 && gi == 2);
#endif
#ifdef V_PARKED
		COVER(HG[gi].iters == 2);
#endif
		POST(r == HG[gi].value, "get returns the value of the latest put for that key");
	} else {
#ifdef V_REMOVED
		COVER(gi >= 0 && HG_n == 3);
#else
		COVER(gi < 0 && HG_n == 0);
		COVER(gi < 0 && HG_n == 3);
#endif
		POST(r == NULL, "get returns nothing for a key that is not present");
	}
	POST(verif_not_total == 0, "get calls no notifier");
	ht_check_state(t);
}

void harness(void)
{
	VERIF_ND(uint8_t, nd_shape);
	unsigned s;
	for (s = 0; s < HT_SHAPES; s++) {
		if (nd_shape == s) {
			verif_case(HT_SHAPE_NODES(s), HT_SHAPE_GNOT(s), HT_SHAPE_NNOT(s));
		}
	}
}
