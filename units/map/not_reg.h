/* Ghost table of notifier REGISTRATIONS for the notify_add / notify_del / destroy units (C17).
 * The harness snapshots every notifier list of the hand-built state before the operation (object, list it is
 * on, callback, event mask, user data); after the operation each list is compared with the snapshot:
 *   - every registration that must survive is still linked exactly once, with its fields unchanged;
 *   - every registration that must be gone is no longer linked (and, under CBMC, its object has been released);
 *   - at most the ONE announced new registration is linked in addition, exactly once, with the requested fields.
 * A follow-up dictionary operation then checks the property's own words -- "called exactly once per event it
 * subscribed to" -- against the call records: verif_reg_want() counts, per call record, the registrations the
 * specification says are delivered to.
 * Include after map_ghost.h. */
#ifndef VERIF_NOT_REG_H
#define VERIF_NOT_REG_H

/* a second callback, so that "same events and user data, other function" is a distinct registration */
unsigned verif_cb2_calls;
static void verif_notify_cb2(uint32_t event, char *key, void *old_value, void *value, void *user_data)
{
	verif_cb2_calls++;
	verif_notify_cb(event, key, old_value, value, user_data);
}
qb_map_notify_fn verif_notify_cb2_keep = verif_notify_cb2;   /* address taken: restrict_fp target */

#define VERIF_MAXREG 10
#define VERIF_WHERE_GLOBAL (-1)
struct verif_reg {
	struct qb_map_notifier *obj;
	int where;                   /* VERIF_WHERE_GLOBAL, or the index of the ghost node whose list it is on */
	qb_map_notify_fn fn;
	int32_t events;
	void *ud;
	int gone;                    /* the specification says the operation removed it */
	int seen;
};
struct verif_reg VR[VERIF_MAXREG];
unsigned VR_n;

static void verif_reg_reset(void)
{
	VR_n = 0;
	verif_cb2_calls = 0;
}

static void verif_reg_append(struct qb_map_notifier *f, int where, qb_map_notify_fn fn, int32_t events, void *ud)
{
	VR[VR_n].obj = f;
	VR[VR_n].where = where;
	VR[VR_n].fn = fn;
	VR[VR_n].events = events;
	VR[VR_n].ud = ud;
	VR[VR_n].gone = 0;
	VR[VR_n].seen = 0;
	VR_n++;
}

#define VERIF_LIST_MAX 4
/* snapshot of one notifier list of the pre-state (at most VERIF_LIST_MAX entries) */
static void verif_reg_snapshot(struct qb_list_head *head, int where)
{
	struct qb_list_head *p = head->next;
	unsigned s;
	for (s = 0; s < VERIF_LIST_MAX; s++) {
		if (p != head) {
			struct qb_map_notifier *f = qb_list_entry(p, struct qb_map_notifier, list);
			verif_reg_append(f, where, f->callback, f->events, f->user_data);
			p = p->next;
		}
	}
	ASSUME(p == head);
}

/* the list `head` holds exactly the surviving snapshot registrations of `where`, plus -- iff expect_new -- one
 * new registration (fn, events, ud); returns the new registration's object (or NULL) */
static struct qb_map_notifier *verif_reg_check_list(struct qb_list_head *head, int where, int expect_new,
						    qb_map_notify_fn fn, int32_t events, void *ud)
{
	struct qb_list_head *p = head->next;
	struct qb_map_notifier *added = NULL;
	unsigned s, i, nnew = 0;
	for (i = 0; i < VERIF_MAXREG; i++) {
		if (i < VR_n && VR[i].where == where) {
			VR[i].seen = 0;
		}
	}
	POST(p->prev == head, "the notifier list stays well linked");
	for (s = 0; s < VERIF_LIST_MAX + 1; s++) {
		if (p != head) {
			struct qb_map_notifier *f = qb_list_entry(p, struct qb_map_notifier, list);
			int idx = -1;
			for (i = 0; i < VERIF_MAXREG; i++) {
				if (i < VR_n && VR[i].obj == f && VR[i].where == where) {
					idx = (int)i;
				}
			}
			if (idx >= 0) {
				POST(!VR[idx].gone, "a deleted notifier registration is no longer stored");
				POST(!VR[idx].seen, "a notifier registration is stored exactly once");
				VR[idx].seen = 1;
				POST(f->callback == VR[idx].fn && f->events == VR[idx].events && f->user_data == VR[idx].ud,
				     "the other notifier registrations stay as they were");
			} else {
				nnew++;
				added = f;
				POST(expect_new, "no notifier registration appears that was not added");
				POST(f->callback == fn && f->events == events && f->user_data == ud,
				     "an added notifier is stored with the function, events and user data given");
			}
			POST(p->next->prev == p, "the notifier list stays well linked");
			p = p->next;
		}
	}
	POST(p == head, "the notifier list holds no more registrations than were added");
	POST(nnew == (expect_new ? 1u : 0u), "a notifier added is stored exactly once; a refused one is not stored");
	for (i = 0; i < VERIF_MAXREG; i++) {
		if (i < VR_n && VR[i].where == where && !VR[i].gone) {
			POST(VR[i].seen, "notifier registrations that were not deleted stay registered");
		}
	}
	if (added != NULL) {
		verif_reg_append(added, where, fn, events, ud);
	}
	return added;
}

/* how many registrations the specification delivers to, for call record `rec`:
 *   evbit   the subscription bit looked at (QB_MAP_NOTIFY_DELETED/REPLACED/INSERTED/FREE)
 *   node    ghost node the event happens on (registrations on that node's list and on the global list apply;
 *           QB_MAP_NOTIFY_FREE is delivered on the global list only) */
static int verif_reg_want(const struct verif_not_rec *rec, int32_t evbit, int node)
{
	unsigned i;
	int want = 0;
	for (i = 0; i < VERIF_MAXREG; i++) {
		if (i < VR_n && !VR[i].gone && VR[i].ud == (void *)rec && (VR[i].events & evbit)) {
			if (VR[i].where == VERIF_WHERE_GLOBAL || (VR[i].where == node && evbit != QB_MAP_NOTIFY_FREE)) {
				want++;
			}
		}
	}
	return want;
}

static int verif_reg_want_cb2(uint32_t ev, int node)
{
	unsigned i;
	int want = 0;
	int dr = (ev == QB_MAP_NOTIFY_DELETED || ev == QB_MAP_NOTIFY_REPLACED);
	for (i = 0; i < VERIF_MAXREG; i++) {
		if (i < VR_n && !VR[i].gone && VR[i].fn == verif_notify_cb2) {
			if (VR[i].where == VERIF_WHERE_GLOBAL || VR[i].where == node) {
				want += (VR[i].events & (int32_t)ev) ? 1 : 0;
			}
			if (VR[i].where == VERIF_WHERE_GLOBAL && dr && (VR[i].events & QB_MAP_NOTIFY_FREE)) {
				want++;
			}
		}
	}
	return want;
}

/* after ONE dictionary operation that amounts to event ev (INSERTED / REPLACED / DELETED) on ghost node `node`:
 * every call record shows exactly the calls the registrations now in force subscribed to */
static void verif_reg_check_calls(uint32_t ev, int node, const char *key, void *oldv, void *newv)
{
	unsigned r;
	int e;
	int dr = (ev == QB_MAP_NOTIFY_DELETED || ev == QB_MAP_NOTIFY_REPLACED);
	for (r = 0; r < VERIF_MAXNOT; r++) {
		struct verif_not_rec *rec = &verif_not[r];
		POST(rec->calls[VERIF_EV_DELETED] == (ev == QB_MAP_NOTIFY_DELETED ? verif_reg_want(rec, QB_MAP_NOTIFY_DELETED, node) : 0),
		     "a registered notifier is called exactly once per deletion it subscribed to; a deleted or refused one never");
		POST(rec->calls[VERIF_EV_REPLACED] == (ev == QB_MAP_NOTIFY_REPLACED ? verif_reg_want(rec, QB_MAP_NOTIFY_REPLACED, node) : 0),
		     "a registered notifier is called exactly once per replacement it subscribed to; a deleted or refused one never");
		POST(rec->calls[VERIF_EV_INSERTED] == (ev == QB_MAP_NOTIFY_INSERTED ? verif_reg_want(rec, QB_MAP_NOTIFY_INSERTED, node) : 0),
		     "a registered notifier is called exactly once per insertion it subscribed to; a deleted or refused one never");
		POST(rec->calls[VERIF_EV_FREE] == (dr ? verif_reg_want(rec, QB_MAP_NOTIFY_FREE, node) : 0),
		     "the value-release notifier is called exactly once for every value that leaves the map");
		POST(rec->calls[VERIF_EV_OTHER] == 0, "a notifier is only called with a single documented event");
		for (e = 0; e < 4; e++) {
			if (rec->calls[e] > 0) {
				POST(rec->key[e] != NULL && spec_streq(rec->key[e], key), "notifier receives the right key");
				POST(rec->oldv[e] == oldv && rec->newv[e] == newv, "notifier receives the right old and new value");
			}
		}
	}
	POST((int)verif_cb2_calls == verif_reg_want_cb2(ev, node), "each registered function is called for its own registrations only");
}

#endif
