/*UNIT
{"props": ["C17", "C18"], "src": ["lib/skiplist.c"], "mode": "plain", "kind": "bounded",
 "bound": "skiplist of <= 3 key-ordered nodes with levels <= 2 (10 level patterns), fully linked; the iterator under test is fresh (on the header), parked on any present node, or parked on a node that was removed under it (any gap, sharing its predecessor's forward array); notifiers none or 2 global + 1 per key",
 "unwind": 12, "object_bits": 12, "cbmc_flags": ["--no-malloc-may-fail"],
 "functions": ["skiplist_iter_next", "skiplist_node_next", "skiplist_node_deref", "skiplist_node_destroy", "skiplist_notify"],
 "restrict_fp": ["skiplist_notify.function_pointer_call.1/verif_notify_cb", "skiplist_notify.function_pointer_call.2/verif_notify_cb",
                 "skiplist_notify.function_pointer_call.3/verif_notify_cb"],
 "stubs": ["map notifier callback (records event, key, old and new value per notifier)", "calloc/malloc (scripted)", "strcmp (declared key order)", "random (unused)"],
 "expect_classes": ["assertion"], "timeout": 300,
 "variants": [{"vname": "n012", "defines": ["-DSL_CASE_TO=28"]}, {"vname": "n3", "defines": ["-DSL_CASE_FROM=28"]}]}
*/
/* skiplist_iter_next from ANY iterator position (per-call form of "a complete iteration yields every present key
 * exactly once in ascending key order", C17, and of the iterator clauses of C18): it returns the LEAST present key
 * greater than the position (so ascending, nothing skipped, nothing twice) with its value, or the end when there
 * is none; it parks on that node and releases the node it leaves; a node that had been removed under the
 * iterator is destroyed now and its deletion announced exactly once; the forward array it shares with its
 * predecessor stays intact; no freed memory is touched. */
#include "sl_common.h"

static int verif_case_fresh;

/* position of the iterator under test: fresh -> header; p odd -> present node (p-1)/2; p even -> a removed node in gap p/2 */
static struct skiplist_iter *sl_iter_at(struct skiplist **lp, unsigned n, int pat, unsigned nt, unsigned p, int *pos_idx, int *pos_rank)
{
	struct skiplist *l;
	struct skiplist_iter *it;
	verif_keys_reset();
	if (verif_case_fresh) {
		l = sl_build(n, pat, nt, -1, 0, -1);
		l->header->refcount++;
		SG_header_iters = 1;
		*pos_idx = -1;
		*pos_rank = 0;
	} else if (p % 2) {
		int j = (int)(p - 1) / 2;
		l = sl_build(n, pat, nt, j, 1, -1);
		*pos_idx = j;
		*pos_rank = SG[j].rank;
	} else {
		l = sl_build(n, pat, nt, -1, 0, (int)p / 2);
		*pos_idx = (int)SG_n - 1;
		*pos_rank = SG[*pos_idx].rank;
	}
	it = malloc(sizeof(*it));
	ASSUME(it != NULL);
	it->i.m = &l->map;
	it->n = *pos_idx < 0 ? l->header : SG[*pos_idx].n;
	*lp = l;
	return it;
}

/* the iterator leaves its position: the reference is released; a removed node is then destroyed and its
 * deletion announced exactly once */
static void sl_leave_position(int pos_idx)
{
	if (pos_idx < 0) {
		SG_header_iters--;
		POST(verif_not_total == 0, "leaving the start position announces nothing");
	} else {
		void *oldv = SG[pos_idx].value;
		SG[pos_idx].iters--;
		if (SG[pos_idx].present == 0 && SG[pos_idx].iters == 0) {
			sl_check_notified(QB_MAP_NOTIFY_DELETED, pos_idx, SG[pos_idx].key, oldv, NULL);
		} else {
			POST(verif_not_total == 0, "moving an iterator off a live node announces nothing");
		}
	}
}

static void verif_case(unsigned n, int pat, unsigned nt, unsigned p)
{
	struct skiplist *l;
	int pos_idx, pos_rank, nx;
	void *val = NULL;
	if (verif_case_fresh && p != 0) {
		return;
	}
	if (!verif_case_fresh && n == 0 && pat == 1) {
		return;   /* a torn-down-flagged empty list with a parked node is not a well-formed state (defect S2) */
	}
	struct skiplist_iter *it = sl_iter_at(&l, n, pat, nt, p, &pos_idx, &pos_rank);

	const char *key = skiplist_iter_next(&it->i, &val);

	nx = sl_ghost_next_present(pos_rank);
	if (nx >= 0) {
		COVER(pos_idx < 0);
		COVER(pos_idx >= 0 && SG[pos_idx].present);
		COVER(pos_idx >= 0 && !SG[pos_idx].present);
		POST(key != NULL, "iteration continues while a present key is left");
		if (key != NULL) {
			POST(spec_streq(key, SG[nx].key) && val == SG[nx].value, "iteration returns the least remaining present key (ascending order) with its value");
			POST(it->n == SG[nx].n, "the iterator parks on the node whose key it returns");
		}
		SG[nx].iters++;
	} else {
		COVER(1);
		COVER(pos_idx >= 0 && SG[pos_idx].present);
		COVER(pos_idx >= 0 && !SG[pos_idx].present);
		POST(key == NULL, "iteration reports the end when no present key is left");
		POST(it->n == NULL, "an exhausted iterator holds no node");
	}
	sl_leave_position(pos_idx);
	sl_check_state(l);
}

void harness(void)
{
	VERIF_ND(uint8_t, nd_case);
	VERIF_ND(uint8_t, nd_fresh);
	if (nd_fresh) {
		verif_case_fresh = 1;
		SL_ENUM_CASES(nd_case, verif_case);
	} else {
		verif_case_fresh = 0;
		SL_ENUM_CASES(nd_case, verif_case);
	}
}
