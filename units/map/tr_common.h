/* Common prelude of the trie units (C17/C18): hand-built small tries on the heap (template shapes with
 * CONCRETE key characters per enumerated case -- the characters index the children arrays, so symbolic
 * characters would make every child pointer symbolic), symbolic values and counts. */
#include "os_base.h"
#include <qb/qbmap.h>
#include "verif.h"
#include "alloc_script.h"
#include "map_ghost.h"
#include "trie.c"

#define TR_NCHILD 30
static struct trie_node *tr_node_new(struct trie *t, struct trie_node *parent, char ch, char *key, void *value, uint32_t refcount)
{
	struct trie_node *n = malloc(sizeof(*n));
	uint32_t i;
	ASSUME(n != NULL);
	n->idx = parent ? (uint32_t)TRIE_CHAR2INDEX(ch) : 0;
	n->segment = NULL;
	n->num_segments = 0;
	n->key = key;
	n->value = value;
	n->children = NULL;
	n->num_children = 0;
	n->refcount = refcount;
	n->parent = parent;
	n->notifier_head = malloc(sizeof(struct qb_list_head));
	ASSUME(n->notifier_head != NULL);
	qb_list_init(n->notifier_head);
	if (parent) {
		if (parent->children == NULL) {
			/* what new_child_node allocates for characters with index < 30 (printable ASCII >= 'b') */
			parent->num_children = TR_NCHILD;
			parent->children = malloc(TR_NCHILD * sizeof(struct trie_node *));
			ASSUME(parent->children != NULL);
			ASSUME(n->idx < TR_NCHILD);
			for (i = 0; i < TR_NCHILD; i++) {
				parent->children[i] = NULL;
			}
		}
		parent->children[n->idx] = n;
	}
	t->num_nodes++;
	return n;
}

static struct trie *tr_new(void)
{
	struct trie *t = malloc(sizeof(*t));
	ASSUME(t != NULL);
	verif_alloc_fail = 0;
	verif_not_reset();
	t->map.put = trie_put;
	t->map.get = trie_get;
	t->map.rm = trie_rm;
	t->map.count_get = trie_count_get;
	t->map.iter_create = trie_iter_create;
	t->map.iter_next = trie_iter_next;
	t->map.iter_free = trie_iter_free;
	t->map.destroy = trie_destroy;
	t->map.notify_add = trie_notify_add;
	t->map.notify_del = trie_notify_del;
	t->length = 0;
	t->num_nodes = 0;
	t->mem_used = 0;
	t->header = tr_node_new(t, NULL, 0, NULL, NULL, 0);
	return t;
}

static char *tr_key2(char c0, char c1)
{
	char *k = malloc(3);
	ASSUME(k != NULL);
	k[0] = c0; k[1] = c1; k[2] = 0;
	return k;
}

/* specification-level lookup for keys of length 1..2 in a trie without segments */
static struct trie_node *tr_spec_node(struct trie *t, const char *k)
{
	struct trie_node *n = t->header;
	uint32_t i0 = (uint32_t)TRIE_CHAR2INDEX(k[0]);
	if (n->children == NULL || i0 >= n->num_children || n->children[i0] == NULL) return NULL;
	n = n->children[i0];
	if (k[1] == 0) return n;
	uint32_t i1 = (uint32_t)TRIE_CHAR2INDEX(k[1]);
	if (n->children == NULL || i1 >= n->num_children || n->children[i1] == NULL) return NULL;
	return n->children[i1];
}
static void *tr_spec_get(struct trie *t, const char *k)
{
	struct trie_node *n = tr_spec_node(t, k);
	return n ? n->value : NULL;
}
