/*UNIT
{"props": ["C17", "C18"], "src": ["lib/hashtable.c"], "spec": ["hashtable.spec"], "tags": ["split"], "mode": "plain", "kind": "bounded",
 "bound": "8 buckets; key hashing to bucket 5; that bucket holds <= 3 nodes (distinct keys of length 1..2, arbitrary bytes; every equality pattern between the probed key and the node keys enumerated), <= 2 iterators parked per node, notifiers: none, or 2 global + 1 per key; other buckets arbitrary (never accessed)",
 "unwind": 12, "cbmc_flags": ["--no-malloc-may-fail"],
 "functions": ["hashtable_put", "hashtable_notify", "qb_hash_string", "hash_fnv"],
 "restrict_fp": ["hashtable_notify.function_pointer_call.1/verif_notify_cb", "hashtable_notify.function_pointer_call.2/verif_notify_cb",
                 "hashtable_notify.function_pointer_call.3/verif_notify_cb"],
 "stubs": ["map notifier callback (records event, key, old and new value per notifier)", "calloc/malloc (scripted: succeed or fail per enumerated case)",
           "strcmp (answers from the declared key order of the enumerated case, asserted to agree with the key contents)"],
 "expect_classes": ["assertion"], "timeout": 300,
 "variants": [{"vname": "live", "defines": ["-DVERIF_STATE_EXTRA(p,i)=((p)==1)", "-DM_PRESENT=1"]},
              {"vname": "removed", "defines": ["-DV_REMOVED", "-DM_PRESENT=0"]}]}
*/
/* hashtable_put(k, v) on every well-formed bounded state, every key and value:
 *  k present : the value is replaced (get would now return v), the count is unchanged, the replacement is
 *              announced exactly once (REPLACED to subscribed global and per-key notifiers, FREE with the old
 *              value to the value-release notifier);
 *  k absent  : k becomes present with value v, the count grows by one, the insertion is announced exactly once
 *              to the subscribed global notifiers; if no memory is available nothing changes;
 *  every other entry is untouched (other buckets are never accessed).
 *  live   : all nodes present, 0..2 iterators parked on each                (C17, C18)
 *  removed: k was removed while an iterator is parked on its node: put must INSERT it again (count + 1,
 *           INSERTED announced) -- defect #15: the zombie node is "replaced" instead */
#include "ht_common.h"

static int verif_case_alloc_fails;   /* concrete per enumerated case: the node allocation of this put fails */

static void verif_case(unsigned nodes, unsigned gnot, unsigned nnot, int match, int m_iters)
{
	verif_alloc_fail = 0;
	verif_keys_reset();
	char *k = verif_key_new();
	verif_key_register(k, HT_PROBE_RANK);
	uint32_t b = ht_probe_bucket(k);
#ifdef V_REMOVED
	if (match < 0) {
		return;
	}
	m_iters = m_iters + 1;   /* a removed key's node only exists while an iterator is parked on it */
#endif
	void *v = verif_value_new();
	struct hash_table *t = ht_build(b, nodes, gnot, nnot, match, M_PRESENT, m_iters);
	int gi = match;
	size_t count0 = t->count;
	verif_alloc_fail = verif_case_alloc_fails;

	hashtable_put(&t->map, k, v);

	if (gi >= 0 && HG[gi].present) {
		void *oldv = HG[gi].value;
#ifndef V_REMOVED
		COVER(HG_n == 3 && gi == 1);
		COVER(HG[gi].iters == 1);
		COVER(HG[gi].notidx >= 0 && HG_gnot == 2);
#endif
		HG[gi].value = v;
		ht_check_notified(QB_MAP_NOTIFY_REPLACED, gi, k, oldv, v);
		POST(verif_alloc_calls == 0, "replacing a value allocates nothing");
		ht_check_state(t);
	} else if (gi < 0) {
		if (verif_alloc_fail) {
#ifndef V_REMOVED
			COVER(1);
#endif
			POST(verif_not_total == 0, "a put that fails for lack of memory announces nothing");
		} else {
			struct hash_node *nn = ht_find_new(t, b);
#ifndef V_REMOVED
			COVER(HG_n == 3);
			COVER(HG_n == 0 && HG_gnot == 2);
#endif
			POST(nn != NULL, "put of an absent key makes it present");
			if (nn != NULL) {
				HG[HG_n].n = nn;
				HG[HG_n].bucket = b;
				HG[HG_n].key = k;
				HG[HG_n].value = v;
				HG[HG_n].present = 1;
				HG[HG_n].iters = 0;
				HG[HG_n].notidx = -1;
				HG[HG_n].notev = 0;
				HG_n++;
			}
			ht_check_notified(QB_MAP_NOTIFY_INSERTED, -1, k, NULL, v);
		}
		ht_check_state(t);
	} else {
		/* k is not in the dictionary (removed; its node only survives under an iterator): put inserts it */
#ifdef V_REMOVED
		COVER(HG_n == 3);
#endif
		POST(t->count == count0 + 1 || verif_alloc_fail, "put of an absent key makes the count grow by one");
		if (t->count == count0 + 1) {
			ht_check_notified(QB_MAP_NOTIFY_INSERTED, -1, k, NULL, v);
		}
	}
}

void harness(void)
{
	VERIF_ND(uint8_t, nd_case);
	VERIF_ND(uint8_t, nd_alloc_fails);
	if (nd_alloc_fails) {
		verif_case_alloc_fails = 1;
		HT_ENUM_CASES(nd_case, verif_case);
	} else {
		verif_case_alloc_fails = 0;
		HT_ENUM_CASES(nd_case, verif_case);
	}
}
