/*UNIT
{"props": ["C17"], "src": ["lib/hashtable.c", "lib/map.c"], "spec": ["hashtable.spec"], "mode": "plain", "kind": "bounded",
 "bound": "8 buckets, two of them (2 and 5) hold 0..2 nodes each (0..3 entries in all), the others are empty; keys of length 1..2 (arbitrary bytes), values arbitrary; notifiers: none, or 2 global (arbitrary 5-bit event masks, so with and without the value-release and the deletion event) + 1 per key (arbitrary 4-bit masks); variant parked: one of the nodes was removed while an iterator was parked on it and the iterator was never freed; ONE qb_map_destroy",
 "unwind": 18, "cbmc_flags": ["--no-malloc-may-fail"],
 "functions": ["qb_map_destroy", "hashtable_destroy", "hashtable_node_deref_under_bucket", "hashtable_node_deref", "hashtable_node_destroy", "hashtable_notify"],
 "restrict_fp": ["hashtable_notify.function_pointer_call.1/verif_destroy_cb", "hashtable_notify.function_pointer_call.2/verif_destroy_cb",
                 "hashtable_notify.function_pointer_call.3/verif_destroy_cb", "qb_map_destroy.function_pointer_call.1/hashtable_destroy"],
 "stubs": ["map notifier callback (files every call under call record, entry and event)", "free (logs the released object, then really frees)"],
 "expect_classes": ["assertion"], "timeout": 300,
 "variants": [{"vname": "live", "defines": ["-DV_LIVE"]}, {"vname": "parked", "defines": ["-DV_PARKED"]}]}
*/
/* qb_map_destroy on a hashtable (lib/map.c wrapper + hashtable_destroy), from every bounded state:
 *  - every entry still in the map leaves it: its deletion is announced exactly once to the global and to its own
 *    per-key notifiers that subscribed to deletions, and the value-release (FREE) notifier is called exactly once
 *    per entry, with that entry's key and value -- and no notifier is called for anything else;
 *  - no node, notifier registration or the table itself is released twice, and nothing is
 *    touched after it was released (that everything IS released is not part of C17: a leak is not reported) (CBMC's double-free / freed-object checks on the real heap objects);
 *  parked: an entry that was removed while an iterator was parked on it (its deletion has not been announced yet,
 *    the iterator was abandoned without qb_map_iter_free): destroy releases the node and delivers the pending
 *    announcement exactly once. */
#define VERIF_STATE_EXTRA(p, i) ((p) == 1 && (i) == 0)
#include "os_base.h"
#include "free_log.h"
#include "ht_common.h"
#include "map.c"
#include "not_reg.h"
#include "destroy_ghost.h"

static void verif_case(unsigned n1, unsigned n2, unsigned nt, int pos)
{
	unsigned i;
	struct hash_node *nodes[HT_GMAX];
	verif_reg_reset();
	verif_destroy_ghost_reset();
#ifdef V_PARKED
	if (pos < 0) {
		return;
	}
	struct hash_table *t = ht_build2(n1, n2, nt * 2, nt, pos, 0, 1);
#else
	if (pos >= 0) {
		return;
	}
	struct hash_table *t = ht_build2(n1, n2, nt * 2, nt, -1, 1, 0);
#endif
	for (i = 0; i < HG_n; i++) {
		if ((int)i != pos) {
			HG[i].n->refcount = 1;      /* concrete: present, no iterator (what VERIF_STATE_EXTRA assumes) */
			HG[i].n->removed = QB_FALSE;
		}
		nodes[i] = HG[i].n;
		verif_destroy_entry(HG[i].key, HG[i].value);
	}
	verif_reg_snapshot(&t->notifier_head, VERIF_WHERE_GLOBAL);
	for (i = 0; i < HG_n; i++) {
		verif_reg_snapshot(&HG[i].n->notifier_head, (int)i);
	}
	for (i = 0; i < VERIF_MAXREG; i++) {
		if (i < VR_n) {
			VR[i].obj->callback = verif_destroy_cb;
		}
	}

	verif_free_log_reset();
	qb_map_destroy(&t->map);

#ifdef V_LIVE
	COVER(HG_n == 0 && nt == 1);
#endif
	COVER(HG_n == 3 && nt == 1);
	COVER(HG_n == 3 && nt == 0);
	COVER(HG_n == 2 && nt == 1 && (HG_gev[0] & QB_MAP_NOTIFY_FREE) && (HG_gev[1] & QB_MAP_NOTIFY_DELETED));
	COVER(HG_n == 1 && nt == 1 && !(HG_gev[0] & QB_MAP_NOTIFY_FREE) && !(HG_gev[1] & QB_MAP_NOTIFY_FREE));
	for (i = 0; i < 2; i++) {
		if (i < HG_gnot) {
			verif_destroy_check_reg((int)i, HG_gev[i], -1);
		}
	}
	for (i = 0; i < HG_n; i++) {
		if (HG[i].notidx >= 0) {
			verif_destroy_check_reg(HG[i].notidx, HG[i].notev, (int)i);
		}
	}
	verif_destroy_check_args();
	if (nt == 0) {
		POST(VD_total == 0, "without notifiers destroy calls nothing");
	}
	for (i = 0; i < HG_n; i++) {
		POST(verif_freed_times(nodes[i]) <= 1, "destroy releases no node of the map twice");
	}
	for (i = 0; i < VERIF_MAXREG; i++) {
		if (i < VR_n) {
			POST(verif_freed_times(VR[i].obj) <= 1, "destroy releases no notifier registration twice");
		}
	}
	POST(verif_freed_times(t) <= 1, "destroy releases the map object at most once");
	POST(verif_free_n <= VERIF_FREE_LOG_MAX, "AUX: the free log is large enough");
}

void harness(void)
{
	VERIF_ND(uint8_t, nd_case);
	unsigned c = 0, a, b, nt;
	int p;
	for (a = 0; a <= 2; a++) {
		for (b = 0; b <= 2; b++) {
			if (a + b <= 3) {
				for (nt = 0; nt < 2; nt++) {
					for (p = -1; p < (int)(a + b); p++) {
						if (nd_case == c) {
							verif_case(a, b, nt, p);
						}
						c++;
					}
				}
			}
		}
	}
}
