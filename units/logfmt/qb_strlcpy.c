/*UNIT
{"props": ["C13", "C14"], "src": ["lib/strlcpy.c"], "mode": "plain", "kind": "proved",
 "functions": ["strlcpy (libqb's replacement, lib/strlcpy.c)"],
 "stubs": ["strlen (exact for declared strings)", "memcpy (witness form: bounds asserted, range havocked, one witness byte transferred)"],
 "expect_classes": ["assertion"], "timeout": 120, "cbmc_flags": ["--no-malloc-may-fail"]}
*/
/* libqb's own strlcpy, for every source length and every maxlen up to the destination's size: copies
 * min(strlen(src), maxlen - 1) characters and a terminator (nothing when maxlen == 0), writes nothing beyond
 * that terminator, returns strlen(src).  This is the contract the formatting units assume for strlcpy
 * (stubs/str.h, VERIF_STUB_STRLCPY). */
#include "os_base.h"
#include <qb/qbdefs.h>
#include "verif.h"
#include "str.h"
#include "strlcpy.c"

void harness(void)
{
	VERIF_ND(size_t, nd_maxlen);
	VERIF_ND(size_t, nd_srclen);
	VERIF_ND(size_t, nd_wit);
	VERIF_ND(size_t, nd_frame);
	VERIF_ND(uint8_t, nd_srcbyte);
	VERIF_ND(uint8_t, nd_framebyte);
	verif_str_reset();
	ASSUME(nd_maxlen <= 8192 && nd_srclen <= 8192);
	size_t destsz = nd_maxlen == 0 ? 1 : nd_maxlen;
	char *dest = malloc(destsz);
	ASSUME(dest != NULL);
	char *src = verif_mkstr(0, nd_srclen);
	size_t k = nd_maxlen == 0 ? 0 : (nd_srclen < nd_maxlen - 1 ? nd_srclen : nd_maxlen - 1);
	ASSUME(nd_wit < destsz && nd_frame < destsz);
	if (nd_wit < k) {
		ASSUME(nd_srcbyte != 0);
		src[nd_wit] = (char)nd_srcbyte;
	}
	verif_wit_ptr = dest + nd_wit;
	dest[nd_frame] = (char)nd_framebyte;

	size_t rc = strlcpy(dest, src, nd_maxlen);

	COVER(nd_maxlen == 0); COVER(nd_maxlen == 1); COVER(nd_srclen >= nd_maxlen && nd_maxlen > 1); COVER(nd_srclen + 1 < nd_maxlen); COVER(nd_wit < k);
	POST(rc == nd_srclen, "strlcpy returns the length of the source");
	if (nd_maxlen > 0) {
		POST(dest[k] == 0, "strlcpy terminates the copy inside maxlen");
		if (nd_wit < k) {
			POST(dest[nd_wit] == (char)nd_srcbyte, "strlcpy copies the leading characters of the source");
		}
	}
	if (nd_maxlen == 0 || nd_frame > k) {
		POST(dest[nd_frame] == (char)nd_framebyte, "strlcpy writes nothing beyond the terminator");
	}
}
