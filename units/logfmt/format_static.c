/*UNIT
{"props": ["C13"], "src": ["lib/log_format.c"], "spec": ["log_format.spec"], "tags": ["loops", "obs"], "mode": "plain",
 "loop_contracts": true, "kind": "proved",
 "functions": ["qb_log_target_format_static", "_strcpy_cutoff (inlined)", "strlcpy (by contract, proved in unit logfmt.qb_strlcpy)"],
 "stubs": ["strlen (exact for declared strings, else terminator-in-object asserted)", "memcpy/memset (witness form)",
           "snprintf (writes <= size bytes, NUL-terminated, any result)", "gethostname (any bytes, may fail, may leave the buffer unterminated)",
           "getpid (any value)", "atoi (any int)", "isdigit (C locale)", "qb_log_target_get (one arbitrary target record)"],
 "defines": ["-DVERIF_STUB_STRLCPY"],
 "expect_classes": ["loop_invariant_step", "assertion"], "timeout": 300, "fallback_unwind": 4, "cbmc_flags": ["--no-malloc-may-fail"]}
*/
/* qb_log_target_format_static (expansion of %P %N %H when a format is set) for EVERY format string whose
 * directives are complete, every target name, every line limit 4 <= M <= 4096, into a buffer of exactly M bytes
 * (the size the function is specified against; the caller's actual buffer is the subject of unit format_set):
 *  - the format is never read past its terminator, nothing is written outside out[0..M),
 *  - the result is NUL-terminated within M;
 *  - unknown directives are copied through (the copied text lies inside the format string).
 * Loop contracts: format index <= strlen(format), output index <= M - 2 at the loop head. */
#include "common.h"

void harness(void)
{
	VERIF_ND(size_t, nd_M);
	VERIF_ND(size_t, nd_fmtlen);
	VERIF_ND(size_t, nd_namelen);
	VERIF_ND(uint8_t, nd_null_format);
	verif_str_reset();
	verif_obs_reset();
	verif_init_tables();
	ASSUME(nd_M >= 4 && nd_M <= 4096);
	ASSUME(nd_fmtlen <= 8192 && nd_namelen < PATH_MAX);
	verif_target.max_line_length = nd_M;
	verif_target.name[nd_namelen] = 0;
	verif_str_declare(S_NAME, verif_target.name, nd_namelen);
	char *fmt = nd_null_format ? NULL : verif_mkstr(S_FMT, nd_fmtlen);
	verif_fmt_len = nd_fmtlen;
	char *out = malloc(nd_M);         /* exactly the configured limit */
	ASSUME(out != NULL);
	out[0] = 'Z';

	qb_log_target_format_static(0, fmt, out);

	size_t n = verif_out_idx;
	if (nd_null_format) {
		COVER(1);
		POST(out[0] == 'Z', "no format: the output buffer is left alone");
	} else {
		COVER(n + 1 >= nd_M);
		COVER(n + 1 < nd_M && n > 0);
		COVER(n == 0);
		COVER(nd_fmtlen > nd_M);
		POST(n + 1 <= nd_M, "the expanded format stays below the configured maximum line length");
		POST(out[n] == 0, "the expanded format is NUL-terminated within the maximum line length");
	}
}
