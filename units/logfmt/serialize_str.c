/*UNIT
{"props": ["C14"], "src": ["lib/log_format.c", "lib/strlcpy.c", "lib/strlcat.c"], "mode": "plain", "kind": "bounded",
 "bound": "format templates with two or three %s, string arguments of 0..6 bytes (symbolic length and contents), constant record space per variant; loops unwound 12 times",
 "unwind": 12,
 "functions": ["qb_vsnprintf_serialize", "my_strlcpy", "strlcpy"],
 "stubs": ["strlen/strchr/strchrnul/memcpy (exact byte loops, stubs/str.h VERIF_STR_LOOPS)"],
 "expect_classes": ["assertion"], "timeout": 200, "cbmc_flags": ["--no-malloc-may-fail"],
 "variants": [
  {"vname": "fits2",  "defines": ["-DV_MAX=24", "-DV_FMT=\"%s%s\"", "-DV_ARGS=s0,s1"]},
  {"vname": "tight2", "defines": ["-DV_MAX=8", "-DV_FMT=\"%s%s\"", "-DV_ARGS=s0,s1"]},
  {"vname": "tight3", "defines": ["-DV_MAX=12", "-DV_FMT=\"%s%s%s\"", "-DV_ARGS=s0,s1,s0"]}]}
*/
/* qb_vsnprintf_serialize with string conversions into a record space of exactly V_MAX bytes: every store stays
 * inside the space and the reported length does not exceed it.
 *   fits2  : "%s%s", 24 bytes -- always enough (5 + 7 + 7)
 *   tight2 : "%s%s", 8 bytes  -- the first string is cut; DESIGN.md 7 #10: the reported length exceeds the space
 *   tight3 : "%s%s%s", 12 bytes -- #10 continued: max_len - location wraps and the third string is stored past
 *            the end of the space */
#include "ser.h"

void harness(void)
{
	VERIF_ND(uint8_t, nd_len0); VERIF_ND(uint8_t, nd_len1);
	char s0[7], s1[7];
	ASSUME(nd_len0 <= 6 && nd_len1 <= 6);
	for (unsigned k = 0; k < 6; k++) { VERIF_ND(uint8_t, nd_ch); ASSUME(nd_ch != 0 && nd_ch != QB_XC); s0[k] = (char)nd_ch; }
	for (unsigned k = 0; k < 6; k++) { VERIF_ND(uint8_t, nd_ch); ASSUME(nd_ch != 0 && nd_ch != QB_XC); s1[k] = (char)nd_ch; }
	s0[nd_len0] = 0; s1[nd_len1] = 0;
	char *rec = malloc(V_MAX);
	ASSUME(rec != NULL);

	size_t rc = call_serialize(rec, V_MAX, V_FMT, V_ARGS);

	COVER(nd_len0 == 0); COVER(nd_len0 == 6 && nd_len1 == 6); COVER(nd_len0 == 6 && nd_len1 == 0);
	POST(rc <= V_MAX, "the encoder reports a record length within the reserved space");
	POST(rc >= 1, "the record holds at least a terminator");
}
