/*UNIT
{"props": ["C13"], "src": ["lib/log_format.c", "lib/strlcpy.c"], "spec": ["log_format.spec"], "tags": ["obs"], "mode": "plain",
 "kind": "bounded", "bound": "the formats x%, x%- and x%<digit> (x any literal character), M = 16, empty texts; loops unwound 5 times",
 "unwind": 5,
 "functions": ["qb_log_target_format", "qb_log_target_format_static"],
 "restrict_fp": ["qb_log_target_format.function_pointer_call.1/verif_tags_fn"],
 "stubs": ["strlen/memcpy/memset/strrchr/atoi (stubs/str.h, witness form)", "snprintf", "localtime_r", "isdigit (C locale)", "pthread_rwlock_* (no-ops)", "qb_log_target_get", "gethostname/getpid"],
 "expect_classes": ["assertion"], "timeout": 120, "cbmc_flags": ["--no-malloc-may-fail"],
  "variants": [{"vname": "dynamic", "defines": ["-DVERIF_ALLOW_INCOMPLETE=1", "-DV_DYNAMIC"]},
              {"vname": "static", "defines": ["-DVERIF_ALLOW_INCOMPLETE=1", "-DV_STATIC", "-DVERIF_WITH_STRLCPY"]}]}
*/
/* The input class split off from units format / format_static (DESIGN.md 7 #5): format strings whose last
 * directive is incomplete -- the text ends right after '%', '%-' or '%<digits>'.  Property clause: the
 * format is never read past its terminator.  Bounded stand-in over the shortest such formats, each
 * character drawn individually so that the native replay can rebuild the string.  Failing obligation on the
 * unchanged tree: "the format string is never read past its terminator". */
#include "common.h"

static const char *verif_tags_fn(uint32_t tags)
{
	return "";
}

void harness(void)
{
	VERIF_ND(uint8_t, nd_len);
	VERIF_ND(uint8_t, nd_f0);
	VERIF_ND(uint8_t, nd_f1);
	VERIF_ND(uint8_t, nd_f2);
	struct qb_log_callsite cs;
	struct timespec ts;
	verif_str_reset();
	verif_obs_reset();
	ASSUME(nd_len >= 2 && nd_len <= 3);
	/* the string sits in front of a two-byte guard ("G", NUL) so that the walk past the terminator is seen by
	 * the observers as a step with index > strlen(format) instead of running on into arbitrary memory */
	char *fmt = malloc((size_t)nd_len + 3);
	ASSUME(fmt != NULL);
	fmt[nd_len + 1] = 'G';
	fmt[nd_len + 2] = 0;
	fmt[0] = (char)nd_f0;
	fmt[1] = (char)nd_f1;
	if (nd_len > 2) fmt[2] = (char)nd_f2;
	fmt[nd_len] = 0;
	/* class: one literal character (so that the line is not empty: that is the separate class of
	 * format.emptyline), then a directive that runs into the terminator */
	ASSUME(nd_f0 != '%' && nd_f0 != 0 && nd_f0 != '\n' && nd_f1 == '%');
	if (nd_len == 3) {
		ASSUME(nd_f2 == '-' || (nd_f2 >= '0' && nd_f2 <= '9'));
	}
	verif_str_declare(S_FMT, fmt, nd_len);
	verif_fmt_len = nd_len;
	verif_target.max_line_length = 16;
	verif_target.ellipsis = 0;
	verif_target.name[0] = 0;
	char *out = malloc(16);
	ASSUME(out != NULL);
	_user_tags_stringify_fn = verif_tags_fn;
#ifdef V_DYNAMIC
	verif_target.format = fmt;
	cs.function = ""; cs.filename = ""; cs.format = ""; cs.priority = 6; cs.lineno = 1; cs.tags = 0; cs.targets = 0;
	ts.tv_sec = 0; ts.tv_nsec = 0;
	qb_log_target_format(0, &cs, &ts, "", out);
#else
	qb_log_target_format_static(0, fmt, out);
#endif
	COVER(nd_len == 2); COVER(nd_len == 3 && nd_f2 == '-'); COVER(nd_len == 3 && nd_f2 == '7');
	COVER(verif_incomplete);
}
