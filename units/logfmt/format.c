/*UNIT
{"props": ["C13"], "src": ["lib/log_format.c"], "spec": ["log_format.spec"], "tags": ["loops", "obs"], "mode": "plain",
 "loop_contracts": true, "kind": "proved",
 "functions": ["qb_log_target_format", "_strcpy_cutoff (inlined)"],
 "restrict_fp": ["qb_log_target_format.function_pointer_call.1/verif_tags_fn"],
 "stubs": ["strlen (exact for declared strings, else terminator-in-object asserted)", "memcpy/memset (witness form)", "strrchr (witness form)",
           "snprintf (writes <= size bytes, NUL-terminated, any result)", "localtime_r (any calendar fields in range)", "atoi (any int)",
           "isdigit (C locale)", "pthread_rwlock_* (sequential no-ops)", "qb_log_target_get (one arbitrary target record)",
           "tags stringify callback (returns some NUL-terminated string)"],
 "expect_classes": ["loop_invariant_step", "assertion"], "timeout": 300, "fallback_unwind": 4, "cbmc_flags": ["--no-malloc-may-fail"],
 "variants": [
  {"vname": "main", "defines": ["-DVERIF_EXIT_CLASS=(verif_out_idx>0&&!VERIF_NLCUT)"]},
  {"vname": "emptyline", "defines": ["-DVERIF_EXIT_CLASS=(verif_out_idx==0)", "-DV_EMPTYLINE"]},
  {"vname": "nlcut", "defines": ["-DVERIF_EXIT_CLASS=VERIF_NLCUT", "-DV_NLCUT"]}]}
*/
/* qb_log_target_format for EVERY format string (any length, any directive order, widths, unknown
 * directives), every message / function / file text, every line limit 4 <= M <= 4096 the formatters are
 * specified for, ellipsis on/off, into a buffer of exactly M bytes:
 *  - the format is never read past its terminator, nothing is written outside out[0..M),
 *  - the line is NUL-terminated within M, and a truncated line ends in "..." when the option is on.
 * Loop contracts: format index <= strlen(format), output index <= M - 2 at the loop head.
 * Case split on the state in which the formatting loop ends (ghost observers, exact):
 *   main      : the line is not empty, and not (ellipsis on and the line was cut right after a literal newline)
 *   emptyline : the line is empty (format "" or only empty fields)                      -> DESIGN.md 7 #7
 *   nlcut     : ellipsis on and the cut falls right after a literal '\n' of the format  -> new finding
 * Formats whose last directive is incomplete ("%", "%-", "%12" at the end) are the separate unit
 * format_trailing (DESIGN.md 7 #5). */
#define VERIF_NLCUT (verif_target.ellipsis && verif_last_lit == '\n' && (size_t)verif_out_idx + 1 >= verif_target.max_line_length)
#include "common.h"

static const char *verif_tags_str;
static const char *verif_tags_fn(uint32_t tags)
{
	return verif_tags_str;
}

void harness(void)
{
	VERIF_ND(size_t, nd_M);
	VERIF_ND(size_t, nd_fmtlen);
	VERIF_ND(size_t, nd_msglen);
	VERIF_ND(size_t, nd_funclen);
	VERIF_ND(size_t, nd_filelen);
	VERIF_ND(size_t, nd_tagslen);
	VERIF_ND(uint8_t, nd_ellipsis);
	VERIF_ND(uint8_t, nd_have_tags_fn);
	VERIF_ND(uint8_t, nd_prio);
	VERIF_ND(uint32_t, nd_lineno);
	VERIF_ND(uint32_t, nd_tags);
	VERIF_ND(int64_t, nd_sec);
	VERIF_ND(int64_t, nd_nsec);
	struct qb_log_callsite cs;
	struct timespec ts;
	verif_str_reset();
	verif_obs_reset();
	verif_init_tables();
	ASSUME(nd_M >= 4 && nd_M <= 4096);
	ASSUME(nd_fmtlen <= 8192 && nd_msglen <= 8192 && nd_funclen <= 256 && nd_filelen <= 4096 && nd_tagslen <= 256);
	ASSUME(nd_nsec >= 0 && nd_nsec < 1000000000);
	verif_target.max_line_length = nd_M;
	verif_target.ellipsis = nd_ellipsis;
	verif_target.format = verif_mkstr(S_FMT, nd_fmtlen);
	verif_fmt_len = nd_fmtlen;
	cs.function = verif_mkstr(S_FUNC, nd_funclen);
	cs.filename = verif_mkstr(S_FILE, nd_filelen);
	cs.format = "%s";
	cs.priority = nd_prio;
	cs.lineno = nd_lineno;
	cs.tags = nd_tags;
	cs.targets = 0;
	ts.tv_sec = nd_sec;
	ts.tv_nsec = nd_nsec;
	char *msg = verif_mkstr(S_MSG, nd_msglen);
	verif_tags_str = verif_mkstr(S_TAGS, nd_tagslen);
	_user_tags_stringify_fn = nd_have_tags_fn ? verif_tags_fn : NULL;
	char *out = malloc(nd_M);         /* exactly the configured limit */
	ASSUME(out != NULL);

	qb_log_target_format(0, &cs, &ts, msg, out);

	size_t n = verif_out_idx;
#ifdef V_EMPTYLINE
	COVER(nd_fmtlen == 0);
	COVER(nd_fmtlen > 0);
	POST(out[0] == 0, "an empty line is delivered as the empty string");
#else
	COVER(n + 1 >= nd_M && nd_ellipsis);
#ifndef V_NLCUT
	COVER(n + 1 >= nd_M && !nd_ellipsis);
	COVER(n + 1 < nd_M);
#endif
	COVER(nd_M == 4);
	COVER(nd_fmtlen > nd_M);
	POST(n + 1 <= nd_M, "the formatted line stays below the configured maximum line length");
	POST(out[n] == 0 || out[n - 1] == 0, "the formatted line is NUL-terminated within the maximum line length");
	if (nd_ellipsis && n + 1 >= nd_M) {
		POST(out[n - 3] == '.' && out[n - 2] == '.' && out[n - 1] == '.', "a truncated line is marked with an ellipsis");
	}
#endif
}
