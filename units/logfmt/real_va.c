/*UNIT
{"props": ["C13"], "src": ["lib/log.c"], "mode": "plain", "kind": "bounded", "bound": "target slots 0..1 in use (conf_active_max < 2), all other slots unused; slot loops unwound 3 times", "unwind": 3, "defines": ["-DVERIF_SLOTS=2", "-DVERIF_VS_FRESH_BUFFER"],
 "variants": [{"vname": "slots2", "unwind": 3, "defines": ["-DVERIF_SLOTS=2", "-DVERIF_VS_FRESH_BUFFER"]},
              {"vname": "slots4_nomarker", "tier": "thorough", "unwind": 5, "bound": "target slots 0..3 in use (conf_active_max < 4); message without extended-information marker; slot loops unwound 5 times", "defines": ["-DVERIF_SLOTS=4", "-DVERIF_VS_FRESH_BUFFER", "-DVERIF_NO_MARKER"]}],
 "functions": ["qb_log_real_va_", "cs_format (inlined)"],
 "restrict_fp": ["qb_log_real_va_.function_pointer_call.1/verif_old_fn", "qb_log_real_va_.function_pointer_call.2/verif_old_fn",
                 "qb_log_real_va_.function_pointer_call.3/verif_vlogger",
                 "qb_log_real_va_.function_pointer_call.4/verif_logger", "qb_log_real_va_.function_pointer_call.5/verif_logger"],
 "stubs": ["vsnprintf (destination writable for size asserted; result chosen by the harness, non-empty)", "strchr (witness form)",
           "malloc (may fail)", "qb_atomic_int_* (sequential)", "qb_util_timespec_from_epoch_get", "qb_log_thread_log_post (records the buffer)",
           "target logger / vlogger callbacks (record what they are handed)"],
 "expect_classes": ["assertion"], "timeout": 300}
*/
/* qb_log_real_va_: for every configuration of the first VERIF_SLOTS target slots (state, limit 4..4096, threaded, logger or
 * vlogger, extended) and every selection mask of the call site, the message is expanded into a buffer that is
 * really as large as the size handed to vsnprintf, and that size is at least the limit of every enabled, selected
 * target that is handed the text (so a target's line is only ever cut at its own limit).  Bounded stand-in: the two
 * slot loops are unwound for conf_active_max < VERIF_SLOTS (32 slots exceed the memory limit).  Message class: non-empty expansion (the
 * empty one is unit cs_format.empty); the legacy internal log function is not installed. */
#include "alloc.h"
#include "logc.h"

size_t verif_M[QB_LOG_TARGET_MAX];
unsigned verif_logger_calls, verif_vlogger_calls;
static void verif_old_fn(const char *file_name, int32_t file_line, int32_t severity, const char *msg) { }
static void verif_vlogger(int32_t t, struct qb_log_callsite *cs, struct timespec *ts, va_list ap) { verif_vlogger_calls++; }
static void verif_logger(int32_t t, struct qb_log_callsite *cs, struct timespec *ts, const char *msg)
{
	verif_logger_calls++;
	POST(t >= 0 && t < QB_LOG_TARGET_MAX, "a logger is called with its own slot number");
	POST(msg == verif_vs_buf && verif_vs_calls == 1, "every target is handed the one expanded message");
	POST(verif_vs_size >= verif_M[t], "the message buffer is at least as long as the limit of each enabled selected target");
}

static void call_real(struct qb_log_callsite *cs, ...)
{
	va_list ap;
	va_start(ap, cs);
	qb_log_real_va_(cs, ap);
	va_end(ap);
}

void harness(void)
{
	VERIF_ND(uint32_t, nd_targets);
	VERIF_ND(uint32_t, nd_active_max);
	VERIF_ND(int32_t, nd_ret);
	VERIF_ND(uint8_t, nd_last);
	struct qb_log_callsite cs;
	verif_str_reset();
	verif_alloc_calls = 0; verif_alloc_never_fails = 0;
	ASSUME(nd_active_max < VERIF_SLOTS);
	ASSUME(nd_ret >= -1 && nd_ret != 0 && nd_ret <= 8192 && nd_last != 0);
	conf_active_max = nd_active_max;
	in_logger = QB_FALSE;
	old_internal_log_fn = NULL;
	for (int i = 0; i < VERIF_SLOTS; i++) {
		VERIF_ND(uint8_t, nd_state);
		VERIF_ND(size_t, nd_M);
		VERIF_ND(uint8_t, nd_threaded);
		VERIF_ND(uint8_t, nd_kind);
		VERIF_ND(uint8_t, nd_extended);
		ASSUME(nd_state <= QB_LOG_STATE_ENABLED && nd_M >= 4 && nd_M <= QB_LOG_ABSOLUTE_MAX_LEN);
		/* every enabled slot lies at or below conf_active_max (invariant of lib/log.c, property C12) */
		ASSUME((uint32_t)i <= nd_active_max || nd_state != QB_LOG_STATE_ENABLED);
		conf[i].pos = i;
		conf[i].state = nd_state;
		conf[i].max_line_length = nd_M;
		conf[i].threaded = nd_threaded & 1;
		conf[i].extended = nd_extended & 1;
		conf[i].vlogger = (nd_kind % 3 == 0) ? verif_vlogger : NULL;
		conf[i].logger = (nd_kind % 3 == 1) ? verif_logger : NULL;
		verif_M[i] = nd_M;
	}
	cs.format = "%s"; cs.function = "f"; cs.filename = "f.c"; cs.priority = 6; cs.lineno = 1; cs.tags = 0;
	cs.targets = nd_targets;
	verif_vs_ret = nd_ret; verif_vs_last = nd_last; verif_vs_calls = 0;
	verif_logger_calls = 0; verif_vlogger_calls = 0; verif_post_calls = 0;
	char *arg = verif_mkstr(0, nd_ret > 0 ? (size_t)nd_ret : 0);
	void *keep = (void *)verif_old_fn;

	call_real(&cs, arg);

	COVER(verif_logger_calls >= 2); COVER(verif_vlogger_calls > 0); COVER(verif_post_calls > 0);
	COVER(verif_vs_calls == 1 && verif_vs_size > QB_LOG_MAX_LEN); COVER(verif_vs_calls == 1 && verif_vs_size <= QB_LOG_MAX_LEN);
	COVER(verif_vs_calls == 0);
	POST(verif_vs_calls <= 1, "the message is expanded at most once");
	if (verif_post_calls > 0) {
		POST(verif_post_buf == verif_vs_buf && verif_vs_calls == 1, "threaded targets are posted the one expanded message");
	}
}
