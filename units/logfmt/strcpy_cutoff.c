/*UNIT
{"props": ["C13"], "src": ["lib/log_format.c"], "mode": "plain", "kind": "proved",
 "functions": ["_strcpy_cutoff"],
 "stubs": ["strlen (exact for declared strings)", "memcpy/memset (witness form: bounds asserted, range havocked, one witness byte transferred)"],
 "expect_classes": ["assertion"], "timeout": 120, "cbmc_flags": ["--no-malloc-may-fail"],
 "variants": [{"vname": "left", "defines": ["-DV_RALIGN=0"]}, {"vname": "right", "defines": ["-DV_RALIGN=1"]}]}
*/
/* _strcpy_cutoff(dest, src, cutoff, ralign, room): the field copy with pad/chop, for EVERY source length,
 * width and remaining room >= 1 (the formatters never hand it less than 2, see units format*.c):
 *  - the field is min(width, room - 1) characters wide (width 0 = the whole text), that is the return value,
 *    so never more than room - 1;
 *  - nothing outside dest[0 .. room) is touched, nothing beyond the terminator dest[n] is written (frame witness);
 *  - for room >= 2 the field is terminated at dest[n];
 *  - content (witness position): the first min(strlen, n) characters of the text, padded with blanks on the
 *    right -- or on the left when the '-' flag is given. */
#include "common.h"

void harness(void)
{
	VERIF_ND(size_t, nd_room);
	VERIF_ND(size_t, nd_srclen);
	VERIF_ND(size_t, nd_width);
	VERIF_ND(size_t, nd_wit);
	VERIF_ND(size_t, nd_frame);
	VERIF_ND(uint8_t, nd_srcbyte);
	VERIF_ND(uint8_t, nd_framebyte);
	int ralign = V_RALIGN;
	verif_str_reset();
	ASSUME(nd_room >= 1 && nd_room <= 4096 && nd_srclen <= 8192);
	char *dest = malloc(nd_room);        /* exactly the announced room */
	ASSUME(dest != NULL);
	char *src = verif_mkstr(0, nd_srclen);

	/* specification, from the documentation ("any number between % and character specify field length to pad or chop") */
	size_t width = nd_width == 0 ? nd_srclen : nd_width;
	size_t n = width < nd_room - 1 ? width : nd_room - 1;         /* clamp to the remaining room */
	size_t copied = nd_srclen < n ? nd_srclen : n;
	size_t pad = n - copied;

	/* witness output position and the source byte that belongs there */
	ASSUME(nd_wit < nd_room);
	size_t srcpos = ralign ? nd_wit - pad : nd_wit;
	int from_src = ralign ? (nd_wit >= pad && nd_wit < n) : (nd_wit < copied);
	if (from_src) {
		ASSUME(nd_srcbyte != 0);
		src[srcpos] = (char)nd_srcbyte;
	}
	verif_wit_ptr = dest + nd_wit;
	/* frame witness: a byte of the room beyond the terminator */
	ASSUME(nd_frame < nd_room);
	dest[nd_frame] = (char)nd_framebyte;

	int rc = _strcpy_cutoff(dest, src, nd_width, ralign, nd_room);

	COVER(nd_room == 1);
	COVER(nd_width == 0 && nd_srclen == 0);
	COVER(nd_width > nd_srclen && n == nd_width);
	COVER(nd_width != 0 && nd_width < nd_srclen);
	COVER(nd_srclen > nd_room);
	COVER(n == nd_room - 1 && nd_room > 1);
	COVER(from_src); COVER(!from_src && nd_wit < n);
	POST(rc >= 0 && (size_t)rc == n, "field copy returns the field width clamped to the remaining room");
	POST((size_t)rc <= nd_room - 1, "field copy never reports more than room - 1 characters");
	if (nd_room >= 2) {
		POST(dest[n] == 0, "field is NUL-terminated inside the remaining room");
	}
	if (nd_wit < n && nd_room >= 2) {
		if (from_src) {
			POST(dest[nd_wit] == (char)nd_srcbyte, "field holds the leading characters of the text at the aligned position");
		} else {
			POST(dest[nd_wit] == ' ', "field is padded with blanks up to the width");
		}
	}
	if (nd_frame > n) {
		POST(dest[nd_frame] == (char)nd_framebyte, "nothing is written beyond the field's terminator");
	}
}
