/* common prelude of the blackbox (de)serialisation units (C14): the real lib/log_format.c with libqb's own
 * strlcpy/strlcat, exact byte-loop string helpers (stubs/str.h, VERIF_STR_LOOPS; the units are bounded) and a
 * recording snprintf for the decoder. */
#include "os_base.h"
#include <ctype.h>
#include <stdarg.h>
#include <qb/qbdefs.h>
#include "log_int.h"
#include "verif.h"
#ifndef VERIF_STR_LOOPS
#define VERIF_STR_LOOPS
#endif
#define VERIF_KEEP_PRINTF
#include "str.h"

static struct qb_log_target verif_target;
static struct qb_log_target *verif_qb_log_target_get(int32_t pos) { return &verif_target; }
#define qb_log_target_get verif_qb_log_target_get

/* ---- snprintf as handed to the decoder: records the one-directive format and the argument of each output call;
 *      the text itself is not modelled (assumption: libc snprintf implements printf): it writes
 *      min(result, size - 1) arbitrary characters and a terminator, result = any would-be length >= 0.
 *      The "%d" call the decoder uses to paste a '*' width into the one-directive format is exact. ---- */
#define VERIF_PF_MAX 4
#ifndef VERIF_PF_RET_MAX
#define VERIF_PF_RET_MAX 64   /* largest would-be length the recording snprintf reports */
#endif
#define MINI_FORMAT_STR_LEN_V 20
#define K_INT 1
#define K_LONG 2
#define K_LLONG 3
#define K_DOUBLE 4
#define K_CHAR 5
#define K_STR 6
#define K_PTR 7
struct verif_pf_call { char fmt[24]; int kind; long long ival; double dval; const char *sval; char *dst; size_t size; int ret; };
struct verif_pf_call verif_pf[VERIF_PF_MAX];
unsigned verif_pf_n;
int verif_pf_script[VERIF_PF_MAX];   /* scripted would-be lengths of the first verif_pf_scripted output calls */
unsigned verif_pf_scripted;
const char *verif_pf_text;          /* the caller's text buffer, when the harness announces it (tells output calls from the width paste) */
size_t verif_pf_total;        /* sum of the would-be lengths handed out */
#ifdef VERIF_CBMC
static int verif_rec_snprintf(char *dst, size_t size, const char *fmt, ...)
{
	va_list ap;
	size_t fl = 0;
	int ls = 0;
	va_start(ap, fmt);
	while (fmt[fl] != 0) { if (fmt[fl] == 'l') ls++; fl++; }
	if (fl == 2 && fmt[0] == '%' && fmt[1] == 'd' && (verif_pf_text != 0 ? !__CPROVER_same_object(dst, verif_pf_text) : size <= MINI_FORMAT_STR_LEN_V)) {
		/* width pasted into the one-directive format: exact decimal text */
		int v = va_arg(ap, int);
		char tmp[12];
		unsigned n = 0, neg = v < 0;
		unsigned u = neg ? 0u - (unsigned)v : (unsigned)v;
		do { tmp[n++] = (char)('0' + u % 10u); u /= 10u; } while (u != 0);
		if (neg) tmp[n++] = '-';
		for (unsigned k = 0; k < n; k++) {
			if (k + 1 < size) dst[k] = tmp[n - 1 - k];
		}
		if (size > 0) dst[n < size ? n : size - 1] = 0;
		va_end(ap);
		return (int)n;
	}
	__CPROVER_assert(verif_pf_n < VERIF_PF_MAX, "AUX: recording snprintf has room for the call");
	struct verif_pf_call *c = &verif_pf[verif_pf_n++];
	for (unsigned k = 0; k < 24; k++) c->fmt[k] = k < fl ? fmt[k] : 0;
	__CPROVER_assert(fl < 24, "AUX: one-directive format fits the record");
	char conv = fl > 0 ? fmt[fl - 1] : 0;
	c->kind = 0; c->ival = 0; c->dval = 0; c->sval = 0;
	if (conv == 's') { c->kind = K_STR; c->sval = va_arg(ap, const char *); }
	else if (conv == 'c') { c->kind = K_CHAR; c->ival = va_arg(ap, unsigned char); }   /* CBMC keeps the unpromoted type of the actual argument */
	else if (conv == 'p') { c->kind = K_PTR; c->ival = (long long)va_arg(ap, ptrdiff_t); }
	else if (conv == 'e' || conv == 'E' || conv == 'f' || conv == 'F' || conv == 'g' || conv == 'G' || conv == 'a' || conv == 'A') { c->kind = K_DOUBLE; c->dval = va_arg(ap, double); }
	else if (ls >= 2 || fmt[fl >= 2 ? fl - 2 : 0] == 'z' || fmt[fl >= 2 ? fl - 2 : 0] == 't' || fmt[fl >= 2 ? fl - 2 : 0] == 'j') { c->kind = K_LLONG; c->ival = va_arg(ap, long long); }
	else if (ls == 1) { c->kind = K_LONG; c->ival = va_arg(ap, long); }
	else { c->kind = K_INT; c->ival = va_arg(ap, int); }
	va_end(ap);
	c->dst = dst; c->size = size;
	VERIF_ND(int32_t, nd_pf_ret);
	__CPROVER_assume(nd_pf_ret >= 0 && nd_pf_ret <= VERIF_PF_RET_MAX);
	/* a harness may script the would-be lengths (so that it can state its input class on them up front and the
	 * native replay, where the real snprintf runs, sees the same lengths) */
	if (verif_pf_n - 1 < verif_pf_scripted) nd_pf_ret = verif_pf_script[verif_pf_n - 1];
	c->ret = nd_pf_ret;
	verif_pf_total += (size_t)nd_pf_ret;
	if (size > 0) {
		__CPROVER_assert(__CPROVER_w_ok(dst, size), "the decoder hands snprintf only space inside the caller's buffer");
		size_t k = (size_t)nd_pf_ret < size ? (size_t)nd_pf_ret : size - 1;
		for (size_t i = 0; i < k; i++) dst[i] = 'x';      /* k printed characters (none of them NUL), then the terminator */
		dst[k] = 0;
	}
	return nd_pf_ret;
}
#define snprintf verif_rec_snprintf
#endif

#include "log_format.c"
#include "strlcpy.c"
#include "strlcat.c"

static size_t call_serialize(char *buf, size_t max_len, const char *fmt, ...)
{
	va_list ap;
	va_start(ap, fmt);
	size_t rc = qb_vsnprintf_serialize(buf, max_len, fmt, ap);
	va_end(ap);
	return rc;
}

static int verif_streq(const char *a, const char *b)
{
	for (unsigned k = 0; k < 24; k++) {
		if (a[k] != b[k]) return 0;
		if (a[k] == 0) return 1;
	}
	return 0;
}
