/*UNIT
{"props": ["C13"], "src": ["lib/log_format.c"], "spec": ["log_format.spec"], "tags": ["obs"], "mode": "plain", "kind": "bounded",
 "bound": "one concrete format string per variant (the format loop is unwound over it); message, function, tags texts of any length <= 4096 with arbitrary characters, 4 <= M <= 4096, any priority, ellipsis on/off",
 "unwind": 16,
 "functions": ["qb_log_target_format", "_strcpy_cutoff"],
 "restrict_fp": ["qb_log_target_format.function_pointer_call.1/verif_tags_fn"],
 "stubs": ["strlen (exact for declared strings)", "memcpy/memset (witness form: the byte at the witness output position is transferred exactly)",
           "atoi (exact digit run)", "isdigit (C locale)", "pthread_rwlock_* (no-ops)", "qb_log_target_get (one arbitrary target record)",
           "tags stringify callback (returns some NUL-terminated string)"],
 "expect_classes": ["assertion"], "timeout": 300, "cbmc_flags": ["--no-malloc-may-fail"],
 "variants": [
  {"vname": "default", "defines": ["-DVERIF_EXACT_ATOI", "-DV_FMT=\"[%p] %b\""]},
  {"vname": "width",   "defines": ["-DVERIF_EXACT_ATOI", "-DV_FMT=\"%5b|%2n\""]},
  {"vname": "ralign",  "defines": ["-DVERIF_EXACT_ATOI", "-DV_FMT=\"%-5n %-2b\""]},
  {"vname": "tags",    "defines": ["-DVERIF_EXACT_ATOI", "-DV_FMT=\"%x%3g\""]},
  {"vname": "literal", "defines": ["-DVERIF_EXACT_ATOI", "-DV_FMT=\"abcdefghijkl\""]},
  {"vname": "static_literal", "defines": ["-DVERIF_EXACT_ATOI", "-DVERIF_STUB_STRLCPY", "-DV_STATIC", "-DV_FMT=\"abcdefg%qhij\""]}]}
*/
/* Directive CONTENT of qb_log_target_format on format templates: the real code (format loop unwound over the
 * concrete template, everything else symbolic) against a reference written from the documentation (qblog.h:
 * %n function, %p priority name, %b message, %g tags; "any number between % and character specify field length
 * to pad or chop"; '-' right-aligns, as the test-suite shows; unknown directives expand to nothing; the line is
 * cut at M - 1 characters and, with the option on, a cut line ends in "...").  Witness form: the character at an
 * arbitrary output position nd_wit must be the one the reference prescribes, and the line must end where the
 * reference ends.  Empty lines are excluded (unit format.emptyline).  Not covered here: %f %l %t %T (libc text). */
#include "common.h"

static const char *verif_tags_str;
static const char *verif_tags_fn(uint32_t tags)
{
	return verif_tags_str;
}

void harness(void)
{
	VERIF_ND(size_t, nd_M);
	VERIF_ND(size_t, nd_msglen);
	VERIF_ND(size_t, nd_funclen);
	VERIF_ND(size_t, nd_tagslen);
	VERIF_ND(uint8_t, nd_ellipsis);
	VERIF_ND(uint8_t, nd_prio);
	VERIF_ND(uint8_t, nd_have_tags_fn);
	VERIF_ND(size_t, nd_wit);
	static char fmt[] = V_FMT;
	static const char *const prio_names[9] = {"emerg", "alert", "crit", "error", "warning", "notice", "info", "debug", "trace"};
	static const size_t prio_len[9] = {5, 5, 4, 5, 7, 6, 4, 5, 5};
	struct qb_log_callsite cs;
	struct timespec ts;
	verif_str_reset();
	verif_obs_reset();
	ASSUME(nd_M >= 4 && nd_M <= 4096);
	ASSUME(nd_msglen <= 4096 && nd_funclen <= 4096 && nd_tagslen <= 4096);
	char *msg = verif_mkstr(S_MSG, nd_msglen);
	char *func = verif_mkstr(S_FUNC, nd_funclen);
	verif_tags_str = verif_mkstr(S_TAGS, nd_tagslen);
	verif_target.max_line_length = nd_M;
	verif_target.ellipsis = nd_ellipsis & 1;
	verif_target.format = fmt;
	verif_str_declare(S_FMT, fmt, sizeof(fmt) - 1);
	verif_fmt_len = sizeof(fmt) - 1;
	cs.function = func; cs.filename = "x.c"; cs.format = "%s"; cs.priority = nd_prio; cs.lineno = 7; cs.tags = 1; cs.targets = 0;
	ts.tv_sec = 0; ts.tv_nsec = 0;
	_user_tags_stringify_fn = (nd_have_tags_fn & 1) ? verif_tags_fn : NULL;
	void *keep = (void *)verif_tags_fn;
	char *out = malloc(nd_M);
	ASSUME(out != NULL);

	/* ---- reference (documentation), witness form: expected character at output position nd_wit and expected length ---- */
	unsigned i = 0;
	size_t o = 0;                    /* characters produced so far, never more than M - 1 */
	int expect = -1;
	while (fmt[i] != 0 && o < nd_M - 1) {
		if (fmt[i] != '%') {
			if (o == nd_wit) expect = (unsigned char)fmt[i];
			o++; i++;
			continue;
		}
		i++;
		int right = 0;
		size_t width = 0;
		if (fmt[i] == '-') { right = 1; i++; }
		while (fmt[i] >= '0' && fmt[i] <= '9') { width = width * 10 + (size_t)(fmt[i] - '0'); i++; }
		char conv = fmt[i];
		i++;
		const char *text = "";
		size_t tl = 0;
		if (conv == 'n') { text = func; tl = nd_funclen; }
		else if (conv == 'b') { text = msg; tl = nd_msglen; }
		else if (conv == 'p') { unsigned pr = nd_prio > 8 ? 8 : nd_prio; text = prio_names[pr]; tl = prio_len[pr]; }
#ifdef V_STATIC
		else if (conv == 'q') { text = "%q"; tl = 2; }
#endif
		else if (conv == 'g') { text = (nd_have_tags_fn & 1) ? verif_tags_str : ""; tl = (nd_have_tags_fn & 1) ? nd_tagslen : 0; }
		if (width == 0) width = tl;
		size_t room = nd_M - 1 - o;                       /* the field is cut at the line limit ... */
		size_t n = width < room ? width : room;
		size_t copied = tl < n ? tl : n;                  /* ... chopped to the width, padded with blanks */
		size_t pad = n - copied;
		if (nd_wit >= o && nd_wit < o + n) {
			size_t j = nd_wit - o;
			if (right) expect = j < pad ? ' ' : (unsigned char)text[j - pad];
			else expect = j < copied ? (unsigned char)text[j] : ' ';
		}
		o += n;
	}
	ASSUME(o > 0);                    /* empty line: unit format.emptyline */
	ASSUME(nd_wit < o);
	ASSUME(expect != '\n' && expect != 0);   /* texts are NUL-free by declaration; a newline at the very end is stripped */
#ifndef V_STATIC
	if ((nd_ellipsis & 1) && o >= nd_M - 1 && nd_wit + 3 >= o) expect = '.';
#endif
	verif_wit_ptr = out + nd_wit;

#ifdef V_STATIC
	/* static expansion (%P %N %H): here only literal text and an unknown directive, which is copied through */
	qb_log_target_format_static(0, fmt, out);
#else
	qb_log_target_format(0, &cs, &ts, msg, out);
#endif

	COVER(o == nd_M - 1 && (nd_ellipsis & 1)); COVER(nd_M == 4); COVER(o == nd_M - 1 && !(nd_ellipsis & 1)); COVER(o < nd_M - 1); COVER(nd_M > 600);
	POST(out[o] == 0 || out[o - 1] == 0, "the formatted line ends where the documented expansion, cut at the limit, ends");
	POST((unsigned char)out[nd_wit] == expect || (nd_wit + 1 == o && out[nd_wit] == 0), "the formatted line equals the text the documented directives prescribe");
}
