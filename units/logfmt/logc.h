/* common prelude of the units over lib/log.c (cs_format, qb_log_real_va_, qb_log_ctl2): the real source with
 * the libc helpers of stubs/str.h and a vsnprintf stub whose result the harness chooses. */
#include "os_base.h"
#include <ctype.h>
#include <stdarg.h>
#include <pthread.h>
#include <string.h>
#include <qb/qbdefs.h>
#include <qb/qblist.h>
#include <qb/qblog.h>
#include <qb/qbutil.h>
#include <qb/qbarray.h>
#include <qb/qbatomic.h>
#include "log_int.h"
#include "util_int.h"
#include <regex.h>
#include "verif.h"
#define VERIF_KEEP_PRINTF
#include "str.h"
#include "atomic.h"

/* vsnprintf as an assumed contract with a result chosen by the harness (verif_vs_ret: the would-be length, or -1):
 * destination writable for `size` ASSERTED; writes min(result, size - 1) arbitrary non-NUL... characters and a
 * terminator when size > 0 (glibc terminates even when it reports an error); nothing when size == 0. */
int verif_vs_ret;
unsigned verif_vs_calls;
char *verif_vs_buf;
size_t verif_vs_size, verif_vs_nul;
uint8_t verif_vs_last;      /* the last character it produces */
#ifdef VERIF_CBMC
static int verif_unit_vsnprintf(char *buf, size_t size, const char *fmt, va_list ap)
{
	verif_vs_calls++;
	verif_vs_buf = buf;
	verif_vs_size = size;
	__CPROVER_assert(__CPROVER_r_ok(fmt, 1), "vsnprintf format readable");
	if (size > 0) {
		size_t k;
		__CPROVER_assert(__CPROVER_w_ok(buf, size), "the message buffer handed to vsnprintf is writable for the given size");
		if (verif_vs_ret >= 0 && (size_t)verif_vs_ret < size) {
			k = (size_t)verif_vs_ret;
		} else if (verif_vs_ret >= 0) {
			k = size - 1;
		} else {
			k = 0;
		}
#ifndef VERIF_VS_FRESH_BUFFER
		__CPROVER_havoc_slice(buf, k + 1);
#else
		/* the unit states that the destination is always a fresh (never written, hence already arbitrary) object */
#endif
		if (k > 0) buf[k - 1] = (char)verif_vs_last;
		buf[k] = 0;
		verif_vs_nul = k;
		verif_str_declare(VERIF_S_TMP, buf, k);
	}
	return verif_vs_ret;
}
#define vsnprintf verif_unit_vsnprintf
#endif

/* log_thread.c / util.c entry points reached from the functions under test */
unsigned verif_post_calls;
const char *verif_post_buf;
static void verif_thread_pause(struct qb_log_target *t) { (void)t; }
static void verif_thread_post(struct qb_log_callsite *cs, struct timespec *ts, const char *buffer) { verif_post_calls++; verif_post_buf = buffer; }
static void verif_timespec_now(struct timespec *ts) { ts->tv_sec = 0; ts->tv_nsec = 0; }
#define qb_log_thread_pause verif_thread_pause
#define qb_log_thread_resume verif_thread_pause
#define qb_log_thread_log_post verif_thread_post
#define qb_util_timespec_from_epoch_get verif_timespec_now

#ifdef VERIF_NO_MARKER
/* input class of a unit variant: the expanded message holds no extended-information marker (QB_XC), so
 * qb_do_extended takes its plain branch; the string search itself is not run */
#undef strchr
#define strchr(s, c) ((char *)0)
#endif
#include "log.c"
