/*UNIT
{"props": ["C14"], "src": ["lib/log_format.c", "lib/strlcpy.c", "lib/strlcat.c"], "mode": "plain", "kind": "bounded",
 "bound": "one format template per variant (<= 3 directives), symbolic argument values, string arguments of 2 and 3 bytes (variant strempty: 0 and 3) with arbitrary characters, record space 40 bytes and decode buffer 32 bytes (both sufficient), decoded text shorter than the buffer; every conversion prints at most 4 characters; loops unwound 30 times",
 "unwind": 30,
 "functions": ["qb_vsnprintf_serialize", "qb_vsnprintf_deserialize", "my_strlcpy", "my_strlcat", "strlcpy", "strlcat"],
 "stubs": ["snprintf (decoder side: records one-directive format and argument; text not modelled: writes min(result,size-1) characters + terminator, any result 0..64; exact for the '*' width paste)",
           "strlen/strchr/strchrnul/memcpy (exact byte loops, stubs/str.h VERIF_STR_LOOPS)"],
 "expect_classes": ["assertion"], "timeout": 150, "cbmc_flags": ["--no-malloc-may-fail"],
 "variants": [
  {"vname": "int",     "defines": ["-DV_FMT=\"a%db\"", "-DV_ARGS=i0", "-DV_N=1", "-DV_F0=\"%d\"", "-DV_K0=K_INT", "-DV_V0=i0"]},
  {"vname": "ints",    "defines": ["-DV_FMT=\"%i %5u:%-04x\"", "-DV_ARGS=i0,i1,i2", "-DV_N=3", "-DV_F0=\"%i\"", "-DV_K0=K_INT", "-DV_V0=i0", "-DV_F1=\"%5u\"", "-DV_K1=K_INT", "-DV_V1=i1", "-DV_F2=\"%-04x\"", "-DV_K2=K_INT", "-DV_V2=i2"]},
  {"vname": "longs",   "defines": ["-DV_FMT=\"%ld|%llu|%zd\"", "-DV_ARGS=l0,ll0,(size_t)ll1", "-DV_N=3", "-DV_F0=\"%ld\"", "-DV_K0=K_LONG", "-DV_V0=l0", "-DV_F1=\"%llu\"", "-DV_K1=K_LLONG", "-DV_V1=ll0", "-DV_F2=\"%zd\"", "-DV_K2=K_LLONG", "-DV_V2=ll1"]},
  {"vname": "charptr", "defines": ["-DV_FMT=\"%c=%p\"", "-DV_ARGS=(int)c0,p0", "-DV_N=2", "-DV_F0=\"%c\"", "-DV_K0=K_CHAR", "-DV_V0=c0", "-DV_F1=\"%p\"", "-DV_K1=K_PTR", "-DV_V1=(long long)(ptrdiff_t)p0"]},
  {"vname": "ptrint",  "defines": ["-DV_FMT=\"%p|%d\"", "-DV_ARGS=p0,i0", "-DV_N=2", "-DV_F0=\"%p\"", "-DV_K0=K_PTR", "-DV_V0=(long long)(ptrdiff_t)p0", "-DV_F1=\"%d\"", "-DV_K1=K_INT", "-DV_V1=i0"]},
  {"vname": "pct_args","defines": ["-DV_FMT=\"%d%%|%d\"", "-DV_ARGS=i0,i1", "-DV_N=2", "-DV_F0=\"%d\"", "-DV_K0=K_INT", "-DV_V0=i0", "-DV_F1=\"%d\"", "-DV_K1=K_INT", "-DV_V1=i1"]},
  {"vname": "pct_flag","defines": ["-DV_FMT=\"%d%% done\"", "-DV_ARGS=i0", "-DV_N=1", "-DV_F0=\"%d\"", "-DV_K0=K_INT", "-DV_V0=i0"]},
  {"vname": "str2",    "defines": ["-DV_FMT=\"%s%s\"", "-DV_ARGS=s0,s1", "-DV_N=2", "-DV_F0=\"%s\"", "-DV_K0=K_STR", "-DV_S0=s0", "-DV_F1=\"%s\"", "-DV_K1=K_STR", "-DV_S1=s1"]},
  {"vname": "strempty","defines": ["-DV_L0=0", "-DV_L1=3", "-DV_FMT=\"%s%s\"", "-DV_ARGS=s0,s1", "-DV_N=2", "-DV_F0=\"%s\"", "-DV_K0=K_STR", "-DV_S0=s0", "-DV_F1=\"%s\"", "-DV_K1=K_STR", "-DV_S1=s1"]},
  {"vname": "precint", "defines": ["-DV_FMT=\"%.0d|%2s\"", "-DV_ARGS=i0,s1", "-DV_N=2", "-DV_F0=\"%.0d\"", "-DV_K0=K_INT", "-DV_V0=i0", "-DV_F1=\"%2s\"", "-DV_K1=K_STR", "-DV_S1=s1"]},
  {"vname": "strint",  "defines": ["-DV_FMT=\"<%s> %d\"", "-DV_ARGS=s0,i0", "-DV_N=2", "-DV_F0=\"%s\"", "-DV_K0=K_STR", "-DV_S0=s0", "-DV_F1=\"%d\"", "-DV_K1=K_INT", "-DV_V1=i0"]},
  {"vname": "precstr", "defines": ["-DV_FMT=\"%.1s|%s\"", "-DV_ARGS=s0,s1", "-DV_N=2", "-DV_F0=\"%.1s\"", "-DV_K0=K_STR", "-DV_S0=s0", "-DV_P0=1", "-DV_F1=\"%s\"", "-DV_K1=K_STR", "-DV_S1=s1"]},
  {"vname": "dbl",     "defines": ["-DV_FMT=\"%f %8.3e\"", "-DV_ARGS=d0,d1", "-DV_N=2", "-DV_F0=\"%f\"", "-DV_K0=K_DOUBLE", "-DV_D0=d0", "-DV_F1=\"%8.3e\"", "-DV_K1=K_DOUBLE", "-DV_D1=d1"]},
  {"vname": "ldbl_int","defines": ["-DV_FMT=\"%lf|%d|%x\"", "-DV_ARGS=d0,i0,i1", "-DV_N=3", "-DV_F0=\"%lf\"", "-DV_K0=K_DOUBLE", "-DV_D0=d0", "-DV_F1=\"%d\"", "-DV_K1=K_INT", "-DV_V1=i0", "-DV_F2=\"%x\"", "-DV_K2=K_INT", "-DV_V2=i1"]},
  {"vname": "star",    "defines": ["-DV_FMT=\"%*d|\"", "-DV_ARGS=7,i0", "-DV_N=1", "-DV_F0=\"%7d\"", "-DV_K0=K_INT", "-DV_V0=i0"]}]}
*/
/* Encode with the real qb_vsnprintf_serialize, decode with the real qb_vsnprintf_deserialize, per format template,
 * for all argument values: the decoder must hand libc, directive by directive, the original directive text and
 * the original argument (strings: equal content, or the prefix a precision allows), with the literal text in
 * between copied unchanged -- then libc's snprintf reproduces what printf would have printed.  Also: the encoder
 * stays inside the record space and reports a length within it; the decoder stays inside the caller's buffer.
 * Class: everything fits (record space and text buffer are large enough); the tight cases are units
 * serialize_tight / deserialize_tight. */
#define VERIF_PF_RET_MAX 4    /* class: every conversion prints at most 4 characters, so the text fits the buffer */
#ifndef V_L0
#define V_L0 2
#define V_L1 3
#endif
#include "ser.h"

void harness(void)
{
	VERIF_ND(int, nd_i0); VERIF_ND(int, nd_i1); VERIF_ND(int, nd_i2);
	VERIF_ND(long, nd_l0); VERIF_ND(long long, nd_ll0); VERIF_ND(long long, nd_ll1);
	VERIF_ND(uint8_t, nd_c0); VERIF_ND(uint64_t, nd_p0);
	VERIF_ND(uint8_t, nd_len0); VERIF_ND(uint8_t, nd_len1);
	double d0, d1;
	int i0 = nd_i0, i1 = nd_i1, i2 = nd_i2; long l0 = nd_l0; long long ll0 = nd_ll0, ll1 = nd_ll1;
	unsigned char c0 = nd_c0; void *p0 = (void *)(uintptr_t)nd_p0;
	char s0[4], s1[4];
	ASSUME(nd_len0 == V_L0 && nd_len1 == V_L1);
	/* string arguments: fixed length per variant (V_L0, V_L1), arbitrary characters (incl. '%'); declared to the string
	 * helpers so that strlen of the ARGUMENT is its declared length and all record offsets stay constants */
	verif_str_reset();
	for (unsigned k = 0; k < 3; k++) { VERIF_ND(uint8_t, nd_ch); ASSUME(nd_ch != 0 && nd_ch != QB_XC); s0[k] = (char)nd_ch; }
	for (unsigned k = 0; k < 3; k++) { VERIF_ND(uint8_t, nd_ch); ASSUME(nd_ch != 0 && nd_ch != QB_XC); s1[k] = (char)nd_ch; }
	s0[V_L0] = 0; s1[V_L1] = 0;
	verif_str_declare(0, s0, V_L0);
	verif_str_declare(1, s1, V_L1);
	verif_pf_n = 0; verif_pf_total = 0;
	char *rec = malloc(40);
	char *text = malloc(32);
	ASSUME(rec != NULL && text != NULL);

	size_t rc = call_serialize(rec, 40, V_FMT, V_ARGS);

	POST(rc <= 40, "the encoder reports a record length within the reserved space");
	POST(rc >= sizeof(V_FMT), "the record holds at least the format string and its terminator");

	size_t dl = qb_vsnprintf_deserialize(text, 32, rec);

	COVER(verif_pf_n == V_N);
	COVER(V_L0 == 0 || s0[0] == '%'); COVER(s1[1] == '%');
	POST(verif_pf_n == V_N, "every conversion of the format is printed exactly once");
#if V_N >= 1
	POST(verif_streq(verif_pf[0].fmt, V_F0), "the decoder prints each argument with the original directive text (flags, width, precision, length modifier)");
	POST(verif_pf[0].kind == V_K0, "AUX: first directive has the expected argument class");
#ifdef V_V0
	POST(verif_pf[0].ival == (long long)(V_V0), "the decoder prints the original argument value");
#endif
#ifdef V_D0
	POST(verif_pf[0].dval == (V_D0) || (V_D0) != (V_D0), "the decoder prints the original floating-point value");
#endif
#ifdef V_S0
	{
		VERIF_ND(uint8_t, nd_w);
		size_t L = nd_len0;
#ifdef V_P0
		if (L > V_P0) L = V_P0;
#endif
		ASSUME(nd_w <= L);
		POST(__CPROVER_r_ok(verif_pf[0].sval, L + 1), "the decoder prints a string stored inside the record");
		if (nd_w < L) POST(verif_pf[0].sval[nd_w] == s0[nd_w], "the decoder prints the original string (or the prefix the precision allows)");
		else POST(verif_pf[0].sval[nd_w] == 0, "the stored string ends where the original (or its allowed prefix) ends");
	}
#endif
#endif
#if V_N >= 2
	POST(verif_streq(verif_pf[1].fmt, V_F1), "the decoder prints each argument with the original directive text (second directive: no state carried over)");
	POST(verif_pf[1].kind == V_K1, "AUX: second directive has the expected argument class");
#ifdef V_V1
	POST(verif_pf[1].ival == (long long)(V_V1), "the decoder prints the original argument value (second directive)");
#endif
#ifdef V_D1
	POST(verif_pf[1].dval == (V_D1) || (V_D1) != (V_D1), "the decoder prints the original floating-point value (second directive)");
#endif
#ifdef V_S1
	{
		VERIF_ND(uint8_t, nd_w1);
		ASSUME(nd_w1 <= nd_len1);
		POST(__CPROVER_r_ok(verif_pf[1].sval, (size_t)nd_len1 + 1), "the decoder prints a string stored inside the record (second directive)");
		if (nd_w1 < nd_len1) POST(verif_pf[1].sval[nd_w1] == s1[nd_w1], "the decoder prints the original string (second directive: no precision carried over)");
		else POST(verif_pf[1].sval[nd_w1] == 0, "the stored string ends where the original ends (second directive)");
	}
#endif
#endif
#if V_N >= 3
	POST(verif_streq(verif_pf[2].fmt, V_F2), "the decoder prints each argument with the original directive text (third directive)");
	POST(verif_pf[2].kind == V_K2 && verif_pf[2].ival == (long long)(V_V2), "the decoder prints the original argument value (third directive)");
#endif
	POST(dl <= 32, "the decoder reports a length within the caller's buffer");
}
