/*UNIT
{"props": ["C14"], "src": ["lib/log_format.c", "lib/strlcpy.c", "lib/strlcat.c"], "mode": "plain", "kind": "bounded",
 "bound": "one integer directive with a run of n '0' flags, n fixed per variant; decode buffer 32 bytes; loops unwound 40 times",
 "unwind": 40,
 "functions": ["qb_vsnprintf_deserialize"],
 "stubs": ["snprintf (decoder side: records one-directive format and argument; any result 0..4)", "strlen/strchrnul/memcpy (exact byte loops)"],
 "expect_classes": ["assertion"], "timeout": 200, "cbmc_flags": ["--no-malloc-may-fail"],
 "variants": [
  {"vname": "max",  "defines": ["-DV_FMT=\"%00000000000000005d\"", "-DV_F0=\"%00000000000000005d\""]},
  {"vname": "over", "defines": ["-DV_OVER", "-DV_FMT=\"%0000000000000000000005d\"", "-DV_F0=\"%0000000000000000000005d\""]}]}
*/
/* qb_vsnprintf_deserialize rebuilds each directive in a 20-byte scratch format.  Decoding never writes outside the
 * buffers involved, for any format:
 *   max  : a directive of 19 characters ("%" + 17 flag/width characters + "d") -- the longest that fits with its terminator
 *   over : a directive of 24 characters -> (after the fix of DESIGN.md 7 #11) the decoder stops instead of over-running
 *          fmt[20]; only memory safety is required here: a directive longer than the scratch format is not reproduced
 *          (reported limitation, DESIGN.md 10.3) */
#define VERIF_PF_RET_MAX 4
#include "ser.h"

void harness(void)
{
	VERIF_ND(int, nd_i0);
	verif_pf_n = 0; verif_pf_total = 0;
	/* the record as the encoder lays it out: format, NUL, raw int */
	static const char f[] = V_FMT;
	char *rec = malloc(sizeof(f) + sizeof(int));
	char *text = malloc(32);
	ASSUME(rec != NULL && text != NULL);
	for (unsigned k = 0; k < sizeof(f); k++) rec[k] = f[k];
	int v = nd_i0;
	for (unsigned k = 0; k < sizeof(int); k++) rec[sizeof(f) + k] = ((char *)&v)[k];

	size_t dl = qb_vsnprintf_deserialize(text, 32, rec);

#ifndef V_OVER
	COVER(verif_pf_n == 1);
	POST(verif_pf_n == 1, "every conversion of the format is printed exactly once");
	POST(verif_streq(verif_pf[0].fmt, V_F0), "the decoder prints the argument with the original directive text");
	POST(verif_pf[0].ival == nd_i0, "the decoder prints the original argument value");
#else
	COVER(verif_pf_n == 0);
	POST(verif_pf_n <= 1, "a conversion is never printed twice");
#endif
	POST(dl <= 32, "the decoder reports a length within the caller's buffer");
}
