/*UNIT
{"props": ["C14"], "src": ["lib/log_format.c", "lib/strlcpy.c", "lib/strlcat.c"], "mode": "plain", "kind": "bounded",
 "bound": "two format templates (see variants); every would-be length 0..1000 of the conversion(s); caller's buffer of 10, 11, 21, 32 bytes (template lit) or 32 bytes (template conv); loops unwound 34 times",
 "unwind": 34,
 "functions": ["qb_vsnprintf_deserialize", "my_strlcat", "strlcat", "strlcpy"],
 "stubs": ["snprintf (decoder side: destination writable for size asserted; writes min(result, size-1) characters + terminator; result = the would-be length, any value 0..1000, as the real snprintf reports it)",
           "strlen/strchrnul/memcpy (exact byte loops, stubs/str.h VERIF_STR_LOOPS)"],
 "expect_classes": ["assertion"], "timeout": 250, "cbmc_flags": ["--no-malloc-may-fail"],
 "variants": [
  {"vname": "lit_fit11", "defines": ["-DV_LIT", "-DV_SIZE=11"]},
  {"vname": "lit_fit21", "defines": ["-DV_LIT", "-DV_SIZE=21"]},
  {"vname": "lit_fit32", "defines": ["-DV_LIT", "-DV_SIZE=32"]},
  {"vname": "lit_over10","defines": ["-DV_LIT", "-DV_SIZE=10", "-DV_FAILS"]},
  {"vname": "pct_edge10", "defines": ["-DV_PCT", "-DV_SIZE=10", "-DV_FAILS"]},
  {"vname": "pct_edge11", "defines": ["-DV_PCT", "-DV_SIZE=11", "-DV_FAILS"]},
  {"vname": "pct_edge12", "defines": ["-DV_PCT", "-DV_SIZE=12", "-DV_FAILS"]},
  {"vname": "conv_fit",  "defines": ["-DV_CONV", "-DV_LO=0", "-DV_HI=30"]},
  {"vname": "conv_over", "defines": ["-DV_CONV", "-DV_LO=31", "-DV_HI=1000", "-DV_FAILS"]}]}
*/
/* qb_vsnprintf_deserialize when the decoded text does NOT fit the caller's buffer ("decoding never writes beyond the
 * caller's buffer, for any format/argument combination, fitting or not"; the text may be cut).
 * Template lit : "0123456789%dABCDEFGHIJ" (10 literal characters, one conversion, a trailing literal) into a buffer
 *                of V_SIZE bytes, any would-be length of the conversion.
 *     lit_fit11/21/32   : room for the leading literal and a terminator -- a cut conversion and a cut
 *                         trailing literal are handled (snprintf and strlcat are bounded); 11 is the smallest such size
 *     lit_over10        : the leading literal is copied with an unguarded memcpy; 10 is the largest such size
 * Template pct : "0123456789%%" (10 literal characters, then a literal percent sign) into a buffer of 10, 11 and 12 bytes:
 *                the literal segment ends exactly at / one before / two before the end of the buffer; the '%' that
 *                follows must never be stored at or beyond string[size] (seed C14-m3: an off-by-one in the room test).
 * Template conv: "%*d|%d" with width nd_w (so the first conversion prints max(nd_w, 1) characters -- also natively)
 *                into 32 bytes.
 *     conv_fit  nd_w <= 30 : "<w chars>|" and a terminator fit
 *     conv_over nd_w >= 31 : `location += snprintf(...)` adds the WOULD-BE length, the literal '|' is stored at
 *                            string[location] and the next snprintf gets `str_len - location`, which wraps */
#define VERIF_PF_RET_MAX 1000
#include "ser.h"

void harness(void)
{
	VERIF_ND(int32_t, nd_w);
	VERIF_ND(int32_t, nd_ret0);
	char *rec = malloc(64);
	char *text = NULL;
	size_t dl = 0, rl, len = 0;
	ASSUME(rec != NULL);
	verif_pf_n = 0; verif_pf_total = 0; verif_pf_scripted = 0;
#ifdef V_PCT
	rl = call_serialize(rec, 64, "0123456789%%");
	POST(rl == 13, "AUX: the record is the format and its terminator");
	text = malloc(V_SIZE);
	ASSUME(text != NULL);
	len = V_SIZE;
	verif_pf_text = text;
	dl = qb_vsnprintf_deserialize(text, V_SIZE, rec);
	COVER(1);
#elif defined(V_LIT)
	ASSUME(nd_ret0 >= 0 && nd_ret0 <= 1000);
	verif_pf_script[0] = nd_ret0; verif_pf_scripted = 1;
	rl = call_serialize(rec, 64, "0123456789%dABCDEFGHIJ", 7);
	POST(rl == 23 + sizeof(int), "AUX: the record is the format, its terminator and one int");
	text = malloc(V_SIZE);            /* the buffer size is a constant per variant (symbolic sizes are slow for this code) */
	ASSUME(text != NULL);
	len = V_SIZE;
	verif_pf_text = text;
	dl = qb_vsnprintf_deserialize(text, V_SIZE, rec);
	COVER(nd_ret0 == 0); COVER(nd_ret0 == 1000);
#else
	ASSUME(nd_w >= V_LO && nd_w <= V_HI);
	verif_pf_script[0] = nd_w < 1 ? 1 : nd_w;      /* what "%<w>d" of 1 prints */
	verif_pf_script[1] = 1;                        /* "%d" of 2 */
	verif_pf_scripted = 2;
	rl = call_serialize(rec, 64, "%*d|%d", nd_w, 1, 2);
	POST(rl == 7 + 3 * sizeof(int), "AUX: the record is the format, its terminator and three ints");
	text = malloc(32);
	ASSUME(text != NULL);
	len = 32;
	verif_pf_text = text;
	dl = qb_vsnprintf_deserialize(text, 32, rec);
	COVER(nd_w == V_LO); COVER(nd_w == V_HI);
#endif
#ifndef V_FAILS
	COVER(verif_pf_n >= 1);
#endif
	POST(dl >= 1 && dl <= len, "the decoder reports a length within the caller's buffer");
	POST(text[dl - 1] == 0, "the decoded text is NUL-terminated inside the caller's buffer");
}
