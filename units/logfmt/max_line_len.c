/*UNIT
{"props": ["C13"], "src": ["lib/log.c"], "mode": "plain", "kind": "proved",
 "functions": ["qb_log_ctl2 (QB_LOG_CONF_MAX_LINE_LEN)", "qb_log_ctl"],
 "stubs": ["qb_log_thread_pause/resume (no-ops)"],
 "expect_classes": ["assertion"], "timeout": 120, "unwind": 33,
 "variants": [{"vname": "ge4", "defines": ["-DV_CLASS=(nd_arg>=4)"]},
              {"vname": "lt4", "defines": ["-DV_CLASS=(nd_arg<4)", "-DV_LT4"]}]}
*/
/* qb_log_ctl(t, QB_LOG_CONF_MAX_LINE_LEN, v) for every target slot and every int32 value: a value is either
 * refused (-EINVAL, limit unchanged) or it becomes the target's limit, and every accepted value is one the
 * formatters are specified for (4 <= M <= 4096: room for one character, the terminator and the 3-character
 * ellipsis; units format / format_static assume exactly this range).
 *   ge4 : v >= 4
 *   lt4 : v < 4 (0..3 and negative values, which become huge size_t limits) -> DESIGN.md 7 #8 */
#include "logc.h"

void harness(void)
{
	VERIF_ND(int32_t, nd_t);
	VERIF_ND(int32_t, nd_arg);
	VERIF_ND(size_t, nd_old);
	VERIF_ND(uint8_t, nd_state);
	ASSUME(V_CLASS);
	ASSUME(nd_t >= 0 && nd_t < QB_LOG_TARGET_MAX && nd_old >= 4 && nd_old <= 4096);
	ASSUME(nd_state == QB_LOG_STATE_DISABLED || nd_state == QB_LOG_STATE_ENABLED);
	logger_inited = QB_TRUE;
	int32_t rc = 1;
	size_t m = 0;
	/* the slot index is made a constant per iteration (a symbolic index into the 32 x 8 KB target table is too
	 * expensive); the loop has the constant trip count QB_LOG_TARGET_MAX */
	for (int32_t t = 0; t < QB_LOG_TARGET_MAX; t++) {
		if (t != nd_t) continue;
		conf[t].state = nd_state;
		conf[t].pos = t;
		conf[t].threaded = QB_FALSE;
		conf[t].max_line_length = nd_old;
		rc = qb_log_ctl(t, QB_LOG_CONF_MAX_LINE_LEN, nd_arg);
		m = conf[t].max_line_length;
	}

#ifdef V_LT4
	COVER(nd_arg == 0); COVER(nd_arg < 0); COVER(nd_arg == 3);
#else
	COVER(rc == 0 && nd_arg == 4); COVER(rc == 0 && nd_arg == 4096); COVER(rc != 0); COVER(nd_t == 31); COVER(nd_t == 0);
#endif
	POST(rc == 0 || rc == -EINVAL, "setting the maximum line length succeeds or is refused as invalid");
	if (rc == 0) {
		POST(m >= 4 && m <= QB_LOG_ABSOLUTE_MAX_LEN, "an accepted maximum line length is one the formatters can work with (4..4096)");
		POST(m == (size_t)nd_arg || nd_arg < 0, "an accepted value becomes the target's limit");
	} else {
		POST(m == nd_old, "a refused maximum line length changes nothing");
	}
	if (nd_arg > QB_LOG_ABSOLUTE_MAX_LEN) {
		POST(rc == -EINVAL, "values above the absolute maximum are refused");
	}
}
