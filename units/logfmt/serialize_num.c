/*UNIT
{"props": ["C14"], "src": ["lib/log_format.c", "lib/strlcpy.c", "lib/strlcat.c"], "mode": "plain", "kind": "bounded",
 "bound": "format template \"%d|%f|%c%p%ld\" (one conversion of every numeric class), symbolic argument values, record space 0..48 bytes (constant per loop iteration); loops unwound 50 times",
 "unwind": 50,
 "functions": ["qb_vsnprintf_serialize", "my_strlcpy", "strlcpy"],
 "stubs": ["strlen/strchr/strchrnul/memcpy (exact byte loops, stubs/str.h VERIF_STR_LOOPS)"],
 "expect_classes": ["assertion"], "timeout": 250, "cbmc_flags": ["--no-malloc-may-fail"]}
*/
/* qb_vsnprintf_serialize with numeric conversions into a record space of EVERY size 1..48 (fitting or not): every
 * store stays inside the space ("every store into the record is preceded by a remaining-space check") and the
 * reported length does not exceed the space; when the space suffices the length is format + NUL + the raw
 * argument sizes (4 + 8 + 1 + 8 + 8 on LP64). */
#include "ser.h"

void harness(void)
{
	VERIF_ND(int, nd_i0); VERIF_ND(long, nd_l0); VERIF_ND(uint8_t, nd_c0); VERIF_ND(uint64_t, nd_p0); VERIF_ND(uint8_t, nd_max);
	double d0;
	static const char f[] = "%d|%f|%c%p%ld";
	ASSUME(nd_max >= 1 && nd_max <= 48);
	size_t rc = 0;
	/* the space is a constant in each iteration (symbolic allocation sizes are slow for this code) */
	for (unsigned m = 1; m <= 48; m++) {
		if (m != nd_max) continue;
		char *rec = malloc(m);
		ASSUME(rec != NULL);
		rc = call_serialize(rec, m, f, nd_i0, d0, (int)nd_c0, (void *)(uintptr_t)nd_p0, nd_l0);
	}
	COVER(nd_max == 1); COVER(nd_max == 14); COVER(nd_max == 42); COVER(nd_max == 43); COVER(nd_max == 48);
	POST(rc <= nd_max, "the encoder reports a record length within the reserved space");
	if (nd_max >= sizeof(f) + 29) {
		POST(rc == sizeof(f) + 29, "a fitting record is the format, its terminator and the raw arguments");
	}
}
