/*UNIT
{"props": ["C14"], "src": ["lib/log_format.c", "lib/strlcpy.c", "lib/strlcat.c"], "mode": "plain", "kind": "bounded",
 "bound": "three format templates (see variants), one int conversion printing 0..8 characters, caller's buffer 32 bytes with arbitrary previous contents; loops unwound 34 times",
 "unwind": 34,
 "functions": ["qb_vsnprintf_deserialize", "my_strlcat", "strlcat", "strlcpy"],
 "stubs": ["snprintf (decoder side: writes min(result, size-1) characters + terminator; result 0..8 chosen by the harness)",
           "strlen/strchrnul/memcpy (exact byte loops, stubs/str.h VERIF_STR_LOOPS)"],
 "expect_classes": ["assertion"], "timeout": 250, "cbmc_flags": ["--no-malloc-may-fail"],
 "variants": [
  {"vname": "plain",   "defines": ["-DV_FMT=\"%d done\"", "-DV_TAIL=\" done\""]},
  {"vname": "pct_mid", "defines": ["-DV_FMT=\"%d%% done\"", "-DV_TAIL=\"% done\"", "-DV_FAILS"]},
  {"vname": "pct_end", "defines": ["-DV_FMT=\"%d%%\"", "-DV_TAIL=\"%\"", "-DV_FAILS"]}]}
*/
/* The literal text around the conversions must come out where printf puts it, whatever the caller's buffer held
 * before (qb_log_blackbox_print_from_file decodes into an uninitialised stack array):  after the n characters of the
 * conversion the text continues with V_TAIL and ends there.
 *   plain   : "%d done"   -- the conversion leaves a terminator, strlcat appends the rest there
 *   pct_mid : "%d%% done" -- the '%' of "%%" is stored over that terminator without writing a new one: the rest is
 *                            appended at strlen(string), i.e. wherever the old contents of the buffer happen to end
 *   pct_end : "%d%%"      -- same, nothing follows: the text is left unterminated (strlen runs out of the buffer) */
#define VERIF_PF_RET_MAX 8
#include "ser.h"

void harness(void)
{
	VERIF_ND(int32_t, nd_ret0);
	VERIF_ND(uint8_t, nd_wit);
	static const char tail[] = V_TAIL;
	char *rec = malloc(64);
	char *text = malloc(32);           /* arbitrary previous contents */
	ASSUME(rec != NULL && text != NULL);
	ASSUME(nd_ret0 >= 1 && nd_ret0 <= 8);
#ifndef VERIF_CBMC
	memset(text, 'Z', 32);             /* native replay: a dirty buffer without terminator */
	nd_ret0 = 3;                       /* natively the conversion prints "100" */
#endif
	verif_pf_n = 0; verif_pf_total = 0;
	verif_pf_script[0] = nd_ret0; verif_pf_scripted = 1;
	verif_pf_text = text;
	/* the record as the encoder should lay it out: format, NUL, raw int (built by hand: the encoder's own
	 * handling of "%%" is the subject of roundtrip.pct_args / roundtrip.pct_flag) */
	{
		static const char f[] = V_FMT;
		int v = 100;
		for (unsigned k = 0; k < sizeof(f); k++) rec[k] = f[k];
		for (unsigned k = 0; k < sizeof(int); k++) rec[sizeof(f) + k] = ((char *)&v)[k];
	}

	size_t dl = qb_vsnprintf_deserialize(text, 32, rec);

	ASSUME(nd_wit < sizeof(tail));     /* witness position inside the literal tail, terminator included */
	COVER(nd_wit == 0); COVER(nd_wit == sizeof(tail) - 1); COVER(nd_ret0 == 8);
	POST(dl == (size_t)nd_ret0 + sizeof(tail), "the decoder reports the length of the decoded text");
	POST(text[(size_t)nd_ret0 + nd_wit] == tail[nd_wit], "the literal text of the format follows the printed argument and the text ends there");
}
