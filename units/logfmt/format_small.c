/*UNIT
{"props": ["C13"], "src": ["lib/log_format.c"], "mode": "plain", "kind": "bounded",
 "bound": "one concrete format string per variant (see variants); function/file texts <= 3 and message <= 6 symbolic characters, 4 <= M <= 12, priorities info and out-of-range, ellipsis on/off; all loops unwound 13 times",
 "unwind": 13,
 "functions": ["qb_log_target_format", "_strcpy_cutoff"],
 "restrict_fp": ["qb_log_target_format.function_pointer_call.1/verif_tags_fn"],
 "stubs": ["strlen/strrchr/atoi/memcpy/memset (exact byte loops, stubs/str.h VERIF_STR_LOOPS)", "isdigit (C locale)", "pthread_rwlock_* (no-ops)",
           "qb_log_target_get (one arbitrary target record)", "tags stringify callback (returns a fixed text)"],
 "expect_classes": ["assertion"], "timeout": 300, "cbmc_flags": ["--no-malloc-may-fail"],
 "variants": [
  {"vname": "default", "defines": ["-DVERIF_STR_LOOPS", "-DV_FMT=\"[%p] %b\""]},
  {"vname": "width",   "defines": ["-DVERIF_STR_LOOPS", "-DV_FMT=\"%5b|%2n\""]},
  {"vname": "ralign",  "defines": ["-DVERIF_STR_LOOPS", "-DV_FMT=\"%-5f %-2b\""]},
  {"vname": "tags",    "defines": ["-DVERIF_STR_LOOPS", "-DV_FMT=\"%g%x%3g:%b\""]},
  {"vname": "wide",    "defines": ["-DVERIF_STR_LOOPS", "-DV_FMT=\"a%12p%n\""]}]}
*/
/* Directive CONTENT of qb_log_target_format, bounded, on format templates (symbolic formats unwound over the whole
 * directive switch exceed the memory limit): the real loops (no loop contracts, exact string helpers)
 * against a reference formatter written from the documentation (qblog.h: %n function, %f file name without
 * directories, %p priority name, %b message, %g tags; "any number between % and character specify field length
 * to pad or chop"; '-' right-aligns as the test-suite shows; unknown directives expand to nothing; the line is cut
 * at M - 1 characters and, with the option on, a cut line ends in "...").  The output must equal the reference text
 * byte for byte and be terminated right after it.  Empty lines are excluded here (unit format.emptyline). */

#include "common.h"

static const char *verif_tags_fn(uint32_t tags)
{
	return "TG";
}

void harness(void)
{
	VERIF_ND(size_t, nd_M);
	VERIF_ND(uint8_t, nd_msglen);
	VERIF_ND(uint8_t, nd_funclen);
	VERIF_ND(uint8_t, nd_filelen);
	VERIF_ND(uint8_t, nd_ellipsis);
	VERIF_ND(uint8_t, nd_prio);
	VERIF_ND(uint8_t, nd_have_tags_fn);
	static char fmt[] = V_FMT;
	char msg[7], func[4], file[4];
	struct qb_log_callsite cs;
	struct timespec ts;
	verif_str_reset();
	verif_obs_reset();
	ASSUME(nd_M >= 4 && nd_M <= 12);
	ASSUME(nd_prio == 6 || nd_prio == 200);   /* two priority names: one in the table, one clamped to "trace" */
	ASSUME(nd_msglen <= 6 && nd_funclen <= 3 && nd_filelen <= 3);
	size_t nd_fmtlen = sizeof(fmt) - 1;
	for (unsigned i = 0; i < 6; i++) { VERIF_ND(uint8_t, nd_mc); ASSUME(nd_mc >= 'A' && nd_mc <= 'Z'); msg[i] = (char)nd_mc; }
	msg[nd_msglen] = 0;
	for (unsigned i = 0; i < 3; i++) { VERIF_ND(uint8_t, nd_nc); ASSUME(nd_nc >= 'a' && nd_nc <= 'z'); func[i] = (char)nd_nc; }
	func[nd_funclen] = 0;
	for (unsigned i = 0; i < 3; i++) { VERIF_ND(uint8_t, nd_pc); ASSUME((nd_pc >= 'a' && nd_pc <= 'z') || nd_pc == '/'); file[i] = (char)nd_pc; }
	file[nd_filelen] = 0;
	verif_target.max_line_length = nd_M;
	verif_target.ellipsis = nd_ellipsis & 1;
	verif_target.format = fmt;
	verif_fmt_len = nd_fmtlen;
	cs.function = func; cs.filename = file; cs.format = "%s"; cs.priority = nd_prio; cs.lineno = 7; cs.tags = 1; cs.targets = 0;
	ts.tv_sec = 0; ts.tv_nsec = 0;
	_user_tags_stringify_fn = (nd_have_tags_fn & 1) ? verif_tags_fn : NULL;
	char *out = malloc(nd_M);
	ASSUME(out != NULL);

	/* ---- reference formatter (documentation), in witness form: the expected character at output position nd_wit
	 *      and the expected length, computed without building the line ---- */
	VERIF_ND(size_t, nd_wit);
	unsigned i = 0;
	int complete = 1;
	size_t o = 0;                    /* characters produced so far, never more than M - 1 */
	int expect = -1;                 /* expected character at nd_wit */
	size_t baseoff = 0;              /* %f: file name without directories */
	for (unsigned k = 0; k < 3; k++) if (k < nd_filelen && file[k] == '/') baseoff = k + 1;
	while (fmt[i] != 0 && o < nd_M - 1) {
		if (fmt[i] != '%') {
			if (o == nd_wit) expect = (unsigned char)fmt[i];
			o++; i++;
			continue;
		}
		i++;
		int right = 0;
		size_t width = 0;
		if (fmt[i] == '-') { right = 1; i++; }
		while (fmt[i] >= '0' && fmt[i] <= '9') { width = width * 10 + (size_t)(fmt[i] - '0'); i++; }
		char conv = fmt[i];
		if (conv == 0) { complete = 0; break; }
		i++;
		const char *text = "";
		size_t tl = 0;
		if (conv == 'n') { text = func; tl = nd_funclen; }
		else if (conv == 'b') { text = msg; tl = nd_msglen; }
		else if (conv == 'p') { text = nd_prio == 6 ? "info" : "trace"; tl = nd_prio == 6 ? 4 : 5; }
		else if (conv == 'g') { text = (nd_have_tags_fn & 1) ? "TG" : ""; tl = (nd_have_tags_fn & 1) ? 2 : 0; }
		else if (conv == 'f') { text = &file[baseoff]; tl = nd_filelen - baseoff; }
		if (width == 0) width = tl;
		size_t room = nd_M - 1 - o;                       /* the field is cut at the line limit ... */
		size_t n = width < room ? width : room;
		size_t copied = tl < n ? tl : n;                  /* ... chopped to the width, padded with blanks */
		size_t pad = n - copied;
		if (nd_wit >= o && nd_wit < o + n) {
			size_t j = nd_wit - o;
			if (right) expect = j < pad ? ' ' : (unsigned char)text[j - pad];
			else expect = j < copied ? (unsigned char)text[j] : ' ';
		}
		o += n;
	}
	ASSUME(complete);                 /* incomplete trailing directive: unit format_trailing */
	ASSUME(o > 0);                    /* empty line: unit format.emptyline */
	ASSUME(nd_wit < o);
	if ((nd_ellipsis & 1) && o >= nd_M - 1 && nd_wit + 3 >= o) expect = '.';
	size_t ref_len = o;

	qb_log_target_format(0, &cs, &ts, msg, out);

	COVER(ref_len == nd_M - 1 && (nd_ellipsis & 1)); COVER(ref_len == nd_M - 1 && !(nd_ellipsis & 1)); COVER(ref_len < nd_M - 1);
	POST(out[ref_len] == 0, "the formatted line ends where the documented expansion, cut at the limit, ends");
	POST((unsigned char)out[nd_wit] == expect, "the formatted line equals the text the documented directives prescribe");
}
