/*UNIT
{"props": ["C13"], "src": ["lib/log_format.c"], "spec": ["log_format.spec"], "tags": ["contract"], "mode": "plain",
 "replace": ["qb_log_target_format_static"], "replace_proved_elsewhere": ["qb_log_target_format_static"], "kind": "proved",
 "functions": ["qb_log_format_set", "qb_log_target_format_static (by contract, established by unit logfmt.format_static)"],
 "stubs": ["pthread_rwlock_* (no-ops)", "qb_log_target_get (one arbitrary target record)", "strlen (stubs/str.h)",
           "strdup (never fails; checks that its argument is terminated where the formatter stopped)"],
 "expect_classes": ["assertion", "precondition"], "timeout": 120, "cbmc_flags": ["--no-malloc-may-fail"],
 "variants": [{"vname": "upto256", "defines": ["-DVERIF_UNIT_STRDUP", "-DV_MLO=4", "-DV_MHI=256", "-DV_FMTMIN=0"]},
              {"vname": "over256", "defines": ["-DVERIF_UNIT_STRDUP", "-DV_MLO=257", "-DV_MHI=4096", "-DV_FMTMIN=256", "-DV_OVER"]}]}
*/
/* qb_log_format_set(target, format): the static expansion goes into the function's own 256-byte buffer while the
 * expansion is bounded by the target's line limit M.  Property clause: nothing is written outside the buffers
 * involved, for every format string and target name.  Modular: qb_log_target_format_static is used by its
 * contract (needs room for M bytes, writes only those, terminates the result inside them).
 *   upto256 : 4 <= M <= 256, every format -- the 256 bytes suffice.
 *   over256 : 257 <= M <= 4096 (includes the default 512) and a format of 256 or more characters -- DESIGN.md 7 #6:
 *             the expansion needs room for M bytes and gets 256 (failing obligation: the requires clause of
 *             qb_log_target_format_static at its call in qb_log_format_set; the native replay runs the real
 *             expansion on a format of that length and overflows modified_format[256]). */
#include "os_base.h"
#include "verif.h"
#include <string.h>
static char *verif_strdup(const char *s);
#include "common.h"

unsigned verif_strdup_calls;
const char *verif_strdup_arg;
#ifdef VERIF_CBMC
static char *verif_strdup(const char *s)
{
	size_t n = 0;
	verif_strdup_calls++;
	verif_strdup_arg = s;
	if (__CPROVER_OBJECT_SIZE(s) == QB_LOG_ABSOLUTE_MAX_LEN) {
		/* the expansion buffer: terminated where the formatter stopped (ghost mirror of its output index) */
		n = verif_out_idx;
		POST(n < QB_LOG_ABSOLUTE_MAX_LEN && s[n] == 0, "the expanded format is NUL-terminated inside the expansion buffer");
	} else {
		n = verif_strlen(s);
	}
	size_t bytes = n + 1;
	char *p = malloc(bytes);
	__CPROVER_assume(p != NULL);
	p[n] = 0;
	return p;
}
#define VERIF_STRDUP_DEFINED
#endif

void harness(void)
{
	VERIF_ND(size_t, nd_M);
	VERIF_ND(size_t, nd_fmtlen);
	VERIF_ND(size_t, nd_namelen);
	VERIF_ND(uint8_t, nd_null_format);
	VERIF_ND(uint8_t, nd_had_format);
	verif_str_reset();
	verif_obs_reset();
	verif_init_tables();
	verif_strdup_calls = 0;
	ASSUME(nd_M >= V_MLO && nd_M <= V_MHI);
	ASSUME(nd_fmtlen >= V_FMTMIN && nd_fmtlen <= 8192 && nd_namelen < PATH_MAX);
#ifdef V_OVER
	ASSUME(!nd_null_format);
#endif
	verif_target.max_line_length = nd_M;
	verif_target.name[nd_namelen] = 0;
	verif_str_declare(S_NAME, verif_target.name, nd_namelen);
	verif_target.format = nd_had_format ? malloc(8) : NULL;
	char *fmt = nd_null_format ? NULL : verif_mkstr(S_FMT, nd_fmtlen);
	verif_fmt_len = nd_fmtlen;

	qb_log_format_set(0, fmt);

#ifndef V_OVER
	COVER(nd_null_format); COVER(!nd_null_format && verif_out_idx == 0); COVER(nd_M == 256);
#else
	COVER(nd_M == 512);
#endif
	COVER(!nd_null_format && nd_fmtlen >= 256);
	COVER(!nd_null_format && (size_t)verif_out_idx + 1 >= nd_M);
	POST(verif_target.format != NULL, "a format is installed");
#ifdef VERIF_CBMC
	POST(verif_strdup_calls == 1, "the installed format is a copy of the expansion");
#endif
}
