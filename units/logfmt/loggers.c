/*UNIT
{"props": ["C13"], "src": ["lib/log_file.c", "lib/log_syslog.c"], "mode": "plain", "kind": "proved",
 "functions": ["_file_logger (lib/log_file.c)", "_syslog_logger (lib/log_syslog.c)"],
 "stubs": ["qb_log_target_format (by its contract, established by units logfmt.format.*: writes only output_buffer[0..M), result NUL-terminated inside; here it ASSERTS that it is handed M writable bytes)",
           "qb_log_target_get (one arbitrary target record)", "qb_log_target_user_data_get (an open FILE)", "malloc (may fail)",
           "fprintf/fflush/fileno/fsync/syslog (check that the line handed over is NUL-terminated inside its buffer)"],
 "expect_classes": ["assertion"], "timeout": 120,
 "variants": [{"vname": "file", "defines": ["-DV_FILE"]}, {"vname": "syslog", "defines": ["-DV_SYSLOG"]}]}
*/
/* The file / stderr / syslog loggers format the line into a stack buffer of QB_LOG_MAX_LEN bytes or, for larger
 * limits, into malloc(max_line_length): for EVERY limit 4 <= M <= 4096 the buffer handed to qb_log_target_format has
 * room for M bytes (the size that function is specified against), the line handed to fprintf / syslog is terminated
 * inside it, and a failed allocation drops the line instead of formatting into a short buffer. */
#include "os_base.h"
#include "log_int.h"
#include "verif.h"
#include "alloc.h"
#include <stdio.h>
#include <syslog.h>

struct qb_log_target verif_target;
unsigned verif_format_calls, verif_emit_calls;
char *verif_fmt_buf;
size_t verif_fmt_nul;
static struct qb_log_target *verif_qb_log_target_get(int32_t pos) { return &verif_target; }
static int verif_file_token;
static void *verif_user_data_get(int32_t t) { return &verif_file_token; }
static void verif_qb_log_target_format(int32_t target, struct qb_log_callsite *cs, struct timespec *ts,
				       const char *msg, char *output_buffer)
{
	size_t M = verif_target.max_line_length;
	VERIF_ND(size_t, nd_linelen);
	verif_format_calls++;
	POST(__CPROVER_w_ok(output_buffer, M), "the line buffer handed to the formatter has room for the target's maximum line length");
	ASSUME(nd_linelen < M);
#ifdef VERIF_CBMC
	__CPROVER_havoc_slice(output_buffer, M);
#endif
	output_buffer[nd_linelen] = 0;
	verif_fmt_buf = output_buffer;
	verif_fmt_nul = nd_linelen;
}
static void verif_emit(const char *line)
{
	verif_emit_calls++;
	POST(line == verif_fmt_buf && verif_format_calls == 1, "the emitted line is the one just formatted");
	POST(line[verif_fmt_nul] == 0, "the emitted line is NUL-terminated inside its buffer");
}
static int verif_fprintf(FILE *f, const char *fmt, ...)
{
	va_list ap;
	va_start(ap, fmt);
	verif_emit(va_arg(ap, const char *));
	va_end(ap);
	return 0;
}
static void verif_syslog(int prio, const char *fmt, ...)
{
	va_list ap;
	va_start(ap, fmt);
	verif_emit(va_arg(ap, const char *));
	va_end(ap);
}
static int verif_int_nop(void *p) { return 0; }
static int verif_fd_nop(int fd) { return 0; }
#define qb_log_target_get verif_qb_log_target_get
#define qb_log_target_user_data_get verif_user_data_get
#define qb_log_target_format verif_qb_log_target_format
#define fprintf verif_fprintf
#define syslog verif_syslog
#define fflush(f) verif_int_nop(f)
#undef fileno
#define fileno(f) verif_int_nop(f)
#undef QB_FILE_SYNC
#define QB_FILE_SYNC(fd) verif_fd_nop(fd)
#ifdef V_FILE
#include "log_file.c"
#else
#include "log_syslog.c"
#endif

void harness(void)
{
	VERIF_ND(size_t, nd_M);
	VERIF_ND(uint8_t, nd_prio);
	VERIF_ND(int32_t, nd_bump);
	VERIF_ND(uint8_t, nd_sync);
	struct qb_log_callsite cs;
	struct timespec ts;
	ASSUME(nd_M >= 4 && nd_M <= QB_LOG_ABSOLUTE_MAX_LEN);
	ASSUME(nd_bump >= -16 && nd_bump <= 16);
	verif_target.max_line_length = nd_M;
	verif_target.file_sync = nd_sync & 1;
	verif_target.priority_bump = nd_bump;
	verif_target.use_journal = 0;
	cs.function = "f"; cs.filename = "f.c"; cs.format = "%s"; cs.priority = nd_prio; cs.lineno = 1; cs.tags = 0; cs.targets = 0;
	cs.message_id = NULL;
	ts.tv_sec = 0; ts.tv_nsec = 0;
	verif_format_calls = 0; verif_emit_calls = 0; verif_alloc_calls = 0; verif_alloc_never_fails = 0;

#ifdef V_FILE
	_file_logger(0, &cs, &ts, "msg");
#else
	_syslog_logger(0, &cs, &ts, "msg");
#endif

	COVER(verif_emit_calls == 1 && nd_M > QB_LOG_MAX_LEN);
	COVER(verif_emit_calls == 1 && nd_M == QB_LOG_MAX_LEN);
	COVER(verif_emit_calls == 0 && nd_M > QB_LOG_MAX_LEN);
	COVER(nd_M == 4);
	POST(verif_format_calls <= 1 && verif_emit_calls == verif_format_calls, "a line is formatted once and then emitted, or dropped");
}
