/*UNIT
{"props": ["C13"], "src": ["lib/log.c"], "mode": "plain", "kind": "proved",
 "functions": ["cs_format"],
 "stubs": ["vsnprintf (destination writable for size asserted; writes min(result, size-1) characters + terminator; result chosen by the harness: any length or -1)"],
 "expect_classes": ["assertion"], "timeout": 120, "cbmc_flags": ["--no-malloc-may-fail"],
 "variants": [{"vname": "nonempty", "defines": ["-DV_CLASS=(nd_ret!=0&&nd_maxlen>0)"]},
              {"vname": "empty", "defines": ["-DV_CLASS=(nd_ret==0||nd_maxlen==0)", "-DV_EMPTY"]}]}
*/
/* cs_format(str, maxlen, cs, ap): expansion of the log call's printf format into a buffer of exactly maxlen bytes,
 * for every result vsnprintf can report (short, exactly fitting, over-long, error -1) and every maxlen 0..4096:
 * no access outside str[0..maxlen), result NUL-terminated within maxlen, text kept (a trailing newline may be dropped).
 *   nonempty : the message expands to at least one character (or vsnprintf fails) and maxlen >= 1
 *   empty    : the message expands to the empty string, or the buffer has no room (maxlen 0: no enabled target
 *              selected, only the legacy internal log function) -> DESIGN.md 7 #9: str[len - 1] with len 0 */
#include "logc.h"

static void call_cs_format(char *str, size_t maxlen, struct qb_log_callsite *cs, ...)
{
	va_list ap;
	va_start(ap, cs);
	cs_format(str, maxlen, cs, ap);
	va_end(ap);
}

void harness(void)
{
	VERIF_ND(size_t, nd_maxlen);
	VERIF_ND(int32_t, nd_ret);
	VERIF_ND(uint8_t, nd_last);
	struct qb_log_callsite cs;
	verif_str_reset();
	ASSUME(nd_maxlen <= 4096 && nd_ret >= -1 && nd_ret <= 8192);
	ASSUME(V_CLASS);
	size_t bytes = nd_maxlen ? nd_maxlen : 1;       /* a zero-length buffer is modelled by a 1-byte object that must stay untouched */
	char *str = malloc(bytes);
	ASSUME(str != NULL);
	if (nd_maxlen == 0) str[0] = 'Z';
	/* the argument string has the length vsnprintf is to report, so that the native replay produces the same result */
	size_t arglen = nd_ret > 0 ? (size_t)nd_ret : 0;
	char *arg = verif_mkstr(0, arglen);
#ifndef VERIF_CBMC
	if (arglen > 0) arg[arglen - 1] = (char)(nd_last ? nd_last : 'x');
	ASSUME(nd_ret >= 0);
#endif
	cs.format = "%s";
	cs.function = "f"; cs.filename = "f.c"; cs.priority = 6; cs.lineno = 1; cs.tags = 0; cs.targets = 0;
	verif_vs_ret = nd_ret;
	verif_vs_last = nd_last;
	verif_vs_calls = 0;
	ASSUME(nd_last != 0);

	call_cs_format(str, nd_maxlen, &cs, arg);

#ifdef V_EMPTY
	COVER(nd_ret == 0 && nd_maxlen > 0); COVER(nd_maxlen == 0);
	if (nd_maxlen == 0) {
		POST(str[0] == 'Z', "a buffer without room is not written");
	} else {
		POST(str[0] == 0, "an empty message is delivered as the empty string");
	}
#else
	COVER(nd_ret == -1); COVER(nd_ret > 0 && (size_t)nd_ret < nd_maxlen); COVER((size_t)nd_ret == nd_maxlen); COVER(nd_ret > 0 && (size_t)nd_ret > nd_maxlen);
	COVER(nd_last == '\n' && nd_ret > 0 && (size_t)nd_ret < nd_maxlen); COVER(nd_maxlen == 1);
#ifdef VERIF_CBMC
	POST(verif_vs_calls == 1 && verif_vs_size == nd_maxlen, "the message is expanded once, limited to the buffer size");
	size_t k = verif_vs_nul;
	POST(k < nd_maxlen && str[k] == 0, "the expanded message is NUL-terminated within the buffer");
	if (k > 0 && nd_last != '\n') {
		POST(str[k - 1] == (char)nd_last, "the message text is kept");
	}
#endif
#endif
}
