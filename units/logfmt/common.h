/* common prelude of the log formatting units (C13): the real lib/log_format.c with the libc string
 * helpers replaced by the assumed contracts of stubs/str.h, and one arbitrary target record. */
#include "os_base.h"
#include <ctype.h>
#include <qb/qbdefs.h>
#include "log_int.h"
#include "verif.h"
#include "str.h"

/* declared-string slots (stubs/str.h registry) */
#define S_FMT 0
#define S_MSG 1
#define S_FUNC 2
#define S_FILE 3
#define S_TAGS 4
#define S_NAME 5

/* the target record the formatters look up (qb_log_target_get lives in lib/log.c: &conf[pos]) */
struct qb_log_target verif_target;
static struct qb_log_target *verif_qb_log_target_get(int32_t pos)
{
	return &verif_target;
}
#define qb_log_target_get verif_qb_log_target_get

/* ghost observers spliced into the formatting loops (contracts/log_format.spec); they only record */
size_t verif_fmt_len;          /* length of the format string being walked */
unsigned verif_out_idx;        /* mirror of output_buffer_idx after each step */
int verif_last_lit;            /* the literal character stored by the last step, -1 after a field */
int verif_incomplete;          /* a directive ran into the format's terminator */
#define VERIF_OBS_GHOSTS verif_out_idx, verif_last_lit, verif_incomplete
#define VERIF_OBS_INV (VERIF_ALLOW_INCOMPLETE || !verif_incomplete)
#ifndef VERIF_ALLOW_INCOMPLETE
#define VERIF_ALLOW_INCOMPLETE 0
#endif
#ifndef VERIF_EXIT_CLASS
#define VERIF_EXIT_CLASS 1
#endif
static void verif_obs_directive(int conv, size_t room, unsigned fmt_idx)
{
	POST(fmt_idx <= verif_fmt_len, "the format string is never read past its terminator");
	if (conv == 0) {
		verif_incomplete = 1;
		/* case split: the main variants cover formats whose every directive is complete, the
		 * "trailing" units cover the rest (DESIGN.md 7 #5) */
		ASSUME(VERIF_ALLOW_INCOMPLETE);
	}
	POST(room >= 1 && room <= verif_target.max_line_length, "the field copy is handed the room that is really left in the line buffer");
}
static void verif_obs_step(unsigned out_idx, int lit, unsigned fmt_idx)
{
	/* fmt_idx: after a literal it is the index just past it, after a field the index of its conversion character */
	POST(fmt_idx <= verif_fmt_len, "the format string is never read past its terminator");
	verif_out_idx = out_idx;
	verif_last_lit = lit;
}
/* the formatter releases the format lock right after its loop: the place where the variants split on
 * the state the loop ended in (VERIF_EXIT_CLASS is an expression over the ghosts above) */
static int verif_obs_unlock(pthread_rwlock_t *l)
{
	ASSUME(VERIF_EXIT_CLASS);
	return 0;
}
#undef pthread_rwlock_unlock
#define pthread_rwlock_unlock verif_obs_unlock
static void verif_obs_reset(void)
{
	verif_out_idx = 0; verif_last_lit = -1; verif_incomplete = 0;
}

#ifdef VERIF_CBMC
#ifdef VERIF_UNIT_STRDUP
#define strdup verif_strdup
#endif
#endif
#include "log_format.c"
#ifdef VERIF_WITH_STRLCPY
#include "strlcpy.c"
#endif

/* goto-instrument --apply-loop-contracts makes every non-const static nondet at entry (like --dfcc): units that
 * run with loop contracts re-establish the priority name table of log_format.c (same values as its initialiser;
 * the bounded units, which run without loop contracts, use the real initialiser). */
static void verif_init_tables(void)
{
#ifdef VERIF_CBMC
	prioritynames[0].c_name = "emerg"; prioritynames[1].c_name = "alert"; prioritynames[2].c_name = "crit";
	prioritynames[3].c_name = "error"; prioritynames[4].c_name = "warning"; prioritynames[5].c_name = "notice";
	prioritynames[6].c_name = "info"; prioritynames[7].c_name = "debug"; prioritynames[8].c_name = "trace";
	prioritynames[9].c_name = NULL;
#endif
}
