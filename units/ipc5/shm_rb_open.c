/*UNIT
{"props": ["C05"], "src": ["lib/ipc_shm.c"], "mode": "plain", "kind": "proved",
 "functions": ["qb_ipcs_shm_rb_open"],
 "stubs": ["qb_rb_open (ring or NULL)", "qb_rb_chown / qb_rb_chmod (recorded with a ghost clock, any result)", "qb_rb_close (counted)"],
 "drops": ["qb_util_log/qb_util_perror diagnostics compiled out (stubs/nolog.h)"],
 "expect_classes": ["assertion"], "timeout": 200, "cbmc_flags": ["--no-malloc-may-fail"]}
*/
/* qb_ipcs_shm_rb_open(c, one_way, name): the ring files created for an accepted connection are handed to
 * exactly the user/group the accept callback authorised (c->auth.uid/gid, by default the peer's) and get
 * exactly the mode it chose (c->auth.mode, by default 0600), chown before chmod, both before the ring is
 * reported usable; if either fails the ring is closed again (nothing is left behind) and the error returned. */
#include "../ipc/prelude.h"
#include "ringbuffer_int.h"

unsigned g_clock;
int g_open_calls, g_chown_calls, g_chmod_calls, g_close_calls;
unsigned g_chown_at, g_chmod_at;
uid_t g_chown_uid; gid_t g_chown_gid; mode_t g_chmod_mode;
int32_t g_chown_rc, g_chmod_rc;
size_t g_open_size; uint32_t g_open_flags;
static struct qb_ringbuffer_shared_s g_hdr;
static struct qb_ringbuffer_s g_ring;

static qb_ringbuffer_t *verif_rb_open(const char *name, size_t size, uint32_t flags, size_t user)
{
	VERIF_ND(uint8_t, nd_rb_open_fails);
	g_open_calls++; g_open_size = size; g_open_flags = flags;
	if (nd_rb_open_fails) { errno = ENOMEM; return NULL; }
	g_ring.shared_hdr = &g_hdr;
	return (qb_ringbuffer_t *)&g_ring;
}
static int32_t verif_rb_chown(qb_ringbuffer_t *rb, uid_t u, gid_t g) { g_chown_calls++; g_chown_at = ++g_clock; g_chown_uid = u; g_chown_gid = g; return g_chown_rc; }
static int32_t verif_rb_chmod(qb_ringbuffer_t *rb, mode_t m) { g_chmod_calls++; g_chmod_at = ++g_clock; g_chmod_mode = m; return g_chmod_rc; }
static void verif_rb_close(qb_ringbuffer_t *rb) { g_close_calls++; }
#define qb_rb_open verif_rb_open
#define qb_rb_chown verif_rb_chown
#define qb_rb_chmod verif_rb_chmod
#define qb_rb_close verif_rb_close
#define qb_rb_lastref_and_ret verif_lastref
static qb_ringbuffer_t *verif_lastref(qb_ringbuffer_t **rb) { qb_ringbuffer_t *r = *rb; *rb = NULL; return r; }
#include "ipc_shm.c"

void harness(void)
{
	VERIF_ND(uint32_t, nd_uid); VERIF_ND(uint32_t, nd_gid); VERIF_ND(uint32_t, nd_mode);
	VERIF_ND(int32_t, nd_chown_rc); VERIF_ND(int32_t, nd_chmod_rc);
	VERIF_ND(size_t, nd_max);
	struct qb_ipcs_connection *c = calloc(1, sizeof(*c));
	ASSUME(c != NULL);
	ASSUME(nd_chown_rc <= 0 && nd_chown_rc >= -133 && nd_chmod_rc <= 0 && nd_chmod_rc >= -133 && nd_mode <= 07777);
	g_clock = 0; g_open_calls = g_chown_calls = g_chmod_calls = g_close_calls = 0;
	g_chown_rc = nd_chown_rc; g_chmod_rc = nd_chmod_rc;
	c->auth.uid = nd_uid; c->auth.gid = nd_gid; c->auth.mode = nd_mode;
	c->request.max_msg_size = nd_max;

	int32_t rc = qb_ipcs_shm_rb_open(c, &c->request, "x-request");

	if (rc == 0) {
		COVER(1);
		POST(c->request.u.shm.rb != NULL, "success means a ring exists");
		POST(g_chown_calls == 1 && g_chown_uid == nd_uid && g_chown_gid == nd_gid, "ring files are owned by exactly the authorised user and group");
		POST(g_chmod_calls == 1 && g_chmod_mode == nd_mode, "ring files get exactly the authorised mode, nothing more permissive");
		POST(g_chown_at < g_chmod_at, "ownership is set before the mode");
		POST(g_close_calls == 0, "a usable ring is not closed");
	} else {
		COVER(g_open_calls == 1 && g_chown_calls == 1 && nd_chown_rc != 0);
		COVER(g_chmod_calls == 1 && nd_chmod_rc != 0);
		POST(c->request.u.shm.rb == NULL, "a ring whose ownership or mode could not be set is not handed out");
		POST(g_close_calls == (g_chown_calls > 0 ? 1 : 0), "such a ring is closed again: nothing remains for the client");
	}
	POST((g_open_flags & QB_RB_FLAG_CREATE) != 0, "the ring is created by the server");
}
