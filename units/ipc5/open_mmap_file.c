/*UNIT
{"props": ["C05"], "src": ["lib/unix.c"], "mode": "plain", "kind": "proved",
 "functions": ["open_mmap_file"],
 "stubs": ["strstr (either outcome)", "umask (ghost process mask)", "mkstemp / open (record the mode in force; any descriptor or error)"],
 "drops": ["qb_util_log/qb_util_perror diagnostics compiled out (stubs/nolog.h)"],
 "expect_classes": ["assertion"], "timeout": 120, "cbmc_flags": ["--no-malloc-may-fail"]}
*/
/* open_mmap_file(path, flags): every file libqb creates for shared memory (ring header/data files, the
 * socket transport's control file) comes into existence owner-only: open() is given mode 0600, mkstemp()
 * runs under umask 077, and the process umask is restored afterwards whatever mkstemp returns -- so at no
 * moment does such a file grant access to group or others before chown/chmod to the authorised owner/mode. */
#include "os_base.h"
#include <sys/stat.h>
#include <fcntl.h>
#include <stdarg.h>
#include "verif.h"
#include "util_int.h"
#include "nolog.h"

mode_t g_umask, g_umask_at_mkstemp, g_open_mode;
int g_mkstemp_calls, g_open_calls, g_strstr_hit;

static char *verif_strstr(const char *h, const char *n) { return g_strstr_hit ? (char *)h : NULL; }
static mode_t verif_umask(mode_t m) { mode_t old = g_umask; g_umask = m & 0777; return old; }
static int verif_mkstemp(char *tmpl) { VERIF_ND(int, nd_mkstemp_fd); ASSUME(nd_mkstemp_fd >= -1); g_mkstemp_calls++; g_umask_at_mkstemp = g_umask; if (nd_mkstemp_fd < 0) errno = EACCES; return nd_mkstemp_fd; }
static int verif_open(const char *path, int flags, ...)
{
	VERIF_ND(int, nd_open_fd);
	va_list ap; va_start(ap, flags); g_open_mode = va_arg(ap, mode_t); va_end(ap);
	ASSUME(nd_open_fd >= -1);
	g_open_calls++;
	if (nd_open_fd < 0) errno = EACCES;
	return nd_open_fd;
}
#define strstr(h, n) verif_strstr(h, n)
#define umask(m) verif_umask(m)
#define mkstemp(t) verif_mkstemp(t)
#define open(...) verif_open(__VA_ARGS__)
#include "unix.c"

void harness(void)
{
	VERIF_ND(uint32_t, nd_umask0);
	VERIF_ND(uint32_t, nd_flags);
	VERIF_ND(uint8_t, nd_is_template);
	char path[32] = "/dev/shm/qb-x";
	ASSUME(nd_umask0 <= 0777);
	g_umask = nd_umask0; g_mkstemp_calls = g_open_calls = 0; g_strstr_hit = nd_is_template; g_open_mode = 07777;

	int32_t fd = open_mmap_file(path, nd_flags);

	COVER(g_mkstemp_calls == 1 && fd >= 0);
	COVER(g_open_calls == 1 && fd < 0);
	POST(g_mkstemp_calls + g_open_calls == 1, "exactly one creating call");
	if (g_mkstemp_calls == 1) {
		POST((g_umask_at_mkstemp & 077) == 077, "temporary files are created under a umask that denies group and others");
	} else {
		POST((g_open_mode & 077) == 0, "files are created with an owner-only mode");
	}
	POST(g_umask == nd_umask0, "the process umask is restored");
}
