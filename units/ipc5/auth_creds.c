/*UNIT
{"props": ["C05"], "src": ["lib/ipc_setup.c"], "mode": "plain", "kind": "proved",
 "functions": ["qb_ipc_auth_creds"],
 "stubs": ["__cmsg_nxthdr (returns NULL: at most one control message fits the fixed-size control buffer)"],
 "unwindset": ["qb_ipc_auth_creds.0:3"],
 "drops": ["qb_util_log/qb_util_perror diagnostics compiled out (stubs/nolog.h)"],
 "expect_classes": ["assertion"], "timeout": 120, "cbmc_flags": ["--no-malloc-may-fail"]}
*/
/* qb_ipc_auth_creds(data): the uid/gid/pid recorded for a connecting peer are exactly the fields of the
 * SCM_CREDENTIALS control message the kernel attached to the handshake (for all values), and when no such
 * message is present the result is an error (so the accept callback is never consulted: ipc5.new_connection). */
#include "../ipc/prelude.h"
struct cmsghdr *__cmsg_nxthdr(struct msghdr *m, struct cmsghdr *c) { return NULL; }
#include "ipc_setup.c"

void harness(void)
{
	VERIF_ND(uint8_t, nd_kind);
	VERIF_ND(int32_t, nd_other_type);
	VERIF_ND(uint32_t, nd_uid); VERIF_ND(uint32_t, nd_gid); VERIF_ND(int32_t, nd_pid);
	struct ipc_auth_data *data = calloc(1, sizeof(*data));
	char *ctl = calloc(1, CMSG_SPACE(sizeof(struct ucred)));
	struct ucred cred;
	ASSUME(data != NULL && ctl != NULL);
	data->msg_recv.msg_control = ctl;
	data->ugp.uid = 12345; data->ugp.gid = 12345; data->ugp.pid = 12345;
	cred.uid = nd_uid; cred.gid = nd_gid; cred.pid = nd_pid;
	if (nd_kind == 0) {
		data->msg_recv.msg_controllen = 0;
	} else {
		struct cmsghdr *cm = (struct cmsghdr *)ctl;
		data->msg_recv.msg_controllen = CMSG_SPACE(sizeof(struct ucred));
		cm->cmsg_len = CMSG_LEN(sizeof(struct ucred));
		cm->cmsg_level = SOL_SOCKET;
		cm->cmsg_type = nd_kind == 1 ? SCM_CREDENTIALS : nd_other_type;
		memcpy(CMSG_DATA(cm), &cred, sizeof(cred));
	}
	int creds_present = nd_kind == 1 || (nd_kind > 1 && nd_other_type == SCM_CREDENTIALS);

	int32_t rc = qb_ipc_auth_creds(data);

	COVER(rc == 0); COVER(nd_kind == 0); COVER(nd_kind > 1 && !creds_present);
	POST((rc == 0) == creds_present, "credentials are accepted exactly when the kernel attached them");
	if (rc == 0) {
		POST(data->ugp.uid == nd_uid && data->ugp.gid == nd_gid && data->ugp.pid == nd_pid, "the recorded ids are the kernel-reported credentials of the peer");
	} else {
		POST(rc < 0, "missing credentials are an error");
	}
}
