/*UNIT
{"props": ["C05"], "src": ["lib/ipc_socket.c"], "mode": "plain", "kind": "proved",
 "functions": ["qb_ipcs_us_connect (control-file creation part)"],
 "stubs": ["qb_sys_mmap_file_open (descriptor or -errno)", "chown / chmod (recorded with a ghost clock, any result)",
           "mmap (fails in this unit: the exploration is cut after ownership and mode are set)", "snprintf / strlcpy (NUL-terminated)", "close / unlink / munmap (counted)"],
 "drops": ["qb_util_log/qb_util_perror diagnostics compiled out (stubs/nolog.h)"],
 "expect_classes": ["assertion"], "timeout": 200, "cbmc_flags": ["--no-malloc-may-fail"]}
*/
/* qb_ipcs_us_connect (socket transport): the control file created for an accepted connection is handed to
 * exactly the user/group the accept callback authorised (c->auth.uid/gid -- not the peer's own ids when the
 * callback chose others) and gets exactly the authorised mode, ownership first, before the file is mapped and
 * before the client is told its name. */
#include "../ipc/prelude.h"
#include <stdarg.h>

unsigned g_clock;
int g_open_calls, g_chown_calls, g_chmod_calls, g_mmap_calls;
unsigned g_chown_at, g_chmod_at, g_mmap_at;
uid_t g_chown_uid; gid_t g_chown_gid; mode_t g_chmod_mode;
uint32_t g_open_flags;

static int32_t verif_mmap_file_open(char *path, const char *file, size_t bytes, uint32_t file_flags)
{
	VERIF_ND(int32_t, nd_fd);
	ASSUME(nd_fd >= -133);
	g_open_calls++; g_open_flags = file_flags;
	path[0] = '/'; path[1] = 0;
	return nd_fd;
}
static int verif_chown(const char *p, uid_t u, gid_t g) { VERIF_ND(uint8_t, nd_chown_fails); g_chown_calls++; g_chown_at = ++g_clock; g_chown_uid = u; g_chown_gid = g; return nd_chown_fails ? -1 : 0; }
static int verif_chmod(const char *p, mode_t m) { VERIF_ND(uint8_t, nd_chmod_fails); g_chmod_calls++; g_chmod_at = ++g_clock; g_chmod_mode = m; return nd_chmod_fails ? -1 : 0; }
static void *verif_mmap(void *a, size_t l, int pr, int fl, int fd, off_t off) { g_mmap_calls++; g_mmap_at = ++g_clock; errno = ENOMEM; return MAP_FAILED; }
static int verif_snprintf(char *str, size_t size, const char *fmt, ...) { if (size > 0) { str[0] = 0; } return 0; }
static size_t verif_strlcpy(char *d, const char *s, size_t n) { if (n > 0) { d[0] = 0; } return 0; }
#define qb_sys_mmap_file_open verif_mmap_file_open
#define chown(p, u, g) verif_chown(p, u, g)
#define chmod(p, m) verif_chmod(p, m)
#define mmap(a, l, pr, fl, fd, off) verif_mmap(a, l, pr, fl, fd, off)
#define snprintf verif_snprintf
#define strlcpy verif_strlcpy
#include "ipc_setup.c"
#include "ipc_socket.c"

void harness(void)
{
	VERIF_ND(uint32_t, nd_uid); VERIF_ND(uint32_t, nd_gid); VERIF_ND(uint32_t, nd_mode);
	VERIF_ND(uint32_t, nd_euid); VERIF_ND(uint32_t, nd_egid);
	struct qb_ipcs_service *s = calloc(1, sizeof(*s));
	struct qb_ipcs_connection *c = calloc(1, sizeof(*c));
	struct qb_ipc_connection_response *r = calloc(1, sizeof(*r));
	ASSUME(s != NULL && c != NULL && r != NULL && nd_mode <= 07777);
	verif_os_ipc_reset();
	g_clock = 0; g_open_calls = g_chown_calls = g_chmod_calls = g_mmap_calls = 0;
	c->service = s;
	c->auth.uid = nd_uid; c->auth.gid = nd_gid; c->auth.mode = nd_mode;
	c->euid = nd_euid; c->egid = nd_egid;
	c->setup.u.us.sock = 7;

	int32_t rc = qb_ipcs_us_connect(s, c, r);

	COVER(g_mmap_calls == 1);
	COVER(g_open_calls == 1 && g_chown_calls == 0);
	POST(rc != 0, "this unit cuts the connect after the control file is prepared");
	POST(g_open_calls == 1 && (g_open_flags & O_CREAT) && (g_open_flags & O_EXCL), "the control file is created exclusively by the server");
	if (g_mmap_calls == 1) {
		POST(g_chown_calls == 1 && g_chown_uid == nd_uid && g_chown_gid == nd_gid, "the control file is owned by exactly the authorised user and group");
		POST(g_chmod_calls == 1 && g_chmod_mode == nd_mode, "the control file gets exactly the authorised mode");
		POST(g_chown_at < g_chmod_at && g_chmod_at < g_mmap_at, "ownership, then mode, before the file is used");
	}
}
