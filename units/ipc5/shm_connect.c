/*UNIT
{"props": ["C05"], "src": ["lib/ipc_shm.c"], "mode": "plain", "kind": "proved",
 "functions": ["qb_ipcs_shm_connect", "qb_ipcs_shm_rb_open"],
 "restrict_fp": ["qb_ipcs_shm_connect.function_pointer_call.1/verif_dispatch_add"],
 "stubs": ["chown (recorded: path, owner, group; always succeeds - the code ignores its result)", "qb_rb_open (ring or NULL)",
           "qb_rb_chown / qb_rb_chmod (recorded, any result)", "qb_rb_close (counted)", "poll_fns.dispatch_add (any result)",
           "snprintf (ring names: fixed short text), strlcpy (contract of unit logfmt.qb_strlcpy), strrchr (CBMC model) over the fixed connection description \"/dev/shm/qb-1-2-3-abcdef/qb\""],
 "drops": ["qb_util_log/qb_util_perror diagnostics compiled out (stubs/nolog.h)"],
 "unwind": 40, "bound": "none: the only loops are string walks over the fixed 27-character description, unwound completely (unwinding assertions on)",
 "expect_classes": ["assertion"], "timeout": 300, "cbmc_flags": ["--no-malloc-may-fail"]}
*/
/* qb_ipcs_shm_connect runs after the accept callback, i.e. after qb_ipcs_connection_auth_set may have changed the
 * owner, the group or both: when it reports success the connection's directory has been handed to exactly the
 * authorised user AND group (for all combinations of peer and authorised ids - also when only the group differs),
 * and each of the three rings was created with the authorised owner/group/mode (qb_ipcs_shm_rb_open, inlined).
 * When it fails, every ring it had opened is closed again. */
#include "../ipc/prelude.h"
#include "ringbuffer_int.h"

#define V_DIR "/dev/shm/qb-1-2-3-abcdef"
int g_open_calls, g_chown_calls, g_chmod_calls, g_close_calls, g_bad_ring_owner, g_bad_ring_mode;
int g_dir_chowns; uid_t g_dir_uid; gid_t g_dir_gid;
uid_t g_auth_uid; gid_t g_auth_gid; mode_t g_auth_mode;
static struct qb_ringbuffer_shared_s g_hdr[3];
static struct qb_ringbuffer_s g_ring[3];

static int verif_streq(const char *a, const char *b)
{
	for (int i = 0; i < 32; i++) {
		if (a[i] != b[i]) { return 0; }
		if (a[i] == 0) { return 1; }
	}
	return 0;
}
static int verif_chown(const char *path, uid_t u, gid_t g)
{
	if (verif_streq(path, V_DIR)) { g_dir_chowns++; g_dir_uid = u; g_dir_gid = g; }
	return 0;
}
static qb_ringbuffer_t *verif_rb_open(const char *name, size_t size, uint32_t flags, size_t user)
{
	VERIF_ND(uint8_t, nd_rb_open_fails);
	if (nd_rb_open_fails || g_open_calls >= 3) { errno = ENOMEM; return NULL; }
	g_ring[g_open_calls].shared_hdr = &g_hdr[g_open_calls];
	return (qb_ringbuffer_t *)&g_ring[g_open_calls++];
}
static int32_t verif_rb_chown(qb_ringbuffer_t *rb, uid_t u, gid_t g)
{
	VERIF_ND(int32_t, nd_rb_chown_rc);
	ASSUME(nd_rb_chown_rc <= 0 && nd_rb_chown_rc >= -133);
	g_chown_calls++;
	if (u != g_auth_uid || g != g_auth_gid) { g_bad_ring_owner = 1; }
	return nd_rb_chown_rc;
}
static int32_t verif_rb_chmod(qb_ringbuffer_t *rb, mode_t m)
{
	VERIF_ND(int32_t, nd_rb_chmod_rc);
	ASSUME(nd_rb_chmod_rc <= 0 && nd_rb_chmod_rc >= -133);
	g_chmod_calls++;
	if (m != g_auth_mode) { g_bad_ring_mode = 1; }
	return nd_rb_chmod_rc;
}
static void verif_rb_close(qb_ringbuffer_t *rb) { if (rb != NULL) { g_close_calls++; } }
static qb_ringbuffer_t *verif_lastref(qb_ringbuffer_t **rb) { qb_ringbuffer_t *r = *rb; *rb = NULL; return r; }
static int32_t verif_dispatch_add(enum qb_loop_priority p, int32_t fd, int32_t events, void *data, qb_ipcs_dispatch_fn_t fn)
{
	VERIF_ND(int32_t, nd_dispatch_add_rc);
	ASSUME(nd_dispatch_add_rc <= 0 && nd_dispatch_add_rc >= -133);
	return nd_dispatch_add_rc;
}
/* strlcpy contract (libqb's own body is decided in unit logfmt.qb_strlcpy): min(strlen(src), maxlen-1) characters + NUL */
static size_t verif_strlcpy_local(char *dest, const char *src, size_t maxlen)
{
	size_t i = 0;
	for (; i < 39 && src[i] != 0; i++) {
		if (i + 1 < maxlen) { dest[i] = src[i]; }
	}
	if (maxlen > 0) { dest[i + 1 < maxlen ? i : maxlen - 1] = 0; }
	return i;
}
#define strlcpy verif_strlcpy_local
/* the ring names are irrelevant here (the rings are stubs): snprintf writes a fixed short name */
static int verif_snprintf_name(char *buf, size_t n) { if (n > 1) { buf[0] = 'n'; buf[1] = 0; } return 1; }
#define snprintf(buf, n, ...) verif_snprintf_name(buf, n)
#define chown verif_chown
#define qb_rb_open verif_rb_open
#define qb_rb_chown verif_rb_chown
#define qb_rb_chmod verif_rb_chmod
#define qb_rb_close verif_rb_close
#define qb_rb_lastref_and_ret verif_lastref
#include "ipc_shm.c"

void harness(void)
{
	VERIF_ND(uint32_t, nd_peer_uid); VERIF_ND(uint32_t, nd_peer_gid);
	VERIF_ND(uint32_t, nd_uid); VERIF_ND(uint32_t, nd_gid); VERIF_ND(uint32_t, nd_mode);
	struct qb_ipcs_connection *c = calloc(1, sizeof(*c));
	struct qb_ipcs_service *s = calloc(1, sizeof(*s));
	struct qb_ipc_connection_response r;
	ASSUME(c != NULL && s != NULL && nd_mode <= 07777);
	g_open_calls = g_chown_calls = g_chmod_calls = g_close_calls = g_bad_ring_owner = g_bad_ring_mode = 0;
	/* the directory was created for the peer (handle_new_connection, before the accept callback ran) */
	g_dir_chowns = 0; g_dir_uid = nd_peer_uid; g_dir_gid = nd_peer_gid;
	c->euid = nd_peer_uid; c->egid = nd_peer_gid;
	c->auth.uid = g_auth_uid = nd_uid; c->auth.gid = g_auth_gid = nd_gid; c->auth.mode = g_auth_mode = nd_mode;
	memcpy(c->description, V_DIR "/qb", sizeof(V_DIR "/qb"));
	s->name[0] = 's'; s->name[1] = 0;
	s->poll_fns.dispatch_add = verif_dispatch_add;
	c->request.max_msg_size = c->response.max_msg_size = c->event.max_msg_size = 4096;

	int32_t rc = qb_ipcs_shm_connect(s, c, &r);

	if (rc == 0) {
		COVER(nd_uid == nd_peer_uid && nd_gid != nd_peer_gid);
		COVER(nd_uid != nd_peer_uid && nd_gid == nd_peer_gid);
		COVER(nd_uid == nd_peer_uid && nd_gid == nd_peer_gid);
		POST(g_dir_uid == nd_uid && g_dir_gid == nd_gid, "the connection's directory is owned by the user and group the accept callback authorised");
		POST(g_open_calls == 3 && g_chown_calls == 3 && g_chmod_calls == 3 && !g_bad_ring_owner && !g_bad_ring_mode,
		     "each of the three rings gets exactly the authorised owner, group and mode");
		POST(g_close_calls == 0 && r.hdr.error == 0, "an accepted connection keeps its rings");
	} else {
		COVER(g_open_calls == 3);
		COVER(g_open_calls == 1);
		POST(g_close_calls == g_open_calls, "a connection that could not be set up keeps no ring");
		POST(c->request.u.shm.rb == NULL && c->response.u.shm.rb == NULL && c->event.u.shm.rb == NULL, "a connection that could not be set up keeps no ring");
		POST(r.hdr.error == rc, "the client is told the error");
	}
	POST(!g_bad_ring_owner && !g_bad_ring_mode, "no ring is ever given another owner, group or mode than the authorised ones");
}
