/*UNIT
{"props": ["C05", "C04"], "src": ["lib/ipc_setup.c"], "spec": ["ipc_setup.spec"], "tags": ["c05"], "mode": "plain", "kind": "proved",
 "functions": ["handle_new_connection"],
 "stubs": ["qb_ipcs_connection_alloc/ref/unref, qb_ipcs_disconnect (ipcs.c: decided in the C04 units; here ghost counters)",
           "snprintf (NUL-terminated, any length result)", "mkdtemp/chmod/chown (recorded with a ghost clock, any result)",
           "send (all-or-error; the real qb_ipc_us_send runs)", "ghost observer capturing the response record before it is sent", "calloc (may fail)", "close/shutdown (counted)",
           "service callbacks connection_accept / connection_created and transport connect (ghost monitor)"],
 "drops": ["qb_util_log/qb_util_perror diagnostics compiled out (stubs/nolog.h)"],
 "restrict_fp": ["handle_new_connection.function_pointer_call.1/verif_accept", "handle_new_connection.function_pointer_call.2/verif_connect",
                 "handle_new_connection.function_pointer_call.3/verif_created"],
 "unwindset": ["qb_ipc_us_send.0:3", "qb_ipc_us_send.1:3"],
 "expect_classes": ["assertion"], "timeout": 300, "cbmc_flags": ["--no-malloc-may-fail"]}
*/
/* handle_new_connection(s, auth_result, sock, request, len, credentials) for every authentication
 * result, every accept decision and error code, every outcome of directory creation, transport connect
 * and response send:
 *  - the uid/gid handed to the accept callback are exactly the credentials received with the handshake;
 *    the callback is not consulted at all when authentication already failed;
 *  - a refusal (accept != 0) short-circuits: the transport connect is never called (no ring, control file
 *    or socket is created), the response carries exactly that error, the connection is not linked into
 *    the service list, stays INACTIVE (so no message can be dispatched for it), its initial reference is
 *    dropped and the socket is closed; connection_created is not invoked;
 *  - connection_created runs only after accept returned 0, the transport connected and the response was
 *    sent, and it is bracketed by a temporary reference (C04);
 *  - the per-connection directory is made by mkdtemp, then chmod, then chown to the peer's ids, before
 *    the accept callback and before any file is created in it. */
#include <stdarg.h>
#include "os_base.h"
#include "verif.h"
#include "alloc.h"
#include "../ipc/prelude.h"

unsigned g_clock;
int g_alloc_fail, g_ref_calls, g_unref_calls, g_disc_calls, g_accept_calls, g_connect_calls, g_created_calls;
unsigned g_accept_at, g_connect_at, g_created_at, g_mkdtemp_at, g_chmod_at, g_chown_at, g_send_at;
uid_t g_accept_uid; gid_t g_accept_gid;
int32_t g_accept_rc, g_connect_rc;
int g_refs;                       /* ghost reference count of the connection */
int g_refs_at_created;
int g_mkdtemp_calls, g_chmod_calls, g_chown_calls;
mode_t g_chmod_mode; uid_t g_chown_uid; gid_t g_chown_gid;
int32_t g_resp_error; int g_send_calls; int32_t g_resp_type; uint32_t g_resp_max;
struct qb_ipcs_connection *g_c;

static struct qb_ipcs_connection *verif_connection_alloc(struct qb_ipcs_service *s)
{
	VERIF_ND(uint8_t, nd_conn_alloc_fails);
	struct qb_ipcs_connection *c;
	if (nd_conn_alloc_fails) { return NULL; }
	c = calloc(1, sizeof(*c));
	ASSUME(c != NULL);
	c->service = s; c->refcount = 1; c->state = QB_IPCS_CONNECTION_INACTIVE;
	qb_list_init(&c->list);
	g_refs = 1; g_c = c;
	return c;
}
static void verif_connection_ref(struct qb_ipcs_connection *c) { g_ref_calls++; g_refs++; }
static void verif_connection_unref(struct qb_ipcs_connection *c) { g_unref_calls++; g_refs--; }
static void verif_disconnect(struct qb_ipcs_connection *c) { g_disc_calls++; }
static int verif_snprintf(char *str, size_t size, const char *fmt, ...)
{
	VERIF_ND(int, nd_snprintf_rc);
	ASSUME(nd_snprintf_rc >= -1 && nd_snprintf_rc <= 4096);
	if (size > 0) { str[0] = 'd'; str[size > 1 ? 1 : 0] = 0; }
	if (nd_snprintf_rc < 0) { errno = EILSEQ; }   /* a failing snprintf sets errno */
	return nd_snprintf_rc;
}
static char *verif_mkdtemp(char *tmpl) { VERIF_ND(uint8_t, nd_mkdtemp_fails); g_mkdtemp_calls++; g_mkdtemp_at = ++g_clock; if (nd_mkdtemp_fails) { errno = EACCES; return NULL; } return tmpl; }
static int verif_chmod(const char *p, mode_t m) { VERIF_ND(uint8_t, nd_chmod_fails); g_chmod_calls++; g_chmod_at = ++g_clock; g_chmod_mode = m; if (nd_chmod_fails) { errno = EPERM; return -1; } return 0; }
static int verif_chown(const char *p, uid_t u, gid_t g) { VERIF_ND(uint8_t, nd_chown_fails); g_chown_calls++; g_chown_at = ++g_clock; g_chown_uid = u; g_chown_gid = g; if (nd_chown_fails) { errno = EPERM; return -1; } return 0; }
struct qb_ipc_connection_response;
static void verif_capture_response(const struct qb_ipc_connection_response *r);
#define qb_ipcs_connection_alloc verif_connection_alloc
#define qb_ipcs_connection_ref verif_connection_ref
#define qb_ipcs_connection_unref verif_connection_unref
#define qb_ipcs_disconnect verif_disconnect
#define snprintf verif_snprintf
#define mkdtemp verif_mkdtemp
#define chmod verif_chmod
#define chown verif_chown
#include "ipc_setup.c"

static void verif_capture_response(const struct qb_ipc_connection_response *r)
{
	g_send_calls++; g_send_at = ++g_clock;
	g_resp_error = r->hdr.error; g_resp_type = r->connection_type; g_resp_max = r->max_msg_size;
}

static int32_t verif_accept(qb_ipcs_connection_t *c, uid_t uid, gid_t gid)
{
	g_accept_calls++; g_accept_at = ++g_clock; g_accept_uid = uid; g_accept_gid = gid;
	POST(g_connect_calls == 0, "no transport resource exists yet when the accept callback decides");
	return g_accept_rc;
}
static int32_t verif_connect(struct qb_ipcs_service *s, struct qb_ipcs_connection *c, struct qb_ipc_connection_response *r)
{
	g_connect_calls++; g_connect_at = ++g_clock;
	return g_connect_rc;
}
int g_created_disconnects, g_state_at_created;
static void verif_created(qb_ipcs_connection_t *c)
{
	VERIF_ND(uint8_t, nd_created_disconnects);
	g_created_calls++; g_created_at = ++g_clock; g_refs_at_created = g_refs; g_state_at_created = c->state;
	if (nd_created_disconnects) {
		/* the application disconnects the new connection from inside connection_created (a history C04 names).
		 * Effect of the real qb_ipcs_disconnect on an ACTIVE connection (what unit ipc.disconnect proves):
		 * the transport is torn down, the state becomes INACTIVE and the initial reference is dropped */
		g_created_disconnects = 1;
		c->state = QB_IPCS_CONNECTION_INACTIVE;
		g_refs--;
	}
}

void harness(void)
{
	VERIF_ND(int32_t, nd_auth_result);
	VERIF_ND(int32_t, nd_accept_rc);
	VERIF_ND(int32_t, nd_connect_rc);
	VERIF_ND(uint32_t, nd_req_max);
	VERIF_ND(uint32_t, nd_srv_max);
	VERIF_ND(uint32_t, nd_uid); VERIF_ND(uint32_t, nd_gid); VERIF_ND(int32_t, nd_pid);
	VERIF_ND(uint8_t, nd_have_accept); VERIF_ND(uint8_t, nd_have_created);
	struct qb_ipcs_service *s = calloc(1, sizeof(*s));
	struct qb_ipc_connection_request req;
	struct ipc_auth_ugp ugp;
	ASSUME(s != NULL);
	verif_os_ipc_reset();
	verif_send_never_partial = 1;   /* the response is sent in one piece or not at all (the retry loop of qb_ipc_us_send is not this unit's subject) */
	verif_alloc_calls = 0; verif_alloc_never_fails = 0;
	g_clock = 0; g_ref_calls = g_unref_calls = g_disc_calls = g_accept_calls = g_connect_calls = g_created_calls = 0;
	g_mkdtemp_calls = g_chmod_calls = g_chown_calls = g_send_calls = 0; g_refs = 0; g_c = NULL; g_refs_at_created = 0; g_created_disconnects = 0; g_state_at_created = -1;
	ASSUME(nd_auth_result <= 0 && nd_auth_result >= -133 && nd_accept_rc >= -133 && nd_accept_rc <= 133 && nd_connect_rc <= 0 && nd_connect_rc >= -133);
	ASSUME(nd_req_max >= 1 && nd_req_max <= (1u << 20) && nd_srv_max <= (1u << 20));   /* range: buffer sizes up to 1 MiB */
	g_accept_rc = nd_accept_rc; g_connect_rc = nd_connect_rc;
	qb_list_init(&s->connections);
	s->pid = 77; s->type = QB_IPC_SHM; s->max_buffer_size = nd_srv_max;
	s->serv_fns.connection_accept = nd_have_accept ? verif_accept : NULL;
	s->serv_fns.connection_created = nd_have_created ? verif_created : NULL;
	s->funcs.connect = verif_connect;
	req.hdr.id = QB_IPC_MSG_AUTHENTICATE; req.hdr.size = sizeof(req); req.max_msg_size = nd_req_max;
	ugp.uid = nd_uid; ugp.gid = nd_gid; ugp.pid = nd_pid;

	int32_t rc = handle_new_connection(s, nd_auth_result, 9, &req, sizeof(req), &ugp);

	if (g_c == NULL) {
		COVER(1);
		POST(rc == -ENOMEM && g_accept_calls == 0 && g_connect_calls == 0, "no connection object: nothing is created and nobody is consulted");
	} else {
		COVER(rc == 0);
		COVER(g_accept_calls == 1 && nd_accept_rc != 0);
		COVER(nd_auth_result != 0);
		COVER(g_accept_calls == 1 && nd_accept_rc == 0 && nd_connect_rc != 0);
		POST(g_accept_calls <= 1 && g_connect_calls <= 1 && g_created_calls <= 1, "each admission step happens at most once");
		if (g_accept_calls == 1) {
			POST(g_accept_uid == nd_uid && g_accept_gid == nd_gid, "the accept callback is given exactly the credentials received with the handshake");
			POST(nd_auth_result == 0, "the accept callback is only consulted for an authenticated peer");
			POST(g_mkdtemp_calls == 1 && g_mkdtemp_at < g_accept_at, "the connection directory exists before the accept callback runs");
		}
		if (nd_auth_result != 0) {
			POST(g_accept_calls == 0 && g_connect_calls == 0 && g_created_calls == 0, "an unauthenticated peer gets no channel and no callback");
			POST(rc != 0 && (g_send_calls == 0 || g_resp_error != 0), "an unauthenticated peer is told that its connect failed");
		}
		if (g_accept_calls == 1 && nd_accept_rc != 0) {
			POST(g_connect_calls == 0, "a refused peer gets no channel: the transport connect is never called");
			POST(g_created_calls == 0, "connection_created is not invoked for a refused peer");
			POST(g_send_calls == 0 || g_resp_error == nd_accept_rc, "the client's connect fails with exactly the accept callback's error");
			POST(rc == nd_accept_rc, "refusal is reported");
			POST(qb_list_empty(&s->connections) && g_c->state == QB_IPCS_CONNECTION_INACTIVE, "a refused peer is never linked into the service nor becomes dispatchable");
			POST(g_unref_calls == 1 && g_disc_calls == 0 && verif_close_calls >= 1, "a refused peer's connection object is released and its socket closed");
		}
		if (g_connect_calls == 1) {
			POST(g_accept_calls == 1 ? (nd_accept_rc == 0 && g_accept_at < g_connect_at) : !nd_have_accept, "channels are only created after the accept callback agreed");
		}
		if (g_created_calls == 1) {
			POST(rc == 0 && g_connect_calls == 1 && nd_connect_rc == 0 && g_send_at < g_created_at, "connection_created only after accept, connect and a delivered response");
			POST(g_state_at_created == QB_IPCS_CONNECTION_ACTIVE, "connection_created sees a connection that is linked but not yet established");
			if (!g_created_disconnects) {
				COVER(1);
				POST(g_refs_at_created >= 2 && g_refs == 1, "connection_created is bracketed by a temporary reference");
				POST(g_c->state == QB_IPCS_CONNECTION_ESTABLISHED, "a created connection is established");
			} else {
				COVER(1);
				POST(g_refs_at_created >= 2 && g_refs == 0, "connection_created is bracketed by a temporary reference (after a disconnect inside it nothing is left)");
				POST(g_c->state == QB_IPCS_CONNECTION_INACTIVE, "a connection that was disconnected inside connection_created stays disconnected (a later disconnect must not tear it down a second time)");
			}
		}
		if (g_chmod_calls > 0) {
			POST(g_mkdtemp_at < g_chmod_at && (g_chown_calls == 0 || g_chmod_at < g_chown_at), "directory: mkdtemp, then chmod, then chown");
			POST((g_chmod_mode & 007) == 0, "the connection directory grants nothing to other users");
		}
		if (g_chown_calls > 0) {
			POST(g_chown_uid == nd_uid && g_chown_gid == nd_gid, "the connection directory is handed to the peer's user and group");
		}
		if (rc != 0 && g_created_calls == 0 && g_connect_calls == 1 && nd_connect_rc == 0) {
			COVER(1);   /* response could not be sent after the transport was set up */
			POST(g_disc_calls == 1, "a connection whose response cannot be delivered is disconnected (transport torn down)");
		}
	}
}
