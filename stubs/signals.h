/* signal-API stubs (assumed: installing handlers and editing signal sets has no effect on the loop's data;
 * verif_sigaction_calls counts installations).  Include after <signal.h> and before the spliced source. */
#ifndef VERIF_STUB_SIGNALS_H
#define VERIF_STUB_SIGNALS_H
#include <signal.h>
unsigned verif_sigaction_calls, verif_signal_dfl_calls;
static int verif_sigemptyset(sigset_t *s) { return 0; }
static int verif_sigaddset(sigset_t *s, int n) { return 0; }
static int verif_sigismember(const sigset_t *s, int n) { return 0; }
static int verif_sigaction(int n, const struct sigaction *a, struct sigaction *o) { verif_sigaction_calls++; return 0; }
static __sighandler_t verif_signal(int n, __sighandler_t h) { verif_signal_dfl_calls++; return SIG_DFL; }
#undef sigemptyset
#undef sigaddset
#undef sigismember
#define sigemptyset verif_sigemptyset
#define sigaddset verif_sigaddset
#define sigismember verif_sigismember
#define sigaction(n, a, o) verif_sigaction(n, a, o)
#define signal verif_signal
#endif
