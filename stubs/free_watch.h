/* free() observer: counts how often the object the harness watches (verif_watch_ptr / verif_watch_ptr2) is
 * released, then really frees.  Include after the system headers and before the spliced source. */
#ifndef VERIF_STUB_FREE_WATCH_H
#define VERIF_STUB_FREE_WATCH_H
#include <stdlib.h>
void *verif_watch_ptr, *verif_watch_ptr2, *verif_watch_ptr3;
int verif_watch_freed, verif_watch_freed2, verif_watch_freed3;
unsigned verif_free_seq;              /* ghost clock: advanced by every observed event */
unsigned verif_watch_freed_at, verif_watch_freed2_at;
static void verif_free(void *p)
{
	if (p != NULL && p == verif_watch_ptr) { verif_watch_freed++; verif_watch_freed_at = ++verif_free_seq; }
	if (p != NULL && p == verif_watch_ptr2) { verif_watch_freed2++; verif_watch_freed2_at = ++verif_free_seq; }
	if (p != NULL && p == verif_watch_ptr3) { verif_watch_freed3++; }
	free(p);
}
#define free verif_free
#endif
