/* memcpy in witness form (assumed contract): source readable and destination writable for n bytes are
 * ASSERTED at every call; the destination range is havocked and one arbitrary byte (offset
 * verif_memcpy_wit, chosen freely by the harness) is copied.  Affordable for symbolic lengths. */
#ifndef VERIF_STUB_MEM_H
#define VERIF_STUB_MEM_H
#include "verif.h"
#include <string.h>
size_t verif_memcpy_wit;
unsigned verif_memcpy_calls;
static void *verif_memcpy(void *d, const void *s, size_t n)
{
	verif_memcpy_calls++;
#ifdef VERIF_CBMC
	if (n > 0) {
		__CPROVER_assert(__CPROVER_r_ok(s, n), "memcpy source readable for the whole length");
		__CPROVER_assert(__CPROVER_w_ok(d, n), "memcpy destination writable for the whole length");
		__CPROVER_havoc_slice(d, n);
		if (verif_memcpy_wit < n) {
			((char *)d)[verif_memcpy_wit] = ((const char *)s)[verif_memcpy_wit];
		}
	}
	return d;
#else
	return memcpy(d, s, n);
#endif
}
#define memcpy verif_memcpy
#endif
