/* OS / libc stubs for the logging units (lib/log.c, lib/log_thread.c) -- assumed contracts, DESIGN.md 5.3.
 * Include after the system headers and BEFORE the spliced source.  Every result a stub invents is drawn
 * with VERIF_ND so the native replay can script it.  Ghost state must be initialised by the harness
 * (verif_log_os_reset()).
 *
 *  regexec      any result (0 = match); the result is a function of the regex object only
 *               (verif_regex_result[k] for the k-th registered regex), the subject pointer is recorded
 *  regcomp      may fail (any non-zero code); regfree: no effect
 *  pthread_rwlock_*   sequential no-ops, ghost depth
 *  sem_*        counting semaphore as a ghost integer (sem_wait on 0 is outside the sequential model: asserted)
 *  pthread_create/join/exit   no thread is run (sequential facts only); pthread_exit ends the path
 *  strcmp       reference loop, or (-DVERIF_STRCMP_PREFIX2) a loop-free over-approximation exact on two characters
 *  strchrnul    reference loop;  strstr: any result (NULL / inside the haystack), arguments recorded
 *  strchr       only used for the QB_XC marker: position given by the ghost verif_xc_pos
 *  strlen       ghost length of the one registered message buffer, reference loop otherwise
 *  vsnprintf    (-DVERIF_MSG_EMPTY: writes the empty message and returns 0) otherwise writes a three-character message (arbitrary characters, the QB_XC marker absent / first / middle / last)
 *               and returns 3 -- formatting itself is property C13's business
 *  snprintf     the two forms libqb's log.c uses ("%.*s" and "custom-%u")
 *  strdup       fresh copy or NULL
 *  malloc/calloc  fresh object (calloc: zeroed) or NULL + ENOMEM
 */
#ifndef VERIF_STUB_LOG_OS_H
#define VERIF_STUB_LOG_OS_H
#include "verif.h"
#include <string.h>
#include <stdio.h>
#include <stdarg.h>
#include <stdlib.h>
#include <regex.h>
#include <pthread.h>
#include <semaphore.h>
#include <errno.h>

/* ---------------- allocation (same contract as stubs/alloc.h; plus a compile-time "always fails" switch) ----------------
 * -DVERIF_MALLOC_ALWAYS_FAILS makes malloc return a CONSTANT NULL: used by units whose configuration never reaches the
 * allocation (line limits <= QB_LOG_MAX_LEN) so that symex does not have to carry a second, symbolic-size buffer object
 * through 32 unwound iterations (measured: 10.9 M variables and out of memory with it, 0.4 M without). */
unsigned verif_alloc_calls;        /* ghost: number of successful allocations */
int verif_alloc_never_fails;       /* harness switch: 1 = allocations always succeed */
static void *verif_log_malloc(size_t n)
{
#ifdef VERIF_MALLOC_ALWAYS_FAILS
	errno = ENOMEM;
	return NULL;
#else
	VERIF_ND(uint8_t, nd_malloc_fails);
	void *p;
	if (nd_malloc_fails && !verif_alloc_never_fails) {
		errno = ENOMEM;
		return NULL;
	}
	p = malloc(n);
	ASSUME(p != NULL);
	verif_alloc_calls++;
	return p;
#endif
}
static void *verif_log_calloc(size_t n, size_t sz)
{
	VERIF_ND(uint8_t, nd_calloc_fails);
	void *p;
	if (nd_calloc_fails && !verif_alloc_never_fails) {
		errno = ENOMEM;
		return NULL;
	}
	p = calloc(n, sz);
	ASSUME(p != NULL);
	verif_alloc_calls++;
	return p;
}
/* harness-side allocation that never fails (state building) */
static void *verif_new(size_t n)
{
	void *p = malloc(n);
	ASSUME(p != NULL);
	return p;
}
#define malloc verif_log_malloc
#define calloc verif_log_calloc

/* ---------------- regex ---------------- */
#define VERIF_MAX_REGEX 4
const regex_t *verif_regex_obj[VERIF_MAX_REGEX];
int verif_regex_result[VERIF_MAX_REGEX];      /* 0 = match, anything else = no match */
const char *verif_regexec_subject;            /* subject of the last regexec call */
const regex_t *verif_regexec_regex;
int verif_regex_default, verif_regex_default_set;   /* result for regex objects that are not registered */
unsigned verif_regexec_calls;
unsigned verif_regcomp_calls;
unsigned verif_regfree_calls;

static int verif_regexec(const regex_t *preg, const char *string, size_t nmatch, regmatch_t pmatch[], int eflags)
{
	verif_regexec_calls++;
	verif_regexec_subject = string;
	verif_regexec_regex = preg;
	POST(preg != NULL, "regexec is handed a compiled regex");
	/* (unrolled by hand: VERIF_MAX_REGEX == 4) */
	if (verif_regex_obj[0] == preg) { return verif_regex_result[0]; }
	if (verif_regex_obj[1] == preg) { return verif_regex_result[1]; }
	if (verif_regex_obj[2] == preg) { return verif_regex_result[2]; }
	if (verif_regex_obj[3] == preg) { return verif_regex_result[3]; }
	if (verif_regex_default_set) {
		return verif_regex_default;      /* unregistered regex objects (compiled inside the code under test) */
	}
	{
		VERIF_ND(int, nd_regexec_rc);
		return nd_regexec_rc;
	}
}
static int verif_regcomp(regex_t *preg, const char *regex, int cflags)
{
	VERIF_ND(int, nd_regcomp_rc);
	verif_regcomp_calls++;
	return nd_regcomp_rc;
}
static void verif_regfree(regex_t *preg) { verif_regfree_calls++; }
#define regexec verif_regexec
#define regcomp verif_regcomp
#define regfree verif_regfree

/* ---------------- pthread rwlock ---------------- */
int verif_rwlock_depth;
static int verif_rwlock_rdlock(pthread_rwlock_t *l) { verif_rwlock_depth++; return 0; }
static int verif_rwlock_wrlock(pthread_rwlock_t *l) { verif_rwlock_depth++; return 0; }
static int verif_rwlock_unlock(pthread_rwlock_t *l) { verif_rwlock_depth--; return 0; }
static int verif_rwlock_init(pthread_rwlock_t *l, const pthread_rwlockattr_t *a) { return 0; }
static int verif_rwlock_destroy(pthread_rwlock_t *l) { return 0; }
#define pthread_rwlock_rdlock verif_rwlock_rdlock
#define pthread_rwlock_wrlock verif_rwlock_wrlock
#define pthread_rwlock_unlock verif_rwlock_unlock
#define pthread_rwlock_init verif_rwlock_init
#define pthread_rwlock_destroy verif_rwlock_destroy

/* ---------------- semaphores (ghost counter per semaphore object: only two exist in log_thread.c) ---------------- */
int verif_sem_value;          /* value of the "print finished" semaphore (the only one that is counted) */
const sem_t *verif_sem_counted;     /* address of the counted semaphore (set by the harness) */
unsigned verif_sem_posts, verif_sem_waits, verif_sem_destroys, verif_sem_inits;
int verif_sem_destroyed;      /* the counted semaphore was destroyed */
static int verif_sem_init(sem_t *s, int pshared, unsigned v)
{
	verif_sem_inits++;
	if (s == verif_sem_counted) { verif_sem_value = (int)v; verif_sem_destroyed = 0; }
	return 0;
}
static int verif_sem_post(sem_t *s)
{
	if (s == verif_sem_counted) {
		POST(!verif_sem_destroyed, "a destroyed semaphore is not posted");
#ifdef VERIF_SEM_POST_HOOK
		VERIF_SEM_POST_HOOK();   /* unit hook: observe the module state at the moment the worker is woken */
#endif
		verif_sem_posts++; verif_sem_value++;
	}
	return 0;
}
static int verif_sem_wait(sem_t *s)
{
	if (s == verif_sem_counted) {
#ifdef VERIF_SEM_WAIT_HOOK
		VERIF_SEM_WAIT_HOOK();     /* unit-specific observer (e.g. "one worker iteration finished") */
#endif
		POST(!verif_sem_destroyed, "a destroyed semaphore is not waited on");
		POST(verif_sem_value > 0, "sequential model: the semaphore is only waited on when it was posted");
		verif_sem_waits++; verif_sem_value--;
	}
	return 0;
}
static int verif_sem_getvalue(sem_t *s, int *v)
{
	if (s == verif_sem_counted) { *v = verif_sem_value; }
	else { *v = 0; }
	return 0;
}
static int verif_sem_destroy(sem_t *s)
{
	verif_sem_destroys++;
	if (s == verif_sem_counted) { verif_sem_destroyed = 1; }
	return 0;
}
#define sem_init verif_sem_init
#define sem_post verif_sem_post
#define sem_wait verif_sem_wait
#define sem_getvalue verif_sem_getvalue
#define sem_destroy verif_sem_destroy

/* ---------------- threads ---------------- */
unsigned verif_thread_creates, verif_thread_joins;
int verif_thread_create_rc;
static int verif_pthread_create(pthread_t *t, const pthread_attr_t *a, void *(*fn)(void *), void *arg)
{
	if (verif_thread_create_rc == 0) { verif_thread_creates++; *t = (pthread_t)1; }
	return verif_thread_create_rc;
}
static int verif_pthread_join(pthread_t t, void **r) { verif_thread_joins++; return 0; }
static void verif_pthread_exit(void *r) __attribute__((noreturn));
static void verif_pthread_exit(void *r)
{
#ifdef VERIF_PTHREAD_EXIT_HOOK
	VERIF_PTHREAD_EXIT_HOOK();       /* unit-specific observer: the state in which the thread ends */
#endif
#ifdef VERIF_NATIVE
	exit(0);
#else
	__CPROVER_assume(0);
	while (1) { }
#endif
}
static int verif_pthread_setschedparam(pthread_t t, int policy, const struct sched_param *p)
{
	VERIF_ND(int, nd_setsched_rc);
	return nd_setsched_rc;
}
#define pthread_create verif_pthread_create
#define pthread_join verif_pthread_join
#define pthread_exit verif_pthread_exit
#define pthread_setschedparam verif_pthread_setschedparam

/* ---------------- strings ---------------- */
static char *verif_strchrnul(const char *s, int c)
{
	while (*s != 0 && *s != (char)c) {
		s++;
	}
	return (char *)s;
}
#define strchrnul verif_strchrnul

/* strcmp: by default the reference loop.  With -DVERIF_STRCMP_PREFIX2 a loop-free SOUND over-approximation:
 * exact on the first two characters (hence exact whenever one side is a one-character string such as "*"),
 * any result for strings that agree on two non-NUL characters. */
static int verif_strcmp(const char *a, const char *b)
{
#ifdef VERIF_STRCMP_PREFIX2
	if (a[0] != b[0]) { return (unsigned char)a[0] < (unsigned char)b[0] ? -1 : 1; }
	if (a[0] == 0) { return 0; }
	if (a[1] != b[1]) { return (unsigned char)a[1] < (unsigned char)b[1] ? -1 : 1; }
	if (a[1] == 0) { return 0; }
	{
		VERIF_ND(int, nd_strcmp_rest);
		return nd_strcmp_rest;
	}
#else
	size_t i = 0;
	while (a[i] == b[i]) {
		if (a[i] == 0) {
			return 0;
		}
		i++;
	}
	return (unsigned char)a[i] < (unsigned char)b[i] ? -1 : 1;
#endif
}
#define strcmp verif_strcmp

const char *verif_strstr_hay, *verif_strstr_needle;
unsigned verif_strstr_calls;
int verif_strstr_found;       /* result of the last strstr call */
int verif_strstr_mode;        /* -1: any result per call; 0: never found; 1: always found */
static char *verif_strstr(const char *hay, const char *needle)
{
	VERIF_ND(uint8_t, nd_strstr_found);
	if (verif_strstr_mode >= 0) {
		nd_strstr_found = (uint8_t)verif_strstr_mode;      /* harness fixed the answer for all calls */
	}
	verif_strstr_calls++;
	verif_strstr_hay = hay;
	verif_strstr_needle = needle;
	verif_strstr_found = nd_strstr_found != 0;
	return nd_strstr_found ? (char *)hay : NULL;
}
#define strstr verif_strstr

/* the one message buffer the delivery code formats into / is handed */
const char *verif_msg_buf;    /* start of the message (set by vsnprintf stub or harness) */
long verif_msg_len;           /* its strlen */
long verif_xc_pos;            /* position of the first QB_XC marker, or -1 */
static char *verif_strchr(const char *s, int c)
{
	if (c == '\a') {
		POST(s == verif_msg_buf, "marker search runs on the formatted message");
		/* constant offsets (see verif_vsnprintf) */
		return verif_xc_pos == 0 ? (char *)s : verif_xc_pos == 1 ? (char *)s + 1 : verif_xc_pos == 2 ? (char *)s + 2 :
		       verif_xc_pos > 2 ? (char *)s + verif_xc_pos : NULL;
	}
	while (*s != (char)c) {
		if (*s == 0) {
			return NULL;
		}
		s++;
	}
	return (char *)s;
}
#define strchr verif_strchr

static size_t verif_strlen(const char *s)
{
	size_t n = 0;
	if (s == verif_msg_buf) {
		return (size_t)verif_msg_len;
	}
	while (s[n] != 0) {
		n++;
	}
	return n;
}
#define strlen verif_strlen

unsigned verif_vsnprintf_calls;
/* message model: three arbitrary characters + NUL; the QB_XC marker absent or at position 0, 1 or 2 (first / middle /
 * last: the three cases qb_do_extended distinguishes).  Constant offsets only: byte arrays written through symbolic
 * indexes made the 32-slot delivery units run out of memory. */
static int verif_vsnprintf(char *str, size_t size, const char *fmt, va_list ap)
{
	VERIF_ND(int8_t, nd_xc_pos);
	VERIF_ND(uint8_t, nd_m0);
	VERIF_ND(uint8_t, nd_m1);
	VERIF_ND(uint8_t, nd_m2);
	verif_vsnprintf_calls++;
	POST(size >= 4, "formatter is handed a buffer of at least four bytes");
#ifdef VERIF_MSG_EMPTY
	/* cheapest message: the empty expansion (vsnprintf returns 0).  cs_format then touches no byte of the buffer through a
	 * symbolic index, which is what made the 32-slot delivery units take minutes / run out of memory. */
	str[0] = 0;
	verif_msg_buf = str;
	verif_msg_len = 0;
	verif_xc_pos = -1;
	return 0;
#endif
	ASSUME(nd_xc_pos >= -1 && nd_xc_pos <= 2);
	ASSUME(nd_m0 != 0 && nd_m1 != 0 && nd_m2 != 0 && nd_m0 != '\a' && nd_m1 != '\a' && nd_m2 != '\a');
#ifdef VERIF_CBMC
	__CPROVER_assert(__CPROVER_w_ok(str, size), "formatter output buffer writable for its whole size");
#endif
	str[0] = nd_xc_pos == 0 ? '\a' : (char)nd_m0;
	str[1] = nd_xc_pos == 1 ? '\a' : (char)nd_m1;
	str[2] = nd_xc_pos == 2 ? '\a' : (char)nd_m2;
	str[3] = 0;
	verif_msg_buf = str;
	verif_msg_len = 3;
	verif_xc_pos = nd_xc_pos;
	return 3;
}
#define vsnprintf verif_vsnprintf

/* snprintf: "%.*s" (token extraction in _cs_matches_filter_) is modelled exactly; any other format writes "" */
static int verif_snprintf(char *str, size_t size, const char *fmt, ...)
{
	va_list ap;
	int n = 0;
	va_start(ap, fmt);
	if (fmt[0] == '%' && fmt[1] == '.' && fmt[2] == '*' && fmt[3] == 's' && fmt[4] == 0) {
		int prec = va_arg(ap, int);
		const char *s = va_arg(ap, const char *);
		while ((prec < 0 || n < prec) && s[n] != 0) {
			if ((size_t)n + 1 < size) {
				str[n] = s[n];
			}
			n++;
		}
		if (size > 0) {
			str[(size_t)n < size ? (size_t)n : size - 1] = 0;
		}
	} else if (size > 0) {
		str[0] = 0;
	}
	va_end(ap);
	return n;
}
#define snprintf verif_snprintf

static char *verif_strdup(const char *s)
{
	VERIF_ND(uint8_t, nd_strdup_fails);
	size_t n = 0, i;
	char *p;
	if (nd_strdup_fails) {
		errno = ENOMEM;
		return NULL;
	}
	while (s[n] != 0) {
		n++;
	}
	p = verif_new(n + 1);
	for (i = 0; i <= n; i++) {
		p[i] = s[i];
	}
	return p;
}
#define strdup verif_strdup

static void verif_log_os_reset(void)
{
	verif_regex_obj[0] = NULL; verif_regex_obj[1] = NULL; verif_regex_obj[2] = NULL; verif_regex_obj[3] = NULL;
	verif_regex_result[0] = 1; verif_regex_result[1] = 1; verif_regex_result[2] = 1; verif_regex_result[3] = 1;
	verif_regexec_subject = NULL; verif_regexec_regex = NULL;
	verif_regexec_calls = 0; verif_regcomp_calls = 0; verif_regfree_calls = 0;
	verif_rwlock_depth = 0;
	verif_sem_value = 0; verif_sem_counted = NULL; verif_sem_posts = 0; verif_sem_waits = 0;
	verif_sem_destroys = 0; verif_sem_inits = 0; verif_sem_destroyed = 0;
	verif_thread_creates = 0; verif_thread_joins = 0; verif_thread_create_rc = 0;
	verif_strstr_hay = NULL; verif_strstr_needle = NULL; verif_strstr_calls = 0; verif_strstr_found = 0; verif_strstr_mode = -1;
	verif_regex_default = 1; verif_regex_default_set = 0;
	verif_msg_buf = NULL; verif_msg_len = 0; verif_xc_pos = -1;
	verif_vsnprintf_calls = 0;
}
#endif
