/* signal-API model (assumed contract): the process-wide signal dispositions are a ghost bit set.
 *   - signal numbers 1..64 exist (Linux: SIGRTMAX == 64 == NSIG - 1); a handler can be installed for every one of
 *     them except SIGKILL, SIGSTOP and the two numbers glibc keeps for itself (32, 33);
 *   - sigemptyset / sigaddset / sigismember work on bit (n - 1) of the first word of the sigset_t (as glibc does)
 *     and report -1 for a number outside 1..64;
 *   - sigaction(n, act, NULL) installs the handler (ghost bit verif_sig_installed) or fails with EINVAL for a number
 *     that cannot be caught; signal(n, SIG_DFL) removes it;
 *   - none of them touches the loop's data.
 * Stronger than stubs/signals.h (which ignores the sets); use one or the other.
 * Include after <signal.h> and before the spliced source. */
#ifndef VERIF_STUB_SIGMODEL_H
#define VERIF_STUB_SIGMODEL_H
#include <signal.h>
#include <errno.h>
#include <stdint.h>
uint64_t verif_sig_installed;      /* ghost: bit n-1 set = a handler is installed for signal n */
uint64_t verif_sig_sigaction_on;   /* ghost: signals sigaction() was called for since the harness cleared it */
unsigned verif_sigaction_calls, verif_signal_dfl_calls;
#define VERIF_SIG_VALID(n) ((n) >= 1 && (n) <= 64)
#define VERIF_SIG_CATCHABLE(n) (VERIF_SIG_VALID(n) && (n) != SIGKILL && (n) != SIGSTOP && (n) != 32 && (n) != 33)
#define VERIF_SIG_BIT(n) (((uint64_t)1) << ((n) - 1))
static int verif_sigemptyset(sigset_t *s) { s->__val[0] = 0; return 0; }
static int verif_sigaddset(sigset_t *s, int n)
{
	if (!VERIF_SIG_VALID(n)) { errno = EINVAL; return -1; }
	s->__val[0] |= VERIF_SIG_BIT(n);
	return 0;
}
static int verif_sigismember(const sigset_t *s, int n)
{
	if (!VERIF_SIG_VALID(n)) { errno = EINVAL; return -1; }
	return (s->__val[0] & VERIF_SIG_BIT(n)) != 0;
}
static int verif_sigaction(int n, const struct sigaction *a, struct sigaction *o)
{
	verif_sigaction_calls++;
	if (!VERIF_SIG_CATCHABLE(n)) { errno = EINVAL; return -1; }
	verif_sig_sigaction_on |= VERIF_SIG_BIT(n);
	if (a != NULL) {
		verif_sig_installed |= VERIF_SIG_BIT(n);
	}
	return 0;
}
static __sighandler_t verif_signal(int n, __sighandler_t h)
{
	verif_signal_dfl_calls++;
	if (!VERIF_SIG_CATCHABLE(n)) { errno = EINVAL; return SIG_ERR; }
	if (h == SIG_DFL) {
		verif_sig_installed &= ~VERIF_SIG_BIT(n);
	} else {
		verif_sig_installed |= VERIF_SIG_BIT(n);
	}
	return SIG_DFL;
}
#undef sigemptyset
#undef sigaddset
#undef sigismember
#define sigemptyset verif_sigemptyset
#define sigaddset verif_sigaddset
#define sigismember verif_sigismember
#define sigaction(n, a, o) verif_sigaction(n, a, o)
#define signal verif_signal
#endif
