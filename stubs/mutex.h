/* pthread mutex as sequential no-ops (assumption: single thread, lock operations succeed).
 * verif_mutex_depth counts lock minus unlock so units can check balanced locking.
 * Include after <pthread.h> and before the spliced source. */
#ifndef VERIF_STUB_MUTEX_H
#define VERIF_STUB_MUTEX_H
#include <pthread.h>
int verif_mutex_depth;
static int verif_pthread_mutex_init(pthread_mutex_t *m, const pthread_mutexattr_t *a) { return 0; }
static int verif_pthread_mutex_destroy(pthread_mutex_t *m) { return 0; }
static int verif_pthread_mutex_lock(pthread_mutex_t *m) { verif_mutex_depth++; return 0; }
static int verif_pthread_mutex_unlock(pthread_mutex_t *m) { verif_mutex_depth--; return 0; }
#define pthread_mutex_init verif_pthread_mutex_init
#define pthread_mutex_destroy verif_pthread_mutex_destroy
#define pthread_mutex_lock verif_pthread_mutex_lock
#define pthread_mutex_unlock verif_pthread_mutex_unlock
#endif
