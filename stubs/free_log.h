/* free() observer that LOGS every released object (new file; free_watch.h only watches three given pointers):
 * the destroy units check that every node / notifier registration / container object is handed back exactly
 * once.  (CBMC's own free() model detects double free and use after free, but cannot be asked whether an object
 * HAS been freed: it remembers one nondeterministically chosen freed object only.)  Then really frees.
 * Include after the system headers and before the spliced source. */
#ifndef VERIF_STUB_FREE_LOG_H
#define VERIF_STUB_FREE_LOG_H
#include <stdlib.h>
#ifndef VERIF_FREE_LOG_MAX
#define VERIF_FREE_LOG_MAX 16
#endif
void *verif_free_log[VERIF_FREE_LOG_MAX];
unsigned verif_free_n;                /* ghost: number of free() calls with a non-NULL argument */
static void verif_free_logged(void *p)
{
	if (p != NULL) {
		if (verif_free_n < VERIF_FREE_LOG_MAX) {
			verif_free_log[verif_free_n] = p;
		}
		verif_free_n++;
	}
	free(p);
}
static unsigned verif_freed_times(const void *p)
{
	unsigned i, c = 0;
	for (i = 0; i < VERIF_FREE_LOG_MAX; i++) {
		if (i < verif_free_n && verif_free_log[i] == p) {
			c++;
		}
	}
	return c;
}
static void verif_free_log_reset(void)
{
	verif_free_n = 0;
}
#define free verif_free_logged
#endif
