/* epoll / rlimit / misc OS stubs for the descriptor source (assumed contracts, DESIGN.md 5.3).
 *  epoll_ctl   records the last request (ghost) and fails or succeeds as the unit scripts / draws;
 *  epoll_wait  delivers verif_ep_n (<= 2) events whose user data and event bits the unit sets beforehand
 *              (verif_ep_data[], verif_ep_bits[]); may fail once with EINTR first;
 *  getrlimit   any limit up to 2^30 or failure; usleep/close: no effect.
 * Include after <sys/epoll.h>, <sys/resource.h>, <unistd.h> and before the spliced source. */
#ifndef VERIF_STUB_EPOLL_H
#define VERIF_STUB_EPOLL_H
#include "verif.h"
#include <sys/epoll.h>
#include <sys/resource.h>
#include <unistd.h>
#include <errno.h>
int verif_epctl_calls, verif_epctl_last_op, verif_epctl_last_fd;
uint64_t verif_epctl_last_data;
uint32_t verif_epctl_last_events;
int verif_epctl_may_fail;          /* unit switch */
int verif_ep_n;                    /* events the next epoll_wait delivers */
uint64_t verif_ep_data[2];
uint32_t verif_ep_bits[2];
int verif_epwait_calls, verif_epwait_last_timeout;
int verif_ep_eintr_first;          /* unit switch: first epoll_wait call is interrupted */
int verif_ep_fails;                /* unit switch: epoll_wait fails with EBADF */

static int verif_epoll_create1(int flags) { VERIF_ND(int32_t, nd_epfd); return nd_epfd >= 0 ? nd_epfd : -1; }
static int verif_epoll_ctl(int epfd, int op, int fd, struct epoll_event *ev)
{
	VERIF_ND(uint8_t, nd_epctl_fails);
	VERIF_ND(int32_t, nd_epctl_errno);
	verif_epctl_calls++;
	verif_epctl_last_op = op;
	verif_epctl_last_fd = fd;
	if (ev != NULL) {
		verif_epctl_last_data = ev->data.u64;
		verif_epctl_last_events = ev->events;
	}
	if (nd_epctl_fails && verif_epctl_may_fail) {
		ASSUME(nd_epctl_errno >= 1 && nd_epctl_errno <= 4095);
		errno = nd_epctl_errno;
		return -1;
	}
	return 0;
}
static int verif_epoll_wait(int epfd, struct epoll_event *events, int maxevents, int timeout)
{
	verif_epwait_calls++;
	verif_epwait_last_timeout = timeout;
	if (verif_ep_eintr_first && verif_epwait_calls == 1) {
		errno = EINTR;
		return -1;
	}
	if (verif_ep_fails) {
		errno = EBADF;
		return -1;
	}
	errno = 0;
	for (int i = 0; i < 2; i++) {
		if (i < verif_ep_n && i < maxevents) {
			events[i].data.u64 = verif_ep_data[i];
			events[i].events = verif_ep_bits[i];
		}
	}
	return verif_ep_n;
}
static int verif_getrlimit(int res, struct rlimit *lim)
{
	VERIF_ND(uint8_t, nd_rlimit_fails);
	VERIF_ND(uint32_t, nd_rlim_cur);
	if (nd_rlimit_fails) {
		return -1;
	}
	ASSUME(nd_rlim_cur <= (1u << 30));   /* assumed: RLIMIT_NOFILE is bounded by the kernel's nr_open (< 2^31) */
	lim->rlim_cur = nd_rlim_cur;
	lim->rlim_max = nd_rlim_cur;
	return 0;
}
static int verif_usleep(unsigned us) { return 0; }
static int verif_close(int fd) { return 0; }
#define epoll_create1 verif_epoll_create1
#define epoll_ctl verif_epoll_ctl
#define epoll_wait verif_epoll_wait
#define getrlimit(r, l) verif_getrlimit((int)(r), l)
#define usleep verif_usleep
#define close verif_close
#endif
