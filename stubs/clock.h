/* Clock stubs (assumed contract, DESIGN.md 5.3): the monotonic clock and the wall clock are ghost values
 * set by the harness (verif_now_mono / verif_now_epoch; a harness that calls the code several times advances
 * them monotonically itself); the tick rate verif_hz is any value >= 1.
 * Include after <qb/qbutil.h> and before the spliced source. */
#ifndef VERIF_STUB_CLOCK_H
#define VERIF_STUB_CLOCK_H
#include <qb/qbutil.h>
uint64_t verif_now_mono, verif_now_epoch, verif_hz;
unsigned verif_clock_reads;
static uint64_t verif_qb_util_nano_current_get(void) { verif_clock_reads++; return verif_now_mono; }
static uint64_t verif_qb_util_nano_from_epoch_get(void) { return verif_now_epoch; }
static uint64_t verif_qb_util_nano_monotonic_hz(void) { return verif_hz; }
#define qb_util_nano_current_get verif_qb_util_nano_current_get
#define qb_util_nano_from_epoch_get verif_qb_util_nano_from_epoch_get
#define qb_util_nano_monotonic_hz verif_qb_util_nano_monotonic_hz
#endif
