/* Allocation stubs with a SCRIPTED outcome (assumed contracts, DESIGN.md 5.3), for units that enumerate
 * their cases with concrete control flow (units/map): the harness sets verif_alloc_fail per case, so
 * "allocation fails" / "allocation succeeds" are separate enumerated cases instead of a nondet choice
 * inside the call (a symbolic choice here makes every later pointer of the structure symbolic).
 * - calloc/malloc: fail (NULL, errno = ENOMEM) iff verif_alloc_fail, otherwise a fresh (zeroed) object.
 * - realloc: fails likewise (old object untouched), otherwise a fresh object of the new size holding the
 *   common prefix (memcpy), the old object is freed.
 * - verif_alloc_budget >= 0: exactly that many further allocations succeed, all later ones fail.
 * Include after the system headers and before the spliced source.  Do not combine with alloc.h. */
#ifndef VERIF_STUB_ALLOC_SCRIPT_H
#define VERIF_STUB_ALLOC_SCRIPT_H
#include "verif.h"
#include <stdlib.h>
#include <errno.h>
#include <string.h>

int verif_alloc_fail;         /* harness switch: 1 = allocations fail from now on */
int verif_alloc_budget = -1;  /* harness switch: >= 0 = only this many more allocations succeed, then they fail */
#define VERIF_ALLOC_FAILS_NOW() (verif_alloc_fail || (verif_alloc_budget >= 0 && verif_alloc_budget-- <= 0 && (verif_alloc_budget = 0, 1)))
unsigned verif_alloc_calls;   /* ghost: number of successful allocations */
unsigned verif_free_calls;    /* ghost: number of free() calls with a non-NULL argument */

static void *verif_calloc(size_t n, size_t sz)
{
	void *p;
	if (VERIF_ALLOC_FAILS_NOW()) {
		errno = ENOMEM;
		return NULL;
	}
	p = calloc(n, sz);
#ifdef VERIF_CBMC
	__CPROVER_assume(p != NULL);
#endif
	verif_alloc_calls++;
	return p;
}

static void *verif_malloc(size_t n)
{
	void *p;
	if (VERIF_ALLOC_FAILS_NOW()) {
		errno = ENOMEM;
		return NULL;
	}
	p = malloc(n ? n : 1);   /* glibc: malloc(0) returns a unique non-NULL pointer (CBMC would make it nondet) */
#ifdef VERIF_CBMC
	__CPROVER_assume(p != NULL);
#endif
	verif_alloc_calls++;
	return p;
}

static void *verif_realloc(void *old, size_t n)
{
#ifdef VERIF_CBMC
	char *p;
	if (VERIF_ALLOC_FAILS_NOW()) {
		errno = ENOMEM;
		return NULL;
	}
	p = malloc(n ? n : 1);
	__CPROVER_assume(p != NULL);
	if (old != NULL) {
		size_t osz = __CPROVER_OBJECT_SIZE(old);
#ifdef VERIF_REALLOC_PTRWISE
		/* copy pointer-sized words one by one when both sizes are multiples of the pointer size: a byte-wise
		 * memcpy turns every pointer of a children[] array into a byte-extract expression and symbolic
		 * execution can no longer decide "children[i] != NULL" for CONCRETE structures */
		if (osz % sizeof(void *) == 0 && n % sizeof(void *) == 0) {
			size_t w_, nw_ = (osz < n ? osz : n) / sizeof(void *);
			for (w_ = 0; w_ < nw_; w_++) {
				((void **)p)[w_] = ((void **)old)[w_];
			}
		} else
#endif
		memcpy(p, old, osz < n ? osz : n);
		free(old);
	}
	verif_alloc_calls++;
	return p;
#else
	if (VERIF_ALLOC_FAILS_NOW()) {
		errno = ENOMEM;
		return NULL;
	}
	return realloc(old, n);
#endif
}

#define calloc verif_calloc
#define malloc verif_malloc
#define realloc verif_realloc
#endif
