/* qb_atomic_int_* as sequential operations (assumption: single thread; see DESIGN.md 5.3). */
#ifndef VERIF_STUB_ATOMIC_H
#define VERIF_STUB_ATOMIC_H
#include <qb/qbatomic.h>
static void verif_qb_atomic_init(void) { }
static int32_t verif_qb_atomic_int_exchange_and_add(volatile int32_t *atomic, int32_t val)
{
	int32_t old = *atomic;
	*atomic = (int32_t)((uint32_t)old + (uint32_t)val);
	return old;
}
static void verif_qb_atomic_int_add(volatile int32_t *atomic, int32_t val)
{
	*atomic = (int32_t)((uint32_t)*atomic + (uint32_t)val);
}
static int32_t verif_qb_atomic_int_compare_and_exchange(volatile int32_t *atomic, int32_t oldval, int32_t newval)
{
	if (*atomic == oldval) { *atomic = newval; return QB_TRUE; }
	return QB_FALSE;
}
#define qb_atomic_init verif_qb_atomic_init
#define qb_atomic_int_exchange_and_add verif_qb_atomic_int_exchange_and_add
#define qb_atomic_int_add verif_qb_atomic_int_add
#define qb_atomic_int_compare_and_exchange verif_qb_atomic_int_compare_and_exchange
#undef qb_atomic_int_get
#undef qb_atomic_int_set
#undef qb_atomic_pointer_get
#undef qb_atomic_pointer_set
#define qb_atomic_int_get(atomic) ((int32_t)*(atomic))
#define qb_atomic_int_set(atomic, newval) ((void)(*(atomic) = (newval)))
#define qb_atomic_pointer_get(atomic) ((void *)*(atomic))
#define qb_atomic_pointer_set(atomic, newval) ((void *)(*(atomic) = (newval)))
#endif
