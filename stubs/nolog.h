/* Declared extraction drop (DESIGN.md 3.1): libqb's internal diagnostics (qb_util_log / qb_util_perror)
 * are compiled out -- exactly the formatting and emission of a log line is dropped; the surrounding
 * errno assignments and all control flow stay.  Include after "util_int.h". */
#ifndef VERIF_STUB_NOLOG_H
#define VERIF_STUB_NOLOG_H
#include "util_int.h"
#undef qb_util_log
#define qb_util_log(...) ((void)0)
#undef qb_util_perror
#define qb_util_perror(...) ((void)0)
#undef qb_enter
#define qb_enter() ((void)0)
#undef qb_leave
#define qb_leave() ((void)0)
#endif
